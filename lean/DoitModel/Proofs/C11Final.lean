import DoitModel.Proofs.C11Proc
import DoitModel.Proofs.C11Lazy
/-! # C11: from the invariants to the statements of `Props/C11.lean` -/
namespace DoitModel.Run

theorem treach_base {inp : RunInput} {tdFail : Name → Bool} {v : Variant} {ts : TSys} (h : TReach inp tdFail v ts) :
    (inp.runner = .serial → Reach inp ts.base) ∧ (inp.runner ≠ .serial → PReach inp ts.base) := by
  induction h with
  | init => exact ⟨fun _ => Reach.init, fun _ => PReach.init⟩
  | @next ts ts' c _ hs ih =>
    unfold tstep at hs
    cases hb : stepOf inp ts.base c with
    | none => simp only [hb] at hs; cases hs
    | some b' =>
      simp only [hb] at hs; cases hs
      rw [tdAfter_base]
      unfold stepOf at hb
      constructor
      · intro hser; rw [if_pos hser] at hb; exact Reach.next (ih.1 hser) hb
      · intro hpar; rw [if_neg hpar] at hb; exact PReach.next (ih.2 hpar) hb

theorem tRunWith_sound {inp : RunInput} {tdFail : Name → Bool} {v : Variant} : ∀ (cs : List Choice) (ts ts' : TSys),
    TReach inp tdFail v ts → tRunWith inp tdFail v ts cs = some ts' → TReach inp tdFail v ts' := by
  intro cs
  induction cs with
  | nil => intro ts ts' h e; simp only [tRunWith] at e; cases e; exact h
  | cons c cs ih =>
    intro ts ts' h e
    simp only [tRunWith] at e
    cases hc : tstep inp tdFail v ts c with
    | none => simp only [hc] at e; cases e
    | some t1 => simp only [hc] at e; exact ih t1 ts' (TReach.next h hc) e

/-- run a choice list from the initial state and test the result -/
def tCheck (inp : RunInput) (tdFail : Name → Bool) (v : Variant) (cs : List Choice) (p : TSys → Bool) : Bool :=
  match tRunWith inp tdFail v (tinit inp) cs with
  | some ts => p ts
  | none => false

theorem tCheck_reach {inp : RunInput} {tdFail : Name → Bool} {v : Variant} {cs : List Choice} {p : TSys → Bool}
    (h : tCheck inp tdFail v cs p = true) : ∃ ts, TReach inp tdFail v ts ∧ p ts = true := by
  unfold tCheck at h
  cases hr : tRunWith inp tdFail v (tinit inp) cs with
  | none => simp only [hr] at h; cases h
  | some ts => simp only [hr] at h; exact ⟨ts, tRunWith_sound cs _ _ TReach.init hr, h⟩

/-- the choices of the default schedule of the base model -/
def defaultChoices (inp : RunInput) (workersFirst rev : Bool) (fuel : Nat) : List Choice :=
  (autoRun inp workersFirst rev fuel (init inp)).2

/-! ### counting -/

theorem count_run_teardownRun (tdFail : Name → Bool) (w : Option Nat) (n : Name) (l : List Name) :
    (teardownRun tdFail w l).count (TdEv.run n w) = l.count n := by
  have key : ∀ m : List Name, (m.flatMap fun t => if tdFail t then [TdEv.run t w, TdEv.err t w] else [TdEv.run t w]).count
      (TdEv.run n w) = m.count n := by
    intro m
    induction m with
    | nil => rfl
    | cons t m ih =>
      rw [List.flatMap_cons, List.count_append, ih, List.count_cons]
      by_cases e : t = n
      · subst e; cases tdFail t <;> simp <;> omega
      · cases tdFail t <;> simp [e]
  unfold teardownRun
  rw [key, List.count_reverse]

theorem count_startOrder (inp : RunInput) (n : Name) (evs : List Ev) :
    (startOrder inp evs).count n = if inp.hasTeardown n then evs.countP (Ev.isStartOf n) else 0 := by
  unfold startOrder
  rw [List.count_reverse]
  induction evs with
  | nil => simp
  | cons e t ih =>
    by_cases hs : ∃ m w, e = Ev.start m w
    · obtain ⟨m, w, rfl⟩ := hs
      by_cases hm : inp.hasTeardown m = true
      · by_cases e : m = n
        · subst e; simp [tdName, hm, Ev.isStartOf, ih]
        · simp [tdName, hm, Ev.isStartOf, ih, e, Ne.symm e]
      · by_cases e : m = n
        · subst e; simp [tdName, hm, ih]
        · simp [tdName, hm, ih, List.countP_cons, Ev.isStartOf, e]
    · have h1 : tdName inp e = none := by
        cases e <;> first | rfl | exact absurd ⟨_, _, rfl⟩ hs
      have h2 : Ev.isStartOf n e = false := by
        cases e <;> first | rfl | exact absurd ⟨_, _, rfl⟩ hs
      simp [h1, h2, ih]

theorem teardownAbort_noFail (tdFail : Name → Bool) (w : Option Nat) : ∀ l : List Name,
    (∀ t ∈ l, tdFail t = false) → teardownAbort tdFail w l = l.map fun t => TdEv.run t w := by
  intro l
  induction l with
  | nil => intro _; rfl
  | cons t l ih =>
    intro h
    simp only [teardownAbort, h t (List.mem_cons_self ..), List.map_cons]
    rw [ih (fun x hx => h x (List.mem_cons_of_mem _ hx))]
    simp

theorem teardownRun_noFail (tdFail : Name → Bool) (w : Option Nat) (l : List Name)
    (h : ∀ t ∈ l, tdFail t = false) : teardownRun tdFail w l = l.reverse.map fun t => TdEv.run t w := by
  unfold teardownRun
  have : ∀ m : List Name, (∀ t ∈ m, tdFail t = false) →
      (m.flatMap fun t => if tdFail t then [TdEv.run t w, TdEv.err t w] else [TdEv.run t w]) =
      m.map fun t => TdEv.run t w := by
    intro m
    induction m with
    | nil => intro _; rfl
    | cons t m ih =>
      intro hm
      rw [List.flatMap_cons, ih (fun x hx => hm x (List.mem_cons_of_mem _ hx)), hm t (List.mem_cons_self ..)]
      simp
  exact this _ (fun t ht => h t (List.mem_reverse.mp ht))

theorem logOf_reverse (e : Option Nat) (l : List TdEv) : (logOf e l).reverse = logOf e l.reverse := by
  simp [logOf, List.filter_reverse]

end DoitModel.Run
