import DoitModel.Proofs.C05Unmet
/-! # C05 (c): why a task got a report other than "executed" / "up-to-date"

Event-level invariant `InvE`, proved from the shape of a transition (`Proofs/C05Shape.lean`) and the node invariant of
`Proofs/C05Unmet.lean`: a task with a failure or `skip_ignore` report either went through the setup stage (all its
setup-tasks were processed), or is ignored itself / has an `error` status, or one of its OBSERVED first-stage
dependencies has a failure / `skip_ignore` report, or `select_task` had chosen it for execution. -/
namespace DoitModel.Run

/-- every setup-task of `u` has been processed -/
def SetupSeen (inp : RunInput) (s : Sys) (u : Name) : Prop := ∀ d ∈ inp.setup u, (stOf s d).finished = true

def Just (inp : RunInput) (s : Sys) (u : Name) : Prop :=
  SetupSeen inp s u ∨ inp.ignored u = true ∨ inp.statusOf u = .error ∨
  (∃ p, DepObs inp s.events u p ∧ ((∃ k, Ev.failure p k ∈ s.events) ∨ Ev.skipIgn p ∈ s.events)) ∨
  (∃ deps, Ev.go u deps ∈ s.events)

structure InvE (inp : RunInput) (s : Sys) : Prop where
  ie : ∀ d, stOf s d = .ign → Ev.skipIgn d ∈ s.events
  ig : ∀ d, Ev.skipIgn d ∈ s.events → stOf s d = .ign
  just : ∀ u, ((∃ k, Ev.failure u k ∈ s.events) ∨ Ev.skipIgn u ∈ s.events) → Just inp s u

theorem Just.mono {inp : RunInput} {s s' : Sys} {u : Name} (hm : ∀ e ∈ s.events, e ∈ s'.events)
    (keep : ∀ x, (stOf s x).finished = true → stOf s' x = stOf s x) (h : Just inp s u) : Just inp s' u := by
  rcases h with a | a | a | ⟨p, a, b⟩ | ⟨deps, a⟩
  · exact Or.inl (fun d hd => by rw [keep d (a d hd)]; exact a d hd)
  · exact Or.inr (Or.inl a)
  · exact Or.inr (Or.inr (Or.inl a))
  · refine Or.inr (Or.inr (Or.inr (Or.inl ⟨p, a.mono hm, ?_⟩)))
    rcases b with ⟨k, b⟩ | b
    · exact Or.inl ⟨k, hm _ b⟩
    · exact Or.inr (hm _ b)
  · exact Or.inr (Or.inr (Or.inr (Or.inr ⟨deps, hm _ a⟩)))

theorem evSt_of {inp : RunInput} {s : Sys} (hF : InvF inp s) (hE : InvE inp s) (h2 : Inv2 inp s) : EvSt s.events s := by
  intro d
  refine ⟨hF.fe d, hE.ie d, fun hg => ?_⟩
  cases hst : stOf s d <;> rw [hst] at hg <;> simp [RS.good] at hg
  · exact Or.inr ((h2.g d).2 hst)
  · exact Or.inl ((h2.g d).1 hst)

theorem init_invE (inp : RunInput) : InvE inp (init inp) :=
  ⟨fun d h => by simp [init, stOf] at h, fun d h => by simp [init] at h, fun u h => by simp [init] at h⟩

theorem quiet_not_ign {new : List Ev} (hq : ∀ e ∈ new, e.quiet = true) (n : Name) : Ev.skipIgn n ∉ new :=
  fun h => by have := hq _ h; simp [Ev.quiet] at this

theorem selEvents_ign {inp : RunInput} {n m : Name} {nd : Node} {d : Sel}
    (h : Ev.skipIgn m ∈ selEvents inp n nd d) : m = n ∧ d = .skipIgn := by
  have hs : ∀ e ∈ statusEv nd n, e = Ev.getStatus n := by
    intro e he; unfold statusEv at he; split at he <;> simp at he; exact he
  cases d <;> simp only [selEvents, List.mem_cons] at h <;>
    first
    | (rcases h with a | a
       · first | (cases a; exact ⟨rfl, rfl⟩) | cases a
       · have := hs _ a; cases this)
    | (have := hs _ h; cases this)
    | cases h

/-- the justification at the moment `select_task` answers with a failure / `skip_ignore` report -/
theorem select_just {inp : RunInput} {s : Sys} {n : Name} {nd : Node} (hU : InvU inp s) (h2 : Inv2 inp s)
    (haw : awaiting s) (hsusp : s.susp = some (.node n)) (hn : s.nodes n = some nd)
    (hd : selStatus (selDecision inp n nd) = .fail ∨ selDecision inp n nd = .skipIgn) : Just inp s n := by
  have hnd := hU.nd n nd hn
  have hok := h2.inv1.node n nd hn
  obtain ⟨nd', hn', hpc⟩ := h2.inv1.sp n hsusp
  rw [hn] at hn'; cases hn'
  by_cases h0 : nd.status = .none
  · -- a member of bad_deps / ignored_deps is an observed dependency, or was delivered by a failed calc_dep that is one
    have obs : ∀ p, IsDepOF inp s.events n nd.status p →
        ((∃ k, Ev.failure p k ∈ s.events) ∨ Ev.skipIgn p ∈ s.events) → Just inp s n := by
      intro p hp hrep
      rcases hp.witness with (a | ⟨_, a⟩) | ⟨c0, k0, a, b⟩
      · exact Or.inr (Or.inr (Or.inr (Or.inl ⟨p, a, hrep⟩)))
      · exact absurd h0 a
      · exact Or.inr (Or.inr (Or.inr (Or.inl ⟨c0, a, Or.inl ⟨k0, b⟩⟩)))
    unfold selDecision at hd
    simp only [h0, if_true] at hd
    split at hd
    · rename_i hi
      rcases hi with hi | hi
      · cases hl : nd.ign with
        | nil => exact absurd hl hi
        | cons p ps =>
          obtain ⟨a, b⟩ := hnd.ig p (by rw [hl]; simp)
          exact obs p a (Or.inr b)
      · exact Or.inr (Or.inl hi)
    · split at hd
      · rename_i hb
        cases hl : nd.bad with
        | nil => exact absurd hl hb
        | cons p ps =>
          obtain ⟨a, k, b⟩ := hnd.bd p (by rw [hl]; simp)
          exact obs p a (Or.inl ⟨k, b⟩)
      · split at hd
        · rename_i he; exact Or.inr (Or.inr (Or.inl he))
        · split at hd
          · simp [selStatus] at hd
          · split at hd
            · simp [selStatus] at hd
            · rename_i hse
              refine Or.inl (fun d hdm => ?_)
              have : inp.setup n = [] := by simpa using hse
              rw [this] at hdm; cases hdm
  · -- second pass: the generator is past the setup stage
    have hp2 : nd.pc = .afterSelf2 := by
      rcases hpc with e | e
      · exact absurd (h2.sel1 haw n nd hsusp hn e) h0
      · exact e
    have hw : nd.waitRun = [] := hok.m2 (by rw [hp2]; rfl)
    refine Or.inl (fun d hdm => ?_)
    rcases hok.ks (by rw [hp2]; rfl) d hdm with a | a
    · rw [hw] at a; cases a
    · exact a.1

theorem invE_step {inp : RunInput} {s s' : Sys} (h : InvE inp s) (hU : InvU inp s) (h2 : Inv2 inp s)
    (sh : Shape inp s s') : InvE inp s' := by
  cases sh with
  | quiet new hst hev hq hstop =>
    have hm : ∀ e ∈ s.events, e ∈ s'.events := fun e he => by rw [hev]; exact List.mem_append.mpr (Or.inr he)
    obtain ⟨q1, _, _⟩ := quiet_not hq
    refine ⟨fun d hd => hm _ (h.ie d (by rw [← hst]; exact hd)), fun d hd => ?_, fun u hu => ?_⟩
    · rw [hev] at hd; rw [hst]
      rcases List.mem_append.mp hd with b | b
      · exact absurd b (quiet_not_ign hq d)
      · exact h.ig d b
    refine (h.just u ?_).mono hm (fun x _ => hst x)
    rw [hev] at hu
    rcases hu with ⟨k, a⟩ | a
    · rcases List.mem_append.mp a with b | b
      · exact absurd b (q1 u k)
      · exact Or.inl ⟨k, b⟩
    · rcases List.mem_append.mp a with b | b
      · exact absurd b (quiet_not_ign hq u)
      · exact Or.inr b
  | select m md extra haw hsusp hn hd hst hev hq hstop =>
    have hm : ∀ e ∈ s.events, e ∈ s'.events := fun e he => by
      rw [hev]; exact List.mem_append.mpr (Or.inr (List.mem_append.mpr (Or.inr he)))
    obtain ⟨q1, _, _⟩ := quiet_not hq
    obtain ⟨c1, _, _⟩ := @selEvents_cases inp m md (selDecision inp m md)
    have hunf : (stOf s m).finished = false := by
      simp only [stOf, hn]; exact selDecision_unfinished hd
    have keep : ∀ x, (stOf s x).finished = true → stOf s' x = stOf s x := by
      intro x hx; rw [hst]; split
      · rename_i e; subst e; rw [hunf] at hx; cases hx
      · rfl
    constructor
    · intro d hdi
      rw [hst] at hdi
      by_cases e : d = m
      · subst e
        simp only [if_true] at hdi
        have : selDecision inp d md = .skipIgn := by
          cases hdd : selDecision inp d md <;> rw [hdd] at hdi <;> simp [selStatus] at hdi
        rw [hev, this]
        exact List.mem_append.mpr (Or.inr (List.mem_append.mpr (Or.inl (by simp [selEvents]))))
      · simp only [e, if_false] at hdi
        exact hm _ (h.ie d hdi)
    · intro d hdi
      rw [hev] at hdi
      rcases List.mem_append.mp hdi with b | b
      · exact absurd b (quiet_not_ign hq d)
      · rcases List.mem_append.mp b with b | b
        · obtain ⟨e1, e2⟩ := selEvents_ign b
          subst e1; rw [hst]; simp [e2, selStatus]
        · have := h.ig d b
          rw [keep d (by rw [this]; rfl)]; exact this
    · intro u hu
      rw [hev] at hu
      have old : ((∃ k, Ev.failure u k ∈ s.events) ∨ Ev.skipIgn u ∈ s.events) → Just inp s' u :=
        fun a => (h.just u a).mono hm keep
      have here : (selStatus (selDecision inp m md) = .fail ∨ selDecision inp m md = .skipIgn) → Just inp s' m :=
        fun a => (select_just hU h2 haw hsusp hn a).mono hm keep
      rcases hu with ⟨k, a⟩ | a
      · rcases List.mem_append.mp a with b | b
        · exact absurd b (q1 u k)
        · rcases List.mem_append.mp b with b | b
          · obtain ⟨e1, e2⟩ := c1 u k b
            subst e1; exact here (Or.inl e2)
          · exact old (Or.inl ⟨k, b⟩)
      · rcases List.mem_append.mp a with b | b
        · exact absurd b (quiet_not_ign hq u)
        · rcases List.mem_append.mp b with b | b
          · obtain ⟨e1, e2⟩ := selEvents_ign b
            subst e1; exact here (Or.inr e2)
          · exact old (Or.inr b)
  | result m md mid hn hrun hgo hst hev hq hstop =>
    have hm : ∀ e ∈ s.events, e ∈ s'.events := fun e he => by
      rw [hev]; exact List.mem_append.mpr (Or.inr (List.mem_append.mpr (Or.inr he)))
    obtain ⟨q1, _, _⟩ := quiet_not hq
    have hunf : (stOf s m).finished = false := by simp [stOf, hn, hrun, RS.finished]
    have keep : ∀ x, (stOf s x).finished = true → stOf s' x = stOf s x := by
      intro x hx; rw [hst]; split
      · rename_i e; subst e; rw [hunf] at hx; cases hx
      · rfl
    constructor
    · intro d hdi
      rw [hst] at hdi
      by_cases e : d = m
      · subst e
        simp only [if_true] at hdi
        cases ho : inp.outcome d <;> rw [ho] at hdi <;> simp [resStatus] at hdi
      · simp only [e, if_false] at hdi
        exact hm _ (h.ie d hdi)
    · intro d hdi
      rw [hev] at hdi
      rcases List.mem_append.mp hdi with b | b
      · cases ho : inp.outcome m <;> rw [ho] at b <;> simp [resEvents] at b
      · rcases List.mem_append.mp b with b | b
        · exact absurd b (quiet_not_ign hq d)
        · have := h.ig d b
          rw [keep d (by rw [this]; rfl)]; exact this
    · intro u hu
      rw [hev] at hu
      have old : ((∃ k, Ev.failure u k ∈ s.events) ∨ Ev.skipIgn u ∈ s.events) → Just inp s' u :=
        fun a => (h.just u a).mono hm keep
      have here : Just inp s' m := by
        obtain ⟨deps, hg⟩ := hgo
        exact Or.inr (Or.inr (Or.inr (Or.inr ⟨deps, hm _ hg⟩)))
      rcases hu with ⟨k, a⟩ | a
      · rcases List.mem_append.mp a with b | b
        · have : u = m := by cases ho : inp.outcome m <;> rw [ho] at b <;> simp [resEvents] at b <;> exact b.1
          subst this; exact here
        · rcases List.mem_append.mp b with b | b
          · exact absurd b (q1 u k)
          · exact old (Or.inl ⟨k, b⟩)
      · rcases List.mem_append.mp a with b | b
        · cases ho : inp.outcome m <;> rw [ho] at b <;> simp [resEvents] at b
        · rcases List.mem_append.mp b with b | b
          · exact absurd b (quiet_not_ign hq u)
          · exact old (Or.inr b)

theorem reach_invUE {inp : RunInput} {s : Sys} (h : Reach inp s) : InvU inp s ∧ InvE inp s := by
  induction h with
  | init => exact ⟨init_invU inp, init_invE inp⟩
  | @next s0 s1 c hr hs ih =>
    cases c with
    | main perm =>
      exact ⟨serialStep_invU ih.1 (evSt_of (reach_invF hr) ih.2 (reach_inv2 hr)) hs,
        invE_step ih.2 ih.1 (reach_inv2 hr) (serialStep_shape (reach_inv2 hr) (reach_inv3 hr) hs)⟩
    | take w => cases hs
    | done w => cases hs

theorem preach_invUE {inp : RunInput} {s : Sys} (h : PReach inp s) : InvU inp s ∧ InvE inp s := by
  induction h with
  | init => exact ⟨init_invU inp, init_invE inp⟩
  | @next s0 s1 c hr hs ih =>
    have hi := preach_inv hr
    exact ⟨pstep_invU ih.1 (evSt_of (preach_invF hr) ih.2 hi.1) hs,
      invE_step ih.2 ih.1 hi.1 (pstep_shape hi.1 hi.2 hs)⟩

theorem reach_invU {inp : RunInput} {s : Sys} (h : Reach inp s) : InvU inp s := (reach_invUE h).1
theorem preach_invU {inp : RunInput} {s : Sys} (h : PReach inp s) : InvU inp s := (preach_invUE h).1
theorem reach_invE {inp : RunInput} {s : Sys} (h : Reach inp s) : InvE inp s := (reach_invUE h).2
theorem preach_invE {inp : RunInput} {s : Sys} (h : PReach inp s) : InvE inp s := (preach_invUE h).2

/-- a task reported `unmet` has a direct dependency (as the run determines it) with a failure report -/
theorem unmet_has_failed_dep {inp : RunInput} {s : Sys} (hU : InvU inp s) (hF : InvF inp s) {t : Name}
    (h : Ev.failure t .unmet ∈ s.events) : ∃ d k, DepOnE inp s.events t d ∧ Ev.failure d k ∈ s.events := by
  obtain ⟨d, k, hdep, hf⟩ := hU.um t h
  refine ⟨d, k, ?_, hf⟩
  rcases hdep with a | a
  · exact .ns a.depNS
  · refine .setup a (fun hu => ?_)
    have h1 := hF.fl t _ h
    have h2 := hF.ut t hu
    rw [h1] at h2; cases h2

end DoitModel.Run
