import DoitModel.Proofs.RunDeliver
/-! # "Everything needed is processed" for the parallel runners, up to the queue accounting (I9) -/
namespace DoitModel.Run

/-- task `n` was chosen for execution and its result has not been processed yet -/
def InFlight (s : Sys) (n : Name) : Prop :=
  Job.task n ∈ s.jobQ ∨ holding s n = 1 ∨ (∃ w, s.workers w = .running n) ∨ n ∈ s.resQ

structure InvP (inp : RunInput) (s : Sys) : Prop where
  d : InvD inp s
  a4 : ∀ n nd, s.nodes n = some nd → nd.pc.yielded1 = true → nd.status = .none →
    s.susp = some (.node n) ∧ awaiting s
  a4b : ∀ n nd, s.nodes n = some nd → nd.pc = .afterSelf2 → nd.status ≠ .none
  a5 : ∀ n nd, s.nodes n = some nd → nd.status = .run → InFlight s n ∨
    (cGo s n = 0 ∧ inp.setup n ≠ [] ∧
      (nd.pc.inSetup = true ∨ (nd.pc = .afterSelf2 ∧ s.susp = some (.node n) ∧ awaiting s)))
  a6 : ∀ n, (stOf s n).finished = true → cTerm s n ≥ 1
  ns : ∀ w, w ≥ s.nStarted → s.workers w = .notStarted

theorem inFlight_outer {s s' : Sys} (o : SameOuter s s') (n : Name) (h : InFlight s n) : InFlight s' n := by
  obtain ⟨_, o2, o3, o4, o5, _⟩ := o
  unfold InFlight holding at *
  rw [o2, o3, o4, o5]; exact h

theorem invP_dtick {inp : RunInput} {s s' : Sys} {perm : List Name} (h : InvP inp s) (haw : awaiting s)
    (hsusp : s.susp = none) (hs : dtick inp s perm = some s') : InvP inp s' := by
  have o := dtick_outer hs
  obtain ⟨o1, o2, _⟩ := o
  have hc := fun m => counts_same o1 m
  have haw' : awaiting s' := by unfold awaiting at *; rw [o2]; exact haw
  refine ⟨dtick_invD h.d hsusp hs, ?_, ?_, ?_, ?_, ?_⟩
  rotate_left 4
  · obtain ⟨_, _, _, _, o5, _, _, _, _, _, _, o12⟩ := dtick_outer hs
    intro w hw; rw [o5]; rw [o12] at hw; exact h.ns w hw
  · intro k y hk hy hn
    rcases dtick_node hs k y hk with ⟨_, a, _⟩ | ⟨x, hx, e1, e2⟩
    · rw [a] at hy; cases hy
    · rcases e2 with e2 | ⟨hcur, tr⟩
      · have := h.a4 k x hx (e2 ▸ hy) (e1 ▸ hn)
        rw [hsusp] at this; cases this.1
      · unfold PcTrans at tr
        cases hpc : x.pc <;> rw [hpc] at tr <;> simp only at tr
        case self1 => exact ⟨tr.2, haw'⟩
        all_goals first
          | (have := h.a4 k x hx (by rw [hpc]; rfl) (e1 ▸ hn); rw [hsusp] at this; cases this.1)
          | (rw [tr] at hy; cases hy)
  · intro k y hk hpc2 hn
    rcases dtick_node hs k y hk with ⟨_, a, _⟩ | ⟨x, hx, e1, e2⟩
    · rw [a] at hpc2; cases hpc2
    · rcases e2 with e2 | ⟨hcur, tr⟩
      · exact h.a4b k x hx (e2 ▸ hpc2) (e1 ▸ hn)
      · unfold PcTrans at tr
        cases hpc : x.pc <;> rw [hpc] at tr <;> simp only at tr
        case self2 =>
          have := h.a4 k x hx (by rw [hpc]; rfl) (e1 ▸ hn); rw [hsusp] at this; cases this.1
        case afterSelf2 => rw [tr] at hpc2; cases hpc2
        case done => rw [tr] at hpc2; cases hpc2
        case afterSetup => rw [tr] at hpc2; cases hpc2
        case self1 => rw [tr.1] at hpc2; cases hpc2
        case afterSelf1 => rcases tr with ⟨_, t⟩ | ⟨_, t⟩ <;> (rw [t] at hpc2; cases hpc2)
        case setupDecide => rcases tr with ⟨_, _, t⟩ | ⟨_, t⟩ <;> (rw [t] at hpc2; cases hpc2)
        case setupIter => rcases tr with ⟨_, t⟩ | t <;> (rw [t] at hpc2; cases hpc2)
        all_goals (rw [hpc2] at tr; cases tr)
  · intro k y hk hrun
    rcases dtick_node hs k y hk with ⟨_, _, a⟩ | ⟨x, hx, e1, e2⟩
    · rw [a] at hrun; cases hrun
    · rcases h.a5 k x hx (e1 ▸ hrun) with a | ⟨a1, a2, a3⟩
      · exact Or.inl (inFlight_outer (dtick_outer hs) k a)
      · right
        refine ⟨by rw [(hc k).1]; exact a1, a2, ?_⟩
        rcases a3 with a3 | ⟨_, b, _⟩
        · rcases e2 with e2 | ⟨hcur, tr⟩
          · exact Or.inl (e2 ▸ a3)
          · unfold PcTrans at tr
            cases hpc : x.pc <;> rw [hpc] at tr a3 <;> simp only at tr <;> simp only [PC.inSetup] at a3
            case afterSelf1 =>
              rcases tr with ⟨t1, _⟩ | ⟨_, t2⟩
              · exact absurd t1 a2
              · exact Or.inl (by rw [t2]; rfl)
            case setupDecide =>
              rcases tr with ⟨_, t, t2⟩ | ⟨t1, _⟩
              · exact Or.inl (by rw [t2]; rfl)
              · exact absurd (e1 ▸ hrun) t1
            case setupIter =>
              rcases tr with ⟨t, t2⟩ | t2
              · exact Or.inl (by rw [t2]; rfl)
              · exact Or.inl (by rw [t2]; rfl)
            case afterSetup => exact Or.inl (by rw [tr]; rfl)
            case self2 => exact Or.inr ⟨tr.1, tr.2, haw'⟩
            all_goals cases a3
        · rw [hsusp] at b; cases b
  · intro n hn
    rw [dtick_stOf hs] at hn; rw [(hc n).2.2.2]; exact h.a6 n hn

theorem InvP.noPending {inp : RunInput} {s : Sys} (h : InvP inp s) (hno : ¬ awaiting s) :
    ∀ k x, s.nodes k = some x → x.pc.yielded1 = true → x.status ≠ .none := by
  intro k x hx hy hn; exact hno (h.a4 k x hx hy hn).2

theorem InvP.runOr {inp : RunInput} {s : Sys} (h : InvP inp s) (hno : ¬ awaiting s) (k : Name) (x : Node)
    (hx : s.nodes k = some x) (hrun : x.status = .run) :
    InFlight s k ∨ (cGo s k = 0 ∧ inp.setup k ≠ [] ∧ x.pc.inSetup = true) := by
  rcases h.a5 k x hx hrun with a | ⟨a1, a2, a3 | ⟨_, _, c⟩⟩
  · exact Or.inl a
  · exact Or.inr ⟨a1, a2, a3⟩
  · exact absurd c hno

/-- nodes and dispatcher untouched; flight items only move; no `go` among the new events; the runner is in the same
    waiting-for-selection mode as before -/
theorem invP_move {inp : RunInput} {s s' : Sys} (h : InvP inp s)
    (e1 : s'.nodes = s.nodes) (e2 : s'.ready = s.ready) (e3 : s'.waiting = s.waiting) (e4 : s'.cur = s.cur)
    (e5 : s'.toRun = s.toRun) (e6 : s'.susp = s.susp)
    (ev : ∃ extra, s'.events = extra ++ s.events ∧ ∀ m, extra.countP (Ev.isGoOf m) = 0)
    (hfl : ∀ k, InFlight s k → InFlight s' k)
    (hnp : ¬ awaiting s' → ∀ k x, s.susp = some (.node k) → awaiting s → s.nodes k = some x →
      x.status ≠ .none ∧ x.status ≠ .run)
    (hns : ∀ w, w ≥ s'.nStarted → s'.workers w = .notStarted) : InvP inp s' := by
  obtain ⟨extra, hev, hex0⟩ := ev
  have hst : ∀ x, stOf s' x = stOf s x := stOf_congr e1
  have cgo : ∀ m, cGo s' m = cGo s m := by intro m; simp [cGo, hev, List.countP_append, hex0 m]
  have cterm : ∀ m, cTerm s' m ≥ cTerm s m := by intro m; simp [cTerm, hev, List.countP_append]
  refine ⟨h.d.outer e1 e2 e3 e4 e5 e6, ?_, ?_, ?_, ?_, hns⟩
  · intro k y hk hy hnn
    rw [e1] at hk
    obtain ⟨a, b⟩ := h.a4 k y hk hy hnn
    by_cases haw' : awaiting s'
    · exact ⟨by rw [e6]; exact a, haw'⟩
    · exact absurd hnn (hnp haw' k y a b hk).1
  · intro k y hk hp hnn; rw [e1] at hk; exact h.a4b k y hk hp hnn
  · intro k y hk hrun
    rw [e1] at hk
    rcases h.a5 k y hk hrun with a | ⟨a1, a2, a3 | ⟨p1, b, c⟩⟩
    · exact Or.inl (hfl k a)
    · exact Or.inr ⟨by rw [cgo k]; exact a1, a2, Or.inl a3⟩
    · by_cases haw' : awaiting s'
      · exact Or.inr ⟨by rw [cgo k]; exact a1, a2, Or.inr ⟨p1, by rw [e6]; exact b, haw'⟩⟩
      · exact absurd hrun (hnp haw' k y b c hk).2
  · intro m hm; rw [hst m] at hm; have := h.a6 m hm; have := cterm m; omega


theorem invP_send {inp : RunInput} {s s0 : Sys} {node : Option Name} {perm : List Name} {ret : Ret} (h : InvP inp s)
    (h2 : Inv2 inp s) (hr : s.rpc = .gLoop node ret) (hs : send inp s node perm = some s0) :
    InvP inp { s0 with rpc := .gWait ret } := by
  have o := (send_outer hs).1
  obtain ⟨o1, _, o3, o4, o5, _⟩ := o
  obtain ⟨_, hst⟩ := send_inv1 h2.inv1 (fun p hp => h2.sb p (by simp [sentBack, hr, hp])) hs
  have keep := send_pcs hs
  have hnaw : ¬ awaiting s := by intro a; rcases a with a | ⟨r, a⟩ <;> (rw [hr] at a; cases a)
  have hc := fun m => counts_same (s' := { s0 with rpc := .gWait ret }) o1 m
  have hold0 : ∀ m, holding s m = 0 := by intro m; simp [holding, hr]
  have back : ∀ k y, s0.nodes k = some y → ∃ x, s.nodes k = some x ∧ y.pc = x.pc ∧ y.status = x.status := by
    intro k y hk
    cases hx : s.nodes k with
    | none => have := send_noNew hs k hx; rw [hk] at this; cases this
    | some x =>
      obtain ⟨x', hx', e⟩ := keep k x hx (by simp)
      rw [hk] at hx'; cases hx'
      exact ⟨x, rfl, e, by have := hst k; simpa [stOf, hk, hx] using this⟩
  have fl : ∀ k, InFlight s k → InFlight { s0 with rpc := .gWait ret } k := by
    intro k hk
    rcases hk with a | a | a | a
    · exact Or.inl (by show Job.task k ∈ s0.jobQ; rw [o3]; exact a)
    · rw [hold0] at a; cases a
    · exact Or.inr (Or.inr (Or.inl (by obtain ⟨w, hw⟩ := a; exact ⟨w, by show s0.workers w = _; rw [o5]; exact hw⟩)))
    · exact Or.inr (Or.inr (Or.inr (by show k ∈ s0.resQ; rw [o4]; exact a)))
  refine ⟨(send_invD h.d hs).outer rfl rfl rfl rfl rfl rfl, ?_, ?_, ?_, ?_, ?_⟩
  rotate_left 4
  · obtain ⟨_, _, _, _, _, _, _, _, _, _, _, o12⟩ := (send_outer hs).1
    intro w hw
    show s0.workers w = _
    rw [o5]; exact h.ns w (by rw [← o12]; exact hw)
  · intro k y hk hy hn
    obtain ⟨x, hx, e1, e2⟩ := back k y hk
    exact absurd (e2 ▸ hn) (h.noPending hnaw k x hx (e1 ▸ hy))
  · intro k y hk hp hn
    obtain ⟨x, hx, e1, e2⟩ := back k y hk
    exact h.a4b k x hx (e1 ▸ hp) (e2 ▸ hn)
  · intro k y hk hrun
    obtain ⟨x, hx, e1, e2⟩ := back k y hk
    rcases h.runOr hnaw k x hx (e2 ▸ hrun) with a | ⟨a1, a2, a3⟩
    · exact Or.inl (fl k a)
    · exact Or.inr ⟨by rw [(hc k).1]; exact a1, a2, Or.inl (e1 ▸ a3)⟩
  · intro n hn
    have : stOf { s0 with rpc := .gWait ret } n = stOf s n := hst n
    rw [this] at hn; rw [(hc n).2.2.2]; exact h.a6 n hn

/-- `select_task(n)` in `get_next_job` -/
theorem invP_select {inp : RunInput} {s : Sys} {n : Name} {nd : Node} {ret : Ret} (rpc' : RPC) (h : InvP inp s)
    (h2 : Inv2 inp s) (h3 : Inv3 inp s) (hr : s.rpc = .gWait ret) (hsusp : s.susp = some (.node n))
    (hn : s.nodes n = some nd) (hd : selDecision inp n nd ≠ .assertFail)
    (hrpc : (selDecision inp n nd = .go ∧ rpc' = .gRet (.task n) ret) ∨
            (selDecision inp n nd ≠ .go ∧ rpc' = .gLoop (some n) ret)) :
    InvP inp { applySel inp s n nd (selDecision inp n nd) with rpc := rpc' } := by
  have haw : awaiting s := Or.inr ⟨ret, hr⟩
  obtain ⟨f1, f2, f3, f4, f5, f6, f7, f8⟩ := applySel_frame inp s n nd (selDecision inp n nd)
  have hnodes := applySel_nodes inp s n nd _ hd
  have hst := stOf_applySel inp s n nd _ hd
  have hev := applySel_events inp s n nd (selDecision inp n nd)
  have sc := selEvents_counts inp n nd (selDecision inp n nd)
  have z0 : cGo s n = 0 := h3.z haw n hsusp
  have cgo : ∀ m, cGo { applySel inp s n nd (selDecision inp n nd) with rpc := rpc' } m
      = (if n = m then selGo (selDecision inp n nd) else 0) + cGo s m := by
    intro m
    show (applySel inp s n nd (selDecision inp n nd)).events.countP _ = _
    rw [hev, List.countP_append, (sc m).go]; rfl
  have cterm : ∀ m, cTerm { applySel inp s n nd (selDecision inp n nd) with rpc := rpc' } m
      = (if n = m then selTerm (selDecision inp n nd) else 0) + cTerm s m := by
    intro m
    show (applySel inp s n nd (selDecision inp n nd)).events.countP _ = _
    rw [hev, List.countP_append, (sc m).term]; rfl
  have hold0 : ∀ m, holding s m = 0 := awaiting_holding haw
  have back : ∀ k y, (applySel inp s n nd (selDecision inp n nd)).nodes k = some y →
      (k = n ∧ y = { nd with status := selStatus (selDecision inp n nd) }) ∨ (k ≠ n ∧ s.nodes k = some y) := by
    intro k y hk
    rw [hnodes] at hk
    by_cases e : k = n
    · subst e; simp [setNode] at hk; exact Or.inl ⟨rfl, hk.symm⟩
    · exact Or.inr ⟨e, by simpa [setNode, e] using hk⟩
  have others : ∀ k y, k ≠ n → s.nodes k = some y → y.pc.yielded1 = true → y.status ≠ .none := by
    intro k y hk hy hyy hnn
    have := (h.a4 k y hy hyy hnn).1
    rw [hsusp] at this; cases this; exact hk rfl
  have pcn : nd.pc = .afterSelf1 ∨ nd.pc = .afterSelf2 := by
    obtain ⟨x, a, b⟩ := h2.inv1.sp n hsusp; rw [hn] at a; cases a; exact b
  have fl : ∀ k, InFlight s k → InFlight { applySel inp s n nd (selDecision inp n nd) with rpc := rpc' } k := by
    intro k hk
    rcases hk with a | a | a | a
    · exact Or.inl (by show Job.task k ∈ (applySel inp s n nd (selDecision inp n nd)).jobQ; rw [f6]; exact a)
    · rw [hold0] at a; cases a
    · exact Or.inr (Or.inr (Or.inl (by
        obtain ⟨w, hw⟩ := a
        exact ⟨w, by show (applySel inp s n nd (selDecision inp n nd)).workers w = _; rw [f8]; exact hw⟩)))
    · exact Or.inr (Or.inr (Or.inr (by show k ∈ (applySel inp s n nd (selDecision inp n nd)).resQ; rw [f7]; exact a)))
  refine ⟨h.d.status hn _ hnodes f1 f2 f3 ?_ f4, ?_, ?_, ?_, ?_, ?_⟩
  rotate_left 5
  · intro w hw
    show (applySel inp s n nd (selDecision inp n nd)).workers w = _
    rw [f8]; apply h.ns w
    have : (applySel inp s n nd (selDecision inp n nd)).nStarted = s.nStarted := by
      cases selDecision inp n nd <;> rfl
    rw [← this]; exact hw
  · cases selDecision inp n nd <;> rfl
  · intro k y hk hy hnn
    rcases back k y hk with ⟨_, rfl⟩ | ⟨e, hy'⟩
    · exact absurd hnn (selStatus_ne_none hd)
    · exact absurd hnn (others k y e hy' hy)
  · intro k y hk hp hnn
    rcases back k y hk with ⟨_, rfl⟩ | ⟨e, hy'⟩
    · exact absurd hnn (selStatus_ne_none hd)
    · exact h.a4b k y hy' hp hnn
  · intro k y hk hrun
    rcases back k y hk with ⟨e, rfl⟩ | ⟨e, hy'⟩
    · subst e
      rcases hrpc with ⟨_, e⟩ | ⟨hng, e⟩
      · exact Or.inl (Or.inr (Or.inl (by simp [holding, e])))
      · right
        have hrf : selDecision inp k nd = .runFirst := by
          cases hdd : selDecision inp k nd <;> simp [hdd, selStatus] at hrun
          · rfl
          · exact absurd hdd hng
        have hnone : nd.status = .none := by
          unfold selDecision at hrf
          by_cases h0 : nd.status = .none
          · exact h0
          · simp only [h0, if_false] at hrf
            split at hrf
            · cases hrf
            · split at hrf; · cases hrf
              split at hrf; · cases hrf
              split at hrf <;> cases hrf
        have hsetup : inp.setup k ≠ [] := by
          unfold selDecision at hrf
          simp only [hnone, if_true] at hrf
          split at hrf; · cases hrf
          split at hrf; · cases hrf
          split at hrf; · cases hrf
          split at hrf; · cases hrf
          split at hrf
          · assumption
          · split at hrf <;> cases hrf
        have hpc1 : nd.pc = .afterSelf1 := by
          rcases pcn with e' | e'
          · exact e'
          · exact absurd hnone (h.a4b k nd hn e')
        refine ⟨?_, hsetup, Or.inl (by show nd.pc.inSetup = true; rw [hpc1]; rfl)⟩
        rw [cgo k, hrf]; simp [selGo, z0]
    · rcases h.a5 k y hy' hrun with a | ⟨a1, a2, a3 | ⟨_, b, _⟩⟩
      · exact Or.inl (fl k a)
      · refine Or.inr ⟨?_, a2, Or.inl a3⟩
        rw [cgo k]; simp [Ne.symm e, a1]
      · rw [hsusp] at b; cases b; exact absurd rfl e
  · intro m hm
    have hm' : (stOf (applySel inp s n nd (selDecision inp n nd)) m).finished = true := hm
    rw [hst m] at hm'
    rw [cterm m]
    by_cases e : m = n
    · subst e
      simp only [if_true] at hm' ⊢
      rw [selTerm_of_finished hm']; omega
    · simp only [e, if_false] at hm'
      have := h.a6 m hm'; omega

/-- a result is taken from the result queue and processed -/
theorem invP_result {inp : RunInput} {s : Sys} {n : Name} {rest : List Name} {nd : Node} (h : InvP inp s)
    (h3 : Inv3 inp s) (hr : s.rpc = .pTop) (hq : s.resQ = n :: rest) (hn : s.nodes n = some nd) :
    InvP inp { processResult inp { s with resQ := rest } n nd with
               rpc := .gEntry (some n) (.feedLoop (s.freeProc + 1)), freeProc := 0 } := by
  obtain ⟨f1, f2, f3, f4, f5, f6, f7, f8⟩ := processResult_frame inp { s with resQ := rest } n nd
  have hnodes := processResult_nodes inp { s with resQ := rest } n nd
  have hst := stOf_processResult inp { s with resQ := rest } n nd
  have hev := processResult_events inp { s with resQ := rest } n nd
  have hnaw : ¬ awaiting s := by intro a; rcases a with a | ⟨r, a⟩ <;> (rw [hr] at a; cases a)
  have rc := resEvents_counts n (inp.outcome n)
  have hold0 : ∀ m, holding s m = 0 := by intro m; simp [holding, hr]
  have cgo : ∀ m, cGo { processResult inp { s with resQ := rest } n nd with
      rpc := .gEntry (some n) (.feedLoop (s.freeProc + 1)), freeProc := 0 } m = cGo s m := by
    intro m
    show (processResult inp { s with resQ := rest } n nd).events.countP _ = _
    rw [hev, List.countP_append, (rc m).go]; simp [cGo]
  have cterm : ∀ m, cTerm { processResult inp { s with resQ := rest } n nd with
      rpc := .gEntry (some n) (.feedLoop (s.freeProc + 1)), freeProc := 0 } m = (if n = m then 1 else 0) + cTerm s m := by
    intro m
    show (processResult inp { s with resQ := rest } n nd).events.countP _ = _
    rw [hev, List.countP_append, (rc m).term]; simp [cTerm]
  have back : ∀ k y, (processResult inp { s with resQ := rest } n nd).nodes k = some y →
      (k = n ∧ y = { nd with status := resStatus (inp.outcome n) }) ∨ (k ≠ n ∧ s.nodes k = some y) := by
    intro k y hk
    rw [hnodes] at hk
    by_cases e : k = n
    · subst e; simp [setNode] at hk; exact Or.inl ⟨rfl, hk.symm⟩
    · exact Or.inr ⟨e, by simpa [setNode, e] using hk⟩
  have rne : resStatus (inp.outcome n) ≠ .none ∧ resStatus (inp.outcome n) ≠ .run := by
    cases inp.outcome n <;> simp [resStatus]
  have fl : ∀ k, k ≠ n → InFlight s k → InFlight { processResult inp { s with resQ := rest } n nd with
      rpc := .gEntry (some n) (.feedLoop (s.freeProc + 1)), freeProc := 0 } k := by
    intro k hkn hk
    rcases hk with a | a | a | a
    · exact Or.inl (by show Job.task k ∈ (processResult inp { s with resQ := rest } n nd).jobQ; rw [f6]; exact a)
    · rw [hold0] at a; cases a
    · exact Or.inr (Or.inr (Or.inl (by
        obtain ⟨w, hw⟩ := a
        exact ⟨w, by show (processResult inp { s with resQ := rest } n nd).workers w = _; rw [f8]; exact hw⟩)))
    · refine Or.inr (Or.inr (Or.inr ?_))
      show k ∈ (processResult inp { s with resQ := rest } n nd).resQ
      rw [f7]; rw [hq] at a
      rcases List.mem_cons.mp a with x | x
      · exact absurd x hkn
      · exact x
  refine ⟨h.d.status hn _ hnodes f1 f2 f3 ?_ f4, ?_, ?_, ?_, ?_, ?_⟩
  rotate_left 5
  · intro w hw
    show (processResult inp { s with resQ := rest } n nd).workers w = _
    rw [f8]; apply h.ns w
    have : (processResult inp { s with resQ := rest } n nd).nStarted = s.nStarted := by
      unfold processResult; cases inp.outcome n <;> rfl
    rw [← this]; exact hw
  · unfold processResult; cases inp.outcome n <;> rfl
  · intro k y hk hy hnn
    rcases back k y hk with ⟨_, rfl⟩ | ⟨e, hy'⟩
    · exact absurd hnn rne.1
    · exact absurd hnn (h.noPending hnaw k y hy' hy)
  · intro k y hk hp hnn
    rcases back k y hk with ⟨_, rfl⟩ | ⟨e, hy'⟩
    · exact absurd hnn rne.1
    · exact h.a4b k y hy' hp hnn
  · intro k y hk hrun
    rcases back k y hk with ⟨_, rfl⟩ | ⟨e, hy'⟩
    · exact absurd hrun rne.2
    · rcases h.runOr hnaw k y hy' hrun with a | ⟨a1, a2, a3⟩
      · exact Or.inl (fl k e a)
      · exact Or.inr ⟨by rw [cgo k]; exact a1, a2, Or.inl a3⟩
  · intro m hm
    have hm' : (stOf (processResult inp { s with resQ := rest } n nd) m).finished = true := hm
    rw [hst m] at hm'
    rw [cterm m]
    by_cases e : m = n
    · subst e; simp
    · simp only [e, if_false] at hm'
      have hs : stOf { s with resQ := rest } m = stOf s m := rfl
      rw [hs] at hm'
      have := h.a6 m hm'; omega


theorem takeStep_invP {inp : RunInput} {s s' : Sys} {w : Nat} (h : InvP inp s)
    (hs : takeStep inp s w = some s') : InvP inp s' := by
  unfold takeStep at hs
  by_cases hidle : s.workers w = .idle
  case neg => simp only [hidle, if_false] at hs; cases hs
  simp only [hidle, if_true] at hs
  cases hq : s.jobQ with
  | nil => simp only [hq] at hs; cases hs
  | cons j js =>
    simp only [hq] at hs
    have wlt : ¬ w ≥ s.nStarted := fun hw => by have := h.ns w hw; rw [hidle] at this; cases this
    have nsSet : ∀ (st : WState) k, k ≥ s.nStarted → (setWorker s w st).workers k = .notStarted := fun st k hk => by
      have : k ≠ w := fun e => wlt (e ▸ hk)
      simp [setWorker, this, h.ns k hk]
    have keepW : ∀ (st : WState) k m, s.workers k = .running m → (setWorker s w st).workers k = .running m := by
      intro st k m hk
      have : k ≠ w := by intro e; subst e; rw [hidle] at hk; cases hk
      simp [setWorker, this, hk]
    cases j with
    | hold =>
      cases hs
      refine invP_move h rfl rfl rfl rfl rfl rfl ⟨[], rfl, fun _ => rfl⟩ ?_ (fun hna _ _ _ haw _ => absurd haw hna) h.ns
      intro k hk
      rcases hk with a | a | a | a
      · rw [hq] at a; rcases List.mem_cons.mp a with x | x
        · cases x
        · exact Or.inl x
      · exact Or.inr (Or.inl a)
      · exact Or.inr (Or.inr (Or.inl a))
      · exact Or.inr (Or.inr (Or.inr a))
    | stop =>
      cases hs
      refine invP_move h rfl rfl rfl rfl rfl rfl ⟨[], rfl, fun _ => rfl⟩ ?_ (fun hna _ _ _ haw _ => absurd haw hna) (nsSet _)
      intro k hk
      rcases hk with a | a | a | a
      · rw [hq] at a; rcases List.mem_cons.mp a with x | x
        · cases x
        · exact Or.inl x
      · exact Or.inr (Or.inl a)
      · obtain ⟨v, hv⟩ := a; exact Or.inr (Or.inr (Or.inl ⟨v, keepW _ v k hv⟩))
      · exact Or.inr (Or.inr (Or.inr a))
    | task n =>
      cases hs
      refine invP_move h rfl rfl rfl rfl rfl rfl
        ⟨_, startTask_events inp s n w, fun m => (startTask_counts inp n w m).go⟩ ?_
        (fun hna _ _ _ haw _ => absurd haw hna)
        (fun k hk => by
          have : k ≠ w := fun e => wlt (e ▸ hk)
          simp [setWorker, startTask, this, h.ns k hk])
      intro k hk
      rcases hk with a | a | a | a
      · rw [hq] at a; rcases List.mem_cons.mp a with x | x
        · cases x; exact Or.inr (Or.inr (Or.inl ⟨w, by simp [setWorker]⟩))
        · exact Or.inl x
      · exact Or.inr (Or.inl a)
      · obtain ⟨v, hv⟩ := a
        exact Or.inr (Or.inr (Or.inl ⟨v, by
          have : v ≠ w := by intro e; subst e; rw [hidle] at hv; cases hv
          simp [setWorker, startTask, this, hv]⟩))
      · exact Or.inr (Or.inr (Or.inr a))

theorem doneStep_invP {inp : RunInput} {s s' : Sys} {w : Nat} (h : InvP inp s)
    (hs : doneStep s w = some s') : InvP inp s' := by
  unfold doneStep at hs
  cases hw : s.workers w with
  | running n =>
    simp only [hw] at hs; cases hs
    have wlt : ¬ w ≥ s.nStarted := fun hw' => by have := h.ns w hw'; rw [hw] at this; cases this
    refine invP_move h rfl rfl rfl rfl rfl rfl ⟨[Ev.fin n w], rfl, fun m => by simp [List.countP_cons, Ev.isGoOf]⟩ ?_
      (fun hna _ _ _ haw _ => absurd haw hna)
      (fun k hk => by
        have : k ≠ w := fun e => wlt (e ▸ hk)
        simp [setWorker, this, h.ns k hk])
    intro k hk
    rcases hk with a | a | a | a
    · exact Or.inl a
    · exact Or.inr (Or.inl a)
    · obtain ⟨v, hv⟩ := a
      by_cases e : v = w
      · subst e; rw [hw] at hv; cases hv
        exact Or.inr (Or.inr (Or.inr (by simp)))
      · exact Or.inr (Or.inr (Or.inl ⟨v, by simp [setWorker, e, hv]⟩))
    · exact Or.inr (Or.inr (Or.inr (by simp [a])))
  | notStarted => simp only [hw] at hs; cases hs
  | idle => simp only [hw] at hs; cases hs
  | exited => simp only [hw] at hs; cases hs

/-- `get_next_job` hands over its job: a held task job is now in the job queue -/
theorem enqueue_invP {inp : RunInput} {s s' : Sys} {job : Job} {ret : Ret} (h : InvP inp s)
    (hr : s.rpc = .gRet job ret)
    (e1 : s'.nodes = s.nodes) (e2 : s'.ready = s.ready) (e3 : s'.waiting = s.waiting) (e4 : s'.cur = s.cur)
    (e5 : s'.toRun = s.toRun) (e6 : s'.susp = s.susp) (e7 : s'.events = s.events) (e8 : s'.resQ = s.resQ)
    (ej : s'.jobQ = s.jobQ ++ [job] ∨ (job = .stop ∧ s'.jobQ = s.jobQ))
    (ew : ∀ k m, s.workers k = .running m → s'.workers k = .running m)
    (hns : ∀ w, w ≥ s'.nStarted → s'.workers w = .notStarted) : InvP inp s' := by
  have hnaw : ¬ awaiting s := by intro a; rcases a with a | ⟨r, a⟩ <;> (rw [hr] at a; cases a)
  refine invP_move h e1 e2 e3 e4 e5 e6 ⟨[], by simpa using e7, fun _ => rfl⟩ ?_
    (fun _ _ _ _ b _ => absurd b hnaw) hns
  intro k hk
  rcases hk with a | a | a | a
  · rcases ej with e | ⟨_, e⟩
    · exact Or.inl (by rw [e]; simp [a])
    · exact Or.inl (by rw [e]; exact a)
  · -- the held job of `k` is the one being enqueued
    unfold holding at a; rw [hr] at a
    cases job with
    | task m =>
      simp only at a
      by_cases x : m = k
      · subst x
        rcases ej with e | ⟨e, _⟩
        · exact Or.inl (by rw [e]; simp)
        · cases e
      · simp [x] at a
    | hold => simp at a
    | stop => simp at a
  · obtain ⟨v, hv⟩ := a; exact Or.inr (Or.inr (Or.inl ⟨v, ew v k hv⟩))
  · exact Or.inr (Or.inr (Or.inr (by rw [e8]; exact a)))

theorem gReturn_invP {inp : RunInput} {s : Sys} {job : Job} {ret : Ret} (h : InvP inp s)
    (hr : s.rpc = .gRet job ret) : InvP inp (gReturn s job ret) := by
  have h5 : s.workers s.nStarted = .notStarted := h.ns _ (Nat.le_refl _)
  have kw : ∀ k m, s.workers k = .running m → (setWorker s s.nStarted .idle).workers k = .running m := by
    intro k m hk
    have : k ≠ s.nStarted := by intro e; subst e; rw [h5] at hk; cases hk
    simp [setWorker, this, hk]
  have nsNew : ∀ w, w ≥ s.nStarted + 1 → (setWorker s s.nStarted .idle).workers w = .notStarted := by
    intro w hw
    have : w ≠ s.nStarted := by omega
    simp [setWorker, this, h.ns w (by omega)]
  cases ret with
  | startLoop k =>
    simp only [gReturn]
    split
    · rename_i hj
      exact enqueue_invP h hr rfl rfl rfl rfl rfl rfl rfl rfl (Or.inr ⟨hj, rfl⟩) (fun _ _ a => a) h.ns
    · split
      · exact enqueue_invP h hr rfl rfl rfl rfl rfl rfl rfl rfl (Or.inl rfl) kw nsNew
      · exact enqueue_invP h hr rfl rfl rfl rfl rfl rfl rfl rfl (Or.inl rfl) kw nsNew
  | feedLoop k =>
    simp only [gReturn]
    split
    · split
      · exact enqueue_invP h hr rfl rfl rfl rfl rfl rfl rfl rfl (Or.inl rfl) (fun _ _ a => a) h.ns
      · exact enqueue_invP h hr rfl rfl rfl rfl rfl rfl rfl rfl (Or.inl rfl) (fun _ _ a => a) h.ns
    · exact enqueue_invP h hr rfl rfl rfl rfl rfl rfl rfl rfl (Or.inl rfl) (fun _ _ a => a) h.ns


theorem inFlight_rpc {s s' : Sys} (e1 : s'.jobQ = s.jobQ) (e2 : s'.workers = s.workers) (e3 : s'.resQ = s.resQ)
    (h0 : ∀ m, holding s m = 0) (n : Name) (h : InFlight s n) : InFlight s' n := by
  rcases h with a | a | a | a
  · exact Or.inl (by rw [e1]; exact a)
  · rw [h0] at a; cases a
  · exact Or.inr (Or.inr (Or.inl (by rw [e2]; exact a)))
  · exact Or.inr (Or.inr (Or.inr (by rw [e3]; exact a)))

theorem mainStep_invP {inp : RunInput} {s s' : Sys} {perm : List Name} (h : InvP inp s) (h2 : Inv2 inp s)
    (h3 : Inv3 inp s) (hs : mainStep inp s perm = some s') : InvP inp s' := by
  unfold mainStep at hs
  -- a move of the runner's position only, from a position that holds no job and is not awaiting selection
  have plain : ∀ s1 : Sys, ¬ awaiting s → (∀ m, holding s m = 0) → s1.nodes = s.nodes → s1.ready = s.ready →
      s1.waiting = s.waiting → s1.cur = s.cur → s1.toRun = s.toRun → s1.susp = s.susp → s1.events = s.events →
      s1.jobQ = s.jobQ → s1.workers = s.workers → s1.resQ = s.resQ → s1.nStarted = s.nStarted → InvP inp s1 := by
    intro s1 hnaw h0 e1 e2 e3 e4 e5 e6 e7 e8 e9 e10 e11
    refine invP_move h e1 e2 e3 e4 e5 e6 ⟨[], by simpa using e7, fun _ => rfl⟩ (inFlight_rpc e8 e9 e10 h0)
      (fun _ _ _ _ b _ => absurd b hnaw) ?_
    intro w hw; rw [e9]; rw [e11] at hw; exact h.ns w hw
  cases hr : s.rpc with
  | gEntry completed ret =>
    simp only [hr] at hs
    have hnaw : ¬ awaiting s := by intro a; rcases a with a | ⟨r, a⟩ <;> (rw [hr] at a; cases a)
    have h0 : ∀ m, holding s m = 0 := by intro m; simp [holding, hr]
    split at hs <;> (cases hs; exact plain _ hnaw h0 rfl rfl rfl rfl rfl rfl rfl rfl rfl rfl rfl)
  | gLoop node ret =>
    simp only [hr] at hs
    cases hsd : send inp s node perm with
    | none => simp only [hsd] at hs; cases hs
    | some s0 => simp only [hsd] at hs; cases hs; exact invP_send h h2 hr hsd
  | gWait ret =>
    simp only [hr] at hs
    have haw : awaiting s := Or.inr ⟨ret, hr⟩
    have h0 : ∀ m, holding s m = 0 := awaiting_holding haw
    -- leaving the selection loop when no node is waiting to be selected
    have leave : ∀ s1 : Sys, (∀ k, s.susp ≠ some (.node k)) → ¬ awaiting s1 → s1.nodes = s.nodes → s1.ready = s.ready →
        s1.waiting = s.waiting → s1.cur = s.cur → s1.toRun = s.toRun → s1.susp = s.susp → s1.events = s.events →
        s1.jobQ = s.jobQ → s1.workers = s.workers → s1.resQ = s.resQ → s1.nStarted = s.nStarted → InvP inp s1 := by
      intro s1 hno hnaw1 e1 e2 e3 e4 e5 e6 e7 e8 e9 e10 e11
      refine invP_move h e1 e2 e3 e4 e5 e6 ⟨[], by simpa using e7, fun _ => rfl⟩ (inFlight_rpc e8 e9 e10 h0)
        (fun _ k _ b _ _ => absurd b (hno k)) ?_
      intro w hw; rw [e9]; rw [e11] at hw; exact h.ns w hw
    cases hsu : s.susp with
    | none => simp only [hsu] at hs; exact invP_dtick h haw hsu hs
    | some o =>
      simp only [hsu] at hs
      cases o with
      | init => cases hs
      | node n =>
        simp only [] at hs
        cases hn : s.nodes n with
        | none =>
          simp only [hn] at hs; cases hs
          obtain ⟨x, a, _⟩ := h2.inv1.sp n hsu; rw [hn] at a; cases a
        | some nd =>
          simp only [hn] at hs
          cases hd : selDecision inp n nd with
          | go =>
            simp only [hd] at hs; cases hs
            have := invP_select (.gRet (.task n) ret) h h2 h3 hr hsu hn (by rw [hd]; simp) (Or.inl ⟨hd, rfl⟩)
            rwa [hd] at this
          | assertFail =>
            simp only [hd] at hs; cases hs
            refine invP_move h rfl rfl rfl rfl rfl rfl ⟨[], rfl, fun _ => rfl⟩ (inFlight_rpc rfl rfl rfl h0)
              ?_ h.ns
            · intro _ k x hk _ hx
              rw [hsu] at hk; cases hk
              rw [hn] at hx; cases hx
              have hne : nd.status ≠ .none := by
                intro e; unfold selDecision at hd; simp only [e, if_true] at hd
                split at hd; · cases hd
                split at hd; · cases hd
                split at hd; · cases hd
                split at hd; · cases hd
                split at hd; · cases hd
                split at hd <;> cases hd
              refine ⟨hne, ?_⟩
              intro hrun
              have hsetup : inp.setup n ≠ [] := by
                rcases h.a5 n nd hn hrun with a | ⟨_, a2, _⟩
                · -- in flight and yielded at the same time is impossible
                  have z := h3.z haw n hsu
                  have hj := h3.j n
                  rcases a with a | a | ⟨w, a⟩ | a
                  · have := count_task_pos.mp a; omega
                  · omega
                  · have := (h3.w1 w n a).1; omega
                  · have := (h3.q1 n a).1; have := (h3.p0 n).2; omega
                · exact a2
              unfold selDecision at hd
              rw [hrun] at hd
              simp only [reduceCtorEq, if_false] at hd
              split at hd
              · rename_i hh; simp [hsetup] at hh
              · split at hd; · cases hd
                split at hd; · cases hd
                split at hd <;> cases hd
          | skipIgn =>
            simp only [hd] at hs; cases hs
            have := invP_select (.gLoop (some n) ret) h h2 h3 hr hsu hn (by rw [hd]; simp) (Or.inr ⟨by rw [hd]; simp, rfl⟩)
            rwa [hd] at this
          | unmet =>
            simp only [hd] at hs; cases hs
            have := invP_select (.gLoop (some n) ret) h h2 h3 hr hsu hn (by rw [hd]; simp) (Or.inr ⟨by rw [hd]; simp, rfl⟩)
            rwa [hd] at this
          | depErr =>
            simp only [hd] at hs; cases hs
            have := invP_select (.gLoop (some n) ret) h h2 h3 hr hsu hn (by rw [hd]; simp) (Or.inr ⟨by rw [hd]; simp, rfl⟩)
            rwa [hd] at this
          | utd =>
            simp only [hd] at hs; cases hs
            have := invP_select (.gLoop (some n) ret) h h2 h3 hr hsu hn (by rw [hd]; simp) (Or.inr ⟨by rw [hd]; simp, rfl⟩)
            rwa [hd] at this
          | runFirst =>
            simp only [hd] at hs; cases hs
            have := invP_select (.gLoop (some n) ret) h h2 h3 hr hsu hn (by rw [hd]; simp) (Or.inr ⟨by rw [hd]; simp, rfl⟩)
            rwa [hd] at this
          | argsErr =>
            simp only [hd] at hs; cases hs
            have := invP_select (.gLoop (some n) ret) h h2 h3 hr hsu hn (by rw [hd]; simp) (Or.inr ⟨by rw [hd]; simp, rfl⟩)
            rwa [hd] at this
      | holdOn =>
        cases hs
        exact leave _ (fun k e => by rw [hsu] at e; cases e) (by intro a; rcases a with a | ⟨r, a⟩ <;> cases a)
          rfl rfl rfl rfl rfl (by simp [hsu]) rfl rfl rfl rfl rfl
      | stopIter =>
        cases hs
        exact leave _ (fun k e => by rw [hsu] at e; cases e) (by intro a; rcases a with a | ⟨r, a⟩ <;> cases a)
          rfl rfl rfl rfl rfl (by simp [hsu]) rfl rfl rfl rfl rfl
      | cyclic n =>
        cases hs
        exact leave _ (fun k e => by rw [hsu] at e; cases e) (by intro a; rcases a with a | ⟨r, a⟩ <;> cases a)
          rfl rfl rfl rfl rfl (by simp [hsu, raise]) rfl rfl rfl rfl rfl
      | crash =>
        cases hs
        exact leave _ (fun k e => by rw [hsu] at e; cases e) (by intro a; rcases a with a | ⟨r, a⟩ <;> cases a)
          rfl rfl rfl rfl rfl (by simp [hsu, raise]) rfl rfl rfl rfl rfl
  | gRet job ret => simp only [hr] at hs; cases hs; exact gReturn_invP h hr
  | pTop =>
    simp only [hr] at hs
    have hnaw : ¬ awaiting s := by intro a; rcases a with a | ⟨r, a⟩ <;> (rw [hr] at a; cases a)
    have h0 : ∀ m, holding s m = 0 := by intro m; simp [holding, hr]
    split at hs
    · cases hs; exact plain _ hnaw h0 rfl rfl rfl rfl rfl rfl rfl rfl rfl rfl rfl
    · cases hq : s.resQ with
      | nil => simp only [hq] at hs; cases hs
      | cons n rest =>
        simp only [hq] at hs
        cases hn : s.nodes n with
        | none =>
          simp only [hn] at hs; cases hs
          have := (h3.q1 n (by rw [hq]; simp)).2; simp [stOf, hn] at this
        | some nd =>
          simp only [hn] at hs; cases hs
          have := invP_result h h3 hr hq hn
          simp only [hr] at this; exact this
  | pJoin =>
    simp only [hr] at hs
    have hnaw : ¬ awaiting s := by intro a; rcases a with a | ⟨r, a⟩ <;> (rw [hr] at a; cases a)
    have h0 : ∀ m, holding s m = 0 := by intro m; simp [holding, hr]
    split at hs
    · cases hs; exact plain _ hnaw h0 rfl rfl rfl rfl rfl rfl rfl rfl rfl rfl rfl
    · cases hs
  | fin =>
    simp only [hr] at hs; cases hs
    have hnaw : ¬ awaiting s := by intro a; rcases a with a | ⟨r, a⟩ <;> (rw [hr] at a; cases a)
    have h0 : ∀ m, holding s m = 0 := by intro m; simp [holding, hr]
    refine invP_move h rfl rfl rfl rfl rfl rfl
      ⟨Ev.complete :: s.tdown.map Ev.teardown, by simp [finishRun], fun m => (teardown_counts s.tdown m).1⟩
      (inFlight_rpc rfl rfl rfl h0) (fun _ _ _ _ b _ => absurd b hnaw) h.ns
  | sTop a => simp only [hr] at hs; cases hs
  | sWait => simp only [hr] at hs; cases hs
  | sExec a => simp only [hr] at hs; cases hs
  | halted => simp only [hr] at hs; cases hs

theorem init_invP (inp : RunInput) : InvP inp (init inp) := by
  refine ⟨⟨?_, ?_, ?_, ?_⟩, ?_, ?_, ?_, ?_, ?_⟩
  · intro n nd hn; simp [init] at hn
  · intro n nd hn; simp [init] at hn
  · intro t ht; exact Or.inl ht
  · intro e; simp [init] at e
  · intro n nd hn; simp [init] at hn
  · intro n nd hn; simp [init] at hn
  · intro n nd hn; simp [init] at hn
  · intro n hn; simp [stOf, init, RS.finished] at hn
  · intro w _; rfl

theorem preach_invP {inp : RunInput} {s : Sys} (h : PReach inp s) : InvP inp s := by
  induction h with
  | init => exact init_invP inp
  | @next s0 s1 c hr hs ih =>
    have hi := preach_inv hr
    cases c with
    | main perm => exact mainStep_invP ih hi.1 hi.2 hs
    | take w => exact takeStep_invP ih hs
    | done w => exact doneStep_invP ih hs

/-- parallel runners, up to the queue accounting: if the main loop ended normally AND the dispatcher generator was
    exhausted AND nothing is left in flight, every member of the run's closure has exactly one terminal report -/
theorem all_processed_parallel_partial {inp : RunInput} {s : Sys} (hr : PReach inp s)
    (hsu : s.susp = some .stopIter) (hq : ∀ t, ¬ InFlight s t) :
    ∀ t, RunCl inp s t → cTerm s t = 1 := by
  have hP := preach_invP hr
  obtain ⟨h2, h3⟩ := preach_inv hr
  obtain ⟨q1, q2, q3, q4⟩ := hP.d.a7 hsu
  have allDone : ∀ k x, s.nodes k = some x → x.pc = .done := by
    intro k x hx
    cases hpc : x.pc with
    | done => rfl
    | _ =>
      have := hP.d.a2 k x hx (by rw [hpc]; simp)
      rw [q1, q2, q4] at this
      rcases this with a | a | a <;> cases a
  have processed : ∀ t, created s t → cTerm s t = 1 := by
    intro t ⟨x, hx⟩
    have hpc := allDone t x hx
    have hne : x.status ≠ .none := by
      intro e
      have := (hP.a4 t x hx (by rw [hpc]; rfl) e).1
      rw [hsu] at this; cases this
    have hnr : x.status ≠ .run := by
      intro e
      rcases hP.a5 t x hx e with a | ⟨_, _, a | ⟨a, _⟩⟩
      · exact hq t a
      · rw [hpc] at a; cases a
      · rw [hpc] at a; cases a
    have hfin : (stOf s t).finished = true := by
      simp only [stOf, hx]
      cases hs : x.status <;> simp_all [RS.finished]
    have := hP.a6 t hfin
    have := h3.t2 t
    omega
  have mk : ∀ t, RunCl inp s t → created s t := by
    intro t ht
    induction ht with
    | ofSel hm =>
      rcases hP.d.a3 _ hm with a | a
      · rw [q3] at a; cases a
      · exact a
    | @ofTask t d nd _ hn hd _ =>
      have hpc := allDone t nd hn
      have hm := (h2.inv1.node t nd hn).m1 (by rw [hpc]; rfl)
      rcases (hP.d.a1 t nd hn).t d hd with a | ⟨⟨_, a⟩, _⟩ | ⟨_, a, _⟩ | a
      · rw [hm.1] at a; cases a
      · rw [hpc] at a; cases a
      · rw [hpc] at a; cases a
      · exact a
    | @ofCalc t d nd _ hn hd _ =>
      have hpc := allDone t nd hn
      have hm := (h2.inv1.node t nd hn).m1 (by rw [hpc]; rfl)
      rcases (hP.d.a1 t nd hn).c d hd with a | ⟨_, a, _⟩ | a
      · rw [hm.2.1] at a; cases a
      · rw [hpc] at a; cases a
      · exact a
    | @ofSetup t d deps _ hg hd _ =>
      have hin : d ∈ deps := h2.gs t deps hg d (by simp [staticDeps, hd])
      have hfb := ordOK_go h2.ord hg d hin
      have hpos : cTerm s d ≥ 1 := by
        have : ∃ e ∈ s.events, Ev.isTerminalOf d e = true := by
          rcases hfb with x | x
          · exact ⟨_, x, by simp [Ev.isTerminalOf]⟩
          · exact ⟨_, x, by simp [Ev.isTerminalOf]⟩
        have := List.countP_pos_iff.mpr this
        unfold cTerm; omega
      cases hx : s.nodes d with
      | some x => exact ⟨x, hx⟩
      | none =>
        have := h3.t d (by simp [stOf, hx, RS.finished])
        omega
  intro t ht
  exact processed t (mk t ht)

end DoitModel.Run
