import DoitModel.Model.Report
/-! # C19: the JSON reporter's bookkeeping on a disciplined callback stream -/
namespace DoitModel.Report
open DoitModel.Run

/-- the dict `t_results` after the callbacks `evs` (newest first) -/
def jState (evs : List Ev) : Option (List JEnt) := evs.foldr (fun e acc => jStep acc e) (some [])

theorem jsonOf_reverse (evs : List Ev) :
    jsonOf evs.reverse = match jState evs with | some l => jComplete l | none => none := by
  unfold jsonOf jState
  rw [List.foldl_reverse]
  rfl

/-- what the dict `l` records about the trace `evs` -/
structure JInv (evs : List Ev) (l : List JEnt) : Prop where
  nodup : (l.map (·.name)).Nodup
  has : ∀ n, (∃ e ∈ l, e.name = n) ↔ evs.any (Ev.isGetStatusOf n) = true
  val : ∀ e ∈ l, e.started = evs.any (Ev.isExecOf e.name) ∧ e.finished = evs.any (Ev.isTerminalOf e.name) ∧
      e.result = (evs.find? (Ev.isTerminalOf e.name)).bind resOf

/-! ### the two dict operations -/

theorem jNew_absent (n : Name) : ∀ (l : List JEnt), (∀ e ∈ l, e.name ≠ n) → jNew n l = l ++ [{ name := n }]
  | [], _ => rfl
  | e :: l, h => by
    have h1 : e.name ≠ n := h e (by simp)
    simp only [jNew, h1, if_false, List.cons_append]
    rw [jNew_absent n l (fun x hx => h x (by simp [hx]))]

theorem jUpd_spec (f : JEnt → JEnt) (hf : ∀ e, (f e).name = e.name) (n : Name) :
    ∀ (l : List JEnt), (l.map (·.name)).Nodup → (∃ e ∈ l, e.name = n) →
      ∃ l', jUpd f n l = some l' ∧ l'.map (·.name) = l.map (·.name) ∧
        ∀ e' ∈ l', (e'.name ≠ n ∧ e' ∈ l) ∨ (e'.name = n ∧ ∃ e ∈ l, e.name = n ∧ e' = f e)
  | [], _, h => by obtain ⟨e, he, _⟩ := h; cases he
  | a :: l, hnd, h => by
    have hnd' : a.name ∉ l.map (·.name) ∧ (l.map (·.name)).Nodup := by
      simpa [List.nodup_cons] using hnd
    by_cases ha : a.name = n
    · refine ⟨f a :: l, by simp [jUpd, ha], by simp [hf], ?_⟩
      intro e' he'
      rcases List.mem_cons.mp he' with x | x
      · right; subst x; exact ⟨by rw [hf]; exact ha, a, by simp, ha, rfl⟩
      · left
        refine ⟨?_, by simp [x]⟩
        intro hn
        apply hnd'.1
        rw [ha, ← hn]
        exact List.mem_map.mpr ⟨e', x, rfl⟩
    · have : ∃ e ∈ l, e.name = n := by
        obtain ⟨e, he, hn⟩ := h
        rcases List.mem_cons.mp he with x | x
        · subst x; exact absurd hn ha
        · exact ⟨e, x, hn⟩
      obtain ⟨l', h1, h2, h3⟩ := jUpd_spec f hf n l hnd'.2 this
      refine ⟨a :: l', by simp [jUpd, ha, h1], by simp [h2], ?_⟩
      intro e' he'
      rcases List.mem_cons.mp he' with x | x
      · subst x; left; exact ⟨ha, by simp⟩
      · rcases h3 e' x with ⟨p, q⟩ | ⟨p, e, q, r, t⟩
        · left; exact ⟨p, by simp [q]⟩
        · right; exact ⟨p, e, by simp [q], r, t⟩

/-! ### predicates -/

theorem touches_of_gs {n : Name} {e : Ev} (h : Ev.isGetStatusOf n e = true) : Ev.touches n e = true := by
  cases e <;> simp_all [Ev.isGetStatusOf, Ev.touches]
theorem touches_of_exec {n : Name} {e : Ev} (h : Ev.isExecOf n e = true) : Ev.touches n e = true := by
  cases e <;> simp_all [Ev.isExecOf, Ev.touches]
theorem touches_of_term {n : Name} {e : Ev} (h : Ev.isTerminalOf n e = true) : Ev.touches n e = true := by
  cases e <;> simp_all [Ev.isTerminalOf, Ev.touches]

theorem any_false_of_imp {p q : Ev → Bool} {l : List Ev} (hpq : ∀ e, p e = true → q e = true)
    (h : l.any q = false) : l.any p = false := by
  cases hp : l.any p with
  | false => rfl
  | true =>
    obtain ⟨e, he, hpe⟩ := List.any_eq_true.mp hp
    have : l.any q = true := List.any_eq_true.mpr ⟨e, he, hpq e hpe⟩
    rw [h] at this; cases this

theorem find_none_of_any {p : Ev → Bool} {l : List Ev} (h : l.any p = false) : l.find? p = none := by
  rw [List.find?_eq_none]; intro e he hp
  have : l.any p = true := List.any_eq_true.mpr ⟨e, he, hp⟩
  rw [h] at this; cases this

/-! ### one callback -/

/-- a callback that `JsonReporter` ignores (or that only touches other bookkeeping) -/
theorem jinv_neutral {post : List Ev} {l : List JEnt} {e : Ev} (h : JInv post l)
    (h1 : ∀ n, Ev.isGetStatusOf n e = false) (h2 : ∀ n, Ev.isExecOf n e = false)
    (h3 : ∀ n, Ev.isTerminalOf n e = false) : JInv (e :: post) l := by
  constructor
  · exact h.nodup
  · intro n; rw [List.any_cons, h1 n]; simpa using h.has n
  · intro x hx
    obtain ⟨a, b, c⟩ := h.val x hx
    refine ⟨?_, ?_, ?_⟩
    · rw [List.any_cons, h2]; simpa using a
    · rw [List.any_cons, h3]; simpa using b
    · rw [List.find?_cons, h3]; exact c

/-- `self.t_results[n].<update>()` for a callback about task `n` -/
theorem jinv_upd {post : List Ev} {l : List JEnt} {e : Ev} {n : Name} (f : JEnt → JEnt) (h : JInv post l)
    (hf : ∀ x, (f x).name = x.name)
    (hgs : post.any (Ev.isGetStatusOf n) = true)
    (h1 : ∀ m, Ev.isGetStatusOf m e = false)
    (h2 : ∀ m, m ≠ n → Ev.isExecOf m e = false) (h3 : ∀ m, m ≠ n → Ev.isTerminalOf m e = false)
    (hs : ∀ x, (f x).started = (Ev.isExecOf n e || x.started))
    (hfin : ∀ x, (f x).finished = (Ev.isTerminalOf n e || x.finished))
    (hres : ∀ x, (f x).result = if Ev.isTerminalOf n e = true then resOf e else x.result) :
    ∃ l', jUpd f n l = some l' ∧ JInv (e :: post) l' := by
  obtain ⟨l', e1, e2, e3⟩ := jUpd_spec f hf n l h.nodup ((h.has n).2 hgs)
  refine ⟨l', e1, ?_⟩
  constructor
  · rw [e2]; exact h.nodup
  · intro m
    rw [List.any_cons, h1 m, Bool.false_or, ← h.has m]
    constructor
    · rintro ⟨x, hx, hm⟩
      have : x.name ∈ l'.map (·.name) := List.mem_map.mpr ⟨x, hx, rfl⟩
      rw [e2] at this
      obtain ⟨y, hy, hyn⟩ := List.mem_map.mp this
      exact ⟨y, hy, by rw [hyn, hm]⟩
    · rintro ⟨x, hx, hm⟩
      have : x.name ∈ l.map (·.name) := List.mem_map.mpr ⟨x, hx, rfl⟩
      rw [← e2] at this
      obtain ⟨y, hy, hyn⟩ := List.mem_map.mp this
      exact ⟨y, hy, by rw [hyn, hm]⟩
  · intro x hx
    rcases e3 x hx with ⟨hne, hold⟩ | ⟨hn, y, hy, hyn, hxy⟩
    · obtain ⟨a, b, c⟩ := h.val x hold
      refine ⟨?_, ?_, ?_⟩
      · rw [List.any_cons, h2 _ hne]; simpa using a
      · rw [List.any_cons, h3 _ hne]; simpa using b
      · rw [List.find?_cons, h3 _ hne]; exact c
    · obtain ⟨a, b, c⟩ := h.val y hy
      rw [hyn] at a b c
      subst hxy
      rw [hf, hyn]
      refine ⟨?_, ?_, ?_⟩
      · rw [hs, List.any_cons, a]
      · rw [hfin, List.any_cons, b]
      · rw [hres, List.find?_cons]
        cases ht : Ev.isTerminalOf n e with
        | true => simp
        | false => simpa using c

theorem firstFinal_gs {n : Name} {post : List Ev} (h : firstFinal n post = true) :
    post.any (Ev.isGetStatusOf n) = true := by
  unfold firstFinal at h; simp only [Bool.and_eq_true] at h; exact h.1

/-- one callback of the JSON reporter on a disciplined stream: never a KeyError, bookkeeping stays exact -/
theorem jinv_step {ex fwd : Bool} {noAct : Name → Bool} {post : List Ev} {l : List JEnt} {e : Ev}
    (h : JInv post l) (hr : repOK ex fwd noAct e post = true) :
    ∃ l', jStep (some l) e = some l' ∧ JInv (e :: post) l' := by
  cases e with
  | getStatus n =>
    simp only [repOK, Bool.not_eq_true'] at hr
    have g1 := any_false_of_imp (fun e => touches_of_gs (n := n) (e := e)) hr
    have g2 := any_false_of_imp (fun e => touches_of_exec (n := n) (e := e)) hr
    have g3 := any_false_of_imp (fun e => touches_of_term (n := n) (e := e)) hr
    have hab : ∀ x ∈ l, x.name ≠ n := by
      intro x hx hn
      have := (h.has n).1 ⟨x, hx, hn⟩
      rw [g1] at this; cases this
    refine ⟨l ++ [{ name := n }], by simp [jStep, jNew_absent n l hab], ?_⟩
    constructor
    · rw [List.map_append, List.nodup_append]
      refine ⟨h.nodup, by simp, ?_⟩
      intro a ha b hb
      simp only [List.map_cons, List.map_nil, List.mem_singleton] at hb
      obtain ⟨x, hx, hxa⟩ := List.mem_map.mp ha
      rw [hb, ← hxa]; exact hab x hx
    · intro m
      rw [List.any_cons]
      by_cases hm : n = m
      · subst hm; simp [Ev.isGetStatusOf]
      · have hm' : ¬ m = n := fun a => hm a.symm
        simp only [Ev.isGetStatusOf, hm, decide_false, Bool.false_or, ← h.has m]
        constructor
        · rintro ⟨x, hx, hxm⟩
          rcases List.mem_append.mp hx with a | a
          · exact ⟨x, a, hxm⟩
          · simp at a; subst a; exact absurd hxm hm
        · rintro ⟨x, hx, hxm⟩; exact ⟨x, List.mem_append_left _ hx, hxm⟩
    · intro x hx
      rcases List.mem_append.mp hx with a | a
      · obtain ⟨p, q, r⟩ := h.val x a
        refine ⟨?_, ?_, ?_⟩
        · rw [List.any_cons]; simpa [Ev.isExecOf] using p
        · rw [List.any_cons]; simpa [Ev.isTerminalOf] using q
        · rw [List.find?_cons]; simpa [Ev.isTerminalOf] using r
      · simp at a; subst a
        refine ⟨?_, ?_, ?_⟩
        · simp [List.any_cons, Ev.isExecOf, g2]
        · simp [List.any_cons, Ev.isTerminalOf, g3]
        · simp [List.find?_cons, Ev.isTerminalOf, find_none_of_any g3]
  | execute n =>
    simp only [repOK, Bool.and_eq_true] at hr
    exact jinv_upd (n := n) (fun x => { x with started := true }) h (fun _ => rfl) (firstFinal_gs hr.1)
      (fun m => by simp [Ev.isGetStatusOf])
      (fun m hm => by simp [Ev.isExecOf]; exact fun a => hm a.symm) (fun m _ => by simp [Ev.isTerminalOf])
      (fun x => by simp [Ev.isExecOf]) (fun x => by simp [Ev.isTerminalOf]) (fun x => by simp [Ev.isTerminalOf])
  | success n =>
    simp only [repOK, Bool.and_eq_true] at hr
    exact jinv_upd (n := n) (jSetResult .success) h (fun _ => rfl) (firstFinal_gs hr.1.1)
      (fun m => by simp [Ev.isGetStatusOf]) (fun m _ => by simp [Ev.isExecOf])
      (fun m hm => by simp [Ev.isTerminalOf]; exact fun a => hm a.symm)
      (fun x => by simp [Ev.isExecOf, jSetResult]) (fun x => by simp [Ev.isTerminalOf, jSetResult])
      (fun x => by simp [Ev.isTerminalOf, jSetResult, resOf])
  | failure n k =>
    simp only [repOK, Bool.and_eq_true] at hr
    exact jinv_upd (n := n) (jSetResult .fail) h (fun _ => rfl) (firstFinal_gs hr.1)
      (fun m => by simp [Ev.isGetStatusOf]) (fun m _ => by simp [Ev.isExecOf])
      (fun m hm => by simp [Ev.isTerminalOf]; exact fun a => hm a.symm)
      (fun x => by simp [Ev.isExecOf, jSetResult]) (fun x => by simp [Ev.isTerminalOf, jSetResult])
      (fun x => by simp [Ev.isTerminalOf, jSetResult, resOf])
  | skipUtd n =>
    simp only [repOK, Bool.and_eq_true] at hr
    exact jinv_upd (n := n) (jSetResult .utd) h (fun _ => rfl) (firstFinal_gs hr.1.1)
      (fun m => by simp [Ev.isGetStatusOf]) (fun m _ => by simp [Ev.isExecOf])
      (fun m hm => by simp [Ev.isTerminalOf]; exact fun a => hm a.symm)
      (fun x => by simp [Ev.isExecOf, jSetResult]) (fun x => by simp [Ev.isTerminalOf, jSetResult])
      (fun x => by simp [Ev.isTerminalOf, jSetResult, resOf])
  | skipIgn n =>
    simp only [repOK, Bool.and_eq_true] at hr
    exact jinv_upd (n := n) (jSetResult .ign) h (fun _ => rfl) (firstFinal_gs hr.1.1)
      (fun m => by simp [Ev.isGetStatusOf]) (fun m _ => by simp [Ev.isExecOf])
      (fun m hm => by simp [Ev.isTerminalOf]; exact fun a => hm a.symm)
      (fun x => by simp [Ev.isExecOf, jSetResult]) (fun x => by simp [Ev.isTerminalOf, jSetResult])
      (fun x => by simp [Ev.isTerminalOf, jSetResult, resOf])
  | teardown n => exact ⟨l, rfl, jinv_neutral h (fun _ => rfl) (fun _ => rfl) (fun _ => rfl)⟩
  | complete => exact ⟨l, rfl, jinv_neutral h (fun _ => rfl) (fun _ => rfl) (fun _ => rfl)⟩
  | start n w => exact ⟨l, rfl, jinv_neutral h (fun _ => rfl) (fun _ => rfl) (fun _ => rfl)⟩
  | fin n w => exact ⟨l, rfl, jinv_neutral h (fun _ => rfl) (fun _ => rfl) (fun _ => rfl)⟩
  | go n ds => exact ⟨l, rfl, jinv_neutral h (fun _ => rfl) (fun _ => rfl) (fun _ => rfl)⟩

/-- on a disciplined callback stream the dict is always defined and exact -/
theorem jState_inv {ex fwd : Bool} {noAct : Name → Bool} :
    ∀ (evs : List Ev), repOrd ex fwd noAct evs = true → ∃ l, jState evs = some l ∧ JInv evs l
  | [], _ => ⟨[], rfl, ⟨by simp, by simp, by simp⟩⟩
  | e :: post, h => by
    simp only [repOrd, Bool.and_eq_true] at h
    obtain ⟨l, e1, inv⟩ := jState_inv post h.2
    obtain ⟨l', e2, inv'⟩ := jinv_step inv h.1
    refine ⟨l', ?_, inv'⟩
    show jStep (jState post) e = some l'
    rw [e1]; exact e2

/-! ### `complete_run` -/

theorem repOrd_at {a b : Bool} {f : Name → Bool} {pre post : List Ev} {e : Ev}
    (h : repOrd a b f (pre ++ e :: post) = true) : repOK a b f e post = true := by
  induction pre with
  | nil => simp only [List.nil_append, repOrd, Bool.and_eq_true] at h; exact h.1
  | cons x pre ih => simp only [List.cons_append, repOrd, Bool.and_eq_true] at h; exact ih h.2

theorem filter_name_one : ∀ (doc : List JOut) (n : Name), (doc.map (·.name)).Nodup → (∃ o ∈ doc, o.name = n) →
    (doc.filter fun o => o.name == n).length = 1
  | [], _, _, h => by obtain ⟨o, ho, _⟩ := h; cases ho
  | a :: doc, n, hnd, h => by
    have hnd' : a.name ∉ doc.map (·.name) ∧ (doc.map (·.name)).Nodup := by
      simpa [List.nodup_cons] using hnd
    by_cases ha : a.name = n
    · have : doc.filter (fun o => o.name == n) = [] := by
        rw [List.filter_eq_nil_iff]; intro x hx hxn
        simp only [beq_iff_eq] at hxn
        apply hnd'.1; rw [ha, ← hxn]; exact List.mem_map.mpr ⟨x, hx, rfl⟩
      simp [List.filter_cons, ha, this]
    · have hex : ∃ o ∈ doc, o.name = n := by
        obtain ⟨o, ho, hn⟩ := h
        rcases List.mem_cons.mp ho with x | x
        · subst x; exact absurd hn ha
        · exact ⟨o, x, hn⟩
      simp [List.filter_cons, ha, filter_name_one doc n hnd'.2 hex]

def outOf (e : JEnt) : JOut := { name := e.name, result := e.result, timed := e.started }

theorem jComplete_spec : ∀ (l : List JEnt), (∀ e ∈ l, e.started = true → e.finished = true) →
    jComplete l = some (l.map outOf)
  | [], _ => rfl
  | e :: l, h => by
    have he := h e (by simp)
    have ih := jComplete_spec l (fun x hx => h x (by simp [hx]))
    have : jToDict e = some (outOf e) := by
      unfold jToDict outOf
      cases hs : e.started with
      | false => simp
      | true => simp [he hs]
    simp [jComplete, this, ih]

/-- `JsonReporter.complete_run` on a disciplined callback stream in which every announced task got its final report:
    a document is produced (no exception); no task is listed twice; exactly the tasks that were looked at
    (`get_status`) are listed; each with the result of its final report (`null` if it has none) and with timing
    information iff `execute_task` was reported -/
theorem json_ok {ex fwd : Bool} {noAct : Name → Bool} (evs : List Ev) (hord : repOrd ex fwd noAct evs = true)
    (hall : ∀ n, evs.any (Ev.isExecOf n) = true → evs.any (Ev.isTerminalOf n) = true) :
    ∃ doc, jsonOf evs.reverse = some doc ∧ (doc.map (·.name)).Nodup ∧
      (∀ n, (∃ o ∈ doc, o.name = n) ↔ evs.any (Ev.isGetStatusOf n) = true) ∧
      (∀ o ∈ doc, o.result = (evs.find? (Ev.isTerminalOf o.name)).bind resOf ∧
                  o.timed = evs.any (Ev.isExecOf o.name)) := by
  obtain ⟨l, e1, inv⟩ := jState_inv evs hord
  have hfin : ∀ e ∈ l, e.started = true → e.finished = true := by
    intro e he hs
    obtain ⟨a, b, _⟩ := inv.val e he
    rw [b]; exact hall e.name (by rw [← a]; exact hs)
  refine ⟨l.map outOf, ?_, ?_, ?_, ?_⟩
  · rw [jsonOf_reverse, e1]; exact jComplete_spec l hfin
  · have : (l.map outOf).map (·.name) = l.map (·.name) := by simp [outOf, Function.comp_def]
    rw [this]; exact inv.nodup
  · intro n
    rw [← inv.has n]
    constructor
    · rintro ⟨o, ho, hn⟩
      obtain ⟨e, he, rfl⟩ := List.mem_map.mp ho
      exact ⟨e, he, hn⟩
    · rintro ⟨e, he, hn⟩
      exact ⟨outOf e, List.mem_map.mpr ⟨e, he, rfl⟩, hn⟩
  · intro o ho
    obtain ⟨e, he, rfl⟩ := List.mem_map.mp ho
    obtain ⟨a, _, c⟩ := inv.val e he
    exact ⟨c, a⟩

/-- each task that has a final report is listed exactly once, with the result string of that report -/
theorem json_lists_final_report {ex fwd : Bool} {noAct : Name → Bool} (evs : List Ev)
    (hord : repOrd ex fwd noAct evs = true)
    (hall : ∀ n, evs.any (Ev.isExecOf n) = true → evs.any (Ev.isTerminalOf n) = true)
    (pre post : List Ev) (e : Ev) (n : Name) (hsplit : evs = pre ++ e :: post) (ht : Ev.isTerminalOf n e = true) :
    ∃ doc, jsonOf evs.reverse = some doc ∧ (doc.filter fun o => o.name == n).length = 1 ∧
      ∀ o ∈ doc, o.name = n → o.result = resOf e := by
  obtain ⟨doc, h1, h2, h3, h4⟩ := json_ok evs hord hall
  -- `e` is THE final report of `n`: nothing terminal for `n` before or after it
  have hpost : repOK ex fwd noAct e post = true := by
    rw [hsplit] at hord; exact repOrd_at hord
  have hgs : post.any (Ev.isGetStatusOf n) = true := by
    cases e <;> simp [Ev.isTerminalOf] at ht <;> subst ht <;>
      simp only [repOK, Bool.and_eq_true] at hpost <;> first
        | exact firstFinal_gs hpost.1.1
        | exact firstFinal_gs hpost.1
  have hpre : ∀ x ∈ pre, Ev.isTerminalOf n x = false := by
    -- a later final report of `n` would not be the first one
    intro x hx
    cases hxt : Ev.isTerminalOf n x with
    | false => rfl
    | true =>
      exfalso
      obtain ⟨p1, p2, hp⟩ := List.append_of_mem hx
      have hord' := hord
      rw [hsplit, hp, List.append_assoc] at hord'
      have hx2 : repOK ex fwd noAct x (p2 ++ e :: post) = true := by
        rw [List.cons_append] at hord'; exact repOrd_at hord'
      have hany : (p2 ++ e :: post).any (Ev.isTerminalOf n) = true := by
        rw [List.any_append, List.any_cons, ht]; simp
      have hff : firstFinal n (p2 ++ e :: post) = true := by
        cases x <;> simp [Ev.isTerminalOf] at hxt <;> subst hxt <;>
          simp only [repOK, Bool.and_eq_true] at hx2 <;> first
            | exact hx2.1.1
            | exact hx2.1
      unfold firstFinal at hff
      rw [hany] at hff
      simp at hff
  have hfind : evs.find? (Ev.isTerminalOf n) = some e := by
    rw [hsplit, List.find?_append]
    have : pre.find? (Ev.isTerminalOf n) = none := by
      rw [List.find?_eq_none]; intro x hx; rw [hpre x hx]; simp
    rw [this]; simp [List.find?_cons, ht]
  have hin : evs.any (Ev.isGetStatusOf n) = true := by
    rw [hsplit, List.any_append, List.any_cons, hgs]; simp
  obtain ⟨o, ho, hon⟩ := (h3 n).2 hin
  refine ⟨doc, h1, ?_, ?_⟩
  · exact filter_name_one doc n h2 ⟨o, ho, hon⟩
  · intro o' ho' hn'
    have := (h4 o' ho').1
    rw [hn', hfind] at this
    simpa using this

end DoitModel.Report
