import DoitModel.Proofs.DelayedAfter2
/-! # Delayed creation: the ordering half of `created_obey`

`nodeDeps s t`: the task_deps of the `Task` object the node of `t` holds — the *dynamic* dependency table (for a created
task: the object the creator yielded, with its implicit deps; for a placeholder nobody re-defined: the mutated
placeholder object).  `ObeyCore`: node-local bookkeeping `NodeG` (the good-status refinement of `NodeB`: while the
node is not marked `bad`, every dependency of its task is pending, in the snapshot, awaited or *good*), "a good status
has its good report in the trace", and `obeyOK (nodeDeps s)` of the trace.  Generic lemmas here; the walk over the
step function is in `C15Obey2.lean`. -/
namespace DoitModel.Delayed
open DoitModel.Run (RS Name)

def goodOf (s : Sys) (d : Name) : Bool := (stOf s d).good

def NodeG (good : Name → Bool) (nd : Node) : Prop :=
  (nd.bad = false → ∀ d ∈ nd.task.deps,
      d ∈ nd.pend ∨ ((∃ ds, nd.pc = .taskIter ds) ∧ d ∈ nd.snap) ∨ d ∈ nd.waitRun ∨ good d = true) ∧
  (nd.pc = .self1 → nd.pend = [] ∧ nd.waitRun = [] ∧ nd.task.loader = none) ∧
  (nd.status ≠ .none → nd.pc = .done ∧ nd.task.loader = none)

/-- the dynamic dependency table: task_deps of the `Task` object the node of `t` holds -/
def nodeDeps (s : Sys) (t : Name) : List Name :=
  match s.nodes t with
  | some nd => nd.task.deps
  | none => []

structure ObeyCore (inp : Input) (s : Sys) : Prop where
  node : ∀ n nd, s.nodes n = some nd → NodeG (goodOf s) nd
  okS : ∀ d, stOf s d = .ok → Ev.success d ∈ s.events
  utdS : ∀ d, stOf s d = .utd → Ev.skipUtd d ∈ s.events
  runS : ∀ d, stOf s d = .run → Ev.start d ∈ s.events
  obey : obeyOK (nodeDeps s) inp.noAct s.events = true
  utd : utdOK inp.utd s.events = true

theorem obeyOK_congr (deps deps' : Name → List Name) (na : Name → Bool) :
    ∀ ev : List Ev, (∀ t, Ev.start t ∈ ev → deps t = deps' t) → obeyOK deps na ev = obeyOK deps' na ev := by
  intro ev
  induction ev with
  | nil => intro _; rfl
  | cons e ev ih =>
    intro h
    have ih' := ih (fun t ht => h t (List.mem_cons_of_mem _ ht))
    cases e with
    | start t => simp only [obeyOK, ih', h t (List.mem_cons_self)]
    | creator c => simp only [obeyOK, ih']
    | success t => simp only [obeyOK, ih']
    | failure t => simp only [obeyOK, ih']
    | unmet t => simp only [obeyOK, ih']
    | skipUtd t => simp only [obeyOK, ih']

theorem stOf_congr {s s' : Sys} (h : s'.nodes = s.nodes) : stOf s' = stOf s := by
  funext d; simp [stOf, h]

theorem goodOf_congr {s s' : Sys} (h : s'.nodes = s.nodes) : goodOf s' = goodOf s := by
  funext d; simp [goodOf, stOf, h]

theorem nodeDeps_congr {s s' : Sys} (h : s'.nodes = s.nodes) : nodeDeps s' = nodeDeps s := by
  funext d; simp [nodeDeps, h]

/-- only fields the invariant does not read differ -/
theorem ObeyCore.congr {inp : Input} {s s' : Sys} (h : ObeyCore inp s) (h3 : s'.events = s.events)
    (h4 : s'.nodes = s.nodes) : ObeyCore inp s' := by
  constructor
  · intro n nd hn; rw [h4] at hn; rw [goodOf_congr h4]; exact h.node n nd hn
  · intro d hd; rw [stOf_congr h4] at hd; rw [h3]; exact h.okS d hd
  · intro d hd; rw [stOf_congr h4] at hd; rw [h3]; exact h.utdS d hd
  · intro d hd; rw [stOf_congr h4] at hd; rw [h3]; exact h.runS d hd
  · rw [nodeDeps_congr h4, h3]; exact h.obey
  · rw [h3]; exact h.utd

/-- replace node `n` by `x`: same status, same task object, `x` satisfies the node-local obligations -/
theorem core_setNode {inp : Input} {s : Sys} {n : Name} {nd x : Node} (h : ObeyCore inp s)
    (hn : s.nodes n = some nd) (hst : x.status = nd.status) (ht : x.task = nd.task) (hg : NodeG (goodOf s) x) :
    ObeyCore inp (setNode s n x) := by
  have hs : stOf (setNode s n x) = stOf s := stOf_setNode_same hn hst
  have hf : goodOf (setNode s n x) = goodOf s := by funext d; simp [goodOf, hs]
  have hd : nodeDeps (setNode s n x) = nodeDeps s := by
    funext d
    by_cases hdn : d = n
    · subst hdn; simp [nodeDeps, setNode, hn, ht]
    · simp [nodeDeps, setNode, hdn]
  constructor
  · intro k nd' hk
    rw [hf]
    simp only [setNode] at hk
    split at hk
    · cases hk; exact hg
    · exact h.node k nd' hk
  · intro d hd'; rw [hs] at hd'; exact h.okS d hd'
  · intro d hd'; rw [hs] at hd'; exact h.utdS d hd'
  · intro d hd'; rw [hs] at hd'; exact h.runS d hd'
  · rw [hd]; exact h.obey
  · exact h.utd

/-- a new node, or a node that was not selected yet is reset to another task object: the dependency table changes
    only for a task that has no `start` in the trace -/
theorem core_retask {inp : Input} {s : Sys} {n : Name} {x : Node} (h : ObeyCore inp s)
    (hc : CountOK (stOf s) s.events) (hs0 : stOf s n = .none) (hst : x.status = .none)
    (hg : NodeG (goodOf s) x) : ObeyCore inp (setNode s n x) := by
  have hs : stOf (setNode s n x) = stOf s := by
    funext d; rw [stOf_setNode]; split
    · rename_i e; subst e; rw [hst, hs0]
    · rfl
  have hf : goodOf (setNode s n x) = goodOf s := by funext d; simp [goodOf, hs]
  constructor
  · intro k nd' hk
    rw [hf]
    simp only [setNode] at hk
    split at hk
    · cases hk; exact hg
    · exact h.node k nd' hk
  · intro d hd'; rw [hs] at hd'; exact h.okS d hd'
  · intro d hd'; rw [hs] at hd'; exact h.utdS d hd'
  · intro d hd'; rw [hs] at hd'; exact h.runS d hd'
  · rw [obeyOK_congr (nodeDeps (setNode s n x)) (nodeDeps s)]
    · exact h.obey
    · intro t ht
      by_cases htn : t = n
      · subst htn; exact absurd rfl (hc.fresh t hs0 _ ht)
      · simp [nodeDeps, setNode, htn]
  · exact h.utd

theorem NodeG.st_none {good : Name → Bool} {nd : Node} (h : NodeG good nd) (hpc : nd.pc ≠ .done) :
    nd.status = .none := by
  cases hs : nd.status with
  | none => rfl
  | _ => exact absurd (h.2.2 (by rw [hs]; intro e; cases e)).1 hpc

/-- a new pc for a node that is not inside the `for task_dep` loop -/
theorem nodeG_pc {good : Name → Bool} {nd : Node} (pc' : PC) (h : NodeG good nd) (h1 : ¬ ∃ ds, nd.pc = .taskIter ds)
    (h2 : pc' = .self1 → nd.pend = [] ∧ nd.waitRun = [] ∧ nd.task.loader = none)
    (h3 : nd.status ≠ .none → pc' = .done ∧ nd.task.loader = none) :
    NodeG good { nd with pc := pc' } := by
  refine ⟨fun hb d hd => ?_, h2, h3⟩
  rcases h.1 hb d hd with h3 | h3 | h3 | h3
  · exact Or.inl h3
  · exact absurd h3.1 h1
  · exact Or.inr (Or.inr (Or.inl h3))
  · exact Or.inr (Or.inr (Or.inr h3))

theorem nodeG_mkNode (good : Name → Bool) (td : TDef) (anc : List Name) : NodeG good (mkNodeI s₀ d₀ td anc) :=
  ⟨fun _ d hd => Or.inl hd, fun e => by simp [mkNodeI, mkNodeI, mkNode] at e, fun e => by simp [mkNodeI, mkNodeI, mkNode] at e⟩

theorem core_newNode {inp : Input} {s : Sys} {d : Name} (td : TDef) (anc : List Name) (h : ObeyCore inp s)
    (hc : CountOK (stOf s) s.events) (hd : s.nodes d = none) : ObeyCore inp (setNode s d (mkNodeI s₀ d₀ td anc)) :=
  core_retask h hc (by simp [stOf, hd]) rfl (nodeG_mkNode _ td anc)

theorem core_registerWaiting {inp : Input} {s : Sys} (n : Name) (wf : List Name) (h : ObeyCore inp s) :
    ObeyCore inp (registerWaiting s n wf) := by
  have hs : stOf (registerWaiting s n wf) = stOf s := funext (stOf_registerWaiting s n wf)
  have hf : goodOf (registerWaiting s n wf) = goodOf s := by funext d; simp [goodOf, hs]
  have hd : nodeDeps (registerWaiting s n wf) = nodeDeps s := by
    funext d
    cases hx : s.nodes d with
    | none => simp [nodeDeps, registerWaiting, hx]
    | some x =>
      by_cases hm : d ∈ wf
      · simp only [nodeDeps, registerWaiting, hx, hm, if_true]; unfold Node.addWaiting; split <;> rfl
      · simp only [nodeDeps, registerWaiting, hx, hm, if_false]
  constructor
  · intro k nd' hk
    rw [hf]
    simp only [registerWaiting] at hk
    cases hx : s.nodes k with
    | none => simp [hx] at hk
    | some x =>
      simp only [hx] at hk
      have hox := h.node k x hx
      split at hk
      · cases hk
        unfold Node.addWaiting
        split
        · exact hox
        · exact hox
      · cases hk; exact hox
  · intro d hd'; rw [hs] at hd'; exact h.okS d hd'
  · intro d hd'; rw [hs] at hd'; exact h.utdS d hd'
  · intro d hd'; rw [hs] at hd'; exact h.runS d hd'
  · rw [hd]; exact h.obey
  · exact h.utd

theorem core_genStep {inp : Input} {s : Sys} {n : Name} {nd : Node} (h : ObeyCore inp s)
    (hc : CountOK (stOf s) s.events) (hn : s.nodes n = some nd)
    (d : Name) (ds : List Name) (hpc : ∃ ds', nd.pc = .taskIter ds') :
    ObeyCore inp (genStep s n nd d (.taskIter ds)) := by
  have hg := h.node n nd hn
  have hx : NodeG (goodOf s) { nd with pc := .taskIter ds } := by
    refine ⟨fun hb x hx => ?_, fun hp => (by cases hp), fun hs => ?_⟩
    · rcases hg.1 hb x hx with h1 | h1 | h1 | h1
      · exact Or.inl h1
      · exact Or.inr (Or.inl ⟨⟨ds, rfl⟩, h1.2⟩)
      · exact Or.inr (Or.inr (Or.inl h1))
      · exact Or.inr (Or.inr (Or.inr h1))
    · obtain ⟨ds', e⟩ := hpc
      have := (hg.2.2 hs).1
      rw [e] at this; cases this
  unfold genStep
  cases hd : s.nodes d with
  | some x =>
    simp only []
    split
    · exact h.congr rfl rfl
    · exact core_setNode h hn rfl rfl hx
  | none =>
    simp only []
    cases ht : s.tasks d with
    | none => exact h.congr rfl rfl
    | some td =>
      simp only []
      have hnd : n ≠ d := by intro e; subst e; rw [hn] at hd; cases hd
      have h1 := core_newNode (s₀ := s) (d₀ := d) td (nd.anc ++ [d]) h hc hd
      have hn' : (setNode s d (mkNodeI s d td (nd.anc ++ [d]))).nodes n = some nd := by simp [setNode, hnd, hn]
      have hf : goodOf (setNode s d (mkNodeI s d td (nd.anc ++ [d]))) = goodOf s := by
        funext k; unfold goodOf; rw [stOf_setNode]; split
        · rename_i e; subst e; simp [stOf, hd, mkNodeI, mkNode]
        · rfl
      have h2 := core_setNode (x := { nd with pc := .taskIter ds }) h1 hn' rfl rfl (by rw [hf]; exact hx)
      exact h2.congr rfl rfl

theorem good_of_finished_not_bad {s : Sys} {x : Name} (hu : unfinished s x = false) (hb : isBad s x = false) :
    goodOf s x = true := by
  unfold unfinished at hu; unfold isBad at hb; unfold goodOf
  cases hst : stOf s x <;> simp_all [RS.finished, RS.good]

theorem core_addWaitRun {inp : Input} {s : Sys} {n : Name} {nd : Node} (h : ObeyCore inp s)
    (hn : s.nodes n = some nd) (hpc : nd.pc = .taskIter []) : ObeyCore inp (addWaitRun s n nd nd.snap .afterDeps) := by
  unfold addWaitRun
  apply core_registerWaiting
  have hg := h.node n nd hn
  refine core_setNode h hn rfl rfl ⟨fun hb x hx => ?_, fun hp => (by cases hp), fun hs => ?_⟩
  · simp only [Bool.or_eq_false_iff] at hb
    simp only [List.mem_append, List.mem_filter]
    rcases hg.1 hb.1 x hx with h1 | h1 | h1 | h1
    · exact Or.inl h1
    · by_cases hu : unfinished s x = true
      · exact Or.inr (Or.inr (Or.inl (Or.inl ⟨h1.2, hu⟩)))
      · refine Or.inr (Or.inr (Or.inr ?_))
        have hnb : isBad s x = false := by
          have := hb.2
          rw [List.any_eq_false] at this
          simpa using this x h1.2
        exact good_of_finished_not_bad (by simpa using hu) hnb
    · exact Or.inr (Or.inr (Or.inl (Or.inr h1)))
    · exact Or.inr (Or.inr (Or.inr h1))
  · have := (hg.2.2 hs).1
    rw [hpc] at this; cases this

theorem stOf_wakeOne {s : Sys} {w : Name} {nd : Node} (hn : s.nodes w = some nd) (pst : RS) (p : Name) :
    stOf (wakeOne s pst p w nd) = stOf s := by
  unfold wakeOne
  split
  · exact (stOf_congr (s := setNode s w (wokenNode pst p nd)) rfl).trans
      (stOf_setNode_same (x := wokenNode pst p nd) hn rfl)
  · exact stOf_setNode_same (x := wokenNode pst p nd) hn rfl

theorem core_wakeOne {inp : Input} {s : Sys} {w : Name} {nd : Node} (h : ObeyCore inp s) (hn : s.nodes w = some nd)
    (pst : RS) (p : Name) (hp : stOf s p = pst) (hfin : pst.finished = true) :
    ObeyCore inp (wakeOne s pst p w nd) := by
  have hg := h.node w nd hn
  have hx : NodeG (goodOf s) (wokenNode pst p nd) := by
    refine ⟨fun hb x hx => ?_, fun hpc => ?_, hg.2.2⟩
    · simp only [wokenNode, Bool.or_eq_false_iff] at hb
      simp only [wokenNode, List.mem_filter]
      rcases hg.1 hb.1 x hx with h1 | h1 | h1 | h1
      · exact Or.inl h1
      · exact Or.inr (Or.inl h1)
      · by_cases hxp : x = p
        · subst hxp
          refine Or.inr (Or.inr (Or.inr ?_))
          unfold goodOf; rw [hp]
          have := hb.2
          cases pst <;> simp_all [RS.finished, RS.good]
        · exact Or.inr (Or.inr (Or.inl ⟨h1, by simpa using hxp⟩))
      · exact Or.inr (Or.inr (Or.inr h1))
    · have := hg.2.1 hpc
      simp [wokenNode, this.1, this.2.1, this.2.2]
  unfold wakeOne
  split
  · exact (core_setNode (x := wokenNode pst p nd) h hn rfl rfl hx).congr rfl rfl
  · exact core_setNode (x := wokenNode pst p nd) h hn rfl rfl hx

theorem core_updateWaiting {inp : Input} (pst : RS) (p : Name) (hfin : pst.finished = true) (perm : List Name) :
    ∀ (s s' : Sys), ObeyCore inp s → stOf s p = pst → updateWaiting pst p s perm = some s' → ObeyCore inp s' := by
  induction perm with
  | nil => intro s s' h _ hu; simp only [updateWaiting] at hu; cases hu; exact h
  | cons w ws ih =>
    intro s s' h hp hu
    simp only [updateWaiting] at hu
    cases hw : s.nodes w with
    | none => simp only [hw] at hu; exact ih s s' h hp hu
    | some nd =>
      simp only [hw] at hu
      split at hu
      · cases hu
      · exact ih _ _ (core_wakeOne h hw pst p hp hfin) (by rw [stOf_wakeOne hw]; exact hp) hu

theorem core_feed {inp : Input} {s s' : Sys} {p : Name} {perm : List Name} (h : ObeyCore inp s)
    (hf : feed s p perm = some s') : ObeyCore inp s' := by
  unfold feed at hf
  cases hp : s.nodes p with
  | none => simp only [hp] at hf; cases hf; exact h.congr rfl rfl
  | some nd =>
    simp only [hp] at hf
    split at hf
    · rename_i hfin
      split at hf
      · cases hu : updateWaiting nd.status p { s with dispatched := s.dispatched.filter (· ≠ p) } perm with
        | none => simp only [hu] at hf; cases hf; exact h.congr rfl rfl
        | some s1 =>
          simp only [hu] at hf; cases hf
          have h0 : ObeyCore inp { s with dispatched := s.dispatched.filter (· ≠ p) } := h.congr rfl rfl
          have hp0 : stOf { s with dispatched := s.dispatched.filter (· ≠ p) } p = nd.status := by
            simp [stOf, hp]
          exact (core_updateWaiting _ _ hfin _ _ _ h0 hp0 hu).congr rfl rfl
      · cases hf
    · cases hf; exact h.congr rfl rfl

/-! ### where the generator is suspended -/

theorem feed_susp {s s' : Sys} {p : Name} {perm : List Name} (hf : feed s p perm = some s') :
    s'.susp = .running ∨ ∃ e, s'.susp = .err e := by
  unfold feed at hf
  cases hp : s.nodes p with
  | none => simp only [hp] at hf; cases hf; exact Or.inr ⟨_, rfl⟩
  | some nd =>
    simp only [hp] at hf
    split at hf
    · split at hf
      · cases hu : updateWaiting nd.status p { s with dispatched := s.dispatched.filter (· ≠ p) } perm with
        | none => simp only [hu] at hf; cases hf; exact Or.inr ⟨_, rfl⟩
        | some s1 => simp only [hu] at hf; cases hf; exact Or.inl rfl
      · cases hf
    · cases hf; exact Or.inl rfl

end DoitModel.Delayed
