import DoitModel.Model.OptCfg
import DoitModel.Proofs.OptAccept
/-! M4 (wave 5): lookup lemmas for the config layers and the plugin tables -/
namespace DoitModel.Opt

/-- `dict.update`: the updating dict wins for the keys it has, the other keys are kept -/
theorem dictUpdate_lookup {β : Type} (d u : List (Str × β)) (k : Str) :
    alookup k (dictUpdate d u) = match alookup k u with
      | some v => some v
      | none => alookup k d := by
  unfold dictUpdate
  rw [alookup_append]
  have hmap : alookup k (d.map fun kv => (kv.1, (alookup kv.1 u).getD kv.2)) =
      (alookup k d).map fun v => (alookup k u).getD v := by
    induction d with
    | nil => rfl
    | cons x r ih =>
      obtain ⟨a, b⟩ := x
      by_cases ha : a = k
      · subst ha; simp [alookup_cons]
      · simp [alookup_cons, ha, ih]
  rw [hmap]
  cases hg : alookup k d with
  | some v => cases hc : alookup k u <;> simp
  | none =>
    simp only [Option.map_none]
    have := alookup_filter_ne k u (fun a => (alookup a d).isNone) (by simp [hg])
    rw [this]
    cases alookup k u <;> rfl

theorem alookup_map_snd {β γ : Type} (f : β → γ) (l : List (Str × β)) (k : Str) :
    alookup k (l.map fun kv => (kv.1, f kv.2)) = (alookup k l).map f := by
  induction l with
  | nil => rfl
  | cons x r ih =>
    obtain ⟨a, b⟩ := x
    by_cases ha : a = k
    · subst ha; simp [alookup_cons]
    · simp [alookup_cons, ha, ih]

theorem alookup_core (core : List Str) (k : Str) :
    alookup k (core.map fun n => (n, Cls.core n)) = if k ∈ core then some (Cls.core k) else none := by
  induction core with
  | nil => rfl
  | cons a r ih =>
    by_cases ha : a = k
    · subst ha; simp [alookup_cons]
    · have : ¬ k = a := fun h => ha h.symm
      simp [alookup_cons, ha, ih, this]

theorem alookup_isSome_iff {β : Type} (l : List (Str × β)) (k : Str) :
    (alookup k l).isSome = true ↔ k ∈ l.map (·.1) := by
  induction l with
  | nil => simp [alookup]
  | cons x r ih =>
    obtain ⟨a, b⟩ := x
    by_cases ha : a = k
    · subst ha; simp [alookup_cons]
    · have : ¬ k = a := fun h => ha h.symm
      simp [alookup_cons, ha, ih, this]

/-- the name table: plugin first, then core -/
theorem nameTable_lookup (core : List Str) (plugins : List (Str × Str)) (k : Str) :
    alookup k (nameTable core plugins) = match alookup k plugins with
      | some loc => some (Cls.plugin loc)
      | none => if k ∈ core then some (Cls.core k) else none := by
  unfold nameTable
  rw [dictUpdate_lookup, alookup_map_snd Cls.plugin plugins k, alookup_core]
  cases alookup k plugins <;> simp

/-- three layers of one PLUGIN section -/
theorem pluginSection3_lookup (api toml ini : List (Str × Str)) (k : Str) :
    alookup k (pluginSection [api, toml, ini]) = match alookup k ini with
      | some v => some v
      | none => match alookup k toml with
        | some v => some v
        | none => alookup k api := by
  simp only [pluginSection, List.foldl]
  rw [dictUpdate_lookup, dictUpdate_lookup, dictUpdate_lookup]
  cases alookup k ini <;> cases alookup k toml <;> cases alookup k api <;> simp [alookup]

/-- six config layers of one key -/
theorem sixLayers_lookup (gApi gToml gCfg sApi sToml sCfg : List (Str × CfgVal)) (k : Str) :
    alookup k (sixLayers gApi gToml gCfg sApi sToml sCfg) =
      match alookup k sCfg with
      | some v => some v
      | none => match alookup k sToml with
        | some v => some v
        | none => match alookup k sApi with
          | some v => some v
          | none => match alookup k gCfg with
            | some v => some v
            | none => match alookup k gToml with
              | some v => some v
              | none => alookup k gApi := by
  simp only [sixLayers, mergeLayers, List.foldl]
  rw [mergeCfg_lookup, mergeCfg_lookup, mergeCfg_lookup, mergeCfg_lookup, mergeCfg_lookup]
  cases alookup k sCfg <;> cases alookup k sToml <;> cases alookup k sApi <;> cases alookup k gCfg <;>
    cases alookup k gToml <;> cases alookup k gApi <;> rfl

end DoitModel.Opt
