import DoitModel.Proofs.C05Main
/-! # C05 (c), "normal report": a task is reported `unmet` only if one of its direct dependencies has a failure report

Node invariant `NDp`: every name in a node's dependency lists is a dependency of the task that the run has OBSERVED
(`DepObs` / `CalcObs`: task_dep, calc_dep, what calc_deps with a finish report in the event list delivered) or — once
`select_task` has looked at the task (`run_status` is not `None`) — one of its setup-tasks; every member of `bad_deps`
(`ignored_deps`) is such a dependency and has a failure (`skip_ignore`) report.  The invariant itself is stated over the
wider relations `DepObsF` / `CalcObsF` (also what a calc_dep that was STARTED and then reported failed delivered:
`Run.deliverF`); `DepObsF.reduce` brings a justification back to the narrow ones, so no hypothesis on `calcResFail` is
needed. -/
namespace DoitModel.Run

/-- calc_deps of `t`, including those delivered by calc_deps that have a finish report in `evs` -/
inductive CalcObs (inp : RunInput) (evs : List Ev) (t : Name) : Name → Prop
  | base {c : Name} : c ∈ inp.calcDep t → CalcObs inp evs t c
  | step {c c' : Name} : CalcObs inp evs t c → finBefore evs c → c' ∈ (inp.calcRes c).calcs → CalcObs inp evs t c'

/-- direct dependency of `t` other than a setup-task, as far as the events `evs` determine it -/
inductive DepObs (inp : RunInput) (evs : List Ev) (t : Name) : Name → Prop
  | task {d : Name} : d ∈ inp.taskDep t → DepObs inp evs t d
  | ofCalc {c : Name} : CalcObs inp evs t c → DepObs inp evs t c
  | resTask {c d : Name} : CalcObs inp evs t c → finBefore evs c → d ∈ (inp.calcRes c).tasks → DepObs inp evs t d
  | resFile {c d : Name} : CalcObs inp evs t c → finBefore evs c → d ∈ (inp.calcRes c).files → DepObs inp evs t d

theorem CalcObs.mono {inp : RunInput} {evs evs' : List Ev} {t c : Name} (hm : ∀ e ∈ evs, e ∈ evs')
    (h : CalcObs inp evs t c) : CalcObs inp evs' t c := by
  induction h with
  | base h => exact .base h
  | step _ hf hc ih => exact .step ih (finBefore_mono hm hf) hc

theorem DepObs.mono {inp : RunInput} {evs evs' : List Ev} {t d : Name} (hm : ∀ e ∈ evs, e ∈ evs')
    (h : DepObs inp evs t d) : DepObs inp evs' t d := by
  cases h with
  | task h => exact .task h
  | ofCalc h => exact .ofCalc (h.mono hm)
  | resTask h f m => exact .resTask (h.mono hm) (finBefore_mono hm f) m
  | resFile h f m => exact .resFile (h.mono hm) (finBefore_mono hm f) m

theorem CalcObs.calcOf {inp : RunInput} {evs : List Ev} {t c : Name} (h : CalcObs inp evs t c) : CalcOf inp t c := by
  induction h with
  | base h => exact .base h
  | step _ _ hc ih => exact .step ih hc

theorem DepObs.depNS {inp : RunInput} {evs : List Ev} {t d : Name} (h : DepObs inp evs t d) : DepNS inp t d := by
  cases h with
  | task h => exact .task h
  | ofCalc h => exact .ofCalc h.calcOf
  | resTask h _ m => exact .resTask h.calcOf m
  | resFile h _ m => exact .resFile h.calcOf m

/-- observed dependency, or a setup-task of a task `select_task` has already looked at (`st`: its `run_status`) -/
def IsDepO (inp : RunInput) (evs : List Ev) (n : Name) (st : RS) (d : Name) : Prop :=
  DepObs inp evs n d ∨ (d ∈ inp.setup n ∧ st ≠ .none)

theorem IsDepO.mono {inp : RunInput} {evs evs' : List Ev} {n d : Name} {st : RS} (hm : ∀ e ∈ evs, e ∈ evs')
    (h : IsDepO inp evs n st d) : IsDepO inp evs' n st d := h.imp (fun a => a.mono hm) id

def IsDep (inp : RunInput) (n d : Name) : Prop := DepNS inp n d ∨ d ∈ inp.setup n

theorem IsDepO.isDep {inp : RunInput} {evs : List Ev} {n d : Name} {st : RS} (h : IsDepO inp evs n st d) :
    IsDep inp n d := h.imp (fun a => a.depNS) (fun a => a.1)

/-! ### the same relations with what FAILED calc tasks delivered

`_process_calc_dep_results` reads `task.values` of a calc task whatever its `run_status` (`Run.deliverF`, oracle
`calcResFail`): a calc_dep that was STARTED in this run and then reported failed delivers what its actions returned before
the failing one.  The node invariant is stated over these wider relations; the statements about reports keep the narrow
ones, because a dependency that only a failed calc task delivered always comes with that failed calc task
(`DepObsF.reduce`). -/

/-- `c` was started in `evs` and has a failure report -/
def FailedRun (evs : List Ev) (c : Name) : Prop := (∃ w, Ev.start c w ∈ evs) ∧ ∃ k, Ev.failure c k ∈ evs

theorem FailedRun.mono {evs evs' : List Ev} {c : Name} (hm : ∀ e ∈ evs, e ∈ evs') (h : FailedRun evs c) :
    FailedRun evs' c := by
  obtain ⟨⟨w, a⟩, k, b⟩ := h; exact ⟨⟨w, hm _ a⟩, k, hm _ b⟩

inductive CalcObsF (inp : RunInput) (evs : List Ev) (t : Name) : Name → Prop
  | base {c : Name} : c ∈ inp.calcDep t → CalcObsF inp evs t c
  | step {c c' : Name} : CalcObsF inp evs t c → finBefore evs c → c' ∈ (inp.calcRes c).calcs → CalcObsF inp evs t c'
  | stepF {c c' : Name} : CalcObsF inp evs t c → FailedRun evs c → c' ∈ (inp.calcResFail c).calcs → CalcObsF inp evs t c'

inductive DepObsF (inp : RunInput) (evs : List Ev) (t : Name) : Name → Prop
  | task {d : Name} : d ∈ inp.taskDep t → DepObsF inp evs t d
  | ofCalc {c : Name} : CalcObsF inp evs t c → DepObsF inp evs t c
  | resTask {c d : Name} : CalcObsF inp evs t c → finBefore evs c → d ∈ (inp.calcRes c).tasks → DepObsF inp evs t d
  | resFile {c d : Name} : CalcObsF inp evs t c → finBefore evs c → d ∈ (inp.calcRes c).files → DepObsF inp evs t d
  | resTaskF {c d : Name} : CalcObsF inp evs t c → FailedRun evs c → d ∈ (inp.calcResFail c).tasks → DepObsF inp evs t d
  | resFileF {c d : Name} : CalcObsF inp evs t c → FailedRun evs c → d ∈ (inp.calcResFail c).files → DepObsF inp evs t d

theorem CalcObsF.mono {inp : RunInput} {evs evs' : List Ev} {t c : Name} (hm : ∀ e ∈ evs, e ∈ evs')
    (h : CalcObsF inp evs t c) : CalcObsF inp evs' t c := by
  induction h with
  | base h => exact .base h
  | step _ hf hc ih => exact .step ih (finBefore_mono hm hf) hc
  | stepF _ hf hc ih => exact .stepF ih (hf.mono hm) hc

theorem DepObsF.mono {inp : RunInput} {evs evs' : List Ev} {t d : Name} (hm : ∀ e ∈ evs, e ∈ evs')
    (h : DepObsF inp evs t d) : DepObsF inp evs' t d := by
  cases h with
  | task h => exact .task h
  | ofCalc h => exact .ofCalc (h.mono hm)
  | resTask h f m => exact .resTask (h.mono hm) (finBefore_mono hm f) m
  | resFile h f m => exact .resFile (h.mono hm) (finBefore_mono hm f) m
  | resTaskF h f m => exact .resTaskF (h.mono hm) (f.mono hm) m
  | resFileF h f m => exact .resFileF (h.mono hm) (f.mono hm) m

/-- a calc_dep that only a failed calc task delivered comes with a failed calc_dep observed the narrow way -/
theorem CalcObsF.reduce {inp : RunInput} {evs : List Ev} {t c : Name} (h : CalcObsF inp evs t c) :
    CalcObs inp evs t c ∨ ∃ c0 k, CalcObs inp evs t c0 ∧ Ev.failure c0 k ∈ evs := by
  induction h with
  | base h => exact Or.inl (.base h)
  | step _ hf hc ih =>
    rcases ih with a | a
    · exact Or.inl (.step a hf hc)
    · exact Or.inr a
  | stepF _ hf _ ih =>
    rcases ih with a | a
    · obtain ⟨_, k, hk⟩ := hf; exact Or.inr ⟨_, k, a, hk⟩
    · exact Or.inr a

theorem DepObsF.reduce {inp : RunInput} {evs : List Ev} {t d : Name} (h : DepObsF inp evs t d) :
    DepObs inp evs t d ∨ ∃ c0 k, CalcObs inp evs t c0 ∧ Ev.failure c0 k ∈ evs := by
  cases h with
  | task h => exact Or.inl (.task h)
  | ofCalc h => exact h.reduce.imp (fun a => .ofCalc a) id
  | resTask h f m => exact h.reduce.imp (fun a => .resTask a f m) id
  | resFile h f m => exact h.reduce.imp (fun a => .resFile a f m) id
  | resTaskF h f _ =>
    rcases h.reduce with a | a
    · obtain ⟨_, k, hk⟩ := f; exact Or.inr ⟨_, k, a, hk⟩
    · exact Or.inr a
  | resFileF h f _ =>
    rcases h.reduce with a | a
    · obtain ⟨_, k, hk⟩ := f; exact Or.inr ⟨_, k, a, hk⟩
    · exact Or.inr a

def IsDepOF (inp : RunInput) (evs : List Ev) (n : Name) (st : RS) (d : Name) : Prop :=
  DepObsF inp evs n d ∨ (d ∈ inp.setup n ∧ st ≠ .none)

theorem IsDepOF.mono {inp : RunInput} {evs evs' : List Ev} {n d : Name} {st : RS} (hm : ∀ e ∈ evs, e ∈ evs')
    (h : IsDepOF inp evs n st d) : IsDepOF inp evs' n st d := h.imp (fun a => a.mono hm) id

/-- a member of `bad_deps` / `ignored_deps` seen the wide way yields a justification seen the narrow way: itself, or the
    failed calc task that delivered it -/
theorem IsDepOF.witness {inp : RunInput} {evs : List Ev} {n p : Name} {st : RS} (h : IsDepOF inp evs n st p) :
    (DepObs inp evs n p ∨ (p ∈ inp.setup n ∧ st ≠ .none)) ∨ ∃ c0 k, DepObs inp evs n c0 ∧ Ev.failure c0 k ∈ evs := by
  rcases h with a | a
  · rcases a.reduce with b | ⟨c0, k, b, hk⟩
    · exact Or.inl (Or.inl b)
    · exact Or.inr ⟨c0, k, .ofCalc b, hk⟩
  · exact Or.inl (Or.inr a)

theorem started_mem {s : Sys} {p : Name} (h : started s p = true) : ∃ w, Ev.start p w ∈ s.events := by
  unfold started at h
  obtain ⟨e, he, hp⟩ := List.any_eq_true.mp h
  cases e with
  | start n w =>
    have : n = p := by simpa using hp
    subst this; exact ⟨w, he⟩
  | _ => simp at hp

structure NDp (inp : RunInput) (evs : List Ev) (n : Name) (nd : Node) : Prop where
  dt : ∀ d ∈ nd.dynTask, DepObsF inp evs n d
  dc : ∀ d ∈ nd.dynCalc, CalcObsF inp evs n d
  pt : ∀ d ∈ nd.pendTask, DepObsF inp evs n d
  pcalc : ∀ d ∈ nd.pendCalc, CalcObsF inp evs n d
  st : ∀ d ∈ nd.snapTask, DepObsF inp evs n d
  sc : ∀ d ∈ nd.snapCalc, CalcObsF inp evs n d
  wr : ∀ d ∈ nd.waitRun, IsDepOF inp evs n nd.status d
  wc : ∀ d ∈ nd.waitRunCalc, CalcObsF inp evs n d
  bd : ∀ p ∈ nd.bad, IsDepOF inp evs n nd.status p ∧ ∃ k, Ev.failure p k ∈ evs
  ig : ∀ p ∈ nd.ign, IsDepOF inp evs n nd.status p ∧ Ev.skipIgn p ∈ evs
  sp : ∀ todo, nd.pc = .setupIter todo → nd.status ≠ .none

def AllND (inp : RunInput) (s : Sys) : Prop := ∀ n nd, s.nodes n = some nd → NDp inp s.events n nd

theorem NDp.mono {inp : RunInput} {evs evs' : List Ev} {n : Name} {nd : Node} (h : NDp inp evs n nd)
    (hm : ∀ e ∈ evs, e ∈ evs') : NDp inp evs' n nd :=
  ⟨fun d hd => (h.dt d hd).mono hm, fun d hd => (h.dc d hd).mono hm, fun d hd => (h.pt d hd).mono hm,
   fun d hd => (h.pcalc d hd).mono hm, fun d hd => (h.st d hd).mono hm, fun d hd => (h.sc d hd).mono hm,
   fun d hd => (h.wr d hd).mono hm, fun d hd => (h.wc d hd).mono hm,
   fun p hp => ⟨(h.bd p hp).1.mono hm, by obtain ⟨k, hk⟩ := (h.bd p hp).2; exact ⟨k, hm _ hk⟩⟩,
   fun p hp => ⟨(h.ig p hp).1.mono hm, hm _ (h.ig p hp).2⟩, h.sp⟩

/-- what the event list says about a finished status `pst` of task `p` -/
structure PstOK (evs : List Ev) (pst : RS) (p : Name) : Prop where
  f : pst = .fail → ∃ k, Ev.failure p k ∈ evs
  i : pst = .ign → Ev.skipIgn p ∈ evs
  g : pst.good = true → finBefore evs p

/-- every final status is backed by its report in `evs` -/
def EvSt (evs : List Ev) (s : Sys) : Prop := ∀ d, PstOK evs (stOf s d) d

/-! ### node-level lemmas -/

theorem mkNode_nd (inp : RunInput) (evs : List Ev) (t : Name) (anc : List Name) : NDp inp evs t (mkNode inp t anc) := by
  refine ⟨fun d hd => .task hd, ?_, fun d hd => .task hd, ?_, ?_, ?_, ?_, ?_, ?_, ?_, ?_⟩
  · intro d hd; exact .base (mem_dedup.mp hd)
  · intro d hd; exact .base (mem_dedup.mp hd)
  · intro d hd; simp [mkNode] at hd
  · intro d hd; simp [mkNode] at hd
  · intro d hd; simp [mkNode] at hd
  · intro d hd; simp [mkNode] at hd
  · intro d hd; simp [mkNode] at hd
  · intro d hd; simp [mkNode] at hd
  · intro todo h; simp [mkNode] at h

theorem addDeps_nd {inp : RunInput} {evs : List Ev} {n p : Name} {nd : Node} (h : NDp inp evs n nd)
    (hp : CalcObsF inp evs n p) (hf : finBefore evs p) : NDp inp evs n (nd.addDeps (inp.calcRes p)) := by
  have nt : ∀ d ∈ newTaskDeps nd (inp.calcRes p), DepObsF inp evs n d := by
    intro d hd
    simp only [newTaskDeps, List.mem_append] at hd
    rcases hd with a | a
    · exact .resTask hp hf a
    · exact .resFile hp hf (implicitNew_mem a)
  have nc : ∀ d ∈ newCalcDeps nd (inp.calcRes p), CalcObsF inp evs n d := by
    intro d hd
    simp only [newCalcDeps, List.mem_filter] at hd
    exact .step hp hf (mem_dedup.mp hd.1)
  refine ⟨?_, ?_, ?_, ?_, h.st, h.sc, h.wr, h.wc, h.bd, h.ig, h.sp⟩
  · intro d hd; simp only [Node.addDeps, List.mem_append] at hd
    rcases hd with a | a
    · exact h.dt d a
    · exact nt d a
  · intro d hd; simp only [Node.addDeps, List.mem_append] at hd
    rcases hd with a | a
    · exact h.dc d a
    · exact nc d a
  · intro d hd; simp only [Node.addDeps, List.mem_append] at hd
    rcases hd with a | a
    · exact h.pt d a
    · exact nt d a
  · intro d hd; simp only [Node.addDeps, List.mem_append, List.mem_filter] at hd
    rcases hd with a | a
    · exact h.pcalc d a
    · exact nc d a.1

theorem deliver_status (inp : RunInput) (pst : RS) (p : Name) (nd : Node) : (deliver inp pst p nd).status = nd.status := by
  unfold deliver; split <;> rfl

theorem deliver_nd {inp : RunInput} {evs : List Ev} {n p : Name} {nd : Node} {pst : RS} (h : NDp inp evs n nd)
    (hp : CalcObsF inp evs n p) (hg : PstOK evs pst p) : NDp inp evs n (deliver inp pst p nd) := by
  unfold deliver; split
  · rename_i e; exact addDeps_nd h hp (hg.g e)
  · exact h

theorem addDepsF_nd {inp : RunInput} {evs : List Ev} {n p : Name} {nd : Node} (h : NDp inp evs n nd)
    (hp : CalcObsF inp evs n p) (hf : FailedRun evs p) : NDp inp evs n (nd.addDeps (inp.calcResFail p)) := by
  have nt : ∀ d ∈ newTaskDeps nd (inp.calcResFail p), DepObsF inp evs n d := by
    intro d hd
    simp only [newTaskDeps, List.mem_append] at hd
    rcases hd with a | a
    · exact .resTaskF hp hf a
    · exact .resFileF hp hf (implicitNew_mem a)
  have nc : ∀ d ∈ newCalcDeps nd (inp.calcResFail p), CalcObsF inp evs n d := by
    intro d hd
    simp only [newCalcDeps, List.mem_filter] at hd
    exact .stepF hp hf (mem_dedup.mp hd.1)
  refine ⟨?_, ?_, ?_, ?_, h.st, h.sc, h.wr, h.wc, h.bd, h.ig, h.sp⟩
  · intro d hd; simp only [Node.addDeps, List.mem_append] at hd
    rcases hd with a | a
    · exact h.dt d a
    · exact nt d a
  · intro d hd; simp only [Node.addDeps, List.mem_append] at hd
    rcases hd with a | a
    · exact h.dc d a
    · exact nc d a
  · intro d hd; simp only [Node.addDeps, List.mem_append] at hd
    rcases hd with a | a
    · exact h.pt d a
    · exact nt d a
  · intro d hd; simp only [Node.addDeps, List.mem_append, List.mem_filter] at hd
    rcases hd with a | a
    · exact h.pcalc d a
    · exact nc d a.1

theorem deliverF_status (inp : RunInput) (ex : Bool) (pst : RS) (p : Name) (nd : Node) :
    (deliverF inp ex pst p nd).status = nd.status := by
  unfold deliverF; split <;> rfl

/-- the delivery of a calc task that was started and then failed -/
theorem deliverF_nd {inp : RunInput} {evs : List Ev} {n p : Name} {nd : Node} {pst : RS} {ex : Bool}
    (h : NDp inp evs n nd) (hp : CalcObsF inp evs n p) (hg : PstOK evs pst p)
    (hex : ex = true → ∃ w, Ev.start p w ∈ evs) : NDp inp evs n (deliverF inp ex pst p nd) := by
  unfold deliverF; split
  · rename_i e; exact addDepsF_nd h hp ⟨hex e.2, hg.f e.1⟩
  · exact h

theorem parentStatus_nd {inp : RunInput} {evs : List Ev} {n p : Name} {nd : Node} {pst : RS} (h : NDp inp evs n nd)
    (hd : IsDepOF inp evs n nd.status p) (hf : PstOK evs pst p) : NDp inp evs n (parentStatus pst p nd) := by
  refine ⟨h.dt, h.dc, h.pt, h.pcalc, h.st, h.sc, h.wr, h.wc, ?_, ?_, h.sp⟩
  · intro x hx
    simp only [parentStatus] at hx
    split at hx
    · rename_i e
      rcases List.mem_append.mp hx with a | a
      · exact h.bd x a
      · simp at a; subst a; exact ⟨hd, hf.f e⟩
    · exact h.bd x hx
  · intro x hx
    simp only [parentStatus] at hx
    split at hx
    · rename_i e
      rcases List.mem_append.mp hx with a | a
      · exact h.ig x a
      · simp at a; subst a; exact ⟨hd, hf.i e⟩
    · exact h.ig x hx

theorem absorbDone_status (inp : RunInput) (s : Sys) (isCalc : Bool) : ∀ (ds : List Name) (nd : Node),
    (absorbDone inp s isCalc ds nd).status = nd.status := by
  intro ds
  induction ds with
  | nil => intro nd; rfl
  | cons a t ih =>
    intro nd
    simp only [absorbDone]
    split
    · exact ih nd
    · rw [ih]; split
      · rw [deliverF_status, deliver_status]; rfl
      · rfl

theorem absorbDone_nd {inp : RunInput} {s : Sys} {evs : List Ev} {n : Name} (isCalc : Bool) (st0 : RS)
    (hes : EvSt evs s) (hse : ∀ e ∈ s.events, e ∈ evs) :
    ∀ (ds : List Name) (nd : Node), NDp inp evs n nd → nd.status = st0 →
      (∀ d ∈ ds, if isCalc = true then CalcObsF inp evs n d else IsDepOF inp evs n st0 d) →
      NDp inp evs n (absorbDone inp s isCalc ds nd) := by
  intro ds
  induction ds with
  | nil => intro nd h _ _; exact h
  | cons a t ih =>
    intro nd h hst hds
    simp only [absorbDone]
    have ha := hds a (by simp)
    split
    · exact ih nd h hst (fun d hd => hds d (by simp [hd]))
    · split
      · rename_i hc
        simp only [hc, if_true] at ha
        refine ih _ (deliverF_nd (deliver_nd (parentStatus_nd h (Or.inl (.ofCalc ha)) (hes a)) ha (hes a)) ha (hes a)
          (fun e => by obtain ⟨w, hw⟩ := started_mem e; exact ⟨w, hse _ hw⟩)) ?_
          (fun d hd => hds d (by simp [hd]))
        rw [deliverF_status, deliver_status]; exact hst
      · rename_i hc
        simp only [hc] at ha
        exact ih _ (parentStatus_nd h (hst ▸ ha) (hes a)) hst (fun d hd => hds d (by simp [hd]))

theorem waitNode_nd {inp : RunInput} {s : Sys} {evs : List Ev} {n : Name} {nd : Node} (ds : List Name) (isCalc : Bool)
    (pc' : PC) (hes : EvSt evs s) (hse : ∀ e ∈ s.events, e ∈ evs) (h : NDp inp evs n nd)
    (hds : ∀ d ∈ ds, if isCalc = true then CalcObsF inp evs n d else IsDepOF inp evs n nd.status d)
    (hpc : ∀ todo, pc' = .setupIter todo → nd.status ≠ .none) :
    NDp inp evs n (waitNode inp s nd ds isCalc pc') := by
  have a := absorbDone_nd (s := s) isCalc nd.status hes hse ds nd h rfl hds
  have est : (absorbDone inp s isCalc ds nd).status = nd.status := absorbDone_status inp s isCalc ds nd
  unfold waitNode addWaits
  split
  · rename_i hc
    refine ⟨a.dt, a.dc, a.pt, a.pcalc, a.st, a.sc, a.wr, ?_, a.bd, a.ig, fun todo e => est ▸ hpc todo e⟩
    intro d hd
    rcases List.mem_append.mp hd with x | x
    · have := hds d (List.mem_filter.mp x).1
      simpa [hc] using this
    · exact a.wc d x
  · rename_i hc
    refine ⟨a.dt, a.dc, a.pt, a.pcalc, a.st, a.sc, ?_, a.wc, a.bd, a.ig, fun todo e => est ▸ hpc todo e⟩
    intro d hd
    rcases List.mem_append.mp hd with x | x
    · have := hds d (List.mem_filter.mp x).1
      have : IsDepOF inp evs n nd.status d := by simpa [hc] using this
      exact est ▸ this
    · exact a.wr d x

theorem wokenNode_nd {inp : RunInput} {evs : List Ev} {n p : Name} {nd : Node} {pst : RS} (h : NDp inp evs n nd)
    (hnc : wakeCrash p nd = false) (hf : PstOK evs pst p) :
    NDp inp evs n (wokenNode inp pst p nd) := by
  unfold wokenNode
  split
  · rename_i hc
    have hp := h.wc p hc
    refine deliver_nd ?_ hp hf
    have a := parentStatus_nd h (Or.inl (.ofCalc hp)) hf
    exact ⟨a.dt, a.dc, a.pt, a.pcalc, a.st, a.sc, fun d hd => h.wr d (List.mem_filter.mp hd).1,
      fun d hd => h.wc d (List.mem_filter.mp hd).1, a.bd, a.ig, a.sp⟩
  · rename_i hc
    have hw : p ∈ nd.waitRun := by
      unfold wakeCrash at hnc
      simp only [hc, not_false_eq_true, decide_true, Bool.and_true, decide_eq_false_iff_not, Decidable.not_not] at hnc
      exact hnc
    have a := parentStatus_nd h (h.wr p hw) hf
    exact ⟨a.dt, a.dc, a.pt, a.pcalc, a.st, a.sc, fun d hd => h.wr d (List.mem_filter.mp hd).1, a.wc, a.bd, a.ig, a.sp⟩

theorem addWaiting_nd {inp : RunInput} {evs : List Ev} {n : Name} {nd : Node} (m : Name) (h : NDp inp evs n nd) :
    NDp inp evs n (nd.addWaiting m) := by
  unfold Node.addWaiting; split
  · exact h
  · exact ⟨h.dt, h.dc, h.pt, h.pcalc, h.st, h.sc, h.wr, h.wc, h.bd, h.ig, h.sp⟩

/-! ### state-level lemmas (`evs` fixed: the dispatcher adds no events) -/

def AllNDe (inp : RunInput) (evs : List Ev) (s : Sys) : Prop := ∀ k y, s.nodes k = some y → NDp inp evs k y

theorem nd_setNode {inp : RunInput} {evs : List Ev} {s : Sys} {n : Name} {x : Node} (h : AllNDe inp evs s)
    (hx : NDp inp evs n x) : AllNDe inp evs (setNode s n x) := by
  intro k y hk
  simp only [setNode_nodes] at hk
  split at hk
  · rename_i e; subst e; cases hk; exact hx
  · exact h k y hk

theorem nd_registerWaiting {inp : RunInput} {evs : List Ev} {s : Sys} (n : Name) (wf : List Name)
    (h : AllNDe inp evs s) : AllNDe inp evs (registerWaiting s n wf) := by
  intro k y hk
  rw [registerWaiting_nodes] at hk
  cases hx : s.nodes k with
  | none => rw [hx] at hk; cases hk
  | some x =>
    rw [hx] at hk
    by_cases e : k ∈ wf
    · simp only [e, if_true, Option.some.injEq] at hk; subst hk; exact addWaiting_nd n (h k x hx)
    · simp only [e, if_false, Option.some.injEq] at hk; subst hk; exact h k x hx

theorem NDp.setPc {inp : RunInput} {evs : List Ev} {n : Name} {nd : Node} (h : NDp inp evs n nd) (pc' : PC)
    (hpc : ∀ todo, pc' = .setupIter todo → nd.status ≠ .none) :
    NDp inp evs n { nd with pc := pc' } := ⟨h.dt, h.dc, h.pt, h.pcalc, h.st, h.sc, h.wr, h.wc, h.bd, h.ig, hpc⟩

theorem genStep_nd {inp : RunInput} {evs : List Ev} {s : Sys} {n : Name} {nd : Node} (d : Name) (pc' : PC)
    (h : AllNDe inp evs s) (hn : s.nodes n = some nd) (hpc : ∀ todo, pc' = .setupIter todo → nd.status ≠ .none) :
    AllNDe inp evs (genStep inp s n nd d pc') := by
  have hx := (h n nd hn).setPc pc' hpc
  unfold genStep
  cases hdn : s.nodes d with
  | none =>
    simp only []
    intro k y hk
    exact nd_setNode (nd_setNode h (mkNode_nd inp evs d _)) hx k y hk
  | some x =>
    simp only []
    split
    · exact h
    · exact nd_setNode h hx

theorem addWaitRun_nd {inp : RunInput} {evs : List Ev} {s : Sys} {n : Name} {nd : Node} (ds : List Name) (c : Bool)
    (pc' : PC) (hfe : EvSt evs s) (hse : ∀ e ∈ s.events, e ∈ evs) (h : AllNDe inp evs s)
    (hn : s.nodes n = some nd) (hds : ∀ d ∈ ds, if c = true then CalcObsF inp evs n d else IsDepOF inp evs n nd.status d)
    (hpc : ∀ todo, pc' = .setupIter todo → nd.status ≠ .none) :
    AllNDe inp evs (addWaitRun inp s n nd ds c pc') := by
  unfold addWaitRun
  exact nd_registerWaiting n _ (nd_setNode h (waitNode_nd ds c pc' hfe hse (h n nd hn) hds hpc))

theorem nodeStep_nd {inp : RunInput} {evs : List Ev} {s s' : Sys} {n : Name} {nd : Node} {perm : List Name}
    (hfe : EvSt evs s) (hse : ∀ e ∈ s.events, e ∈ evs) (h : AllNDe inp evs s) (hn : s.nodes n = some nd)
    (hs : nodeStep inp s n nd perm = some s') : AllNDe inp evs s' := by
  have hnd := h n nd hn
  unfold nodeStep at hs
  cases hpc : nd.pc with
  | loopTop =>
    simp only [hpc] at hs; split at hs
    · rename_i hp; cases hs
      refine nd_setNode h ⟨hnd.dt, hnd.dc, by simp, by simp, hnd.pt, ?_, hnd.wr, hnd.wc, hnd.bd, hnd.ig,
        fun _ e => by cases e⟩
      intro d hd; exact hnd.pcalc d (hp.mem_iff.mp hd)
    · cases hs
  | calcIter todo =>
    simp only [hpc] at hs
    cases todo with
    | cons d ds => cases hs; exact genStep_nd d _ h hn (fun _ e => by cases e)
    | nil =>
      cases hs
      exact addWaitRun_nd _ _ _ hfe hse h hn (fun d hd => by simpa using hnd.sc d hd) (fun _ e => by cases e)
  | taskIter todo =>
    simp only [hpc] at hs
    cases todo with
    | cons d ds => cases hs; exact genStep_nd d _ h hn (fun _ e => by cases e)
    | nil =>
      cases hs
      exact addWaitRun_nd _ _ _ hfe hse h hn (fun d hd => by
        have : IsDepOF inp evs n nd.status d := Or.inl (hnd.st d hd)
        simpa using this) (fun _ e => by cases e)
  | afterDeps =>
    simp only [hpc] at hs
    split at hs
    · cases hs; exact nd_setNode h (hnd.setPc _ (fun _ e => by cases e))
    · split at hs
      · cases hs; intro k y hk; exact nd_setNode h (hnd.setPc .loopTop (fun _ e => by cases e)) k y hk
      · cases hs; exact nd_setNode h (hnd.setPc _ (fun _ e => by cases e))
  | self1 => simp only [hpc] at hs; cases hs; intro k y hk; exact nd_setNode h (hnd.setPc .afterSelf1 (fun _ e => by cases e)) k y hk
  | afterSelf1 =>
    simp only [hpc] at hs
    split at hs
    · cases hs; exact nd_setNode h (hnd.setPc _ (fun _ e => by cases e))
    · split at hs
      · cases hs
        intro k y hk
        exact nd_setNode (x := { nd with pc := .setupDecide, waitSelect := true }) h
          ⟨hnd.dt, hnd.dc, hnd.pt, hnd.pcalc, hnd.st, hnd.sc, hnd.wr, hnd.wc, hnd.bd, hnd.ig, fun _ e => by cases e⟩ k y hk
      · cases hs; exact nd_setNode h (hnd.setPc _ (fun _ e => by cases e))
  | setupDecide =>
    simp only [hpc] at hs
    split at hs
    · rename_i e; cases hs; exact nd_setNode h (hnd.setPc _ (fun _ _ => by rw [e]; simp))
    · cases hs; exact nd_setNode h (hnd.setPc _ (fun _ e => by cases e))
  | setupIter todo =>
    simp only [hpc] at hs
    cases todo with
    | cons d ds => cases hs; exact genStep_nd d _ h hn (fun _ _ => hnd.sp _ hpc)
    | nil =>
      cases hs
      exact addWaitRun_nd _ _ _ hfe hse h hn (fun d hd => by
        have : IsDepOF inp evs n nd.status d := Or.inr ⟨hd, hnd.sp _ hpc⟩
        simpa using this) (fun _ e => by cases e)
  | afterSetup =>
    simp only [hpc] at hs
    split at hs
    · cases hs; intro k y hk; exact nd_setNode h (hnd.setPc .self2 (fun _ e => by cases e)) k y hk
    · cases hs; exact nd_setNode h (hnd.setPc _ (fun _ e => by cases e))
  | self2 => simp only [hpc] at hs; cases hs; intro k y hk; exact nd_setNode h (hnd.setPc .afterSelf2 (fun _ e => by cases e)) k y hk
  | afterSelf2 => simp only [hpc] at hs; cases hs; exact nd_setNode h (hnd.setPc _ (fun _ e => by cases e))
  | done => simp only [hpc] at hs; cases hs; exact h

theorem dtick_nd {inp : RunInput} {evs : List Ev} {s s' : Sys} {perm : List Name}
    (hfe : EvSt evs s) (hse : ∀ e ∈ s.events, e ∈ evs) (h : AllNDe inp evs s)
    (hs : dtick inp s perm = some s') : AllNDe inp evs s' := by
  unfold dtick at hs
  cases hc : s.cur with
  | some n =>
    simp only [hc] at hs
    cases hn : s.nodes n with
    | none => simp only [hn] at hs; cases hs; exact h
    | some nd => simp only [hn] at hs; exact nodeStep_nd hfe hse h hn hs
  | none =>
    simp only [hc] at hs
    split at hs
    · cases hs; exact h
    · split at hs
      · split at hs
        · cases hs; intro k y hk; exact nd_setNode h (mkNode_nd inp evs _ _) k y hk
        · cases hs; exact h
      · split at hs
        · split at hs <;> (cases hs; exact h)
        · cases hs; exact h

theorem wokenF_nd {inp : RunInput} {evs : List Ev} {s : Sys} {n p : Name} {nd : Node} {pst : RS} (h : NDp inp evs n nd)
    (hnc : wakeCrash p nd = false) (hf : PstOK evs pst p) (hse : ∀ e ∈ s.events, e ∈ evs) :
    NDp inp evs n (wokenF inp s pst p nd) := by
  have a := wokenNode_nd (inp := inp) h hnc hf
  unfold wokenF; split
  · rename_i hc
    exact deliverF_nd a (h.wc p hc) hf (fun e => by obtain ⟨w, hw⟩ := started_mem e; exact ⟨w, hse _ hw⟩)
  · exact a

theorem wakeOne_nd {inp : RunInput} {evs : List Ev} {s : Sys} {pst : RS} {p w : Name} {nd : Node}
    (h : AllNDe inp evs s) (hw : s.nodes w = some nd) (hnc : wakeCrash p nd = false)
    (hf : PstOK evs pst p) (hse : ∀ e ∈ s.events, e ∈ evs) : AllNDe inp evs (wakeOne inp s pst p w nd) := by
  have := nd_setNode h (wokenF_nd (inp := inp) (s := s) (h w nd hw) hnc hf hse)
  unfold wakeOne; split
  · intro k y hk; exact this k y hk
  · exact this

theorem updateWaiting_nd {inp : RunInput} {evs : List Ev} {pst : RS} {p : Name}
    (hf : PstOK evs pst p) :
    ∀ (perm : List Name) (s s' : Sys), AllNDe inp evs s → (∀ e ∈ s.events, e ∈ evs) →
      updateWaiting inp pst p s perm = some s' → AllNDe inp evs s' := by
  intro perm
  induction perm with
  | nil => intro s s' h _ hs; simp only [updateWaiting] at hs; cases hs; exact h
  | cons w ws ih =>
    intro s s' h hse hs
    simp only [updateWaiting] at hs
    cases hw : s.nodes w with
    | none => simp only [hw] at hs; exact ih s s' h hse hs
    | some nd =>
      simp only [hw] at hs
      split at hs
      · cases hs
      · rename_i hnc
        refine ih _ s' (wakeOne_nd h hw (by simpa using hnc) hf hse) ?_ hs
        rw [(wakeOne_outer inp s pst p w nd).1.1]; exact hse

theorem sendHead_nd {inp : RunInput} {evs : List Ev} {s : Sys} {p : Name} {nd : Node} (h : AllNDe inp evs s)
    (hn : s.nodes p = some nd) : AllNDe inp evs (sendHead s p nd) := by
  have hnd := h p nd hn
  unfold sendHead; split
  · intro k y hk
    exact nd_setNode (x := { nd with waitSelect := false }) h
      ⟨hnd.dt, hnd.dc, hnd.pt, hnd.pcalc, hnd.st, hnd.sc, hnd.wr, hnd.wc, hnd.bd, hnd.ig, hnd.sp⟩ k y hk
  · exact h

theorem send_nd {inp : RunInput} {evs : List Ev} {s s' : Sys} {processed : Option Name} {perm : List Name}
    (hfe : EvSt evs s) (hse : ∀ e ∈ s.events, e ∈ evs) (h : AllNDe inp evs s)
    (hs : send inp s processed perm = some s') : AllNDe inp evs s' := by
  unfold send at hs
  cases processed with
  | none => cases hs; exact h
  | some p =>
    simp only [] at hs
    cases hn : s.nodes p with
    | none => simp only [hn] at hs; cases hs; exact h
    | some nd =>
      simp only [hn] at hs
      have hf : PstOK evs nd.status p := by have := hfe p; simpa [stOf, hn] using this
      split at hs
      · cases hs; exact h
      · split at hs
        · cases hs; exact sendHead_nd h hn
        · split at hs
          · cases hu : updateWaiting inp nd.status p (sendHead s p nd) perm with
            | none => simp only [hu] at hs; cases hs; exact sendHead_nd h hn
            | some s2 =>
              simp only [hu] at hs; cases hs
              refine updateWaiting_nd hf perm _ s2 (sendHead_nd h hn) ?_ hu
              rw [(sendHead_outer s p nd).1.1]; exact hse
          · cases hs

/-! ### the system invariant -/

structure InvU (inp : RunInput) (s : Sys) : Prop where
  nd : AllNDe inp s.events s
  um : ∀ t, Ev.failure t .unmet ∈ s.events →
    ∃ d k, (DepObs inp s.events t d ∨ d ∈ inp.setup t) ∧ Ev.failure d k ∈ s.events

theorem allND_status {inp : RunInput} {evs : List Ev} {s : Sys} {n : Name} {nd : Node} (h : AllNDe inp evs s)
    (hn : s.nodes n = some nd) (st' : RS) (hne : st' ≠ .none) :
    AllNDe inp evs (setNode s n { nd with status := st' }) := by
  have hnd := h n nd hn
  have up : ∀ d, IsDepOF inp evs n nd.status d → IsDepOF inp evs n st' d := fun d hd => hd.imp id (fun a => ⟨a.1, hne⟩)
  exact nd_setNode h ⟨hnd.dt, hnd.dc, hnd.pt, hnd.pcalc, hnd.st, hnd.sc, fun d hd => up d (hnd.wr d hd), hnd.wc,
    fun p hp => ⟨up p (hnd.bd p hp).1, (hnd.bd p hp).2⟩, fun p hp => ⟨up p (hnd.ig p hp).1, (hnd.ig p hp).2⟩,
    fun _ _ => hne⟩

theorem AllNDe.mono {inp : RunInput} {evs evs' : List Ev} {s : Sys} (h : AllNDe inp evs s)
    (hm : ∀ e ∈ evs, e ∈ evs') : AllNDe inp evs' s := fun k y hk => (h k y hk).mono hm

theorem AllNDe.congr {inp : RunInput} {evs : List Ev} {s s' : Sys} (h : AllNDe inp evs s) (e : s'.nodes = s.nodes) :
    AllNDe inp evs s' := fun k y hk => h k y (by rw [← e]; exact hk)

theorem selDecision_unmet_bad {inp : RunInput} {n : Name} {nd : Node} (h : selDecision inp n nd = .unmet) :
    nd.bad ≠ [] := by
  unfold selDecision at h
  by_cases h0 : nd.status = .none
  · simp only [h0, if_true] at h
    split at h; · cases h
    split at h
    · rename_i hb; exact hb
    · split at h; · cases h
      split at h; · cases h
      split at h; · cases h
      split at h <;> cases h
  · simp only [h0, if_false] at h
    split at h; · cases h
    split at h; · cases h
    split at h
    · rename_i hb; exact hb
    · split at h <;> cases h

/-- all steps, from the shape of the node / event change -/
theorem invU_of {inp : RunInput} {s s' : Sys} (h : InvU inp s)
    (hnodes : AllNDe inp s.events s') (new : List Ev) (hev : s'.events = new ++ s.events)
    (hum : ∀ t, Ev.failure t .unmet ∈ new →
      ∃ d k, (DepObs inp s.events t d ∨ d ∈ inp.setup t) ∧ Ev.failure d k ∈ s.events) : InvU inp s' := by
  have hm : ∀ e ∈ s.events, e ∈ s'.events := fun e he => by rw [hev]; exact List.mem_append.mpr (Or.inr he)
  refine ⟨hnodes.mono hm, ?_⟩
  intro t ht
  rw [hev] at ht
  rcases List.mem_append.mp ht with a | a
  · obtain ⟨d, k, h1, h2⟩ := hum t a; exact ⟨d, k, h1.imp (fun x => x.mono hm) id, hm _ h2⟩
  · obtain ⟨d, k, h1, h2⟩ := h.um t a; exact ⟨d, k, h1.imp (fun x => x.mono hm) id, hm _ h2⟩

theorem quiet_no_unmet {new : List Ev} (hq : ∀ e ∈ new, e.quiet = true) (t : Name) : Ev.failure t .unmet ∉ new :=
  fun h => by have := hq _ h; simp [Ev.quiet] at this

theorem selEvents_unmet {inp : RunInput} {n t : Name} {nd : Node} {d : Sel}
    (h : Ev.failure t .unmet ∈ selEvents inp n nd d) : t = n ∧ d = .unmet := by
  have hs : ∀ e ∈ statusEv nd n, e = Ev.getStatus n := by
    intro e he; unfold statusEv at he; split at he <;> simp at he; exact he
  cases d <;> simp only [selEvents, List.mem_cons] at h <;>
    first
    | (rcases h with a | a
       · first | (cases a; exact ⟨rfl, rfl⟩) | cases a
       · have := hs _ a; cases this)
    | (have := hs _ h; cases this)
    | cases h

theorem invU_frame {inp : RunInput} {s s' : Sys} (h : InvU inp s) (e1 : s'.nodes = s.nodes)
    (new : List Ev) (hev : s'.events = new ++ s.events) (hq : ∀ e ∈ new, e.quiet = true) : InvU inp s' :=
  invU_of h (h.nd.congr e1) new hev (fun t ht => absurd ht (quiet_no_unmet hq t))

theorem invU_select {inp : RunInput} {s s' : Sys} {n : Name} {nd : Node} (h : InvU inp s) (hn : s.nodes n = some nd)
    (hd : selDecision inp n nd ≠ .assertFail) (extra : List Ev)
    (e1 : s'.nodes = (applySel inp s n nd (selDecision inp n nd)).nodes)
    (hev : s'.events = extra ++ (applySel inp s n nd (selDecision inp n nd)).events)
    (hq : ∀ e ∈ extra, e.quiet = true) : InvU inp s' := by
  refine invU_of h ?_ (extra ++ selEvents inp n nd (selDecision inp n nd)) ?_ ?_
  · refine (allND_status h.nd hn (selStatus (selDecision inp n nd)) ?_).congr ?_
    · cases hdd : selDecision inp n nd <;> simp [selStatus] <;> exact absurd hdd hd
    · rw [e1, applySel_nodes _ _ _ _ _ hd]
  · rw [hev, applySel_events, List.append_assoc]
  · intro t ht
    rcases List.mem_append.mp ht with a | a
    · exact absurd a (quiet_no_unmet hq t)
    · obtain ⟨rfl, hu⟩ := selEvents_unmet a
      have hb := selDecision_unmet_bad hu
      cases hbl : nd.bad with
      | nil => exact absurd hbl hb
      | cons p ps =>
        obtain ⟨h1, k, h2⟩ := (h.nd t nd hn).bd p (by rw [hbl]; simp)
        rcases h1.witness with a | ⟨c0, k0, a, b⟩
        · exact ⟨p, k, a.imp id (fun x => x.1), h2⟩
        · exact ⟨c0, k0, Or.inl a, b⟩

theorem resEvents_no_unmet (n : Name) (o : Outcome) (t : Name) : Ev.failure t .unmet ∉ resEvents n o := by
  intro h; cases o <;> simp [resEvents] at h

theorem invU_result {inp : RunInput} {s s1 s' : Sys} {n : Name} {nd : Node} (h : InvU inp s) (hn : s.nodes n = some nd)
    (mid : List Ev) (e0 : s1.nodes = s.nodes) (e1 : s'.nodes = (processResult inp s1 n nd).nodes)
    (hev : s'.events = resEvents n (inp.outcome n) ++ (mid ++ s.events)) (hq : ∀ e ∈ mid, e.quiet = true) :
    InvU inp s' := by
  refine invU_of h ?_ (resEvents n (inp.outcome n) ++ mid) (by rw [hev, List.append_assoc]) ?_
  · refine (allND_status h.nd hn (resStatus (inp.outcome n)) ?_).congr ?_
    · cases inp.outcome n <;> simp [resStatus]
    · rw [e1, processResult_nodes]; funext k; simp [setNode, e0]
  · intro t ht
    rcases List.mem_append.mp ht with a | a
    · exact absurd a (resEvents_no_unmet n _ t)
    · exact absurd a (quiet_no_unmet hq t)

theorem serialStep_invU {inp : RunInput} {s s' : Sys} {perm : List Name} (h : InvU inp s) (hes : EvSt s.events s)
    (hs : serialStep inp s perm = some s') : InvU inp s' := by
  have same : ∀ x : Sys, x.nodes = s.nodes → x.events = s.events → InvU inp x :=
    fun x a b => invU_frame h a [] (by simpa using b) (by simp)
  unfold serialStep at hs
  cases hr : s.rpc with
  | sTop node =>
    simp only [hr] at hs
    split at hs
    · cases hs; exact same _ rfl rfl
    · cases hsd : send inp s node perm with
      | none => simp only [hsd] at hs; cases hs
      | some s0 =>
        simp only [hsd] at hs; cases hs
        have o := (send_outer hsd).1.1
        exact invU_of h ((send_nd hes (fun _ a => a) h.nd hsd).congr rfl) [] (by simpa using o) (fun t ht => by cases ht)
  | sWait =>
    simp only [hr] at hs
    cases hsu : s.susp with
    | none =>
      simp only [hsu] at hs
      exact invU_of h (dtick_nd hes (fun _ a => a) h.nd hs) [] (by simpa using (dtick_outer hs).1) (fun t ht => by cases ht)
    | some o =>
      simp only [hsu] at hs
      cases o with
      | init => cases hs
      | node n =>
        simp only [] at hs
        cases hn : s.nodes n with
        | none => simp only [hn] at hs; cases hs; exact same _ rfl rfl
        | some nd =>
          simp only [hn] at hs
          have key : ∀ (hd : selDecision inp n nd ≠ .assertFail),
              InvU inp { applySel inp s n nd (selDecision inp n nd) with rpc := .sTop (some n) } :=
            fun hd => invU_select h hn hd [] rfl (by simp) (by simp)
          cases hd : selDecision inp n nd with
          | go =>
            simp only [hd] at hs; cases hs
            have := invU_select (s' := { startTask inp (applySel inp s n nd (selDecision inp n nd)) n 0 with rpc := .sExec n })
              h hn (by rw [hd]; simp) (if inp.runner = .process then [Ev.start n 0] else [Ev.start n 0, Ev.execute n])
              rfl (by show (startTask inp _ n 0).events = _; rw [startTask_events]) (startEvents_quiet inp n 0)
            rwa [hd] at this
          | assertFail => simp only [hd] at hs; cases hs; exact same _ rfl rfl
          | skipIgn => simp only [hd] at hs; cases hs; have := key (by simp [hd]); rwa [hd] at this
          | unmet => simp only [hd] at hs; cases hs; have := key (by simp [hd]); rwa [hd] at this
          | depErr => simp only [hd] at hs; cases hs; have := key (by simp [hd]); rwa [hd] at this
          | utd => simp only [hd] at hs; cases hs; have := key (by simp [hd]); rwa [hd] at this
          | runFirst => simp only [hd] at hs; cases hs; have := key (by simp [hd]); rwa [hd] at this
          | argsErr => simp only [hd] at hs; cases hs; have := key (by simp [hd]); rwa [hd] at this
      | stopIter => cases hs; exact same _ rfl rfl
      | holdOn => cases hs; exact same _ rfl rfl
      | cyclic n => cases hs; exact same _ rfl rfl
      | crash => cases hs; exact same _ rfl rfl
  | sExec n =>
    simp only [hr] at hs
    cases hn : s.nodes n with
    | none => simp only [hn] at hs; cases hs; exact same _ rfl rfl
    | some nd =>
      simp only [hn] at hs; cases hs
      exact invU_result (s1 := { s with rpc := .sExec n, events := Ev.fin n 0 :: s.events }) h hn [Ev.fin n 0] rfl rfl
        (by rw [processResult_events]; simp) (by simp [Ev.quiet])
  | fin =>
    simp only [hr] at hs; cases hs
    exact invU_frame h rfl (Ev.complete :: s.tdown.map Ev.teardown) (by simp [finishRun]) (teardown_quiet _)
  | gEntry a b => simp only [hr] at hs; cases hs
  | gLoop a b => simp only [hr] at hs; cases hs
  | gWait a => simp only [hr] at hs; cases hs
  | gRet a b => simp only [hr] at hs; cases hs
  | pTop => simp only [hr] at hs; cases hs
  | pJoin => simp only [hr] at hs; cases hs
  | halted => simp only [hr] at hs; cases hs

theorem init_invU (inp : RunInput) : InvU inp (init inp) :=
  ⟨fun k y hk => by simp [init] at hk, fun t ht => by simp [init] at ht⟩

theorem pstep_invU {inp : RunInput} {s s' : Sys} {c : Choice} (h : InvU inp s) (hes : EvSt s.events s)
    (hs : pstep inp s c = some s') : InvU inp s' := by
  have same : ∀ x : Sys, x.nodes = s.nodes → x.events = s.events → InvU inp x :=
    fun x a b => invU_frame h a [] (by simpa using b) (by simp)
  cases c with
  | take w =>
    simp only [pstep] at hs
    unfold takeStep at hs
    by_cases hidle : s.workers w = .idle
    case neg => simp only [hidle, if_false] at hs; cases hs
    simp only [hidle, if_true] at hs
    cases hq : s.jobQ with
    | nil => simp only [hq] at hs; cases hs
    | cons j js =>
      simp only [hq] at hs
      cases j with
      | hold => cases hs; exact same _ rfl rfl
      | stop => cases hs; exact same _ rfl rfl
      | task n =>
        cases hs
        exact invU_frame h rfl (if inp.runner = .process then [Ev.start n w] else [Ev.start n w, Ev.execute n])
          (by show (startTask inp s n w).events = _; rw [startTask_events]) (startEvents_quiet inp n w)
  | done w =>
    simp only [pstep] at hs
    unfold doneStep at hs
    cases hw : s.workers w with
    | running n =>
      simp only [hw] at hs; cases hs
      exact invU_frame h rfl [Ev.fin n w] rfl (by simp [Ev.quiet])
    | notStarted => simp only [hw] at hs; cases hs
    | idle => simp only [hw] at hs; cases hs
    | exited => simp only [hw] at hs; cases hs
  | main perm =>
    simp only [pstep] at hs
    unfold mainStep at hs
    cases hr : s.rpc with
    | gEntry completed ret =>
      simp only [hr] at hs
      split at hs <;> (cases hs; exact same _ rfl rfl)
    | gLoop node ret =>
      simp only [hr] at hs
      cases hsd : send inp s node perm with
      | none => simp only [hsd] at hs; cases hs
      | some s0 =>
        simp only [hsd] at hs; cases hs
        have o := (send_outer hsd).1.1
        exact invU_of h ((send_nd hes (fun _ a => a) h.nd hsd).congr rfl) [] (by simpa using o) (fun t ht => by cases ht)
    | gWait ret =>
      simp only [hr] at hs
      cases hsu : s.susp with
      | none =>
        simp only [hsu] at hs
        exact invU_of h (dtick_nd hes (fun _ a => a) h.nd hs) [] (by simpa using (dtick_outer hs).1) (fun t ht => by cases ht)
      | some o =>
        simp only [hsu] at hs
        cases o with
        | init => cases hs
        | node n =>
          simp only [] at hs
          cases hn : s.nodes n with
          | none => simp only [hn] at hs; cases hs; exact same _ rfl rfl
          | some nd =>
            simp only [hn] at hs
            have key : ∀ (rpc' : RPC) (hd : selDecision inp n nd ≠ .assertFail),
                InvU inp { applySel inp s n nd (selDecision inp n nd) with rpc := rpc' } :=
              fun rpc' hd => invU_select h hn hd [] rfl (by simp) (by simp)
            cases hd : selDecision inp n nd with
            | go => simp only [hd] at hs; cases hs; have := key (.gRet (.task n) ret) (by simp [hd]); rwa [hd] at this
            | assertFail => simp only [hd] at hs; cases hs; exact same _ rfl rfl
            | skipIgn => simp only [hd] at hs; cases hs; have := key (.gLoop (some n) ret) (by simp [hd]); rwa [hd] at this
            | unmet => simp only [hd] at hs; cases hs; have := key (.gLoop (some n) ret) (by simp [hd]); rwa [hd] at this
            | depErr => simp only [hd] at hs; cases hs; have := key (.gLoop (some n) ret) (by simp [hd]); rwa [hd] at this
            | utd => simp only [hd] at hs; cases hs; have := key (.gLoop (some n) ret) (by simp [hd]); rwa [hd] at this
            | runFirst => simp only [hd] at hs; cases hs; have := key (.gLoop (some n) ret) (by simp [hd]); rwa [hd] at this
            | argsErr => simp only [hd] at hs; cases hs; have := key (.gLoop (some n) ret) (by simp [hd]); rwa [hd] at this
        | holdOn => cases hs; exact same _ rfl rfl
        | stopIter => cases hs; exact same _ rfl rfl
        | cyclic n => cases hs; exact same _ rfl rfl
        | crash => cases hs; exact same _ rfl rfl
    | gRet job ret =>
      simp only [hr] at hs; cases hs
      cases ret with
      | startLoop k =>
        simp only [gReturn]
        split
        · exact same _ rfl rfl
        · split <;> exact same _ rfl rfl
      | feedLoop k =>
        simp only [gReturn]
        split
        · split <;> exact same _ rfl rfl
        · exact same _ rfl rfl
    | pTop =>
      simp only [hr] at hs
      split at hs
      · cases hs; exact same _ rfl rfl
      · cases hq : s.resQ with
        | nil => simp only [hq] at hs; cases hs
        | cons n rest =>
          simp only [hq] at hs
          cases hn : s.nodes n with
          | none => simp only [hn] at hs; cases hs; exact same _ rfl rfl
          | some nd =>
            simp only [hn] at hs; cases hs
            exact invU_result (s1 := { s with rpc := .pTop, resQ := rest }) h hn [] rfl rfl
              (by show (processResult inp _ n nd).events = _; rw [processResult_events]; simp) (by simp)
    | pJoin =>
      simp only [hr] at hs
      split at hs
      · cases hs; exact same _ rfl rfl
      · cases hs
    | fin =>
      simp only [hr] at hs; cases hs
      exact invU_frame h rfl (Ev.complete :: s.tdown.map Ev.teardown) (by simp [finishRun]) (teardown_quiet _)
    | sTop a => simp only [hr] at hs; cases hs
    | sWait => simp only [hr] at hs; cases hs
    | sExec a => simp only [hr] at hs; cases hs
    | halted => simp only [hr] at hs; cases hs

end DoitModel.Run
