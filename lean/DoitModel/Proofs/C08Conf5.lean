import DoitModel.Proofs.C08Conf4
/-! # C08 (I10), step 3b: at the select point the decision of `select_task` is the one the denotation makes -/
namespace DoitModel.Run

theorem Den.isIgn_iff (d : Den) : d.isIgn = true ↔ d.rs = .ign := by cases d <;> simp [Den.isIgn, Den.rs]
theorem Den.isFail_iff (d : Den) : d.isFail = true ↔ d.rs = .fail := by cases d <;> simp [Den.isFail, Den.rs]

/-- the derived outcome of every task that is finished in `s` (any value elsewhere) -/
noncomputable def ddOf (inp : RunInput) (s : Sys) (d : Name) : Den :=
  open Classical in if h : ∃ x, DenOf inp d x ∧ x.rs = stOf s d then Classical.choose h else .bot

theorem ddOf_spec {inp : RunInput} {s : Sys} {d : Name} (h : InvE inp s) (hf : (stOf s d).finished = true) :
    DenOf inp d (ddOf inp s d) ∧ (ddOf inp s d).rs = stOf s d := by
  have hx := h.fin d hf
  unfold ddOf; rw [dif_pos hx]; exact Classical.choose_spec hx

/-- "some dependency in `L` has outcome `r`" is the same as "the list `X` (bad_deps / ignored_deps) is non-empty" when
    `X` is complete and sound for `L` -/
theorem any_iff_ne_nil (dd : Name → Den) (s : Sys) (L X : List Name) (r : RS) (f : Den → Bool)
    (hf : ∀ d, f d = true ↔ d.rs = r)
    (hL : ∀ d ∈ L, (dd d).rs = stOf s d ∧ (stOf s d = r → d ∈ X)) (hX : ∀ p ∈ X, stOf s p = r ∧ p ∈ L) :
    L.any (fun d => f (dd d)) = true ↔ X ≠ [] := by
  rw [List.any_eq_true]
  constructor
  · rintro ⟨d, hd, hfd⟩
    have := (hL d hd).2 (by rw [← (hL d hd).1]; exact (hf _).mp hfd)
    intro e; rw [e] at this; cases this
  · intro hne
    cases hX' : X with
    | nil => exact absurd hX' hne
    | cons p t =>
      have := hX p (by rw [hX']; simp)
      exact ⟨p, this.2, (hf _).mpr (by rw [(hL p this.2).1]; exact this.1)⟩

theorem stage1_run {inp : RunInput} {dd : Name → Den} {n : Name} (h : stage1 inp dd n = .run) :
    ¬ ((inp.taskDep n).any (fun d => (dd d).isIgn) = true) ∧ ¬ ((inp.taskDep n).any (fun d => (dd d).isFail) = true) := by
  unfold stage1 at h
  split at h; · cases h
  rename_i c1
  split at h; · cases h
  rename_i c2
  exact ⟨fun x => c1 (Or.inl x), c2⟩

theorem sel1_stage1 {inp : RunInput} {n : Name} {nd : Node} {dd : Name → Den} (h0 : nd.status = .none)
    (hI : (inp.taskDep n).any (fun d => (dd d).isIgn) = true ↔ nd.ign ≠ [])
    (hB : (inp.taskDep n).any (fun d => (dd d).isFail) = true ↔ nd.bad ≠ []) :
    match selDecision inp n nd with
    | .skipIgn => stage1 inp dd n = .ign
    | .unmet => stage1 inp dd n = .unmet
    | .depErr => stage1 inp dd n = .depErr
    | .utd => stage1 inp dd n = .utd
    | .runFirst => stage1 inp dd n = .run ∧ inp.setup n ≠ []
    | .go => stage1 inp dd n = .run ∧ inp.setup n = [] ∧ inp.argsOk n = true
    | .argsErr => stage1 inp dd n = .run ∧ inp.setup n = [] ∧ inp.argsOk n = false
    | .assertFail => False := by
  unfold selDecision stage1
  simp only [h0, if_true, hI, hB]
  by_cases c1 : nd.ign ≠ [] ∨ inp.ignored n = true
  · simp [c1]
  · by_cases c2 : nd.bad ≠ []
    · simp [c1, c2]
    · by_cases c3 : inp.statusOf n = .error
      · simp [c1, c2, c3]
      · by_cases c4 : effStatus inp n = .utd
        · simp [c1, c2, c3, c4]
        · by_cases c5 : inp.setup n ≠ []
          · simp [c1, c2, c3, c4, c5]
          · by_cases c6 : inp.argsOk n = true
            · simp [c1, c2, c3, c4, c5, c6]; simpa using c5
            · simp [c1, c2, c3, c4, c5, c6]; simpa using c5

theorem sel2_stage2 {inp : RunInput} {n : Name} {nd : Node} {dd : Name → Den} (h0 : nd.status = .run)
    (hs : inp.setup n ≠ [])
    (hI : (inp.setup n).any (fun d => (dd d).isIgn) = true ↔ nd.ign ≠ [])
    (hB : (inp.setup n).any (fun d => (dd d).isFail) = true ↔ nd.bad ≠ []) :
    match selDecision inp n nd with
    | .skipIgn => stage2 inp dd n = .ign
    | .unmet => stage2 inp dd n = .fail .unmet
    | .go => stage2 inp dd n = resDen (inp.outcome n)
    | .argsErr => stage2 inp dd n = .fail .depErr
    | _ => False := by
  unfold selDecision stage2
  have hn : ¬ (nd.status ≠ .run ∨ inp.setup n = []) := by rw [h0]; simp [hs]
  have h0' : ¬ (nd.status = .none) := by rw [h0]; simp
  simp only [h0', hn, if_false, hI, hB]
  by_cases c1 : nd.ign ≠ []
  · simp [c1]
  · by_cases c2 : nd.bad ≠ []
    · simp [c1, c2]
    · by_cases c3 : inp.argsOk n = true
      · simp [c1, c2, c3]
      · simp [c1, c2, c3]

/-- `select_task(n)` on the node the generator yielded: the new status / report / `go` mark is the denotation's -/
theorem invE_select {inp : RunInput} {s : Sys} {n : Name} {nd : Node} (hD : InvE inp s) (hN : InvN inp s)
    (h2 : Inv2 inp s) (haw : awaiting s) (hsusp : s.susp = some (.node n)) (hn : s.nodes n = some nd)
    (hd : selDecision inp n nd ≠ .assertFail) : InvE inp (applySel inp s n nd (selDecision inp n nd)) := by
  have hok := h2.inv1.node n nd hn
  have hS := hN n nd hn
  obtain ⟨nd', hn', hpc⟩ := h2.inv1.sp n hsusp
  rw [hn] at hn'; cases hn'
  have hm1 : nd.pendTask = [] ∧ nd.pendCalc = [] ∧ nd.waitRunCalc = [] := by
    rcases hpc with e | e <;> exact hok.m1 (by rw [e]; rfl)
  have hm2 : nd.waitRun = [] := by
    rcases hpc with e | e <;> exact hok.m2 (by rw [e]; rfl)
  have noT : nd.pc.iterT = false := by rcases hpc with e | e <;> (rw [e]; rfl)
  have hu := selDecision_unfinished hd
  have clsT : ∀ d ∈ inp.taskDep n, Cls s nd d := by
    intro d hd'
    rcases hok.kt d (hok.st.1 d hd') with a | ⟨a, _⟩ | a | a
    · rw [hm1.1] at a; cases a
    · rw [noT] at a; cases a
    · rw [hm2] at a; cases a
    · exact a
  have hT : ∀ d ∈ inp.taskDep n, DenOf inp d (ddOf inp s d) := fun d hd' => (ddOf_spec hD (clsT d hd').1).1
  have hLT : ∀ d ∈ inp.taskDep n, (ddOf inp s d).rs = stOf s d := fun d hd' => (ddOf_spec hD (clsT d hd').1).2
  by_cases h0 : nd.status = .none
  · -- first pass
    have hpc1 : nd.pc = .afterSelf1 := by
      rcases hpc with e | e
      · exact e
      · exact absurd h0 (hS.ph2 (by rw [e]; rfl))
    have srcT : ∀ p, Src inp n nd.pc p → p ∈ inp.taskDep n := by
      intro p hp
      rcases hp with a | ⟨a, _⟩
      · exact a
      · rw [hpc1] at a; cases a
    have hI := any_iff_ne_nil (ddOf inp s) s (inp.taskDep n) nd.ign .ign Den.isIgn Den.isIgn_iff
      (fun d hd' => ⟨hLT d hd', (clsT d hd').2.2⟩) (fun p hp => ⟨(hS.ign p hp).1, srcT p (hS.ign p hp).2⟩)
    have hB := any_iff_ne_nil (ddOf inp s) s (inp.taskDep n) nd.bad .fail Den.isFail Den.isFail_iff
      (fun d hd' => ⟨hLT d hd', (clsT d hd').2.1⟩) (fun p hp => ⟨(hS.bad p hp).1, srcT p (hS.bad p hp).2⟩)
    have key := sel1_stage1 (dd := ddOf inp s) h0 hI hB
    have early : ∀ r, stage1 inp (ddOf inp s) n = r → r ≠ .run → DenOf inp n (combine inp (ddOf inp s) n) :=
      fun r h1 hr => DenOf.mk n _ hT (fun h1' => absurd (h1.symm.trans h1') hr)
    apply invE_applySel _ hD hn hu hd
    · intro d hsd
      cases hdec : selDecision inp n nd <;> rw [hdec] at key hsd <;> simp only [selDen] at hsd <;> cases hsd
      · have := early _ key (by simp); simpa [combine, key] using this
      · have := early _ key (by simp); simpa [combine, key] using this
      · have := early _ key (by simp); simpa [combine, key] using this
      · have := early _ key (by simp); simpa [combine, key] using this
      · have := DenOf.mk n _ hT (fun _ d hd' => by rw [key.2.1] at hd'; cases hd')
        simpa [combine, key.1, stage2, key.2.1, key.2.2] using this
    · intro hdec
      refine ⟨ddOf inp s, hT, ?_⟩
      rcases hdec with e | e <;> (rw [e] at key; exact key.1)
    · intro hdec
      rw [hdec] at key
      refine ⟨ddOf inp s, hT, key.1, ?_, ?_⟩
      · intro d hd'; rw [key.2.1] at hd'; cases hd'
      · simp [stage2, key.2.1, key.2.2]
  · -- second pass
    have hrun : nd.status = .run ∧ inp.setup n ≠ [] := by
      refine ⟨?_, ?_⟩
      · apply Classical.byContradiction; intro c; apply hd; unfold selDecision; simp [h0, c]
      · intro c; apply hd; unfold selDecision; simp [h0, c]
    have hpc2 : nd.pc = .afterSelf2 := by
      rcases hpc with e | e
      · exact absurd (h2.sel1 haw n nd hsusp hn e) h0
      · exact e
    obtain ⟨dd0, hT0, h10⟩ := hD.run1 n (by simp [stOf, hn, hrun.1])
    have h1 : stage1 inp (ddOf inp s) n = .run := by
      rw [← h10]; exact stage1_congr (fun d hd' => (hT d hd').functional (hT0 d hd'))
    obtain ⟨nI, nB⟩ := stage1_run h1
    have clsS : ∀ d ∈ inp.setup n, Cls s nd d := by
      intro d hd'
      rcases hok.ks (by rw [hpc2]; rfl) d hd' with a | a
      · rw [hm2] at a; cases a
      · exact a
    have hSd : ∀ d ∈ inp.setup n, DenOf inp d (ddOf inp s d) := fun d hd' => (ddOf_spec hD (clsS d hd').1).1
    have srcI : ∀ p, stOf s p = .ign → Src inp n nd.pc p → p ∈ inp.setup n := by
      intro p hp hsrc
      rcases hsrc with a | ⟨_, a⟩
      · exfalso; apply nI; rw [List.any_eq_true]
        exact ⟨p, a, (Den.isIgn_iff _).mpr (by rw [hLT p a]; exact hp)⟩
      · exact a
    have srcB : ∀ p, stOf s p = .fail → Src inp n nd.pc p → p ∈ inp.setup n := by
      intro p hp hsrc
      rcases hsrc with a | ⟨_, a⟩
      · exfalso; apply nB; rw [List.any_eq_true]
        exact ⟨p, a, (Den.isFail_iff _).mpr (by rw [hLT p a]; exact hp)⟩
      · exact a
    have hI := any_iff_ne_nil (ddOf inp s) s (inp.setup n) nd.ign .ign Den.isIgn Den.isIgn_iff
      (fun d hd' => ⟨(ddOf_spec hD (clsS d hd').1).2, (clsS d hd').2.2⟩)
      (fun p hp => ⟨(hS.ign p hp).1, srcI p (hS.ign p hp).1 (hS.ign p hp).2⟩)
    have hB := any_iff_ne_nil (ddOf inp s) s (inp.setup n) nd.bad .fail Den.isFail Den.isFail_iff
      (fun d hd' => ⟨(ddOf_spec hD (clsS d hd').1).2, (clsS d hd').2.1⟩)
      (fun p hp => ⟨(hS.bad p hp).1, srcB p (hS.bad p hp).1 (hS.bad p hp).2⟩)
    have key := sel2_stage2 (dd := ddOf inp s) hrun.1 hrun.2 hI hB
    have base : DenOf inp n (stage2 inp (ddOf inp s) n) := by
      have := DenOf.mk n _ hT (fun _ => hSd)
      simpa [combine, h1] using this
    apply invE_applySel _ hD hn hu hd
    · intro d hsd
      cases hdec : selDecision inp n nd <;> rw [hdec] at key hsd <;> simp only [selDen] at hsd <;> cases hsd
      · rw [key] at base; exact base
      · rw [key] at base; exact base
      · exact key.elim
      · exact key.elim
      · rw [key] at base; exact base
    · intro _; exact ⟨ddOf inp s, hT, h1⟩
    · intro hdec
      rw [hdec] at key
      exact ⟨ddOf inp s, hT, h1, hSd, key⟩

end DoitModel.Run
