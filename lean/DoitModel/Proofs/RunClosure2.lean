import DoitModel.Proofs.RunClosure
/-! # The closure invariant `MInv` along the serial and the parallel transition systems -/
namespace DoitModel.Run

def OnlyMentions (l : List Ev) (n : Name) : Prop := ∀ e ∈ l, ∀ m, Ev.mentions m e = true → m = n

theorem statusEv_only (nd : Node) (n : Name) : OnlyMentions (statusEv nd n) n := by
  intro e he m hm; unfold statusEv at he; split at he
  · simp at he; subst he; simp [Ev.mentions] at hm; exact hm.symm
  · cases he

theorem selEvents_only (inp : RunInput) (n : Name) (nd : Node) (d : Sel) : OnlyMentions (selEvents inp n nd d) n := by
  intro e he m hm
  have hs := statusEv_only nd n
  cases d <;> simp only [selEvents, List.mem_cons] at he
  all_goals first
    | exact hs e he m hm
    | (rcases he with he | he
       · subst he; simp [Ev.mentions] at hm; exact hm.symm
       · exact hs e he m hm)
    | cases he

theorem resEvents_only (n : Name) (o : Outcome) : OnlyMentions (resEvents n o) n := by
  intro e he m hm
  cases o <;> simp [resEvents] at he <;> (subst he; simp [Ev.mentions] at hm; exact hm.symm)

theorem init_minv (inp : RunInput) : MInv inp (init inp) := by
  refine ⟨?_, fun t ht => Cl.ofSel ht, ?_, ?_, ?_, ?_, ?_, ?_, ?_, ?_⟩
  · intro n nd hn; simp [init] at hn
  · intro e he; simp [init] at he
  · intro n hn; simp [init] at hn
  · intro n ret hn; simp only [init] at hn; split at hn <;> cases hn
  · intro w n hn; simp [init] at hn
  · intro n hn; simp [init] at hn
  · intro n hn; simp [init] at hn
  · intro n hn; simp only [init] at hn; split at hn <;> cases hn
  · intro n hn; simp [init] at hn

/-- only runner bookkeeping changes (no job held, nothing executing afterwards) -/
theorem minv_rpc {inp : RunInput} {s s' : Sys} (h : MInv inp s) (e1 : s'.nodes = s.nodes) (e2 : s'.toRun = s.toRun)
    (e3 : s'.events = s.events) (e4 : s'.jobQ = s.jobQ) (e5 : s'.workers = s.workers) (e6 : s'.resQ = s.resQ)
    (e7 : s'.tdown = s.tdown) (e8 : s'.susp = s.susp)
    (hh : ∀ m ret, s'.rpc ≠ .gRet (.task m) ret) (hx : ∀ m, s'.rpc ≠ .sExec m) : MInv inp s' :=
  ⟨by rw [e1]; exact h.nodes, by rw [e2]; exact h.toRun, by rw [e3]; exact h.ev, by rw [e4]; exact h.jobs,
   fun m r a => absurd a (hh m r), by rw [e5]; exact h.wk, by rw [e6]; exact h.rq, by rw [e7]; exact h.td,
   fun m a => absurd a (hx m), by rw [e8]; exact h.yl⟩

theorem minv_raise {inp : RunInput} {s : Sys} (h : MInv inp s) (hl : Halt) : MInv inp (raise s hl) :=
  minv_rpc h rfl rfl rfl rfl rfl rfl rfl rfl (fun m r a => by cases a) (fun m a => by cases a)

theorem minv_finishRun {inp : RunInput} {s : Sys} (h : MInv inp s) : MInv inp (finishRun s) := by
  refine ⟨h.nodes, h.toRun, ?_, h.jobs, (fun m r a => by cases a), h.wk, h.rq, h.td, (fun m a => by cases a), h.yl⟩
  intro e he m hm
  have he' : e = Ev.complete ∨ (∃ x ∈ s.tdown, Ev.teardown x = e) ∨ e ∈ s.events := by
    simpa [finishRun] using he
  rcases he' with rfl | ⟨x, hx, rfl⟩ | he'
  · simp [Ev.mentions] at hm
  · simp [Ev.mentions] at hm
    subst hm; exact h.td x hx
  · exact h.ev e he' m hm

/-- `select_task(n)` with any decision but the failing assertion -/
theorem minv_select {inp : RunInput} {s : Sys} {n : Name} {nd : Node} (rpc' : RPC) (h : MInv inp s)
    (hn : s.nodes n = some nd) (hd : selDecision inp n nd ≠ .assertFail)
    (hh : ∀ m ret, rpc' = .gRet (.task m) ret → m = n) (hx : ∀ m, rpc' = .sExec m → m = n) :
    MInv inp { applySel inp s n nd (selDecision inp n nd) with rpc := rpc' } := by
  obtain ⟨f1, f2, f3, f4, f5, f6, f7, f8⟩ := applySel_frame inp s n nd (selDecision inp n nd)
  refine h.runner hn (selStatus (selDecision inp n nd)) ?_ (applySel_nodes inp s n nd _ hd) ?_ ?_ f6 f8 ?_ ?_ hh hx f4
  · intro e
    by_cases hr : nd.status = .run
    · exact Or.inl hr
    · exact Or.inr (sel_mayRun hr e)
  · cases selDecision inp n nd <;> rfl
  · intro e he
    have : e ∈ (applySel inp s n nd (selDecision inp n nd)).events := he
    rw [applySel_events] at this
    rcases List.mem_append.mp this with a | a
    · exact Or.inr (selEvents_only inp n nd _ e a)
    · exact Or.inl a
  · intro m hm; exact (show m ∈ (applySel inp s n nd (selDecision inp n nd)).resQ from hm) |> fun x => by rwa [f7] at x
  · intro m hm
    left
    have : m ∈ (applySel inp s n nd (selDecision inp n nd)).tdown := hm
    cases hdd : selDecision inp n nd <;> rw [hdd] at this <;> exact this


/-- `process_task_result(n)` (extra events `pre` mention only `n`) -/
theorem minv_result {inp : RunInput} {s s1 : Sys} {n : Name} {nd : Node} (rpc' : RPC) (h : MInv inp s)
    (hn : s.nodes n = some nd)
    (e1 : s1.nodes = s.nodes) (e2 : s1.toRun = s.toRun) (e3 : s1.jobQ = s.jobQ) (e4 : s1.workers = s.workers)
    (e5 : ∀ m ∈ s1.resQ, m ∈ s.resQ) (e6 : s1.tdown = s.tdown) (e7 : s1.susp = s.susp)
    (hev : ∀ e ∈ s1.events, e ∈ s.events ∨ ∀ m, Ev.mentions m e = true → m = n)
    (hh : ∀ m ret, rpc' ≠ .gRet (.task m) ret) (hx : ∀ m, rpc' ≠ .sExec m) :
    MInv inp { processResult inp s1 n nd with rpc := rpc' } := by
  obtain ⟨f1, f2, f3, f4, f5, f6, f7, f8⟩ := processResult_frame inp s1 n nd
  have hnodes : (processResult inp s1 n nd).nodes = (setNode s n { nd with status := resStatus (inp.outcome n) }).nodes := by
    rw [processResult_nodes]; funext k; simp [setNode, e1]
  refine h.runner hn (resStatus (inp.outcome n)) ?_ hnodes ?_ ?_ (f6.trans e3) (f8.trans e4) ?_ ?_
    (fun m r a => absurd a (hh m r)) (fun m a => absurd a (hx m)) (f4.trans e7)
  · intro e; cases ho : inp.outcome n <;> simp [ho, resStatus] at e
  · show (processResult inp s1 n nd).toRun = s.toRun
    rw [← e2]; unfold processResult; cases inp.outcome n <;> rfl
  · intro e he
    have : e ∈ (processResult inp s1 n nd).events := he
    rw [processResult_events] at this
    rcases List.mem_append.mp this with a | a
    · exact Or.inr (resEvents_only n _ e a)
    · exact hev e a
  · intro m hm
    have : m ∈ (processResult inp s1 n nd).resQ := hm
    rw [f7] at this; exact e5 m this
  · intro m hm
    left
    have : m ∈ (processResult inp s1 n nd).tdown := hm
    have e : (processResult inp s1 n nd).tdown = s1.tdown := by
      unfold processResult; cases inp.outcome n <;> rfl
    rw [e, e6] at this; exact this

/-- `execute_task(n)` by worker `w` -/
theorem startTask_minv_parts {inp : RunInput} {s : Sys} {n w : Nat} (h : MInv inp s) (cn : Cl inp n) :
    (∀ e ∈ (startTask inp s n w).events, ∀ m, Ev.mentions m e = true → Cl inp m) ∧
    (∀ m ∈ (startTask inp s n w).tdown, Cl inp m) := by
  constructor
  · intro e he m hm
    rw [startTask_events] at he
    rcases List.mem_append.mp he with a | a
    · have : m = n := by
        split at a <;> simp at a
        · subst a; simp [Ev.mentions] at hm; exact hm.symm
        · rcases a with a | a <;> (subst a; simp [Ev.mentions] at hm; exact hm.symm)
      exact this ▸ cn
    · exact h.ev e a m hm
  · intro m hm
    simp only [startTask] at hm
    split at hm
    · rcases List.mem_append.mp hm with a | a
      · exact h.td m a
      · simp at a; exact a ▸ cn
    · exact h.td m hm

theorem serialStep_minv {inp : RunInput} {s s' : Sys} {perm : List Name} (h : MInv inp s)
    (hs : serialStep inp s perm = some s') : MInv inp s' := by
  unfold serialStep at hs
  cases hr : s.rpc with
  | sTop node =>
    simp only [hr] at hs
    split at hs
    · cases hs; exact minv_rpc h rfl rfl rfl rfl rfl rfl rfl rfl (fun m r a => by cases a) (fun m a => by cases a)
    · cases hsd : send inp s node perm with
      | none => simp only [hsd] at hs; cases hs
      | some s0 =>
        simp only [hsd] at hs; cases hs
        exact send_minv .sWait h hsd (fun n r a => by cases a) (fun n a => by cases a)
  | sWait =>
    simp only [hr] at hs
    cases hsu : s.susp with
    | none => simp only [hsu] at hs; exact dtick_minv h hsu hs
    | some o =>
      simp only [hsu] at hs
      cases o with
      | init => cases hs
      | node n =>
        simp only [] at hs
        cases hn : s.nodes n with
        | none => simp only [hn] at hs; cases hs; exact minv_raise h _
        | some nd =>
          simp only [hn] at hs
          have key : ∀ (hd : selDecision inp n nd ≠ .assertFail),
              MInv inp { applySel inp s n nd (selDecision inp n nd) with rpc := .sTop (some n) } :=
            fun hd => minv_select _ h hn hd (fun m r a => by cases a) (fun m a => by cases a)
          cases hd : selDecision inp n nd with
          | go =>
            simp only [hd] at hs; cases hs
            have h1 : MInv inp { applySel inp s n nd (selDecision inp n nd) with rpc := .sExec n } :=
              minv_select _ h hn (by rw [hd]; simp) (fun m r a => by cases a) (fun m a => by cases a; rfl)
            rw [hd] at h1
            have cn := (h.nodes n nd hn).self
            obtain ⟨pe, pt⟩ := startTask_minv_parts (inp := inp) (n := n) (w := 0) h1 cn
            exact ⟨h1.nodes, h1.toRun, pe, h1.jobs, (fun m r a => by cases a), h1.wk, h1.rq, pt,
              (fun m a => by cases a; exact cn), h1.yl⟩
          | assertFail => simp only [hd] at hs; cases hs; exact minv_raise h _
          | skipIgn => simp only [hd] at hs; cases hs; have := key (by simp [hd]); rwa [hd] at this
          | unmet => simp only [hd] at hs; cases hs; have := key (by simp [hd]); rwa [hd] at this
          | depErr => simp only [hd] at hs; cases hs; have := key (by simp [hd]); rwa [hd] at this
          | utd => simp only [hd] at hs; cases hs; have := key (by simp [hd]); rwa [hd] at this
          | runFirst => simp only [hd] at hs; cases hs; have := key (by simp [hd]); rwa [hd] at this
          | argsErr => simp only [hd] at hs; cases hs; have := key (by simp [hd]); rwa [hd] at this
      | stopIter =>
        cases hs
        exact minv_rpc h rfl rfl rfl rfl rfl rfl rfl (by simp [hsu]) (fun m r a => by cases a) (fun m a => by cases a)
      | holdOn => cases hs; exact minv_raise h _
      | cyclic n => cases hs; exact minv_raise h _
      | crash => cases hs; exact minv_raise h _
  | sExec n =>
    simp only [hr] at hs
    cases hn : s.nodes n with
    | none => simp only [hn] at hs; cases hs; exact minv_raise h _
    | some nd =>
      simp only [hn] at hs; cases hs
      have := minv_result (s1 := { s with events := Ev.fin n 0 :: s.events }) (.sTop (some n)) h hn rfl rfl rfl rfl
        (fun m a => a) rfl rfl ?_ (fun m r a => by cases a) (fun m a => by cases a)
      · simp only [hr] at this; exact this
      · intro e he
        rcases List.mem_cons.mp he with rfl | a
        · right; intro m hm; simp [Ev.mentions] at hm; exact hm.symm
        · exact Or.inl a
  | fin => simp only [hr] at hs; cases hs; exact minv_finishRun h
  | gEntry a b => simp only [hr] at hs; cases hs
  | gLoop a b => simp only [hr] at hs; cases hs
  | gWait a => simp only [hr] at hs; cases hs
  | gRet a b => simp only [hr] at hs; cases hs
  | pTop => simp only [hr] at hs; cases hs
  | pJoin => simp only [hr] at hs; cases hs
  | halted => simp only [hr] at hs; cases hs

theorem reach_minv {inp : RunInput} {s : Sys} (h : Reach inp s) : MInv inp s := by
  induction h with
  | init => exact init_minv inp
  | @next s0 s1 c _ hs ih =>
    cases c with
    | main perm => exact serialStep_minv ih hs
    | take w => cases hs
    | done w => cases hs


/-! ### the parallel system -/

theorem takeStep_minv {inp : RunInput} {s s' : Sys} {w : Nat} (h : MInv inp s)
    (hs : takeStep inp s w = some s') : MInv inp s' := by
  unfold takeStep at hs
  by_cases hidle : s.workers w = .idle
  case neg => simp only [hidle, if_false] at hs; cases hs
  simp only [hidle, if_true] at hs
  cases hq : s.jobQ with
  | nil => simp only [hq] at hs; cases hs
  | cons j js =>
    simp only [hq] at hs
    have hjobs : ∀ n, Job.task n ∈ js → Cl inp n := fun n hn => h.jobs n (by rw [hq]; simp [hn])
    cases j with
    | hold => cases hs; exact ⟨h.nodes, h.toRun, h.ev, hjobs, h.held, h.wk, h.rq, h.td, h.ex, h.yl⟩
    | stop =>
      cases hs
      refine ⟨h.nodes, h.toRun, h.ev, hjobs, h.held, ?_, h.rq, h.td, h.ex, h.yl⟩
      intro k n hk
      by_cases e : k = w
      · simp [setWorker, e] at hk
      · exact h.wk k n (by simpa [setWorker, e] using hk)
    | task n =>
      cases hs
      have cn : Cl inp n := h.jobs n (by rw [hq]; simp)
      obtain ⟨pe, pt⟩ := startTask_minv_parts (inp := inp) (n := n) (w := w) h cn
      refine ⟨h.nodes, h.toRun, pe, hjobs, h.held, ?_, h.rq, pt, h.ex, h.yl⟩
      intro k m hk
      by_cases e : k = w
      · have : m = n := by simpa [setWorker, e] using hk.symm
        exact this ▸ cn
      · exact h.wk k m (by simpa [setWorker, startTask, e] using hk)

theorem doneStep_minv {inp : RunInput} {s s' : Sys} {w : Nat} (h : MInv inp s)
    (hs : doneStep s w = some s') : MInv inp s' := by
  unfold doneStep at hs
  cases hw : s.workers w with
  | running n =>
    simp only [hw] at hs; cases hs
    have cn := h.wk w n hw
    refine ⟨h.nodes, h.toRun, ?_, h.jobs, h.held, ?_, ?_, h.td, h.ex, h.yl⟩
    · intro e he m hm
      rcases List.mem_cons.mp he with rfl | a
      · simp [Ev.mentions] at hm; exact hm ▸ cn
      · exact h.ev e a m hm
    · intro k m hk
      by_cases e : k = w
      · simp [setWorker, e] at hk
      · exact h.wk k m (by simpa [setWorker, e] using hk)
    · intro m hm
      have : m ∈ s.resQ ∨ m = n := by simpa using hm
      rcases this with a | a
      · exact h.rq m a
      · exact a ▸ cn
  | notStarted => simp only [hw] at hs; cases hs
  | idle => simp only [hw] at hs; cases hs
  | exited => simp only [hw] at hs; cases hs

theorem gReturn_minv {inp : RunInput} {s : Sys} {job : Job} {ret : Ret} (h : MInv inp s)
    (hr : s.rpc = .gRet job ret) : MInv inp (gReturn s job ret) := by
  have hj : ∀ n, Job.task n ∈ s.jobQ ++ [job] → Cl inp n := by
    intro n hn
    rcases List.mem_append.mp hn with a | a
    · exact h.jobs n a
    · simp at a; subst a; exact h.held n ret hr
  have hwk : ∀ k n, (setWorker s s.nStarted .idle).workers k = .running n → Cl inp n :=
    fun k n a => h.wk k n (setWorker_running a)
  cases ret with
  | startLoop k =>
    simp only [gReturn]
    split
    · exact ⟨h.nodes, h.toRun, h.ev, h.jobs, (fun m r a => by cases a), h.wk, h.rq, h.td, (fun m a => by cases a), h.yl⟩
    · split
      · exact ⟨h.nodes, h.toRun, h.ev, hj, (fun m r a => by cases a), hwk, h.rq, h.td, (fun m a => by cases a), h.yl⟩
      · exact ⟨h.nodes, h.toRun, h.ev, hj, (fun m r a => by cases a), hwk, h.rq, h.td, (fun m a => by cases a), h.yl⟩
  | feedLoop k =>
    simp only [gReturn]
    split
    · split
      · exact ⟨h.nodes, h.toRun, h.ev, hj, (fun m r a => by cases a), h.wk, h.rq, h.td, (fun m a => by cases a), h.yl⟩
      · exact ⟨h.nodes, h.toRun, h.ev, hj, (fun m r a => by cases a), h.wk, h.rq, h.td, (fun m a => by cases a), h.yl⟩
    · exact ⟨h.nodes, h.toRun, h.ev, hj, (fun m r a => by cases a), h.wk, h.rq, h.td, (fun m a => by cases a), h.yl⟩

theorem mainStep_minv {inp : RunInput} {s s' : Sys} {perm : List Name} (h : MInv inp s)
    (hs : mainStep inp s perm = some s') : MInv inp s' := by
  unfold mainStep at hs
  cases hr : s.rpc with
  | gEntry completed ret =>
    simp only [hr] at hs
    have hh : ∀ m r, RPC.gRet .stop ret ≠ .gRet (.task m) r := fun m r a => by cases a
    split at hs
    · cases hs; exact minv_rpc h rfl rfl rfl rfl rfl rfl rfl rfl hh (fun m a => by cases a)
    · cases hs; exact minv_rpc h rfl rfl rfl rfl rfl rfl rfl rfl (fun m r a => by cases a) (fun m a => by cases a)
  | gLoop node ret =>
    simp only [hr] at hs
    cases hsd : send inp s node perm with
    | none => simp only [hsd] at hs; cases hs
    | some s0 =>
      simp only [hsd] at hs; cases hs
      exact send_minv (.gWait ret) h hsd (fun n r a => by cases a) (fun n a => by cases a)
  | gWait ret =>
    simp only [hr] at hs
    cases hsu : s.susp with
    | none => simp only [hsu] at hs; exact dtick_minv h hsu hs
    | some o =>
      simp only [hsu] at hs
      cases o with
      | init => cases hs
      | node n =>
        simp only [] at hs
        cases hn : s.nodes n with
        | none => simp only [hn] at hs; cases hs; exact minv_raise h _
        | some nd =>
          simp only [hn] at hs
          have key : ∀ (hd : selDecision inp n nd ≠ .assertFail),
              MInv inp { applySel inp s n nd (selDecision inp n nd) with rpc := .gLoop (some n) ret } :=
            fun hd => minv_select _ h hn hd (fun m r a => by cases a) (fun m a => by cases a)
          cases hd : selDecision inp n nd with
          | go =>
            simp only [hd] at hs; cases hs
            have h1 : MInv inp { applySel inp s n nd (selDecision inp n nd) with rpc := .gRet (.task n) ret } :=
              minv_select _ h hn (by rw [hd]; simp) (fun m r a => by cases a; rfl) (fun m a => by cases a)
            rwa [hd] at h1
          | assertFail => simp only [hd] at hs; cases hs; exact minv_raise h _
          | skipIgn => simp only [hd] at hs; cases hs; have := key (by simp [hd]); rwa [hd] at this
          | unmet => simp only [hd] at hs; cases hs; have := key (by simp [hd]); rwa [hd] at this
          | depErr => simp only [hd] at hs; cases hs; have := key (by simp [hd]); rwa [hd] at this
          | utd => simp only [hd] at hs; cases hs; have := key (by simp [hd]); rwa [hd] at this
          | runFirst => simp only [hd] at hs; cases hs; have := key (by simp [hd]); rwa [hd] at this
          | argsErr => simp only [hd] at hs; cases hs; have := key (by simp [hd]); rwa [hd] at this
      | holdOn =>
        cases hs
        exact minv_rpc h rfl rfl rfl rfl rfl rfl rfl (by simp [hsu]) (fun m r a => by cases a) (fun m a => by cases a)
      | stopIter =>
        cases hs
        exact minv_rpc h rfl rfl rfl rfl rfl rfl rfl (by simp [hsu]) (fun m r a => by cases a) (fun m a => by cases a)
      | cyclic n => cases hs; exact minv_raise h _
      | crash => cases hs; exact minv_raise h _
  | gRet job ret => simp only [hr] at hs; cases hs; exact gReturn_minv h hr
  | pTop =>
    simp only [hr] at hs
    split at hs
    · cases hs; exact minv_rpc h rfl rfl rfl rfl rfl rfl rfl rfl (fun m r a => by cases a) (fun m a => by cases a)
    · cases hq : s.resQ with
      | nil => simp only [hq] at hs; cases hs
      | cons n rest =>
        simp only [hq] at hs
        cases hn : s.nodes n with
        | none => simp only [hn] at hs; cases hs; exact minv_raise h _
        | some nd =>
          simp only [hn] at hs; cases hs
          have h1 := minv_result (s1 := { s with resQ := rest }) (.gEntry (some n) (.feedLoop (s.freeProc + 1))) h hn
            rfl rfl rfl rfl (fun m a => by rw [hq]; simp [(show m ∈ rest from a)]) rfl rfl (fun e a => Or.inl a)
            (fun m r a => by cases a) (fun m a => by cases a)
          have h2 : MInv inp { processResult inp { s with resQ := rest } n nd with
              rpc := .gEntry (some n) (.feedLoop (s.freeProc + 1)), freeProc := 0 } :=
            ⟨h1.nodes, h1.toRun, h1.ev, h1.jobs, (fun m r a => by cases a), h1.wk, h1.rq, h1.td,
             (fun m a => by cases a), h1.yl⟩
          simp only [hr] at h2
          exact h2
  | pJoin =>
    simp only [hr] at hs
    split at hs
    · cases hs; exact minv_rpc h rfl rfl rfl rfl rfl rfl rfl rfl (fun m r a => by cases a) (fun m a => by cases a)
    · cases hs
  | fin => simp only [hr] at hs; cases hs; exact minv_finishRun h
  | sTop a => simp only [hr] at hs; cases hs
  | sWait => simp only [hr] at hs; cases hs
  | sExec a => simp only [hr] at hs; cases hs
  | halted => simp only [hr] at hs; cases hs

theorem preach_minv {inp : RunInput} {s : Sys} (h : PReach inp s) : MInv inp s := by
  induction h with
  | init => exact init_minv inp
  | @next s0 s1 c _ hs ih =>
    cases c with
    | main perm => exact mainStep_minv ih hs
    | take w => exact takeStep_minv ih hs
    | done w => exact doneStep_minv ih hs

end DoitModel.Run
