import DoitModel.Proofs.C09Cycle
/-! # C09 — the fuel of `calcsAt`: with every calc_dep name below `nTasks`, `nTasks` rounds reach the fixed point -/
namespace DoitModel.Run

variable {inp : RunInput}

/-- every calc_dep name — listed or delivered — is a task index below `nTasks` -/
def BoundedCalc (inp : RunInput) (nTasks : Nat) : Prop :=
  ∀ t, (∀ c ∈ inp.calcDep t, c < nTasks) ∧ (∀ x ∈ (inp.calcRes t).calcs, x < nTasks)

/-- what one round of `calcsAt` adds -/
def calcNew (inp : RunInput) (tr : List Ev) (cs : List Name) : List Name :=
  (cs.filter (finishedIn tr)).flatMap fun c => (inp.calcRes c).calcs

theorem calcsAt_succ (tr : List Ev) (k : Nat) (cs : List Name) :
    calcsAt inp tr (k + 1) cs = calcsAt inp tr k (addNew cs (calcNew inp tr cs)) := rfl

theorem addNew_eq_self {acc xs : List Name} (h : ∀ x ∈ xs, x ∈ acc) : addNew acc xs = acc := by
  induction xs with
  | nil => simp [addNew]
  | cons y ys ih =>
    have e : addNew acc (y :: ys) = addNew (if y ∈ acc then acc else acc ++ [y]) ys := by simp [addNew]
    rw [e, if_pos (h y (by simp))]
    exact ih (fun x hx => h x (by simp [hx]))

theorem calcsAt_fixed {tr : List Ev} {cs : List Name} (h : ∀ x ∈ calcNew inp tr cs, x ∈ cs) :
    ∀ k, calcsAt inp tr k cs = cs := by
  intro k
  induction k with
  | zero => rfl
  | succ k ih => rw [calcsAt_succ, addNew_eq_self h, ih]

theorem countP_lt_of_mem {α : Type} {p q : α → Bool} {l : List α} {x : α} (hx : x ∈ l) (hp : p x = false)
    (hq : q x = true) (hpq : ∀ y ∈ l, p y = true → q y = true) : l.countP p < l.countP q := by
  induction l with
  | nil => cases hx
  | cons y ys ih =>
    have hmono : ys.countP p ≤ ys.countP q :=
      List.countP_mono_left (fun z hz hpz => hpq z (by simp [hz]) hpz)
    rcases List.mem_cons.mp hx with e | e
    · subst e
      rw [List.countP_cons, List.countP_cons]
      simp only [hp, hq, Bool.false_eq_true, if_false, if_true]
      omega
    · have := ih e (fun z hz => hpq z (by simp [hz]))
      have hyq := hpq y (by simp)
      rw [List.countP_cons, List.countP_cons]
      cases hpy : p y <;> cases hqy : q y
      · simp; omega
      · simp; omega
      · rw [hpy, hqy] at hyq; exact absurd (hyq rfl) (by simp)
      · simp; omega

/-- number of names below `N` that occur in `cs` -/
def presentBelow (N : Nat) (cs : List Name) : Nat := (List.range N).countP (fun x => decide (x ∈ cs))

theorem presentBelow_full {N : Nat} {cs : List Name} (h : presentBelow N cs ≥ N) : ∀ x, x < N → x ∈ cs := by
  intro x hx
  have hle : presentBelow N cs ≤ (List.range N).length := List.countP_le_length
  have heq : (List.range N).countP (fun x => decide (x ∈ cs)) = (List.range N).length := by
    unfold presentBelow at h hle; simp only [List.length_range] at hle ⊢; omega
  have := List.countP_eq_length.mp heq x (List.mem_range.mpr hx)
  simpa using this

theorem calcsAt_saturates {tr : List Ev} {N : Nat} (hb : BoundedCalc inp N) :
    ∀ (k : Nat) (cs : List Name), presentBelow N cs + k ≥ N →
      ∀ x ∈ calcNew inp tr (calcsAt inp tr k cs), x ∈ calcsAt inp tr k cs := by
  have newBelow : ∀ cs x, x ∈ calcNew inp tr cs → x < N := by
    intro cs x hx
    simp only [calcNew, List.mem_flatMap, List.mem_filter] at hx
    obtain ⟨c, _, hxc⟩ := hx
    exact (hb c).2 x hxc
  intro k
  induction k with
  | zero =>
    intro cs h x hx
    simp only [calcsAt] at hx ⊢
    exact presentBelow_full (by omega) x (newBelow _ x hx)
  | succ k ih =>
    intro cs h
    by_cases hfix : ∀ x ∈ calcNew inp tr cs, x ∈ cs
    · rw [calcsAt_fixed hfix]; exact hfix
    · rw [calcsAt_succ]
      apply ih
      have ⟨x, hx⟩ := Classical.not_forall.mp hfix
      obtain ⟨hx1, hx2⟩ := Classical.not_imp.mp hx
      have : presentBelow N cs < presentBelow N (addNew cs (calcNew inp tr cs)) := by
        unfold presentBelow
        apply countP_lt_of_mem (x := x) (List.mem_range.mpr (newBelow cs x hx1))
        · simpa using hx2
        · simp only [decide_eq_true_eq]; exact mem_addNew9.mpr (Or.inr hx1)
        · intro y _ hy
          simp only [decide_eq_true_eq] at hy ⊢
          exact mem_addNew9.mpr (Or.inl hy)
      omega

theorem calcsSat_of_bounded {nTasks : Nat} (hb : BoundedCalc inp nTasks) (tr : List Ev) : CalcsSat inp nTasks tr := by
  intro n c hc hf x hx
  apply calcsAt_saturates hb nTasks (inp.calcDep n) (by omega)
  simp only [calcNew, List.mem_flatMap, List.mem_filter]
  exact ⟨c, ⟨hc, hf⟩, hx⟩

end DoitModel.Run
