import DoitModel.Proofs.RunSerial
/-! # From the event-order invariant to statements about positions in the chronological trace -/
namespace DoitModel.Run

theorem OrdOK_suffix {pre l : List Ev} (h : OrdOK (pre ++ l)) : OrdOK l := by
  induction pre with
  | nil => exact h
  | cons e t ih => exact ih h.2

/-- split form: whatever precedes a `start t` contains the finish report of every static dependency of `t` -/
theorem start_after_deps {inp : RunInput} {s : Sys} (h : Inv2 inp s) {pre post : List Ev} {t w : Nat}
    (he : s.events = pre ++ Ev.start t w :: post) : ∀ d ∈ staticDeps inp t, finBefore post d := by
  have o1 : OrdOK (Ev.start t w :: post) := OrdOK_suffix (he ▸ h.ord)
  obtain ⟨deps, hgo⟩ := o1.1
  obtain ⟨p2, post2, hsplit⟩ := List.append_of_mem hgo
  have o2 : OrdOK (Ev.go t deps :: post2) := OrdOK_suffix (hsplit ▸ o1.2)
  have hmem : Ev.go t deps ∈ s.events := by rw [he]; simp [hgo]
  intro d hd
  have := o2.1 d (h.gs t deps hmem d hd)
  exact finBefore_mono (fun e he' => by rw [hsplit]; simp [he']) this

/-- the same for every dependency recorded when `select_task` said yes (includes delivered calc results) -/
theorem start_after_known_deps {inp : RunInput} {s : Sys} (h : Inv2 inp s) {pre post : List Ev} {t w : Nat}
    (he : s.events = pre ++ Ev.start t w :: post) :
    ∃ deps, Ev.go t deps ∈ post ∧ (∀ d ∈ staticDeps inp t, d ∈ deps) ∧ ∀ d ∈ deps, finBefore post d := by
  have o1 : OrdOK (Ev.start t w :: post) := OrdOK_suffix (he ▸ h.ord)
  obtain ⟨deps, hgo⟩ := o1.1
  obtain ⟨p2, post2, hsplit⟩ := List.append_of_mem hgo
  have o2 : OrdOK (Ev.go t deps :: post2) := OrdOK_suffix (hsplit ▸ o1.2)
  have hmem : Ev.go t deps ∈ s.events := by rw [he]; simp [hgo]
  exact ⟨deps, hgo, h.gs t deps hmem,
    fun d hd => finBefore_mono (fun e he' => by rw [hsplit]; simp [he']) (o2.1 d hd)⟩

/-- chronological view: `tr = events.reverse`, position `i` -/
theorem split_of_getElem? {α} {l : List α} {i : Nat} {e : α} (h : l.reverse[i]? = some e) :
    ∃ pre post, l = pre ++ e :: post ∧ post.length = i ∧ ∀ x ∈ post, ∃ j < i, l.reverse[j]? = some x := by
  obtain ⟨hi, hget⟩ := List.getElem?_eq_some_iff.mp h
  have hlen : l.reverse.length = l.length := List.length_reverse
  have e1 : l.reverse = l.reverse.take i ++ e :: l.reverse.drop (i + 1) := by
    rw [← hget]; exact (List.take_append_drop i l.reverse).symm.trans (by rw [List.drop_eq_getElem_cons hi])
  refine ⟨(l.reverse.drop (i + 1)).reverse, (l.reverse.take i).reverse, ?_, ?_, ?_⟩
  · have := congrArg List.reverse e1
    simpa using this
  · simp [List.length_take]; omega
  · intro x hx
    have hx' : x ∈ l.reverse.take i := by simpa using hx
    obtain ⟨j, hj, hjx⟩ := List.mem_iff_getElem.mp hx'
    have hj' : j < i := by simp [List.length_take] at hj; omega
    refine ⟨j, hj', ?_⟩
    rw [List.getElem_take] at hjx
    rw [List.getElem?_eq_getElem (by simp [List.length_take] at hj; simp; omega)]
    simp [hjx]

theorem order_indices {inp : RunInput} {s : Sys} (h : Inv2 inp s) (i t w : Nat)
    (hi : s.events.reverse[i]? = some (Ev.start t w)) (d : Name) (hd : d ∈ staticDeps inp t) :
    ∃ j < i, s.events.reverse[j]? = some (Ev.success d) ∨ s.events.reverse[j]? = some (Ev.skipUtd d) := by
  obtain ⟨pre, post, he, _, hidx⟩ := split_of_getElem? hi
  rcases start_after_deps h he d hd with a | a
  · obtain ⟨j, hj, hx⟩ := hidx _ a; exact ⟨j, hj, Or.inl hx⟩
  · obtain ⟨j, hj, hx⟩ := hidx _ a; exact ⟨j, hj, Or.inr hx⟩

end DoitModel.Run
