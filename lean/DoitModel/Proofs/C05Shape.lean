import DoitModel.Proofs.RunDeliver
/-! # C05 — the shape of one transition: which statuses change and which events are added

Every transition of the serial and of the parallel system is of one of three shapes: `quiet` (no status changes, no
terminal report, no `go`), `select` (`select_task` decided about the yielded node) or `result`
(`process_task_result` of a task that `select_task` had chosen).  The C05 invariants are proved from this shape alone
(`Proofs/C05Inv.lean`). -/
namespace DoitModel.Run

/-- events that are neither a terminal report nor the internal `go` -/
def Ev.quiet : Ev → Bool
  | .success _ | .failure _ _ | .skipUtd _ | .skipIgn _ | .go _ _ => false
  | _ => true

inductive Shape (inp : RunInput) (s s' : Sys) : Prop
  | quiet (new : List Ev) (hst : ∀ x, stOf s' x = stOf s x) (hev : s'.events = new ++ s.events)
      (hq : ∀ e ∈ new, e.quiet = true) (hstop : s'.stop = s.stop)
  | select (n : Name) (nd : Node) (extra : List Ev) (haw : awaiting s) (hsusp : s.susp = some (.node n))
      (hn : s.nodes n = some nd) (hd : selDecision inp n nd ≠ .assertFail)
      (hst : ∀ x, stOf s' x = if x = n then selStatus (selDecision inp n nd) else stOf s x)
      (hev : s'.events = extra ++ (selEvents inp n nd (selDecision inp n nd) ++ s.events))
      (hq : ∀ e ∈ extra, e.quiet = true) (hstop : inp.continue_ = true → s'.stop = s.stop)
  | result (n : Name) (nd : Node) (mid : List Ev) (hn : s.nodes n = some nd) (hrun : nd.status = .run)
      (hgo : ∃ deps, Ev.go n deps ∈ s.events)
      (hst : ∀ x, stOf s' x = if x = n then resStatus (inp.outcome n) else stOf s x)
      (hev : s'.events = resEvents n (inp.outcome n) ++ (mid ++ s.events))
      (hq : ∀ e ∈ mid, e.quiet = true) (hstop : inp.continue_ = true → s'.stop = s.stop)

/-- only runner bookkeeping changed -/
theorem Shape.same {inp : RunInput} {s s' : Sys} (e1 : s'.nodes = s.nodes) (e2 : s'.events = s.events)
    (e3 : s'.stop = s.stop) : Shape inp s s' :=
  .quiet [] (stOf_congr e1) (by simpa using e2) (by simp) e3

theorem startEvents_quiet (inp : RunInput) (n w : Nat) :
    ∀ e ∈ (if inp.runner = .process then [Ev.start n w] else [Ev.start n w, Ev.execute n]), e.quiet = true := by
  intro e he
  split at he <;> simp at he
  · subst he; rfl
  · rcases he with rfl | rfl <;> rfl

theorem teardown_quiet (l : List Name) : ∀ e ∈ Ev.complete :: l.map Ev.teardown, e.quiet = true := by
  intro e he
  simp only [List.mem_cons, List.mem_map] at he
  rcases he with rfl | ⟨a, _, rfl⟩ <;> rfl

theorem applySel_stop (inp : RunInput) (s : Sys) (n : Name) (nd : Node) (d : Sel) (hc : inp.continue_ = true) :
    (applySel inp s n nd d).stop = s.stop := by
  cases d <;> simp [applySel, failNode, setNode, hc]

theorem processResult_stop (inp : RunInput) (s : Sys) (n : Name) (nd : Node) (hc : inp.continue_ = true) :
    (processResult inp s n nd).stop = s.stop := by
  unfold processResult; cases inp.outcome n <;> simp [failNode, setNode, hc]

theorem shape_dtick {inp : RunInput} {s s' : Sys} {perm : List Name} (hs : dtick inp s perm = some s') :
    Shape inp s s' :=
  .quiet [] (dtick_stOf hs) (by simpa using (dtick_outer hs).1) (by simp) (dtick_outer hs).2.2.2.2.2.1

theorem shape_send {inp : RunInput} {s s0 : Sys} {node : Option Name} {perm : List Name} (rpc' : RPC)
    (h : Inv2 inp s) (hnode : sentBack s = node) (hs : send inp s node perm = some s0) :
    Shape inp s { s0 with rpc := rpc' } := by
  obtain ⟨o, _⟩ := send_outer hs
  obtain ⟨_, hst⟩ := send_inv1 h.inv1 (fun p hp => h.sb p (by rw [hnode, hp])) hs
  exact .quiet [] hst (by simpa using o.1) (by simp) o.2.2.2.2.2.1

theorem shape_select {inp : RunInput} {s : Sys} {n : Name} {nd : Node} (rpc' : RPC) (haw : awaiting s)
    (hsusp : s.susp = some (.node n)) (hn : s.nodes n = some nd) (hd : selDecision inp n nd ≠ .assertFail) :
    Shape inp s { applySel inp s n nd (selDecision inp n nd) with rpc := rpc' } :=
  .select n nd [] haw hsusp hn hd (fun x => stOf_applySel inp s n nd _ hd x)
    (by simp [applySel_events]) (by simp) (fun hc => applySel_stop inp s n nd _ hc)

theorem shape_result {inp : RunInput} {s s1 : Sys} {n : Name} {nd : Node} (rpc' : RPC) (mid : List Ev)
    (hn : s.nodes n = some nd) (hrun : nd.status = .run) (hgo : ∃ deps, Ev.go n deps ∈ s.events)
    (e0 : s1.nodes = s.nodes) (e1 : s1.events = mid ++ s.events) (e2 : s1.stop = s.stop)
    (hq : ∀ e ∈ mid, e.quiet = true) : Shape inp s { processResult inp s1 n nd with rpc := rpc' } := by
  refine .result n nd mid hn hrun hgo ?_ ?_ hq ?_
  · intro x
    have a : stOf { processResult inp s1 n nd with rpc := rpc' } x = stOf (processResult inp s1 n nd) x :=
      stOf_congr rfl x
    rw [a, stOf_processResult, stOf_congr e0]
  · show (processResult inp s1 n nd).events = _
    rw [processResult_events, e1]
  · intro hc
    show (processResult inp s1 n nd).stop = _
    rw [processResult_stop _ _ _ _ hc, e2]

theorem go_of_start {inp : RunInput} {s : Sys} (h2 : Inv2 inp s) {n : Name} (hc : cStart s n ≥ 1) :
    ∃ deps, Ev.go n deps ∈ s.events := by
  have hpos : 0 < s.events.countP (Ev.isStartOf n) := by unfold cStart at hc; omega
  obtain ⟨e, he, hp⟩ := List.countP_pos_iff.mp hpos
  cases e with
  | start m wk =>
    have hm : m = n := by simpa [Ev.isStartOf] using hp
    subst hm
    obtain ⟨pre, post, hsplit⟩ := List.append_of_mem he
    have ho : OrdOK (Ev.start m wk :: post) := OrdOK_suffix (pre := pre) (by rw [← hsplit]; exact h2.ord)
    obtain ⟨deps, hdm⟩ := ho.1
    exact ⟨deps, by rw [hsplit]; simp [hdm]⟩
  | _ => simp [Ev.isStartOf] at hp

theorem serialStep_shape {inp : RunInput} {s s' : Sys} {perm : List Name} (h2 : Inv2 inp s) (h3 : Inv3 inp s)
    (hs : serialStep inp s perm = some s') : Shape inp s s' := by
  unfold serialStep at hs
  cases hr : s.rpc with
  | sTop node =>
    simp only [hr] at hs
    split at hs
    · cases hs; exact Shape.same rfl rfl rfl
    · cases hsd : send inp s node perm with
      | none => simp only [hsd] at hs; cases hs
      | some s0 => simp only [hsd] at hs; cases hs; exact shape_send _ h2 (by simp [sentBack, hr]) hsd
  | sWait =>
    simp only [hr] at hs
    have haw : awaiting s := Or.inl hr
    cases hsu : s.susp with
    | none => simp only [hsu] at hs; exact shape_dtick hs
    | some o =>
      simp only [hsu] at hs
      cases o with
      | init => cases hs
      | node n =>
        simp only [] at hs
        cases hn : s.nodes n with
        | none => simp only [hn] at hs; cases hs; exact Shape.same rfl rfl rfl
        | some nd =>
          simp only [hn] at hs
          have key : ∀ (hd : selDecision inp n nd ≠ .assertFail),
              Shape inp s { applySel inp s n nd (selDecision inp n nd) with rpc := .sTop (some n) } :=
            fun hd => shape_select _ haw hsu hn hd
          cases hd : selDecision inp n nd with
          | go =>
            simp only [hd] at hs; cases hs
            have hd' : selDecision inp n nd ≠ .assertFail := by rw [hd]; simp
            refine .select n nd (if inp.runner = .process then [Ev.start n 0] else [Ev.start n 0, Ev.execute n])
              haw hsu hn hd' ?_ ?_ (startEvents_quiet inp n 0) ?_
            · intro x
              have := stOf_applySel inp s n nd _ hd' x
              rw [hd] at this
              rw [hd]; rw [← this]; rfl
            · show (startTask inp (applySel inp s n nd .go) n 0).events = _
              rw [startTask_events, applySel_events, hd]
            · intro hc
              show (startTask inp (applySel inp s n nd .go) n 0).stop = s.stop
              have := applySel_stop inp s n nd .go hc
              simpa [startTask] using this
          | assertFail => simp only [hd] at hs; cases hs; exact Shape.same rfl rfl rfl
          | skipIgn => simp only [hd] at hs; cases hs; have := key (by simp [hd]); rwa [hd] at this
          | unmet => simp only [hd] at hs; cases hs; have := key (by simp [hd]); rwa [hd] at this
          | depErr => simp only [hd] at hs; cases hs; have := key (by simp [hd]); rwa [hd] at this
          | utd => simp only [hd] at hs; cases hs; have := key (by simp [hd]); rwa [hd] at this
          | runFirst => simp only [hd] at hs; cases hs; have := key (by simp [hd]); rwa [hd] at this
          | argsErr => simp only [hd] at hs; cases hs; have := key (by simp [hd]); rwa [hd] at this
      | stopIter => cases hs; exact Shape.same rfl rfl rfl
      | holdOn => cases hs; exact Shape.same rfl rfl rfl
      | cyclic n => cases hs; exact Shape.same rfl rfl rfl
      | crash => cases hs; exact Shape.same rfl rfl rfl
  | sExec n =>
    simp only [hr] at hs
    cases hn : s.nodes n with
    | none => simp only [hn] at hs; cases hs; exact Shape.same rfl rfl rfl
    | some nd =>
      simp only [hn] at hs; cases hs
      have hrun : nd.status = .run := by have := h2.x n hr; simpa [stOf, hn] using this
      have hgo : ∃ deps, Ev.go n deps ∈ s.events := go_of_start h2 (by have := (h3.x3 n hr).1; omega)
      exact shape_result (s1 := { s with rpc := .sExec n, events := Ev.fin n 0 :: s.events }) _ [Ev.fin n 0] hn hrun hgo
        rfl rfl rfl (by simp [Ev.quiet])
  | fin =>
    simp only [hr] at hs; cases hs
    exact .quiet (Ev.complete :: s.tdown.map Ev.teardown) (fun _ => rfl) (by simp [finishRun]) (teardown_quiet _) rfl
  | gEntry a b => simp only [hr] at hs; cases hs
  | gLoop a b => simp only [hr] at hs; cases hs
  | gWait a => simp only [hr] at hs; cases hs
  | gRet a b => simp only [hr] at hs; cases hs
  | pTop => simp only [hr] at hs; cases hs
  | pJoin => simp only [hr] at hs; cases hs
  | halted => simp only [hr] at hs; cases hs

theorem takeStep_shape {inp : RunInput} {s s' : Sys} {w : Nat} (hs : takeStep inp s w = some s') : Shape inp s s' := by
  unfold takeStep at hs
  by_cases hidle : s.workers w = .idle
  case neg => simp only [hidle, if_false] at hs; cases hs
  simp only [hidle, if_true] at hs
  cases hq : s.jobQ with
  | nil => simp only [hq] at hs; cases hs
  | cons j js =>
    simp only [hq] at hs
    cases j with
    | hold => cases hs; exact Shape.same rfl rfl rfl
    | stop => cases hs; exact Shape.same rfl rfl rfl
    | task n =>
      cases hs
      refine .quiet (if inp.runner = .process then [Ev.start n w] else [Ev.start n w, Ev.execute n])
        (fun _ => rfl) ?_ (startEvents_quiet inp n w) rfl
      show (startTask inp s n w).events = _
      rw [startTask_events]

theorem doneStep_shape {inp : RunInput} {s s' : Sys} {w : Nat} (hs : doneStep s w = some s') : Shape inp s s' := by
  unfold doneStep at hs
  cases hw : s.workers w with
  | running n =>
    simp only [hw] at hs; cases hs
    exact .quiet [Ev.fin n w] (fun _ => rfl) rfl (by simp [Ev.quiet]) rfl
  | notStarted => simp only [hw] at hs; cases hs
  | idle => simp only [hw] at hs; cases hs
  | exited => simp only [hw] at hs; cases hs

theorem gReturn_shape (inp : RunInput) (s : Sys) (job : Job) (ret : Ret) : Shape inp s (gReturn s job ret) := by
  cases ret with
  | startLoop k =>
    simp only [gReturn]
    split
    · exact Shape.same rfl rfl rfl
    · split <;> exact Shape.same rfl rfl rfl
  | feedLoop k =>
    simp only [gReturn]
    split
    · split <;> exact Shape.same rfl rfl rfl
    · exact Shape.same rfl rfl rfl

theorem mainStep_shape {inp : RunInput} {s s' : Sys} {perm : List Name} (h2 : Inv2 inp s) (h3 : Inv3 inp s)
    (hs : mainStep inp s perm = some s') : Shape inp s s' := by
  unfold mainStep at hs
  cases hr : s.rpc with
  | gEntry completed ret =>
    simp only [hr] at hs
    split at hs <;> (cases hs; exact Shape.same rfl rfl rfl)
  | gLoop node ret =>
    simp only [hr] at hs
    cases hsd : send inp s node perm with
    | none => simp only [hsd] at hs; cases hs
    | some s0 => simp only [hsd] at hs; cases hs; exact shape_send _ h2 (by simp [sentBack, hr]) hsd
  | gWait ret =>
    simp only [hr] at hs
    have haw : awaiting s := Or.inr ⟨ret, hr⟩
    cases hsu : s.susp with
    | none => simp only [hsu] at hs; exact shape_dtick hs
    | some o =>
      simp only [hsu] at hs
      cases o with
      | init => cases hs
      | node n =>
        simp only [] at hs
        cases hn : s.nodes n with
        | none => simp only [hn] at hs; cases hs; exact Shape.same rfl rfl rfl
        | some nd =>
          simp only [hn] at hs
          have key : ∀ (rpc' : RPC) (hd : selDecision inp n nd ≠ .assertFail),
              Shape inp s { applySel inp s n nd (selDecision inp n nd) with rpc := rpc' } :=
            fun rpc' hd => shape_select rpc' haw hsu hn hd
          cases hd : selDecision inp n nd with
          | go => simp only [hd] at hs; cases hs; have := key (.gRet (.task n) ret) (by simp [hd]); rwa [hd] at this
          | assertFail => simp only [hd] at hs; cases hs; exact Shape.same rfl rfl rfl
          | skipIgn => simp only [hd] at hs; cases hs; have := key (.gLoop (some n) ret) (by simp [hd]); rwa [hd] at this
          | unmet => simp only [hd] at hs; cases hs; have := key (.gLoop (some n) ret) (by simp [hd]); rwa [hd] at this
          | depErr => simp only [hd] at hs; cases hs; have := key (.gLoop (some n) ret) (by simp [hd]); rwa [hd] at this
          | utd => simp only [hd] at hs; cases hs; have := key (.gLoop (some n) ret) (by simp [hd]); rwa [hd] at this
          | runFirst => simp only [hd] at hs; cases hs; have := key (.gLoop (some n) ret) (by simp [hd]); rwa [hd] at this
          | argsErr => simp only [hd] at hs; cases hs; have := key (.gLoop (some n) ret) (by simp [hd]); rwa [hd] at this
      | holdOn => cases hs; exact Shape.same rfl rfl rfl
      | stopIter => cases hs; exact Shape.same rfl rfl rfl
      | cyclic n => cases hs; exact Shape.same rfl rfl rfl
      | crash => cases hs; exact Shape.same rfl rfl rfl
  | gRet job ret => simp only [hr] at hs; cases hs; exact gReturn_shape inp s job ret
  | pTop =>
    simp only [hr] at hs
    split at hs
    · cases hs; exact Shape.same rfl rfl rfl
    · cases hq : s.resQ with
      | nil => simp only [hq] at hs; cases hs
      | cons n rest =>
        simp only [hq] at hs
        cases hn : s.nodes n with
        | none => simp only [hn] at hs; cases hs; exact Shape.same rfl rfl rfl
        | some nd =>
          simp only [hn] at hs; cases hs
          have hq1 := h3.q1 n (by rw [hq]; simp)
          have hrun : nd.status = .run := by simpa [stOf, hn] using hq1.2
          have hgo : ∃ deps, Ev.go n deps ∈ s.events :=
            go_of_start h2 (by have := (h3.p0 n).2; have := hq1.1; omega)
          have := shape_result (inp := inp) (s1 := { s with rpc := .pTop, resQ := rest })
            (.gEntry (some n) (.feedLoop (s.freeProc + 1))) [] hn hrun hgo rfl (by simp) rfl (by simp)
          cases this with
          | quiet new a b c d => exact .quiet new a b c d
          | select m md ex a b c d e f g i => exact .select m md ex a b c d e f g i
          | result m md mid a b c d e f g => exact .result m md mid a b c (fun x => d x) e f g
  | pJoin =>
    simp only [hr] at hs
    split at hs
    · cases hs; exact Shape.same rfl rfl rfl
    · cases hs
  | fin =>
    simp only [hr] at hs; cases hs
    exact .quiet (Ev.complete :: s.tdown.map Ev.teardown) (fun _ => rfl) (by simp [finishRun]) (teardown_quiet _) rfl
  | sTop a => simp only [hr] at hs; cases hs
  | sWait => simp only [hr] at hs; cases hs
  | sExec a => simp only [hr] at hs; cases hs
  | halted => simp only [hr] at hs; cases hs

theorem pstep_shape {inp : RunInput} {s s' : Sys} {c : Choice} (h2 : Inv2 inp s) (h3 : Inv3 inp s)
    (hs : pstep inp s c = some s') : Shape inp s s' := by
  cases c with
  | main perm => exact mainStep_shape h2 h3 hs
  | take w => exact takeStep_shape hs
  | done w => exact doneStep_shape hs

end DoitModel.Run
