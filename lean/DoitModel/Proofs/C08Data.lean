import DoitModel.Model.RunData
/-! # Helper lemmas for `C08_data_intact`: the `zip` loops of `MRunner._process_result` -/
namespace DoitModel.Run

theorem zipOut_length (as : List ActOut) (os : List Nat) : (zipOut as os).length = as.length := by
  induction as generalizing os with
  | nil => cases os <;> simp [zipOut]
  | cons a t ih => cases os with
    | nil => simp [zipOut]
    | cons o os => simp [zipOut, ih]

theorem zipErr_length (as : List ActOut) (os : List Nat) : (zipErr as os).length = as.length := by
  induction as generalizing os with
  | nil => cases os <;> simp [zipErr]
  | cons a t ih => cases os with
    | nil => simp [zipErr]
    | cons o os => simp [zipErr, ih]

/-- element-wise: action `i` gets `os[i]` if the result list is long enough, else keeps its `out`; `err` untouched -/
theorem zipOut_get (as : List ActOut) (os : List Nat) (i : Nat) (a : ActOut) (h : as[i]? = some a) :
    (zipOut as os)[i]? = some { a with out := (os[i]?).getD a.out } := by
  induction as generalizing os i with
  | nil => simp at h
  | cons x t ih => cases os with
    | nil => simp [zipOut, h]
    | cons o os => cases i with
      | zero => simp at h; subst h; simp [zipOut]
      | succ i => simp at h; simp [zipOut, ih os i h]

theorem zipErr_get (as : List ActOut) (os : List Nat) (i : Nat) (a : ActOut) (h : as[i]? = some a) :
    (zipErr as os)[i]? = some { a with err := (os[i]?).getD a.err } := by
  induction as generalizing os i with
  | nil => simp at h
  | cons x t ih => cases os with
    | nil => simp [zipErr, h]
    | cons o os => cases i with
      | zero => simp at h; subst h; simp [zipErr]
      | succ i => simp at h; simp [zipErr, ih os i h]

/-- same number of action instances on both sides: the main side ends with exactly the worker's outputs -/
theorem zip_all (ms ws : List ActOut) (h : ms.length = ws.length) :
    zipErr (zipOut ms (ws.map (·.out))) (ws.map (·.err)) = ws := by
  induction ms generalizing ws with
  | nil => cases ws with
    | nil => simp [zipOut, zipErr]
    | cons _ _ => simp at h
  | cons m t ih => cases ws with
    | nil => simp at h
    | cons w ws =>
      simp only [List.length_cons, Nat.add_right_cancel_iff] at h
      simp only [List.map_cons, zipOut, zipErr, ih ws h]

end DoitModel.Run
