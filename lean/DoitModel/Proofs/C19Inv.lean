import DoitModel.Proofs.RunPar
import DoitModel.Proofs.RunSerial3
import DoitModel.Proofs.C19Exit
/-! # C19: the reporting invariant `Inv19` of the run model and its preservation (serial and parallel runners) -/
namespace DoitModel.Report
open DoitModel.Run

/-- `execute_task` reports are part of the model's trace (not for the process runner: they travel through the
    result queue, `Report.Merge`) -/
def exOf (inp : RunInput) : Bool := !(inp.runner == .process)

def cExec (s : Sys) (n : Name) : Nat := s.events.countP (Ev.isExecOf n)

structure Inv19 (inp : RunInput) (s : Sys) : Prop where
  fin : s.final = finalEv s.events
  fl : ∀ n, stOf s n = .fail → ∃ k, Ev.failure n k ∈ s.events
  ig : ∀ n, stOf s n = .ign → Ev.skipIgn n ∈ s.events
  g0 : ∀ n, stOf s n = .none → ∀ e ∈ s.events, Ev.touches n e = false
  g1 : ∀ n, stOf s n ≠ .none → Ev.getStatus n ∈ s.events
  ex : ∀ n, cExec s n = if inp.runner = .process then 0 else cStart s n
  ord : repOrd (exOf inp) false (fun _ => false) s.events = true
  st : ∀ n, cStart s n ≥ 1 → stOf s n = .run ∨ cTerm s n ≥ 1
  tl : truthLiteOrd inp s.events = true

/-! ### list facts -/

theorem any_false_of_countP {p : Ev → Bool} {l : List Ev} (h : l.countP p = 0) : l.any p = false := by
  cases ha : l.any p with
  | false => rfl
  | true =>
    obtain ⟨e, he, hp⟩ := List.any_eq_true.mp ha
    have : 0 < l.countP p := List.countP_pos_iff.mpr ⟨e, he, hp⟩
    omega

theorem any_true_of_countP {p : Ev → Bool} {l : List Ev} (h : l.countP p ≥ 1) : l.any p = true := by
  obtain ⟨e, he, hp⟩ := List.countP_pos_iff.mp (by omega : 0 < l.countP p)
  exact List.any_eq_true.mpr ⟨e, he, hp⟩

theorem any_gs_of_mem {n : Name} {l : List Ev} (h : Ev.getStatus n ∈ l) : l.any (Ev.isGetStatusOf n) = true :=
  List.any_eq_true.mpr ⟨_, h, by simp [Ev.isGetStatusOf]⟩

theorem any_touch_false {n : Name} {l : List Ev} (h : ∀ e ∈ l, Ev.touches n e = false) :
    l.any (Ev.touches n) = false := by
  cases ha : l.any (Ev.touches n) with
  | false => rfl
  | true =>
    obtain ⟨e, he, hp⟩ := List.any_eq_true.mp ha
    rw [h e he] at hp; cases hp

/-! ### states that differ only outside events / statuses / final_result -/

theorem Inv19.same {inp : RunInput} {s s' : Sys} (h : Inv19 inp s) (e1 : s'.events = s.events)
    (e2 : ∀ x, stOf s' x = stOf s x) (e3 : s'.final = s.final) : Inv19 inp s' := by
  constructor
  · rw [e3, e1]; exact h.fin
  · intro n hn; rw [e1]; exact h.fl n (by rw [← e2]; exact hn)
  · intro n hn; rw [e1]; exact h.ig n (by rw [← e2]; exact hn)
  · intro n hn; rw [e1]; exact h.g0 n (by rw [← e2]; exact hn)
  · intro n hn; rw [e1]; exact h.g1 n (by rw [← e2]; exact hn)
  · intro n; simp only [cExec, cStart, e1]; exact h.ex n
  · rw [e1]; exact h.ord
  · intro n hn
    have : cStart s n ≥ 1 := by simpa [cStart, e1] using hn
    rcases h.st n this with a | a
    · left; rw [e2]; exact a
    · right; simpa [cTerm, e1] using a
  · rw [e1]; exact h.tl

theorem Inv19.outer {inp : RunInput} {s s' : Sys} (h : Inv19 inp s) (o : SameOuter s s')
    (e2 : ∀ x, stOf s' x = stOf s x) : Inv19 inp s' :=
  h.same o.1 e2 o.2.2.2.2.2.2.1

theorem init_inv19 (inp : RunInput) : Inv19 inp (init inp) := by
  constructor <;> simp [init, finalEv, stOf, cExec, cStart, cTerm, repOrd, truthLiteOrd]

/-! ### `select_task` -/

theorem finalEv_statusEv (nd : Node) (n : Name) (evs : List Ev) : finalEv (statusEv nd n ++ evs) = finalEv evs := by
  unfold statusEv; split <;> simp [finalEv]

theorem applySel_final (inp : RunInput) (s : Sys) (n : Name) (nd : Node) (d : Sel) (h : s.final = finalEv s.events) :
    (applySel inp s n nd d).final = finalEv (selEvents inp n nd d ++ s.events) := by
  cases d <;> simp [applySel, failNode, setNode, selEvents, finalEv, finalEv_statusEv, h]

theorem statusEv_touches (nd : Node) (n x : Name) (hx : x ≠ n) : ∀ e ∈ statusEv nd n, Ev.touches x e = false := by
  intro e he; unfold statusEv at he; split at he
  · simp at he; subst he; simp [Ev.touches]; exact fun a => hx a.symm
  · cases he

theorem selEvents_touches (inp : RunInput) (n : Name) (nd : Node) (d : Sel) (x : Name) (hx : x ≠ n) :
    ∀ e ∈ selEvents inp n nd d, Ev.touches x e = false := by
  intro e he
  have hx' : ¬ n = x := fun a => hx a.symm
  cases d <;> simp only [selEvents, List.mem_cons] at he
  all_goals first
    | (rcases he with he | he
       · subst he; simp [Ev.touches, hx']
       · exact statusEv_touches nd n x hx e he)
    | exact statusEv_touches nd n x hx e he
    | cases he

theorem statusEv_exec (nd : Node) (n x : Name) : (statusEv nd n).countP (Ev.isExecOf x) = 0 := by
  unfold statusEv; split <;> simp [Ev.isExecOf]

theorem selEvents_exec (inp : RunInput) (n : Name) (nd : Node) (d : Sel) (x : Name) :
    (selEvents inp n nd d).countP (Ev.isExecOf x) = 0 := by
  cases d <;> simp [selEvents, List.countP_cons, Ev.isExecOf, statusEv_exec]

theorem selDecision_status {inp : RunInput} {n : Name} {nd : Node} (h : selDecision inp n nd ≠ .assertFail) :
    nd.status = .none ∨ nd.status = .run := by
  unfold selDecision at h
  by_cases h0 : nd.status = .none
  · exact Or.inl h0
  · simp only [h0, if_false] at h
    by_cases h1 : nd.status ≠ .run ∨ inp.setup n = []
    · simp [h1] at h
    · right
      apply Classical.byContradiction
      intro hn; exact h1 (Or.inl hn)

theorem selDecision_utd {inp : RunInput} {n : Name} {nd : Node} (h : selDecision inp n nd = .utd) :
    effStatus inp n = .utd ∧ inp.ignored n = false := by
  unfold selDecision at h
  by_cases h0 : nd.status = .none
  · simp only [h0, if_true] at h
    by_cases h1 : nd.ign ≠ [] ∨ inp.ignored n = true
    · simp [h1] at h
    · simp only [h1, if_false] at h
      by_cases h2 : nd.bad ≠ []
      · simp [h2] at h
      · simp only [h2, if_false] at h
        by_cases h3 : inp.statusOf n = .error
        · simp [h3] at h
        · simp only [h3, if_false] at h
          by_cases h4 : effStatus inp n = .utd
          · refine ⟨h4, ?_⟩
            cases hi : inp.ignored n with
            | false => rfl
            | true => exact absurd (Or.inr hi) h1
          · simp only [h4, if_false] at h
            split at h <;> (try split at h) <;> cases h
  · simp only [h0, if_false] at h
    split at h <;> (try split at h) <;> (try split at h) <;> (try split at h) <;> cases h

theorem selDecision_depErr {inp : RunInput} {n : Name} {nd : Node} (h : selDecision inp n nd = .depErr) :
    inp.statusOf n = .error := by
  unfold selDecision at h
  by_cases h0 : nd.status = .none
  · simp only [h0, if_true] at h
    by_cases h1 : nd.ign ≠ [] ∨ inp.ignored n = true
    · simp [h1] at h
    · simp only [h1, if_false] at h
      by_cases h2 : nd.bad ≠ []
      · simp [h2] at h
      · simp only [h2, if_false] at h
        by_cases h3 : inp.statusOf n = .error
        · exact h3
        · simp only [h3, if_false] at h
          split at h <;> (try split at h) <;> (try split at h) <;> cases h
  · simp only [h0, if_false] at h
    split at h <;> (try split at h) <;> (try split at h) <;> (try split at h) <;> cases h

theorem selDecision_argsErr {inp : RunInput} {n : Name} {nd : Node} (h : selDecision inp n nd = .argsErr) :
    inp.argsOk n = false := by
  cases ha : inp.argsOk n with
  | false => rfl
  | true =>
    exfalso
    unfold selDecision at h
    simp only [ha, if_true] at h
    split at h <;> (try split at h) <;> (try split at h) <;> (try split at h) <;> (try split at h) <;>
      (try split at h) <;> cases h

/-- `select_task(n)` (any answer) keeps the reporting invariant -/
theorem inv19_select {inp : RunInput} {s : Sys} {n : Name} {nd : Node} (h : Inv19 inp s) (h3 : Inv3 inp s)
    (haw : awaiting s) (hsu : s.susp = some (.node n)) (hn : s.nodes n = some nd)
    (hne : selDecision inp n nd ≠ .assertFail) : Inv19 inp (applySel inp s n nd (selDecision inp n nd)) := by
  have hstat := selDecision_status hne
  have hstn : stOf s n = nd.status := by simp [stOf, hn]
  have hgo : cGo s n = 0 := h3.z haw n hsu
  have hstart : cStart s n = 0 := by have := h3.j n; omega
  have hterm : cTerm s n = 0 := h3.t n (by rw [hstn]; rcases hstat with a | a <;> rw [a] <;> rfl)
  have hexec : cExec s n = 0 := by have := h.ex n; split at this <;> omega
  generalize hd : selDecision inp n nd = d at hne ⊢
  have hev := applySel_events inp s n nd d
  have hst := stOf_applySel inp s n nd d hne
  have hsn := selStatus_ne_none hne
  -- facts about the events older than the report
  have P1 : (statusEv nd n ++ s.events).any (Ev.isGetStatusOf n) = true := by
    rcases hstat with a | a
    · simp [statusEv, a, Ev.isGetStatusOf]
    · rw [List.any_append, any_gs_of_mem (h.g1 n (by rw [hstn, a]; simp))]; simp
  have P2 : (statusEv nd n ++ s.events).any (Ev.isTerminalOf n) = false := by
    rw [List.any_append, any_false_of_countP (show s.events.countP _ = 0 from hterm)]
    unfold statusEv; split <;> simp [Ev.isTerminalOf]
  have P3 : (statusEv nd n ++ s.events).any (Ev.isStartOf n) = false := by
    rw [List.any_append, any_false_of_countP (show s.events.countP _ = 0 from hstart)]
    unfold statusEv; split <;> simp [Ev.isStartOf]
  have P4 : (statusEv nd n ++ s.events).any (Ev.isExecOf n) = false := by
    rw [List.any_append, any_false_of_countP (show s.events.countP _ = 0 from hexec)]
    unfold statusEv; split <;> simp [Ev.isExecOf]
  have P5 : repOrd (exOf inp) false (fun _ => false) (statusEv nd n ++ s.events) = true := by
    rcases hstat with a | a
    · have : (s.events.any (Ev.touches n)) = false := any_touch_false (h.g0 n (by rw [hstn, a]))
      simp [statusEv, a, repOrd, repOK, this, h.ord]
    · simp [statusEv, a, h.ord]
  constructor
  · rw [hev]; exact applySel_final inp s n nd d h.fin
  · intro x hx; rw [hst] at hx; rw [hev]
    by_cases e : x = n
    · subst e; simp only [if_true] at hx
      cases d <;> simp [selStatus] at hx <;>
        first | (refine ⟨.unmet, ?_⟩; simp [selEvents]; done) | (refine ⟨.depErr, ?_⟩; simp [selEvents]; done)
    · simp only [e, if_false] at hx
      obtain ⟨k, hk⟩ := h.fl x hx; exact ⟨k, List.mem_append_right _ hk⟩
  · intro x hx; rw [hst] at hx; rw [hev]
    by_cases e : x = n
    · subst e; simp only [if_true] at hx
      cases d <;> simp [selStatus] at hx <;> simp [selEvents]
    · simp only [e, if_false] at hx
      exact List.mem_append_right _ (h.ig x hx)
  · intro x hx; rw [hst] at hx
    by_cases e : x = n
    · subst e; simp only [if_true] at hx; exact absurd hx hsn
    · simp only [e, if_false] at hx
      intro ev hm; rw [hev] at hm
      rcases List.mem_append.mp hm with a | a
      · exact selEvents_touches inp n nd d x e ev a
      · exact h.g0 x hx ev a
  · intro x hx; rw [hst] at hx; rw [hev]
    by_cases e : x = n
    · subst e
      have := List.any_eq_true.mp P1
      obtain ⟨ev, hm, hp⟩ := this
      have : ev = Ev.getStatus x := by cases ev <;> simp [Ev.isGetStatusOf] at hp <;> simp [hp]
      subst this
      have hsub : ∀ e ∈ statusEv nd x ++ s.events, e ∈ selEvents inp x nd d ++ s.events := by
        intro e he; rcases List.mem_append.mp he with a | a
        · apply List.mem_append_left; cases d <;> simp [selEvents, a] at hne ⊢
        · exact List.mem_append_right _ a
      exact hsub _ hm
    · simp only [e, if_false] at hx
      exact List.mem_append_right _ (h.g1 x hx)
  · intro x
    have := h.ex x
    simp only [cExec, cStart, hev, List.countP_append, selEvents_exec, (selEvents_counts inp n nd d x).start] at this ⊢
    simpa using this
  · rw [hev]
    cases d <;> simp [selEvents, repOrd, repOK, firstFinal, P1, P2, P3, P4, P5] at hne ⊢
  · intro x hx
    have c := counts_append hev x
    have sc := selEvents_counts inp n nd d x
    rw [c.2.1, sc.start] at hx
    by_cases e : x = n
    · subst e; omega
    · rcases h.st x (by omega) with a | a
      · left; rw [hst]; simp only [e, if_false]; exact a
      · right; rw [c.2.2.2]; omega
  · rw [hev]
    have T5 : truthLiteOrd inp (statusEv nd n ++ s.events) = true := by
      unfold statusEv; split <;> simp [truthLiteOrd, truthLite, h.tl]
    cases d with
    | utd => obtain ⟨a, b⟩ := selDecision_utd hd; simp [selEvents, truthLiteOrd, truthLite, T5, a, b]
    | depErr => have a := selDecision_depErr hd; simp [selEvents, truthLiteOrd, truthLite, T5, P3, a]
    | argsErr => have a := selDecision_argsErr hd; simp [selEvents, truthLiteOrd, truthLite, T5, P3, a]
    | skipIgn => simp [selEvents, truthLiteOrd, truthLite, T5]
    | unmet => simp [selEvents, truthLiteOrd, truthLite, T5]
    | runFirst => simp [selEvents, truthLiteOrd, truthLite, T5]
    | go => simp [selEvents, truthLiteOrd, truthLite, T5]
    | assertFail => exact absurd rfl hne

/-! ### `execute_task`: the start of the actions -/

theorem exOf_true {inp : RunInput} (h : inp.runner ≠ .process) : exOf inp = true := by
  unfold exOf; cases hr : inp.runner <;> simp_all

theorem exOf_false {inp : RunInput} (h : inp.runner = .process) : exOf inp = false := by
  unfold exOf; simp [h]

/-- the actions of `n` start (on worker `w`): `n` was selected (`run`) and has not started before -/
theorem inv19_start {inp : RunInput} {s s' : Sys} {n w : Nat} (h : Inv19 inp s) (hrun : stOf s n = .run)
    (hstart : cStart s n = 0) (hterm : cTerm s n = 0)
    (hev : s'.events = (if inp.runner = .process then [Ev.start n w] else [Ev.start n w, Ev.execute n]) ++ s.events)
    (hst : ∀ x, stOf s' x = stOf s x) (hf : s'.final = s.final) : Inv19 inp s' := by
  have hexec : cExec s n = 0 := by have := h.ex n; split at this <;> omega
  have hsub : ∀ e ∈ s.events, e ∈ s'.events := fun e he => by rw [hev]; exact List.mem_append_right _ he
  have hnew : ∀ x, x ≠ n → ∀ e ∈ (if inp.runner = .process then [Ev.start n w] else [Ev.start n w, Ev.execute n]),
      Ev.touches x e = false := by
    intro x hx e he
    have hx' : ¬ n = x := fun a => hx a.symm
    split at he <;> simp at he
    · subst he; simp [Ev.touches, hx']
    · rcases he with he | he <;> (subst he; simp [Ev.touches, hx'])
  constructor
  · rw [hf, hev, h.fin]; split <;> simp [finalEv]
  · intro x hx; rw [hst] at hx; obtain ⟨k, hk⟩ := h.fl x hx; exact ⟨k, hsub _ hk⟩
  · intro x hx; rw [hst] at hx; exact hsub _ (h.ig x hx)
  · intro x hx; rw [hst] at hx
    have hxn : x ≠ n := by intro e; subst e; rw [hrun] at hx; cases hx
    intro e he; rw [hev] at he
    rcases List.mem_append.mp he with a | a
    · exact hnew x hxn e a
    · exact h.g0 x hx e a
  · intro x hx; rw [hst] at hx; exact hsub _ (h.g1 x hx)
  · intro x
    have := h.ex x
    by_cases hp : inp.runner = .process
    · simp only [cExec, cStart, hev, hp, if_true, List.countP_append] at this ⊢
      simp [List.countP_cons, Ev.isExecOf, this]
    · simp only [cExec, cStart, hev, hp, if_false, List.countP_append] at this ⊢
      simp [List.countP_cons, Ev.isExecOf, Ev.isStartOf, this]
  · rw [hev]
    by_cases hp : inp.runner = .process
    · have ho' := h.ord; rw [exOf_false hp] at ho'
      simp [hp, repOrd, repOK, exOf_false hp, ho']
    · have ho' := h.ord; rw [exOf_true hp] at ho'
      have P1 := any_gs_of_mem (h.g1 n (by rw [hrun]; simp))
      have P2 := any_false_of_countP (show s.events.countP (Ev.isTerminalOf n) = 0 from hterm)
      have P4 := any_false_of_countP (show s.events.countP (Ev.isExecOf n) = 0 from hexec)
      simp [hp, repOrd, repOK, firstFinal, exOf_true hp, ho', P1, P2, P4, Ev.isExecOf]
  · intro x hx
    by_cases e : x = n
    · subst e; left; rw [hst]; exact hrun
    · have hx' : ¬ n = x := fun a => e a.symm
      have h1 : cStart s' x = cStart s x := by
        simp only [cStart, hev, List.countP_append]
        split <;> simp [List.countP_cons, Ev.isStartOf, hx']
      have h2 : cTerm s' x = cTerm s x := by
        simp only [cTerm, hev, List.countP_append]
        split <;> simp [List.countP_cons, Ev.isTerminalOf]
      rw [h1] at hx; rw [hst, h2]; exact h.st x hx
  · rw [hev]; split <;> simp [truthLiteOrd, truthLite, h.tl]

/-- the actions of `n` end -/
theorem inv19_fin {inp : RunInput} {s s' : Sys} {n w : Nat} (h : Inv19 inp s) (hrun : stOf s n = .run)
    (hstart : cStart s n ≥ 1) (hev : s'.events = Ev.fin n w :: s.events)
    (hst : ∀ x, stOf s' x = stOf s x) (hf : s'.final = s.final) : Inv19 inp s' := by
  have hsub : ∀ e ∈ s.events, e ∈ s'.events := fun e he => by rw [hev]; exact List.mem_cons_of_mem _ he
  constructor
  · rw [hf, hev, h.fin]; simp [finalEv]
  · intro x hx; rw [hst] at hx; obtain ⟨k, hk⟩ := h.fl x hx; exact ⟨k, hsub _ hk⟩
  · intro x hx; rw [hst] at hx; exact hsub _ (h.ig x hx)
  · intro x hx; rw [hst] at hx
    have hxn : ¬ n = x := by intro e; subst e; rw [hrun] at hx; cases hx
    intro e he; rw [hev] at he
    rcases List.mem_cons.mp he with a | a
    · subst a; simp [Ev.touches, hxn]
    · exact h.g0 x hx e a
  · intro x hx; rw [hst] at hx; exact hsub _ (h.g1 x hx)
  · intro x
    have := h.ex x
    simp only [cExec, cStart, hev, List.countP_cons] at this ⊢
    simpa [Ev.isExecOf, Ev.isStartOf] using this
  · rw [hev]
    have P := any_true_of_countP (show s.events.countP (Ev.isStartOf n) ≥ 1 from hstart)
    simp [repOrd, repOK, P, h.ord]
  · intro x hx
    have h1 : cStart s' x = cStart s x := by simp [cStart, hev, List.countP_cons, Ev.isStartOf]
    have h2 : cTerm s' x = cTerm s x := by simp [cTerm, hev, List.countP_cons, Ev.isTerminalOf]
    rw [h1] at hx; rw [hst, h2]; exact h.st x hx
  · rw [hev]; simp [truthLiteOrd, truthLite, h.tl]

/-! ### `process_task_result` -/

theorem processResult_final (inp : RunInput) (s : Sys) (n : Name) (nd : Node) (h : s.final = finalEv s.events) :
    (processResult inp s n nd).final = finalEv (resEvents n (inp.outcome n) ++ s.events) := by
  unfold processResult; cases inp.outcome n <;> simp [failNode, setNode, resEvents, finalEv, h]

theorem inv19_result {inp : RunInput} {s : Sys} {n : Name} {nd : Node} (h : Inv19 inp s) (hn : s.nodes n = some nd)
    (hrun : nd.status = .run) (hterm : cTerm s n = 0) (hfin : cFin s n ≥ 1) (hstart : cStart s n ≥ 1) :
    Inv19 inp (processResult inp s n nd) := by
  have hstn : stOf s n = .run := by simp [stOf, hn, hrun]
  have hev := processResult_events inp s n nd
  have hst := stOf_processResult inp s n nd
  have hsub : ∀ e ∈ s.events, e ∈ (processResult inp s n nd).events :=
    fun e he => by rw [hev]; exact List.mem_append_right _ he
  constructor
  · rw [hev]; exact processResult_final inp s n nd h.fin
  · intro x hx; rw [hst] at hx
    by_cases e : x = n
    · subst e; rw [hev]
      cases ho : inp.outcome x <;> simp [ho, resStatus] at hx
      · exact ⟨.failed, by simp [resEvents]⟩
      · exact ⟨.error, by simp [resEvents]⟩
      · exact ⟨.depErr, by simp [resEvents]⟩
    · simp only [e, if_false] at hx; obtain ⟨k, hk⟩ := h.fl x hx; exact ⟨k, hsub _ hk⟩
  · intro x hx; rw [hst] at hx
    by_cases e : x = n
    · subst e; cases ho : inp.outcome x <;> simp [ho, resStatus] at hx
    · simp only [e, if_false] at hx; exact hsub _ (h.ig x hx)
  · intro x hx; rw [hst] at hx
    by_cases e : x = n
    · subst e; cases ho : inp.outcome x <;> simp [ho, resStatus] at hx
    · simp only [e, if_false] at hx
      have e' : ¬ n = x := fun a => e a.symm
      intro ev hm; rw [hev] at hm
      rcases List.mem_append.mp hm with a | a
      · cases ho : inp.outcome n <;> simp [ho, resEvents] at a <;> (subst a; simp [Ev.touches, e'])
      · exact h.g0 x hx ev a
  · intro x hx
    by_cases e : x = n
    · subst e; exact hsub _ (h.g1 x (by rw [hstn]; simp))
    · rw [hst] at hx; simp only [e, if_false] at hx; exact hsub _ (h.g1 x hx)
  · intro x
    have := h.ex x
    simp only [cExec, cStart, hev, List.countP_append] at this ⊢
    cases ho : inp.outcome n <;> simpa [resEvents, List.countP_cons, Ev.isExecOf, Ev.isStartOf] using this
  · rw [hev]
    have P1 := any_gs_of_mem (h.g1 n (by rw [hstn]; simp))
    have P2 := any_false_of_countP (show s.events.countP (Ev.isTerminalOf n) = 0 from hterm)
    have P3 := any_true_of_countP (show s.events.countP (Ev.isFinOf n) ≥ 1 from hfin)
    have P4 : exOf inp = true → s.events.any (Ev.isExecOf n) = true := by
      intro hx
      have hp : inp.runner ≠ .process := by intro a; rw [exOf_false a] at hx; cases hx
      have := h.ex n; simp only [hp, if_false] at this
      exact any_true_of_countP (show s.events.countP (Ev.isExecOf n) ≥ 1 by unfold cExec cStart at *; omega)
    have ho' := h.ord
    cases hxo : exOf inp
    · rw [hxo] at ho'
      cases ho : inp.outcome n <;> simp [resEvents, repOrd, repOK, firstFinal, P1, P2, P3, ho']
    · have P4' := P4 hxo
      rw [hxo] at ho'
      cases ho : inp.outcome n <;> simp [resEvents, repOrd, repOK, firstFinal, P1, P2, P3, P4', ho']
  · intro x hx
    have c := counts_append hev x
    have rc := resEvents_counts n (inp.outcome n) x
    rw [c.2.1, rc.start] at hx
    by_cases e : x = n
    · subst e; right; rw [c.2.2.2, rc.term]; simp
    · have e' : ¬ n = x := fun a => e a.symm
      rcases h.st x (by omega) with a | a
      · left; rw [hst]; simp only [e, if_false]; exact a
      · right; rw [c.2.2.2]; omega
  · rw [hev]
    have P3' : s.events.any (Ev.isStartOf n) = true :=
      any_true_of_countP (show s.events.countP (Ev.isStartOf n) ≥ 1 from hstart)
    cases ho : inp.outcome n <;> simp [resEvents, truthLiteOrd, truthLite, h.tl, P3', ho]

/-! ### `Runner.finish` -/

theorem finalEv_teardown (l : List Name) (evs : List Ev) : finalEv (l.map Ev.teardown ++ evs) = finalEv evs := by
  induction l with
  | nil => rfl
  | cons a l ih => simpa [finalEv] using ih

theorem truthLiteOrd_teardown (inp : RunInput) (l : List Name) (evs : List Ev) (h : truthLiteOrd inp evs = true) :
    truthLiteOrd inp (l.map Ev.teardown ++ evs) = true := by
  induction l with
  | nil => exact h
  | cons x l ih => simpa [truthLiteOrd, truthLite] using ih

theorem repOrd_teardown (a b : Bool) (f : Name → Bool) (l : List Name) (evs : List Ev) (h : repOrd a b f evs = true) :
    repOrd a b f (l.map Ev.teardown ++ evs) = true := by
  induction l with
  | nil => exact h
  | cons x l ih => simpa [repOrd, repOK] using ih

theorem inv19_finishRun {inp : RunInput} {s : Sys} (h : Inv19 inp s) : Inv19 inp (finishRun s) := by
  have hev : (finishRun s).events = Ev.complete :: (s.tdown.map Ev.teardown ++ s.events) := rfl
  have hst : ∀ x, stOf (finishRun s) x = stOf s x := fun _ => rfl
  have hsub : ∀ e ∈ s.events, e ∈ (finishRun s).events :=
    fun e he => by rw [hev]; exact List.mem_cons_of_mem _ (List.mem_append_right _ he)
  have hcnt : ∀ p : Ev → Bool, p .complete = false → (∀ t, p (.teardown t) = false) →
      (finishRun s).events.countP p = s.events.countP p := by
    intro p h1 h2
    rw [hev, List.countP_cons, List.countP_append]
    have : (s.tdown.map Ev.teardown).countP p = 0 := by
      rw [List.countP_eq_zero]; intro e he
      obtain ⟨t, _, rfl⟩ := List.mem_map.mp he
      simp [h2 t]
    simp [h1, this]
  constructor
  · show s.final = _
    rw [hev]; simp only [finalEv]; rw [finalEv_teardown]; exact h.fin
  · intro x hx; obtain ⟨k, hk⟩ := h.fl x hx; exact ⟨k, hsub _ hk⟩
  · intro x hx; exact hsub _ (h.ig x hx)
  · intro x hx e he; rw [hev] at he
    rcases List.mem_cons.mp he with a | a
    · subst a; rfl
    · rcases List.mem_append.mp a with b | b
      · obtain ⟨t, _, rfl⟩ := List.mem_map.mp b; rfl
      · exact h.g0 x hx e b
  · intro x hx; exact hsub _ (h.g1 x hx)
  · intro x
    have := h.ex x
    unfold cExec cStart at *
    rw [hcnt _ (by rfl) (by intro t; rfl), hcnt _ (by rfl) (by intro t; rfl)]; exact this
  · rw [hev]; simp only [repOrd, repOK, Bool.true_and]
    exact repOrd_teardown _ _ _ _ _ h.ord
  · intro x hx
    unfold cStart cTerm at *
    rw [hcnt _ (by rfl) (by intro t; rfl)] at hx
    rw [hcnt _ (by rfl) (by intro t; rfl)]
    exact h.st x hx
  · rw [hev]; simp only [truthLiteOrd, truthLite, Bool.true_and]
    exact truthLiteOrd_teardown _ _ _ h.tl

end DoitModel.Report
