import DoitModel.Proofs.OptValues
/-! M4: defaults, environment, command line — the value `parse` gives an option is the specification's -/
namespace DoitModel.Opt

theorem initParams_nd (st : List Opt) (p : Params) : (initParams st p).nd = p.nd := by
  induction st generalizing p with
  | nil => rfl
  | cons a r ih => simp [initParams, ih, Params.setDefault]

theorem initParams_other (st : List Opt) (p : Params) (n : Str) (h : n ∉ st.map (·.name)) :
    (initParams st p).vals n = p.vals n := by
  induction st generalizing p with
  | nil => rfl
  | cons a r ih =>
    simp only [List.map_cons, List.mem_cons, not_or] at h
    simp [initParams, ih _ h.2, Params.setDefault, h.1]

theorem initParams_vals (st : List Opt) (hnd : (st.map (·.name)).Nodup) (p : Params) (o : Opt) (ho : o ∈ st) :
    (initParams st p).vals o.name = some o.default := by
  induction st generalizing p with
  | nil => cases ho
  | cons a r ih =>
    simp only [List.map_cons, List.nodup_cons] at hnd
    rcases List.mem_cons.mp ho with e | m
    · subst e; simp [initParams, initParams_other r _ _ hnd.1, Params.setDefault]
    · simp [initParams, ih hnd.2 _ m]

theorem applyEnv_other (env) (st : List Opt) (p p' : Params) (n : Str) (h : n ∉ st.map (·.name))
    (he : applyEnv env st p = .ok p') : p'.vals n = p.vals n ∧ p'.nd n = p.nd n := by
  induction st generalizing p with
  | nil => simp [applyEnv] at he; subst he; exact ⟨rfl, rfl⟩
  | cons a r ih =>
    simp only [List.map_cons, List.mem_cons, not_or] at h
    unfold applyEnv at he
    split at he
    · exact ih _ h.2 he
    · split at he
      · cases he
      · have := ih _ h.2 he
        simpa [Params.set, h.1] using this

/-- the environment, seen from one option -/
theorem applyEnv_effect (env) (st : List Opt) (hnd : (st.map (·.name)).Nodup) (o : Opt) (ho : o ∈ st)
    (p p' : Params) (he : applyEnv env st p = .ok p') :
    match envOf env o with
    | some s => ∃ v, str2type o s = .ok v ∧ p'.vals o.name = some v ∧ p'.nd o.name = true
    | none => p'.vals o.name = p.vals o.name ∧ p'.nd o.name = p.nd o.name := by
  induction st generalizing p with
  | nil => cases ho
  | cons a r ih =>
    simp only [List.map_cons, List.nodup_cons] at hnd
    unfold applyEnv at he
    rcases List.mem_cons.mp ho with e | m
    · subst e
      unfold envOf
      split at he
      · next hn => rw [hn]; exact applyEnv_other env r _ _ _ hnd.1 he
      · next s hs =>
        rw [hs]
        split at he
        · cases he
        · next v hv =>
          have := applyEnv_other env r _ _ _ hnd.1 he
          exact ⟨v, hv, by simp [this.1, Params.set], by simp [this.2, Params.set]⟩
    · have hne : o.name ≠ a.name := by
        intro e; apply hnd.1; rw [← e]; exact List.mem_map_of_mem m
      split at he
      · exact ih hnd.2 m _ he
      · split at he
        · cases he
        · have := ih hnd.2 m _ he
          revert this
          cases envOf env o <;> simp [Params.set, hne]

/-! ### from the occurrence fold to the specification -/

/-- the command-line branch of `specValue`, given the value the option had before -/
def cmdValue (o : Opt) (base : Val) (occ : List (Bool × Str)) : Except Err Val :=
  match occ.getLast? with
  | none => .ok base
  | some (inv, v) =>
    match o.ty with
    | .bool => .ok (.b (!inv))
    | .list => listAfter base (occ.map (·.2))
    | .int => str2type o v
    | .str => str2type o v

theorem cmdValue_step (o : Opt) (base v1 : Val) (x y : Bool × Str) (rest : List (Bool × Str))
    (h : occStep o (some base) x = .ok v1) :
    cmdValue o base (x :: y :: rest) = cmdValue o v1 (y :: rest) := by
  unfold cmdValue
  rw [List.getLast?_cons_cons]
  cases hl : (y :: rest).getLast? with
  | none => simp at hl
  | some last =>
    obtain ⟨inv, v⟩ := last
    simp only
    unfold occStep at h
    cases hty : o.ty <;> simp only [hty] at h ⊢
    cases base <;> simp at h
    subst h
    simp [listAfter]

theorem occResult_cmdValue (o : Opt) (base : Val) (occ : List (Bool × Str)) (r : Option Val)
    (h : occResult o (some base) occ = .ok r) : ∃ v, r = some v ∧ cmdValue o base occ = .ok v := by
  induction occ generalizing base with
  | nil =>
    have e : occResult o (some base) [] = .ok (some base) := rfl
    rw [e] at h; injection h with h
    exact ⟨base, h.symm, rfl⟩
  | cons x rest ih =>
    simp only [occResult] at h
    cases hv : occStep o (some base) x with
    | error e => simp [hv] at h
    | ok v1 =>
      simp only [hv] at h
      cases rest with
      | nil =>
        have e : occResult o (some v1) [] = .ok (some v1) := rfl
        rw [e] at h; injection h with h
        refine ⟨v1, h.symm, ?_⟩
        unfold occStep at hv
        unfold cmdValue
        obtain ⟨inv, v⟩ := x
        simp only [List.getLast?_singleton]
        cases hty : o.ty <;> simp only [hty] at hv ⊢ <;> try exact hv
        cases base <;> simp at hv
        subst hv
        simp [listAfter]
      | cons y rest' =>
        obtain ⟨v, hr, hc⟩ := ih v1 h
        exact ⟨v, hr, by rw [cmdValue_step o base v1 x y rest' hv]; exact hc⟩

/-- `specValue` in terms of the value before the command line -/
theorem specValue_cmd (o : Opt) (occ : List (Bool × Str)) (envv : Option Str) (dodov : Option Val)
    (iniv : Option CfgVal) (base : Val) (hb : baseValue o envv iniv = .ok base) (hne : occ ≠ []) :
    specValue o occ envv dodov iniv = cmdValue o base occ := by
  unfold specValue cmdValue
  cases hl : occ.getLast? with
  | none => simp [List.getLast?_eq_none_iff] at hl; exact absurd hl hne
  | some last =>
    obtain ⟨inv, v⟩ := last
    simp only [hb]
    cases o.ty <;> rfl

/-- **value of one option after `parse`** (no config layer yet): the specification with the declared default -/
theorem parse_value (st : PState) (hnd : (st.map (·.name)).Nodup) (env : Str → Option Str) (argv : List Str)
    (p : Params) (pos : List Str) (h : (parse false st env argv).2 = .ok (p, pos)) (o : Opt) (ho : o ∈ st) :
    ∃ ps, getopt st argv = .ok (ps, pos) ∧
      ∃ v, specValue o (occurrences st o ps) (envOf env o) none none = .ok v ∧ p.vals o.name = some v ∧
        p.nd o.name = ((envOf env o).isSome || !(occurrences st o ps).isEmpty) := by
  unfold parse at h
  cases he : applyEnv env st (initParams st Params.empty) with
  | error e => simp [he] at h
  | ok p0 =>
    simp only [he] at h
    unfold parseOnly at h
    cases hg : getopt st argv with
    | error e => simp [hg] at h
    | ok r =>
      obtain ⟨ps, pos'⟩ := r
      simp only [hg] at h
      generalize hap : applyPairs false ps st p0 = ar at h
      obtain ⟨st', res⟩ := ar
      cases res with
      | error e => simp [withPos] at h
      | ok p1 =>
        simp only [withPos] at h
        injection h with h; injection h with h1 h2
        subst h1; subst h2
        refine ⟨ps, rfl, ?_⟩
        have hap' : (applyPairs false ps st p0).2 = .ok p1 := by rw [hap]
        obtain ⟨hr, hndv⟩ := applyPairs_effect st hnd o ho ps p0 p1 hap'
        have henv := applyEnv_effect env st hnd o ho _ p0 he
        have hinit := initParams_vals st hnd Params.empty o ho
        have hinitnd : (initParams st Params.empty).nd o.name = false := by rw [initParams_nd]; rfl
        cases hev : envOf env o with
        | some s =>
          simp only [hev] at henv
          obtain ⟨bv, hbv, hv0, hnd0⟩ := henv
          rw [hv0] at hr
          obtain ⟨v, hv, hcv⟩ := occResult_cmdValue o bv _ _ hr
          refine ⟨v, ?_, hv, by simp [hndv, hnd0]⟩
          cases hocc : occurrences st o ps with
          | nil => simp [specValue, hbv]; simp [hocc, cmdValue] at hcv; exact hcv
          | cons x xs =>
            rw [← hocc, specValue_cmd o _ (some s) none none bv (by simp [baseValue, hbv]) (by simp [hocc])]
            exact hcv
        | none =>
          simp only [hev] at henv
          rw [henv.1, hinit] at hr
          obtain ⟨v, hv, hcv⟩ := occResult_cmdValue o o.default _ _ hr
          refine ⟨v, ?_, hv, by simp [hndv, henv.2, hinitnd]⟩
          cases hocc : occurrences st o ps with
          | nil => simp [specValue, baseValue]; simp [hocc, cmdValue] at hcv; exact hcv
          | cons x xs =>
            rw [← hocc, specValue_cmd o _ none none none o.default (by simp [baseValue]) (by simp [hocc])]
            exact hcv

end DoitModel.Opt
