import DoitModel.Proofs.LoadTotal
/-! what an accepted load implies about every creator result and every task dictionary -/
namespace DoitModel.Load

/-- every field other than `name`/`basename` (and other than the keys in `skip`) is a known attribute whose value
    passes `Task.check_attr` against `Task.valid_attr` -/
def FieldsValid (d : TDict) (skipActions : Bool) : Prop :=
  ∀ p ∈ d, p.1 ≠ .name → p.1 ≠ .basename → (skipActions = true → p.1 ≠ .actions) →
    ∃ s, validAttr p.1 = some s ∧ checkAttr (effective p.1 p.2) s = true

theorem dictToTask_fields (d' : TDict) (t : Task) (h : dictToTask d' = .ok t) (p : Attr × RawVal) (hp : p ∈ d') :
    ∃ s, validAttr p.1 = some s ∧ checkAttr (effective p.1 p.2) s = true := by
  obtain ⟨_, _, hi⟩ := dictToTask_ok d' t h
  exact checkAll_mem d' (initTask_ok d' t hi).1 p hp

theorem fieldsValid_named (d : TDict) (v : RawVal) (t : Task)
    (h : dictToTask (put (del d .basename) .name v) = .ok t) : FieldsValid d false := by
  intro p hp hn hb _
  apply dictToTask_fields _ t h p
  rw [mem_put, mem_del]
  exact Or.inl ⟨⟨hp, hb⟩, hn⟩

theorem fieldsValid_group (d : TDict) (v w : RawVal) (t : Task)
    (h : dictToTask (put (put (del d .basename) .name v) .actions w) = .ok t) : FieldsValid d true := by
  intro p hp hn hb ha
  apply dictToTask_fields _ t h p
  rw [mem_put, mem_put, mem_del]
  exact Or.inl ⟨Or.inl ⟨⟨hp, hb⟩, hn⟩, ha rfl⟩

/-- the name `dict_to_task` was given is a string -/
theorem dictToTask_name (d' : TDict) (t : Task) (h : dictToTask d' = .ok t) : get d' .name = some (.str t.name) := by
  obtain ⟨_, _, hi⟩ := dictToTask_ok d' t h
  obtain ⟨_, nm, ga, hn, _, _, ht⟩ := initTask_ok d' t hi
  rw [ht]; exact hn

theorem actions_named (d : TDict) (v : RawVal) (t : Task)
    (h : dictToTask (put (del d .basename) .name v) = .ok t) : (get d .actions).isSome = true := by
  have := (dictToTask_ok _ t h).1
  rwa [get_put_ne _ _ _ _ (by decide), get_del_ne _ _ _ (by decide)] at this

/-- a returned dict that is accepted: no `name`, has `actions`, a string `basename` if any, valid fields -/
theorem fromReturn_ok (fn : Name) (d : TDict) (t : Task) (h : fromReturn fn d = .ok t) :
    get d .name = none ∧ (get d .actions).isSome = true ∧ FieldsValid d false ∧
    (∀ v, get d .basename = some v → v = .str t.name) ∧ (get d .basename = none → t.name = fn) := by
  unfold fromReturn at h
  split at h
  · simp at h
  · rename_i hn
    have hname := dictToTask_name _ t h
    rw [get_put_self] at hname
    refine ⟨by cases hq : get d .name <;> simp_all, actions_named d _ t h, fieldsValid_named d _ t h, ?_, ?_⟩
    · intro v hv
      rw [hv] at hname
      simpa using hname
    · intro hv
      rw [hv] at hname
      simp at hname
      exact hname.symm

/-- a yielded dict that is accepted -/
theorem yieldDict_ok (tasks r : Tasks) (fn : Name) (d : TDict) (nf bf : Name)
    (h : yieldDict tasks fn d nf bf = .ok r) :
    -- has `name` or a (truthy) `basename`
    (get (del d .basename) .name ≠ none ∨ (bnOf d).truthy = true) ∧
    -- has `actions` unless it carries the group's attributes
    ((get d .actions).isSome = true ∨ get (del d .basename) .name = some .none) ∧
    FieldsValid d (get (del d .basename) .name == some .none) ∧ basenameOk d = true := by
  unfold yieldDict at h
  split at h
  · simp at h
  rename_i hbok
  have hbok' : basenameOk d = true := by simpa using hbok
  suffices hmain : (get (del d .basename) .name ≠ none ∨ (bnOf d).truthy = true) ∧
      ((get d .actions).isSome = true ∨ get (del d .basename) .name = some .none) ∧
      FieldsValid d (get (del d .basename) .name == some .none) from ⟨hmain.1, hmain.2.1, hmain.2.2, hbok'⟩
  unfold yieldDictPinned at h
  split at h
  · rename_i nv hnv
    refine ⟨Or.inl (by simp [hnv]), ?_⟩
    split at h
    · rename_i hnone
      subst hnone
      unfold yieldGroupAttrs at h
      split at h
      · simp at h
      · rename_i g hd
        refine ⟨Or.inr hnv, ?_⟩
        rw [hnv]
        simpa using fieldsValid_group d _ _ g hd
    · rename_i hnone
      unfold yieldSub at h
      split at h
      · simp at h
      · split at h
        · simp at h
        · rename_i sub hd
          refine ⟨Or.inl (actions_named d _ sub hd), ?_⟩
          rw [hnv]
          have : (some nv == some RawVal.none) = false := by simpa using hnone
          rw [this]
          exact fieldsValid_named d _ sub hd
  · rename_i hnv
    unfold yieldPlain at h
    split at h
    · simp at h
    · rename_i ht
      refine ⟨Or.inr (by simpa using ht), ?_⟩
      rw [hnv]
      have hf : (none == some RawVal.none) = false := by decide
      rw [hf]
      split at h
      · simp at h
      · split at h
        · split at h
          · simp at h
          · split at h
            · simp at h
            · rename_i t hd
              exact ⟨Or.inl (actions_named d _ t hd), fieldsValid_named d _ t hd⟩
        · split at h
          · simp at h
          · rename_i t hd
            exact ⟨Or.inl (actions_named d _ t hd), fieldsValid_named d _ t hd⟩

theorem yieldAll_ok_mem (fn : Name) (ys : List Yielded) (tasks r : Tasks) (h : yieldAll fn tasks ys = .ok r) :
    ∀ y ∈ ys, ∃ tk r', yieldOne fn tk y = .ok r' := by
  induction ys generalizing tasks with
  | nil => simp
  | cons y rest ih =>
    unfold yieldAll at h
    split at h
    · simp at h
    · rename_i tasks' hy
      intro y' hy'
      rcases List.mem_cons.mp hy' with rfl | hm
      · exact ⟨tasks, tasks', hy⟩
      · exact ih tasks' h y' hm

/-- what an accepted creator result looks like -/
def ResultValid (fn : Name) : Result → Prop
  | .dict d => get d .name = none ∧ (get d .actions).isSome = true ∧ FieldsValid d false ∧
      (∀ v, get d .basename = some v → ∃ s, v = .str s)
  | .gen items => ∀ y ∈ Gen.flattenList items, y ≠ .other ∧ ∀ d nf bf, y = .dict d nf bf →
      (get (del d .basename) .name ≠ none ∨ (bnOf d).truthy = true) ∧
      ((get d .actions).isSome = true ∨ get (del d .basename) .name = some .none) ∧
      FieldsValid d (get (del d .basename) .name == some .none) ∧ basenameOk d = true
  | .other => False
  | _ => True

theorem generate_ok (fn : Name) (r : Result) (ts : List Task) (h : generate fn r = .ok ts) : ResultValid fn r := by
  cases r with
  | task t => trivial
  | none => trivial
  | other => simp [generate] at h
  | dict d =>
    simp only [generate] at h
    split at h
    · simp at h
    · rename_i t hd
      obtain ⟨h1, h2, h3, h4, _⟩ := fromReturn_ok fn d t hd
      exact ⟨h1, h2, h3, fun v hv => ⟨t.name, h4 v hv⟩⟩
  | gen items =>
    simp only [generate] at h
    have key : ∀ r, yieldAll fn [] (Gen.flattenList items) = .ok r → ResultValid fn (.gen items) := by
      intro r hr y hy
      obtain ⟨tk, r', hone⟩ := yieldAll_ok_mem fn _ [] r hr y hy
      constructor
      · intro hy'; subst hy'; simp [yieldOne] at hone
      · intro d nf bf hy'; subst hy'
        exact yieldDict_ok tk r' fn d nf bf hone
    split at h
    · simp at h
    · rename_i hy; exact key _ hy
    · rename_i tasks hy; exact key _ hy

theorem generateAll_ok_mem (cmds : List Name) (cs : List Creator) (ts : List Task)
    (h : generateAll cmds cs = .ok ts) :
    ∀ c ∈ cs, ∃ r, generate c.name c.result = .ok r ∧ cmdClash cmds r = false ∧ ∀ t ∈ r, t ∈ ts := by
  induction cs generalizing ts with
  | nil => simp
  | cons c rest ih =>
    unfold generateAll at h
    split at h
    · simp at h
    · rename_i r hg
      split at h
      · simp at h
      · rename_i hclash
        split at h
        · simp at h
        · rename_i rest' hr
          cases h
          intro c' hc'
          rcases List.mem_cons.mp hc' with rfl | hm
          · exact ⟨r, hg, by simpa using hclash, fun t ht => by simp [ht]⟩
          · obtain ⟨r', hr', hcl', hsub⟩ := ih rest' hr c' hm
            exact ⟨r', hr', hcl', fun t ht => by simp [hsub t ht]⟩

/-- no loaded task other than a sub-task is named like a command -/
theorem generateAll_no_cmd (cmds : List Name) (cs : List Creator) (ts : List Task)
    (h : generateAll cmds cs = .ok ts) : ∀ t ∈ ts, t.subtaskOf = none → t.name ∉ cmds := by
  induction cs generalizing ts with
  | nil => simp [generateAll] at h; subst h; simp
  | cons c rest ih =>
    unfold generateAll at h
    split at h
    · simp at h
    · rename_i r hg
      split at h
      · simp at h
      · rename_i hclash
        split at h
        · simp at h
        · rename_i rest' hr
          cases h
          intro t ht hsub hin
          rcases List.mem_append.mp ht with h1 | h1
          · apply hclash
            simp only [cmdClash, List.any_eq_true, Bool.and_eq_true]
            exact ⟨t, h1, by simp [hsub], by simpa using hin⟩
          · exact ih rest' hr t h1 hsub hin

theorem loadTasks_ok (cmds : List Name) (cs : List Creator) (ts : List Task) (h : loadTasks cmds cs = .ok ts) :
    (∀ c ∈ cs, c.name ∉ cmds) ∧ generateAll cmds (sortByLine cs) = .ok ts := by
  unfold loadTasks at h
  split at h
  · simp at h
  · rename_i hc
    refine ⟨?_, h⟩
    intro c hcs hin
    apply hc
    simp only [List.any_eq_true]
    exact ⟨c, hcs, by simpa using hin⟩

theorem load_tasks_split (cmds : List Name) (cs : List Creator) (ts : List Task) (h : load cmds cs = .tasks ts) :
    ∃ ts0, loadTasks cmds cs = .ok ts0 ∧ control ts0 = .ok ts := by
  unfold load at h
  cases hl : loadTasks cmds cs with
  | error e => rw [hl] at h; cases e <;> simp [toOutcome] at h
  | ok ts0 =>
    rw [hl] at h
    simp only at h
    cases hc : control ts0 with
    | error e => rw [hc] at h; cases e <;> simp [toOutcome] at h
    | ok ts' =>
      rw [hc] at h
      simp only [toOutcome] at h
      cases h
      exact ⟨ts0, rfl, hc⟩

end DoitModel.Load
