import DoitModel.Proofs.C09Term2
/-! # C09 — termination, part 3: `send`, the serial runner, and the theorem -/
namespace DoitModel.Run

variable {inp : RunInput} {N : Nat}

/-! ### `_update_waiting` -/

theorem calOf_lt_aux (x wd : Node) (f : List Name)
    (h1 : cntNot N x.dynCalc + x.pendCalc.length ≤ cntNot N wd.dynCalc + wd.pendCalc.length)
    (e1 : x.pc = wd.pc) (e2 : x.snapCalc = wd.snapCalc) (e3 : x.waitRunCalc = f)
    (hlt : f.length < wd.waitRunCalc.length) : calOf N x < calOf N wd := by
  unfold calOf; rw [e1, e2, e3]; omega

theorem linNode_wait_aux (w : Name) (x wd : Node) (f : List Name) (e1 : x.pendTask = wd.pendTask)
    (e2 : x.pendCalc = wd.pendCalc) (e3 : x.pc = wd.pc) (e4 : x.snapTask = wd.snapTask)
    (e5 : x.snapCalc = wd.snapCalc) (e6 : x.waitRunCalc = wd.waitRunCalc) (e7 : x.waitSelect = wd.waitSelect)
    (e8 : x.waitRun = f) (hlt : f.length < wd.waitRun.length) : linNode inp w x + 5 ≤ linNode inp w wd := by
  unfold linNode todoOf; rw [e1, e2, e3, e4, e5, e6, e7, e8]; omega

theorem wokenNode_lt (hF : FiniteTable inp N) (pst : RS) (p w : Name) (wd : Node) (hnc : wakeCrash p wd = false) :
    calOf N (wokenNode inp pst p wd) < calOf N wd ∨
    (calOf N (wokenNode inp pst p wd) = calOf N wd ∧ linNode inp w (wokenNode inp pst p wd) + 5 ≤ linNode inp w wd) := by
  unfold wokenNode
  split
  · rename_i hc
    left
    have g := deliver_grow inp pst p { parentStatus pst p wd with
      waitRun := wd.waitRun.filter (· ≠ p), waitRunCalc := wd.waitRunCalc.filter (· ≠ p) }
    have hm := deliver_m2 hF pst p { parentStatus pst p wd with
      waitRun := wd.waitRun.filter (· ≠ p), waitRunCalc := wd.waitRunCalc.filter (· ≠ p) }
    have hlt : (wd.waitRunCalc.filter (· ≠ p)).length < wd.waitRunCalc.length :=
      List.length_filter_lt_length_iff_exists.mpr ⟨p, hc, by simp⟩
    exact calOf_lt_aux _ wd _ hm g.pc g.snapCalc g.waitRunCalc hlt
  · rename_i hc
    right
    have hw : p ∈ wd.waitRun := by
      unfold wakeCrash at hnc
      simp only [hc, not_false_eq_true, decide_true, Bool.and_true, decide_eq_false_iff_not, Decidable.not_not] at hnc
      exact hnc
    have hlt : (wd.waitRun.filter (· ≠ p)).length < wd.waitRun.length :=
      List.length_filter_lt_length_iff_exists.mpr ⟨p, hw, by simp⟩
    exact ⟨rfl, linNode_wait_aux w _ wd _ rfl rfl rfl rfl rfl rfl rfl rfl hlt⟩

theorem wokenF_lt (hF : FiniteTable inp N) (s : Sys) (pst : RS) (p w : Name) (wd : Node) (hnc : wakeCrash p wd = false) :
    calOf N (wokenF inp s pst p wd) < calOf N wd ∨
    (calOf N (wokenF inp s pst p wd) = calOf N wd ∧ linNode inp w (wokenF inp s pst p wd) + 5 ≤ linNode inp w wd) := by
  by_cases hc : p ∈ wd.waitRunCalc
  · left
    have h0 : calOf N (wokenNode inp pst p wd) < calOf N wd := by
      rcases wokenNode_lt hF pst p w wd hnc with a | ⟨_, b⟩
      · exact a
      · exfalso
        -- second alternative only when `p` is not an awaited calc_dep
        have hlt : (wd.waitRunCalc.filter (· ≠ p)).length < wd.waitRunCalc.length :=
          List.length_filter_lt_length_iff_exists.mpr ⟨p, hc, by simp⟩
        have g := deliver_grow inp pst p { parentStatus pst p wd with
          waitRun := wd.waitRun.filter (· ≠ p), waitRunCalc := wd.waitRunCalc.filter (· ≠ p) }
        have hm := deliver_m2 hF pst p { parentStatus pst p wd with
          waitRun := wd.waitRun.filter (· ≠ p), waitRunCalc := wd.waitRunCalc.filter (· ≠ p) }
        have := calOf_lt_aux _ wd _ hm g.pc g.snapCalc g.waitRunCalc hlt
        have e : wokenNode inp pst p wd = deliver inp pst p { parentStatus pst p wd with
          waitRun := wd.waitRun.filter (· ≠ p), waitRunCalc := wd.waitRunCalc.filter (· ≠ p) } := by
          unfold wokenNode; rw [if_pos hc]
        rename_i a
        rw [e] at a; omega
    have g := wokenF_grow inp s pst p wd
    have hm : m2Of N (wokenF inp s pst p wd) ≤ m2Of N (wokenNode inp pst p wd) := by
      unfold wokenF; rw [if_pos hc]; exact deliverF_m2 hF _ _ _ _
    have : calOf N (wokenF inp s pst p wd) ≤ calOf N (wokenNode inp pst p wd) := by
      unfold calOf; unfold m2Of at hm; rw [g.pc, g.snapCalc, g.waitRunCalc]; omega
    omega
  · rw [wokenF_same hc]; exact wokenNode_lt hF pst p w wd hnc

def Frame9 (s' s : Sys) : Prop := s'.toRun = s.toRun ∧ s'.cur = s.cur

theorem wakeOne_gle (hF : FiniteTable inp N) {s : Sys} {pst : RS} {p w : Name} {wd : Node} (hw : s.nodes w = some wd)
    (hN : w < N) (hnc : wakeCrash p wd = false) :
    GLe inp N (wakeOne inp s pst p w wd) s ∧ Frame9 (wakeOne inp s pst p w wd) s := by
  have hx := wokenF_lt hF s pst p w wd hnc
  unfold wakeOne
  split
  · refine ⟨gle_upd (x := wokenF inp s pst p wd) hw hN (SameM.of_nodes rfl) ?_, rfl, rfl⟩
    rcases hx with a | ⟨a, b⟩
    · exact Or.inl a
    · refine Or.inr ⟨a, ?_⟩
      simp only [List.length_append, List.length_singleton]
      omega
  · refine ⟨gle_upd (x := wokenF inp s pst p wd) hw hN (SameM.of_nodes rfl) ?_, rfl, rfl⟩
    rcases hx with a | ⟨a, b⟩
    · exact Or.inl a
    · exact Or.inr ⟨a, by simp only [setNode_ready]; omega⟩

theorem updateWaiting_gle (hF : FiniteTable inp N) {pst : RS} {p : Name} :
    ∀ (perm : List Name) (s s' : Sys), (∀ k y, s.nodes k = some y → k < N) →
      updateWaiting inp pst p s perm = some s' → GLe inp N s' s ∧ Frame9 s' s := by
  intro perm
  induction perm with
  | nil => intro s s' _ hs; simp only [updateWaiting] at hs; cases hs; exact ⟨GLe.refl _, rfl, rfl⟩
  | cons w ws ih =>
    intro s s' hb hs
    simp only [updateWaiting] at hs
    cases hw : s.nodes w with
    | none => simp only [hw] at hs; exact ih s s' hb hs
    | some wd =>
      simp only [hw] at hs
      split at hs
      · cases hs
      · rename_i hnc
        have hnc' : wakeCrash p wd = false := by simpa using hnc
        obtain ⟨g1, f1⟩ := wakeOne_gle (inp := inp) (pst := pst) hF hw (hb w wd hw) hnc'
        have hb2 : ∀ k y, (wakeOne inp s pst p w wd).nodes k = some y → k < N := by
          intro k y hk
          have : (wakeOne inp s pst p w wd).nodes = (setNode s w (wokenF inp s pst p wd)).nodes := by
            unfold wakeOne; split <;> rfl
          rw [this] at hk
          simp only [setNode_nodes] at hk
          split at hk
          · rename_i e; subst e; exact hb k wd hw
          · exact hb k y hk
        obtain ⟨g2, f2⟩ := ih _ s' hb2 hs
        exact ⟨g1.trans g2, f2.1.trans f1.1, f2.2.trans f1.2⟩

theorem sendHead_gle {s : Sys} {p : Name} {nd : Node} (hn : s.nodes p = some nd) (hN : p < N) :
    GLe inp N (sendHead s p nd) s ∧ Frame9 (sendHead s p nd) s := by
  unfold sendHead
  split
  · rename_i hws
    refine ⟨gle_upd (x := { nd with waitSelect := false }) hn hN (SameM.of_nodes rfl) (Or.inr ⟨rfl, ?_⟩), rfl, rfl⟩
    simp only [linNode, todoOf, hws, List.length_append, List.length_singleton]
    simp
    omega
  · exact ⟨⟨by simp [L1], Or.inr ⟨by simp [L2], by simp [linS]⟩⟩, rfl, rfl⟩

theorem sendHead_bound {s : Sys} {p : Name} {nd : Node} (hn : s.nodes p = some nd)
    (hb : ∀ k y, s.nodes k = some y → k < N) : ∀ k y, (sendHead s p nd).nodes k = some y → k < N := by
  intro k y hk
  unfold sendHead at hk
  split at hk
  · simp only [setNode] at hk
    split at hk
    · rename_i e; subst e; exact hb k nd hn
    · exact hb k y hk
  · exact hb k y hk

theorem send_gle (hF : FiniteTable inp N) {s s0 : Sys} {processed : Option Name} {perm : List Name}
    (hb : ∀ k y, s.nodes k = some y → k < N) (hs : send inp s processed perm = some s0) :
    GLe inp N s0 s ∧ Frame9 s0 s ∧ (s0.susp = none ∨ s0.susp = some .crash) := by
  have same : ∀ (o : Option DOut), GLe inp N { s with susp := o } s ∧ Frame9 { s with susp := o } s :=
    fun o => ⟨⟨by simp [L1], Or.inr ⟨by simp [L2], by simp [linS]⟩⟩, rfl, rfl⟩
  have wrap : ∀ (t : Sys) (o : Option DOut), GLe inp N t s ∧ Frame9 t s →
      GLe inp N { t with susp := o } s ∧ Frame9 { t with susp := o } s := by
    intro t o h
    exact ⟨⟨h.1.1, h.1.2⟩, h.2⟩
  unfold send at hs
  cases processed with
  | none => cases hs; exact ⟨(same none).1, (same none).2, Or.inl rfl⟩
  | some p =>
    simp only [] at hs
    cases hn : s.nodes p with
    | none => simp only [hn] at hs; cases hs; exact ⟨(same _).1, (same _).2, Or.inr rfl⟩
    | some nd =>
      simp only [hn] at hs
      have hN := hb p nd hn
      split at hs
      · cases hs; exact ⟨(same _).1, (same _).2, Or.inr rfl⟩
      · split at hs
        · cases hs
          have := wrap _ none (sendHead_gle (inp := inp) hn hN)
          exact ⟨this.1, this.2, Or.inl rfl⟩
        · split at hs
          · cases hu : updateWaiting inp nd.status p (sendHead s p nd) perm with
            | none =>
              simp only [hu] at hs; cases hs
              have := wrap _ (some .crash) (sendHead_gle (inp := inp) hn hN)
              exact ⟨this.1, this.2, Or.inr rfl⟩
            | some s2 =>
              simp only [hu] at hs; cases hs
              obtain ⟨g1, f1⟩ := sendHead_gle (inp := inp) (N := N) hn hN
              obtain ⟨g2, f2⟩ := updateWaiting_gle hF perm _ s2 (sendHead_bound hn hb) hu
              have := wrap s2 none ⟨g1.trans g2, f2.1.trans f1.1, f2.2.trans f1.2⟩
              exact ⟨this.1, this.2, Or.inl rfl⟩
          · cases hs

/-! ### the runner's status changes -/

theorem sameM_status {s s' : Sys} {n : Name} {nd : Node} (hn : s.nodes n = some nd) (st : RS)
    (e : s'.nodes = (setNode s n { nd with status := st }).nodes) : SameM inp N s' s := by
  refine (SameM.of_nodes e).trans ⟨?_, ?_, ?_⟩
  · apply cntNone_congr
    intro k; simp only [setNode_nodes]
    by_cases e : k = n
    · subst e; simp [hn]
    · simp [e]
  · apply sumF_congr
    intro k; simp only [setNode_nodes]
    by_cases e : k = n
    · subst e; simp [hn, calOf]
    · simp [e]
  · apply sumF_congr
    intro k; simp only [setNode_nodes]
    by_cases e : k = n
    · subst e; simp [hn, linNode, todoOf]
    · simp [e]

theorem mlt_sameM {s s' : Sys} (hm : SameM inp N s' s) (h : restOf s' < restOf s) : MLt inp N s' s := by
  obtain ⟨m1, m2, m3⟩ := hm
  right; refine ⟨m1, Or.inr ⟨m2, by omega⟩⟩

theorem applySel_rest (s : Sys) (n : Name) (nd : Node) (d : Sel) :
    (applySel inp s n nd d).ready = s.ready ∧ (applySel inp s n nd d).toRun = s.toRun ∧
    (applySel inp s n nd d).cur = s.cur ∧ (applySel inp s n nd d).susp = s.susp := by
  cases d <;> simp [applySel, failNode, setNode]

theorem processResult_rest (s : Sys) (n : Name) (nd : Node) :
    (processResult inp s n nd).ready = s.ready ∧ (processResult inp s n nd).toRun = s.toRun ∧
    (processResult inp s n nd).cur = s.cur ∧ (processResult inp s n nd).susp = s.susp := by
  unfold processResult; cases inp.outcome n <;> simp [failNode, setNode]

/-! ### the serial runner -/

theorem serialStep_mlt (hF : FiniteTable inp N) {s s' : Sys} {perm : List Name}
    (hb : ∀ k y, s.nodes k = some y → k < N) (hb' : ∀ k y, s'.nodes k = some y → k < N)
    (hs : serialStep inp s perm = some s') : MLt inp N s' s := by
  unfold serialStep at hs
  cases hr : s.rpc with
  | sTop node =>
    simp only [hr] at hs
    split at hs
    · cases hs; exact mlt_same rfl (by simp [restOf, curW, hr, rOf])
    · cases hsd : send inp s node perm with
      | none => simp only [hsd] at hs; cases hs
      | some s0 =>
        simp only [hsd] at hs; cases hs
        obtain ⟨⟨g1, g2⟩, ⟨f1, f2⟩, hsu⟩ := send_gle hF hb hsd
        have e1 : L1 N { s0 with rpc := RPC.sWait } = L1 N s0 := rfl
        have e2 : L2 N { s0 with rpc := RPC.sWait } = L2 N s0 := rfl
        have e3 : linS inp N { s0 with rpc := RPC.sWait } = linS inp N s0 := rfl
        have hrest : restOf { s0 with rpc := RPC.sWait } + 5 * s.ready.length + 1 ≤ restOf s + 5 * s0.ready.length := by
          rcases hsu with h | h <;> simp [restOf, curW, hr, rOf, wRank, f1, f2, h] <;> omega
        right; refine ⟨by omega, ?_⟩
        rcases g2 with a | ⟨a, b⟩
        · left; omega
        · right; exact ⟨by omega, by omega⟩
  | sWait =>
    simp only [hr] at hs
    cases hsu : s.susp with
    | none =>
      simp only [hsu] at hs
      exact dtick_mlt (b := 0) hF (fun o => by simp [hr, rOf, wRank]) hsu hb hb' hs
    | some o =>
      simp only [hsu] at hs
      cases o with
      | init => cases hs
      | node n =>
        simp only [] at hs
        cases hn : s.nodes n with
        | none => simp only [hn] at hs; cases hs; exact mlt_same rfl (by simp [restOf, curW, raise, hr, hsu, rOf, wRank])
        | some nd =>
          simp only [hn] at hs
          have key : ∀ (hd : selDecision inp n nd ≠ .assertFail),
              MLt inp N { applySel inp s n nd (selDecision inp n nd) with rpc := .sTop (some n) } s := by
            intro hd
            refine mlt_sameM (sameM_status hn (selStatus (selDecision inp n nd)) (applySel_nodes _ _ _ _ _ hd)) ?_
            obtain ⟨a, b, c, d⟩ := applySel_rest (inp := inp) s n nd (selDecision inp n nd)
            simp [restOf, curW, hr, hsu, rOf, wRank, a, b, c]
          cases hd : selDecision inp n nd with
          | go =>
            simp only [hd] at hs; cases hs
            refine mlt_sameM (sameM_status hn (selStatus .go) (applySel_nodes _ _ _ _ _ (by simp))) ?_
            obtain ⟨a, b, c, d⟩ := applySel_rest (inp := inp) s n nd .go
            simp [restOf, curW, startTask, hr, hsu, rOf, wRank, a, b, c, d]
          | assertFail =>
            simp only [hd] at hs; cases hs; exact mlt_same rfl (by simp [restOf, curW, raise, hr, hsu, rOf, wRank])
          | skipIgn => simp only [hd] at hs; cases hs; have := key (by simp [hd]); rwa [hd] at this
          | unmet => simp only [hd] at hs; cases hs; have := key (by simp [hd]); rwa [hd] at this
          | depErr => simp only [hd] at hs; cases hs; have := key (by simp [hd]); rwa [hd] at this
          | utd => simp only [hd] at hs; cases hs; have := key (by simp [hd]); rwa [hd] at this
          | runFirst => simp only [hd] at hs; cases hs; have := key (by simp [hd]); rwa [hd] at this
          | argsErr => simp only [hd] at hs; cases hs; have := key (by simp [hd]); rwa [hd] at this
      | stopIter => cases hs; exact mlt_same rfl (by simp [restOf, curW, hr, hsu, rOf, wRank])
      | holdOn => cases hs; exact mlt_same rfl (by simp [restOf, curW, raise, hr, hsu, rOf, wRank])
      | cyclic n => cases hs; exact mlt_same rfl (by simp [restOf, curW, raise, hr, hsu, rOf, wRank])
      | crash => cases hs; exact mlt_same rfl (by simp [restOf, curW, raise, hr, hsu, rOf, wRank])
  | sExec n =>
    simp only [hr] at hs
    cases hn : s.nodes n with
    | none => simp only [hn] at hs; cases hs; exact mlt_same rfl (by cases hcur : s.cur <;> simp [restOf, curW, raise, hr, rOf, hcur])
    | some nd =>
      simp only [hn] at hs; cases hs
      refine mlt_sameM (sameM_status hn (resStatus (inp.outcome n)) ?_) ?_
      · show (processResult inp _ n nd).nodes = _
        rw [processResult_nodes]; rfl
      · obtain ⟨a, b, c, d⟩ := processResult_rest (inp := inp)
          { s with rpc := .sExec n, events := Ev.fin n 0 :: s.events } n nd
        simp [restOf, curW, hr, rOf, a, b, c] <;> omega
  | fin => simp only [hr] at hs; cases hs; exact mlt_same rfl (by cases hcur : s.cur <;> simp [restOf, curW, finishRun, hr, rOf, hcur])
  | gEntry a b => simp only [hr] at hs; cases hs
  | gLoop a b => simp only [hr] at hs; cases hs
  | gWait a => simp only [hr] at hs; cases hs
  | gRet a b => simp only [hr] at hs; cases hs
  | pTop => simp only [hr] at hs; cases hs
  | pJoin => simp only [hr] at hs; cases hs
  | halted => simp only [hr] at hs; cases hs

/-! ### well-foundedness -/

def muOf (inp : RunInput) (N : Nat) (s : Sys) : Nat × Nat × Nat := (L1 N s, L2 N s, linS inp N s + restOf s)

theorem mlt_lex {s' s : Sys} (h : MLt inp N s' s) :
    Prod.Lex (· < ·) (Prod.Lex (· < ·) (· < ·)) (muOf inp N s') (muOf inp N s) := by
  unfold muOf
  rcases h with a | ⟨a, b | ⟨b, c⟩⟩
  · exact Prod.Lex.left _ _ a
  · rw [a]; exact Prod.Lex.right _ (Prod.Lex.left _ _ b)
  · rw [a, b]; exact Prod.Lex.right _ (Prod.Lex.right _ c)

theorem no_descending {α : Type} {r : α → α → Prop} (wf : WellFounded r) (g : Nat → α)
    (h : ∀ i, r (g (i + 1)) (g i)) : False := by
  have key : ∀ x, Acc r x → ∀ i, g i = x → False := by
    intro x acc
    induction acc with
    | intro x _ ih => intro i hi; exact ih (g (i + 1)) (hi ▸ h i) (i + 1) rfl
  exact key (g 0) (wf.apply _) 0 rfl

theorem created_lt (hF : FiniteTable inp N) {s : Sys} (hr : Reach inp s) : ∀ k y, s.nodes k = some y → k < N :=
  fun k y hk => cl_lt hF ((reach_minv hr).nodes k y hk).self

/-- the serial system has no infinite run on a finite task table -/
theorem serial_terminates (hser : inp.runner = .serial) (hF : FiniteTable inp N) :
    ¬ ∃ (f : Nat → Sys) (c : Nat → Choice), f 0 = init inp ∧ ∀ i, stepOf inp (f i) (c i) = some (f (i + 1)) := by
  rintro ⟨f, c, h0, hstep⟩
  have hstep' : ∀ i, step inp (f i) (c i) = some (f (i + 1)) := by
    intro i; have := hstep i; unfold stepOf at this; rwa [if_pos hser] at this
  have hreach : ∀ i, Reach inp (f i) := by
    intro i
    induction i with
    | zero => rw [h0]; exact Reach.init
    | succ i ih => exact Reach.next ih (hstep' i)
  have hdesc : ∀ i, MLt inp N (f (i + 1)) (f i) := by
    intro i
    have hs := hstep' i
    cases hc : c i with
    | main perm =>
      rw [hc] at hs
      exact serialStep_mlt hF (created_lt hF (hreach i)) (created_lt hF (hreach (i + 1))) hs
    | take w => rw [hc] at hs; cases hs
    | done w => rw [hc] at hs; cases hs
  have wf : WellFounded (Prod.Lex (· < ·) (Prod.Lex (· < ·) (· < ·)) : Nat × Nat × Nat → Nat × Nat × Nat → Prop) :=
    (Prod.lex Nat.lt_wfRel (Prod.lex Nat.lt_wfRel Nat.lt_wfRel)).wf
  exact no_descending wf (fun i => muOf inp N (f i)) (fun i => mlt_lex (hdesc i))

end DoitModel.Run
