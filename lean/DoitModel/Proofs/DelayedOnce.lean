import DoitModel.Proofs.Delayed
/-! # Delayed creation: `OnceInv` and its preservation (C15 `once`) -/
namespace DoitModel.Delayed
open DoitModel.Run (RS Name)

/-- hypotheses on the input under which "once" holds (both are decidable, see `Props/C15.lean`):
* `resolves`: for a placeholder `n` with loader object `l`, the task `self.tasks[to_load]` carries the same object;
* `covers`: when a creator has several loader objects (`creates=[a, b, …]`: one copy each), evaluating it through
  one of them re-defines the task every other copy loads (the creator yields what it declares). -/
structure OnceWF (inp : Input) : Prop where
  resolves : ∀ n l, Holder inp n l → ∀ td l', lookup0 inp.tasks0 (toLoad inp l n) = some td →
    td.loader = some l' → l' = l
  covers : ∀ n l q lq, Holder inp n l → Holder inp q lq → inp.creatorOf l = inp.creatorOf lq → l ≠ lq →
    ∃ nt ∈ inp.make (inp.creatorOf l) (toLoad inp l n), nt.name = toLoad inp lq q

/-- the core of the invariant, with an exemption for one loader object `ex` (between the creator call and
    `loader.created = True`) -/
structure OnceCore (inp : Input) (ex : Option LId) (s : Sys) : Prop where
  l1 : ∀ n td l, s.tasks n = some td → td.loader = some l → Holder inp n l
  l2 : ∀ n nd l, s.nodes n = some nd → nd.task.loader = some l → Holder inp n l
  j : ∀ n l, Holder inp n l → Ev.creator (inp.creatorOf l) ∈ s.events →
      ∀ td l', s.tasks (toLoad inp l n) = some td → td.loader = some l' → s.created l' = true ∨ ex = some l'
  o : onceOK s.events = true

abbrev OnceInv (inp : Input) (s : Sys) : Prop := OnceCore inp none s

theorem onceOK_append_quiet (pre : List Ev) (ev : List Ev) (h : ∀ e ∈ pre, ∀ c, e ≠ Ev.creator c) :
    onceOK (pre ++ ev) = onceOK ev := by
  induction pre with
  | nil => rfl
  | cons e r ih =>
    have h1 := h e (by simp)
    have h2 : ∀ e ∈ r, ∀ c, e ≠ Ev.creator c := fun e he => h e (by simp [he])
    cases e <;> simp_all [onceOK]

theorem OnceCore.quiet {inp : Input} {ex : Option LId} {s s' : Sys} (h : OnceCore inp ex s) (q : Quiet s s') :
    OnceCore inp ex s' := by
  obtain ⟨pre, hev, hpre⟩ := q.ev
  constructor
  · intro n td l h1 h2; rw [q.tasks] at h1; exact h.l1 n td l h1 h2
  · intro n nd' l h1 h2
    rcases q.nodes n nd' h1 with ⟨nd, h3, h4⟩ | h3
    · exact h.l2 n nd l h3 (by rw [← h4]; exact h2)
    · exact h.l1 n _ l h3 h2
  · intro n l hh hc td l' h1 h2
    rw [q.tasks] at h1; rw [q.created]
    refine h.j n l hh ?_ td l' h1 h2
    rw [hev] at hc
    rcases List.mem_append.mp hc with h3 | h3
    · exact absurd rfl (hpre _ h3 _)
    · exact h3
  · rw [hev, onceOK_append_quiet pre _ hpre]; exact h.o

/-! ### `insertNew` -/

theorem insertNew_old (tg : Name → Option Name) (new : List NewTask) :
    ∀ (oid : Nat) (tasks : Name → Option TDef) (k : Name) (td : TDef) (l : LId),
      insertNew tg oid tasks new k = some td → td.loader = some l → tasks k = some td := by
  induction new with
  | nil => intro oid tasks k td l h _; exact h
  | cons nt r ih =>
    intro oid tasks k td l h hl
    simp only [insertNew] at h
    have := ih _ _ k td l h hl
    split at this
    · cases this; simp [newDef] at hl
    · exact this

theorem insertNew_keep (tg : Name → Option Name) (new : List NewTask) :
    ∀ (oid : Nat) (tasks : Name → Option TDef) (k : Name),
      (∃ td, tasks k = some td ∧ td.loader = none) →
      ∃ td, insertNew tg oid tasks new k = some td ∧ td.loader = none := by
  induction new with
  | nil => intro oid tasks k h; exact h
  | cons nt r ih =>
    intro oid tasks k h
    simp only [insertNew]
    apply ih
    split
    · exact ⟨_, rfl, rfl⟩
    · exact h

theorem insertNew_mem (tg : Name → Option Name) (new : List NewTask) :
    ∀ (oid : Nat) (tasks : Name → Option TDef) (k : Name),
      (∃ nt ∈ new, nt.name = k) → ∃ td, insertNew tg oid tasks new k = some td ∧ td.loader = none := by
  induction new with
  | nil => intro oid tasks k h; obtain ⟨nt, h1, _⟩ := h; cases h1
  | cons nt r ih =>
    intro oid tasks k h
    simp only [insertNew]
    by_cases hk : nt.name = k
    · apply insertNew_keep
      subst hk
      exact ⟨newDef tg oid nt, by simp, rfl⟩
    · apply ih
      obtain ⟨x, h1, h2⟩ := h
      rcases List.mem_cons.mp h1 with h3 | h3
      · subst h3; exact absurd h2 hk
      · exact ⟨x, h3, h2⟩

/-! ### the loader section -/

theorem once_regexBlock {inp : Input} {ex : Option LId} {s : Sys} (l : LId) (g : GId) (h : OnceCore inp ex s) :
    OnceCore inp ex (regexBlock inp s l g) := by
  apply h.quiet
  unfold regexBlock
  split
  · exact Quiet.of_eq rfl rfl rfl rfl rfl
  · split
    · exact Quiet.of_eq rfl rfl rfl rfl rfl
    · split
      · split <;> exact Quiet.of_eq rfl rfl rfl rfl rfl
      · exact Quiet.of_eq rfl rfl rfl rfl rfl

theorem once_finishLoader {inp : Input} {s : Sys} {n : Name} {nd : Node} {l : LId} {tk' : TDef}
    (h : OnceCore inp (some l) s) (ht : tk'.loader = none) : OnceInv inp (finishLoader s n nd l tk') := by
  have hcr : ∀ l', (s.created l' = true ∨ some l = some l') → (if l' = l then true else s.created l') = true := by
    intro l' h1
    rcases h1 with h1 | h1
    · split <;> simp [h1]
    · cases h1; simp
  unfold finishLoader
  cases hc : s.tasks n with
  | none =>
    simp only []
    exact ⟨h.l1, h.l2, fun q lq hh hcre td l' h1 h2 => Or.inl (hcr l' (h.j q lq hh hcre td l' h1 h2)), h.o⟩
  | some cur =>
    simp only []
    split
    · constructor
      · intro k td l0 h1 h2
        simp only at h1
        split at h1
        · cases h1; rw [ht] at h2; cases h2
        · exact h.l1 k td l0 h1 h2
      · intro k nd' l0 h1 h2
        simp only at h1
        split at h1
        · cases h1; simp only [ht] at h2; cases h2
        · exact h.l2 k nd' l0 h1 h2
      · intro q lq hh hcre td l' h1 h2
        simp only at h1
        refine Or.inl (hcr l' ?_)
        split at h1
        · cases h1; rw [ht] at h2; cases h2
        · exact h.j q lq hh hcre td l' h1 h2
      · exact h.o
    · constructor
      · exact h.l1
      · intro k nd' l0 h1 h2
        simp only at h1
        split at h1
        · rename_i e; subst e; cases h1; exact h.l1 k cur l0 hc h2
        · exact h.l2 k nd' l0 h1 h2
      · intro q lq hh hcre td l' h1 h2
        exact Or.inl (hcr l' (h.j q lq hh hcre td l' h1 h2))
      · exact h.o

/-- after the creator section: either the reset happened (`created` is set), or the regex block raised -/
theorem once_afterCreate {inp : Input} {s : Sys} {n : Name} {nd : Node} {l : LId}
    (h : OnceCore inp (some l) s) :
    OnceInv inp (afterCreate inp s n nd l) ∨
    (OnceCore inp (some l) (afterCreate inp s n nd l) ∧ ∃ e, (afterCreate inp s n nd l).susp = .err e) := by
  unfold afterCreate
  cases hrx : nd.task.rx with
  | none => exact Or.inl (once_finishLoader h rfl)
  | some g =>
    simp only []
    cases hs : (regexBlock inp s l g).susp with
    | err e => exact Or.inr ⟨once_regexBlock l g h, e, hs⟩
    | running => exact Or.inl (once_finishLoader (once_regexBlock l g h) rfl)
    | yielded k => exact Or.inl (once_finishLoader (once_regexBlock l g h) rfl)
    | idle => exact Or.inl (once_finishLoader (once_regexBlock l g h) rfl)
    | holdOn => exact Or.inl (once_finishLoader (once_regexBlock l g h) rfl)
    | stopIter => exact Or.inl (once_finishLoader (once_regexBlock l g h) rfl)

theorem OnceCore.weaken {inp : Input} {s : Sys} (l : LId) (h : OnceInv inp s) : OnceCore inp (some l) s :=
  ⟨h.l1, h.l2, fun q lq hh hc td l' h1 h2 => (h.j q lq hh hc td l' h1 h2).elim Or.inl (fun e => by cases e), h.o⟩

/-- the creator call: not evaluated before (that is C15 `once`), and — unless registering the new tasks raised — the
    invariant survives with `l` exempted -/
theorem once_evalCreator {inp : Input} (wf : OnceWF inp) {s : Sys} {n : Name} {l : LId} {tT : TDef}
    (h : OnceInv inp s) (hh : Holder inp n l) (hT : s.tasks (toLoad inp l n) = some tT) (hm : mustCreate inp s l tT = true) :
    onceOK (evalCreator inp s l (toLoad inp l n) b).events = true ∧
    (OnceCore inp (some l) (evalCreator inp s l (toLoad inp l n) b) ∨
     ∃ e, (evalCreator inp s l (toLoad inp l n) b).susp = .err e) := by
  -- the loader object found through the table is `l` itself, and it is not `created`
  obtain ⟨l', hl', hcr⟩ : ∃ l', tT.loader = some l' ∧ s.created l' = false := by
    unfold mustCreate at hm
    cases hx : tT.loader with
    | none => simp [hx] at hm
    | some l' => simp only [hx, Bool.and_eq_true] at hm; exact ⟨l', rfl, by simpa using hm.1⟩
  have hres : ∀ q lq, Holder inp q lq → ∀ td l2, s.tasks (toLoad inp lq q) = some td → td.loader = some l2 → l2 = lq := by
    intro q lq hq td l2 h1 h2
    obtain ⟨td0, h3, h4⟩ := h.l1 _ td l2 h1 h2
    exact wf.resolves q lq hq td0 l2 h3 h4
  have hfresh : Ev.creator (inp.creatorOf l) ∉ s.events := by
    intro hc
    rcases h.j n l hh hc tT l' hT hl' with h1 | h1
    · rw [hcr] at h1; cases h1
    · cases h1
  have honce : onceOK (Ev.creator (inp.creatorOf l) :: s.events) = true := by
    simp only [onceOK, h.o, Bool.and_true, Bool.not_eq_true']
    simpa using hfresh
  unfold evalCreator
  cases hr : regTargets s.targets (targetPairs (inp.make (inp.creatorOf l) (toLoad inp l n))) with
  | none => exact ⟨honce, Or.inr ⟨_, rfl⟩⟩
  | some tg =>
    refine ⟨honce, Or.inl ?_⟩
    constructor
    · intro k td l0 h1 h2
      exact h.l1 k td l0 (insertNew_old _ _ _ _ _ _ _ h1 h2) h2
    · exact h.l2
    · intro q lq hq hc td l2 h1 h2
      have hold := insertNew_old _ _ _ _ _ _ _ h1 h2
      have hl2 : l2 = lq := hres q lq hq td l2 hold h2
      simp only [List.mem_cons] at hc
      rcases hc with hc | hc
      · by_cases hlq : l = lq
        · exact Or.inr (by rw [hl2, hlq])
        · -- another copy of the same creator: its task was just re-defined without a loader
          have hceq : inp.creatorOf l = inp.creatorOf lq := (Ev.creator.inj hc).symm
          obtain ⟨td', h3, h4⟩ := insertNew_mem tg _ s.nextOid s.tasks _ (wf.covers n l q lq hh hq hceq hlq)
          simp only at h1
          rw [h3] at h1; cases h1; rw [h4] at h2; cases h2
      · exact (h.j q lq hq hc td l2 hold h2).elim Or.inl (fun e => by cases e)
    · exact honce

theorem once_loaderStep {inp : Input} (wf : OnceWF inp) {s : Sys} {n : Name} {nd : Node} {l : LId}
    (h : OnceInv inp s) (hn : s.nodes n = some nd) (hl : nd.task.loader = some l) :
    OnceInv inp (loaderStep inp s n nd l) ∨
    (∃ e, (loaderStep inp s n nd l).susp = .err e ∧ onceOK (loaderStep inp s n nd l).events = true) := by
  have hh : Holder inp n l := h.l2 n nd l hn hl
  have hac : ∀ s1, OnceCore inp (some l) s1 →
      OnceInv inp (afterCreate inp s1 n nd l) ∨
      (∃ e, (afterCreate inp s1 n nd l).susp = .err e ∧ onceOK (afterCreate inp s1 n nd l).events = true) := by
    intro s1 h1
    rcases once_afterCreate (n := n) (nd := nd) h1 with h2 | ⟨h2, e, h3⟩
    · exact Or.inl h2
    · exact Or.inr ⟨e, h3, h2.o⟩
  unfold loaderStep
  cases hT : s.tasks (toLoad inp l n) with
  | none => exact Or.inl (h.quiet (Quiet.of_eq rfl rfl rfl rfl rfl))
  | some tT =>
    simp only []
    split
    · rename_i hm
      obtain ⟨ho, hc⟩ := once_evalCreator wf h hh hT hm
      cases hs : (evalCreator inp s l (toLoad inp l n) nd.bad).susp with
      | err e => exact Or.inr ⟨e, hs, ho⟩
      | running => rcases hc with hc | ⟨e, he⟩
                   · exact hac _ hc
                   · rw [hs] at he; cases he
      | yielded k => rcases hc with hc | ⟨e, he⟩
                     · exact hac _ hc
                     · rw [hs] at he; cases he
      | idle => rcases hc with hc | ⟨e, he⟩
                · exact hac _ hc
                · rw [hs] at he; cases he
      | holdOn => rcases hc with hc | ⟨e, he⟩
                  · exact hac _ hc
                  · rw [hs] at he; cases he
      | stopIter => rcases hc with hc | ⟨e, he⟩
                    · exact hac _ hc
                    · rw [hs] at he; cases he
    · exact hac _ (h.weaken l)

/-- the invariant of the transition system: the core, or a state that raised (nothing is enabled there) in which
    still no creator was evaluated twice -/
def OnceTop (inp : Input) (s : Sys) : Prop :=
  OnceInv inp s ∨ ∃ e, s.susp = .err e ∧ onceOK s.events = true

theorem OnceTop.once {inp : Input} {s : Sys} (h : OnceTop inp s) : onceOK s.events = true := by
  rcases h with h | ⟨_, _, h⟩
  · exact h.o
  · exact h

theorem step_err_none {inp : Input} {s s' : Sys} {c : Choice} {e : Err} (hs : s.susp = .err e)
    (h : step inp s c = some s') : False := by
  cases c with
  | tick perm => simp [step, hs] at h
  | resume => simp [step, hs] at h
  | finish n perm => simp [step, finishStep, hs] at h

theorem lookup0_holder {inp : Input} : ∀ n td l, lookup0 inp.tasks0 n = some td → td.loader = some l → Holder inp n l :=
  fun _ td _ h1 h2 => ⟨td, h1, h2⟩

theorem once_init (inp : Input) : OnceInv inp (init inp) :=
  ⟨fun n td l h1 h2 => lookup0_holder n td l h1 h2, fun _ _ _ h => by simp [init] at h,
   fun _ _ _ hc => by simp [init] at hc, rfl⟩

theorem once_step {inp : Input} (wf : OnceWF inp) {s s' : Sys} {c : Choice} (h : OnceTop inp s)
    (hs : step inp s c = some s') : OnceTop inp s' := by
  rcases h with h | ⟨e, he, _⟩
  · cases c with
    | tick perm =>
      simp only [step] at hs
      cases hsu : s.susp with
      | running =>
        simp only [hsu] at hs; cases hs
        rcases dtick_cases inp s with q | ⟨n, nd, l, hn, hl, heq⟩
        · exact Or.inl (h.quiet q)
        · rw [heq]
          exact once_loaderStep wf h hn hl
      | yielded n => simp only [hsu] at hs; exact Or.inl (h.quiet (quiet_selectStep hs))
      | idle => simp [hsu] at hs
      | holdOn => simp [hsu] at hs
      | stopIter => simp [hsu] at hs
      | err e => simp [hsu] at hs
    | resume =>
      simp only [step] at hs
      split at hs
      · cases hs; exact Or.inl (h.quiet (Quiet.of_eq rfl rfl rfl rfl rfl))
      · cases hs
    | finish n perm => exact Or.inl (h.quiet (quiet_finishStep hs))
  · exact (step_err_none he hs).elim

theorem once_reach {inp : Input} (wf : OnceWF inp) {s : Sys} (hr : Reach inp s) : OnceTop inp s := by
  induction hr with
  | init => exact Or.inl (once_init inp)
  | next _ hs ih => exact once_step wf ih hs

/-! ### the repaired dispatcher (`evaluated_creators`): "once" without any hypothesis on the input -/

/-- every creator whose evaluation is in the trace is in `evaluated_creators`; no creator was evaluated twice -/
structure EvalInv (s : Sys) : Prop where
  mem : ∀ c, Ev.creator c ∈ s.events → c ∈ s.evaluated
  o : onceOK s.events = true

theorem EvalInv.quiet {s s' : Sys} (h : EvalInv s) (q : Quiet s s') : EvalInv s' := by
  obtain ⟨pre, hev, hpre⟩ := q.ev
  constructor
  · intro c hc
    rw [q.evald]
    rw [hev] at hc
    rcases List.mem_append.mp hc with h3 | h3
    · exact absurd rfl (hpre _ h3 _)
    · exact h.mem c h3
  · rw [hev, onceOK_append_quiet pre _ hpre]; exact h.o

/-- only fields the invariant does not read differ -/
theorem EvalInv.congr {s s' : Sys} (h : EvalInv s) (h1 : s'.events = s.events) (h2 : s'.evaluated = s.evaluated) :
    EvalInv s' :=
  ⟨fun c hc => by rw [h2]; exact h.mem c (by rw [← h1]; exact hc), by rw [h1]; exact h.o⟩

theorem regexBlock_same (inp : Input) (s : Sys) (l : LId) (g : GId) :
    (regexBlock inp s l g).events = s.events ∧ (regexBlock inp s l g).evaluated = s.evaluated := by
  unfold regexBlock
  split
  · exact ⟨rfl, rfl⟩
  · split
    · exact ⟨rfl, rfl⟩
    · split
      · split <;> exact ⟨rfl, rfl⟩
      · exact ⟨rfl, rfl⟩

theorem finishLoader_same (s : Sys) (n : Name) (nd : Node) (l : LId) (tk' : TDef) :
    (finishLoader s n nd l tk').events = s.events ∧ (finishLoader s n nd l tk').evaluated = s.evaluated := by
  unfold finishLoader
  cases s.tasks n with
  | none => exact ⟨rfl, rfl⟩
  | some cur => simp only []; split <;> exact ⟨rfl, rfl⟩

theorem afterCreate_same (inp : Input) (s : Sys) (n : Name) (nd : Node) (l : LId) :
    (afterCreate inp s n nd l).events = s.events ∧ (afterCreate inp s n nd l).evaluated = s.evaluated := by
  unfold afterCreate
  cases nd.task.rx with
  | none => exact finishLoader_same _ _ _ _ _
  | some g =>
    simp only []
    have hr := regexBlock_same inp s l g
    split
    · exact hr
    · have hf := finishLoader_same (regexBlock inp s l g) n nd l (mutated s nd.task)
      exact ⟨hf.1.trans hr.1, hf.2.trans hr.2⟩

theorem eval_evalCreator {inp : Input} {s : Sys} {l : LId} (tname : Name) (h : EvalInv s)
    (hfresh : inp.creatorOf l ∉ s.evaluated) : EvalInv (evalCreator inp s l tname b) := by
  have hnot : Ev.creator (inp.creatorOf l) ∉ s.events := fun hc => hfresh (h.mem _ hc)
  have honce : onceOK (Ev.creator (inp.creatorOf l) :: s.events) = true := by
    simp only [onceOK, h.o, Bool.and_true, Bool.not_eq_true']
    simpa using hnot
  have hmem : ∀ c, Ev.creator c ∈ Ev.creator (inp.creatorOf l) :: s.events → c ∈ s.evaluated ++ [inp.creatorOf l] := by
    intro c hc
    rcases List.mem_cons.mp hc with h1 | h1
    · rw [Ev.creator.inj h1]; simp
    · exact List.mem_append_left _ (h.mem c h1)
  unfold evalCreator
  split
  · exact ⟨hmem, honce⟩
  · exact ⟨hmem, honce⟩

theorem eval_loaderStep {inp : Input} (hp : inp.pinnedOnce = false) {s : Sys} (n : Name) (nd : Node) (l : LId)
    (h : EvalInv s) : EvalInv (loaderStep inp s n nd l) := by
  unfold loaderStep
  cases s.tasks (toLoad inp l n) with
  | none => exact h.congr rfl rfl
  | some tT =>
    simp only []
    split
    · rename_i hm
      have hfresh : inp.creatorOf l ∉ s.evaluated := by
        unfold mustCreate at hm
        simp only [hp, Bool.false_or, Bool.and_eq_true, Bool.not_eq_true'] at hm
        simpa using hm.2
      have h1 := eval_evalCreator (b := nd.bad) (toLoad inp l n) h hfresh
      split
      · exact h1
      · have hs := afterCreate_same inp (evalCreator inp s l (toLoad inp l n) nd.bad) n nd l
        exact h1.congr hs.1 hs.2
    · have hs := afterCreate_same inp s n nd l
      exact h.congr hs.1 hs.2

theorem eval_step {inp : Input} (hp : inp.pinnedOnce = false) {s s' : Sys} {c : Choice} (h : EvalInv s)
    (hs : step inp s c = some s') : EvalInv s' := by
  cases c with
  | tick perm =>
    simp only [step] at hs
    cases hsu : s.susp with
    | running =>
      simp only [hsu] at hs; cases hs
      rcases dtick_cases inp s with q | ⟨n, nd, l, _, _, heq⟩
      · exact h.quiet q
      · rw [heq]; exact eval_loaderStep hp n nd l h
    | yielded n => simp only [hsu] at hs; exact h.quiet (quiet_selectStep hs)
    | idle => simp [hsu] at hs
    | holdOn => simp [hsu] at hs
    | stopIter => simp [hsu] at hs
    | err e => simp [hsu] at hs
  | resume =>
    simp only [step] at hs
    split at hs
    · cases hs; exact h.congr rfl rfl
    · cases hs
  | finish n perm => exact h.quiet (quiet_finishStep hs)

theorem eval_reach {inp : Input} (hp : inp.pinnedOnce = false) {s : Sys} (hr : Reach inp s) : EvalInv s := by
  induction hr with
  | init => exact ⟨fun _ hc => by simp [init] at hc, rfl⟩
  | next _ hs ih => exact eval_step hp ih hs

end DoitModel.Delayed
