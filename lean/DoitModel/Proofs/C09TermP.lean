import DoitModel.Proofs.C09Term3
/-! # C09 — termination, part 4: the parallel runners

The measure of the serial system is extended by a first component `U2` — task names below `N` whose node has no final
status yet; it never increases and decreases when the main thread processes a result, which pays for the `free_proc + 1`
calls of `get_next_job` that follow — and by the queues of `MRunner` (`extraOf`: jobs queued, workers executing,
results queued).  The loop counters of `_run_start_processes` / of the feed loop are part of the rank of the runner's
program counter (`rOf`). -/
namespace DoitModel.Run

variable {inp : RunInput} {N : Nat}

def extraOf (s : Sys) : Nat := 3 * s.jobQ.length + 2 * cntRun s.workers s.nStarted + s.resQ.length

def U2 (N : Nat) (s : Sys) : Nat := (List.range N).countP fun n => !(stOf s n).finished

def MLtP (inp : RunInput) (N : Nat) (s' s : Sys) : Prop :=
  U2 N s' < U2 N s ∨ (U2 N s' = U2 N s ∧ (L1 N s' < L1 N s ∨ (L1 N s' = L1 N s ∧
    (L2 N s' < L2 N s ∨ (L2 N s' = L2 N s ∧
      linS inp N s' + restOf s' + extraOf s' < linS inp N s + restOf s + extraOf s)))))

theorem u2_le_shape {s s' : Sys} (sh : Shape inp s s') : U2 N s' ≤ U2 N s := by
  unfold U2
  apply List.countP_mono_left
  intro x _ hx
  cases sh with
  | quiet new hst hev hq _ => rw [hst] at hx; exact hx
  | select n nd extra haw hsusp hn hd hst hev hq _ =>
    rw [hst] at hx
    by_cases e : x = n
    · subst e
      have : (stOf s x).finished = false := by simp [stOf, hn, selDecision_unfinished hd]
      simp [this]
    · simpa [e] using hx
  | result n nd mid hn hrun hgo hst hev hq _ =>
    rw [hst] at hx
    by_cases e : x = n
    · subst e
      have : (stOf s x).finished = false := by simp [stOf, hn, hrun, RS.finished]
      simp [this]
    · simpa [e] using hx

theorem u2_lt_result {s s' : Sys} {n : Name} (hN : n < N) (h0 : (stOf s n).finished = false)
    (h1 : (stOf s' n).finished = true) (hle : ∀ x, (stOf s' x).finished = false → (stOf s x).finished = false) :
    U2 N s' < U2 N s := by
  unfold U2
  apply countP_lt_of_mem (x := n) (List.mem_range.mpr hN)
  · simp [h1]
  · simp [h0]
  · intro y _ hy
    simp only [Bool.not_eq_eq_eq_not, Bool.not_true] at hy ⊢
    exact hle y hy

theorem mltP_of_mlt {s s' : Sys} (hU : U2 N s' ≤ U2 N s) (h : MLt inp N s' s) (e : extraOf s' = extraOf s) :
    MLtP inp N s' s := by
  by_cases hu : U2 N s' < U2 N s
  · exact Or.inl hu
  · right; refine ⟨by omega, ?_⟩
    rcases h with a | ⟨a, b | ⟨b, c⟩⟩
    · exact Or.inl a
    · exact Or.inr ⟨a, Or.inl b⟩
    · exact Or.inr ⟨a, Or.inr ⟨b, by omega⟩⟩

theorem mltP_same {s s' : Sys} (hU : U2 N s' ≤ U2 N s) (hm : SameM inp N s' s)
    (h : restOf s' + extraOf s' < restOf s + extraOf s) : MLtP inp N s' s := by
  obtain ⟨m1, m2, m3⟩ := hm
  by_cases hu : U2 N s' < U2 N s
  · exact Or.inl hu
  · right; exact ⟨by omega, Or.inr ⟨m1, Or.inr ⟨m2, by omega⟩⟩⟩

theorem cntRun_set_nonrun (f : Nat → WState) (w : Nat) (st : WState) (h0 : isRun (f w) = false)
    (h1 : isRun st = false) (k : Nat) : cntRun (fun i => if i = w then st else f i) k = cntRun f k := by
  by_cases hw : w < k
  · have := cntRun_update f w st k hw
    simp only [h0, h1, Bool.false_eq_true, if_false, Nat.add_zero] at this
    exact this
  · exact cntRun_congr k (fun i hi => by simp [show i ≠ w by omega])

theorem cntRun_set_le (f : Nat → WState) (w : Nat) (st : WState) (k : Nat) :
    cntRun (fun i => if i = w then st else f i) k ≤ cntRun f k + 1 := by
  by_cases hw : w < k
  · have := cntRun_update f w st k hw
    split at this <;> split at this <;> omega
  · have := cntRun_congr (f := fun i => if i = w then st else f i) (g := f) k
      (fun i hi => by simp [show i ≠ w by omega])
    omega

theorem applySel_extra (s : Sys) (n : Name) (nd : Node) (d : Sel) :
    (applySel inp s n nd d).jobQ = s.jobQ ∧ (applySel inp s n nd d).resQ = s.resQ ∧
    (applySel inp s n nd d).workers = s.workers ∧ (applySel inp s n nd d).nStarted = s.nStarted := by
  cases d <;> simp [applySel, failNode, setNode]

theorem extraOf_congr {s s' : Sys} (e1 : s'.jobQ = s.jobQ) (e2 : s'.resQ = s.resQ) (e3 : s'.workers = s.workers)
    (e4 : s'.nStarted = s.nStarted) : extraOf s' = extraOf s := by
  simp [extraOf, e1, e2, e3, e4]

theorem pstep_mltP (hF : FiniteTable inp N) {s s' : Sys} {c : Choice} (hr : PReach inp s)
    (hs : pstep inp s c = some s') : MLtP inp N s' s := by
  have hi := preach_inv hr
  have hP := preach_invP hr
  have hb : ∀ k y, s.nodes k = some y → k < N := fun k y hk => cl_lt hF ((preach_minv hr).nodes k y hk).self
  have hb' : ∀ k y, s'.nodes k = some y → k < N :=
    fun k y hk => cl_lt hF ((preach_minv (PReach.next hr hs)).nodes k y hk).self
  have hU : U2 N s' ≤ U2 N s := u2_le_shape (pstep_shape hi.1 hi.2 hs)
  cases c with
  | take w =>
    simp only [pstep] at hs
    unfold takeStep at hs
    by_cases hidle : s.workers w = .idle
    case neg => simp only [hidle, if_false] at hs; cases hs
    simp only [hidle, if_true] at hs
    cases hq : s.jobQ with
    | nil => simp only [hq] at hs; cases hs
    | cons j js =>
      simp only [hq] at hs
      cases j with
      | hold => cases hs; exact mltP_same hU (SameM.of_nodes rfl) (by simp [restOf, curW, extraOf, hq] <;> omega)
      | stop =>
        cases hs
        refine mltP_same hU (SameM.of_nodes rfl) ?_
        have := cntRun_set_nonrun s.workers w .exited (by simp [hidle, isRun]) rfl s.nStarted
        simp only [restOf, curW, extraOf, setWorker, hq, this, List.length_cons]
        omega
      | task n =>
        cases hs
        refine mltP_same hU (SameM.of_nodes rfl) ?_
        have := cntRun_set_le s.workers w (.running n) s.nStarted
        simp only [restOf, curW, extraOf, setWorker, startTask, hq, List.length_cons]
        omega
  | done w =>
    simp only [pstep] at hs
    unfold doneStep at hs
    cases hw : s.workers w with
    | running n =>
      simp only [hw] at hs; cases hs
      refine mltP_same hU (SameM.of_nodes rfl) ?_
      have hlt : w < s.nStarted := by
        apply Classical.byContradiction
        intro h
        have := hP.ns w (by omega)
        rw [hw] at this; cases this
      have hcr : cntRun (fun i => if i = w then WState.idle else s.workers i) s.nStarted + 1 =
          cntRun s.workers s.nStarted := by
        have := cntRun_update s.workers w .idle s.nStarted hlt
        simp [hw, isRun] at this
        omega
      simp only [restOf, curW, extraOf, setWorker, List.length_append, List.length_singleton]
      omega
    | notStarted => simp only [hw] at hs; cases hs
    | idle => simp only [hw] at hs; cases hs
    | exited => simp only [hw] at hs; cases hs
  | main perm =>
    simp only [pstep] at hs
    unfold mainStep at hs
    cases hrp : s.rpc with
    | gEntry completed ret =>
      simp only [hrp] at hs
      split at hs <;>
        (cases hs; exact mltP_same hU (SameM.of_nodes rfl) (by simp [restOf, curW, extraOf, hrp, rOf]))
    | gLoop node ret =>
      simp only [hrp] at hs
      cases hsd : send inp s node perm with
      | none => simp only [hsd] at hs; cases hs
      | some s0 =>
        simp only [hsd] at hs; cases hs
        obtain ⟨⟨g1, g2⟩, ⟨f1, f2⟩, hsu⟩ := send_gle hF hb hsd
        obtain ⟨_, _, o3, o4, o5, _, _, _, _, _, _, o12⟩ := (send_outer hsd).1
        have hex : extraOf { s0 with rpc := RPC.gWait ret } = extraOf s := extraOf_congr o3 o4 o5 o12
        have e1 : L1 N { s0 with rpc := RPC.gWait ret } = L1 N s0 := rfl
        have e2 : L2 N { s0 with rpc := RPC.gWait ret } = L2 N s0 := rfl
        have e3 : linS inp N { s0 with rpc := RPC.gWait ret } = linS inp N s0 := rfl
        have hrest : restOf { s0 with rpc := RPC.gWait ret } + 5 * s.ready.length + 1 ≤
            restOf s + 5 * s0.ready.length := by
          rcases hsu with h | h <;> simp [restOf, curW, hrp, rOf, wRank, f1, f2, h] <;> omega
        refine mltP_of_mlt hU ?_ hex
        right; refine ⟨by omega, ?_⟩
        rcases g2 with a | ⟨a, b⟩
        · left; omega
        · right; exact ⟨by omega, by omega⟩
    | gWait ret =>
      simp only [hrp] at hs
      cases hsu : s.susp with
      | none =>
        simp only [hsu] at hs
        obtain ⟨_, _, o3, o4, o5, _, _, _, _, _, _, o12⟩ := dtick_outer hs
        exact mltP_of_mlt hU
          (dtick_mlt (b := 20 * loopK ret + 10) hF (fun o => by simp [hrp, rOf]) hsu hb hb' hs)
          (extraOf_congr o3 o4 o5 o12)
      | some o =>
        simp only [hsu] at hs
        cases o with
        | init => cases hs
        | node n =>
          simp only [] at hs
          cases hn : s.nodes n with
          | none =>
            simp only [hn] at hs; cases hs
            exact mltP_same hU (SameM.of_nodes rfl) (by simp [restOf, curW, extraOf, raise, hrp, hsu, rOf, wRank] <;> omega)
          | some nd =>
            simp only [hn] at hs
            have key : ∀ (rpc' : RPC) (hd : selDecision inp n nd ≠ .assertFail),
                rOf rpc' s.susp + 1 ≤ rOf s.rpc s.susp →
                U2 N { applySel inp s n nd (selDecision inp n nd) with rpc := rpc' } ≤ U2 N s →
                MLtP inp N { applySel inp s n nd (selDecision inp n nd) with rpc := rpc' } s := by
              intro rpc' hd hro hU'
              refine mltP_same hU'
                (sameM_status hn (selStatus (selDecision inp n nd)) (applySel_nodes _ _ _ _ _ hd)) ?_
              obtain ⟨a, b, c, d⟩ := applySel_rest (inp := inp) s n nd (selDecision inp n nd)
              obtain ⟨x1, x2, x3, x4⟩ := applySel_extra (inp := inp) s n nd (selDecision inp n nd)
              simp only [restOf, curW, extraOf, a, b, c, d, x1, x2, x3, x4]
              omega
            cases hd : selDecision inp n nd with
            | go =>
              simp only [hd] at hs; cases hs
              have := key (.gRet (.task n) ret) (by simp [hd]) (by simp [hrp, hsu, rOf, wRank]) (by rw [hd]; exact hU)
              rwa [hd] at this
            | assertFail =>
              simp only [hd] at hs; cases hs
              exact mltP_same hU (SameM.of_nodes rfl) (by simp [restOf, curW, extraOf, raise, hrp, hsu, rOf, wRank] <;> omega)
            | skipIgn =>
              simp only [hd] at hs; cases hs
              have := key (.gLoop (some n) ret) (by simp [hd]) (by simp [hrp, hsu, rOf, wRank]) (by rw [hd]; exact hU)
              rwa [hd] at this
            | unmet =>
              simp only [hd] at hs; cases hs
              have := key (.gLoop (some n) ret) (by simp [hd]) (by simp [hrp, hsu, rOf, wRank]) (by rw [hd]; exact hU)
              rwa [hd] at this
            | depErr =>
              simp only [hd] at hs; cases hs
              have := key (.gLoop (some n) ret) (by simp [hd]) (by simp [hrp, hsu, rOf, wRank]) (by rw [hd]; exact hU)
              rwa [hd] at this
            | utd =>
              simp only [hd] at hs; cases hs
              have := key (.gLoop (some n) ret) (by simp [hd]) (by simp [hrp, hsu, rOf, wRank]) (by rw [hd]; exact hU)
              rwa [hd] at this
            | runFirst =>
              simp only [hd] at hs; cases hs
              have := key (.gLoop (some n) ret) (by simp [hd]) (by simp [hrp, hsu, rOf, wRank]) (by rw [hd]; exact hU)
              rwa [hd] at this
            | argsErr =>
              simp only [hd] at hs; cases hs
              have := key (.gLoop (some n) ret) (by simp [hd]) (by simp [hrp, hsu, rOf, wRank]) (by rw [hd]; exact hU)
              rwa [hd] at this
        | holdOn =>
          cases hs
          exact mltP_same hU (SameM.of_nodes rfl) (by simp [restOf, curW, extraOf, hrp, hsu, rOf, wRank])
        | stopIter =>
          cases hs
          exact mltP_same hU (SameM.of_nodes rfl) (by simp [restOf, curW, extraOf, hrp, hsu, rOf, wRank])
        | cyclic n =>
          cases hs
          exact mltP_same hU (SameM.of_nodes rfl) (by simp [restOf, curW, extraOf, raise, hrp, hsu, rOf, wRank] <;> omega)
        | crash =>
          cases hs
          exact mltP_same hU (SameM.of_nodes rfl) (by simp [restOf, curW, extraOf, raise, hrp, hsu, rOf, wRank] <;> omega)
    | gRet job ret =>
      simp only [hrp] at hs; cases hs
      have hUe : ∀ x : Sys, x.nodes = s.nodes → U2 N x ≤ U2 N s := by
        intro x e; unfold U2; simp [stOf_congr e]
      cases ret with
      | startLoop k =>
        simp only [gReturn]
        split
        · exact mltP_same (hUe _ rfl) (SameM.of_nodes rfl) (by simp [restOf, curW, extraOf, hrp, rOf, loopK] <;> omega)
        · split
          · refine mltP_same (hUe _ rfl) (SameM.of_nodes rfl) ?_
            have := cntRun_start s.workers s.nStarted
            simp only [restOf, curW, extraOf, setWorker, hrp, rOf, loopK, this, List.length_append, List.length_singleton]
            omega
          · rename_i hk
            refine mltP_same (hUe _ rfl) (SameM.of_nodes rfl) ?_
            have := cntRun_start s.workers s.nStarted
            simp only [restOf, curW, extraOf, setWorker, hrp, rOf, loopK, this, List.length_append, List.length_singleton]
            omega
      | feedLoop k =>
        simp only [gReturn]
        split
        · split
          · refine mltP_same (hUe _ rfl) (SameM.of_nodes rfl) ?_
            simp only [restOf, curW, extraOf, hrp, rOf, loopK, List.length_append, List.length_singleton]
            omega
          · refine mltP_same (hUe _ rfl) (SameM.of_nodes rfl) ?_
            cases hcur : s.cur <;>
              simp [restOf, curW, extraOf, raise, hrp, rOf, loopK, List.length_append, hcur] <;> omega
        · rename_i hk
          refine mltP_same (hUe _ rfl) (SameM.of_nodes rfl) ?_
          simp only [restOf, curW, extraOf, hrp, rOf, loopK, List.length_append, List.length_singleton]
          omega
    | pTop =>
      simp only [hrp] at hs
      split at hs
      · cases hs; exact mltP_same hU (SameM.of_nodes rfl) (by simp [restOf, curW, extraOf, hrp, rOf])
      · cases hq : s.resQ with
        | nil => simp only [hq] at hs; cases hs
        | cons n rest =>
          simp only [hq] at hs
          cases hn : s.nodes n with
          | none =>
            simp only [hn] at hs; cases hs
            exact mltP_same hU (SameM.of_nodes rfl)
              (by cases hcur : s.cur <;> simp [restOf, curW, extraOf, raise, hrp, rOf, hcur])
          | some nd =>
            simp only [hn] at hs; cases hs
            left
            have hq1 := hi.2.q1 n (by rw [hq]; simp)
            have hst : ∀ x, stOf { processResult inp { s with rpc := .pTop, resQ := rest } n nd with
                rpc := .gEntry (some n) (.feedLoop (s.freeProc + 1)), freeProc := 0 } x =
                if x = n then resStatus (inp.outcome n) else stOf s x := by
              intro x
              have a : stOf { processResult inp { s with rpc := .pTop, resQ := rest } n nd with
                  rpc := .gEntry (some n) (.feedLoop (s.freeProc + 1)), freeProc := 0 } x =
                  stOf (processResult inp { s with rpc := .pTop, resQ := rest } n nd) x := stOf_congr rfl x
              rw [a, stOf_processResult]; rfl
            refine u2_lt_result (hb n nd hn) (by rw [hq1.2]; rfl) (by rw [hst]; simp [resStatus_finished]) ?_
            intro x hx
            rw [hst] at hx
            by_cases e : x = n
            · subst e; rw [hq1.2]; rfl
            · simpa [e] using hx
    | pJoin =>
      simp only [hrp] at hs
      split at hs
      · cases hs; exact mltP_same hU (SameM.of_nodes rfl) (by simp [restOf, curW, extraOf, hrp, rOf])
      · cases hs
    | fin =>
      simp only [hrp] at hs; cases hs
      exact mltP_same hU (SameM.of_nodes rfl) (by simp [restOf, curW, extraOf, finishRun, hrp, rOf])
    | sTop a => simp only [hrp] at hs; cases hs
    | sWait => simp only [hrp] at hs; cases hs
    | sExec a => simp only [hrp] at hs; cases hs
    | halted => simp only [hrp] at hs; cases hs

/-! ### well-foundedness -/

def muP (inp : RunInput) (N : Nat) (s : Sys) : Nat × Nat × Nat × Nat :=
  (U2 N s, L1 N s, L2 N s, linS inp N s + restOf s + extraOf s)

theorem mltP_lex {s' s : Sys} (h : MLtP inp N s' s) :
    Prod.Lex (· < ·) (Prod.Lex (· < ·) (Prod.Lex (· < ·) (· < ·))) (muP inp N s') (muP inp N s) := by
  unfold muP
  rcases h with u | ⟨u, a | ⟨a, b | ⟨b, c⟩⟩⟩
  · exact Prod.Lex.left _ _ u
  · rw [u]; exact Prod.Lex.right _ (Prod.Lex.left _ _ a)
  · rw [u, a]; exact Prod.Lex.right _ (Prod.Lex.right _ (Prod.Lex.left _ _ b))
  · rw [u, a, b]; exact Prod.Lex.right _ (Prod.Lex.right _ (Prod.Lex.right _ c))

/-- the parallel system has no infinite run on a finite task table, whatever the worker interleaving -/
theorem parallel_terminates (hpar : inp.runner ≠ .serial) (hF : FiniteTable inp N) :
    ¬ ∃ (f : Nat → Sys) (c : Nat → Choice), f 0 = init inp ∧ ∀ i, stepOf inp (f i) (c i) = some (f (i + 1)) := by
  rintro ⟨f, c, h0, hstep⟩
  have hstep' : ∀ i, pstep inp (f i) (c i) = some (f (i + 1)) := by
    intro i; have := hstep i; unfold stepOf at this; rwa [if_neg hpar] at this
  have hreach : ∀ i, PReach inp (f i) := by
    intro i
    induction i with
    | zero => rw [h0]; exact PReach.init
    | succ i ih => exact PReach.next ih (hstep' i)
  have wf : WellFounded (Prod.Lex (· < ·) (Prod.Lex (· < ·) (Prod.Lex (· < ·) (· < ·))) :
      Nat × Nat × Nat × Nat → Nat × Nat × Nat × Nat → Prop) :=
    (Prod.lex Nat.lt_wfRel (Prod.lex Nat.lt_wfRel (Prod.lex Nat.lt_wfRel Nat.lt_wfRel))).wf
  exact no_descending wf (fun i => muP inp N (f i)) (fun i => mltP_lex (pstep_mltP hF (hreach i) (hstep' i)))

end DoitModel.Run
