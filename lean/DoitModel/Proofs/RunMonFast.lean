import DoitModel.Model.RunMon
/-! # The fast variants used by the C02 closure monitor compute the same thing -/
namespace DoitModel.Run

theorem addNew_prefix : ∀ (xs acc : List Name), ∃ ys, addNew acc xs = acc ++ ys := by
  intro xs
  induction xs with
  | nil => intro acc; exact ⟨[], by simp [addNew]⟩
  | cons x t ih =>
    intro acc
    simp only [addNew, List.foldl_cons]
    by_cases h : x ∈ acc
    · simp only [h, if_true]; exact ih acc
    · simp only [h, if_false]
      obtain ⟨ys, e⟩ := ih (acc ++ [x])
      exact ⟨x :: ys, by unfold addNew at e; rw [e]; simp⟩

theorem addNew_eq_of_length {acc xs : List Name} (h : (addNew acc xs).length = acc.length) : addNew acc xs = acc := by
  obtain ⟨ys, e⟩ := addNew_prefix xs acc
  rw [e] at h ⊢
  have : ys = [] := by
    cases ys with
    | nil => rfl
    | cons a t => simp at h
  rw [this]; simp

theorem calcsAtF_fix (inp : RunInput) (tr : List Ev) : ∀ (k : Nat) (cs : List Name),
    addNew cs (cs.flatMap fun c => (resAt inp tr c).calcs) = cs → calcsAtF inp tr k cs = cs := by
  intro k
  induction k with
  | zero => intro cs _; rfl
  | succ k ih => intro cs h; simp only [calcsAtF]; rw [h]; exact ih cs h

/-- the early exit does not change the result -/
theorem calcsAtQ_eq (inp : RunInput) (tr : List Ev) : ∀ (k : Nat) (cs : List Name),
    calcsAtQ inp tr k cs = calcsAtF inp tr k cs := by
  intro k
  induction k with
  | zero => intro cs; rfl
  | succ k ih =>
    intro cs
    simp only [calcsAtQ, calcsAtF]
    split
    · rename_i h
      have e := addNew_eq_of_length h
      rw [e]; exact (calcsAtF_fix inp tr k cs e).symm
    · exact ih _

/-- the driver evaluates the two closure monitors on one shared closure -/
theorem monC02InsideClosure_on (inp : RunInput) (nTasks : Nat) (tr : List Ev) :
    monC02InsideClosure inp nTasks tr = insideClosureOn (closureOfF inp nTasks tr) nTasks tr := rfl

theorem monC02AllProcessed_on (inp : RunInput) (nTasks : Nat) (tr : List Ev) (exit : Nat) :
    monC02AllProcessed inp nTasks tr exit = allProcessedOn (closureOfF inp nTasks tr) inp tr exit := rfl

end DoitModel.Run
