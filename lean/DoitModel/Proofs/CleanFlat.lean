import DoitModel.Model.Clean
/-! Helper lemmas for C14, part 1: `flat` / `_get_leafs` terminate (the fuel of the model is never
    exhausted, on any node table — cyclic ones included) and emit a permutation of the node table's keys. -/
namespace DoitModel.Clean

theorem keys_pop1_perm {c : Name} {g : List Name} :
    ∀ {ns : Nodes}, alookup c ns = some g → (keys ns).Perm (c :: keys (pop1 c ns)) := by
  intro ns
  induction ns with
  | nil => intro h; simp [alookup] at h
  | cons p rest ih =>
    obtain ⟨a, v⟩ := p
    intro h
    simp only [alookup] at h
    by_cases hak : a = c
    · subst hak; simp [pop1, keys]
    · simp only [hak, if_false] at h
      have := ih h
      simp only [pop1, hak, if_false, keys, List.map_cons] at this ⊢
      exact (List.Perm.cons a this).trans (List.Perm.swap c a _)

theorem length_pop1 {c : Name} {g : List Name} :
    ∀ {ns : Nodes}, alookup c ns = some g → (pop1 c ns).length + 1 = ns.length := by
  intro ns
  induction ns with
  | nil => intro h; simp [alookup] at h
  | cons p rest ih =>
    obtain ⟨a, v⟩ := p
    intro h
    simp only [alookup] at h
    by_cases hak : a = c
    · subst hak; simp [pop1]
    · simp only [hak, if_false] at h
      have := ih h
      simp only [pop1, hak, if_false, List.length_cons]
      omega

/-- what a piece of the traversal does to the state: no fuel exhaustion, the table only shrinks,
    and `out ++ keys` gains exactly `extra` (as a multiset) -/
def Conserves (s s' : FState) (extra : List Name) : Prop :=
  s'.oof = false ∧ s'.nodes.length ≤ s.nodes.length ∧
    (s'.out ++ keys s'.nodes).Perm (extra ++ (s.out ++ keys s.nodes))

theorem getLeafs_conserves : ∀ (f : Nat) (name : Name) (ch : List Name) (s : FState),
    s.oof = false → s.nodes.length < f → Conserves s (getLeafs f name ch s) [name] := by
  intro f
  induction f with
  | zero => intro name ch s _ h; omega
  | succ f ih =>
    intro name ch s hoof hlen
    have inner : ∀ (cs : List Name) (s : FState), s.oof = false → s.nodes.length < f + 1 →
        Conserves s (cs.foldl (visit (getLeafs f)) s) [] := by
      intro cs
      induction cs with
      | nil => intro s h _; exact ⟨h, Nat.le_refl _, by simp⟩
      | cons c cs ihc =>
        intro s h hl
        simp only [List.foldl_cons]
        have step : Conserves s (visit (getLeafs f) s c) [] := by
          cases hc : alookup c s.nodes with
          | none => simp only [visit, hc]; exact ⟨h, Nat.le_refl _, by simp⟩
          | some grand =>
            simp only [visit, hc]
            have hlp := length_pop1 hc
            have := ih c grand { s with nodes := pop1 c s.nodes } h (by simp only; omega)
            obtain ⟨o, l, p⟩ := this
            refine ⟨o, by simp only at l; omega, ?_⟩
            simp only [List.nil_append]
            simp only [List.singleton_append] at p
            refine p.trans ?_
            have := (keys_pop1_perm hc).symm
            exact (List.perm_middle (l₁ := s.out) (a := c) (l₂ := keys (pop1 c s.nodes))).symm.trans
              (List.Perm.append_left s.out this)
        obtain ⟨o1, l1, p1⟩ := step
        obtain ⟨o2, l2, p2⟩ := ihc _ o1 (by omega)
        exact ⟨o2, by omega, p2.trans p1⟩
    obtain ⟨o, l, p⟩ := inner ch s hoof hlen
    refine ⟨o, l, ?_⟩
    show ((ch.foldl (visit (getLeafs f)) s).out ++ [name] ++ keys (ch.foldl (visit (getLeafs f)) s).nodes).Perm _
    simp only [List.nil_append] at p
    simp only [List.singleton_append]
    refine List.Perm.trans ?_ (List.Perm.cons name p)
    simp only [List.append_assoc, List.singleton_append]
    exact List.perm_middle

theorem flatLoop_spec (lf : Nat) : ∀ (fuel : Nat) (s : FState),
    s.oof = false → s.nodes.length ≤ fuel → s.nodes.length ≤ lf →
    (flatLoop lf fuel s).oof = false ∧ (flatLoop lf fuel s).nodes = [] ∧
      (flatLoop lf fuel s).out.Perm (s.out ++ keys s.nodes) := by
  intro fuel
  induction fuel with
  | zero =>
    intro s h hl _
    have : s.nodes = [] := List.eq_nil_of_length_eq_zero (by omega)
    simp only [flatLoop, this]
    exact ⟨h, trivial, by simp [keys]⟩
  | succ f ih =>
    intro s h hl hlf
    cases hn : s.nodes with
    | nil => simp only [flatLoop, hn]; exact ⟨h, trivial, by simp [keys]⟩
    | cons p rest =>
      obtain ⟨hd, ch⟩ := p
      simp only [flatLoop, hn]
      rw [hn] at hl hlf
      simp only [List.length_cons] at hl hlf
      obtain ⟨o, l, pm⟩ := getLeafs_conserves lf hd ch { s with nodes := rest } h (by simp only; omega)
      simp only at l
      obtain ⟨o2, n2, p2⟩ := ih _ o (by omega) (by omega)
      refine ⟨o2, n2, p2.trans (pm.trans ?_)⟩
      simp only [List.singleton_append, keys, List.map_cons]
      exact List.perm_middle.symm

/-- `flat` terminates (the model's fuel is never exhausted) on every node table and emits a permutation of its keys -/
theorem flat_spec (ns : Nodes) : (flat ns).oof = false ∧ (flat ns).out.Perm (keys ns) := by
  obtain ⟨o, _, p⟩ := flatLoop_spec (ns.length + 1) ns.length { nodes := ns, out := [], oof := false } rfl
    (Nat.le_refl _) (Nat.le_succ _)
  exact ⟨o, by simpa [flat] using p⟩

end DoitModel.Clean
