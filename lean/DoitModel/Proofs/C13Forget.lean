import DoitModel.Model.Cmds
/-! # C13 — `forget`: the records removed are exactly those of the target list; the target list is the documented set -/
namespace DoitModel.Cmds
open DoitModel.Status

theorem erase_rcd (s : St) (t k : Name) : (erase s t).rcd k = if k = t then Rcd.empty else s.rcd k := rfl

theorem eraseList_rcd (l : List Name) (s : St) (k : Name) :
    (eraseList s l).rcd k = if k ∈ l then Rcd.empty else s.rcd k := by
  induction l generalizing s with
  | nil => simp [eraseList]
  | cons a as ih =>
    simp only [eraseList, List.foldl_cons] at ih ⊢
    rw [ih (erase s a), erase_rcd]
    by_cases h1 : k ∈ as
    · simp [h1]
    · by_cases h2 : k = a
      · simp [h2]
      · simp [h1, h2]

theorem eraseList_fs (l : List Name) (s : St) : (eraseList s l).fs = s.fs ∧ (eraseList s l).defs = s.defs
    ∧ (eraseList s l).checker = s.checker := by
  induction l generalizing s with
  | nil => simp [eraseList]
  | cons a as ih =>
    simp only [eraseList, List.foldl_cons] at ih ⊢
    have := ih (erase s a)
    simpa [erase] using this

theorem mem_withSubs (g : Graph) (l : List Name) (x : Name) :
    x ∈ withSubs g l ↔ x ∈ l ∨ ∃ t ∈ l, x ∈ subtasks g t := by
  simp only [withSubs, List.mem_flatMap, List.mem_cons]
  constructor
  · rintro ⟨t, ht, h | h⟩
    · exact Or.inl (h ▸ ht)
    · exact Or.inr ⟨t, ht, h⟩
  · rintro (h | ⟨t, ht, h⟩)
    · exact ⟨x, h, Or.inl rfl⟩
    · exact ⟨t, ht, Or.inr h⟩

/-! ## `tasks_and_deps_iter` yields exactly the names reachable along `task_dep` / `setup` edges -/

theorem pushDeps_queue_mem (processed : List Name) (ds q : List Name) (x : Name) :
    x ∈ (pushDeps processed q ds).1 → x ∈ q ∨ x ∈ ds := by
  induction ds generalizing q with
  | nil => intro h; exact Or.inl h
  | cons d ds ih =>
    intro h
    simp only [pushDeps] at h
    split at h
    · rcases ih q h with h | h
      · exact Or.inl h
      · exact Or.inr (List.mem_cons_of_mem _ h)
    · rcases ih (q ++ [d]) h with h | h
      · rcases List.mem_append.1 h with h | h
        · exact Or.inl h
        · simp at h; exact Or.inr (h ▸ List.mem_cons_self)
      · exact Or.inr (List.mem_cons_of_mem _ h)

theorem pushDeps_yield_mem (processed : List Name) (ds q : List Name) (x : Name) :
    x ∈ (pushDeps processed q ds).2 → x ∈ ds := by
  induction ds generalizing q with
  | nil => intro h; simp [pushDeps] at h
  | cons d ds ih =>
    intro h
    simp only [pushDeps] at h
    split at h
    · rcases List.mem_cons.1 h with h | h
      · exact h ▸ List.mem_cons_self
      · exact List.mem_cons_of_mem _ (ih q h)
    · exact List.mem_cons_of_mem _ (ih _ h)

theorem pushDeps_queue_mono (processed : List Name) (ds q : List Name) (x : Name) (hx : x ∈ q) :
    x ∈ (pushDeps processed q ds).1 := by
  induction ds generalizing q with
  | nil => exact hx
  | cons d ds ih =>
    simp only [pushDeps]
    split
    · exact ih q hx
    · exact ih _ (List.mem_append_left _ hx)

/-- every dependency ends up processed, queued, … (nothing is dropped) -/
theorem pushDeps_covers (processed : List Name) (ds q : List Name) (x : Name) (hx : x ∈ ds) :
    x ∈ processed ∨ x ∈ (pushDeps processed q ds).1 := by
  induction ds generalizing q with
  | nil => cases hx
  | cons d ds ih =>
    simp only [pushDeps]
    rcases List.mem_cons.1 hx with h | h
    · subst h
      split
      · rename_i hc
        rcases hc with hc | hc
        · exact Or.inl hc
        · exact Or.inr (pushDeps_queue_mono _ _ _ _ hc)
      · exact Or.inr (pushDeps_queue_mono _ _ _ _ (List.mem_append_right _ List.mem_cons_self))
    · split
      · exact ih q h
      · exact ih _ h

/-- soundness: whatever is yielded is reachable, provided queue and processed are -/
theorem tdIter_sound (g : Graph) (sel : List Name) :
    ∀ (fuel : Nat) (processed q out : List Name), (∀ x ∈ q, Reach g sel x) →
      tdIter g fuel processed q = some out → ∀ x ∈ out, Reach g sel x := by
  intro fuel
  induction fuel with
  | zero =>
    intro processed q out hq h x hx
    cases q with
    | nil => simp [tdIter] at h; subst h; cases hx
    | cons t q => simp [tdIter] at h
  | succ n ih =>
    intro processed q out hq h x hx
    cases q with
    | nil => simp [tdIter] at h; subst h; cases hx
    | cons t q =>
      simp only [tdIter] at h
      cases hr : tdIter g n (t :: processed) (pushDeps (t :: processed) q (g.succs t)).1 with
      | none => simp [hr] at h
      | some rest =>
        simp only [hr, Option.some.injEq] at h
        subst h
        have ht : Reach g sel t := hq t List.mem_cons_self
        have hq' : ∀ y ∈ (pushDeps (t :: processed) q (g.succs t)).1, Reach g sel y := by
          intro y hy
          rcases pushDeps_queue_mem _ _ _ _ hy with hy | hy
          · exact hq y (List.mem_cons_of_mem _ hy)
          · exact Reach.step ht hy
        rcases List.mem_cons.1 hx with hx | hx
        · exact hx ▸ ht
        · rcases List.mem_append.1 hx with hx | hx
          · exact Reach.step ht (pushDeps_yield_mem _ _ _ _ hx)
          · exact ih _ _ _ hq' hr x hx

/-- completeness: breadth-first invariant (successors of processed names are processed or queued) ⇒ when the
    iteration ends, everything queued was yielded and the yielded ∪ processed set is closed under successors -/
theorem tdIter_complete (g : Graph) :
    ∀ (fuel : Nat) (processed q out : List Name),
      (∀ y ∈ processed, ∀ x ∈ g.succs y, x ∈ processed ∨ x ∈ q) →
      tdIter g fuel processed q = some out →
      (∀ x ∈ q, x ∈ out) ∧
      ∀ y, (y ∈ processed ∨ y ∈ out) → ∀ x ∈ g.succs y, x ∈ processed ∨ x ∈ out := by
  intro fuel
  induction fuel with
  | zero =>
    intro processed q out hpre h
    cases q with
    | nil =>
      simp [tdIter] at h; subst h
      refine ⟨by simp, ?_⟩
      intro y hy x hx
      rcases hy with hy | hy
      · exact hpre y hy x hx
      · cases hy
    | cons t q => simp [tdIter] at h
  | succ n ih =>
    intro processed q out hpre h
    cases q with
    | nil =>
      simp [tdIter] at h; subst h
      refine ⟨by simp, ?_⟩
      intro y hy x hx
      rcases hy with hy | hy
      · exact hpre y hy x hx
      · cases hy
    | cons t q =>
      simp only [tdIter] at h
      cases hr : tdIter g n (t :: processed) (pushDeps (t :: processed) q (g.succs t)).1 with
      | none => simp [hr] at h
      | some rest =>
        simp only [hr, Option.some.injEq] at h
        subst h
        have hpre' : ∀ y ∈ t :: processed, ∀ x ∈ g.succs y,
            x ∈ t :: processed ∨ x ∈ (pushDeps (t :: processed) q (g.succs t)).1 := by
          intro y hy x hx
          rcases List.mem_cons.1 hy with hy | hy
          · subst hy; exact pushDeps_covers _ _ _ _ hx
          · rcases hpre y hy x hx with h | h
            · exact Or.inl (List.mem_cons_of_mem _ h)
            · rcases List.mem_cons.1 h with h | h
              · exact Or.inl (h ▸ List.mem_cons_self)
              · exact Or.inr (pushDeps_queue_mono _ _ _ _ h)
        obtain ⟨hq, hcl⟩ := ih _ _ _ hpre' hr
        have lift : ∀ x, (x ∈ t :: processed ∨ x ∈ rest) →
            x ∈ processed ∨ x ∈ t :: ((pushDeps (t :: processed) q (g.succs t)).2 ++ rest) := by
          intro x hx
          rcases hx with hx | hx
          · rcases List.mem_cons.1 hx with hx | hx
            · exact Or.inr (hx ▸ List.mem_cons_self)
            · exact Or.inl hx
          · exact Or.inr (List.mem_cons_of_mem _ (List.mem_append_right _ hx))
        refine ⟨?_, ?_⟩
        · intro x hx
          rcases List.mem_cons.1 hx with hx | hx
          · exact hx ▸ List.mem_cons_self
          · exact List.mem_cons_of_mem _ (List.mem_append_right _ (hq x (pushDeps_queue_mono _ _ _ _ hx)))
        · intro y hy x hx
          have hy' : y ∈ t :: processed ∨ y ∈ rest := by
            rcases hy with hy | hy
            · exact Or.inl (List.mem_cons_of_mem _ hy)
            · rcases List.mem_cons.1 hy with hy | hy
              · exact Or.inl (hy ▸ List.mem_cons_self)
              · rcases List.mem_append.1 hy with hy | hy
                · rcases pushDeps_covers (t :: processed) (g.succs t) q y (pushDeps_yield_mem _ _ _ _ hy) with h | h
                  · exact Or.inl h
                  · exact Or.inr (hq y h)
                · exact Or.inr hy
          exact lift x (hcl y hy' x hx)

/-- with the fuel not exhausted, `tasks_and_deps_iter` from `sel` yields exactly the reachable names -/
theorem tdIter_iff_reach (g : Graph) (fuel : Nat) (sel out : List Name) (h : tdIter g fuel [] sel = some out) (x : Name) :
    x ∈ out ↔ Reach g sel x := by
  constructor
  · exact tdIter_sound g sel fuel [] sel out (fun y hy => Reach.base hy) h x
  · intro hr
    obtain ⟨hq, hcl⟩ := tdIter_complete g fuel [] sel out (by intro y hy; cases hy) h
    induction hr with
    | base hx => exact hq _ hx
    | step _ hxy ih =>
      rcases hcl _ (Or.inr ih) _ hxy with h | h
      · cases h
      · exact h

end DoitModel.Cmds

namespace DoitModel.Cmds
open DoitModel.Status

/-- the selection `forget` is documented to clear (property text): everything under `--all`; otherwise the named
    tasks -- the default tasks, or all tasks if none are configured, when none is named -- with their sub-tasks, plus
    their declared `task_dep` / `setup` closure under `--follow-sub` -/
def ForgetSel (g : Graph) (a : ForgetArgs) (dflt : Option (List Name)) (x : Name) : Prop :=
  a.all = true ∨
  (¬(a.names = [] ∧ a.disableDefault = true) ∧
    if a.followSub = true then Reach g ((selTasks a.names dflt).getD g.names) x
    else x ∈ (selTasks a.names dflt).getD g.names ∨ ∃ t ∈ (selTasks a.names dflt).getD g.names, x ∈ subtasks g t)

theorem firstUnknown_some {g : Graph} {l : List Name} {n : Name} (h : firstUnknown g l = some n) : n ∈ l ∧ n ∉ g.names := by
  unfold firstUnknown at h
  have h1 := List.mem_of_find?_eq_some h
  have h2 := List.find?_some h
  simp at h2
  exact ⟨h1, h2⟩

theorem firstUnknown_none {g : Graph} {l : List Name} (h : firstUnknown g l = none) : ∀ n ∈ l, n ∈ g.names := by
  unfold firstUnknown at h
  intro n hn
  have := List.find?_eq_none.1 h n hn
  simpa using this

/-- what `Forget._execute` (repaired) resolves its arguments to -/
theorem forgetTarget_spec (g : Graph) (a : ForgetArgs) (dflt : Option (List Name)) :
    match forgetTarget true g a dflt with
    | .tasks l => ∀ x, x ∈ l ↔ ForgetSel g a dflt x
    | .everything => ∀ x, ForgetSel g a dflt x
    | .nothing => ∀ x, ¬ForgetSel g a dflt x
    | .notATask n => a.all = false ∧ n ∈ (selTasks a.names dflt).getD [] ∧ n ∉ g.names
    | .crash => False
    | .fuel => True := by
  unfold forgetTarget
  by_cases hall : a.all = true
  · simp only [hall, if_true]
    intro x; exact Or.inl hall
  · simp only [hall]
    by_cases hn : (a.names.isEmpty && a.disableDefault) = true
    · simp only [hn, if_true]
      intro x hx
      rcases hx with hx | ⟨hx, _⟩
      · exact hall hx
      · apply hx
        simp only [Bool.and_eq_true, List.isEmpty_iff] at hn
        exact hn
    · simp only [hn]
      have hn' : ¬(a.names = [] ∧ a.disableDefault = true) := by
        intro h; apply hn; simp [h.1, h.2]
      cases hu : firstUnknown g ((selTasks a.names dflt).getD []) with
      | some n =>
        simp only [Bool.false_eq_true, if_false]
        exact ⟨trivial, (firstUnknown_some hu).1, (firstUnknown_some hu).2⟩
      | none =>
        simp only [Bool.false_eq_true, if_false]
        have hbase : forgetBase true g (selTasks a.names dflt) = some ((selTasks a.names dflt).getD g.names) := by
          cases selTasks a.names dflt <;> simp [forgetBase]
        simp only [hbase, forgetExpand]
        by_cases hs : a.followSub = true
        · simp only [hs, if_true]
          cases ht : tdIter g (tdFuel g ((selTasks a.names dflt).getD g.names)) [] ((selTasks a.names dflt).getD g.names) with
          | none => trivial
          | some l =>
            intro x
            rw [tdIter_iff_reach g _ _ _ ht x]
            simp [ForgetSel, hall, hn', hs]
        · simp only [hs]
          intro x
          rw [mem_withSubs]
          simp [ForgetSel, hall, hn', hs]

theorem eraseAll_rcd (s : St) (k : Name) : (eraseAll s).rcd k = Rcd.empty := rfl

/-! ## `forget` does not look at `calc_dep` -/

theorem tdIter_calcDep (g : Graph) (c : Name → List Name) (fuel : Nat) (P q : List Name) :
    tdIter { g with calcDep := c } fuel P q = tdIter g fuel P q := by
  induction fuel generalizing P q with
  | zero => cases q <;> rfl
  | succ n ih =>
    cases q with
    | nil => rfl
    | cons t q =>
      simp only [tdIter]
      have hs : Graph.succs { g with calcDep := c } t = g.succs t := rfl
      rw [hs, ih]

/-- what `forget` resolves its arguments to is the same whatever the `calc_dep` edges of the task set are -/
theorem forgetTarget_calcDep (fixed : Bool) (g : Graph) (c : Name → List Name) (a : ForgetArgs) (dflt : Option (List Name)) :
    forgetTarget fixed { g with calcDep := c } a dflt = forgetTarget fixed g a dflt := by
  unfold forgetTarget
  have h1 : ∀ l, firstUnknown { g with calcDep := c } l = firstUnknown g l := fun _ => rfl
  have h2 : ∀ o, forgetBase fixed { g with calcDep := c } o = forgetBase fixed g o := fun _ => rfl
  have h3 : ∀ fs base, forgetExpand { g with calcDep := c } fs base = forgetExpand g fs base := by
    intro fs base
    unfold forgetExpand
    have hf : tdFuel { g with calcDep := c } base = tdFuel g base := rfl
    have hw : withSubs { g with calcDep := c } base = withSubs g base := rfl
    rw [hf, tdIter_calcDep, hw]
  simp only [h1, h2, h3]

end DoitModel.Cmds
