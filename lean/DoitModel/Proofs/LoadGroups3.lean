import DoitModel.Proofs.LoadGroups2
/-! from the per-generator invariant to the loaded task list -/
namespace DoitModel.Load

/-- every sub-task is attached to a group task that depends on all sub-tasks of that group in yield order -/
def GroupsWF (ts : List Task) : Prop :=
  ∀ t ∈ ts, ∀ b, t.subtaskOf = some b →
    ∃ g ∈ ts, g.name = b ∧ g.hasSubtask = true ∧ List.Sublist (subsIn b ts) g.taskDep

theorem inv_groupsWF {tk : Tasks} {seen : List Name} (h : Inv tk seen) : GroupsWF (vals tk) := by
  intro t ht b hb
  obtain ⟨p, hp, rfl⟩ := List.mem_map.mp ht
  obtain ⟨g, hg, hgs⟩ := h.hasGroup p hp b hb
  have hmem := lookup_mem tk b g hg
  exact ⟨g, List.mem_map.mpr ⟨(b, g), hmem, rfl⟩, h.keyName _ hmem, hgs, h.groupDeps b g hg⟩

theorem groupsWF_of_plain (ts : List Task) (h : ∀ t ∈ ts, t.subtaskOf = none) : GroupsWF ts := by
  intro t ht b hb
  rw [h t ht] at hb; cases hb

theorem generate_groupsWF (fn : Name) (r : Result) (ts : List Task) (htidy : resultPlain r = true)
    (h : generate fn r = .ok ts) : GroupsWF ts := by
  cases r with
  | none => simp [generate] at h; subst h; exact groupsWF_of_plain _ (by simp)
  | other => simp [generate] at h
  | task t =>
    simp [generate] at h; subst h
    apply groupsWF_of_plain
    intro t' ht'
    simp at ht'; subst ht'
    simp only [resultPlain, plainTask, Bool.and_eq_true, Option.isNone_iff_eq_none] at htidy
    exact htidy.1
  | dict d =>
    simp only [generate] at h
    split at h
    · simp at h
    · rename_i t hd
      cases h
      apply groupsWF_of_plain
      intro t' ht'
      simp at ht'; subst ht'
      unfold fromReturn at hd
      split at hd
      · simp at hd
      · exact (dictToTask_plain _ t' hd).1
  | gen items =>
    simp only [resultPlain] at htidy
    simp only [generate] at h
    split at h
    · simp at h
    · split at h
      · simp at h
      · rename_i g hg
        cases h
        apply groupsWF_of_plain
        intro t' ht'
        simp at ht'; subst ht'
        exact (groupTask_ok fn [] t' hg).2.2.1
    · rename_i tasks hy
      cases h
      obtain ⟨seen', hinv⟩ := yieldAll_inv fn _ inv_nil htidy hy
      exact inv_groupsWF hinv

theorem subsIn_append (b : Name) (s F : List Task) : subsIn b (s ++ F) = subsIn b s ++ subsIn b F := by
  simp [subsIn]

theorem subsIn_nil_of (b : Name) (l : List Task) (h : ∀ t ∈ l, t.subtaskOf ≠ some b) : subsIn b l = [] := by
  unfold subsIn
  rw [List.map_eq_nil_iff, List.filter_eq_nil_iff]
  intro t ht hsub
  exact h t ht (by simpa using hsub)

theorem groupsWF_append (s F : List Task) (hs : GroupsWF s) (hF : GroupsWF F)
    (hnd : ((s ++ F).map (·.name)).Nodup) : GroupsWF (s ++ F) := by
  rw [List.map_append, List.nodup_append] at hnd
  obtain ⟨_, _, hdisj⟩ := hnd
  intro t ht b hb
  rcases List.mem_append.mp ht with hts | htF
  · obtain ⟨g, hg, hn, hh, hsub⟩ := hs t hts b hb
    refine ⟨g, List.mem_append.mpr (Or.inl hg), hn, hh, ?_⟩
    rw [subsIn_append]
    have : subsIn b F = [] := by
      apply subsIn_nil_of
      intro t' ht' hb'
      obtain ⟨g', hg', hn', _, _⟩ := hF t' ht' b hb'
      exact hdisj g.name (List.mem_map_of_mem hg) g'.name (List.mem_map_of_mem hg') (by rw [hn, hn'])
    rw [this, List.append_nil]
    exact hsub
  · obtain ⟨g, hg, hn, hh, hsub⟩ := hF t htF b hb
    refine ⟨g, List.mem_append.mpr (Or.inr hg), hn, hh, ?_⟩
    rw [subsIn_append]
    have : subsIn b s = [] := by
      apply subsIn_nil_of
      intro t' ht' hb'
      obtain ⟨g', hg', hn', _, _⟩ := hs t' ht' b hb'
      exact hdisj g'.name (List.mem_map_of_mem hg') g.name (List.mem_map_of_mem hg) (by rw [hn, hn'])
    rw [this, List.nil_append]
    exact hsub

theorem generateAll_groupsWF (cmds : List Name) (cs : List Creator) (ts : List Task)
    (htidy : ∀ c ∈ cs, resultPlain c.result = true) (h : generateAll cmds cs = .ok ts)
    (hnd : (ts.map (·.name)).Nodup) : GroupsWF ts := by
  induction cs generalizing ts with
  | nil => simp [generateAll] at h; subst h; exact groupsWF_of_plain _ (by simp)
  | cons c rest ih =>
    unfold generateAll at h
    split at h
    · simp at h
    · rename_i seg hseg
      split at h
      · simp at h
      · split at h
        · simp at h
        · rename_i more hmore
          cases h
          have hnd2 : (more.map (·.name)).Nodup := by
            rw [List.map_append, List.nodup_append] at hnd; exact hnd.2.1
          exact groupsWF_append seg more
            (generate_groupsWF c.name c.result seg (htidy c (by simp)) hseg)
            (ih more (fun c' hc' => htidy c' (by simp [hc'])) hmore hnd2) hnd

theorem subsIn_map_extends (b : Name) (ts : List Task) (f : Task → Task) (hf : ∀ t, Extends t (f t)) :
    subsIn b (ts.map f) = subsIn b ts := by
  induction ts with
  | nil => rfl
  | cons t rest ih =>
    have h1 : (f t).subtaskOf = t.subtaskOf := (hf t).2.2.2.2.2.1
    have h2 : (f t).name = t.name := (hf t).1
    simp only [subsIn, List.map_cons, List.filter_cons, h1] at ih ⊢
    split
    · simp [h2, ih]
    · exact ih

theorem groupsWF_map_extends (ts : List Task) (f : Task → Task) (hf : ∀ t, Extends t (f t)) (h : GroupsWF ts) :
    GroupsWF (ts.map f) := by
  intro t' ht' b hb
  obtain ⟨t, ht, rfl⟩ := List.mem_map.mp ht'
  have h1 : (f t).subtaskOf = t.subtaskOf := (hf t).2.2.2.2.2.1
  rw [h1] at hb
  obtain ⟨g, hg, hn, hh, hsub⟩ := h t ht b hb
  obtain ⟨gn, _, _, _, _, _, gh, _, extra, gd⟩ := hf g
  refine ⟨f g, List.mem_map_of_mem hg, by rw [gn, hn], by rw [gh, hh], ?_⟩
  rw [subsIn_map_extends b ts f hf, gd]
  exact hsub.trans (List.sublist_append_left _ _)

end DoitModel.Load
