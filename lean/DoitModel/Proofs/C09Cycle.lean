import DoitModel.Proofs.C09OrdF
import DoitModel.Proofs.RunMonFast
/-! # C09 — from the order of terminal reports to the monitor's closure graph: a task with a terminal report lies on
    no cycle of `edgesAt`; at a normal end every member of `closureOf` has a terminal report -/
namespace DoitModel.Run

variable {inp : RunInput}

/-! ### list lemmas -/

theorem mem_addNew9 {acc xs : List Name} {x : Name} : x ∈ addNew acc xs ↔ x ∈ acc ∨ x ∈ xs := by
  induction xs generalizing acc with
  | nil => simp [addNew]
  | cons y ys ih =>
    have e : addNew acc (y :: ys) = addNew (if y ∈ acc then acc else acc ++ [y]) ys := by simp [addNew]
    rw [e, ih]
    by_cases hy : y ∈ acc
    · simp only [hy, if_true, List.mem_cons]
      constructor
      · rintro (a | a)
        · exact Or.inl a
        · exact Or.inr (Or.inr a)
      · rintro (a | a | a)
        · exact Or.inl a
        · subst a; exact Or.inl hy
        · exact Or.inr a
    · simp only [hy, if_false, List.mem_cons, List.mem_append, List.not_mem_nil, or_false]
      constructor
      · rintro ((a | a) | a)
        · exact Or.inl a
        · exact Or.inr (Or.inl a)
        · exact Or.inr (Or.inr a)
      · rintro (a | a | a)
        · exact Or.inl (Or.inl a)
        · exact Or.inl (Or.inr a)
        · exact Or.inr a

/-- a set of tasks closed under `succ` contains everything `reachIterC09` finds from members of it -/
theorem reachIter_closed {succ : Name → List Name} (P : Name → Prop) (hstep : ∀ x, P x → ∀ y ∈ succ x, P y) :
    ∀ (k : Nat) (acc : List Name), (∀ x ∈ acc, P x) → ∀ x ∈ reachIterC09 succ k acc, P x := by
  intro k
  induction k with
  | zero => intro acc h x hx; exact h x hx
  | succ k ih =>
    intro acc h x hx
    simp only [reachIterC09] at hx
    refine ih _ ?_ x hx
    intro y hy
    rcases mem_addNew9.mp hy with a | a
    · exact h y a
    · obtain ⟨z, hz, hyz⟩ := List.mem_flatMap.mp a
      exact hstep z (h z hz) y hyz

theorem foldl_addNew_closed {E : Name → List Name} (P : Name → Prop) (hstep : ∀ x, P x → ∀ y ∈ E x, P y) :
    ∀ (l acc : List Name), (∀ x ∈ acc, P x) → (∀ x ∈ l, P x) →
      ∀ x ∈ l.foldl (fun acc t => addNew acc (E t)) acc, P x := by
  intro l
  induction l with
  | nil => intro acc h _ x hx; exact h x hx
  | cons t ts ih =>
    intro acc h hl x hx
    simp only [List.foldl_cons] at hx
    refine ih _ ?_ (fun y hy => hl y (by simp [hy])) x hx
    intro y hy
    rcases mem_addNew9.mp hy with a | a
    · exact h y a
    · exact hstep t (hl t (by simp)) y a

/-! ### the observable trace and the statuses -/

theorem finishedIn_trace {s : Sys} {x : Name} (h : finishedIn (trace inp s) x = true) :
    Ev.success x ∈ s.events ∨ Ev.skipUtd x ∈ s.events := by
  unfold finishedIn trace at h
  simp only [List.any_eq_true, List.mem_reverse, List.mem_filter] at h
  obtain ⟨e, ⟨he, _⟩, hf⟩ := h
  cases e <;> simp [Ev.isFinishOf] at hf
  · subst hf; exact Or.inr he
  · subst hf; exact Or.inl he

theorem trace_finishedIn {s : Sys} {x : Name} (h : Ev.success x ∈ s.events ∨ Ev.skipUtd x ∈ s.events) :
    finishedIn (trace inp s) x = true := by
  unfold finishedIn trace
  simp only [List.any_eq_true, List.mem_reverse, List.mem_filter]
  rcases h with a | a
  · exact ⟨_, ⟨a, by simp [hidden]⟩, by simp [Ev.isFinishOf]⟩
  · exact ⟨_, ⟨a, by simp [hidden]⟩, by simp [Ev.isFinishOf]⟩

theorem finishedIn_good {s : Sys} (hT : InvT inp s) {x : Name} (h : finishedIn (trace inp s) x = true) :
    (stOf s x).good = true := hT.ev x (finishedIn_trace h)

theorem good_finishedIn {s : Sys} (h2 : Inv2 inp s) {x : Name} (h : (stOf s x).good = true) :
    finishedIn (trace inp s) x = true := by
  apply trace_finishedIn
  rcases good_finBefore h2 h with a | a
  · exact Or.inl a
  · exact Or.inr a

/-! ### what the monitor computes is what the run determined -/

theorem calcsAt_calcG {σ : Name → RS} {tr : List Ev} {n : Name} (hfin : ∀ x, finishedIn tr x = true → (σ x).good = true) :
    ∀ (k : Nat) (cs : List Name), (∀ c ∈ cs, CalcG inp σ n c) → ∀ c ∈ calcsAt inp tr k cs, CalcG inp σ n c := by
  intro k
  induction k with
  | zero => intro cs h c hc; exact h c hc
  | succ k ih =>
    intro cs h c hc
    simp only [calcsAt] at hc
    refine ih _ ?_ c hc
    intro y hy
    rcases mem_addNew9.mp hy with a | a
    · exact h y a
    · simp only [List.mem_flatMap, List.mem_filter] at a
      obtain ⟨p, ⟨hp, hf⟩, hyp⟩ := a
      exact .res (h p hp) (hfin p hf) hyp

theorem calcsAt_base {tr : List Ev} : ∀ (k : Nat) (cs : List Name), ∀ c ∈ cs, c ∈ calcsAt inp tr k cs := by
  intro k
  induction k with
  | zero => intro cs c hc; exact hc
  | succ k ih =>
    intro cs c hc
    simp only [calcsAt]
    exact ih _ c (mem_addNew9.mpr (Or.inl hc))

/-- the fuel `nTasks` suffices for the fixed point of `calcsAt`: the list is closed under what its finished members
    deliver as calc_dep.  (Holds whenever every task name is below `nTasks`: `calcsSat_of_bounded`.) -/
def CalcsSat (inp : RunInput) (nTasks : Nat) (tr : List Ev) : Prop :=
  ∀ n, ∀ c ∈ calcsAt inp tr nTasks (inp.calcDep n), finishedIn tr c = true →
    ∀ x ∈ (inp.calcRes c).calcs, x ∈ calcsAt inp tr nTasks (inp.calcDep n)

theorem calcG_calcsAt {σ : Name → RS} {tr : List Ev} {nTasks : Nat} (hsat : CalcsSat inp nTasks tr)
    (hgood : ∀ x, (σ x).good = true → finishedIn tr x = true) {n c : Name} (h : CalcG inp σ n c) :
    c ∈ calcsAt inp tr nTasks (inp.calcDep n) := by
  induction h with
  | base h => exact calcsAt_base _ _ _ h
  | res _ hg hc ih => exact hsat n _ ih (hgood _ hg) _ hc

/-- the first three parts of `edgesAtGood` (the graph without the deliveries of failed calc_deps; `depsAt`, `ranFirst`) -/
def stageAt (inp : RunInput) (nTasks : Nat) (tr : List Ev) (t : Name) : List Name :=
  inp.taskDep t ++ calcsAt inp tr nTasks (inp.calcDep t) ++
    (((calcsAt inp tr nTasks (inp.calcDep t)).filter (finishedIn tr)).flatMap fun c =>
      (inp.calcRes c).tasks ++ (inp.calcRes c).files)

/-- the first three parts of `edgesAt` -/
def stageAtF (inp : RunInput) (nTasks : Nat) (tr : List Ev) (t : Name) : List Name :=
  inp.taskDep t ++ calcsRun inp nTasks tr t ++ deliveredAt inp nTasks tr t

theorem edgesAt_eq (nTasks : Nat) (tr : List Ev) (t : Name) :
    edgesAt inp nTasks tr t = stageAtF inp nTasks tr t ++ (if ranFirst inp nTasks tr t then inp.setup t else []) := rfl

/-- what the monitor's `resAt` reads off the trace, in terms of the statuses: the result of an executed / up-to-date
    calc task, or the values of one that failed and satisfies `P`, or nothing -/
def ResOK (inp : RunInput) (σ : Name → RS) (P : Name → Prop) (tr : List Ev) : Prop :=
  ∀ c, (resAt inp tr c = inp.calcRes c ∧ (σ c).good = true) ∨
    (resAt inp tr c = inp.calcResFail c ∧ σ c = .fail ∧ P c) ∨
    ((resAt inp tr c).calcs = [] ∧ (resAt inp tr c).tasks = [] ∧ (resAt inp tr c).files = [])

theorem calcsAtF_calcH {σ : Name → RS} {P : Name → Prop} {tr : List Ev} {n : Name} (hres : ResOK inp σ P tr) :
    ∀ (k : Nat) (cs : List Name), (∀ c ∈ cs, CalcH inp σ P n c) → ∀ c ∈ calcsAtF inp tr k cs, CalcH inp σ P n c := by
  intro k
  induction k with
  | zero => intro cs h c hc; exact h c hc
  | succ k ih =>
    intro cs h c hc
    simp only [calcsAtF] at hc
    refine ih _ ?_ c hc
    intro y hy
    rcases mem_addNew9.mp hy with a | a
    · exact h y a
    · obtain ⟨p, hp, hyp⟩ := List.mem_flatMap.mp a
      rcases hres p with ⟨e, g⟩ | ⟨e, f, hP⟩ | ⟨e, _, _⟩
      · rw [e] at hyp; exact .res (h p hp) g hyp
      · rw [e] at hyp; exact .resF (h p hp) f hP hyp
      · rw [e] at hyp; cases hyp

theorem stageAtF_stageH {σ : Name → RS} {P : Name → Prop} {tr : List Ev} {nTasks : Nat} {n d : Name}
    (hres : ResOK inp σ P tr) (h : d ∈ stageAtF inp nTasks tr n) : StageH inp σ P n d := by
  have hc := calcsAtF_calcH (inp := inp) (n := n) hres nTasks (inp.calcDep n) (fun c hc => .base hc)
  simp only [stageAtF, calcsRun, deliveredAt, calcsAtQ_eq, List.mem_append, List.mem_flatMap] at h
  rcases h with (a | a) | ⟨p, hp, hd⟩
  · exact Or.inl a
  · exact Or.inr (Or.inl (hc d a))
  · rcases hres p with ⟨e, g⟩ | ⟨e, f, hP⟩ | ⟨_, e1, e2⟩
    · rw [e] at hd; exact Or.inr (Or.inr ⟨p, hc p hp, Or.inl ⟨g, hd⟩⟩)
    · rw [e] at hd; exact Or.inr (Or.inr ⟨p, hc p hp, Or.inr ⟨f, hP, hd⟩⟩)
    · rw [e1, e2] at hd; rcases hd with hd | hd <;> cases hd

theorem stageAt_stageG {σ : Name → RS} {tr : List Ev} {nTasks : Nat} {n d : Name}
    (hfin : ∀ x, finishedIn tr x = true → (σ x).good = true) (h : d ∈ stageAt inp nTasks tr n) :
    StageG inp σ n d := by
  have hc := calcsAt_calcG (inp := inp) (n := n) hfin nTasks (inp.calcDep n) (fun c hc => .base hc)
  simp only [stageAt, List.mem_append, List.mem_flatMap, List.mem_filter] at h
  rcases h with (a | a) | ⟨p, ⟨hp, hf⟩, hd⟩
  · exact Or.inl a
  · exact Or.inr (Or.inl (hc d a))
  · exact Or.inr (Or.inr ⟨p, hc p hp, hfin p hf, hd⟩)

theorem stageG_stageAt {σ : Name → RS} {tr : List Ev} {nTasks : Nat} {n d : Name} (hsat : CalcsSat inp nTasks tr)
    (hgood : ∀ x, (σ x).good = true → finishedIn tr x = true) (h : StageG inp σ n d) :
    d ∈ stageAt inp nTasks tr n := by
  simp only [stageAt, List.mem_append, List.mem_flatMap, List.mem_filter]
  rcases h with a | a | ⟨p, a, b, c⟩
  · exact Or.inl (Or.inl a)
  · exact Or.inl (Or.inr (calcG_calcsAt hsat hgood a))
  · exact Or.inr ⟨p, ⟨calcG_calcsAt hsat hgood a, hgood p b⟩, c⟩

theorem ranFirst_runFirstG {σ : Name → RS} {tr : List Ev} {nTasks : Nat} {n : Name} (hsat : CalcsSat inp nTasks tr)
    (hfin : ∀ x, finishedIn tr x = true → (σ x).good = true)
    (hgood : ∀ x, (σ x).good = true → finishedIn tr x = true) (h : ranFirst inp nTasks tr n = true) :
    RunFirstG inp σ n := by
  unfold ranFirst at h
  simp only [Bool.and_eq_true, Bool.not_eq_true', bne_iff_ne, ne_eq, beq_iff_eq, List.all_eq_true] at h
  obtain ⟨⟨⟨h1, h2⟩, h3⟩, h4⟩ := h
  refine ⟨h1, h2, h3, ?_⟩
  intro x hx
  exact hfin x (h4 x (stageG_stageAt hsat hgood hx))

/-! ### the invariants of a reachable state that the monitor's graph is read against -/

/-- `InvT` + `InvTF` (order of the terminal reports, along failed deliveries too) + the C08 invariant `InvDen` (a failed
    task has a start event iff its derived outcome is a failure during its execution) -/
structure CtxC (inp : RunInput) (s : Sys) : Prop where
  hT : InvT inp s
  hTF : InvTF inp (Dyn.SF inp) s
  h2 : Inv2 inp s
  h3 : Inv3 inp s
  hG : InvG inp s
  hD : Dyn.InvDen inp s

theorem reach_ctxC {s : Sys} (h : Reach inp s) : CtxC inp s :=
  ⟨reach_invT h, reach_invTF h, reach_inv2 h, reach_inv3 h, reach_invG h, Dyn.reach_invDen h⟩

theorem preach_ctxC {s : Sys} (h : PReach inp s) : CtxC inp s :=
  ⟨preach_invT h, preach_invTF h, (preach_inv h).1, (preach_inv h).2, preach_invG h, Dyn.preach_invDen h⟩

/-- a `failure` report of `c` means the status of `c` is `fail` -/
theorem failure_fail {s : Sys} (c : CtxC inp s) {x : Name} {k : FailKind} (he : Ev.failure x k ∈ s.events) :
    stOf s x = .fail := by
  have hfin : (stOf s x).finished = true := by
    cases hf : (stOf s x).finished with
    | true => rfl
    | false =>
      have h0 := fstTerm_none_of_cTerm (c.h3.t x hf)
      obtain ⟨b, hb⟩ := fstTerm_some_of_mem he (show Ev.isTerminalOf x (Ev.failure x k) = true by simp [Ev.isTerminalOf])
      rw [h0] at hb; cases hb
  obtain ⟨d, hd, hrs⟩ := c.hD.fin x hfin
  have hk := (c.hD.rep x).2.2.2 k he
  have e : d = .fail k := hd.functional hk
  rw [← hrs, e]; rfl

theorem failedRunIn_trace {s : Sys} (c : CtxC inp s) {x : Name} (h : failedRunIn (trace inp s) x = true) :
    stOf s x = .fail ∧ Dyn.SF inp x := by
  unfold failedRunIn trace at h
  simp only [Bool.and_eq_true, List.any_eq_true, List.mem_reverse, List.mem_filter] at h
  obtain ⟨⟨e1, ⟨he1, _⟩, hs⟩, ⟨e2, ⟨he2, _⟩, hf⟩⟩ := h
  have hfail : stOf s x = .fail := by
    cases e2 <;> simp [Ev.isFailRepOf] at hf
    subst hf; exact failure_fail c he2
  have hst : started s x = true := by
    unfold started
    rw [List.any_eq_true]
    refine ⟨e1, he1, ?_⟩
    cases e1 <;> simp [Ev.isStartOf] at hs ⊢
    exact hs
  exact ⟨hfail, (c.hD.started_iff c.h3 x hfail).mp hst⟩

theorem resOK_trace {s : Sys} (c : CtxC inp s) : ResOK inp (stOf s) (Dyn.SF inp) (trace inp s) := by
  intro x
  unfold resAt
  by_cases h1 : finishedIn (trace inp s) x = true
  · exact Or.inl ⟨by simp [h1], finishedIn_good c.hT h1⟩
  · by_cases h2 : failedRunIn (trace inp s) x = true
    · exact Or.inr (Or.inl ⟨by simp [h1, h2], failedRunIn_trace c h2⟩)
    · exact Or.inr (Or.inr (by simp [h1, h2]))

/-- the work-list closure stays inside every set that contains its start and is closed under `succ` -/
theorem closureGo_closed {succ : Name → List Name} (P : Name → Prop) (hstep : ∀ x, P x → ∀ y ∈ succ x, P y) :
    ∀ (fuel : Nat) (todo acc : List Name), (∀ x ∈ todo, P x) → (∀ x ∈ acc, P x) →
      ∀ x ∈ closureGo succ fuel todo acc, P x := by
  intro fuel
  induction fuel with
  | zero => intro todo acc _ h x hx; simp only [closureGo] at hx; exact h x hx
  | succ k ih =>
    intro todo acc ht h x hx
    cases todo with
    | nil => simp only [closureGo] at hx; exact h x hx
    | cons t todo =>
      simp only [closureGo] at hx
      have hnew : ∀ y ∈ (addNew [] (succ t)).filter (fun d => d ∉ acc), P y := by
        intro y hy
        have hy' := (List.mem_filter.mp hy).1
        rcases mem_addNew9.mp hy' with e | e
        · cases e
        · exact hstep t (ht t (by simp)) y e
      refine ih _ _ ?_ ?_ x hx
      · intro y hy
        rcases List.mem_append.mp hy with e | e
        · exact ht y (by simp [e])
        · exact hnew y e
      · intro y hy
        rcases List.mem_append.mp hy with e | e
        · exact h y e
        · exact hnew y e

/-! ### the core: an edge of the closure graph leads to an older terminal report -/

theorem edge_older {s : Sys} (c : CtxC inp s) {nTasks : Nat}
    (hsat : CalcsSat inp nTasks (trace inp s)) {t : Name} {a : Nat} (ha : fstTerm s.events t = some a) :
    ∀ d ∈ edgesAt inp nTasks (trace inp s) t, ∃ b, fstTerm s.events d = some b ∧ b < a := by
  intro d hd
  rw [edgesAt_eq] at hd
  rcases List.mem_append.mp hd with x | x
  · exact c.hTF t a ha d (stageAtF_stageH (resOK_trace c) x)
  · split at x
    · rename_i hrf
      exact c.hT.g2 t a ha
        (ranFirst_runFirstG hsat (fun y hy => finishedIn_good c.hT hy) (fun y hy => good_finishedIn c.h2 hy) hrf) d x
    · cases x

/-- a task with a terminal report is on no cycle of the closure graph -/
theorem reported_not_onCycle {s : Sys} (c : CtxC inp s) {nTasks : Nat}
    (hsat : CalcsSat inp nTasks (trace inp s)) {t : Name} {a : Nat} (ha : fstTerm s.events t = some a) :
    onCycle inp nTasks (trace inp s) t = false := by
  cases hc : onCycle inp nTasks (trace inp s) t with
  | false => rfl
  | true =>
    exfalso
    unfold onCycle onCycleOf at hc
    simp only [decide_eq_true_eq] at hc
    have hstart : ∀ x ∈ addNew [] (edgesAt inp nTasks (trace inp s) t),
        ∃ b, fstTerm s.events x = some b ∧ b < a := fun x hx => by
      rcases mem_addNew9.mp hx with e | e
      · cases e
      · exact edge_older c hsat ha x e
    have := closureGo_closed (succ := edgesAt inp nTasks (trace inp s))
      (fun x => ∃ b, fstTerm s.events x = some b ∧ b < a)
      (fun x ⟨b, hb, hlt⟩ y hy => by
        obtain ⟨b', hb', hlt'⟩ := edge_older c hsat hb y hy
        exact ⟨b', hb', by omega⟩)
      _ _ _ hstart hstart t hc
    obtain ⟨b, hb, hlt⟩ := this
    rw [ha] at hb; cases hb; omega

/-- the successors of a reported task are reported -/
theorem reported_closed {s : Sys} (c : CtxC inp s) {nTasks : Nat}
    (hsat : CalcsSat inp nTasks (trace inp s)) :
    ∀ x, (∃ a, fstTerm s.events x = some a) → ∀ y ∈ edgesAt inp nTasks (trace inp s) x,
      ∃ a, fstTerm s.events y = some a := by
  rintro x ⟨a, ha⟩ y hy
  obtain ⟨b, hb, _⟩ := edge_older c hsat ha y hy
  exact ⟨b, hb⟩

/-- if every selected task is reported, every member of the monitor's closure is -/
theorem closure_reported {s : Sys} (c : CtxC inp s) {nTasks : Nat}
    (hsat : CalcsSat inp nTasks (trace inp s)) (hsel : ∀ t ∈ inp.sel, ∃ a, fstTerm s.events t = some a) :
    ∀ t ∈ closureC09 inp nTasks (trace inp s), ∃ a, fstTerm s.events t = some a := by
  have hstart : ∀ x ∈ addNew [] inp.sel, ∃ a, fstTerm s.events x = some a := by
    intro x hx
    rcases mem_addNew9.mp hx with e | e
    · cases e
    · exact hsel x e
  unfold closureC09
  exact closureGo_closed _ (reported_closed c hsat) _ _ _ hstart hstart

/-- whatever `edgesAt` lists for a started task was reported finished before the start -/
theorem started_edges_reported {s : Sys} (c : CtxC inp s) {nTasks : Nat}
    (hsat : CalcsSat inp nTasks (trace inp s)) {t w : Nat} (hs : Ev.start t w ∈ s.events) :
    ∀ d ∈ edgesAt inp nTasks (trace inp s) t, ∃ a, fstTerm s.events d = some a := by
  obtain ⟨pre, post, he⟩ := List.append_of_mem hs
  have hd := start_after_depsAt c.h2 c.hG he nTasks (trace inp s)
  have fin : ∀ d ∈ depsAt inp nTasks (trace inp s) t, finBefore s.events d :=
    fun d hin => finBefore_mono (fun e he' => by rw [he]; simp [he']) (hd d hin)
  have hgoodS : ∀ x ∈ stageAt inp nTasks (trace inp s) t, (stOf s x).good = true := by
    intro x hx
    apply c.hT.ev x
    apply fin
    simp only [stageAt, depsAt, List.mem_append] at hx ⊢
    rcases hx with (a | a) | a
    · exact Or.inl (Or.inl (Or.inl a))
    · exact Or.inl (Or.inr a)
    · exact Or.inr a
  have hgood : ∀ p, CalcG inp (stOf s) t p → (stOf s p).good = true := fun p hp =>
    hgoodS p (stageG_stageAt hsat (fun y hy => good_finishedIn c.h2 hy) (Or.inr (Or.inl hp)))
  intro d hmem
  have hin : d ∈ depsAt inp nTasks (trace inp s) t := by
    rw [edgesAt_eq] at hmem
    rcases List.mem_append.mp hmem with a | a
    · have hG : StageG inp (stOf s) t d := (stageAtF_stageH (resOK_trace c) a).toG hgood
      have := stageG_stageAt hsat (fun y hy => good_finishedIn c.h2 hy) hG
      simp only [stageAt, depsAt, List.mem_append] at this ⊢
      rcases this with (a | a) | a
      · exact Or.inl (Or.inl (Or.inl a))
      · exact Or.inl (Or.inr a)
      · exact Or.inr a
    · split at a
      · simp only [depsAt, List.mem_append]; exact Or.inl (Or.inl (Or.inr a))
      · cases a
  exact finBefore_fstTerm (fin d hin)

/-- no task on a cycle of the closure graph is ever started -/
theorem onCycle_never_started {s : Sys} (c : CtxC inp s) {nTasks : Nat}
    (hsat : CalcsSat inp nTasks (trace inp s)) {t : Name} (hc : onCycle inp nTasks (trace inp s) t = true) :
    s.events.countP (Ev.isStartOf t) = 0 := by
  apply Classical.byContradiction
  intro hne
  have hpos : 0 < s.events.countP (Ev.isStartOf t) := by omega
  obtain ⟨e, he, hp⟩ := List.countP_pos_iff.mp hpos
  cases e with
  | start m w =>
    have hm : m = t := by simpa [Ev.isStartOf] using hp
    subst hm
    have hedges := started_edges_reported (nTasks := nTasks) c hsat he
    have hc' := hc
    unfold onCycle onCycleOf at hc'
    simp only [decide_eq_true_eq] at hc'
    have hstart : ∀ x ∈ addNew [] (edgesAt inp nTasks (trace inp s) m), ∃ a, fstTerm s.events x = some a :=
      fun x hx => by
        rcases mem_addNew9.mp hx with e | e
        · cases e
        · exact hedges x e
    obtain ⟨a, ha⟩ := closureGo_closed (succ := edgesAt inp nTasks (trace inp s))
      (fun x => ∃ a, fstTerm s.events x = some a) (reported_closed c hsat) _ _ _ hstart hstart m hc'
    rw [reported_not_onCycle c hsat ha] at hc; cases hc
  | _ => simp [Ev.isStartOf] at hp

/-- a run whose selected tasks are all reported has an acyclic closure graph -/
theorem cycleTasks_nil {s : Sys} (c : CtxC inp s) {nTasks : Nat}
    (hsat : CalcsSat inp nTasks (trace inp s)) (hsel : ∀ t ∈ inp.sel, ∃ a, fstTerm s.events t = some a) :
    cycleTasks inp nTasks (trace inp s) = [] := by
  apply List.eq_nil_iff_forall_not_mem.mpr
  intro t ht
  unfold cycleTasks at ht
  obtain ⟨h1, h3⟩ := List.mem_filter.mp ht
  obtain ⟨a, ha⟩ := closure_reported c hsat hsel t h1
  rw [reported_not_onCycle c hsat ha] at h3; cases h3

theorem cycle_diagnosed_serial {s : Sys} (hr : Reach inp s) (nTasks : Nat)
    (hsat : CalcsSat inp nTasks (trace inp s)) :
    (s.rpc = .halted → s.halt = .none → s.stop = false → cycleTasks inp nTasks (trace inp s) = []) ∧
    (∀ t ∈ cycleTasks inp nTasks (trace inp s), s.events.countP (Ev.isStartOf t) = 0) := by
  have c := reach_ctxC hr
  refine ⟨?_, ?_⟩
  · intro hh hhalt hstop
    apply cycleTasks_nil c hsat
    intro t ht
    exact fstTerm_some_of_cTerm (by
      have := all_processed_serial hr hh hhalt hstop t (RunCl.ofSel ht); omega)
  · intro t ht
    unfold cycleTasks at ht
    exact onCycle_never_started c hsat (List.mem_filter.mp ht).2

theorem cycle_diagnosed_parallel {s : Sys} (hr : PReach inp s) (nTasks : Nat)
    (hsat : CalcsSat inp nTasks (trace inp s)) :
    (s.rpc = .halted → s.halt = .none → s.stop = false → cycleTasks inp nTasks (trace inp s) = []) ∧
    (∀ t ∈ cycleTasks inp nTasks (trace inp s), s.events.countP (Ev.isStartOf t) = 0) := by
  have c := preach_ctxC hr
  refine ⟨?_, ?_⟩
  · intro hh hhalt hstop
    apply cycleTasks_nil c hsat
    intro t ht
    exact fstTerm_some_of_cTerm (by
      have := all_processed_parallel hr hh hhalt hstop t (RunCl.ofSel ht); omega)
  · intro t ht
    unfold cycleTasks at ht
    exact onCycle_never_started c hsat (List.mem_filter.mp ht).2

/-! ### the tabulated search of the driver computes `cycleTasks` -/

theorem lookupSucc_table (succ : Name → List Name) (n : Nat) : lookupSucc (edgeTable succ n) succ = succ := by
  funext x
  unfold lookupSucc edgeTable
  split
  · simp
  · rfl

theorem cycleTasksFast_eq (inp : RunInput) (nTasks : Nat) (tr : List Ev) :
    cycleTasksFast inp nTasks tr = cycleTasks inp nTasks tr := by
  unfold cycleTasksFast cycleTasks closureC09 onCycle
  simp only [lookupSucc_table]

theorem monC09On_eq (inp : RunInput) (nTasks : Nat) (tr : List Ev) (o : C09Obs) :
    monC09On (cycleTasksFast inp nTasks tr) inp tr o = monC09 inp nTasks tr o := by
  rw [cycleTasksFast_eq]; rfl

end DoitModel.Run
