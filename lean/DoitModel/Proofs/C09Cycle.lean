import DoitModel.Proofs.C09Ord3
/-! # C09 — from the order of terminal reports to the monitor's closure graph: a task with a terminal report lies on
    no cycle of `edgesAt`; at a normal end every member of `closureOf` has a terminal report -/
namespace DoitModel.Run

variable {inp : RunInput}

/-! ### list lemmas -/

theorem mem_addNew9 {acc xs : List Name} {x : Name} : x ∈ addNew acc xs ↔ x ∈ acc ∨ x ∈ xs := by
  induction xs generalizing acc with
  | nil => simp [addNew]
  | cons y ys ih =>
    have e : addNew acc (y :: ys) = addNew (if y ∈ acc then acc else acc ++ [y]) ys := by simp [addNew]
    rw [e, ih]
    by_cases hy : y ∈ acc
    · simp only [hy, if_true, List.mem_cons]
      constructor
      · rintro (a | a)
        · exact Or.inl a
        · exact Or.inr (Or.inr a)
      · rintro (a | a | a)
        · exact Or.inl a
        · subst a; exact Or.inl hy
        · exact Or.inr a
    · simp only [hy, if_false, List.mem_cons, List.mem_append, List.not_mem_nil, or_false]
      constructor
      · rintro ((a | a) | a)
        · exact Or.inl a
        · exact Or.inr (Or.inl a)
        · exact Or.inr (Or.inr a)
      · rintro (a | a | a)
        · exact Or.inl (Or.inl a)
        · exact Or.inl (Or.inr a)
        · exact Or.inr a

/-- a set of tasks closed under `succ` contains everything `reachIterC09` finds from members of it -/
theorem reachIter_closed {succ : Name → List Name} (P : Name → Prop) (hstep : ∀ x, P x → ∀ y ∈ succ x, P y) :
    ∀ (k : Nat) (acc : List Name), (∀ x ∈ acc, P x) → ∀ x ∈ reachIterC09 succ k acc, P x := by
  intro k
  induction k with
  | zero => intro acc h x hx; exact h x hx
  | succ k ih =>
    intro acc h x hx
    simp only [reachIterC09] at hx
    refine ih _ ?_ x hx
    intro y hy
    rcases mem_addNew9.mp hy with a | a
    · exact h y a
    · obtain ⟨z, hz, hyz⟩ := List.mem_flatMap.mp a
      exact hstep z (h z hz) y hyz

theorem foldl_addNew_closed {E : Name → List Name} (P : Name → Prop) (hstep : ∀ x, P x → ∀ y ∈ E x, P y) :
    ∀ (l acc : List Name), (∀ x ∈ acc, P x) → (∀ x ∈ l, P x) →
      ∀ x ∈ l.foldl (fun acc t => addNew acc (E t)) acc, P x := by
  intro l
  induction l with
  | nil => intro acc h _ x hx; exact h x hx
  | cons t ts ih =>
    intro acc h hl x hx
    simp only [List.foldl_cons] at hx
    refine ih _ ?_ (fun y hy => hl y (by simp [hy])) x hx
    intro y hy
    rcases mem_addNew9.mp hy with a | a
    · exact h y a
    · exact hstep t (hl t (by simp)) y a

/-! ### the observable trace and the statuses -/

theorem finishedIn_trace {s : Sys} {x : Name} (h : finishedIn (trace inp s) x = true) :
    Ev.success x ∈ s.events ∨ Ev.skipUtd x ∈ s.events := by
  unfold finishedIn trace at h
  simp only [List.any_eq_true, List.mem_reverse, List.mem_filter] at h
  obtain ⟨e, ⟨he, _⟩, hf⟩ := h
  cases e <;> simp [Ev.isFinishOf] at hf
  · subst hf; exact Or.inr he
  · subst hf; exact Or.inl he

theorem trace_finishedIn {s : Sys} {x : Name} (h : Ev.success x ∈ s.events ∨ Ev.skipUtd x ∈ s.events) :
    finishedIn (trace inp s) x = true := by
  unfold finishedIn trace
  simp only [List.any_eq_true, List.mem_reverse, List.mem_filter]
  rcases h with a | a
  · exact ⟨_, ⟨a, by simp [hidden]⟩, by simp [Ev.isFinishOf]⟩
  · exact ⟨_, ⟨a, by simp [hidden]⟩, by simp [Ev.isFinishOf]⟩

theorem finishedIn_good {s : Sys} (hT : InvT inp s) {x : Name} (h : finishedIn (trace inp s) x = true) :
    (stOf s x).good = true := hT.ev x (finishedIn_trace h)

theorem good_finishedIn {s : Sys} (h2 : Inv2 inp s) {x : Name} (h : (stOf s x).good = true) :
    finishedIn (trace inp s) x = true := by
  apply trace_finishedIn
  rcases good_finBefore h2 h with a | a
  · exact Or.inl a
  · exact Or.inr a

/-! ### what the monitor computes is what the run determined -/

theorem calcsAt_calcG {σ : Name → RS} {tr : List Ev} {n : Name} (hfin : ∀ x, finishedIn tr x = true → (σ x).good = true) :
    ∀ (k : Nat) (cs : List Name), (∀ c ∈ cs, CalcG inp σ n c) → ∀ c ∈ calcsAt inp tr k cs, CalcG inp σ n c := by
  intro k
  induction k with
  | zero => intro cs h c hc; exact h c hc
  | succ k ih =>
    intro cs h c hc
    simp only [calcsAt] at hc
    refine ih _ ?_ c hc
    intro y hy
    rcases mem_addNew9.mp hy with a | a
    · exact h y a
    · simp only [List.mem_flatMap, List.mem_filter] at a
      obtain ⟨p, ⟨hp, hf⟩, hyp⟩ := a
      exact .res (h p hp) (hfin p hf) hyp

theorem calcsAt_base {tr : List Ev} : ∀ (k : Nat) (cs : List Name), ∀ c ∈ cs, c ∈ calcsAt inp tr k cs := by
  intro k
  induction k with
  | zero => intro cs c hc; exact hc
  | succ k ih =>
    intro cs c hc
    simp only [calcsAt]
    exact ih _ c (mem_addNew9.mpr (Or.inl hc))

/-- the fuel `nTasks` suffices for the fixed point of `calcsAt`: the list is closed under what its finished members
    deliver as calc_dep.  (Holds whenever every task name is below `nTasks`: `calcsSat_of_bounded`.) -/
def CalcsSat (inp : RunInput) (nTasks : Nat) (tr : List Ev) : Prop :=
  ∀ n, ∀ c ∈ calcsAt inp tr nTasks (inp.calcDep n), finishedIn tr c = true →
    ∀ x ∈ (inp.calcRes c).calcs, x ∈ calcsAt inp tr nTasks (inp.calcDep n)

theorem calcG_calcsAt {σ : Name → RS} {tr : List Ev} {nTasks : Nat} (hsat : CalcsSat inp nTasks tr)
    (hgood : ∀ x, (σ x).good = true → finishedIn tr x = true) {n c : Name} (h : CalcG inp σ n c) :
    c ∈ calcsAt inp tr nTasks (inp.calcDep n) := by
  induction h with
  | base h => exact calcsAt_base _ _ _ h
  | res _ hg hc ih => exact hsat n _ ih (hgood _ hg) _ hc

/-- the first three parts of `edgesAt` -/
def stageAt (inp : RunInput) (nTasks : Nat) (tr : List Ev) (t : Name) : List Name :=
  inp.taskDep t ++ calcsAt inp tr nTasks (inp.calcDep t) ++
    (((calcsAt inp tr nTasks (inp.calcDep t)).filter (finishedIn tr)).flatMap fun c =>
      (inp.calcRes c).tasks ++ (inp.calcRes c).files)

theorem edgesAt_eq (nTasks : Nat) (tr : List Ev) (t : Name) :
    edgesAt inp nTasks tr t = stageAt inp nTasks tr t ++ (if ranFirst inp nTasks tr t then inp.setup t else []) := rfl

theorem stageAt_stageG {σ : Name → RS} {tr : List Ev} {nTasks : Nat} {n d : Name}
    (hfin : ∀ x, finishedIn tr x = true → (σ x).good = true) (h : d ∈ stageAt inp nTasks tr n) :
    StageG inp σ n d := by
  have hc := calcsAt_calcG (inp := inp) (n := n) hfin nTasks (inp.calcDep n) (fun c hc => .base hc)
  simp only [stageAt, List.mem_append, List.mem_flatMap, List.mem_filter] at h
  rcases h with (a | a) | ⟨p, ⟨hp, hf⟩, hd⟩
  · exact Or.inl a
  · exact Or.inr (Or.inl (hc d a))
  · exact Or.inr (Or.inr ⟨p, hc p hp, hfin p hf, hd⟩)

theorem stageG_stageAt {σ : Name → RS} {tr : List Ev} {nTasks : Nat} {n d : Name} (hsat : CalcsSat inp nTasks tr)
    (hgood : ∀ x, (σ x).good = true → finishedIn tr x = true) (h : StageG inp σ n d) :
    d ∈ stageAt inp nTasks tr n := by
  simp only [stageAt, List.mem_append, List.mem_flatMap, List.mem_filter]
  rcases h with a | a | ⟨p, a, b, c⟩
  · exact Or.inl (Or.inl a)
  · exact Or.inl (Or.inr (calcG_calcsAt hsat hgood a))
  · exact Or.inr ⟨p, ⟨calcG_calcsAt hsat hgood a, hgood p b⟩, c⟩

theorem ranFirst_runFirstG {σ : Name → RS} {tr : List Ev} {nTasks : Nat} {n : Name} (hsat : CalcsSat inp nTasks tr)
    (hfin : ∀ x, finishedIn tr x = true → (σ x).good = true)
    (hgood : ∀ x, (σ x).good = true → finishedIn tr x = true) (h : ranFirst inp nTasks tr n = true) :
    RunFirstG inp σ n := by
  unfold ranFirst at h
  simp only [Bool.and_eq_true, Bool.not_eq_true', bne_iff_ne, ne_eq, beq_iff_eq, List.all_eq_true] at h
  obtain ⟨⟨⟨h1, h2⟩, h3⟩, h4⟩ := h
  refine ⟨h1, h2, h3, ?_⟩
  intro x hx
  exact hfin x (h4 x (stageG_stageAt hsat hgood hx))

/-! ### the core: an edge of the closure graph leads to an older terminal report -/

theorem edge_older {s : Sys} (hT : InvT inp s) (h2 : Inv2 inp s) {nTasks : Nat}
    (hsat : CalcsSat inp nTasks (trace inp s)) {t : Name} {a : Nat} (ha : fstTerm s.events t = some a) :
    ∀ d ∈ edgesAt inp nTasks (trace inp s) t, ∃ b, fstTerm s.events d = some b ∧ b < a := by
  intro d hd
  rw [edgesAt_eq] at hd
  rcases List.mem_append.mp hd with x | x
  · exact hT.g1 t a ha d (stageAt_stageG (fun y hy => finishedIn_good hT hy) x)
  · split at x
    · rename_i hrf
      exact hT.g2 t a ha
        (ranFirst_runFirstG hsat (fun y hy => finishedIn_good hT hy) (fun y hy => good_finishedIn h2 hy) hrf) d x
    · cases x

/-- a task with a terminal report is on no cycle of the closure graph -/
theorem reported_not_onCycle {s : Sys} (hT : InvT inp s) (h2 : Inv2 inp s) {nTasks : Nat}
    (hsat : CalcsSat inp nTasks (trace inp s)) {t : Name} {a : Nat} (ha : fstTerm s.events t = some a) :
    onCycle inp nTasks (trace inp s) t = false := by
  cases hc : onCycle inp nTasks (trace inp s) t with
  | false => rfl
  | true =>
    exfalso
    unfold onCycle at hc
    simp only [decide_eq_true_eq] at hc
    have := reachIter_closed (succ := edgesAt inp nTasks (trace inp s))
      (fun x => ∃ b, fstTerm s.events x = some b ∧ b < a)
      (fun x ⟨b, hb, hlt⟩ y hy => by
        obtain ⟨b', hb', hlt'⟩ := edge_older hT h2 hsat hb y hy
        exact ⟨b', hb', by omega⟩)
      nTasks _ (fun x hx => by
        rcases mem_addNew9.mp hx with e | e
        · cases e
        · exact edge_older hT h2 hsat ha x e) t hc
    obtain ⟨b, hb, hlt⟩ := this
    rw [ha] at hb; cases hb; omega

/-- the successors of a reported task are reported -/
theorem reported_closed {s : Sys} (hT : InvT inp s) (h2 : Inv2 inp s) {nTasks : Nat}
    (hsat : CalcsSat inp nTasks (trace inp s)) :
    ∀ x, (∃ a, fstTerm s.events x = some a) → ∀ y ∈ edgesAt inp nTasks (trace inp s) x,
      ∃ a, fstTerm s.events y = some a := by
  rintro x ⟨a, ha⟩ y hy
  obtain ⟨b, hb, _⟩ := edge_older hT h2 hsat ha y hy
  exact ⟨b, hb⟩

/-- if every selected task is reported, every member of the monitor's closure is -/
theorem closure_reported {s : Sys} (hT : InvT inp s) (h2 : Inv2 inp s) {nTasks : Nat}
    (hsat : CalcsSat inp nTasks (trace inp s)) (hsel : ∀ t ∈ inp.sel, ∃ a, fstTerm s.events t = some a) :
    ∀ t ∈ closureOf inp nTasks (trace inp s), ∃ a, fstTerm s.events t = some a := by
  have hstep := reported_closed hT h2 hsat
  have once : ∀ cl : List Name, (∀ x ∈ cl, ∃ a, fstTerm s.events x = some a) →
      ∀ x ∈ closeOnce inp nTasks (trace inp s) cl, ∃ a, fstTerm s.events x = some a := by
    intro cl h
    exact foldl_addNew_closed (E := edgesAt inp nTasks (trace inp s)) _ hstep cl cl h h
  have iter : ∀ (k : Nat) (cl : List Name), (∀ x ∈ cl, ∃ a, fstTerm s.events x = some a) →
      ∀ x ∈ closureIter inp nTasks (trace inp s) k cl, ∃ a, fstTerm s.events x = some a := by
    intro k
    induction k with
    | zero => intro cl h x hx; exact h x hx
    | succ k ih => intro cl h x hx; simp only [closureIter] at hx; exact ih _ (once cl h) x hx
  unfold closureOf
  refine iter _ _ ?_
  intro x hx
  rcases mem_addNew9.mp hx with e | e
  · cases e
  · exact hsel x e

/-- whatever `edgesAt` lists for a started task was reported finished before the start -/
theorem started_edges_reported {s : Sys} (h2 : Inv2 inp s) (hG : InvG inp s) {nTasks : Nat} {t w : Nat}
    (hs : Ev.start t w ∈ s.events) :
    ∀ d ∈ edgesAt inp nTasks (trace inp s) t, ∃ a, fstTerm s.events d = some a := by
  obtain ⟨pre, post, he⟩ := List.append_of_mem hs
  have hd := start_after_depsAt h2 hG he nTasks (trace inp s)
  intro d hmem
  have hin : d ∈ depsAt inp nTasks (trace inp s) t := by
    rw [edgesAt_eq] at hmem
    simp only [stageAt, depsAt, List.mem_append] at hmem ⊢
    rcases hmem with ((a | a) | a) | a
    · exact Or.inl (Or.inl (Or.inl a))
    · exact Or.inl (Or.inr a)
    · exact Or.inr a
    · split at a
      · exact Or.inl (Or.inl (Or.inr a))
      · cases a
  apply finBefore_fstTerm
  exact finBefore_mono (fun e he' => by rw [he]; simp [he']) (hd d hin)

/-- no task on a cycle of the closure graph is ever started -/
theorem onCycle_never_started {s : Sys} (hT : InvT inp s) (h2 : Inv2 inp s) (hG : InvG inp s) {nTasks : Nat}
    (hsat : CalcsSat inp nTasks (trace inp s)) {t : Name} (hc : onCycle inp nTasks (trace inp s) t = true) :
    s.events.countP (Ev.isStartOf t) = 0 := by
  apply Classical.byContradiction
  intro hne
  have hpos : 0 < s.events.countP (Ev.isStartOf t) := by omega
  obtain ⟨e, he, hp⟩ := List.countP_pos_iff.mp hpos
  cases e with
  | start m w =>
    have hm : m = t := by simpa [Ev.isStartOf] using hp
    subst hm
    have hedges := started_edges_reported (nTasks := nTasks) h2 hG he
    have hc' := hc
    unfold onCycle at hc'
    simp only [decide_eq_true_eq] at hc'
    obtain ⟨a, ha⟩ := reachIter_closed (succ := edgesAt inp nTasks (trace inp s))
      (fun x => ∃ a, fstTerm s.events x = some a) (reported_closed hT h2 hsat) nTasks _
      (fun x hx => by
        rcases mem_addNew9.mp hx with e | e
        · cases e
        · exact hedges x e) m hc'
    rw [reported_not_onCycle hT h2 hsat ha] at hc; cases hc
  | _ => simp [Ev.isStartOf] at hp

/-- a run whose selected tasks are all reported has an acyclic closure graph -/
theorem cycleTasks_nil {s : Sys} (hT : InvT inp s) (h2 : Inv2 inp s) {nTasks : Nat}
    (hsat : CalcsSat inp nTasks (trace inp s)) (hsel : ∀ t ∈ inp.sel, ∃ a, fstTerm s.events t = some a) :
    cycleTasks inp nTasks (trace inp s) = [] := by
  apply List.eq_nil_iff_forall_not_mem.mpr
  intro t ht
  unfold cycleTasks at ht
  obtain ⟨h1, h3⟩ := List.mem_filter.mp ht
  obtain ⟨a, ha⟩ := closure_reported hT h2 hsat hsel t h1
  rw [reported_not_onCycle hT h2 hsat ha] at h3; cases h3

theorem cycle_diagnosed_serial {s : Sys} (hr : Reach inp s) (nTasks : Nat)
    (hsat : CalcsSat inp nTasks (trace inp s)) :
    (s.rpc = .halted → s.halt = .none → s.stop = false → cycleTasks inp nTasks (trace inp s) = []) ∧
    (∀ t ∈ cycleTasks inp nTasks (trace inp s), s.events.countP (Ev.isStartOf t) = 0) := by
  have hT := reach_invT hr
  have h2 := reach_inv2 hr
  refine ⟨?_, ?_⟩
  · intro hh hhalt hstop
    apply cycleTasks_nil hT h2 hsat
    intro t ht
    exact fstTerm_some_of_cTerm (by
      have := all_processed_serial hr hh hhalt hstop t (RunCl.ofSel ht); omega)
  · intro t ht
    unfold cycleTasks at ht
    exact onCycle_never_started hT h2 (reach_invG hr) hsat (List.mem_filter.mp ht).2

theorem cycle_diagnosed_parallel {s : Sys} (hr : PReach inp s) (nTasks : Nat)
    (hsat : CalcsSat inp nTasks (trace inp s)) :
    (s.rpc = .halted → s.halt = .none → s.stop = false → cycleTasks inp nTasks (trace inp s) = []) ∧
    (∀ t ∈ cycleTasks inp nTasks (trace inp s), s.events.countP (Ev.isStartOf t) = 0) := by
  have hT := preach_invT hr
  have h2 := (preach_inv hr).1
  refine ⟨?_, ?_⟩
  · intro hh hhalt hstop
    apply cycleTasks_nil hT h2 hsat
    intro t ht
    exact fstTerm_some_of_cTerm (by
      have := all_processed_parallel hr hh hhalt hstop t (RunCl.ofSel ht); omega)
  · intro t ht
    unfold cycleTasks at ht
    exact onCycle_never_started hT h2 (preach_invG hr) hsat (List.mem_filter.mp ht).2

end DoitModel.Run
