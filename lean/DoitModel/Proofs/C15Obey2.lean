import DoitModel.Proofs.C15Obey
/-! # Delayed creation: `ObeyCore` is preserved by every step (C15 `created_obey`, ordering half) -/
namespace DoitModel.Delayed
open DoitModel.Run (RS Name)

theorem NodeG.mono {good good' : Name → Bool} {nd : Node} (h : NodeG good nd)
    (hm : ∀ d, good d = true → good' d = true) : NodeG good' nd := by
  refine ⟨fun hb d hd => ?_, h.2⟩
  rcases h.1 hb d hd with h1 | h1 | h1 | h1
  · exact Or.inl h1
  · exact Or.inr (Or.inl h1)
  · exact Or.inr (Or.inr (Or.inl h1))
  · exact Or.inr (Or.inr (Or.inr (hm d h1)))

theorem no_start_of_none {st : Name → RS} {ev : List Ev} (hc : CountOK st ev) {n : Name} (h0 : st n = .none) :
    ev.contains (Ev.start n) = false := by
  cases hx : ev.contains (Ev.start n) with
  | false => rfl
  | true => exact absurd rfl (hc.fresh n h0 _ (by simpa using hx))

theorem no_report_of_unfinished {st : Name → RS} {ev : List Ev} (hc : CountOK st ev) {n : Name}
    (hu : (st n).finished = false) : ev.any (Ev.reports n) = false := by
  rw [List.any_eq_false]
  intro e he
  simp [hc.noRep n hu e he]

/-- node `n` (its generator is exhausted) changes its status from an unfinished one with the matching event -/
theorem core_status {inp : Input} {s : Sys} {n : Name} {nd : Node} (h : ObeyCore inp s) (hn : s.nodes n = some nd)
    (hu : nd.status.finished = false) (hpc : nd.pc = .done) (hld : nd.task.loader = none) (st' : RS) (e : Ev)
    (hok : st' = .ok → e = .success n) (hutd : st' = .utd → e = .skipUtd n) (hrun : st' = .run → e = .start n)
    (hob : obeyOK (nodeDeps s) inp.noAct (e :: s.events) = true) (hut : utdOK inp.utd (e :: s.events) = true) :
    ObeyCore inp { setNode s n { nd with status := st' } with events := e :: s.events } := by
  have hsn : stOf s n = nd.status := by simp [stOf, hn]
  have hst : ∀ d, stOf { setNode s n { nd with status := st' } with events := e :: s.events } d =
      if d = n then st' else stOf s d := by
    intro d
    show stOf (setNode s n { nd with status := st' }) d = _
    rw [stOf_setNode]
  have hm : ∀ d, goodOf s d = true →
      goodOf { setNode s n { nd with status := st' } with events := e :: s.events } d = true := by
    intro d hd
    unfold goodOf at hd ⊢
    rw [hst]
    by_cases hdn : d = n
    · subst hdn; rw [hsn] at hd
      cases hs : nd.status <;> simp_all [RS.finished, RS.good]
    · simpa [hdn] using hd
  have hd : nodeDeps { setNode s n { nd with status := st' } with events := e :: s.events } = nodeDeps s := by
    funext d
    by_cases hdn : d = n
    · subst hdn; simp [nodeDeps, setNode, hn]
    · simp [nodeDeps, setNode, hdn]
  constructor
  · intro k nd' hk
    simp only [setNode] at hk
    split at hk
    · cases hk
      have hg := h.node n nd hn
      exact NodeG.mono (nd := { nd with status := st' }) ⟨hg.1, hg.2.1, fun _ => ⟨hpc, hld⟩⟩ hm
    · exact (h.node k nd' hk).mono hm
  · intro d hd'
    rw [hst] at hd'
    by_cases hdn : d = n
    · subst hdn; simp only [if_true] at hd'; rw [hok hd']; exact List.mem_cons_self
    · simp only [hdn, if_false] at hd'; exact List.mem_cons_of_mem _ (h.okS d hd')
  · intro d hd'
    rw [hst] at hd'
    by_cases hdn : d = n
    · subst hdn; simp only [if_true] at hd'; rw [hutd hd']; exact List.mem_cons_self
    · simp only [hdn, if_false] at hd'; exact List.mem_cons_of_mem _ (h.utdS d hd')
  · intro d hd'
    rw [hst] at hd'
    by_cases hdn : d = n
    · subst hdn; simp only [if_true] at hd'; rw [hrun hd']; exact List.mem_cons_self
    · simp only [hdn, if_false] at hd'; exact List.mem_cons_of_mem _ (h.runS d hd')
  · rw [hd]; exact hob
  · exact hut

theorem core_nodeStep {inp : Input} {s : Sys} {n : Name} {nd : Node} (h : ObeyCore inp s) (ha : AfterInv inp s)
    (hn : s.nodes n = some nd) (hl : nd.pc = .loaderPc → nd.task.loader = none) :
    ObeyCore inp (nodeStep inp s n nd) := by
  have hg := h.node n nd hn
  unfold nodeStep
  cases hpc : nd.pc with
  | start =>
    simp only []
    have hni : ¬ ∃ ds, nd.pc = .taskIter ds := by rw [hpc]; intro ⟨_, e⟩; cases e
    have h0 : nd.status = .none := hg.st_none (by rw [hpc]; intro e; cases e)
    split
    · exact core_setNode h hn rfl rfl (nodeG_pc .done hg hni (fun e => by cases e) (fun e => absurd h0 e))
    · exact core_setNode h hn rfl rfl (nodeG_pc .loopTop hg hni (fun e => by cases e) (fun e => absurd h0 e))
  | loopTop =>
    have h0 : nd.status = .none := hg.st_none (by rw [hpc]; intro e; cases e)
    refine core_setNode h hn rfl rfl ⟨fun hb d hd => ?_, fun e => (by cases e), fun e => absurd h0 e⟩
    rcases hg.1 hb d hd with h3 | h3 | h3 | h3
    · exact Or.inr (Or.inl ⟨⟨_, rfl⟩, h3⟩)
    · rw [hpc] at h3; obtain ⟨⟨_, e⟩, _⟩ := h3; cases e
    · exact Or.inr (Or.inr (Or.inl h3))
    · exact Or.inr (Or.inr (Or.inr h3))
  | taskIter todo =>
    cases todo with
    | nil => exact core_addWaitRun h hn hpc
    | cons d ds => exact core_genStep h ha.cnt hn d ds ⟨_, hpc⟩
  | afterDeps =>
    simp only []
    have hni : ¬ ∃ ds, nd.pc = .taskIter ds := by rw [hpc]; intro ⟨_, e⟩; cases e
    have h0 : nd.status = .none := hg.st_none (by rw [hpc]; intro e; cases e)
    split
    · exact core_setNode h hn rfl rfl (nodeG_pc .loopTop hg hni (fun e => by cases e) (fun e => absurd h0 e))
    · split
      · exact (core_setNode (x := { nd with pc := .loopTop }) h hn rfl rfl
          (nodeG_pc .loopTop hg hni (fun e => by cases e) (fun e => absurd h0 e))).congr rfl rfl
      · exact core_setNode h hn rfl rfl (nodeG_pc .loaderPc hg hni (fun e => by cases e) (fun e => absurd h0 e))
  | loaderPc =>
    simp only [hl hpc]
    have hni : ¬ ∃ ds, nd.pc = .taskIter ds := by rw [hpc]; intro ⟨_, e⟩; cases e
    have h0 : nd.status = .none := hg.st_none (by rw [hpc]; intro e; cases e)
    exact core_setNode h hn rfl rfl (nodeG_pc .self1 hg hni
      (fun _ => ⟨((ha.node n nd hn).1.2 hpc).1, ((ha.node n nd hn).1.2 hpc).2, hl hpc⟩) (fun e => absurd h0 e))
  | self1 =>
    have hni : ¬ ∃ ds, nd.pc = .taskIter ds := by rw [hpc]; intro ⟨_, e⟩; cases e
    exact (core_setNode (x := { nd with pc := .done }) h hn rfl rfl
      (nodeG_pc .done hg hni (fun e => by cases e) (fun _ => ⟨rfl, (hg.2.1 hpc).2.2⟩))).congr rfl rfl
  | done => exact h.congr rfl rfl

/-! ### the loader section -/

theorem core_regexBlock {inp : Input} {s : Sys} (l : LId) (g : GId) (h : ObeyCore inp s) :
    ObeyCore inp (regexBlock inp s l g) := by
  unfold regexBlock
  split
  · exact h.congr rfl rfl
  · split
    · exact h.congr rfl rfl
    · split
      · split <;> exact h.congr rfl rfl
      · exact h.congr rfl rfl

theorem core_finishLoader {inp : Input} {s : Sys} {n : Name} {nd : Node} {l : LId} {tk' : TDef}
    (h : ObeyCore inp s) (hc : CountOK (stOf s) s.events) (hn : s.nodes n = some nd) (hpc : nd.pc = .loaderPc) :
    ObeyCore inp (finishLoader s n nd l tk') := by
  have hg := h.node n nd hn
  have h0 : nd.status = .none := hg.st_none (by rw [hpc]; intro e; cases e)
  have hs0 : stOf s n = .none := by simp [stOf, hn, h0]
  have hreset : ∀ t : TDef, ObeyCore inp (setNode s n { nd with task := t, pend := t.deps, pc := .start }) :=
    fun t => core_retask h hc hs0 h0 ⟨fun _ d hd => Or.inl hd, fun e => (by cases e), fun e => absurd h0 e⟩
  unfold finishLoader
  cases hcur : s.tasks n with
  | none => exact h.congr rfl rfl
  | some cur =>
    simp only []
    split
    · exact (hreset tk').congr rfl rfl
    · exact (hreset cur).congr rfl rfl

theorem core_afterCreate {inp : Input} {s : Sys} {n : Name} {nd : Node} {l : LId}
    (h : ObeyCore inp s) (hc : CountOK (stOf s) s.events) (hn : s.nodes n = some nd) (hpc : nd.pc = .loaderPc) :
    ObeyCore inp (afterCreate inp s n nd l) := by
  unfold afterCreate
  cases nd.task.rx with
  | none => exact core_finishLoader h hc hn hpc
  | some g =>
    simp only []
    have hsame := regexBlock_same inp s l g
    have hn' : (regexBlock inp s l g).nodes n = some nd := by
      unfold regexBlock
      split
      · exact hn
      · split
        · exact hn
        · split
          · split <;> exact hn
          · exact hn
    have hc' : CountOK (stOf (regexBlock inp s l g)) (regexBlock inp s l g).events := by
      have hnodes : (regexBlock inp s l g).nodes = s.nodes := by
        unfold regexBlock
        split
        · rfl
        · split
          · rfl
          · split
            · split <;> rfl
            · rfl
      have hev : (regexBlock inp s l g).events = s.events := by
        unfold regexBlock
        split
        · rfl
        · split
          · rfl
          · split
            · split <;> rfl
            · rfl
      rw [stOf_congr hnodes, hev]; exact hc
    split
    · exact core_regexBlock l g h
    · exact core_finishLoader (core_regexBlock l g h) hc' hn' hpc

/-- the creator call: one `creator` event, the nodes are untouched -/
theorem ObeyCore.creator {inp : Input} {s s' : Sys} (h : ObeyCore inp s) (c : CId)
    (h3 : s'.events = Ev.creator c :: s.events) (h4 : s'.nodes = s.nodes) : ObeyCore inp s' := by
  constructor
  · intro n nd hn; rw [h4] at hn; rw [goodOf_congr h4]; exact h.node n nd hn
  · intro d hd; rw [stOf_congr h4] at hd; rw [h3]; exact List.mem_cons_of_mem _ (h.okS d hd)
  · intro d hd; rw [stOf_congr h4] at hd; rw [h3]; exact List.mem_cons_of_mem _ (h.utdS d hd)
  · intro d hd; rw [stOf_congr h4] at hd; rw [h3]; exact List.mem_cons_of_mem _ (h.runS d hd)
  · rw [nodeDeps_congr h4, h3]; simp only [obeyOK]; exact h.obey
  · rw [h3]; simp only [utdOK]; exact h.utd

theorem core_evalCreator {inp : Input} {s : Sys} {l : LId} (tname : Name) (h : ObeyCore inp s) :
    ObeyCore inp (evalCreator inp s l tname b) := by
  unfold evalCreator
  cases regTargets s.targets (targetPairs (inp.make (inp.creatorOf l) tname)) with
  | none => exact h.creator (inp.creatorOf l) rfl rfl
  | some tg => exact h.creator (inp.creatorOf l) rfl rfl

theorem core_loaderStep {inp : Input} {s : Sys} {n : Name} {nd : Node} {l : LId} (h : ObeyCore inp s)
    (ha : AfterInv inp s) (hn : s.nodes n = some nd) (hpc : nd.pc = .loaderPc) (hl : nd.task.loader = some l) :
    ObeyCore inp (loaderStep inp s n nd l) := by
  unfold loaderStep
  cases s.tasks (toLoad inp l n) with
  | none => exact h.congr rfl rfl
  | some tT =>
    simp only []
    split
    · obtain ⟨h1, hn1⟩ := after_evalCreator (toLoad inp l n) ha hn hpc hl
      split
      · exact core_evalCreator _ h
      · exact core_afterCreate (core_evalCreator _ h) h1.cnt hn1 hpc
    · exact core_afterCreate h ha.cnt hn hpc

theorem core_dtick {inp : Input} {s : Sys} (h : ObeyCore inp s) (ha : AfterInv inp s) :
    ObeyCore inp (dtick inp s) := by
  unfold dtick
  cases hc : s.cur with
  | some n =>
    simp only []
    cases hn : s.nodes n with
    | none => exact h.congr rfl rfl
    | some nd =>
      simp only []
      by_cases hpc : nd.pc = .loaderPc
      · cases hld : nd.task.loader with
        | none => exact core_nodeStep h ha hn (fun _ => hld)
        | some l =>
          have : nodeStep inp s n nd = loaderStep inp s n nd l := by unfold nodeStep; simp only [hpc, hld]
          rw [this]; exact core_loaderStep h ha hn hpc hld
      · exact core_nodeStep h ha hn (fun e => absurd e hpc)
  | none =>
    simp only []
    cases hr : s.ready with
    | cons r rs => exact h.congr rfl rfl
    | nil =>
      simp only []
      cases ht : s.toRun with
      | nil => simp only []; split
               · split <;> exact h.congr rfl rfl
               · exact h.congr rfl rfl
      | cons t ts =>
        simp only []
        cases hn : s.nodes t with
        | some x => exact h.congr rfl rfl
        | none =>
          simp only []
          cases htt : s.tasks t with
          | none => exact h.congr rfl rfl
          | some td => exact (core_newNode td [t] h ha.cnt hn).congr rfl rfl

/-! ### the runner -/

theorem core_handBack {inp : Input} {s s' : Sys} {n : Name} {perm : List Name} (h : ObeyCore inp s)
    (hb : handBack inp s n perm = some s') : ObeyCore inp s' := by
  unfold handBack at hb
  split at hb
  · cases hb; exact h.congr rfl rfl
  · exact core_feed h hb

theorem core_selectStep {inp : Input} {s s' : Sys} {n : Name} {perm : List Name} (h : ObeyCore inp s)
    (ha : AfterInv inp s)
    (hy : ∀ nd, s.nodes n = some nd → nd.pc = .done ∧ nd.pend = [] ∧ nd.waitRun = [] ∧ nd.task.loader = none)
    (hs : selectStep inp s n perm = some s') : ObeyCore inp s' := by
  unfold selectStep at hs
  cases hn : s.nodes n with
  | none => simp only [hn] at hs; cases hs; exact h.congr rfl rfl
  | some nd =>
    simp only [hn] at hs
    obtain ⟨hpc, hpend, hwait, hld⟩ := hy nd hn
    split at hs
    · cases hs; exact h.congr rfl rfl
    · rename_i hst
      have hnone : nd.status = .none := by simpa using hst
      have hu : nd.status.finished = false := by rw [hnone]; rfl
      have hs0 : stOf s n = .none := by simp [stOf, hn, hnone]
      have hsu : (stOf s n).finished = false := by rw [hs0]; rfl
      have hnoS := no_start_of_none ha.cnt hs0
      have hnoR := no_report_of_unfinished ha.cnt hsu
      split at hs
      · refine core_handBack ?_ hs
        unfold failSys
        refine (core_status h hn hu hpc hld .fail (.unmet n) (fun e => by cases e) (fun e => by cases e)
          (fun e => by cases e) ?_ (by simp only [utdOK]; exact h.utd)).congr rfl rfl
        simp only [obeyOK, hnoS, hnoR, h.obey]; rfl
      · rename_i hbad
        split at hs
        · rename_i hutd
          refine core_handBack ?_ hs
          refine (core_status h hn hu hpc hld .utd (.skipUtd n) (fun e => by cases e) (fun _ => rfl)
            (fun e => by cases e) ?_ (by simp only [utdOK, hutd, h.utd]; rfl)).congr rfl rfl
          simp only [obeyOK, hnoS, hnoR, h.obey]; rfl
        · rename_i hutd
          cases hs
          refine (core_status h hn hu hpc hld .run (.start n) (fun e => by cases e) (fun e => by cases e)
            (fun _ => rfl) ?_ (by simp only [utdOK, hutd, h.utd]; rfl)).congr rfl rfl
          have hdeps : (nodeDeps s n).all
              (fun d => s.events.any (fun e => e = .success d || e = .skipUtd d)) = true := by
            rw [List.all_eq_true]
            intro d hd
            have hd' : d ∈ nd.task.deps := by simpa [nodeDeps, hn] using hd
            have hb : nd.bad = false := by simpa using hbad
            rw [List.any_eq_true]
            rcases (h.node n nd hn).1 hb d hd' with h3 | h3 | h3 | h3
            · rw [hpend] at h3; cases h3
            · rw [hpc] at h3; obtain ⟨⟨_, e⟩, _⟩ := h3; cases e
            · rw [hwait] at h3; cases h3
            · unfold goodOf at h3
              cases hsd : stOf s d with
              | ok => exact ⟨_, h.okS d hsd, by simp⟩
              | utd => exact ⟨_, h.utdS d hsd, by simp⟩
              | none => rw [hsd] at h3; cases h3
              | run => rw [hsd] at h3; cases h3
              | ign => rw [hsd] at h3; cases h3
              | fail => rw [hsd] at h3; cases h3
          simp only [obeyOK, hdeps, hnoS, hnoR, h.obey]; rfl

theorem core_finishStep {inp : Input} {s s' : Sys} {n : Name} {perm : List Name} (h : ObeyCore inp s)
    (ha : AfterInv inp s) (hs : finishStep inp s n perm = some s') : ObeyCore inp s' := by
  unfold finishStep at hs
  split at hs
  · cases hn : s.nodes n with
    | none => simp only [hn] at hs; cases hs
    | some nd =>
      simp only [hn] at hs
      split at hs
      · cases hs
      · rename_i hst
        have hrun : nd.status = .run := by simpa using hst
        have hu : nd.status.finished = false := by rw [hrun]; rfl
        have hpc : nd.pc = .done := ((h.node n nd hn).2.2 (by rw [hrun]; intro e; cases e)).1
        have hld : nd.task.loader = none := ((h.node n nd hn).2.2 (by rw [hrun]; intro e; cases e)).2
        have hs0 : stOf s n = .run := by simp [stOf, hn, hrun]
        have hsu : (stOf s n).finished = false := by rw [hs0]; rfl
        have hnoR := no_report_of_unfinished ha.cnt hsu
        have hS : s.events.contains (Ev.start n) = true := by simpa using h.runS n hs0
        have qf : ObeyCore inp { failSys inp s n nd (.failure n) (if s.final = 2 then 2 else 1) with
                                 running := s.running.filter (· ≠ n) } := by
          unfold failSys
          refine (core_status h hn hu hpc hld .fail (.failure n) (fun e => by cases e) (fun e => by cases e)
            (fun e => by cases e) ?_ (by simp only [utdOK]; exact h.utd)).congr rfl rfl
          simp only [obeyOK, hnoR, hS, h.obey]; simp
        have qs : ObeyCore inp { setNode s n { nd with status := .ok } with
                                 events := Ev.success n :: s.events, running := s.running.filter (· ≠ n) } := by
          refine (core_status h hn hu hpc hld .ok (.success n) (fun _ => rfl) (fun e => by cases e)
            (fun e => by cases e) ?_ (by simp only [utdOK]; exact h.utd)).congr rfl rfl
          simp only [obeyOK, hnoR, hS, h.obey]; simp
        split at hs
        · split at hs
          · exact core_feed qf hs
          · cases hs; exact qf
        · split at hs
          · cases hs; exact qs
          · exact core_feed qs hs
  · cases hs

end DoitModel.Delayed
