import DoitModel.Proofs.RunAcct
import DoitModel.Model.RunC09
/-! # C09 — the dependency relation of a run input and the node invariant "every list of an `ExecNode` holds
    dependencies of its task; `ancestors` is a dependency path" -/
namespace DoitModel.Run

/-- `c` can become a calc_dep of `n`: listed, or delivered (`values['calc_dep']`) by something that can -/
inductive CalcOf (inp : RunInput) (n : Name) : Name → Prop
  | base {c} : c ∈ inp.calcDep n → CalcOf inp n c
  | res {p c} : CalcOf inp n p → c ∈ (inp.calcRes p).calcs → CalcOf inp n c
  | resFail {p c} : CalcOf inp n p → c ∈ (inp.calcResFail p).calcs → CalcOf inp n c   -- delivered although `p` failed

/-- `n` depends on `d`: task_dep (after expansion: implicit target->file_dep, result_dep …), calc_dep, setup-task, or
    a task_dep / file_dep owner delivered by one of its (possibly delivered) calc_deps — also what such a calc_dep
    returned before its execution failed (`deliverF`: `_process_calc_dep_results` reads `task.values` of failed tasks too) -/
inductive Dep (inp : RunInput) : Name → Name → Prop
  | task {n d} : d ∈ inp.taskDep n → Dep inp n d
  | ofCalc {n c} : CalcOf inp n c → Dep inp n c
  | setup {n d} : d ∈ inp.setup n → Dep inp n d
  | resT {n p d} : CalcOf inp n p → d ∈ (inp.calcRes p).tasks → Dep inp n d
  | resF {n p d} : CalcOf inp n p → d ∈ (inp.calcRes p).files → Dep inp n d
  | resTFail {n p d} : CalcOf inp n p → d ∈ (inp.calcResFail p).tasks → Dep inp n d
  | resFFail {n p d} : CalcOf inp n p → d ∈ (inp.calcResFail p).files → Dep inp n d

/-- `rank` decreases along every dependency edge -/
def Ranked (inp : RunInput) (rank : Name → Nat) : Prop := ∀ n d, Dep inp n d → rank d < rank n

/-- the dependency graph (static edges and everything calc results can deliver) has no cycle -/
def Acyclic (inp : RunInput) : Prop := ∃ rank : Name → Nat, Ranked inp rank

def pcDep (inp : RunInput) (n : Name) : PC → Prop
  | .calcIter todo => ∀ d ∈ todo, CalcOf inp n d
  | .taskIter todo => ∀ d ∈ todo, Dep inp n d
  | .setupIter todo => ∀ d ∈ todo, d ∈ inp.setup n
  | _ => True

structure NDep (inp : RunInput) (rank : Name → Nat) (n : Name) (nd : Node) : Prop where
  anc : ∀ a ∈ nd.anc, rank n ≤ rank a
  dt : ∀ d ∈ nd.dynTask, Dep inp n d
  dc : ∀ d ∈ nd.dynCalc, CalcOf inp n d
  pt : ∀ d ∈ nd.pendTask, Dep inp n d
  pcalc : ∀ d ∈ nd.pendCalc, CalcOf inp n d
  st : ∀ d ∈ nd.snapTask, Dep inp n d
  sc : ∀ d ∈ nd.snapCalc, CalcOf inp n d
  wr : ∀ d ∈ nd.waitRun, Dep inp n d
  wc : ∀ d ∈ nd.waitRunCalc, CalcOf inp n d
  pcl : pcDep inp n nd.pc

def AllN (inp : RunInput) (rank : Name → Nat) (s : Sys) : Prop := ∀ k y, s.nodes k = some y → NDep inp rank k y

variable {inp : RunInput} {rank : Name → Nat}

/-! ### node level -/

theorem mkNode_ndep {t : Name} {anc : List Name} (ha : ∀ a ∈ anc, rank t ≤ rank a) :
    NDep inp rank t (mkNode inp t anc) := by
  refine ⟨ha, fun d hd => Dep.task hd, ?_, fun d hd => Dep.task hd, ?_, ?_, ?_, ?_, ?_, trivial⟩
  · intro d hd; exact CalcOf.base (mem_dedup.mp hd)
  · intro d hd; exact CalcOf.base (mem_dedup.mp hd)
  · intro d hd; simp [mkNode] at hd
  · intro d hd; simp [mkNode] at hd
  · intro d hd; simp [mkNode] at hd
  · intro d hd; simp [mkNode] at hd

theorem addDeps_ndepR {n : Name} {nd : Node} {r : CalcRes} (h : NDep inp rank n nd)
    (ht : ∀ d ∈ r.tasks, Dep inp n d) (hf : ∀ d ∈ r.files, Dep inp n d) (hc : ∀ d ∈ r.calcs, CalcOf inp n d) :
    NDep inp rank n (nd.addDeps r) := by
  have nt : ∀ d ∈ newTaskDeps nd r, Dep inp n d := by
    intro d hd
    simp only [newTaskDeps, List.mem_append] at hd
    rcases hd with a | a
    · exact ht d a
    · exact hf d (implicitNew_mem a)
  have nc : ∀ d ∈ newCalcDeps nd r, CalcOf inp n d := by
    intro d hd
    simp only [newCalcDeps, List.mem_filter] at hd
    exact hc d (mem_dedup.mp hd.1)
  refine ⟨h.anc, ?_, ?_, ?_, ?_, h.st, h.sc, h.wr, h.wc, h.pcl⟩
  · intro d hd; simp only [Node.addDeps, List.mem_append] at hd
    rcases hd with a | a
    · exact h.dt d a
    · exact nt d a
  · intro d hd; simp only [Node.addDeps, List.mem_append] at hd
    rcases hd with a | a
    · exact h.dc d a
    · exact nc d a
  · intro d hd; simp only [Node.addDeps, List.mem_append] at hd
    rcases hd with a | a
    · exact h.pt d a
    · exact nt d a
  · intro d hd; simp only [Node.addDeps, List.mem_append, List.mem_filter] at hd
    rcases hd with a | a
    · exact h.pcalc d a
    · exact nc d a.1

theorem addDeps_ndep {n p : Name} {nd : Node} (h : NDep inp rank n nd) (hp : CalcOf inp n p) :
    NDep inp rank n (nd.addDeps (inp.calcRes p)) :=
  addDeps_ndepR h (fun _ a => Dep.resT hp a) (fun _ a => Dep.resF hp a) (fun _ a => CalcOf.res hp a)

theorem deliverF_ndep {n p : Name} {nd : Node} (ex : Bool) (pst : RS) (h : NDep inp rank n nd) (hp : CalcOf inp n p) :
    NDep inp rank n (deliverF inp ex pst p nd) := by
  unfold deliverF; split
  · exact addDeps_ndepR h (fun _ a => Dep.resTFail hp a) (fun _ a => Dep.resFFail hp a) (fun _ a => CalcOf.resFail hp a)
  · exact h

theorem deliver_ndep {n p : Name} {nd : Node} (pst : RS) (h : NDep inp rank n nd) (hp : CalcOf inp n p) :
    NDep inp rank n (deliver inp pst p nd) := by
  unfold deliver; split
  · exact addDeps_ndep h hp
  · exact h

theorem parentStatus_ndep {n : Name} {nd : Node} (pst : RS) (p : Name) (h : NDep inp rank n nd) :
    NDep inp rank n (parentStatus pst p nd) :=
  ⟨h.anc, h.dt, h.dc, h.pt, h.pcalc, h.st, h.sc, h.wr, h.wc, h.pcl⟩

theorem absorbDone_ndep {s : Sys} {n : Name} (isCalc : Bool) :
    ∀ (ds : List Name) (nd : Node), NDep inp rank n nd → (isCalc = true → ∀ d ∈ ds, CalcOf inp n d) →
      NDep inp rank n (absorbDone inp s isCalc ds nd) := by
  intro ds
  induction ds with
  | nil => intro nd h _; exact h
  | cons a t ih =>
    intro nd h hds
    simp only [absorbDone]
    split
    · exact ih nd h (fun e d hd => hds e d (by simp [hd]))
    · apply ih _ _ (fun e d hd => hds e d (by simp [hd]))
      split
      · rename_i hc
        exact deliverF_ndep _ _ (deliver_ndep _ (parentStatus_ndep _ _ h) (hds hc a (by simp))) (hds hc a (by simp))
      · exact parentStatus_ndep _ _ h

theorem waitNode_ndep {s : Sys} {n : Name} {nd : Node} (ds : List Name) (isCalc : Bool) (pc' : PC)
    (h : NDep inp rank n nd) (hc : isCalc = true → ∀ d ∈ ds, CalcOf inp n d)
    (ht : isCalc = false → ∀ d ∈ ds, Dep inp n d) (hpc : pcDep inp n pc') :
    NDep inp rank n (waitNode inp s nd ds isCalc pc') := by
  have a := absorbDone_ndep (s := s) (rank := rank) isCalc ds nd h hc
  unfold waitNode addWaits
  cases isCalc with
  | true =>
    simp only [if_true]
    refine ⟨a.anc, a.dt, a.dc, a.pt, a.pcalc, a.st, a.sc, a.wr, ?_, hpc⟩
    intro d hd
    simp only [List.mem_append, List.mem_filter] at hd
    rcases hd with x | x
    · exact hc rfl d x.1
    · exact a.wc d x
  | false =>
    simp only [Bool.false_eq_true, if_false]
    refine ⟨a.anc, a.dt, a.dc, a.pt, a.pcalc, a.st, a.sc, ?_, a.wc, hpc⟩
    intro d hd
    simp only [List.mem_append, List.mem_filter] at hd
    rcases hd with x | x
    · exact ht rfl d x.1
    · exact a.wr d x

theorem wokenNode_ndep {n : Name} {nd : Node} (pst : RS) (p : Name) (h : NDep inp rank n nd) :
    NDep inp rank n (wokenNode inp pst p nd) := by
  unfold wokenNode
  split
  · rename_i hp
    apply deliver_ndep _ _ (h.wc p hp)
    refine ⟨h.anc, h.dt, h.dc, h.pt, h.pcalc, h.st, h.sc, ?_, ?_, h.pcl⟩
    · intro d hd; exact h.wr d (List.mem_filter.mp hd).1
    · intro d hd; exact h.wc d (List.mem_filter.mp hd).1
  · refine ⟨h.anc, h.dt, h.dc, h.pt, h.pcalc, h.st, h.sc, ?_, h.wc, h.pcl⟩
    intro d hd; exact h.wr d (List.mem_filter.mp hd).1

theorem wokenF_ndep {n : Name} {nd : Node} (s : Sys) (pst : RS) (p : Name) (h : NDep inp rank n nd) :
    NDep inp rank n (wokenF inp s pst p nd) := by
  unfold wokenF; split
  · rename_i hp
    exact deliverF_ndep _ _ (wokenNode_ndep pst p h) (h.wc p hp)
  · exact wokenNode_ndep pst p h

theorem addWaiting_ndep {n : Name} {nd : Node} (m : Name) (h : NDep inp rank n nd) :
    NDep inp rank n (nd.addWaiting m) := by
  unfold Node.addWaiting; split
  · exact h
  · exact ⟨h.anc, h.dt, h.dc, h.pt, h.pcalc, h.st, h.sc, h.wr, h.wc, h.pcl⟩

/-! ### state level -/

theorem allN_setNode {s : Sys} {n : Name} {x : Node} (h : AllN inp rank s) (hx : NDep inp rank n x) :
    AllN inp rank (setNode s n x) := by
  intro k y hk
  simp only [setNode_nodes] at hk
  split at hk
  · rename_i e; subst e; cases hk; exact hx
  · exact h k y hk

theorem allN_congr {s s' : Sys} (h : AllN inp rank s) (e : s'.nodes = s.nodes) : AllN inp rank s' := by
  intro k y hk; rw [e] at hk; exact h k y hk

theorem allN_registerWaiting {s : Sys} (n : Name) (wf : List Name) (h : AllN inp rank s) :
    AllN inp rank (registerWaiting s n wf) := by
  intro k y hk
  rw [registerWaiting_nodes] at hk
  cases hx : s.nodes k with
  | none => rw [hx] at hk; cases hk
  | some x =>
    rw [hx] at hk
    by_cases e : k ∈ wf
    · simp only [e, if_true, Option.some.injEq] at hk; subst hk; exact addWaiting_ndep n (h k x hx)
    · simp only [e, if_false, Option.some.injEq] at hk; subst hk; exact h k x hx

/-- `_gen_node(node = n, d)` where `n` depends on `d`: the new node's ancestors are a dependency path -/
theorem genStep_allN {s : Sys} {n : Name} {nd : Node} (hr : Ranked inp rank) (d : Name) (pc' : PC)
    (h : AllN inp rank s) (hn : s.nodes n = some nd) (hd : Dep inp n d) (hpc : pcDep inp n pc') :
    AllN inp rank (genStep inp s n nd d pc') := by
  have hnd := h n nd hn
  have hx : NDep inp rank n { nd with pc := pc' } :=
    ⟨hnd.anc, hnd.dt, hnd.dc, hnd.pt, hnd.pcalc, hnd.st, hnd.sc, hnd.wr, hnd.wc, hpc⟩
  unfold genStep
  cases hdn : s.nodes d with
  | none =>
    simp only []
    refine allN_setNode (allN_setNode h (mkNode_ndep ?_)) hx
    intro a ha
    rcases List.mem_append.mp ha with x | x
    · exact Nat.le_trans (Nat.le_of_lt (hr n d hd)) (hnd.anc a x)
    · simp at x; subst x; exact Nat.le_refl _
  | some x =>
    simp only []
    split
    · exact h
    · exact allN_setNode h hx

theorem addWaitRun_allN {s : Sys} {n : Name} {nd : Node} (ds : List Name) (c : Bool) (pc' : PC)
    (h : AllN inp rank s) (hn : s.nodes n = some nd) (hc : c = true → ∀ d ∈ ds, CalcOf inp n d)
    (ht : c = false → ∀ d ∈ ds, Dep inp n d) (hpc : pcDep inp n pc') :
    AllN inp rank (addWaitRun inp s n nd ds c pc') := by
  unfold addWaitRun
  exact allN_registerWaiting n _ (allN_setNode h (waitNode_ndep ds c pc' (h n nd hn) hc ht hpc))

theorem nodeStep_allN {s s' : Sys} {n : Name} {nd : Node} {perm : List Name} (hr : Ranked inp rank)
    (h : AllN inp rank s) (hn : s.nodes n = some nd) (hs : nodeStep inp s n nd perm = some s') :
    AllN inp rank s' := by
  have hnd := h n nd hn
  have setPc : ∀ pc', pcDep inp n pc' → NDep inp rank n { nd with pc := pc' } := fun pc' hp =>
    ⟨hnd.anc, hnd.dt, hnd.dc, hnd.pt, hnd.pcalc, hnd.st, hnd.sc, hnd.wr, hnd.wc, hp⟩
  unfold nodeStep at hs
  cases hpc : nd.pc with
  | loopTop =>
    simp only [hpc] at hs; split at hs
    · rename_i hp; cases hs
      refine allN_setNode h ⟨hnd.anc, hnd.dt, hnd.dc, by simp, by simp, hnd.pt, ?_, hnd.wr, hnd.wc, ?_⟩
      · intro d hd; exact hnd.pcalc d (hp.mem_iff.mp hd)
      · intro d hd; exact hnd.pcalc d (hp.mem_iff.mp hd)
    · cases hs
  | calcIter todo =>
    have hp := hnd.pcl; rw [hpc] at hp
    simp only [hpc] at hs
    cases todo with
    | cons d ds =>
      cases hs
      exact genStep_allN hr d _ h hn (Dep.ofCalc (hp d (by simp))) (fun x hx => hp x (by simp [hx]))
    | nil =>
      cases hs
      exact addWaitRun_allN _ _ _ h hn (fun _ => hnd.sc) (fun e => by cases e) hnd.st
  | taskIter todo =>
    have hp := hnd.pcl; rw [hpc] at hp
    simp only [hpc] at hs
    cases todo with
    | cons d ds => cases hs; exact genStep_allN hr d _ h hn (hp d (by simp)) (fun x hx => hp x (by simp [hx]))
    | nil => cases hs; exact addWaitRun_allN _ _ _ h hn (fun e => by cases e) (fun _ => hnd.st) trivial
  | afterDeps =>
    simp only [hpc] at hs
    split at hs
    · cases hs; exact allN_setNode h (setPc _ trivial)
    · split at hs <;> (cases hs; exact allN_setNode h (setPc _ trivial))
  | self1 => simp only [hpc] at hs; cases hs; exact allN_setNode h (setPc _ trivial)
  | afterSelf1 =>
    simp only [hpc] at hs
    split at hs
    · cases hs; exact allN_setNode h (setPc _ trivial)
    · split at hs
      · cases hs
        exact allN_setNode h ⟨hnd.anc, hnd.dt, hnd.dc, hnd.pt, hnd.pcalc, hnd.st, hnd.sc, hnd.wr, hnd.wc, trivial⟩
      · cases hs; exact allN_setNode h (setPc _ trivial)
  | setupDecide =>
    simp only [hpc] at hs
    split at hs
    · cases hs; exact allN_setNode h (setPc _ (fun d hd => hd))
    · cases hs; exact allN_setNode h (setPc _ trivial)
  | setupIter todo =>
    have hp := hnd.pcl; rw [hpc] at hp
    simp only [hpc] at hs
    cases todo with
    | cons d ds =>
      cases hs
      exact genStep_allN hr d _ h hn (Dep.setup (hp d (by simp))) (fun x hx => hp x (by simp [hx]))
    | nil =>
      cases hs
      exact addWaitRun_allN _ _ _ h hn (fun e => by cases e) (fun _ d hd => Dep.setup hd) trivial
  | afterSetup =>
    simp only [hpc] at hs
    split at hs <;> (cases hs; exact allN_setNode h (setPc _ trivial))
  | self2 => simp only [hpc] at hs; cases hs; exact allN_setNode h (setPc _ trivial)
  | afterSelf2 => simp only [hpc] at hs; cases hs; exact allN_setNode h (setPc _ trivial)
  | done => simp only [hpc] at hs; cases hs; exact h

theorem dtick_allN {s s' : Sys} {perm : List Name} (hr : Ranked inp rank) (h : AllN inp rank s)
    (hs : dtick inp s perm = some s') : AllN inp rank s' := by
  unfold dtick at hs
  cases hc : s.cur with
  | some n =>
    simp only [hc] at hs
    cases hn : s.nodes n with
    | none => simp only [hn] at hs; cases hs; exact h
    | some nd => simp only [hn] at hs; exact nodeStep_allN hr h hn hs
  | none =>
    simp only [hc] at hs
    split at hs
    · cases hs; exact h
    · split at hs
      · split at hs
        · cases hs
          exact allN_setNode h (mkNode_ndep (by intro a ha; simp at ha; subst ha; exact Nat.le_refl _))
        · cases hs; exact h
      · split at hs
        · split at hs <;> (cases hs; exact h)
        · cases hs; exact h

theorem wakeOne_allN {s : Sys} {pst : RS} {p w : Name} {nd : Node} (h : AllN inp rank s)
    (hw : s.nodes w = some nd) : AllN inp rank (wakeOne inp s pst p w nd) := by
  have := allN_setNode h (wokenF_ndep s pst p (h w nd hw))
  unfold wakeOne; split
  · exact allN_congr this rfl
  · exact this

theorem updateWaiting_allN {pst : RS} {p : Name} :
    ∀ (perm : List Name) (s s' : Sys), AllN inp rank s → updateWaiting inp pst p s perm = some s' →
      AllN inp rank s' := by
  intro perm
  induction perm with
  | nil => intro s s' h hs; simp only [updateWaiting] at hs; cases hs; exact h
  | cons w ws ih =>
    intro s s' h hs
    simp only [updateWaiting] at hs
    cases hw : s.nodes w with
    | none => simp only [hw] at hs; exact ih s s' h hs
    | some nd =>
      simp only [hw] at hs
      split at hs
      · cases hs
      · exact ih _ s' (wakeOne_allN h hw) hs

theorem sendHead_allN {s : Sys} {p : Name} {nd : Node} (h : AllN inp rank s) (hn : s.nodes p = some nd) :
    AllN inp rank (sendHead s p nd) := by
  have hnd := h p nd hn
  unfold sendHead; split
  · exact allN_congr (allN_setNode h
      (x := { nd with waitSelect := false })
      ⟨hnd.anc, hnd.dt, hnd.dc, hnd.pt, hnd.pcalc, hnd.st, hnd.sc, hnd.wr, hnd.wc, hnd.pcl⟩) rfl
  · exact allN_congr h rfl

theorem send_allN {s s' : Sys} {processed : Option Name} {perm : List Name} (h : AllN inp rank s)
    (hs : send inp s processed perm = some s') : AllN inp rank s' := by
  unfold send at hs
  cases processed with
  | none => cases hs; exact allN_congr h rfl
  | some p =>
    simp only [] at hs
    cases hn : s.nodes p with
    | none => simp only [hn] at hs; cases hs; exact allN_congr h rfl
    | some nd =>
      simp only [hn] at hs
      split at hs
      · cases hs; exact allN_congr h rfl
      · split at hs
        · cases hs; exact allN_congr (sendHead_allN h hn) rfl
        · split at hs
          · cases hu : updateWaiting inp nd.status p (sendHead s p nd) perm with
            | none => simp only [hu] at hs; cases hs; exact allN_congr (sendHead_allN h hn) rfl
            | some s2 =>
              simp only [hu] at hs; cases hs
              exact allN_congr (updateWaiting_allN perm _ s2 (sendHead_allN h hn) hu) rfl
          · cases hs

/-- the runner changes only the status of a node -/
theorem allN_status {s s' : Sys} {n : Name} {nd : Node} (st' : RS) (h : AllN inp rank s) (hn : s.nodes n = some nd)
    (e : s'.nodes = (setNode s n { nd with status := st' }).nodes) : AllN inp rank s' := by
  have hnd := h n nd hn
  exact allN_congr (allN_setNode h (x := { nd with status := st' })
    ⟨hnd.anc, hnd.dt, hnd.dc, hnd.pt, hnd.pcalc, hnd.st, hnd.sc, hnd.wr, hnd.wc, hnd.pcl⟩) e

end DoitModel.Run
