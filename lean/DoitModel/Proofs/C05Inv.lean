import DoitModel.Proofs.C05Shape
import DoitModel.Model.RunFail
/-! # C05 — the invariant `InvF`: reports agree with statuses, an up-to-date task has only good dependencies,
    `--continue` never sets `_stop_running` -/
namespace DoitModel.Run

theorem closed_calcOf {inp : RunInput} {t : Name} {cs deps : List Name} (hc : DepsClosed inp t cs deps) {c : Name}
    (h : CalcOf inp t c) : c ∈ cs := by
  induction h with
  | base h => exact hc.1 _ h
  | step _ h ih => exact (hc.2.2 _ ih).1 _ h

/-- a closed dependency list contains every non-setup dependency except possibly static task_deps -/
theorem closed_depNS {inp : RunInput} {t : Name} {cs deps : List Name} (hc : DepsClosed inp t cs deps) {d : Name}
    (h : DepNS inp t d) : d ∈ inp.taskDep t ∨ d ∈ deps := by
  cases h with
  | task h => exact Or.inl h
  | ofCalc h => exact Or.inr (hc.2.1 _ (closed_calcOf hc h))
  | resTask h h' => exact Or.inr ((hc.2.2 _ (closed_calcOf hc h)).2.1 _ h')
  | resFile h h' => exact Or.inr ((hc.2.2 _ (closed_calcOf hc h)).2.2 _ h')

structure InvF (inp : RunInput) (s : Sys) : Prop where
  fl : ∀ n k, Ev.failure n k ∈ s.events → stOf s n = .fail
  ut : ∀ n, Ev.skipUtd n ∈ s.events → stOf s n = .utd
  ok : ∀ n, Ev.success n ∈ s.events → stOf s n = .ok ∧ ∃ deps, Ev.go n deps ∈ s.events
  ud : ∀ n, stOf s n = .utd → effStatus inp n = .utd ∧ ∀ d, DepNS inp n d → (stOf s d).good = true
  st : inp.continue_ = true → s.stop = false
  fe : ∀ n, stOf s n = .fail → ∃ k, Ev.failure n k ∈ s.events

/-- when `select_task` finds the task up-to-date, all its (non-setup) dependencies are executed / up-to-date -/
theorem utd_deps_good {inp : RunInput} {s : Sys} {n : Name} {nd : Node} (h : Inv2 inp s) (hg : InvG inp s)
    (hsusp : s.susp = some (.node n)) (hn : s.nodes n = some nd) (hd : selDecision inp n nd = .utd) :
    effStatus inp n = .utd ∧ ∀ d, DepNS inp n d → (stOf s d).good = true := by
  have hok := h.inv1.node n nd hn
  obtain ⟨nd', hn', hpc⟩ := h.inv1.sp n hsusp
  rw [hn] at hn'; cases hn'
  have clsGood : nd.bad = [] → nd.ign = [] → ∀ d, Cls s nd d → (stOf s d).good = true := by
    intro hb hi d ⟨c1, c2, c3⟩
    exact RS.good_of_fin c1 (fun e => by have := c2 e; rw [hb] at this; cases this)
      (fun e => by have := c3 e; rw [hi] at this; cases this)
  have hm1 : nd.pendTask = [] ∧ nd.pendCalc = [] ∧ nd.waitRunCalc = [] := by
    rcases hpc with e | e <;> exact hok.m1 (by rw [e]; rfl)
  have hm2 : nd.waitRun = [] := by
    rcases hpc with e | e <;> exact hok.m2 (by rw [e]; rfl)
  have noT : nd.pc.iterT = false := by rcases hpc with e | e <;> (rw [e]; rfl)
  have noC : nd.pc.iterC = false := by rcases hpc with e | e <;> (rw [e]; rfl)
  have loopDeps : nd.bad = [] → nd.ign = [] → ∀ d ∈ nd.dynTask ++ nd.dynCalc, (stOf s d).good = true := by
    intro hb hi d hd
    rcases List.mem_append.mp hd with hd | hd
    · rcases hok.kt d hd with a | ⟨a, _⟩ | a | a
      · rw [hm1.1] at a; cases a
      · rw [noT] at a; cases a
      · rw [hm2] at a; cases a
      · exact clsGood hb hi d a
    · rcases hok.kc d hd with a | ⟨a, _⟩ | a | a
      · rw [hm1.2.1] at a; cases a
      · rw [noC] at a; cases a
      · rw [hm1.2.2] at a; cases a
      · exact clsGood hb hi d a
  unfold selDecision at hd
  by_cases h0 : nd.status = .none
  · simp only [h0, if_true] at hd
    split at hd; · cases hd
    rename_i hi
    split at hd; · cases hd
    rename_i hb
    split at hd; · cases hd
    split at hd
    · rename_i heff
      have hi' : nd.ign = [] := by
        simp only [not_or, ne_eq, Decidable.not_not] at hi; exact hi.1
      have hb' : nd.bad = [] := by simpa using hb
      have good := loopDeps hb' hi'
      refine ⟨heff, ?_⟩
      -- the dynamic lists are closed under what the (good) calc_deps deliver
      have hclosed : DepsClosed inp n nd.dynCalc (nd.dynTask ++ nd.dynCalc) := by
        refine ⟨fun c hc => hok.st.2 c hc, fun c hc => by simp [hc], ?_⟩
        intro c hc
        have hpr : Processed nd c := ⟨by rw [hm1.2.1]; simp,
          (fun (e : nd.pc.iterC = true ∧ c ∈ nd.snapCalc) => by rw [noC] at e; cases e.1), by rw [hm1.2.2]; simp⟩
        have hgood : (stOf s c).good = true := good c (by simp [hc])
        obtain ⟨d1, d2, d3⟩ := hg.dc n nd hn c hc hpr hgood
        exact ⟨d3, fun x hx => by simp [d1 x hx], fun x hx => by simp [d2 x hx]⟩
      intro d hdn
      rcases closed_depNS hclosed hdn with a | a
      · exact good d (by simp [hok.st.1 d a])
      · exact good d a
    · split at hd
      · cases hd
      · split at hd <;> cases hd
  · simp only [h0, if_false] at hd
    split at hd; · cases hd
    split at hd; · cases hd
    split at hd; · cases hd
    split at hd <;> cases hd

theorem init_invF (inp : RunInput) : InvF inp (init inp) := by
  constructor
  · intro n k h; simp [init] at h
  · intro n h; simp [init] at h
  · intro n h; simp [init] at h
  · intro n h; simp [init, stOf] at h
  · intro _; rfl
  · intro n h; simp [init, stOf] at h

theorem quiet_not {new : List Ev} (hq : ∀ e ∈ new, e.quiet = true) :
    (∀ n k, Ev.failure n k ∉ new) ∧ (∀ n, Ev.skipUtd n ∉ new) ∧ (∀ n, Ev.success n ∉ new) := by
  refine ⟨fun n k h => ?_, fun n h => ?_, fun n h => ?_⟩ <;> (have := hq _ h; simp [Ev.quiet] at this)

theorem selEvents_cases {inp : RunInput} {n : Name} {nd : Node} {d : Sel} :
    (∀ m k, Ev.failure m k ∈ selEvents inp n nd d → m = n ∧ selStatus d = .fail) ∧
    (∀ m, Ev.skipUtd m ∈ selEvents inp n nd d → m = n ∧ d = .utd) ∧
    (∀ m, Ev.success m ∉ selEvents inp n nd d) := by
  have hs : ∀ e ∈ statusEv nd n, e = Ev.getStatus n := by
    intro e he; unfold statusEv at he; split at he <;> simp at he; exact he
  refine ⟨?_, ?_, ?_⟩
  · intro m k hm
    cases d <;> simp only [selEvents, List.mem_cons] at hm <;>
      first
      | (rcases hm with a | a
         · first | (cases a; exact ⟨rfl, rfl⟩) | cases a
         · have := hs _ a; cases this)
      | (have := hs _ hm; cases this)
      | cases hm
  · intro m hm
    cases d <;> simp only [selEvents, List.mem_cons] at hm <;>
      first
      | (rcases hm with a | a
         · first | (cases a; exact ⟨rfl, rfl⟩) | cases a
         · have := hs _ a; cases this)
      | (have := hs _ hm; cases this)
      | cases hm
  · intro m hm
    cases d <;> simp only [selEvents, List.mem_cons] at hm <;>
      first
      | (rcases hm with a | a
         · cases a
         · have := hs _ a; cases this)
      | (have := hs _ hm; cases this)
      | cases hm

theorem mem_go_mono {new old : List Ev} {n : Name} (h : ∃ deps, Ev.go n deps ∈ old) :
    ∃ deps, Ev.go n deps ∈ new ++ old := by
  obtain ⟨deps, hd⟩ := h; exact ⟨deps, List.mem_append.mpr (Or.inr hd)⟩

theorem invF_step {inp : RunInput} {s s' : Sys} (h : InvF inp s) (h2 : Inv2 inp s) (hg : InvG inp s)
    (sh : Shape inp s s') : InvF inp s' := by
  cases sh with
  | quiet new hst hev hq hstop =>
    obtain ⟨q1, q2, q3⟩ := quiet_not hq
    constructor
    · intro n k hm; rw [hev] at hm; rw [hst]
      rcases List.mem_append.mp hm with a | a
      · exact absurd a (q1 n k)
      · exact h.fl n k a
    · intro n hm; rw [hev] at hm; rw [hst]
      rcases List.mem_append.mp hm with a | a
      · exact absurd a (q2 n)
      · exact h.ut n a
    · intro n hm; rw [hev] at hm; rw [hst, hev]
      rcases List.mem_append.mp hm with a | a
      · exact absurd a (q3 n)
      · exact ⟨(h.ok n a).1, mem_go_mono (h.ok n a).2⟩
    · intro n hn; rw [hst] at hn
      refine ⟨(h.ud n hn).1, fun d hd => ?_⟩
      rw [hst]; exact (h.ud n hn).2 d hd
    · intro hc; rw [hstop]; exact h.st hc
    · intro n hn; rw [hst] at hn
      obtain ⟨k, hk⟩ := h.fe n hn
      exact ⟨k, by rw [hev]; exact List.mem_append.mpr (Or.inr hk)⟩
  | select m md extra haw hsusp hn hd hst hev hq hstop =>
    obtain ⟨q1, q2, q3⟩ := quiet_not hq
    obtain ⟨c1, c2, c3⟩ := @selEvents_cases inp m md (selDecision inp m md)
    have hunf : (stOf s m).finished = false := by
      simp only [stOf, hn]; exact selDecision_unfinished hd
    have keep : ∀ x, (stOf s x).finished = true → stOf s' x = stOf s x := by
      intro x hx; rw [hst]; split
      · rename_i e; subst e; rw [hunf] at hx; cases hx
      · rfl
    constructor
    · intro n k hmem; rw [hev] at hmem
      rcases List.mem_append.mp hmem with a | a
      · exact absurd a (q1 n k)
      · rcases List.mem_append.mp a with a | a
        · obtain ⟨e1, e2⟩ := c1 n k a
          subst e1; rw [hst]; simp [e2]
        · have := h.fl n k a
          rw [keep n (by rw [this]; rfl)]; exact this
    · intro n hmem; rw [hev] at hmem
      rcases List.mem_append.mp hmem with a | a
      · exact absurd a (q2 n)
      · rcases List.mem_append.mp a with a | a
        · obtain ⟨e1, e2⟩ := c2 n a
          subst e1; rw [hst]; simp [e2, selStatus]
        · have := h.ut n a
          rw [keep n (by rw [this]; rfl)]; exact this
    · intro n hmem; rw [hev] at hmem
      rcases List.mem_append.mp hmem with a | a
      · exact absurd a (q3 n)
      · rcases List.mem_append.mp a with a | a
        · exact absurd a (c3 n)
        · have := (h.ok n a).1
          refine ⟨by rw [keep n (by rw [this]; rfl)]; exact this, ?_⟩
          rw [hev]; exact mem_go_mono (mem_go_mono (h.ok n a).2)
    · intro n hnu
      rw [hst] at hnu
      by_cases e : n = m
      · subst e
        simp only [if_true] at hnu
        have hdu : selDecision inp n md = .utd := by
          cases hdd : selDecision inp n md <;> rw [hdd] at hnu <;> simp [selStatus] at hnu
        obtain ⟨g1, g2⟩ := utd_deps_good h2 hg hsusp hn hdu
        refine ⟨g1, fun d hdn => ?_⟩
        have := g2 d hdn
        rw [keep d (RS.good_finished this)]; exact this
      · simp only [e, if_false] at hnu
        refine ⟨(h.ud n hnu).1, fun d hdn => ?_⟩
        have := (h.ud n hnu).2 d hdn
        rw [keep d (RS.good_finished this)]; exact this
    · intro hc; rw [hstop hc]; exact h.st hc
    · intro n hn; rw [hst] at hn
      by_cases e : n = m
      · subst e
        simp only [if_true] at hn
        have : ∃ k, Ev.failure n k ∈ selEvents inp n md (selDecision inp n md) := by
          cases hdd : selDecision inp n md <;> rw [hdd] at hn <;> simp [selStatus] at hn <;>
            simp [selEvents]
        obtain ⟨k, hk⟩ := this
        exact ⟨k, by rw [hev]; exact List.mem_append.mpr (Or.inr (List.mem_append.mpr (Or.inl hk)))⟩
      · simp only [e, if_false] at hn
        obtain ⟨k, hk⟩ := h.fe n hn
        exact ⟨k, by rw [hev]; exact List.mem_append.mpr (Or.inr (List.mem_append.mpr (Or.inr hk)))⟩
  | result m md mid hn hrun hgo hst hev hq hstop =>
    obtain ⟨q1, q2, q3⟩ := quiet_not hq
    have hunf : (stOf s m).finished = false := by simp [stOf, hn, hrun, RS.finished]
    have keep : ∀ x, (stOf s x).finished = true → stOf s' x = stOf s x := by
      intro x hx; rw [hst]; split
      · rename_i e; subst e; rw [hunf] at hx; cases hx
      · rfl
    constructor
    · intro n k hmem; rw [hev] at hmem
      rcases List.mem_append.mp hmem with a | a
      · have : n = m ∧ resStatus (inp.outcome m) = .fail := by
          cases ho : inp.outcome m <;> rw [ho] at a <;> simp [resEvents] at a <;> simp [a, resStatus]
        rw [hst]; simp [this.1, this.2]
      · rcases List.mem_append.mp a with a | a
        · exact absurd a (q1 n k)
        · have := h.fl n k a
          rw [keep n (by rw [this]; rfl)]; exact this
    · intro n hmem; rw [hev] at hmem
      rcases List.mem_append.mp hmem with a | a
      · cases ho : inp.outcome m <;> rw [ho] at a <;> simp [resEvents] at a
      · rcases List.mem_append.mp a with a | a
        · exact absurd a (q2 n)
        · have := h.ut n a
          rw [keep n (by rw [this]; rfl)]; exact this
    · intro n hmem; rw [hev] at hmem
      rcases List.mem_append.mp hmem with a | a
      · have : n = m ∧ resStatus (inp.outcome m) = .ok := by
          cases ho : inp.outcome m <;> rw [ho] at a <;> simp [resEvents] at a <;> simp [a, resStatus]
        refine ⟨by rw [hst]; simp [this.1, this.2], ?_⟩
        rw [hev, this.1]; exact mem_go_mono (mem_go_mono hgo)
      · rcases List.mem_append.mp a with a | a
        · exact absurd a (q3 n)
        · have := (h.ok n a).1
          refine ⟨by rw [keep n (by rw [this]; rfl)]; exact this, ?_⟩
          rw [hev]; exact mem_go_mono (mem_go_mono (h.ok n a).2)
    · intro n hnu
      rw [hst] at hnu
      by_cases e : n = m
      · subst e
        simp only [if_true] at hnu
        cases ho : inp.outcome n <;> rw [ho] at hnu <;> simp [resStatus] at hnu
      · simp only [e, if_false] at hnu
        refine ⟨(h.ud n hnu).1, fun d hdn => ?_⟩
        have := (h.ud n hnu).2 d hdn
        rw [keep d (RS.good_finished this)]; exact this
    · intro hc; rw [hstop hc]; exact h.st hc
    · intro n hn; rw [hst] at hn
      by_cases e : n = m
      · subst e
        simp only [if_true] at hn
        have : ∃ k, Ev.failure n k ∈ resEvents n (inp.outcome n) := by
          cases ho : inp.outcome n <;> rw [ho] at hn <;> simp [resStatus] at hn <;> simp [resEvents]
        obtain ⟨k, hk⟩ := this
        exact ⟨k, by rw [hev]; exact List.mem_append.mpr (Or.inl hk)⟩
      · simp only [e, if_false] at hn
        obtain ⟨k, hk⟩ := h.fe n hn
        exact ⟨k, by rw [hev]; exact List.mem_append.mpr (Or.inr (List.mem_append.mpr (Or.inr hk)))⟩

theorem reach_invF {inp : RunInput} {s : Sys} (h : Reach inp s) : InvF inp s := by
  induction h with
  | init => exact init_invF inp
  | @next s0 s1 c hr hs ih =>
    cases c with
    | main perm => exact invF_step ih (reach_inv2 hr) (reach_invG hr) (serialStep_shape (reach_inv2 hr) (reach_inv3 hr) hs)
    | take w => cases hs
    | done w => cases hs

theorem preach_invF {inp : RunInput} {s : Sys} (h : PReach inp s) : InvF inp s := by
  induction h with
  | init => exact init_invF inp
  | @next s0 s1 c hr hs ih =>
    have hi := preach_inv hr
    exact invF_step ih hi.1 (preach_invG hr) (pstep_shape hi.1 hi.2 hs)

end DoitModel.Run
