import DoitModel.Proofs.C08Dyn5
import DoitModel.Proofs.C08Conf6
/-! # C08 (I10) with calc_dep: the operational flag "`c` has a start event" agrees with the denotation

For a task `c` whose status is `fail`: `started s c = true` (the flag `_process_calc_dep_results` reads through
`deliverF`) iff the derived outcome of `c` is a failure during its execution (`SF inp c`, i.e. `startedFail`).
`startF_of_inv` (⇒) follows from the invariants of a state; `StartB` (⇐) is an invariant of its own, preserved by
`select_task` (a failure found there is `unmet`, a `get_status` error or a `getargs` error: not `startedFail`) and by
`process_task_result` (applied to a task with a start event). -/
namespace DoitModel.Run.Dyn

theorem started_iff_cStart (s : Sys) (c : Name) : started s c = true ↔ cStart s c ≥ 1 := by
  unfold started cStart
  rw [List.any_eq_true, ge_iff_le, Nat.succ_le_iff, List.countP_pos_iff]
  constructor
  · rintro ⟨e, he, hp⟩
    refine ⟨e, he, ?_⟩
    cases e <;> simp [Ev.isStartOf] at hp ⊢
    exact hp
  · rintro ⟨e, he, hp⟩
    refine ⟨e, he, ?_⟩
    cases e <;> simp [Ev.isStartOf] at hp ⊢
    exact hp

theorem startedFail_resDen {inp : RunInput} {c : Name} (ha : inp.argsOk c = true) (hs : inp.statusOf c ≠ .error)
    (hr : (resDen (inp.outcome c)).rs = .fail) : startedFail inp c (resDen (inp.outcome c)) = true := by
  cases ho : inp.outcome c <;> rw [ho] at hr <;> simp [resDen, startedFail, Den.rs, ha, hs] at hr ⊢

/-- (⇒) a failed task with a start event failed during its execution -/
theorem startF_of_inv {inp : RunInput} {s : Sys} (h3 : Inv3 inp s) (hE : InvE inp s) : StartF inp s := by
  intro c hf hst
  have hc := (started_iff_cStart s c).mp hst
  have hgo : ∃ deps, Ev.go c deps ∈ s.events := go_of_cGo (by have := h3.j c; omega)
  obtain ⟨deps, hg⟩ := hgo
  have gk := hE.go c deps hg
  obtain ⟨d, hd, hrs⟩ := hE.fin c (by rw [hf]; rfl)
  have e : d = resDen (inp.outcome c) := hd.functional gk.den
  refine ⟨_, gk.den, startedFail_resDen gk.args.1 gk.args.2 ?_⟩
  rw [← e, hrs, hf]

theorem StartB.frame {inp : RunInput} {s s' : Sys} (h : StartB (SF inp) s) (hst : ∀ x, stOf s' x = stOf s x)
    (new : List Ev) (hev : s'.events = new ++ s.events) : StartB (SF inp) s' := by
  intro c hf hsf
  rw [hst] at hf
  have := h c hf hsf
  unfold started at this ⊢
  rw [hev, List.any_append, this, Bool.or_true]

theorem init_startB (inp : RunInput) : StartB (SF inp) (init inp) := by
  intro c hf; simp [stOf, init] at hf

/-- `select_task`: a failure found there is not a failure during execution -/
theorem startB_applySel {inp : RunInput} {s : Sys} {n : Name} {nd : Node} (h : StartB (SF inp) s)
    (hd : selDecision inp n nd ≠ .assertFail)
    (hE' : InvE inp (applySel inp s n nd (selDecision inp n nd))) :
    StartB (SF inp) (applySel inp s n nd (selDecision inp n nd)) := by
  intro c hf hsf
  have hev := applySel_events inp s n nd (selDecision inp n nd)
  rw [stOf_applySel inp s n nd _ hd] at hf
  by_cases e : c = n
  · subst e
    simp only [if_true] at hf
    exfalso
    obtain ⟨d, hdn, hs⟩ := hsf
    have rep : ∀ k, Ev.failure c k ∈ selEvents inp c nd (selDecision inp c nd) → d = .fail k := by
      intro k hk
      exact hdn.functional (hE'.rep _ (by rw [hev]; exact List.mem_append.mpr (Or.inl hk)) c _ (by simp [Ev.den?]))
    cases hdec : selDecision inp c nd <;> rw [hdec] at hf rep <;> simp only [selStatus] at hf <;> try cases hf
    · have := rep .unmet (by simp [selEvents]); subst this; simp [startedFail] at hs
    · have := rep .depErr (by simp [selEvents]); subst this
      simp [startedFail, selDecision_depErr hdec] at hs
    · have := rep .depErr (by simp [selEvents]); subst this
      simp [startedFail, selDecision_argsErr hdec] at hs
  · simp only [e, if_false] at hf
    have := h c hf hsf
    unfold started at this ⊢
    rw [hev, List.any_append, this, Bool.or_true]

/-- `process_task_result` is applied to a task with a start event -/
theorem startB_result {inp : RunInput} {s : Sys} {n : Name} {nd : Node} (h : StartB (SF inp) s)
    (hst : cStart s n ≥ 1) : StartB (SF inp) (processResult inp s n nd) := by
  intro c hf hsf
  have hev := processResult_events inp s n nd
  rw [stOf_processResult] at hf
  have mono : started s c = true → started (processResult inp s n nd) c = true := by
    intro this
    unfold started at this ⊢
    rw [hev, List.any_append, this, Bool.or_true]
  by_cases e : c = n
  · subst e; exact mono ((started_iff_cStart s c).mpr hst)
  · simp only [e, if_false] at hf; exact mono (h c hf hsf)

end DoitModel.Run.Dyn
