import DoitModel.Proofs.C20
import DoitModel.Proofs.Status
import DoitModel.Proofs.StatusNoCrash
/-! # C20: the `changed_file_dep` reason against what the last recorded successful execution saw (ghost state) -/
namespace DoitModel.Intro
open DoitModel.Status

theorem listed_empty (c : Checker) (fs : FS) (p : Path) : depListed c Rcd.empty fs p = (fs p).isSome := by
  simp only [depListed, Rcd.empty]
  cases fs p <;> rfl

/-- under the history invariant, same checker as the last recorded successful execution: `info` lists a dependency
    as changed exactly when it exists and that execution did not have it or it is modified -- by the checker's rule --
    relative to what that execution saw -/
theorem changed_iff_spec {s : St} (hinv : Inv s) (t : Name) (e : Exec) (he : s.shadow t = some e)
    (hck : e.checker = s.checker) (p : Path) :
    p ∈ (infoReasons s t).changed ↔
      p ∈ (s.defs t).deps ∧ (s.fs p).isSome = true ∧ (p ∉ e.deps ∨ depUnmod s.checker e s.fs p = false) := by
  have hag := hinv.agree t
  rw [he] at hag
  obtain ⟨_, _, hc, hd, hfs⟩ := hag
  have hcc : checkerChanged s.checker (s.rcd t) = false := by
    simp [checkerChanged, hc, hck]
  simp only [infoReasons, reasonsOf, List.mem_filter, logRcd, hcc, Bool.false_eq_true, if_false, depListed,
    notInPrev, hd]
  cases hf : s.fs p with
  | none => simp
  | some cur =>
    by_cases hp : p ∈ e.deps
    · obtain ⟨sm, hsaw, hst⟩ := hfs p hp
      have hne := checkModified_stateOf_ne_crash s.checker sm cur
      simp only [hst, hp, hck, decide_true, Bool.not_true, Bool.false_or, Option.isSome_some, true_and,
        not_true_eq_false, false_or, depUnmod, hf, hsaw, unmodBy, beq_iff_eq]
      cases hm : checkModified s.checker (stateOf s.checker sm) cur <;> simp_all
    · cases hs : (s.rcd t).fstate p <;> simp [hp]

/-- no recorded execution: every existing dependency is listed -/
theorem changed_iff_none {s : St} (hinv : Inv s) (t : Name) (he : s.shadow t = none) (p : Path) :
    p ∈ (infoReasons s t).changed ↔ p ∈ (s.defs t).deps ∧ (s.fs p).isSome = true := by
  have hag := hinv.agree t
  rw [he] at hag
  obtain ⟨_, _, hc, _, hfs⟩ := hag
  have hcc : checkerChanged s.checker (s.rcd t) = false := by simp [checkerChanged, hc]
  simp only [infoReasons, reasonsOf, List.mem_filter, logRcd, hcc, Bool.false_eq_true, if_false, depListed, hfs p]
  cases s.fs p <;> simp

/-- the last recorded execution used another checker: every existing dependency is listed -/
theorem changed_iff_other {s : St} (hinv : Inv s) (t : Name) (e : Exec) (he : s.shadow t = some e)
    (hck : e.checker ≠ s.checker) (p : Path) :
    p ∈ (infoReasons s t).changed ↔ p ∈ (s.defs t).deps ∧ (s.fs p).isSome = true := by
  have hag := hinv.agree t
  rw [he] at hag
  obtain ⟨_, _, hc, _, _⟩ := hag
  have hcc : checkerChanged s.checker (s.rcd t) = true := by
    simp [checkerChanged, hc, hck]
  simp only [infoReasons, reasonsOf, List.mem_filter, logRcd, hcc, if_true, listed_empty]

/-- a state in which only md5 states are saved and md5 is configured (every history without a checker switch): no
    saved state of the wrong shape -/
theorem md5Only_no_crash {s : St} (h : Md5Only s) (t : Name) :
    (s.defs t).deps.any (depIs .crash s.checker (s.rcd t) s.fs) = false := by
  rw [List.any_eq_false]
  intro p _
  rw [h.ck]
  simp [depIs_crash_false (h.shape t) s.fs p]

end DoitModel.Intro
