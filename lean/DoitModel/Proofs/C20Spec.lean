import DoitModel.Proofs.C20
import DoitModel.Proofs.Status
/-! # C20: the `changed_file_dep` reason against what the last recorded successful execution saw (ghost state) -/
namespace DoitModel.Intro
open DoitModel.Status

/-- under the history invariant: for a dependency the last recorded successful execution had, with the same checker,
    `info` lists it as changed exactly when it exists and is modified -- by the checker's rule -- relative to what that
    execution saw -/
theorem changed_iff_spec {s : St} (hinv : Inv s) (t : Name) (e : Exec) (he : s.shadow t = some e)
    (hck : e.checker = s.checker) (p : Path) (hp : p ∈ e.deps) :
    p ∈ (infoReasons s t).changed ↔
      p ∈ (s.defs t).deps ∧ (s.fs p).isSome = true ∧ depUnmod s.checker e s.fs p = false := by
  have hag := hinv.agree t
  rw [he] at hag
  obtain ⟨_, _, hc, _, hfs⟩ := hag
  obtain ⟨sm, hsaw, hst⟩ := hfs p hp
  have hcc : checkerChanged s.checker (s.rcd t) = false := by
    simp [checkerChanged, hc, hck]
  simp only [infoReasons, reasonsOf, List.mem_filter, logRcd, hcc, Bool.false_eq_true, if_false, depIs, depUnmod,
    hsaw]
  cases hf : s.fs p with
  | none => simp
  | some cur =>
    simp only [depVerdict, hst, hck, Option.isSome_some, unmodBy, true_and, beq_iff_eq]
    have hne := checkModified_stateOf_ne_crash s.checker sm cur
    cases hm : checkModified s.checker (stateOf s.checker sm) cur <;> simp_all

end DoitModel.Intro
