import DoitModel.Proofs.C19Inv
/-! # C19: the reporting invariant of the process runner with forwarded reports (`FSys`), per kind of step

`FBase inp pend s`: as `Inv19`, but `execute_task` reports are part of the trace and arrive late: `pend n` of them are
still on the queue. -/
namespace DoitModel.Report
open DoitModel.Run

structure FBase (inp : RunInput) (pend : Name → Nat) (s : Sys) : Prop where
  fin : s.final = finalEv s.events
  fl : ∀ n, stOf s n = .fail → ∃ k, Ev.failure n k ∈ s.events
  ig : ∀ n, stOf s n = .ign → Ev.skipIgn n ∈ s.events
  g0 : ∀ n, stOf s n = .none → ∀ e ∈ s.events, Ev.touches n e = false
  g1 : ∀ n, stOf s n ≠ .none → Ev.getStatus n ∈ s.events
  ex : ∀ n, cExec s n + pend n = cStart s n
  ord : repOrd true true (fun _ => false) s.events = true
  st : ∀ n, cStart s n ≥ 1 → stOf s n = .run ∨ cTerm s n ≥ 1
  tl : truthLiteOrd inp s.events = true

theorem FBase.same {inp : RunInput} {pend : Name → Nat} {s s' : Sys} (h : FBase inp pend s) (e1 : s'.events = s.events)
    (e2 : ∀ x, stOf s' x = stOf s x) (e3 : s'.final = s.final) : FBase inp pend s' := by
  constructor
  · rw [e3, e1]; exact h.fin
  · intro n hn; rw [e1]; exact h.fl n (by rw [← e2]; exact hn)
  · intro n hn; rw [e1]; exact h.ig n (by rw [← e2]; exact hn)
  · intro n hn; rw [e1]; exact h.g0 n (by rw [← e2]; exact hn)
  · intro n hn; rw [e1]; exact h.g1 n (by rw [← e2]; exact hn)
  · intro n; simp only [cExec, cStart, e1]; exact h.ex n
  · rw [e1]; exact h.ord
  · intro n hn
    have : cStart s n ≥ 1 := by simpa [cStart, e1] using hn
    rcases h.st n this with a | a
    · left; rw [e2]; exact a
    · right; simpa [cTerm, e1] using a
  · rw [e1]; exact h.tl

theorem FBase.outer {inp : RunInput} {pend : Name → Nat} {s s' : Sys} (h : FBase inp pend s) (o : SameOuter s s')
    (e2 : ∀ x, stOf s' x = stOf s x) : FBase inp pend s' :=
  h.same o.1 e2 o.2.2.2.2.2.2.1

theorem init_fbase (inp : RunInput) : FBase inp (fun _ => 0) (init inp) := by
  constructor <;> simp [init, finalEv, stOf, cExec, cStart, cTerm, repOrd, truthLiteOrd]

theorem fbase_select {inp : RunInput} {pend : Name → Nat} {s : Sys} {n : Name} {nd : Node} (h : FBase inp pend s)
    (h3 : Inv3 inp s) (haw : awaiting s) (hsu : s.susp = some (.node n)) (hn : s.nodes n = some nd)
    (hne : selDecision inp n nd ≠ .assertFail) : FBase inp pend (applySel inp s n nd (selDecision inp n nd)) := by
  have hstat := selDecision_status hne
  have hstn : stOf s n = nd.status := by simp [stOf, hn]
  have hgo : cGo s n = 0 := h3.z haw n hsu
  have hstart : cStart s n = 0 := by have := h3.j n; omega
  have hterm : cTerm s n = 0 := h3.t n (by rw [hstn]; rcases hstat with a | a <;> rw [a] <;> rfl)
  have hexec : cExec s n = 0 := by have := h.ex n; omega
  generalize hd : selDecision inp n nd = d at hne ⊢
  have hev := applySel_events inp s n nd d
  have hst := stOf_applySel inp s n nd d hne
  have hsn := selStatus_ne_none hne
  have P1 : (statusEv nd n ++ s.events).any (Ev.isGetStatusOf n) = true := by
    rcases hstat with a | a
    · simp [statusEv, a, Ev.isGetStatusOf]
    · rw [List.any_append, any_gs_of_mem (h.g1 n (by rw [hstn, a]; simp))]; simp
  have P2 : (statusEv nd n ++ s.events).any (Ev.isTerminalOf n) = false := by
    rw [List.any_append, any_false_of_countP (show s.events.countP _ = 0 from hterm)]
    unfold statusEv; split <;> simp [Ev.isTerminalOf]
  have P3 : (statusEv nd n ++ s.events).any (Ev.isStartOf n) = false := by
    rw [List.any_append, any_false_of_countP (show s.events.countP _ = 0 from hstart)]
    unfold statusEv; split <;> simp [Ev.isStartOf]
  have P4 : (statusEv nd n ++ s.events).any (Ev.isExecOf n) = false := by
    rw [List.any_append, any_false_of_countP (show s.events.countP _ = 0 from hexec)]
    unfold statusEv; split <;> simp [Ev.isExecOf]
  have P5 : repOrd true true (fun _ => false) (statusEv nd n ++ s.events) = true := by
    rcases hstat with a | a
    · have : (s.events.any (Ev.touches n)) = false := any_touch_false (h.g0 n (by rw [hstn, a]))
      simp [statusEv, a, repOrd, repOK, this, h.ord]
    · simp [statusEv, a, h.ord]
  constructor
  · rw [hev]; exact applySel_final inp s n nd d h.fin
  · intro x hx; rw [hst] at hx; rw [hev]
    by_cases e : x = n
    · subst e; simp only [if_true] at hx
      cases d <;> simp [selStatus] at hx <;>
        first | (refine ⟨.unmet, ?_⟩; simp [selEvents]; done) | (refine ⟨.depErr, ?_⟩; simp [selEvents]; done)
    · simp only [e, if_false] at hx
      obtain ⟨k, hk⟩ := h.fl x hx; exact ⟨k, List.mem_append_right _ hk⟩
  · intro x hx; rw [hst] at hx; rw [hev]
    by_cases e : x = n
    · subst e; simp only [if_true] at hx
      cases d <;> simp [selStatus] at hx <;> simp [selEvents]
    · simp only [e, if_false] at hx
      exact List.mem_append_right _ (h.ig x hx)
  · intro x hx; rw [hst] at hx
    by_cases e : x = n
    · subst e; simp only [if_true] at hx; exact absurd hx hsn
    · simp only [e, if_false] at hx
      intro ev hm; rw [hev] at hm
      rcases List.mem_append.mp hm with a | a
      · exact selEvents_touches inp n nd d x e ev a
      · exact h.g0 x hx ev a
  · intro x hx; rw [hst] at hx; rw [hev]
    by_cases e : x = n
    · subst e
      obtain ⟨ev, hm, hp⟩ := List.any_eq_true.mp P1
      have : ev = Ev.getStatus x := by cases ev <;> simp [Ev.isGetStatusOf] at hp <;> simp [hp]
      subst this
      have hsub : ∀ e ∈ statusEv nd x ++ s.events, e ∈ selEvents inp x nd d ++ s.events := by
        intro e he; rcases List.mem_append.mp he with a | a
        · apply List.mem_append_left; cases d <;> simp [selEvents, a] at hne ⊢
        · exact List.mem_append_right _ a
      exact hsub _ hm
    · simp only [e, if_false] at hx
      exact List.mem_append_right _ (h.g1 x hx)
  · intro x
    have := h.ex x
    simp only [cExec, cStart, hev, List.countP_append, selEvents_exec, (selEvents_counts inp n nd d x).start] at this ⊢
    simpa using this
  · rw [hev]
    cases d <;> simp [selEvents, repOrd, repOK, firstFinal, P1, P2, P3, P4, P5] at hne ⊢
  · intro x hx
    have c := counts_append hev x
    have sc := selEvents_counts inp n nd d x
    rw [c.2.1, sc.start] at hx
    by_cases e : x = n
    · subst e; omega
    · rcases h.st x (by omega) with a | a
      · left; rw [hst]; simp only [e, if_false]; exact a
      · right; rw [c.2.2.2]; omega
  · rw [hev]
    have T5 : truthLiteOrd inp (statusEv nd n ++ s.events) = true := by
      unfold statusEv; split <;> simp [truthLiteOrd, truthLite, h.tl]
    cases d with
    | utd => obtain ⟨a, b⟩ := selDecision_utd hd; simp [selEvents, truthLiteOrd, truthLite, T5, a, b]
    | depErr => have a := selDecision_depErr hd; simp [selEvents, truthLiteOrd, truthLite, T5, P3, a]
    | argsErr => have a := selDecision_argsErr hd; simp [selEvents, truthLiteOrd, truthLite, T5, P3, a]
    | skipIgn => simp [selEvents, truthLiteOrd, truthLite, T5]
    | unmet => simp [selEvents, truthLiteOrd, truthLite, T5]
    | runFirst => simp [selEvents, truthLiteOrd, truthLite, T5]
    | go => simp [selEvents, truthLiteOrd, truthLite, T5]
    | assertFail => exact absurd rfl hne

/-- a worker process picks up task `n`: the action's start mark is written, the `execute_task` report is put on the
    queue (one more pending) -/
theorem fbase_start {inp : RunInput} {pend pend' : Name → Nat} {s s' : Sys} {n w : Nat} (h : FBase inp pend s) (hrun : stOf s n = .run)
    (hev : s'.events = Ev.start n w :: s.events) (hst : ∀ x, stOf s' x = stOf s x) (hf : s'.final = s.final)
    (hp : ∀ x, pend' x = pend x + (if x = n then 1 else 0)) : FBase inp pend' s' := by
  have hsub : ∀ e ∈ s.events, e ∈ s'.events := fun e he => by rw [hev]; exact List.mem_cons_of_mem _ he
  constructor
  · rw [hf, hev, h.fin]; simp [finalEv]
  · intro x hx; rw [hst] at hx; obtain ⟨k, hk⟩ := h.fl x hx; exact ⟨k, hsub _ hk⟩
  · intro x hx; rw [hst] at hx; exact hsub _ (h.ig x hx)
  · intro x hx; rw [hst] at hx
    have hxn : ¬ n = x := by intro e; subst e; rw [hrun] at hx; cases hx
    intro e he; rw [hev] at he
    rcases List.mem_cons.mp he with a | a
    · subst a; simp [Ev.touches, hxn]
    · exact h.g0 x hx e a
  · intro x hx; rw [hst] at hx; exact hsub _ (h.g1 x hx)
  · intro x
    have := h.ex x
    simp only [cExec, cStart, hev, List.countP_cons, hp] at this ⊢
    by_cases e : x = n
    · subst e; simp [Ev.isExecOf, Ev.isStartOf] at this ⊢; omega
    · have e' : ¬ n = x := fun a => e a.symm
      simp [Ev.isExecOf, Ev.isStartOf, e, e'] at this ⊢; omega
  · rw [hev]; simp [repOrd, repOK, h.ord]
  · intro x hx
    by_cases e : x = n
    · subst e; left; rw [hst]; exact hrun
    · have hx' : ¬ n = x := fun a => e a.symm
      have h1 : cStart s' x = cStart s x := by simp [cStart, hev, List.countP_cons, Ev.isStartOf, hx']
      have h2 : cTerm s' x = cTerm s x := by simp [cTerm, hev, List.countP_cons, Ev.isTerminalOf]
      rw [h1] at hx; rw [hst, h2]; exact h.st x hx
  · rw [hev]; simp [truthLiteOrd, truthLite, h.tl]

theorem fbase_fin {inp : RunInput} {pend : Name → Nat} {s s' : Sys} {n w : Nat} (h : FBase inp pend s) (hrun : stOf s n = .run)
    (hstart : cStart s n ≥ 1) (hev : s'.events = Ev.fin n w :: s.events)
    (hst : ∀ x, stOf s' x = stOf s x) (hf : s'.final = s.final) : FBase inp pend s' := by
  have hsub : ∀ e ∈ s.events, e ∈ s'.events := fun e he => by rw [hev]; exact List.mem_cons_of_mem _ he
  constructor
  · rw [hf, hev, h.fin]; simp [finalEv]
  · intro x hx; rw [hst] at hx; obtain ⟨k, hk⟩ := h.fl x hx; exact ⟨k, hsub _ hk⟩
  · intro x hx; rw [hst] at hx; exact hsub _ (h.ig x hx)
  · intro x hx; rw [hst] at hx
    have hxn : ¬ n = x := by intro e; subst e; rw [hrun] at hx; cases hx
    intro e he; rw [hev] at he
    rcases List.mem_cons.mp he with a | a
    · subst a; simp [Ev.touches, hxn]
    · exact h.g0 x hx e a
  · intro x hx; rw [hst] at hx; exact hsub _ (h.g1 x hx)
  · intro x
    have := h.ex x
    simp only [cExec, cStart, hev, List.countP_cons] at this ⊢
    simpa [Ev.isExecOf, Ev.isStartOf] using this
  · rw [hev]
    have P := any_true_of_countP (show s.events.countP (Ev.isStartOf n) ≥ 1 from hstart)
    simp [repOrd, repOK, P, h.ord]
  · intro x hx
    have h1 : cStart s' x = cStart s x := by simp [cStart, hev, List.countP_cons, Ev.isStartOf]
    have h2 : cTerm s' x = cTerm s x := by simp [cTerm, hev, List.countP_cons, Ev.isTerminalOf]
    rw [h1] at hx; rw [hst, h2]; exact h.st x hx
  · rw [hev]; simp [truthLiteOrd, truthLite, h.tl]

/-- the main process takes the forwarded `execute_task n` from the head of the queue and calls the real reporter -/
theorem fbase_deliver {inp : RunInput} {pend pend' : Name → Nat} {s s' : Sys} {n : Nat} (h : FBase inp pend s)
    (h3 : Inv3 inp s) (hrun : stOf s n = .run) (hpn : pend n ≥ 1)
    (hev : s'.events = Ev.execute n :: s.events) (hst : ∀ x, stOf s' x = stOf s x) (hf : s'.final = s.final)
    (hp : ∀ x, pend' x + (if x = n then 1 else 0) = pend x) : FBase inp pend' s' := by
  have hsub : ∀ e ∈ s.events, e ∈ s'.events := fun e he => by rw [hev]; exact List.mem_cons_of_mem _ he
  have hterm : cTerm s n = 0 := h3.t n (by rw [hrun]; rfl)
  have hs1 : cStart s n ≤ 1 := by have := h3.j n; have := (h3.p0 n).1; omega
  have hexec : cExec s n = 0 := by have := h.ex n; omega
  constructor
  · rw [hf, hev, h.fin]; simp [finalEv]
  · intro x hx; rw [hst] at hx; obtain ⟨k, hk⟩ := h.fl x hx; exact ⟨k, hsub _ hk⟩
  · intro x hx; rw [hst] at hx; exact hsub _ (h.ig x hx)
  · intro x hx; rw [hst] at hx
    have hxn : ¬ n = x := by intro e; subst e; rw [hrun] at hx; cases hx
    intro e he; rw [hev] at he
    rcases List.mem_cons.mp he with a | a
    · subst a; simp [Ev.touches, hxn]
    · exact h.g0 x hx e a
  · intro x hx; rw [hst] at hx; exact hsub _ (h.g1 x hx)
  · intro x
    have := h.ex x
    have hpx := hp x
    simp only [cExec, cStart, hev, List.countP_cons] at this ⊢
    by_cases e : x = n
    · subst e; simp [Ev.isExecOf, Ev.isStartOf] at this hpx ⊢; omega
    · have e' : ¬ n = x := fun a => e a.symm
      simp [Ev.isExecOf, Ev.isStartOf, e, e'] at this hpx ⊢; omega
  · rw [hev]
    have P1 := any_gs_of_mem (h.g1 n (by rw [hrun]; simp))
    have P2 := any_false_of_countP (show s.events.countP (Ev.isTerminalOf n) = 0 from hterm)
    have P4 := any_false_of_countP (show s.events.countP (Ev.isExecOf n) = 0 from hexec)
    simp [repOrd, repOK, firstFinal, h.ord, P1, P2, P4]
  · intro x hx
    have h1 : cStart s' x = cStart s x := by simp [cStart, hev, List.countP_cons, Ev.isStartOf]
    have h2 : cTerm s' x = cTerm s x := by simp [cTerm, hev, List.countP_cons, Ev.isTerminalOf]
    rw [h1] at hx; rw [hst, h2]; exact h.st x hx
  · rw [hev]; simp [truthLiteOrd, truthLite, h.tl]

/-- `process_task_result(n)` for a result taken from the head of the queue: the forwarded `execute_task n` was
    delivered before (`pend n = 0`: FIFO) -/
theorem fbase_result {inp : RunInput} {pend : Name → Nat} {s : Sys} {n : Name} {nd : Node} (h : FBase inp pend s)
    (hn : s.nodes n = some nd) (hrun : nd.status = .run) (hterm : cTerm s n = 0) (hfin : cFin s n ≥ 1)
    (hstart : cStart s n ≥ 1) (hpend : pend n = 0) : FBase inp pend (processResult inp s n nd) := by
  have hstn : stOf s n = .run := by simp [stOf, hn, hrun]
  have hev := processResult_events inp s n nd
  have hst := stOf_processResult inp s n nd
  have hsub : ∀ e ∈ s.events, e ∈ (processResult inp s n nd).events :=
    fun e he => by rw [hev]; exact List.mem_append_right _ he
  constructor
  · rw [hev]; exact processResult_final inp s n nd h.fin
  · intro x hx; rw [hst] at hx
    by_cases e : x = n
    · subst e; rw [hev]
      cases ho : inp.outcome x <;> simp [ho, resStatus] at hx
      · exact ⟨.failed, by simp [resEvents]⟩
      · exact ⟨.error, by simp [resEvents]⟩
      · exact ⟨.depErr, by simp [resEvents]⟩
    · simp only [e, if_false] at hx; obtain ⟨k, hk⟩ := h.fl x hx; exact ⟨k, hsub _ hk⟩
  · intro x hx; rw [hst] at hx
    by_cases e : x = n
    · subst e; cases ho : inp.outcome x <;> simp [ho, resStatus] at hx
    · simp only [e, if_false] at hx; exact hsub _ (h.ig x hx)
  · intro x hx; rw [hst] at hx
    by_cases e : x = n
    · subst e; cases ho : inp.outcome x <;> simp [ho, resStatus] at hx
    · simp only [e, if_false] at hx
      have e' : ¬ n = x := fun a => e a.symm
      intro ev hm; rw [hev] at hm
      rcases List.mem_append.mp hm with a | a
      · cases ho : inp.outcome n <;> simp [ho, resEvents] at a <;> (subst a; simp [Ev.touches, e'])
      · exact h.g0 x hx ev a
  · intro x hx
    by_cases e : x = n
    · subst e; exact hsub _ (h.g1 x (by rw [hstn]; simp))
    · rw [hst] at hx; simp only [e, if_false] at hx; exact hsub _ (h.g1 x hx)
  · intro x
    have := h.ex x
    simp only [cExec, cStart, hev, List.countP_append] at this ⊢
    cases ho : inp.outcome n <;> simpa [resEvents, List.countP_cons, Ev.isExecOf, Ev.isStartOf] using this
  · rw [hev]
    have P1 := any_gs_of_mem (h.g1 n (by rw [hstn]; simp))
    have P2 := any_false_of_countP (show s.events.countP (Ev.isTerminalOf n) = 0 from hterm)
    have P3 := any_true_of_countP (show s.events.countP (Ev.isFinOf n) ≥ 1 from hfin)
    have P4 : s.events.any (Ev.isExecOf n) = true := by
      have := h.ex n
      exact any_true_of_countP (show s.events.countP (Ev.isExecOf n) ≥ 1 by unfold cExec cStart at *; omega)
    cases ho : inp.outcome n <;> simp [resEvents, repOrd, repOK, firstFinal, P1, P2, P3, P4, h.ord]
  · intro x hx
    have c := counts_append hev x
    have rc := resEvents_counts n (inp.outcome n) x
    rw [c.2.1, rc.start] at hx
    by_cases e : x = n
    · subst e; right; rw [c.2.2.2, rc.term]; simp
    · have e' : ¬ n = x := fun a => e a.symm
      rcases h.st x (by omega) with a | a
      · left; rw [hst]; simp only [e, if_false]; exact a
      · right; rw [c.2.2.2]; omega
  · rw [hev]
    have P3' : s.events.any (Ev.isStartOf n) = true :=
      any_true_of_countP (show s.events.countP (Ev.isStartOf n) ≥ 1 from hstart)
    cases ho : inp.outcome n <;> simp [resEvents, truthLiteOrd, truthLite, h.tl, P3', ho]

theorem fbase_finishRun {inp : RunInput} {pend : Name → Nat} {s : Sys} (h : FBase inp pend s) : FBase inp pend (finishRun s) := by
  have hev : (finishRun s).events = Ev.complete :: (s.tdown.map Ev.teardown ++ s.events) := rfl
  have hsub : ∀ e ∈ s.events, e ∈ (finishRun s).events :=
    fun e he => by rw [hev]; exact List.mem_cons_of_mem _ (List.mem_append_right _ he)
  have hcnt : ∀ p : Ev → Bool, p .complete = false → (∀ t, p (.teardown t) = false) →
      (finishRun s).events.countP p = s.events.countP p := by
    intro p h1 h2
    rw [hev, List.countP_cons, List.countP_append]
    have : (s.tdown.map Ev.teardown).countP p = 0 := by
      rw [List.countP_eq_zero]; intro e he
      obtain ⟨t, _, rfl⟩ := List.mem_map.mp he
      simp [h2 t]
    simp [h1, this]
  constructor
  · show s.final = _
    rw [hev]; simp only [finalEv]; rw [finalEv_teardown]; exact h.fin
  · intro x hx; obtain ⟨k, hk⟩ := h.fl x hx; exact ⟨k, hsub _ hk⟩
  · intro x hx; exact hsub _ (h.ig x hx)
  · intro x hx e he; rw [hev] at he
    rcases List.mem_cons.mp he with a | a
    · subst a; rfl
    · rcases List.mem_append.mp a with b | b
      · obtain ⟨t, _, rfl⟩ := List.mem_map.mp b; rfl
      · exact h.g0 x hx e b
  · intro x hx; exact hsub _ (h.g1 x hx)
  · intro x
    have := h.ex x
    unfold cExec cStart at *
    rw [hcnt _ (by rfl) (by intro t; rfl), hcnt _ (by rfl) (by intro t; rfl)]; exact this
  · rw [hev]; simp only [repOrd, repOK, Bool.true_and]
    exact repOrd_teardown _ _ _ _ _ h.ord
  · intro x hx
    unfold cStart cTerm at *
    rw [hcnt _ (by rfl) (by intro t; rfl)] at hx
    rw [hcnt _ (by rfl) (by intro t; rfl)]
    exact h.st x hx
  · rw [hev]; simp only [truthLiteOrd, truthLite, Bool.true_and]
    exact truthLiteOrd_teardown _ _ _ h.tl

end DoitModel.Report
