import DoitModel.Proofs.Load
/-! `Task.__init__` / `dict_to_task` (model `initTask`, `dictToTask`): what acceptance implies, where a crash can come from -/
namespace DoitModel.Load

theorem get_mem (d : TDict) (a : Attr) (v : RawVal) (h : get d a = some v) : (a, v) ∈ d := by
  induction d with
  | nil => simp [get] at h
  | cons p rest ih =>
    obtain ⟨x, w⟩ := p
    by_cases hx : x = a
    · subst hx; rw [get_cons_eq] at h; cases h; simp
    · rw [get_cons_ne _ _ _ _ hx] at h; simp [ih h]

theorem checkAll_mem (d : TDict) (h : checkAll d = true) (p : Attr × RawVal) (hp : p ∈ d) :
    ∃ s, validAttr p.1 = some s ∧ checkAttr (effective p.1 p.2) s = true := by
  unfold checkAll at h
  have := List.all_eq_true.mp h p hp
  cases hv : validAttr p.1 with
  | none => simp [hv] at this
  | some s => exact ⟨s, rfl, by simpa [hv] using this⟩

/-- after the checks `clean` is `True`, a list or a tuple: iterating it cannot fail -/
theorem cleanStep_no_crash (d : TDict) (hc : checkAll d = true) (e : Exn) :
    cleanStep (get d .clean) ≠ .error (.crash e) := by
  intro h
  cases hg : get d .clean with
  | none => rw [hg] at h; simp [cleanStep] at h
  | some v =>
    obtain ⟨s, hs, hchk⟩ := checkAll_mem d hc (.clean, v) (get_mem d .clean v hg)
    have hs' : s = ([.list, .tuple], [.true]) := by
      have : validAttr .clean = some ([.list, .tuple], [.true]) := by decide
      rw [this] at hs; exact (Option.some.inj hs).symm
    subst hs'
    rw [hg] at h
    cases v <;> simp_all [cleanStep, checkAttr, effective, RawVal.isInstance, RawVal.eqLit]

theorem getargsStep_no_crash (d : TDict) (e : Exn) : getargsStep d ≠ .error (.crash e) := by
  unfold getargsStep
  split
  · simp
  · split <;> simp

theorem strName_no_crash (v : Option RawVal) (e : Exn) : strName v ≠ .error (.crash e) := by
  unfold strName
  split <;> simp

/-- `Task.__init__` raises nothing but InvalidTask -/
theorem initTask_no_crash (d : TDict) (e : Exn) : initTask d ≠ .error (.crash e) := by
  intro h
  unfold initTask at h
  by_cases hc : checkAll d = true
  · simp only [hc, Bool.not_true, Bool.false_eq_true, if_false] at h
    cases hn : strName (get d .name) with
    | error e' =>
      rw [hn] at h
      simp only at h
      cases h
      exact absurd hn (strName_no_crash _ _)
    | ok nm =>
      rw [hn] at h
      simp only at h
      split at h
      · simp at h
      · cases hg : getargsStep d with
        | error e' =>
          rw [hg] at h; simp only at h; cases h
          exact absurd hg (getargsStep_no_crash d e)
        | ok ga =>
          rw [hg] at h; simp only at h
          cases hcl : cleanStep (get d .clean) with
          | error e' =>
            rw [hcl] at h; simp only at h; cases h
            exact absurd hcl (cleanStep_no_crash d hc e)
          | ok u => rw [hcl] at h; simp at h
  · simp [hc] at h

theorem dictToTask_no_crash (d : TDict) (e : Exn) : dictToTask d ≠ .error (.crash e) := by
  intro h
  unfold dictToTask at h
  split at h
  · simp at h
  · split at h
    · simp at h
    · exact initTask_no_crash d e h

theorem mem_dedup (l : List Name) (n : Name) : n ∈ dedup l ↔ n ∈ l := by
  induction l with
  | nil => simp [dedup]
  | cons x xs ih =>
    simp only [dedup, List.mem_cons, List.mem_filter, ih]
    by_cases h : n = x
    · simp [h]
    · simp [h]

/-- acceptance by `Task.__init__`: all checks passed and the task is `mkTask` -/
theorem initTask_ok (d : TDict) (t : Task) (h : initTask d = .ok t) :
    checkAll d = true ∧ ∃ nm ga, get d .name = some (.str nm) ∧ nm.contains chEq = false ∧
      getargsStep d = .ok ga ∧ t = mkTask d nm ga := by
  unfold initTask at h
  by_cases hc : checkAll d = true
  · refine ⟨hc, ?_⟩
    simp only [hc, Bool.not_true, Bool.false_eq_true, if_false] at h
    cases hn : strName (get d .name) with
    | error e' => rw [hn] at h; simp at h
    | ok nm =>
      rw [hn] at h
      simp only at h
      have hname : get d .name = some (.str nm) := by
        unfold strName at hn
        split at hn
        · cases hn; assumption
        · simp at hn
      split at h
      · simp at h
      · rename_i heq
        cases hg : getargsStep d with
        | error e' => rw [hg] at h; simp at h
        | ok ga =>
          rw [hg] at h; simp only at h
          cases hcl : cleanStep (get d .clean) with
          | error e' => rw [hcl] at h; simp at h
          | ok u =>
            rw [hcl] at h; simp only at h
            exact ⟨nm, ga, hname, by simpa using heq, rfl, (Except.ok.inj h).symm⟩
  · simp [hc] at h

theorem dictToTask_ok (d : TDict) (t : Task) (h : dictToTask d = .ok t) :
    (get d .actions).isSome = true ∧ (∀ p ∈ d, (validAttr p.1).isSome = true) ∧ initTask d = .ok t := by
  unfold dictToTask at h
  split at h
  · simp at h
  · rename_i ha
    split at h
    · simp at h
    · rename_i hk
      refine ⟨by cases hq : get d .actions <;> simp_all, ?_, h⟩
      intro p hp
      have := hk
      simp only [List.any_eq_true, not_exists, not_and, Bool.not_eq_true] at this
      have h2 := this p hp
      cases hv : validAttr p.1 with
      | none => simp [hv] at h2
      | some s => rfl

/-- every task name written in `task_dep` (without `*`), `setup`, `calc_dep` or `getargs` of an accepted dict is a
    dependency of the Task object, so that `TaskControl` checks it -/
theorem dictToTask_refs (d : TDict) (t : Task) (h : dictToTask d = .ok t) :
    (∀ n ∈ seqItems (get d .task_dep), n.contains chStar = false → n ∈ t.taskDep) ∧
    (∀ n ∈ seqItems (get d .setup), n ∈ t.setupTasks) ∧
    (∀ n ∈ seqItems (get d .calc_dep), n ∈ t.calcDep) ∧
    (∀ e ∈ getargsEntries (get d .getargs), ∀ tk, e.2 = some tk → tk ∈ t.setupTasks) ∧
    t.targets = seqItems (get d .targets) := by
  obtain ⟨_, _, hi⟩ := dictToTask_ok d t h
  obtain ⟨_, nm, ga, _, _, hga, ht⟩ := initTask_ok d t hi
  subst ht
  refine ⟨?_, ?_, ?_, ?_, rfl⟩
  · intro n hn hs
    have : ¬ chStar ∈ n := by simpa using hs
    simp [mkTask, List.mem_filter, hn, this]
  · intro n hn
    simp [mkTask, hn]
  · intro n hn
    simp [mkTask, mem_dedup, hn]
  · intro e he tk htk
    have hmem : tk ∈ ga := by
      unfold getargsStep at hga
      split at hga
      · rename_i hemp
        have : getargsEntries (get d .getargs) = [] := by simpa using hemp
        rw [this] at he; simp at he
      · split at hga
        · simp at hga
        · cases hga
          simp only [List.mem_filterMap]
          exact ⟨e, he, htk⟩
    by_cases hs : tk ∈ seqItems (get d .setup)
    · simp [mkTask, hs]
    · simp [mkTask, mem_dedup, List.mem_filter, hmem, hs]

end DoitModel.Load
