import DoitModel.Proofs.C08Dyn3
import DoitModel.Proofs.C08Conf4
/-! # C08 (I10) with calc_dep, step 3a: the state invariant `InvE` (statuses, `go` marks and reports agree with `DenOf`), its frame
    lemma, and the two status-changing operations given their denotational justification -/
namespace DoitModel.Run.Dyn

/-- the first pass of `select_task(n)` said `run`, justified by derived outcomes of all its dependencies -/
def R1 (inp : RunInput) (n : Name) : Prop :=
  ∃ (dd : Name → Den) (L : List Name), (∀ x, x ∈ L ↔ DepOf inp dd n x) ∧ (∀ d ∈ L, DenOf inp d (dd d)) ∧
    stage1L inp dd L n = .run

/-- `select_task(n)` answered `True`: both passes are through, the outcome of `n` is what its actions do -/
def GoOK (inp : RunInput) (n : Name) : Prop :=
  ∃ (dd : Name → Den) (L : List Name), (∀ x, x ∈ L ↔ DepOf inp dd n x) ∧ (∀ d ∈ L, DenOf inp d (dd d)) ∧
    stage1L inp dd L n = .run ∧ (∀ d ∈ inp.setup n, DenOf inp d (dd d)) ∧ stage2 inp dd n = resDen (inp.outcome n) ∧
    inp.argsOk n = true

theorem selDecision_go_args {inp : RunInput} {n : Name} {nd : Node} (h : selDecision inp n nd = .go) :
    inp.argsOk n = true := by
  unfold selDecision at h
  repeat' split at h
  all_goals first | assumption | cases h

theorem selDecision_argsErr {inp : RunInput} {n : Name} {nd : Node} (h : selDecision inp n nd = .argsErr) :
    inp.argsOk n = false := by
  unfold selDecision at h
  repeat' split at h
  all_goals first | (rename_i hh; simpa using hh) | cases h

theorem selDecision_depErr {inp : RunInput} {n : Name} {nd : Node} (h : selDecision inp n nd = .depErr) :
    inp.statusOf n = .error := by
  unfold selDecision at h
  repeat' split at h
  all_goals first | assumption | cases h

theorem stage1L_run_status {inp : RunInput} {dd : Name → Den} {L : List Name} {n : Name}
    (h : stage1L inp dd L n = .run) : inp.statusOf n ≠ .error := by
  unfold stage1L at h
  repeat' split at h
  all_goals first | assumption | cases h

theorem GoOK.args {inp : RunInput} {n : Name} (h : GoOK inp n) : inp.argsOk n = true ∧ inp.statusOf n ≠ .error := by
  obtain ⟨dd, L, _, _, h1, _, _, ha⟩ := h
  exact ⟨ha, stage1L_run_status h1⟩

theorem GoOK.den {inp : RunInput} {n : Name} (h : GoOK inp n) : DenOf inp n (resDen (inp.outcome n)) := by
  obtain ⟨dd, L, hL, hT, h1, hS, h2, _⟩ := h
  have := DenOf.mk n dd L hL hT (fun _ => hS)
  have e : combineL inp dd L n = resDen (inp.outcome n) := by simp only [combineL, h1]; exact h2
  rwa [e] at this

structure InvE (inp : RunInput) (s : Sys) : Prop where
  fin : ∀ n, (stOf s n).finished = true → ∃ d, DenOf inp n d ∧ d.rs = stOf s n
  run1 : ∀ n, stOf s n = .run → R1 inp n
  go : ∀ n deps, Ev.go n deps ∈ s.events → GoOK inp n
  rep : ∀ e ∈ s.events, ∀ t d, Ev.den? t e = some d → DenOf inp t d

theorem InvE.frame {inp : RunInput} {s s' : Sys} (h : InvE inp s) (hst : ∀ x, stOf s' x = stOf s x)
    (new : List Ev) (hev : s'.events = new ++ s.events) (hp : ∀ e ∈ new, Ev.plainD e) : InvE inp s' := by
  constructor
  · intro n hn; rw [hst] at hn ⊢; exact h.fin n hn
  · intro n hn; rw [hst] at hn; exact h.run1 n hn
  · intro n deps hm; rw [hev] at hm
    rcases List.mem_append.mp hm with a | a
    · exact absurd rfl ((hp _ a).2 n deps)
    · exact h.go n deps a
  · intro e he t d hd; rw [hev] at he
    rcases List.mem_append.mp he with a | a
    · rw [(hp e a).1 t] at hd; cases hd
    · exact h.rep e a t d hd

theorem InvE.congr {inp : RunInput} {s s' : Sys} (h : InvE inp s) (e1 : s'.nodes = s.nodes)
    (e2 : s'.events = s.events) : InvE inp s' :=
  h.frame (stOf_congr e1) [] (by simpa using e2) (by simp)

theorem init_invE (inp : RunInput) : InvE inp (init inp) := by
  constructor
  · intro n hn; simp [stOf, init, RS.finished] at hn
  · intro n hn; simp [stOf, init] at hn
  · intro n deps hm; simp [init] at hm
  · intro e he; simp [init] at he

/-! ### `select_task` -/

theorem invE_applySel {inp : RunInput} {s : Sys} {n : Name} {nd : Node} (dec : Sel) (h : InvE inp s)
    (hn : s.nodes n = some nd) (hu : nd.status.finished = false) (hdec : dec ≠ .assertFail)
    (ha : ∀ d, selDen dec = some d → DenOf inp n d)
    (hb : dec = .runFirst ∨ dec = .go → R1 inp n)
    (hc : dec = .go → GoOK inp n) : InvE inp (applySel inp s n nd dec) := by
  have hst := stOf_applySel inp s n nd dec hdec
  have hev := applySel_events inp s n nd dec
  have hsn : (stOf s n).finished = false := by simp [stOf, hn, hu]
  constructor
  · intro x hx
    rw [hst] at hx ⊢
    by_cases e : x = n
    · subst e
      simp only [if_true] at hx ⊢
      cases dec <;> simp [selStatus, RS.finished] at hx ⊢
      · exact ⟨_, ha _ rfl, rfl⟩
      · exact ⟨_, ha _ rfl, rfl⟩
      · exact ⟨_, ha _ rfl, rfl⟩
      · exact ⟨_, ha _ rfl, rfl⟩
      · exact ⟨_, ha _ rfl, rfl⟩
    · simp only [e, if_false] at hx ⊢; exact h.fin x hx
  · intro x hx
    rw [hst] at hx
    by_cases e : x = n
    · subst e
      simp only [if_true] at hx
      apply hb
      cases dec <;> simp [selStatus] at hx ⊢
    · simp only [e, if_false] at hx; exact h.run1 x hx
  · intro m deps hm
    rw [hev] at hm
    rcases List.mem_append.mp hm with a | a
    · cases dec <;> simp [selEvents, statusEv_noGo] at a
      obtain ⟨rfl, _⟩ := a
      exact hc rfl
    · exact h.go m deps a
  · intro e he t d hd
    rw [hev] at he
    rcases List.mem_append.mp he with a | a
    · have key : e ∈ statusEv nd n ∨ (t = n ∧ selDen dec = some d) := by
        cases dec <;> simp only [selEvents, List.mem_cons] at a
        all_goals first
          | exact Or.inl a
          | (rcases a with a | a
             · subst a
               simp only [Ev.den?] at hd
               first
                 | (split at hd
                    · rename_i e'; cases hd; exact Or.inr ⟨e'.symm, rfl⟩
                    · cases hd)
                 | cases hd
             · exact Or.inl a)
          | cases a
      rcases key with k | ⟨k1, k2⟩
      · rw [(statusEv_plainD nd n e k).1 t] at hd; cases hd
      · subst k1; exact ha d k2
    · exact h.rep e a t d hd

/-! ### `process_task_result` -/

theorem invE_result {inp : RunInput} {s : Sys} {n : Name} {nd : Node} (h : InvE inp s)
    (hgo : ∃ deps, Ev.go n deps ∈ s.events) : InvE inp (processResult inp s n nd) := by
  obtain ⟨deps, hg⟩ := hgo
  have hden := (h.go n deps hg).den
  have hst := stOf_processResult inp s n nd
  have hev := processResult_events inp s n nd
  constructor
  · intro x hx
    rw [hst] at hx ⊢
    by_cases e : x = n
    · subst e; simp only [if_true]; exact ⟨_, hden, resDen_rs _⟩
    · simp only [e, if_false] at hx ⊢; exact h.fin x hx
  · intro x hx
    rw [hst] at hx
    by_cases e : x = n
    · subst e; simp only [if_true] at hx
      cases ho : inp.outcome x <;> simp [ho, resStatus] at hx
    · simp only [e, if_false] at hx; exact h.run1 x hx
  · intro m d hm
    rw [hev] at hm
    rcases List.mem_append.mp hm with a | a
    · cases ho : inp.outcome n <;> rw [ho] at a <;> simp [resEvents] at a
    · exact h.go m d a
  · intro e he t d hd
    rw [hev] at he
    rcases List.mem_append.mp he with a | a
    · have : t = n ∧ d = resDen (inp.outcome n) := by
        cases ho : inp.outcome n <;> rw [ho] at a <;> simp only [resEvents, List.mem_singleton] at a <;> subst a <;>
          simp only [Ev.den?] at hd <;> (split at hd
                                         · rename_i e'; cases hd; exact ⟨e'.symm, rfl⟩
                                         · cases hd)
      obtain ⟨rfl, rfl⟩ := this
      exact hden
    · exact h.rep e a t d hd

end DoitModel.Run.Dyn
