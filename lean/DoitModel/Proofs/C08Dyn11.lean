import DoitModel.Proofs.C08Dyn10
import DoitModel.Proofs.C08Conf11
/-! # C08 (I10) with calc_dep, closure, part 2b: `NodeP` in every reachable state -/
namespace DoitModel.Run.Dyn

/-- a first pass that ends the task (ignored / unmet / error / up-to-date) means the denotation's first stage does
    not say `run` -/
theorem first_pass_notR1 {inp : RunInput} {s : Sys} {n : Name} {nd : Node} (hD : InvE inp s) (hN : InvN inp s)
    (h2 : Inv2 inp s) (hdc : AllDC inp s) (hsusp : s.susp = some (.node n)) (hn : s.nodes n = some nd)
    (h0 : nd.status = .none) (hdf : DelivF inp s nd)
    (hfin : (selStatus (selDecision inp n nd)).finished = true) (hs : inp.setup n ≠ []) : ¬ R1 inp n := by
  have hS := hN n nd hn
  obtain ⟨nd', hn', hpc⟩ := h2.inv1.sp n hsusp
  rw [hn] at hn'; cases hn'
  have hpc1 : nd.pc = .afterSelf1 := by
    rcases hpc with e | e
    · exact e
    · exact absurd h0 (hS.2 (by rw [e]; rfl))
  have sd : SelDeps inp s n nd := sel_deps hD hN h2.inv1 hdc hn (by rw [hpc1]; rfl) (by rw [hpc1]; rfl) hdf
  have key := first_pass_key hN hn sd hpc1 h0
  intro r
  have h1 := r1_now sd r
  cases hdec : selDecision inp n nd <;> rw [hdec] at key hfin <;> simp [selStatus, RS.finished] at hfin
  · rw [h1] at key; cases key
  · rw [h1] at key; cases key
  · rw [h1] at key; cases key
  · rw [h1] at key; cases key
  · exact hs key.2.1

theorem invP2_status {inp : RunInput} {s s' : Sys} {n : Name} {nd : Node} (st' : RS) (h : InvP2 inp s)
    (e : s'.nodes = (setNode s n { nd with status := st' }).nodes)
    (hx : NodeP inp s n { nd with status := st' }) : InvP2 inp s' := by
  have k : Keeps s s' := (keeps_setNode (n := n) { nd with status := st' }).trans (Keeps.of_eq e)
  intro m y hm
  rw [e] at hm
  simp only [setNode_nodes] at hm
  split at hm
  · rename_i e'; subst e'; cases hm; exact hx.mono k rfl rfl
  · exact (h m y hm).mono k rfl rfl

theorem invP2_select {inp : RunInput} {s s' : Sys} {n : Name} {nd : Node} (hD : InvE inp s) (hN : InvN inp s)
    (h2 : Inv2 inp s) (hdc : AllDC inp s) (haw : awaiting s) (hsusp : s.susp = some (.node n)) (hn : s.nodes n = some nd)
    (h : InvP2 inp s) (hdf : DelivF inp s nd)
    (e : s'.nodes = (setNode s n { nd with status := selStatus (selDecision inp n nd) }).nodes) : InvP2 inp s' := by
  obtain ⟨nd', hn', hpc⟩ := h2.inv1.sp n hsusp
  rw [hn] at hn'; cases hn'
  have hP := h n nd hn
  refine invP2_status _ h e ⟨?_, ?_, ?_, ?_⟩
  · intro hfin hp hs
    have hp' : nd.pc = .afterSelf1 ∨ nd.pc = .setupDecide := hp
    have hpc1 : nd.pc = .afterSelf1 := by
      rcases hpc with a | a
      · exact a
      · rcases hp' with b | b <;> (rw [a] at b; cases b)
    exact first_pass_notR1 hD hN h2 hdc hsusp hn (h2.sel1 haw n nd hsusp hn hpc1) hdf hfin hs
  · intro todo hp
    have hp' : nd.pc = .setupIter todo := hp
    rcases hpc with a | a <;> (rw [a] at hp'; cases hp')
  · intro hp; exact hP.late hp
  · intro hp
    have hp' : nd.pc = .done := hp
    rcases hpc with a | a <;> (rw [a] at hp'; cases hp')

theorem invP2_result {inp : RunInput} {s s' : Sys} {n : Name} {nd : Node} (h3 : Inv3 inp s)
    (hn : s.nodes n = some nd) (hrun : nd.status = .run) (hgo : cGo s n ≥ 1) (h : InvP2 inp s)
    (e : s'.nodes = (setNode s n { nd with status := resStatus (inp.outcome n) }).nodes) : InvP2 inp s' := by
  obtain ⟨nd', hn', hy⟩ := h3.y n hgo
  rw [hn] at hn'; cases hn'
  have hP := h n nd hn
  refine invP2_status _ h e ⟨?_, ?_, ?_, ?_⟩
  · intro _ hp hs
    have hp' : nd.pc = .afterSelf1 ∨ nd.pc = .setupDecide := hp
    rcases hy with a | a | ⟨a, _⟩
    · rcases hp' with b | b <;> (rw [a] at b; cases b)
    · rcases hp' with b | b <;> (rw [a] at b; cases b)
    · exact absurd a hs
  · intro todo hp
    have hp' : nd.pc = .setupIter todo := hp
    rcases hy with a | a | ⟨_, a⟩ <;> (rw [a] at hp'; cases hp')
  · intro hp; exact hP.late hp
  · intro hp _
    exact hP.fin hp (by rw [hrun]; simp)

theorem stepKind_invP2 {inp : RunInput} {s s' : Sys} {perm : List Name} (hD : InvDen inp s) (hG : InvG inp s)
    (h2 : Inv2 inp s)
    (h3 : Inv3 inp s)
    (ha4 : ∀ n nd, s.nodes n = some nd → nd.pc.yielded1 = true → nd.status = .none → s.susp = some (.node n))
    (h : InvP2 inp s) (k : StepKind inp s s' perm) : InvP2 inp s' := by
  rcases k with ⟨a, b⟩ | ⟨n, nd, a, b, c, _, e⟩ | ⟨n, nd, a, b, c, e⟩ | ⟨a, b⟩
  · exact dtick_invP2 h2.inv1 ha4 a h b
  · have hl : nd.pc.inLoop = false := by
      obtain ⟨nd', hn', hpc⟩ := h2.inv1.sp n b
      rw [c] at hn'; cases hn'
      rcases hpc with e' | e' <;> (rw [e']; rfl)
    exact invP2_select hD.den hD.nodeS h2 hG.dc a b c h (hD.delivF h2.inv1 c hl) e
  · exact invP2_result h3 a b c h e
  · exact h.back a b

theorem reach_invP2 {inp : RunInput} {s : Sys} (h : Reach inp s) : InvP2 inp s := by
  induction h with
  | init => intro n nd hn; simp [init] at hn
  | @next s0 s1 c hr hs ih =>
    cases c with
    | main perm =>
      exact stepKind_invP2 (reach_invDen hr) (reach_invG hr) (reach_inv2 hr) (reach_inv3 hr)
        (fun n nd a b c => ((reach_invL hr).a4 n nd a b c).1) ih (serialStep_kind (reach_inv2 hr) (reach_inv3 hr) hs)
    | take w => cases hs
    | done w => cases hs

theorem preach_invP2 {inp : RunInput} {s : Sys} (h : PReach inp s) : InvP2 inp s := by
  induction h with
  | init => intro n nd hn; simp [init] at hn
  | @next s0 s1 c hr hs ih =>
    cases c with
    | main perm =>
      exact stepKind_invP2 (preach_invDen hr) (preach_invG hr) (preach_inv hr).1 (preach_inv hr).2
        (fun n nd a b c => ((preach_invP hr).a4 n nd a b c).1) ih (mainStep_kind (preach_inv hr).2 hs)
    | take w => exact ih.same (takeStep_nodes hs)
    | done w => exact ih.same (doneStep_nodes hs)

end DoitModel.Run.Dyn
