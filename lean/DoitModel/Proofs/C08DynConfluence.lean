import DoitModel.Proofs.C08Dyn12
import DoitModel.Proofs.C08Confluence
import DoitModel.Proofs.C08DynTotal
/-! # C08 (I10) confluence for ANY task graph, dynamic `calc_dep` edges included

Every finished `run_status` and every terminal report equals the schedule-independent denotation `Dyn.DenOf` in every
reachable state of the serial and of the parallel system; complete runs report exactly `Dyn.DenCl`; hence two complete
runs of the same task table (same `calcRes` / `calcResFail` oracles) and selection agree on every report and on the exit code.  No
acyclicity hypothesis: a run that ends normally (`halt = none`) has derived every outcome it reports. -/
namespace DoitModel.Run.Dyn

theorem reachable_invDen {inp : RunInput} {s : Sys} (hr : Reach inp s ∨ PReach inp s) : InvDen inp s := by
  rcases hr with h | h
  · exact reach_invDen h
  · exact preach_invDen h

/-- a finished run_status is the status of THE derived outcome of the task -/
theorem status_is_den {inp : RunInput} {s : Sys} (hr : Reach inp s ∨ PReach inp s) (t : Name)
    (hf : (stOf s t).finished = true) : ∃ d, DenOf inp t d ∧ d.rs = stOf s t :=
  (reachable_invDen hr).fin t hf

/-- a terminal report (success / up-to-date / ignored / failure of kind k) is THE derived outcome of the task -/
theorem report_is_den {inp : RunInput} {s : Sys} (hr : Reach inp s ∨ PReach inp s) (t : Name)
    (d : Den) (h : ∃ e ∈ s.events, Ev.den? t e = some d) : DenOf inp t d := by
  obtain ⟨e, he, hd⟩ := h
  exact (reachable_invDen hr).den.rep e he t d hd

/-- the same, on the observable trace as the monitors read it -/
theorem reportOf_is_den {inp : RunInput} {s : Sys} (hr : Reach inp s ∨ PReach inp s) (t : Name)
    (d : Den) (h : reportOf (trace inp s) t = some d) : DenOf inp t d := by
  unfold reportOf at h
  obtain ⟨e, he, hd⟩ := List.exists_of_findSome?_eq_some h
  apply report_is_den hr t d
  refine ⟨e, ?_, hd⟩
  unfold trace at he
  exact (List.mem_filter.mp (List.mem_reverse.mp he)).1

theorem confluent_status {inp1 inp2 : RunInput} {s1 s2 : Sys} (hsame : SameTasksC inp1 inp2)
    (h1 : Reach inp1 s1 ∨ PReach inp1 s1) (h2 : Reach inp2 s2 ∨ PReach inp2 s2) (t : Name)
    (f1 : (stOf s1 t).finished = true) (f2 : (stOf s2 t).finished = true) : stOf s1 t = stOf s2 t := by
  obtain ⟨d1, a1, b1⟩ := status_is_den h1 t f1
  obtain ⟨d2, a2, b2⟩ := status_is_den h2 t f2
  rw [← b1, ← b2, a1.functional (a2.same hsame.symm)]

theorem confluent_report {inp1 inp2 : RunInput} {s1 s2 : Sys} (hsame : SameTasksC inp1 inp2)
    (h1 : Reach inp1 s1 ∨ PReach inp1 s1) (h2 : Reach inp2 s2 ∨ PReach inp2 s2) (t : Name) (d1 d2 : Den)
    (r1 : ∃ e ∈ s1.events, Ev.den? t e = some d1) (r2 : ∃ e ∈ s2.events, Ev.den? t e = some d2) : d1 = d2 :=
  (report_is_den h1 t d1 r1).functional ((report_is_den h2 t d2 r2).same hsame.symm)

theorem confluent_reportOf {inp1 inp2 : RunInput} {s1 s2 : Sys} (hsame : SameTasksC inp1 inp2)
    (h1 : Reach inp1 s1 ∨ PReach inp1 s1) (h2 : Reach inp2 s2 ∨ PReach inp2 s2) (t : Name)
    (r1 : (reportOf (trace inp1 s1) t).isSome = true) (r2 : (reportOf (trace inp2 s2) t).isSome = true) :
    reportOf (trace inp1 s1) t = reportOf (trace inp2 s2) t := by
  obtain ⟨d1, e1⟩ := Option.isSome_iff_exists.mp r1
  obtain ⟨d2, e2⟩ := Option.isSome_iff_exists.mp r2
  rw [e1, e2]
  have := (reportOf_is_den h1 t d1 e1).functional ((reportOf_is_den h2 t d2 e2).same hsame.symm)
  rw [this]

theorem status_matches_report {inp1 inp2 : RunInput} {s1 s2 : Sys} (hsame : SameTasksC inp1 inp2)
    (h1 : Reach inp1 s1 ∨ PReach inp1 s1) (h2 : Reach inp2 s2 ∨ PReach inp2 s2) (t : Name) (d : Den)
    (f1 : (stOf s1 t).finished = true) (r2 : ∃ e ∈ s2.events, Ev.den? t e = some d) : stOf s1 t = d.rs := by
  obtain ⟨d1, a1, b1⟩ := status_is_den h1 t f1
  rw [← b1, a1.functional ((report_is_den h2 t d r2).same hsame.symm)]

/-- two runs of the same task table that report the same set of tasks exit with the same code -/
theorem confluent_exit {inp1 inp2 : RunInput} {s1 s2 : Sys} (hsame : SameTasksC inp1 inp2)
    (h1 : Reach inp1 s1 ∨ PReach inp1 s1) (h2 : Reach inp2 s2 ∨ PReach inp2 s2)
    (hh1 : s1.halt = .none) (hh2 : s2.halt = .none)
    (hset : ∀ t, (∃ d, ∃ e ∈ s1.events, Ev.den? t e = some d) ↔ (∃ d, ∃ e ∈ s2.events, Ev.den? t e = some d)) :
    exitCode s1 = exitCode s2 := by
  rw [exit_of_reports h1 hh1, exit_of_reports h2 hh2]
  apply exitOfTrace_set
  intro k
  simp only [List.mem_reverse]
  constructor
  · rintro ⟨n, hn⟩
    have r1 : ∃ e ∈ s1.events, Ev.den? n e = some (.fail k) := ⟨_, hn, by simp [Ev.den?]⟩
    obtain ⟨d2, e2, he2, hd2⟩ := (hset n).mp ⟨_, r1⟩
    have := confluent_report hsame h1 h2 n _ d2 r1 ⟨e2, he2, hd2⟩
    subst this
    exact ⟨n, by rw [← den?_fail hd2]; exact he2⟩
  · rintro ⟨n, hn⟩
    have r2 : ∃ e ∈ s2.events, Ev.den? n e = some (.fail k) := ⟨_, hn, by simp [Ev.den?]⟩
    obtain ⟨d1, e1, he1, hd1⟩ := (hset n).mpr ⟨_, r2⟩
    have := confluent_report hsame h1 h2 n d1 _ ⟨e1, he1, hd1⟩ r2
    subst this
    exact ⟨n, by rw [← den?_fail hd1]; exact he1⟩

/-! ### the same, from the inclusion of the denotations alone (`hden`; used for graphs without calc_dep) -/

theorem confluent_status_of {inp1 inp2 : RunInput} {s1 s2 : Sys} (hden : ∀ t d, DenOf inp2 t d → DenOf inp1 t d)
    (h1 : Reach inp1 s1 ∨ PReach inp1 s1) (h2 : Reach inp2 s2 ∨ PReach inp2 s2) (t : Name)
    (f1 : (stOf s1 t).finished = true) (f2 : (stOf s2 t).finished = true) : stOf s1 t = stOf s2 t := by
  obtain ⟨d1, a1, b1⟩ := status_is_den h1 t f1
  obtain ⟨d2, a2, b2⟩ := status_is_den h2 t f2
  rw [← b1, ← b2, a1.functional (hden _ _ a2)]

theorem confluent_report_of {inp1 inp2 : RunInput} {s1 s2 : Sys} (hden : ∀ t d, DenOf inp2 t d → DenOf inp1 t d)
    (h1 : Reach inp1 s1 ∨ PReach inp1 s1) (h2 : Reach inp2 s2 ∨ PReach inp2 s2) (t : Name) (d1 d2 : Den)
    (r1 : ∃ e ∈ s1.events, Ev.den? t e = some d1) (r2 : ∃ e ∈ s2.events, Ev.den? t e = some d2) : d1 = d2 :=
  (report_is_den h1 t d1 r1).functional (hden _ _ (report_is_den h2 t d2 r2))

theorem confluent_reportOf_of {inp1 inp2 : RunInput} {s1 s2 : Sys} (hden : ∀ t d, DenOf inp2 t d → DenOf inp1 t d)
    (h1 : Reach inp1 s1 ∨ PReach inp1 s1) (h2 : Reach inp2 s2 ∨ PReach inp2 s2) (t : Name)
    (r1 : (reportOf (trace inp1 s1) t).isSome = true) (r2 : (reportOf (trace inp2 s2) t).isSome = true) :
    reportOf (trace inp1 s1) t = reportOf (trace inp2 s2) t := by
  obtain ⟨d1, e1⟩ := Option.isSome_iff_exists.mp r1
  obtain ⟨d2, e2⟩ := Option.isSome_iff_exists.mp r2
  rw [e1, e2]
  have := (reportOf_is_den h1 t d1 e1).functional (hden _ _ (reportOf_is_den h2 t d2 e2))
  rw [this]

theorem status_matches_report_of {inp1 inp2 : RunInput} {s1 s2 : Sys} (hden : ∀ t d, DenOf inp2 t d → DenOf inp1 t d)
    (h1 : Reach inp1 s1 ∨ PReach inp1 s1) (h2 : Reach inp2 s2 ∨ PReach inp2 s2) (t : Name) (d : Den)
    (f1 : (stOf s1 t).finished = true) (r2 : ∃ e ∈ s2.events, Ev.den? t e = some d) : stOf s1 t = d.rs := by
  obtain ⟨d1, a1, b1⟩ := status_is_den h1 t f1
  rw [← b1, a1.functional (hden _ _ (report_is_den h2 t d r2))]

/-- two runs of the same task table that report the same set of tasks exit with the same code -/
theorem confluent_exit_of {inp1 inp2 : RunInput} {s1 s2 : Sys} (hden : ∀ t d, DenOf inp2 t d → DenOf inp1 t d)
    (h1 : Reach inp1 s1 ∨ PReach inp1 s1) (h2 : Reach inp2 s2 ∨ PReach inp2 s2)
    (hh1 : s1.halt = .none) (hh2 : s2.halt = .none)
    (hset : ∀ t, (∃ d, ∃ e ∈ s1.events, Ev.den? t e = some d) ↔ (∃ d, ∃ e ∈ s2.events, Ev.den? t e = some d)) :
    exitCode s1 = exitCode s2 := by
  rw [exit_of_reports h1 hh1, exit_of_reports h2 hh2]
  apply exitOfTrace_set
  intro k
  simp only [List.mem_reverse]
  constructor
  · rintro ⟨n, hn⟩
    have r1 : ∃ e ∈ s1.events, Ev.den? n e = some (.fail k) := ⟨_, hn, by simp [Ev.den?]⟩
    obtain ⟨d2, e2, he2, hd2⟩ := (hset n).mp ⟨_, r1⟩
    have := confluent_report_of hden h1 h2 n _ d2 r1 ⟨e2, he2, hd2⟩
    subst this
    exact ⟨n, by rw [← den?_fail hd2]; exact he2⟩
  · rintro ⟨n, hn⟩
    have r2 : ∃ e ∈ s2.events, Ev.den? n e = some (.fail k) := ⟨_, hn, by simp [Ev.den?]⟩
    obtain ⟨d1, e1, he1, hd1⟩ := (hset n).mpr ⟨_, r2⟩
    have := confluent_report_of hden h1 h2 n d1 _ ⟨e1, he1, hd1⟩ r2
    subst this
    exact ⟨n, by rw [← den?_fail hd1]; exact he1⟩

/-- per task, the two observable traces carry the same terminal report (or none), given that they report the same set -/
theorem complete_runs_same_reportOf_of {inp1 inp2 : RunInput} {s1 s2 : Sys}
    (hden : ∀ t d, DenOf inp2 t d → DenOf inp1 t d)
    (h1 : Reach inp1 s1 ∨ PReach inp1 s1) (h2 : Reach inp2 s2 ∨ PReach inp2 s2) (t : Name)
    (hiff : Reported s1 t ↔ Reported s2 t) :
    reportOf (trace inp1 s1) t = reportOf (trace inp2 s2) t := by
  rw [← reportOf_isSome_iff inp1, ← reportOf_isSome_iff inp2] at hiff
  cases hx : reportOf (trace inp1 s1) t with
  | none =>
    cases hy : reportOf (trace inp2 s2) t with
    | none => rfl
    | some d => rw [hx, hy] at hiff; simp at hiff
  | some d =>
    have a : (reportOf (trace inp1 s1) t).isSome = true := by rw [hx]; rfl
    rw [← hx]
    exact confluent_reportOf_of hden h1 h2 t a (hiff.mp a)

/-! ### complete runs: same reported set, same exit code -/

theorem R1_same {a b : RunInput} (h : SameTasksC a b) {n : Name} (r : R1 a n) : R1 b n := by
  obtain ⟨dd, L, hL, hT, h1⟩ := r
  refine ⟨dd, L, ?_, fun d hd => (hT d hd).same h, by rw [← stage1L_same h.base]; exact h1⟩
  intro x; rw [hL x]; exact ⟨fun y => y.same h, fun y => y.same h.symm⟩

theorem CalcR_same {a b : RunInput} (h : SameTasksC a b) {n c : Name} (r : CalcR a n c) : CalcR b n c := by
  induction r with
  | static hc => exact CalcR.static (by rw [← h.base.calcDep]; exact hc)
  | deliv _ hd hm ih => exact CalcR.deliv ih (hd.same h) (by rw [← delivOf_same h]; exact hm)

theorem DenCl_same {a b : RunInput} (h : SameTasksC a b) (hsel : ∀ t, t ∈ a.sel → t ∈ b.sel) {t : Name}
    (c : DenCl a t) : DenCl b t := by
  induction c with
  | ofSel hm => exact DenCl.ofSel (hsel _ hm)
  | ofTask _ hd ih => exact DenCl.ofTask ih (by rw [← h.base.taskDep]; exact hd)
  | ofCalc _ hc ih => exact DenCl.ofCalc ih (CalcR_same h hc)
  | ofDeliv _ hc hd hm ih => exact DenCl.ofDeliv ih (CalcR_same h hc) (hd.same h) (by rw [← delivOf_same h]; exact hm)
  | ofSetup _ hr hd ih => exact DenCl.ofSetup ih (R1_same h hr) (by rw [← h.base.setup]; exact hd)

/-- two complete runs of the same task table and selection (any runner, any schedule) report the same tasks -/
theorem complete_runs_same_reported {inp1 inp2 : RunInput} {s1 s2 : Sys} (hsame : SameTasksC inp1 inp2)
    (hsel : ∀ t, t ∈ inp1.sel ↔ t ∈ inp2.sel)
    (h1 : Reach inp1 s1 ∨ PReach inp1 s1) (h2 : Reach inp2 s2 ∨ PReach inp2 s2)
    (e1 : s1.rpc = .halted ∧ s1.halt = .none ∧ s1.stop = false)
    (e2 : s2.rpc = .halted ∧ s2.halt = .none ∧ s2.stop = false) (t : Name) :
    Reported s1 t ↔ Reported s2 t := by
  rw [reported_iff_closure h1 e1.1 e1.2.1 e1.2.2, reported_iff_closure h2 e2.1 e2.2.1 e2.2.2]
  exact ⟨DenCl_same hsame (fun t => (hsel t).mp), DenCl_same hsame.symm (fun t => (hsel t).mpr)⟩

theorem complete_runs_same_exit {inp1 inp2 : RunInput} {s1 s2 : Sys} (hsame : SameTasksC inp1 inp2)
    (hsel : ∀ t, t ∈ inp1.sel ↔ t ∈ inp2.sel)
    (h1 : Reach inp1 s1 ∨ PReach inp1 s1) (h2 : Reach inp2 s2 ∨ PReach inp2 s2)
    (e1 : s1.rpc = .halted ∧ s1.halt = .none ∧ s1.stop = false)
    (e2 : s2.rpc = .halted ∧ s2.halt = .none ∧ s2.stop = false) : exitCode s1 = exitCode s2 :=
  confluent_exit hsame h1 h2 e1.2.1 e2.2.1 (complete_runs_same_reported hsame hsel h1 h2 e1 e2)

/-- per task, the two observable traces carry the same terminal report (or none) -/
theorem complete_runs_same_reportOf {inp1 inp2 : RunInput} {s1 s2 : Sys} (hsame : SameTasksC inp1 inp2)
    (hsel : ∀ t, t ∈ inp1.sel ↔ t ∈ inp2.sel)
    (h1 : Reach inp1 s1 ∨ PReach inp1 s1) (h2 : Reach inp2 s2 ∨ PReach inp2 s2)
    (e1 : s1.rpc = .halted ∧ s1.halt = .none ∧ s1.stop = false)
    (e2 : s2.rpc = .halted ∧ s2.halt = .none ∧ s2.stop = false) (t : Name) :
    reportOf (trace inp1 s1) t = reportOf (trace inp2 s2) t := by
  have hiff := complete_runs_same_reported hsame hsel h1 h2 e1 e2 t
  rw [← reportOf_isSome_iff inp1, ← reportOf_isSome_iff inp2] at hiff
  cases hx : reportOf (trace inp1 s1) t with
  | none =>
    cases hy : reportOf (trace inp2 s2) t with
    | none => rfl
    | some d => rw [hx, hy] at hiff; simp at hiff
  | some d =>
    have a : (reportOf (trace inp1 s1) t).isSome = true := by rw [hx]; rfl
    rw [← hx]
    exact confluent_reportOf hsame h1 h2 t a (hiff.mp a)

/-- the exit code of a complete run is the denotation's: `exitOfDens` over the outcomes of the closure, however the
    closure is enumerated (`L`) and the outcomes are computed (`den`) -/
theorem complete_exit_is_den {inp : RunInput} {s : Sys} (hr : Reach inp s ∨ PReach inp s)
    (hend : s.rpc = .halted) (hhalt : s.halt = .none) (hstop : s.stop = false)
    (L : List Name) (hL : ∀ t, t ∈ L ↔ DenCl inp t) (den : Name → Den) (hden : ∀ t ∈ L, DenOf inp t (den t)) :
    exitCode s = exitOfDens (L.map den) := by
  rw [exit_of_reports hr hhalt, exitOfTrace_eq_exitOfDens]
  apply exitOfDens_failset
  intro k
  simp only [List.mem_filterMap, List.mem_reverse, List.mem_map]
  constructor
  · rintro ⟨e, he, hd⟩
    cases e <;> simp [Ev.failDen] at hd
    rename_i n k'; subst hd
    have hrep : ∃ e ∈ s.events, Ev.den? n e = some (.fail k') := ⟨_, he, by simp [Ev.den?]⟩
    have hcl := reported_in_closure hr n ⟨_, hrep⟩
    have hn : n ∈ L := (hL n).mpr hcl
    exact ⟨n, hn, (hden n hn).functional (report_is_den hr n _ hrep)⟩
  · rintro ⟨n, hn, hd⟩
    obtain ⟨d, e, he, hde⟩ := closure_reported hr hend hhalt hstop n ((hL n).mp hn)
    have := (report_is_den hr n d ⟨e, he, hde⟩).functional (hden n hn)
    rw [this, hd] at hde
    exact ⟨e, he, by rw [den?_fail hde]; rfl⟩

/-! ### non-vacuity -/

/-- an input with dynamic edges: `1` (selected) has calc_dep `0`; `0` succeeds and delivers task_dep `2` and calc_dep
    `4`; `4` succeeds and delivers a file_dep owned by `5`; `2` fails; `3` (selected) has task_dep `2`; `--continue` -/
def exC08calc : RunInput :=
  { taskDep := fun n => if n = 3 then [2] else []
    calcDep := fun n => if n = 1 then [0] else []
    setup := fun _ => []
    sel := [1, 3], continue_ := true
    outcome := fun n => if n = 2 then .failed else .ok
    calcRes := fun n => if n = 0 then { tasks := [2], calcs := [4] } else if n = 4 then { files := [5] } else {}
    runner := .thread, numProc := 2 }

instance : NoFailDeliver exC08calc := ⟨fun _ => rfl⟩

/-- a calc task that fails DURING its execution: `1` (selected) has calc_dep `0`; the first action of `0` returns
    `task_dep: [2]`, `calc_dep: [3]`, a later one fails; `2` and `3` are still created, executed and reported, and `1`
    is `unmet`; `--continue` -/
def exC08fail : RunInput :=
  { taskDep := fun _ => []
    calcDep := fun n => if n = 1 then [0] else []
    setup := fun _ => []
    sel := [1], continue_ := true
    outcome := fun n => if n = 0 then .failed else .ok
    calcResFail := fun n => if n = 0 then { tasks := [2], calcs := [3] } else {}
    runner := .thread, numProc := 2 }

theorem exC08calc_calcOf : ∀ n c, CalcAny exC08calc n c → n = 1 ∧ (c = 0 ∨ c = 4) := by
  intro n c h
  induction h with
  | base h =>
    simp only [exC08calc] at h
    split at h
    · rename_i hn; simp at h; exact ⟨hn, Or.inl h⟩
    · simp at h
  | @res p c _ h ih =>
    refine ⟨ih.1, ?_⟩
    rcases ih.2 with rfl | rfl
    · simp [exC08calc] at h; exact Or.inr h
    · simp [exC08calc] at h
  | @resFail p c _ h ih => simp [exC08calc] at h

/-- `exC08calc` is acyclic in the sense of C09 (rank over static and deliverable edges), all edges below 6 -/
theorem exC08calc_ranked : Ranked exC08calc (fun n => if n = 1 ∨ n = 3 then 1 else 0) ∧
    ∀ n d, Dep exC08calc n d → d < 6 := by
  have key : ∀ n d, Dep exC08calc n d → (n = 1 ∨ n = 3) ∧ (d = 0 ∨ d = 2 ∨ d = 4 ∨ d = 5) := by
    intro n d h
    cases h with
    | task h =>
      simp only [exC08calc] at h
      split at h
      · rename_i hn; simp at h; exact ⟨Or.inr hn, Or.inr (Or.inl h)⟩
      · simp at h
    | ofCalc h =>
      obtain ⟨rfl, h | h⟩ := exC08calc_calcOf _ _ h
      · exact ⟨Or.inl rfl, Or.inl h⟩
      · exact ⟨Or.inl rfl, Or.inr (Or.inr (Or.inl h))⟩
    | setup h => simp [exC08calc] at h
    | resT hc h =>
      obtain ⟨rfl, rfl | rfl⟩ := exC08calc_calcOf _ _ hc
      · simp [exC08calc] at h; exact ⟨Or.inl rfl, Or.inr (Or.inl h)⟩
      · simp [exC08calc] at h
    | resF hc h =>
      obtain ⟨rfl, rfl | rfl⟩ := exC08calc_calcOf _ _ hc
      · simp [exC08calc] at h
      · simp [exC08calc] at h; exact ⟨Or.inl rfl, Or.inr (Or.inr (Or.inr h))⟩
    | resTFail hc h => simp [exC08calc] at h
    | resFFail hc h => simp [exC08calc] at h
  constructor
  · intro n d h
    obtain ⟨hn, hd⟩ := key n d h
    have hd' : ¬ (d = 1 ∨ d = 3) := by rcases hd with rfl | rfl | rfl | rfl <;> decide
    simp [hn, hd']
  · intro n d h
    obtain ⟨_, hd⟩ := key n d h
    rcases hd with rfl | rfl | rfl | rfl <;> decide

end DoitModel.Run.Dyn
