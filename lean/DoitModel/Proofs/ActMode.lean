import DoitModel.Model.Act
/-! Frame lemma of the stream machine with `io.capture` as a per-execution mode (`Mode`), by induction over
    scenario forests: the cell is left as found by executions of either mode, and what a write reaches on the
    original stream depends only on the cell at that moment. -/
namespace DoitModel.Act.Mode
open DoitModel.Act

theorem run_append (s : Fwd.St) (xs ys : List Ev) : run s (xs ++ ys) = run (run s xs) ys := by
  simp [run, List.foldl_append]

theorem run_cons (s : Fwd.St) (e : Ev) (xs : List Ev) : run s (e :: xs) = run (step s e) xs := rfl

theorem writesOf_append (a : Act) (xs ys : List Ev) :
    writesOf a (xs ++ ys) = writesOf a xs ++ writesOf a ys := by
  induction xs with
  | nil => rfl
  | cons e xs ih =>
    cases e with
    | write b n =>
      by_cases hb : b = a
      · simp [writesOf, hb, ih]
      · simp [writesOf, hb, ih]
    | getlive b on => simpa [writesOf] using ih
    | save b => simpa [writesOf] using ih
    | set b => simpa [writesOf] using ih
    | restore b => simpa [writesOf] using ih
    | read b => simpa [writesOf] using ih
    | swapNC b => simpa [writesOf] using ih
    | restoreNC b => simpa [writesOf] using ih

theorem started_append (xs ys : List Ev) : started (xs ++ ys) = started xs ++ started ys := by
  induction xs with
  | nil => rfl
  | cons e xs ih => cases e <;> simp [started, ih]

theorem started_pre (b : Act) (on cap : Bool) : started (pre b on cap) = [b] := by
  cases cap <;> simp [pre, started]

theorem started_post (b : Act) (cap : Bool) : started (post b cap) = [] := by
  cases cap <;> simp [post, started]

theorem writesOf_pre (c b : Act) (on cap : Bool) : writesOf c (pre b on cap) = [] := by
  cases cap <;> simp [pre, writesOf]

theorem writesOf_post (c b : Act) (cap : Bool) : writesOf c (post b cap) = [] := by
  cases cap <;> simp [post, writesOf]

theorem started_exec (b : Act) (on cap : Bool) (B R : List Ev) :
    started (pre b on cap ++ B ++ post b cap ++ R) = b :: (started B ++ started R) := by
  simp [started_append, started_pre, started_post]

theorem writesOf_exec (c b : Act) (on cap : Bool) (B R : List Ev) :
    writesOf c (pre b on cap ++ B ++ post b cap ++ R) = writesOf c B ++ writesOf c R := by
  simp [writesOf_append, writesOf_pre, writesOf_post]

/-- what one `write` to a stream does to everything but the buffers -/
theorem emit_orig (t : Tok) : ∀ (str : Fwd.Stream) (s : Fwd.St),
    (Fwd.emit t str s).cell = s.cell ∧ (Fwd.emit t str s).live = s.live ∧ (Fwd.emit t str s).saved = s.saved ∧
    (Fwd.emit t str s).out = s.out ∧ (Fwd.emit t str s).unbound = s.unbound ∧
    (Fwd.emit t str s).origLog = s.origLog ++ (if Fwd.reachesOrig str then [t] else []) := by
  intro str
  induction str with
  | orig => intro s; simp [Fwd.emit, Fwd.reachesOrig]
  | null => intro s; simp [Fwd.emit, Fwd.reachesOrig]
  | writer a l ih =>
    intro s
    have h := ih { s with buf := upd s.buf a (s.buf a ++ [t]) }
    simp only [Fwd.emit, Fwd.reachesOrig]
    exact h

/-- only the context action and the executions started in a scenario write in it -/
theorem writesOf_none (f : Forest) : ∀ (o : Option Act) (c : Act), o ≠ some c → c ∉ started (flatten o f) →
    writesOf c (flatten o f) = [] := by
  induction f with
  | nil => intro o c _ _; cases o <;> rfl
  | write n rest ih =>
    intro o c ho hc
    cases o with
    | none => exact ih none c ho hc
    | some a =>
      have hac : a ≠ c := fun e => ho (by rw [e])
      simp only [flatten, writesOf, hac, if_false]
      exact ih (some a) c ho (by simpa [flatten, started] using hc)
  | exec b on cap body rest ihb ihr =>
    intro o c ho hc
    simp only [flatten, started_exec, List.mem_cons, List.mem_append, not_or] at hc
    simp only [flatten, writesOf_exec]
    rw [ihb (some b) c (fun e => hc.1 (by injection e with e; exact e.symm)) hc.2.1, ihr o c ho hc.2.2]
    rfl
  | kw b rest ih => intro o c ho hc; exact ih o c ho hc

structure Frame (evs : List Ev) (s s' : Fwd.St) : Prop where
  cell : s'.cell = s.cell
  unbound : s'.unbound = s.unbound
  keepSaved : ∀ c, c ∉ started evs → s'.saved c = s.saved c
  keepLive : ∀ c, c ∉ started evs → s'.live c = s.live c
  pass : ∀ c, c ∉ started evs →
    Fwd.own c s'.origLog = Fwd.own c s.origLog ++ (if Fwd.reachesOrig s.cell then writesOf c evs else [])

theorem pre_cap (s : Fwd.St) (b : Act) (on : Bool) :
    (run s (pre b on true)).cell = .writer b (if on then s.cell else .null) ∧
    (run s (pre b on true)).saved b = some s.cell ∧
    (∀ c, c ≠ b → (run s (pre b on true)).saved c = s.saved c ∧ (run s (pre b on true)).live c = s.live c) ∧
    (run s (pre b on true)).unbound = s.unbound ∧ (run s (pre b on true)).origLog = s.origLog := by
  refine ⟨?_, ?_, ?_, ?_, ?_⟩ <;> simp [pre, run, step, upd]
  intro c hc; simp [hc]

theorem pre_nc (s : Fwd.St) (b : Act) (on : Bool) :
    (run s (pre b on false)).cell = s.cell ∧
    (given ((run s (pre b on false)).live b) = true → (run s (pre b on false)).saved b = some s.cell) ∧
    (∀ c, c ≠ b → (run s (pre b on false)).saved c = s.saved c ∧ (run s (pre b on false)).live c = s.live c) ∧
    (run s (pre b on false)).unbound = s.unbound ∧ (run s (pre b on false)).origLog = s.origLog := by
  cases on <;> cases hs : s.cell <;> simp [pre, run, step, upd, given, hs] <;> (intro c hc; simp [hc])

theorem post_cap (s : Fwd.St) (b : Act) (X : Fwd.Stream) (h : s.saved b = some X) :
    (run s (post b true)).cell = X ∧ (run s (post b true)).saved = s.saved ∧
    (run s (post b true)).live = s.live ∧ (run s (post b true)).unbound = s.unbound ∧
    (run s (post b true)).origLog = s.origLog := by
  simp [post, run, step, h, Fwd.restoreTo]

theorem post_nc (s : Fwd.St) (b : Act) (X : Fwd.Stream) (hc : s.cell = X)
    (h : given (s.live b) = true → s.saved b = some X) :
    (run s (post b false)).cell = X ∧ (run s (post b false)).saved = s.saved ∧
    (run s (post b false)).live = s.live ∧ (run s (post b false)).unbound = s.unbound ∧
    (run s (post b false)).origLog = s.origLog ∧ (run s (post b false)).out = s.out := by
  by_cases hg : given (s.live b) = true
  · simp [post, run, step, hg, h hg, Fwd.restoreTo]
  · simp [post, run, step, hg, hc]

/-- **the frame lemma**: a scenario of executions of either capture mode, nested to any depth, started from any
    state -/
theorem frame (f : Forest) : ∀ (o : Option Act) (s : Fwd.St), (started (flatten o f)).Nodup →
    Frame (flatten o f) s (run s (flatten o f)) := by
  induction f with
  | nil => intro o s _; cases o <;> exact ⟨rfl, rfl, fun _ _ => rfl, fun _ _ => rfl, fun c _ => by simp [flatten, run, writesOf]⟩
  | write n rest ih =>
    intro o s hn
    cases o with
    | none => exact ih none s hn
    | some a =>
      have E := emit_orig (a, n) s.cell s
      have F := ih (some a) (step s (.write a n)) (by simpa [flatten, started] using hn)
      simp only [step] at F
      simp only [flatten, run_cons, step]
      refine ⟨F.cell.trans E.1, F.unbound.trans E.2.2.2.2.1, ?_, ?_, ?_⟩
      · intro c hc; rw [F.keepSaved c (by simpa [started] using hc), E.2.2.1]
      · intro c hc; rw [F.keepLive c (by simpa [started] using hc), E.2.1]
      · intro c hc
        rw [F.pass c (by simpa [started] using hc), E.2.2.2.2.2, E.1]
        by_cases hr : Fwd.reachesOrig s.cell = true
        · by_cases hac : a = c
          · subst hac; simp [hr, writesOf, Fwd.own]
          · simp [hr, writesOf, hac, Fwd.own]
        · simp [hr]
  | kw b rest ih => intro o s hn; exact ih o s hn
  | exec b on cap body rest ihb ihr =>
    intro o s hn
    simp only [flatten, started_exec, List.nodup_cons, List.mem_append, not_or, List.nodup_append] at hn
    obtain ⟨⟨hbB, hbR⟩, hnB, hnR, _⟩ := hn
    have hrun : run s (flatten o (.exec b on cap body rest)) =
        run (run (run (run s (pre b on cap)) (flatten (some b) body)) (post b cap)) (flatten o rest) := by
      simp only [flatten, run_append]
    rw [hrun]
    cases cap with
    | true =>
      have P := pre_cap s b on
      have FB := ihb (some b) (run s (pre b on true)) hnB
      have Q := post_cap (run (run s (pre b on true)) (flatten (some b) body)) b s.cell
        (by rw [FB.keepSaved b hbB, P.2.1])
      have FR := ihr o (run (run (run s (pre b on true)) (flatten (some b) body)) (post b true)) hnR
      refine ⟨FR.cell.trans Q.1, ?_, ?_, ?_, ?_⟩
      · rw [FR.unbound, Q.2.2.2.1, FB.unbound, P.2.2.2.1]
      · intro c hc
        simp only [flatten, started_exec, List.mem_cons, List.mem_append, not_or] at hc
        rw [FR.keepSaved c hc.2.2, Q.2.1, FB.keepSaved c hc.2.1, (P.2.2.1 c hc.1).1]
      · intro c hc
        simp only [flatten, started_exec, List.mem_cons, List.mem_append, not_or] at hc
        rw [FR.keepLive c hc.2.2, Q.2.2.1, FB.keepLive c hc.2.1, (P.2.2.1 c hc.1).2]
      · intro c hc
        simp only [flatten, started_exec, List.mem_cons, List.mem_append, not_or] at hc
        have hw : writesOf c (flatten (some b) body) = [] :=
          writesOf_none body (some b) c (fun e => hc.1 (by injection e with e; exact e.symm)) hc.2.1
        rw [FR.pass c hc.2.2, Q.1, Q.2.2.2.2, FB.pass c hc.2.1, hw, P.2.2.2.2]
        simp [flatten, writesOf_append, writesOf_pre, writesOf_post, hw]
    | false =>
      have P := pre_nc s b on
      have FB := ihb (some b) (run s (pre b on false)) hnB
      have Q := post_nc (run (run s (pre b on false)) (flatten (some b) body)) b s.cell
        (by rw [FB.cell, P.1]) (by rw [FB.keepLive b hbB, FB.keepSaved b hbB]; exact P.2.1)
      have FR := ihr o (run (run (run s (pre b on false)) (flatten (some b) body)) (post b false)) hnR
      refine ⟨FR.cell.trans Q.1, ?_, ?_, ?_, ?_⟩
      · rw [FR.unbound, Q.2.2.2.1, FB.unbound, P.2.2.2.1]
      · intro c hc
        simp only [flatten, started_exec, List.mem_cons, List.mem_append, not_or] at hc
        rw [FR.keepSaved c hc.2.2, Q.2.1, FB.keepSaved c hc.2.1, (P.2.2.1 c hc.1).1]
      · intro c hc
        simp only [flatten, started_exec, List.mem_cons, List.mem_append, not_or] at hc
        rw [FR.keepLive c hc.2.2, Q.2.2.1, FB.keepLive c hc.2.1, (P.2.2.1 c hc.1).2]
      · intro c hc
        simp only [flatten, started_exec, List.mem_cons, List.mem_append, not_or] at hc
        have hw : writesOf c (flatten (some b) body) = [] :=
          writesOf_none body (some b) c (fun e => hc.1 (by injection e with e; exact e.symm)) hc.2.1
        rw [FR.pass c hc.2.2, Q.1, Q.2.2.2.2.1, FB.pass c hc.2.1, hw, P.2.2.2.2]
        simp [flatten, writesOf_append, writesOf_pre, writesOf_post, hw]


theorem emit_out (t : Tok) (str : Fwd.Stream) (s : Fwd.St) : (Fwd.emit t str s).out = s.out :=
  (emit_orig t str s).2.2.2.1

theorem out_only_read (evs : List Ev) : ∀ (s : Fwd.St) (c : Act), c ∉ reads evs → (run s evs).out c = s.out c := by
  induction evs with
  | nil => intro s c _; rfl
  | cons e evs ih =>
    intro s c hc
    rw [run_cons]
    cases e with
    | read a =>
      simp only [reads, List.mem_cons, not_or] at hc
      rw [ih _ c hc.2]; simp [step, upd, hc.1]
    | write a n => rw [ih _ c (by simpa [reads] using hc)]; simp [step, emit_out]
    | getlive a on => rw [ih _ c (by simpa [reads] using hc)]; simp [step]
    | save a => rw [ih _ c (by simpa [reads] using hc)]; simp [step]
    | set a => rw [ih _ c (by simpa [reads] using hc)]; simp [step]
    | restore a =>
      rw [ih _ c (by simpa [reads] using hc)]
      cases h : s.saved a <;> simp [step, Fwd.restoreTo, h]
    | swapNC a =>
      rw [ih _ c (by simpa [reads] using hc)]
      by_cases hg : given (s.live a) = true <;> simp [step, hg]
    | restoreNC a =>
      rw [ih _ c (by simpa [reads] using hc)]
      by_cases hg : given (s.live a) = true
      · cases h : s.saved a <;> simp [step, hg, Fwd.restoreTo, h]
      · simp [step, hg]


theorem reads_append (xs ys : List Ev) : reads (xs ++ ys) = reads xs ++ reads ys := by
  induction xs with
  | nil => rfl
  | cons e xs ih => cases e <;> simp [reads, ih]

/-- only started executions are read -/
theorem reads_sub_started (f : Forest) : ∀ (o : Option Act) (c : Act), c ∈ reads (flatten o f) → c ∈ started (flatten o f) := by
  induction f with
  | nil => intro o c h; cases o <;> simp [flatten, reads] at h
  | write n rest ih =>
    intro o c h
    cases o with
    | none => exact ih none c h
    | some a => simpa [flatten, started] using ih (some a) c (by simpa [flatten, reads] using h)
  | kw b rest ih => intro o c h; exact ih o c h
  | exec b on cap body rest ihb ihr =>
    intro o c h
    simp only [flatten, started_exec, List.mem_cons, List.mem_append]
    simp only [flatten, reads_append, List.mem_append] at h
    rcases h with ((h | h) | h) | h
    · cases cap <;> simp [pre, reads] at h
    · exact Or.inr (Or.inl (ihb _ c h))
    · cases cap
      · simp [post, reads] at h
      · simp [post, reads] at h; exact Or.inl h
    · exact Or.inr (Or.inr (ihr _ c h))

/-- capture-off steps in any order: the cell never holds anything but the original stream -/
theorem nc_only_inv (evs : List Ev) : ∀ (s : Fwd.St), ncOnly evs = true → s.cell = .orig →
    (∀ a, s.live a = .orig ∨ s.live a = .null) → (∀ a, s.saved a = none ∨ s.saved a = some .orig) →
    (run s evs).cell = .orig ∧ (run s evs).origLog = s.origLog ++ allWrites evs ∧ (run s evs).out = s.out := by
  induction evs with
  | nil => intro s _ hc _ _; simp [run, allWrites, hc]
  | cons e evs ih =>
    intro s hnc hc hl hs
    rw [run_cons]
    cases e with
    | save a => simp [ncOnly] at hnc
    | set a => simp [ncOnly] at hnc
    | restore a => simp [ncOnly] at hnc
    | read a => simp [ncOnly] at hnc
    | getlive a on =>
      have := ih (step s (.getlive a on)) (by simpa [ncOnly] using hnc) (by simp [step, hc])
        (by
          intro b
          by_cases hb : b = a
          · cases on <;> simp [step, upd, hb, hc]
          · simpa [step, upd, hb] using hl b)
        (by simpa [step] using hs)
      simpa [step, allWrites] using this
    | write a n =>
      have E := emit_orig (a, n) s.cell s
      have := ih (step s (.write a n)) (by simpa [ncOnly] using hnc) (by simp only [step]; rw [E.1]; exact hc)
        (by simp only [step]; rw [E.2.1]; exact hl) (by simp only [step]; rw [E.2.2.1]; exact hs)
      simp only [step] at this
      rw [E.2.2.2.2.2, E.2.2.2.1] at this
      simpa [step, allWrites, Fwd.reachesOrig, hc] using this
    | swapNC a =>
      by_cases hg : given (s.live a) = true
      · have hla : s.live a = .orig := by
          rcases hl a with h | h
          · exact h
          · rw [h] at hg; simp [given] at hg
        have := ih (step s (.swapNC a)) (by simpa [ncOnly] using hnc) (by simp [step, hla, given])
          (by simpa [step, hg] using hl)
          (by
            intro b
            by_cases hb : b = a
            · simp [step, hg, upd, hb, hc]
            · simpa [step, hg, upd, hb] using hs b)
        simpa [step, hg, allWrites] using this
      · have := ih (step s (.swapNC a)) (by simpa [ncOnly] using hnc) (by simp [step, hg, hc])
          (by simpa [step, hg] using hl) (by simpa [step, hg] using hs)
        simpa [step, hg, allWrites] using this
    | restoreNC a =>
      by_cases hg : given (s.live a) = true
      · rcases hs a with h | h
        · have := ih (step s (.restoreNC a)) (by simpa [ncOnly] using hnc) (by simp [step, hg, h, Fwd.restoreTo, hc])
            (by simpa [step, hg, h, Fwd.restoreTo] using hl) (by simpa [step, hg, h, Fwd.restoreTo] using hs)
          simpa [step, hg, h, Fwd.restoreTo, allWrites] using this
        · have := ih (step s (.restoreNC a)) (by simpa [ncOnly] using hnc) (by simp [step, hg, h, Fwd.restoreTo])
            (by simpa [step, hg, h, Fwd.restoreTo] using hl) (by simpa [step, hg, h, Fwd.restoreTo] using hs)
          simpa [step, hg, h, Fwd.restoreTo, allWrites] using this
      · have := ih (step s (.restoreNC a)) (by simpa [ncOnly] using hnc) (by simp [step, hg, hc])
          (by simpa [step, hg] using hl) (by simpa [step, hg] using hs)
        simpa [step, hg, allWrites] using this

/-- the `Fwd` machine is the all-capture fragment of this one -/
theorem step_ofFwd (s : Fwd.St) (e : Fwd.Ev) : step s (ofFwd e) = Fwd.step s e := by
  cases e <;> rfl

theorem run_ofFwd (evs : List Fwd.Ev) : ∀ s : Fwd.St, run s (evs.map ofFwd) = Fwd.run s evs := by
  induction evs with
  | nil => intro s; rfl
  | cons e evs ih => intro s; simp only [List.map, run_cons, step_ofFwd]; exact ih _

theorem flatten_ofFwd (f : Fwd.Forest) : ∀ o, flatten o (ofFwdForest f) = (Fwd.flatten o f).map ofFwd := by
  induction f with
  | nil => intro o; cases o <;> rfl
  | write n rest ih => intro o; cases o <;> simp [ofFwdForest, flatten, Fwd.flatten, ih, ofFwd]
  | exec b on body rest ihb ihr =>
    intro o; simp [ofFwdForest, flatten, Fwd.flatten, ihb, ihr, pre, post, ofFwd]
  | kw b rest ih => intro o; simp [ofFwdForest, flatten, Fwd.flatten, ih]

end DoitModel.Act.Mode
