import DoitModel.Proofs.C05Shape
import DoitModel.Proofs.C09WaitP
/-! # C09 — the order of terminal reports, part 1: definitions and the node invariant `NG`

`fstTerm evs t` is the age (number of older events) of the oldest terminal report of `t`.  `CalcG` / `StageG` are the
dependencies of a task as the run has determined them so far: task_dep, calc_dep, and what calc_deps that are
*executed or up-to-date* (status `σ`) have delivered.  `NG` records for every list of an `ExecNode` where its members
come from; in particular every member of `bad_deps` / `ignored_deps` is a failed / ignored dependency of the first
stage unless the node has entered the setup stage (`PC.late9`). -/
namespace DoitModel.Run

/-! ### age of the first terminal report -/

def fstTerm : List Ev → Name → Option Nat
  | [], _ => none
  | e :: post, t =>
    match fstTerm post t with
    | some a => some a
    | none => if Ev.isTerminalOf t e = true then some post.length else none

theorem fstTerm_lt {l : List Ev} {t : Name} {a : Nat} (h : fstTerm l t = some a) : a < l.length := by
  induction l with
  | nil => cases h
  | cons e post ih =>
    simp only [fstTerm] at h
    cases hp : fstTerm post t with
    | some b =>
      rw [hp] at h; simp only [Option.some.injEq] at h; subst h
      have := ih hp; simp only [List.length_cons]; omega
    | none =>
      rw [hp] at h
      simp only [] at h
      split at h
      · cases h; simp
      · cases h

theorem fstTerm_append_old {new old : List Ev} {t : Name} {a : Nat} (h : fstTerm old t = some a) :
    fstTerm (new ++ old) t = some a := by
  induction new with
  | nil => exact h
  | cons e r ih => simp only [List.cons_append, fstTerm, ih]

theorem fstTerm_append_quiet {new old : List Ev} {t : Name} (hq : ∀ e ∈ new, Ev.isTerminalOf t e = false) :
    fstTerm (new ++ old) t = fstTerm old t := by
  induction new with
  | nil => rfl
  | cons e r ih =>
    simp only [List.cons_append, fstTerm]
    rw [ih (fun x hx => hq x (by simp [hx]))]
    have := hq e (by simp)
    cases fstTerm old t <;> simp [this]

theorem fstTerm_append_new {new old : List Ev} {t : Name} {a : Nat} (h0 : fstTerm old t = none)
    (h : fstTerm (new ++ old) t = some a) : old.length ≤ a := by
  induction new with
  | nil => simp only [List.nil_append] at h; rw [h0] at h; cases h
  | cons e r ih =>
    simp only [List.cons_append, fstTerm] at h
    cases hp : fstTerm (r ++ old) t with
    | some b => rw [hp] at h; simp only [Option.some.injEq] at h; subst h; exact ih hp
    | none =>
      rw [hp] at h
      simp only [] at h
      split at h
      · cases h; simp
      · cases h

theorem fstTerm_none_iff {l : List Ev} {t : Name} : fstTerm l t = none ↔ ∀ e ∈ l, Ev.isTerminalOf t e = false := by
  induction l with
  | nil => simp [fstTerm]
  | cons e post ih =>
    simp only [fstTerm, List.mem_cons, forall_eq_or_imp]
    cases hp : fstTerm post t with
    | some b =>
      simp only [reduceCtorEq, false_iff, not_and]
      intro _ hall
      rw [ih.mpr hall] at hp; cases hp
    | none =>
      have := ih.mp hp
      by_cases he : Ev.isTerminalOf t e = true
      · simp [he]
      · simp only [he, Bool.false_eq_true, if_false, true_iff]
        exact ⟨trivial, this⟩

theorem fstTerm_some_of_mem {l : List Ev} {t : Name} {e : Ev} (he : e ∈ l) (ht : Ev.isTerminalOf t e = true) :
    ∃ a, fstTerm l t = some a := by
  cases h : fstTerm l t with
  | some a => exact ⟨a, rfl⟩
  | none => have := fstTerm_none_iff.mp h e he; rw [ht] at this; cases this

theorem fstTerm_none_of_cTerm {s : Sys} {t : Name} (h : cTerm s t = 0) : fstTerm s.events t = none := by
  apply fstTerm_none_iff.mpr
  intro e he
  unfold cTerm at h
  have := List.countP_eq_zero.mp h e he
  simpa using this

theorem fstTerm_some_of_cTerm {s : Sys} {t : Name} (h : cTerm s t ≥ 1) : ∃ a, fstTerm s.events t = some a := by
  have hpos : 0 < s.events.countP (Ev.isTerminalOf t) := by unfold cTerm at h; omega
  obtain ⟨e, he, hp⟩ := List.countP_pos_iff.mp hpos
  exact fstTerm_some_of_mem he hp

theorem mem_of_fstTerm {l : List Ev} {t : Name} {a : Nat} (h : fstTerm l t = some a) :
    ∃ e ∈ l, Ev.isTerminalOf t e = true := by
  apply Classical.byContradiction
  intro hne
  have : fstTerm l t = none := fstTerm_none_iff.mpr (fun e he => by
    cases hb : Ev.isTerminalOf t e with
    | false => rfl
    | true => exact absurd ⟨e, he, hb⟩ hne)
  rw [this] at h; cases h

/-! ### the dependencies a run has determined -/

/-- calc_deps of `n`: listed, or delivered by a calc_dep that is executed / up-to-date under `σ` -/
inductive CalcG (inp : RunInput) (σ : Name → RS) (n : Name) : Name → Prop
  | base {c : Name} : c ∈ inp.calcDep n → CalcG inp σ n c
  | res {p c : Name} : CalcG inp σ n p → (σ p).good = true → c ∈ (inp.calcRes p).calcs → CalcG inp σ n c

/-- first-stage dependencies of `n`: task_dep, calc_dep, what good calc_deps delivered -/
def StageG (inp : RunInput) (σ : Name → RS) (n d : Name) : Prop :=
  d ∈ inp.taskDep n ∨ CalcG inp σ n d ∨
    ∃ p, CalcG inp σ n p ∧ (σ p).good = true ∧ (d ∈ (inp.calcRes p).tasks ∨ d ∈ (inp.calcRes p).files)

theorem CalcG.mono {inp : RunInput} {σ σ' : Name → RS} {n c : Name}
    (hm : ∀ p, CalcG inp σ n p → CalcG inp σ' n p → (σ p).good = true → (σ' p).good = true)
    (h : CalcG inp σ n c) : CalcG inp σ' n c := by
  induction h with
  | base h => exact .base h
  | res hp hg hc ih => exact .res ih (hm _ hp ih hg) hc

theorem StageG.mono {inp : RunInput} {σ σ' : Name → RS} {n d : Name}
    (hm : ∀ p, CalcG inp σ n p → CalcG inp σ' n p → (σ p).good = true → (σ' p).good = true)
    (h : StageG inp σ n d) : StageG inp σ' n d := by
  rcases h with a | a | ⟨p, a, b, c⟩
  · exact Or.inl a
  · exact Or.inr (Or.inl (a.mono hm))
  · exact Or.inr (Or.inr ⟨p, a.mono hm, hm p a (a.mono hm) b, c⟩)

/-- `select_task`'s first pass would choose `n` for execution: not ignored, status `run`, every first-stage
    dependency executed / up-to-date -/
def RunFirstG (inp : RunInput) (σ : Name → RS) (n : Name) : Prop :=
  inp.ignored n = false ∧ inp.statusOf n ≠ .error ∧ effStatus inp n = .run ∧
    ∀ x, StageG inp σ n x → (σ x).good = true

/-- positions from which the setup-tasks may have been passed to `_node_add_wait_run` (closed under the transitions of
    `_add_task`; `afterSelf1` — the first `select_task` — is not among them) -/
def PC.late9 : PC → Bool
  | .setupDecide | .setupIter _ | .afterSetup | .self2 | .afterSelf2 | .done => true
  | _ => false

/-! ### … and an upper bound that also counts what FAILED calc_deps delivered

`_process_calc_dep_results` reads `task.values` of a calc task whatever its status: a calc task whose execution failed
still delivers what its actions returned before the failing one (`deliverF`, oracle `calcResFail`).  `CalcF` / `StageF`
add those deliveries to `CalcG` / `StageG` (for every failed calc_dep, started or not: they are only used as an upper
bound of the lists of an `ExecNode`, in `NG`).  Whatever they add hangs below a FAILED member of `CalcG`
(`CalcF.cases`, `StageF.cases`), which is all the order invariant needs to know about them. -/

inductive CalcF (inp : RunInput) (σ : Name → RS) (n : Name) : Name → Prop
  | base {c : Name} : c ∈ inp.calcDep n → CalcF inp σ n c
  | res {p c : Name} : CalcF inp σ n p → (σ p).good = true → c ∈ (inp.calcRes p).calcs → CalcF inp σ n c
  | resF {p c : Name} : CalcF inp σ n p → σ p = .fail → c ∈ (inp.calcResFail p).calcs → CalcF inp σ n c

def StageF (inp : RunInput) (σ : Name → RS) (n d : Name) : Prop :=
  d ∈ inp.taskDep n ∨ CalcF inp σ n d ∨
    ∃ p, CalcF inp σ n p ∧ (((σ p).good = true ∧ (d ∈ (inp.calcRes p).tasks ∨ d ∈ (inp.calcRes p).files)) ∨
      (σ p = .fail ∧ (d ∈ (inp.calcResFail p).tasks ∨ d ∈ (inp.calcResFail p).files)))

theorem CalcG.toF {inp : RunInput} {σ : Name → RS} {n c : Name} (h : CalcG inp σ n c) : CalcF inp σ n c := by
  induction h with
  | base h => exact .base h
  | res _ hg hc ih => exact .res ih hg hc

theorem StageG.toF {inp : RunInput} {σ : Name → RS} {n d : Name} (h : StageG inp σ n d) : StageF inp σ n d := by
  rcases h with a | a | ⟨p, a, b, c⟩
  · exact Or.inl a
  · exact Or.inr (Or.inl a.toF)
  · exact Or.inr (Or.inr ⟨p, a.toF, Or.inl ⟨b, c⟩⟩)

/-- a member of `CalcF` is a member of `CalcG`, or some member of `CalcG` has failed -/
theorem CalcF.cases {inp : RunInput} {σ : Name → RS} {n c : Name} (h : CalcF inp σ n c) :
    CalcG inp σ n c ∨ ∃ p, CalcG inp σ n p ∧ σ p = .fail := by
  induction h with
  | base h => exact Or.inl (.base h)
  | res _ hg hc ih =>
    rcases ih with a | a
    · exact Or.inl (.res a hg hc)
    · exact Or.inr a
  | resF _ hf _ ih =>
    rcases ih with a | a
    · exact Or.inr ⟨_, a, hf⟩
    · exact Or.inr a

theorem StageF.cases {inp : RunInput} {σ : Name → RS} {n d : Name} (h : StageF inp σ n d) :
    StageG inp σ n d ∨ ∃ p, StageG inp σ n p ∧ σ p = .fail := by
  rcases h with a | a | ⟨p, a, b⟩
  · exact Or.inl (Or.inl a)
  · rcases a.cases with x | ⟨q, x, y⟩
    · exact Or.inl (Or.inr (Or.inl x))
    · exact Or.inr ⟨q, Or.inr (Or.inl x), y⟩
  · rcases a.cases with x | ⟨q, x, y⟩
    · rcases b with ⟨b1, b2⟩ | ⟨b1, _⟩
      · exact Or.inl (Or.inr (Or.inr ⟨p, x, b1, b2⟩))
      · exact Or.inr ⟨p, Or.inr (Or.inl x), b1⟩
    · exact Or.inr ⟨q, Or.inr (Or.inl x), y⟩

theorem CalcF.mono {inp : RunInput} {σ σ' : Name → RS} {n c : Name}
    (hs : ∀ x, (σ x).finished = true → σ' x = σ x) (h : CalcF inp σ n c) : CalcF inp σ' n c := by
  induction h with
  | base h => exact .base h
  | res _ hg hc ih => exact .res ih (by rw [hs _ (RS.good_finished hg)]; exact hg) hc
  | resF _ hf hc ih => exact .resF ih (by rw [hs _ (by rw [hf]; rfl)]; exact hf) hc

theorem StageF.mono {inp : RunInput} {σ σ' : Name → RS} {n d : Name}
    (hs : ∀ x, (σ x).finished = true → σ' x = σ x) (h : StageF inp σ n d) : StageF inp σ' n d := by
  rcases h with a | a | ⟨p, a, b⟩
  · exact Or.inl a
  · exact Or.inr (Or.inl (a.mono hs))
  · refine Or.inr (Or.inr ⟨p, a.mono hs, ?_⟩)
    rcases b with ⟨b1, b2⟩ | ⟨b1, b2⟩
    · exact Or.inl ⟨by rw [hs _ (RS.good_finished b1)]; exact b1, b2⟩
    · exact Or.inr ⟨by rw [hs _ (by rw [b1]; rfl)]; exact b1, b2⟩

structure NG (inp : RunInput) (σ : Name → RS) (n : Name) (nd : Node) : Prop where
  pt : ∀ d ∈ nd.pendTask, StageF inp σ n d
  pcalc : ∀ d ∈ nd.pendCalc, CalcF inp σ n d
  st : ∀ d ∈ nd.snapTask, StageF inp σ n d
  sc : ∀ d ∈ nd.snapCalc, CalcF inp σ n d
  wr : ∀ d ∈ nd.waitRun, StageF inp σ n d ∨ nd.pc.late9 = true
  wc : ∀ d ∈ nd.waitRunCalc, CalcF inp σ n d
  bd : ∀ p ∈ nd.bad, σ p = .fail ∧ (StageF inp σ n p ∨ nd.pc.late9 = true)
  ig : ∀ p ∈ nd.ign, σ p = .ign ∧ (StageF inp σ n p ∨ nd.pc.late9 = true)

variable {inp : RunInput} {σ : Name → RS}

theorem NG.mono {σ' : Name → RS} {n : Name} {nd : Node} (h : NG inp σ n nd)
    (hs : ∀ x, (σ x).finished = true → σ' x = σ x) : NG inp σ' n nd := by
  have hf : ∀ p, σ p = .fail → σ' p = .fail := fun p e => by rw [hs p (by rw [e]; rfl)]; exact e
  have hi : ∀ p, σ p = .ign → σ' p = .ign := fun p e => by rw [hs p (by rw [e]; rfl)]; exact e
  refine ⟨fun d hd => (h.pt d hd).mono hs, fun d hd => (h.pcalc d hd).mono hs, fun d hd => (h.st d hd).mono hs,
    fun d hd => (h.sc d hd).mono hs, ?_, fun d hd => (h.wc d hd).mono hs, ?_, ?_⟩
  · intro d hd; rcases h.wr d hd with a | a
    · exact Or.inl (a.mono hs)
    · exact Or.inr a
  · intro p hp; obtain ⟨a, b⟩ := h.bd p hp
    refine ⟨hf p a, ?_⟩
    rcases b with b | b
    · exact Or.inl (b.mono hs)
    · exact Or.inr b
  · intro p hp; obtain ⟨a, b⟩ := h.ig p hp
    refine ⟨hi p a, ?_⟩
    rcases b with b | b
    · exact Or.inl (b.mono hs)
    · exact Or.inr b

/-! ### node-level lemmas -/

theorem mkNode_ng (t : Name) (anc : List Name) : NG inp σ t (mkNode inp t anc) := by
  refine ⟨fun d hd => Or.inl hd, fun d hd => .base (mem_dedup.mp hd), ?_, ?_, ?_, ?_, ?_, ?_⟩ <;>
    (intro d hd; simp [mkNode] at hd)

theorem NG.setPc {n : Name} {nd : Node} (h : NG inp σ n nd) (pc' : PC)
    (hm : nd.pc.late9 = true → pc'.late9 = true) : NG inp σ n { nd with pc := pc' } := by
  refine ⟨h.pt, h.pcalc, h.st, h.sc, ?_, h.wc, ?_, ?_⟩
  · intro d hd; rcases h.wr d hd with a | a
    · exact Or.inl a
    · exact Or.inr (hm a)
  · intro p hp; obtain ⟨a, b⟩ := h.bd p hp
    exact ⟨a, b.imp id hm⟩
  · intro p hp; obtain ⟨a, b⟩ := h.ig p hp
    exact ⟨a, b.imp id hm⟩

/-- new dependencies from a calc result all of whose members are accounted for -/
theorem addDeps_ngR {n : Name} {nd : Node} {r : CalcRes} (h : NG inp σ n nd)
    (ht : ∀ d, (d ∈ r.tasks ∨ d ∈ r.files) → StageF inp σ n d) (hc : ∀ d ∈ r.calcs, CalcF inp σ n d) :
    NG inp σ n (nd.addDeps r) := by
  have nt : ∀ d ∈ newTaskDeps nd r, StageF inp σ n d := by
    intro d hd
    simp only [newTaskDeps, List.mem_append] at hd
    rcases hd with a | a
    · exact ht d (Or.inl a)
    · exact ht d (Or.inr (implicitNew_mem a))
  have nc : ∀ d ∈ newCalcDeps nd r, CalcF inp σ n d := by
    intro d hd
    simp only [newCalcDeps, List.mem_filter] at hd
    exact hc d (mem_dedup.mp hd.1)
  refine ⟨?_, ?_, h.st, h.sc, h.wr, h.wc, h.bd, h.ig⟩
  · intro d hd; simp only [Node.addDeps, List.mem_append] at hd
    rcases hd with a | a
    · exact h.pt d a
    · exact nt d a
  · intro d hd; simp only [Node.addDeps, List.mem_append, List.mem_filter] at hd
    rcases hd with a | a
    · exact h.pcalc d a
    · exact nc d a.1

theorem deliver_ng {n p : Name} {nd : Node} (pst : RS) (h : NG inp σ n nd) (hp : CalcF inp σ n p)
    (hpst : pst = σ p) : NG inp σ n (deliver inp pst p nd) := by
  unfold deliver; split
  · rename_i hg
    have hg' : (σ p).good = true := hpst ▸ hg
    exact addDeps_ngR h (fun d hd => Or.inr (Or.inr ⟨p, hp, Or.inl ⟨hg', hd⟩⟩)) (fun d hd => .res hp hg' hd)
  · exact h

/-- what a FAILED calc_dep delivers (`deliverF`) is accounted for by `CalcF.resF` / the fail branch of `StageF` -/
theorem deliverF_ng {n p : Name} {nd : Node} (ex : Bool) (pst : RS) (h : NG inp σ n nd) (hp : CalcF inp σ n p)
    (hpst : pst = σ p) : NG inp σ n (deliverF inp ex pst p nd) := by
  unfold deliverF; split
  · rename_i hg
    have hf : σ p = .fail := hpst ▸ hg.1
    exact addDeps_ngR h (fun d hd => Or.inr (Or.inr ⟨p, hp, Or.inr ⟨hf, hd⟩⟩)) (fun d hd => .resF hp hf hd)
  · exact h

theorem parentStatus_ng {n p : Name} {nd : Node} (pst : RS) (h : NG inp σ n nd) (hpst : pst = σ p)
    (hd : StageF inp σ n p ∨ nd.pc.late9 = true) : NG inp σ n (parentStatus pst p nd) := by
  refine ⟨h.pt, h.pcalc, h.st, h.sc, h.wr, h.wc, ?_, ?_⟩
  · intro x hx
    simp only [parentStatus] at hx
    split at hx
    · rename_i e
      rcases List.mem_append.mp hx with a | a
      · exact h.bd x a
      · simp only [List.mem_singleton] at a; subst a; exact ⟨hpst ▸ e, hd⟩
    · exact h.bd x hx
  · intro x hx
    simp only [parentStatus] at hx
    split at hx
    · rename_i e
      rcases List.mem_append.mp hx with a | a
      · exact h.ig x a
      · simp only [List.mem_singleton] at a; subst a; exact ⟨hpst ▸ e, hd⟩
    · exact h.ig x hx

theorem absorbDone_ng_calc {s : Sys} {n : Name} (hσ : ∀ d, stOf s d = σ d) :
    ∀ (ds : List Name) (nd : Node), NG inp σ n nd → (∀ d ∈ ds, CalcF inp σ n d) →
      NG inp σ n (absorbDone inp s true ds nd) := by
  intro ds
  induction ds with
  | nil => intro nd h _; exact h
  | cons a t ih =>
    intro nd h hds
    simp only [absorbDone]
    have ha := hds a (by simp)
    split
    · exact ih nd h (fun d hd => hds d (by simp [hd]))
    · apply ih _ _ (fun d hd => hds d (by simp [hd]))
      simp only [if_true]
      exact deliverF_ng _ _ (deliver_ng _ (parentStatus_ng _ h (hσ a) (Or.inl (Or.inr (Or.inl ha)))) ha (hσ a)) ha (hσ a)

theorem absorbDone_ng_plain {s : Sys} {n : Name} (lt : Bool) (hσ : ∀ d, stOf s d = σ d) :
    ∀ (ds : List Name) (nd : Node), NG inp σ n nd → nd.pc.late9 = lt →
      (∀ d ∈ ds, StageF inp σ n d ∨ lt = true) → NG inp σ n (absorbDone inp s false ds nd) := by
  intro ds
  induction ds with
  | nil => intro nd h _ _; exact h
  | cons a t ih =>
    intro nd h hlt hds
    simp only [absorbDone]
    have ha := hds a (by simp)
    split
    · exact ih nd h hlt (fun d hd => hds d (by simp [hd]))
    · apply ih _ _ (by exact hlt) (fun d hd => hds d (by simp [hd]))
      simp only [Bool.false_eq_true, if_false]
      exact parentStatus_ng _ h (hσ a) (by rw [hlt]; exact ha)

theorem addWaits_pc (nd : Node) (c : Bool) (wf : List Name) : (addWaits nd c wf).pc = nd.pc := by
  unfold addWaits; split <;> rfl

theorem waitNode_ng {s : Sys} {n : Name} {nd : Node} (ds : List Name) (isCalc : Bool) (pc' : PC)
    (hσ : ∀ d, stOf s d = σ d) (h : NG inp σ n nd)
    (hds : ∀ d ∈ ds, if isCalc = true then CalcF inp σ n d else (StageF inp σ n d ∨ nd.pc.late9 = true))
    (hm : nd.pc.late9 = true → pc'.late9 = true) :
    NG inp σ n (waitNode inp s nd ds isCalc pc') := by
  have hpc : (absorbDone inp s isCalc ds nd).pc = nd.pc := (absorbDone_spec inp s isCalc ds nd).1.pc
  have a : NG inp σ n (absorbDone inp s isCalc ds nd) := by
    cases isCalc with
    | true => exact absorbDone_ng_calc hσ ds nd h (fun d hd => by simpa using hds d hd)
    | false => exact absorbDone_ng_plain _ hσ ds nd h rfl (fun d hd => by simpa using hds d hd)
  have b : NG inp σ n (addWaits (absorbDone inp s isCalc ds nd) isCalc (ds.filter (unfinished s))) := by
    unfold addWaits
    split
    · rename_i hc
      refine ⟨a.pt, a.pcalc, a.st, a.sc, a.wr, ?_, a.bd, a.ig⟩
      intro d hd
      rcases List.mem_append.mp hd with x | x
      · have := hds d (List.mem_filter.mp x).1
        simpa [hc] using this
      · exact a.wc d x
    · rename_i hc
      refine ⟨a.pt, a.pcalc, a.st, a.sc, ?_, a.wc, a.bd, a.ig⟩
      intro d hd
      rcases List.mem_append.mp hd with x | x
      · have := hds d (List.mem_filter.mp x).1
        have hc' : isCalc = false := by simpa using hc
        simp only [hc', Bool.false_eq_true, if_false] at this
        show _ ∨ (absorbDone inp s isCalc ds nd).pc.late9 = true
        rw [hpc]; exact this
      · exact a.wr d x
  unfold waitNode
  exact b.setPc pc' (by rw [addWaits_pc, hpc]; exact hm)

theorem wokenNode_ng {n p : Name} {nd : Node} (pst : RS) (h : NG inp σ n nd)
    (hnc : wakeCrash p nd = false) (hpst : pst = σ p) : NG inp σ n (wokenNode inp pst p nd) := by
  unfold wokenNode
  split
  · rename_i hc
    have hp := h.wc p hc
    apply deliver_ng _ _ hp hpst
    have a := parentStatus_ng pst h hpst (Or.inl (Or.inr (Or.inl hp)))
    exact ⟨a.pt, a.pcalc, a.st, a.sc, fun d hd => h.wr d (List.mem_filter.mp hd).1,
      fun d hd => h.wc d (List.mem_filter.mp hd).1, a.bd, a.ig⟩
  · rename_i hc
    have hw : p ∈ nd.waitRun := by
      unfold wakeCrash at hnc
      simp only [hc, not_false_eq_true, decide_true, Bool.and_true, decide_eq_false_iff_not, Decidable.not_not] at hnc
      exact hnc
    have a := parentStatus_ng pst h hpst (h.wr p hw)
    exact ⟨a.pt, a.pcalc, a.st, a.sc, fun d hd => h.wr d (List.mem_filter.mp hd).1, a.wc, a.bd, a.ig⟩

theorem addWaiting_ng {n : Name} {nd : Node} (m : Name) (h : NG inp σ n nd) : NG inp σ n (nd.addWaiting m) := by
  unfold Node.addWaiting; split
  · exact h
  · exact ⟨h.pt, h.pcalc, h.st, h.sc, h.wr, h.wc, h.bd, h.ig⟩

/-! ### state level (`σ` fixed: the dispatcher changes no status) -/

def AllNG (inp : RunInput) (σ : Name → RS) (s : Sys) : Prop := ∀ k y, s.nodes k = some y → NG inp σ k y

theorem ng_setNode {s : Sys} {n : Name} {x : Node} (h : AllNG inp σ s) (hx : NG inp σ n x) :
    AllNG inp σ (setNode s n x) := by
  intro k y hk
  simp only [setNode_nodes] at hk
  split at hk
  · rename_i e; subst e; cases hk; exact hx
  · exact h k y hk

theorem ng_registerWaiting {s : Sys} (n : Name) (wf : List Name) (h : AllNG inp σ s) :
    AllNG inp σ (registerWaiting s n wf) := by
  intro k y hk
  rw [registerWaiting_nodes] at hk
  cases hx : s.nodes k with
  | none => rw [hx] at hk; cases hk
  | some x =>
    rw [hx] at hk
    by_cases e : k ∈ wf
    · simp only [e, if_true, Option.some.injEq] at hk; subst hk; exact addWaiting_ng n (h k x hx)
    · simp only [e, if_false, Option.some.injEq] at hk; subst hk; exact h k x hx

theorem genStep_ng {s : Sys} {n : Name} {nd : Node} (d : Name) (pc' : PC) (h : AllNG inp σ s)
    (hn : s.nodes n = some nd) (hm : nd.pc.late9 = true → pc'.late9 = true) :
    AllNG inp σ (genStep inp s n nd d pc') := by
  have hx := (h n nd hn).setPc pc' hm
  unfold genStep
  cases hdn : s.nodes d with
  | none =>
    simp only []
    intro k y hk
    exact ng_setNode (ng_setNode h (mkNode_ng d _)) hx k y hk
  | some x =>
    simp only []
    split
    · exact h
    · exact ng_setNode h hx

theorem addWaitRun_ng {s : Sys} {n : Name} {nd : Node} (ds : List Name) (c : Bool) (pc' : PC)
    (hσ : ∀ d, stOf s d = σ d) (h : AllNG inp σ s) (hn : s.nodes n = some nd)
    (hds : ∀ d ∈ ds, if c = true then CalcF inp σ n d else (StageF inp σ n d ∨ nd.pc.late9 = true))
    (hm : nd.pc.late9 = true → pc'.late9 = true) :
    AllNG inp σ (addWaitRun inp s n nd ds c pc') := by
  unfold addWaitRun
  exact ng_registerWaiting n _ (ng_setNode h (waitNode_ng ds c pc' hσ (h n nd hn) hds hm))

theorem nodeStep_ng {s s' : Sys} {n : Name} {nd : Node} {perm : List Name}
    (hσ : ∀ d, stOf s d = σ d) (h : AllNG inp σ s) (hn : s.nodes n = some nd)
    (hs : nodeStep inp s n nd perm = some s') : AllNG inp σ s' := by
  have hnd := h n nd hn
  unfold nodeStep at hs
  cases hpc : nd.pc with
  | loopTop =>
    simp only [hpc] at hs; split at hs
    · rename_i hp; cases hs
      have hx : NG inp σ n { nd with snapCalc := perm, pendCalc := [], snapTask := nd.pendTask, pendTask := [] } := by
        refine ⟨by simp, by simp, hnd.pt, ?_, hnd.wr, hnd.wc, hnd.bd, hnd.ig⟩
        intro d hd; exact hnd.pcalc d (hp.mem_iff.mp hd)
      exact ng_setNode h (hx.setPc (.calcIter perm) (fun e => by simp [hpc, PC.late9] at e))
    · cases hs
  | calcIter todo =>
    simp only [hpc] at hs
    cases todo with
    | cons d ds => cases hs; exact genStep_ng d _ h hn (fun e => by simp [hpc, PC.late9] at e)
    | nil =>
      cases hs
      exact addWaitRun_ng _ _ _ hσ h hn (fun d hd => by simpa using hnd.sc d hd)
        (fun e => by simp [hpc, PC.late9] at e)
  | taskIter todo =>
    simp only [hpc] at hs
    cases todo with
    | cons d ds => cases hs; exact genStep_ng d _ h hn (fun e => by simp [hpc, PC.late9] at e)
    | nil =>
      cases hs
      exact addWaitRun_ng _ _ _ hσ h hn (fun d hd => by
        have := hnd.st d hd
        simp only [Bool.false_eq_true, if_false]; exact Or.inl this)
        (fun e => by simp [hpc, PC.late9] at e)
  | afterDeps =>
    simp only [hpc] at hs
    split at hs
    · cases hs; exact ng_setNode h (hnd.setPc _ (fun e => by simp [hpc, PC.late9] at e))
    · split at hs
      · cases hs; intro k y hk
        exact ng_setNode h (hnd.setPc .loopTop (fun e => by simp [hpc, PC.late9] at e)) k y hk
      · cases hs; exact ng_setNode h (hnd.setPc _ (fun e => by simp [hpc, PC.late9] at e))
  | self1 =>
    simp only [hpc] at hs; cases hs; intro k y hk
    exact ng_setNode h (hnd.setPc .afterSelf1 (fun e => by simp [hpc, PC.late9] at e)) k y hk
  | afterSelf1 =>
    simp only [hpc] at hs
    split at hs
    · cases hs; exact ng_setNode h (hnd.setPc _ (fun e => by simp [hpc, PC.late9] at e))
    · split at hs
      · cases hs
        intro k y hk
        have hx : NG inp σ n { nd with waitSelect := true } :=
          ⟨hnd.pt, hnd.pcalc, hnd.st, hnd.sc, hnd.wr, hnd.wc, hnd.bd, hnd.ig⟩
        exact ng_setNode h (hx.setPc .setupDecide (fun e => by simp [hpc, PC.late9] at e)) k y hk
      · cases hs; exact ng_setNode h (hnd.setPc _ (fun e => by simp [hpc, PC.late9] at e))
  | setupDecide =>
    simp only [hpc] at hs
    split at hs <;> (cases hs; exact ng_setNode h (hnd.setPc _ (fun _ => rfl)))
  | setupIter todo =>
    simp only [hpc] at hs
    cases todo with
    | cons d ds => cases hs; exact genStep_ng d _ h hn (fun _ => rfl)
    | nil =>
      cases hs
      exact addWaitRun_ng _ _ _ hσ h hn (fun d hd => by
        simp only [Bool.false_eq_true, if_false]; right; rw [hpc]; rfl) (fun _ => rfl)
  | afterSetup =>
    simp only [hpc] at hs
    split at hs
    · cases hs; intro k y hk; exact ng_setNode h (hnd.setPc .self2 (fun _ => rfl)) k y hk
    · cases hs; exact ng_setNode h (hnd.setPc _ (fun _ => rfl))
  | self2 =>
    simp only [hpc] at hs; cases hs; intro k y hk
    exact ng_setNode h (hnd.setPc .afterSelf2 (fun _ => rfl)) k y hk
  | afterSelf2 => simp only [hpc] at hs; cases hs; exact ng_setNode h (hnd.setPc _ (fun _ => rfl))
  | done => simp only [hpc] at hs; cases hs; exact h

theorem dtick_ng {s s' : Sys} {perm : List Name} (hσ : ∀ d, stOf s d = σ d) (h : AllNG inp σ s)
    (hs : dtick inp s perm = some s') : AllNG inp σ s' := by
  unfold dtick at hs
  cases hc : s.cur with
  | some n =>
    simp only [hc] at hs
    cases hn : s.nodes n with
    | none => simp only [hn] at hs; cases hs; exact h
    | some nd => simp only [hn] at hs; exact nodeStep_ng hσ h hn hs
  | none =>
    simp only [hc] at hs
    split at hs
    · cases hs; exact h
    · split at hs
      · split at hs
        · cases hs; intro k y hk; exact ng_setNode h (mkNode_ng _ _) k y hk
        · cases hs; exact h
      · split at hs
        · split at hs <;> (cases hs; exact h)
        · cases hs; exact h

theorem wokenF_ng {s : Sys} {n p : Name} {nd : Node} (pst : RS) (h : NG inp σ n nd)
    (hnc : wakeCrash p nd = false) (hpst : pst = σ p) : NG inp σ n (wokenF inp s pst p nd) := by
  have a := wokenNode_ng (inp := inp) pst h hnc hpst
  unfold wokenF; split
  · rename_i hc
    exact deliverF_ng _ _ a (h.wc p hc) hpst
  · exact a

theorem wakeOne_ng {s : Sys} {pst : RS} {p w : Name} {nd : Node} (h : AllNG inp σ s) (hw : s.nodes w = some nd)
    (hnc : wakeCrash p nd = false) (hpst : pst = σ p) : AllNG inp σ (wakeOne inp s pst p w nd) := by
  have := ng_setNode h (wokenF_ng (inp := inp) (s := s) pst (h w nd hw) hnc hpst)
  unfold wakeOne; split
  · intro k y hk; exact this k y hk
  · exact this

theorem updateWaiting_ng {pst : RS} {p : Name} (hpst : pst = σ p) :
    ∀ (perm : List Name) (s s' : Sys), AllNG inp σ s → updateWaiting inp pst p s perm = some s' →
      AllNG inp σ s' := by
  intro perm
  induction perm with
  | nil => intro s s' h hs; simp only [updateWaiting] at hs; cases hs; exact h
  | cons w ws ih =>
    intro s s' h hs
    simp only [updateWaiting] at hs
    cases hw : s.nodes w with
    | none => simp only [hw] at hs; exact ih s s' h hs
    | some nd =>
      simp only [hw] at hs
      split at hs
      · cases hs
      · rename_i hnc
        exact ih _ s' (wakeOne_ng h hw (by simpa using hnc) hpst) hs

theorem sendHead_ng {s : Sys} {p : Name} {nd : Node} (h : AllNG inp σ s) (hn : s.nodes p = some nd) :
    AllNG inp σ (sendHead s p nd) := by
  have hnd := h p nd hn
  unfold sendHead; split
  · intro k y hk
    exact ng_setNode (x := { nd with waitSelect := false }) h
      ⟨hnd.pt, hnd.pcalc, hnd.st, hnd.sc, hnd.wr, hnd.wc, hnd.bd, hnd.ig⟩ k y hk
  · exact h

theorem send_ng {s s' : Sys} {processed : Option Name} {perm : List Name} (hσ : ∀ d, stOf s d = σ d)
    (h : AllNG inp σ s) (hs : send inp s processed perm = some s') : AllNG inp σ s' := by
  unfold send at hs
  cases processed with
  | none => cases hs; exact h
  | some p =>
    simp only [] at hs
    cases hn : s.nodes p with
    | none => simp only [hn] at hs; cases hs; exact h
    | some nd =>
      simp only [hn] at hs
      have hpst : nd.status = σ p := by rw [← hσ p]; simp [stOf, hn]
      split at hs
      · cases hs; exact h
      · split at hs
        · cases hs; exact sendHead_ng h hn
        · split at hs
          · cases hu : updateWaiting inp nd.status p (sendHead s p nd) perm with
            | none => simp only [hu] at hs; cases hs; exact sendHead_ng h hn
            | some s2 =>
              simp only [hu] at hs; cases hs
              exact updateWaiting_ng hpst perm _ s2 (sendHead_ng h hn) hu
          · cases hs

theorem AllNG.congr {s s' : Sys} (h : AllNG inp σ s) (e : s'.nodes = s.nodes) : AllNG inp σ s' :=
  fun k y hk => h k y (by rw [← e]; exact hk)

theorem AllNG.mono {σ' : Name → RS} {s : Sys} (h : AllNG inp σ s)
    (hs : ∀ x, (σ x).finished = true → σ' x = σ x) : AllNG inp σ' s := fun k y hk => (h k y hk).mono hs

theorem allNG_status {s : Sys} {n : Name} {nd : Node} (h : AllNG inp σ s) (hn : s.nodes n = some nd) (st' : RS) :
    AllNG inp σ (setNode s n { nd with status := st' }) := by
  have hnd := h n nd hn
  exact ng_setNode h ⟨hnd.pt, hnd.pcalc, hnd.st, hnd.sc, hnd.wr, hnd.wc, hnd.bd, hnd.ig⟩

end DoitModel.Run
