import DoitModel.Proofs.RunSys
import DoitModel.Proofs.C08Conf1
/-! # C08 (I10), step 2: soundness of `bad_deps` / `ignored_deps` on graphs without calc_dep (node-local invariant
    `NodeS`, lifted to all nodes as `InvN`, preserved by the dispatcher) -/
namespace DoitModel.Run

/-- the setup-tasks have been passed to `_node_add_wait_run` (or the generator is exhausted) -/
def PC.late : PC → Bool
  | .afterSetup | .self2 | .afterSelf2 | .done => true
  | _ => false
/-- inside the `if node.run_status == 'run'` branch -/
def PC.ph2 : PC → Bool
  | .setupIter _ | .afterSetup | .self2 | .afterSelf2 => true
  | _ => false

/-- where an entry of `wait_run` / `bad_deps` / `ignored_deps` of node `n` can come from -/
def Src (inp : RunInput) (n : Name) (pc : PC) (p : Name) : Prop :=
  p ∈ inp.taskDep n ∨ (pc.late = true ∧ p ∈ inp.setup n)

theorem Src.mono {inp : RunInput} {n : Name} {pc pc' : PC} {p : Name} (hl : pc.late = true → pc'.late = true)
    (h : Src inp n pc p) : Src inp n pc' p := by
  rcases h with a | ⟨a, b⟩
  · exact Or.inl a
  · exact Or.inr ⟨hl a, b⟩

structure NodeS (inp : RunInput) (s : Sys) (n : Name) (nd : Node) : Prop where
  noC : nd.pendCalc = [] ∧ nd.snapCalc = [] ∧ nd.waitRunCalc = []
  pend : ∀ d ∈ nd.pendTask, d ∈ inp.taskDep n
  snap : ∀ d ∈ nd.snapTask, d ∈ inp.taskDep n
  wait : ∀ d ∈ nd.waitRun, Src inp n nd.pc d
  bad : ∀ p ∈ nd.bad, stOf s p = .fail ∧ Src inp n nd.pc p
  ign : ∀ p ∈ nd.ign, stOf s p = .ign ∧ Src inp n nd.pc p
  ph2 : nd.pc.ph2 = true → nd.status ≠ .none

theorem NodeS.stable {inp : RunInput} {s s' : Sys} {n : Name} {a : Node} (h : NodeS inp s n a) (hst : Stable s s') :
    NodeS inp s' n a := by
  refine ⟨h.noC, h.pend, h.snap, h.wait, ?_, ?_, h.ph2⟩
  · intro p hp
    obtain ⟨a1, a2⟩ := h.bad p hp
    exact ⟨by rw [hst p (by rw [a1]; rfl)]; exact a1, a2⟩
  · intro p hp
    obtain ⟨a1, a2⟩ := h.ign p hp
    exact ⟨by rw [hst p (by rw [a1]; rfl)]; exact a1, a2⟩

theorem NodeS.setPc {inp : RunInput} {s : Sys} {n : Name} {nd : Node} (pc' : PC) (h : NodeS inp s n nd)
    (hl : nd.pc.late = true → pc'.late = true) (hp : pc'.ph2 = true → nd.pc.ph2 = true ∨ nd.status ≠ .none) :
    NodeS inp s n { nd with pc := pc' } := by
  refine ⟨h.noC, h.pend, h.snap, fun d hd => (h.wait d hd).mono hl, ?_, ?_, ?_⟩
  · intro p hp'; exact ⟨(h.bad p hp').1, ((h.bad p hp').2).mono hl⟩
  · intro p hp'; exact ⟨(h.ign p hp').1, ((h.ign p hp').2).mono hl⟩
  · intro e
    rcases hp e with a | a
    · exact h.ph2 a
    · exact a

theorem mkNode_S {inp : RunInput} (hnc : NoCalc inp) (s : Sys) (t : Name) (anc : List Name) :
    NodeS inp s t (mkNode inp t anc) := by
  refine ⟨⟨by simp [mkNode, hnc t, dedup], rfl, rfl⟩, fun d hd => hd, ?_, ?_, ?_, ?_, ?_⟩
  · intro d hd; simp [mkNode] at hd
  · intro d hd; simp [mkNode] at hd
  · intro d hd; simp [mkNode] at hd
  · intro d hd; simp [mkNode] at hd
  · intro e; simp [mkNode, PC.ph2] at e

theorem NodeS.addWaiting {inp : RunInput} {s : Sys} {k : Name} {x : Node} (h : NodeS inp s k x) (m : Name) :
    NodeS inp s k (x.addWaiting m) := by
  unfold Node.addWaiting; split
  · exact h
  · exact ⟨h.noC, h.pend, h.snap, h.wait, h.bad, h.ign, h.ph2⟩

theorem NodeS.setStatus {inp : RunInput} {s : Sys} {n : Name} {nd : Node} (st' : RS) (h : NodeS inp s n nd)
    (hne : st' ≠ .none) : NodeS inp s n { nd with status := st' } :=
  ⟨h.noC, h.pend, h.snap, h.wait, h.bad, h.ign, fun _ => hne⟩

/-! ### `_node_add_wait_run` -/

theorem absorbDone_sound (inp : RunInput) (s : Sys) (Q : Name → Prop) : ∀ (ds : List Name) (nd : Node),
    (∀ d ∈ ds, Q d) → (∀ p ∈ nd.bad, stOf s p = .fail ∧ Q p) → (∀ p ∈ nd.ign, stOf s p = .ign ∧ Q p) →
    (∀ p ∈ (absorbDone inp s false ds nd).bad, stOf s p = .fail ∧ Q p) ∧
    (∀ p ∈ (absorbDone inp s false ds nd).ign, stOf s p = .ign ∧ Q p) := by
  intro ds
  induction ds with
  | nil => intro nd _ hb hi; exact ⟨hb, hi⟩
  | cons a t ih =>
    intro nd hq hb hi
    simp only [absorbDone]
    have hq' : ∀ d ∈ t, Q d := fun d hd => hq d (by simp [hd])
    by_cases hu : unfinished s a = true
    · simp only [hu, if_true]; exact ih nd hq' hb hi
    · simp only [hu, Bool.false_eq_true, if_false]
      apply ih _ hq'
      · intro p hp
        simp only [parentStatus] at hp
        split at hp
        · rename_i e
          rcases List.mem_append.mp hp with x | x
          · exact hb p x
          · simp at x; subst x; exact ⟨e, hq p (by simp)⟩
        · exact hb p hp
      · intro p hp
        simp only [parentStatus] at hp
        split at hp
        · rename_i e
          rcases List.mem_append.mp hp with x | x
          · exact hi p x
          · simp at x; subst x; exact ⟨e, hq p (by simp)⟩
        · exact hi p hp

theorem waitNode_S {inp : RunInput} {s : Sys} {n : Name} {nd : Node} (ds : List Name) (pc' : PC)
    (h : NodeS inp s n nd) (hds : ∀ d ∈ ds, Src inp n pc' d)
    (hl : nd.pc.late = true → pc'.late = true) (hp : pc'.ph2 = true → nd.pc.ph2 = true ∨ nd.status ≠ .none) :
    NodeS inp s n (waitNode inp s nd ds false pc') := by
  have f := waitNode_facts inp s nd ds false pc'
  obtain ⟨⟨e1, e2, e3, e4⟩, e5⟩ := f.same rfl
  obtain ⟨g, _, _⟩ := absorbDone_spec inp s false ds nd
  obtain ⟨sb, si⟩ := absorbDone_sound inp s (Src inp n pc') ds nd hds
    (fun p hp' => ⟨(h.bad p hp').1, ((h.bad p hp').2).mono hl⟩)
    (fun p hp' => ⟨(h.ign p hp').1, ((h.ign p hp').2).mono hl⟩)
  have hwr : (waitNode inp s nd ds false pc').waitRun = ds.filter (unfinished s) ++ nd.waitRun := by
    simp [waitNode, addWaits, g.waitRun]
  refine ⟨⟨by rw [e4]; exact h.noC.1, by rw [f.snapCalc]; exact h.noC.2.1, by rw [e5]; exact h.noC.2.2⟩, ?_, ?_, ?_,
    ?_, ?_, ?_⟩
  · intro d hd; rw [e3] at hd; exact h.pend d hd
  · intro d hd; rw [f.snapTask] at hd; exact h.snap d hd
  · intro d hd
    rw [hwr] at hd; rw [f.pc]
    rcases List.mem_append.mp hd with x | x
    · exact hds d (List.mem_filter.mp x).1
    · exact (h.wait d x).mono hl
  · intro p hp'; rw [f.pc]; exact sb p hp'
  · intro p hp'; rw [f.pc]; exact si p hp'
  · intro e; rw [f.pc] at e; rw [f.status]
    rcases hp e with a | a
    · exact h.ph2 a
    · exact a

theorem waitNode_S_calc {inp : RunInput} {s : Sys} {n : Name} {nd : Node} (pc' : PC)
    (h : NodeS inp s n nd) (hl : nd.pc.late = true → pc'.late = true)
    (hp : pc'.ph2 = true → nd.pc.ph2 = true ∨ nd.status ≠ .none) :
    NodeS inp s n (waitNode inp s nd nd.snapCalc true pc') := by
  have e : waitNode inp s nd [] true pc' = { nd with pc := pc' } := by
    simp [waitNode, addWaits, absorbDone]
  rw [h.noC.2.1, e]
  exact h.setPc pc' hl hp

/-! ### `_update_waiting`: one waiting node -/

theorem wokenNode_S {inp : RunInput} {s : Sys} {n : Name} {w : Node} {pst : RS} {p : Name}
    (h : NodeS inp s n w) (hp : p ∈ w.waitRun) (hst : stOf s p = pst) : NodeS inp s n (wokenNode inp pst p w) := by
  have hnc : p ∉ w.waitRunCalc := by rw [h.noC.2.2]; simp
  have hsrc := h.wait p hp
  unfold wokenNode
  rw [if_neg hnc]
  refine ⟨h.noC, h.pend, h.snap, ?_, ?_, ?_, h.ph2⟩
  · intro d hd; exact h.wait d (List.mem_filter.mp hd).1
  · intro q hq
    simp only [parentStatus] at hq
    split at hq
    · rename_i e
      rcases List.mem_append.mp hq with x | x
      · exact h.bad q x
      · simp at x; subst x; exact ⟨hst.trans e, hsrc⟩
    · exact h.bad q hq
  · intro q hq
    simp only [parentStatus] at hq
    split at hq
    · rename_i e
      rcases List.mem_append.mp hq with x | x
      · exact h.ign q x
      · simp at x; subst x; exact ⟨hst.trans e, hsrc⟩
    · exact h.ign q hq

/-! ### all nodes -/

def InvN (inp : RunInput) (s : Sys) : Prop := ∀ n nd, s.nodes n = some nd → NodeS inp s n nd

theorem invN_congr {inp : RunInput} {s s' : Sys} (h : InvN inp s) (e : s'.nodes = s.nodes) : InvN inp s' := by
  intro n nd hn; rw [e] at hn
  exact (h n nd hn).stable (Stable.of_eq (stOf_congr e))

theorem invN_stable {inp : RunInput} {s : Sys} {n : Name} {x : Node} (h : InvN inp s) (hst : Stable s (setNode s n x))
    (hx : NodeS inp s n x) : InvN inp (setNode s n x) := by
  intro m md hm
  simp only [setNode_nodes] at hm
  split at hm
  · rename_i e; subst e; cases hm; exact hx.stable hst
  · exact (h m md hm).stable hst

theorem invN_setNode {inp : RunInput} {s : Sys} {n : Name} {nd x : Node} (h : InvN inp s)
    (hn : s.nodes n = some nd) (hst : x.status = nd.status) (hx : NodeS inp s n x) : InvN inp (setNode s n x) :=
  invN_stable h (Stable.of_eq (stOf_setNode_same hn hst)) hx

theorem stable_create {inp : RunInput} {s : Sys} {t : Name} (anc : List Name) (ht : s.nodes t = none) :
    ∀ x, stOf (setNode s t (mkNode inp t anc)) x = stOf s x := by
  intro d; rw [stOf_setNode]; split
  · rename_i e; subst e; simp [stOf, ht, mkNode]
  · rfl

theorem invN_create {inp : RunInput} {s : Sys} {t : Name} (hnc : NoCalc inp) (anc : List Name) (h : InvN inp s)
    (ht : s.nodes t = none) : InvN inp (setNode s t (mkNode inp t anc)) :=
  invN_stable h (Stable.of_eq (stable_create anc ht)) (mkNode_S hnc s t anc)

/-- the runner sets the status of node `n` (not finished before) -/
theorem invN_status {inp : RunInput} {s : Sys} {n : Name} {nd : Node} (st' : RS) (h : InvN inp s)
    (hn : s.nodes n = some nd) (hu : nd.status.finished = false) (hne : st' ≠ .none) :
    InvN inp (setNode s n { nd with status := st' }) := by
  refine invN_stable h ?_ ((h n nd hn).setStatus st' hne)
  intro d hd; rw [stOf_setNode]; split
  · rename_i e; subst e; simp [stOf, hn, hu] at hd
  · rfl

theorem invN_registerWaiting {inp : RunInput} {s : Sys} (n : Name) (wf : List Name) (h : InvN inp s) :
    InvN inp (registerWaiting s n wf) := by
  have hstb : Stable s (registerWaiting s n wf) := Stable.of_eq (stOf_registerWaiting s n wf)
  intro k y hy
  rw [registerWaiting_nodes] at hy
  cases hk : s.nodes k with
  | none => rw [hk] at hy; cases hy
  | some x =>
    rw [hk] at hy
    by_cases hkw : k ∈ wf
    · simp only [hkw, if_true, Option.some.injEq] at hy; subst hy
      exact ((h k x hk).stable hstb).addWaiting n
    · simp only [hkw, if_false, Option.some.injEq] at hy; subst hy
      exact (h k x hk).stable hstb

theorem genStep_invN {inp : RunInput} {s : Sys} {n : Name} {nd : Node} (hnc : NoCalc inp) (d : Name) (pc' : PC)
    (h : InvN inp s) (hn : s.nodes n = some nd) (hx : NodeS inp s n { nd with pc := pc' }) :
    InvN inp (genStep inp s n nd d pc') := by
  unfold genStep
  cases hd : s.nodes d with
  | none =>
    simp only []
    have hdn : d ≠ n := by intro e; subst e; rw [hn] at hd; cases hd
    have h1 := invN_create hnc (nd.anc ++ [d]) h hd
    have hn1 : (setNode s d (mkNode inp d (nd.anc ++ [d]))).nodes n = some nd := by
      simp [setNode_nodes, Ne.symm hdn, hn]
    have h2 := invN_setNode (x := { nd with pc := pc' }) h1 hn1 rfl
      (hx.stable (Stable.of_eq (stable_create (nd.anc ++ [d]) hd)))
    exact invN_congr h2 rfl
  | some x =>
    simp only []
    split
    · exact invN_congr h rfl
    · exact invN_setNode h hn rfl hx

theorem addWaitRun_invN {inp : RunInput} {s : Sys} {n : Name} {nd : Node} (ds : List Name) (isCalc : Bool)
    (pc' : PC) (h : InvN inp s) (hn : s.nodes n = some nd)
    (hx : NodeS inp s n (waitNode inp s nd ds isCalc pc')) : InvN inp (addWaitRun inp s n nd ds isCalc pc') := by
  have f := waitNode_facts inp s nd ds isCalc pc'
  unfold addWaitRun
  apply invN_registerWaiting
  exact invN_setNode (x := waitNode inp s nd ds isCalc pc') h hn f.status hx

end DoitModel.Run
