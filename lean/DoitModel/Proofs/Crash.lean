import DoitModel.Model.Crash
/-! helper lemmas for C06 (kill / interruption soundness) -/
namespace DoitModel.Crash

theorem legit_mono_save (old : Store) (effs : List Eff) (t : T) (r : R) (h : Eff.save t r ∈ effs) :
    Legit old effs t r := Or.inr h

theorem slotLegit_slotOf_old (old : Store) (effs : List Eff) (t : T) : SlotLegit old effs t (slotOf (old t)) := by
  cases h : old t with
  | none => simp [slotOf, SlotLegit]
  | some r => simp [slotOf, SlotLegit, Legit, h]

theorem foldl_legit (old : Store) (effs : List Eff) (t : T) (r : R) :
    ∀ (pre : List Eff) (s : Store), (∀ x r', s x = some r' → Legit old (pre ++ effs) x r') →
      (effs.foldl applyEff s) t = some r → Legit old (pre ++ effs) t r := by
  induction effs with
  | nil => intro pre s hs h; exact hs t r (by simpa using h)
  | cons e es ih =>
    intro pre s hs h
    have := ih (pre ++ [e]) (applyEff s e) (by
      intro x r' hx
      cases e with
      | save t' r'' =>
        simp only [applyEff] at hx
        by_cases hxt : x = t'
        · subst hxt; simp at hx; subst hx
          exact Or.inr (by simp)
        · simp [hxt] at hx
          have := hs x r' hx
          simpa [List.append_assoc] using this
      | remove t' =>
        simp only [applyEff] at hx
        by_cases hxt : x = t'
        · simp [hxt] at hx
        · simp [hxt] at hx
          have := hs x r' hx
          simpa [List.append_assoc] using this) (by simpa using h)
    simpa [List.append_assoc] using this

/-- every record of the logical final store is legitimate -/
theorem finalStore_legit (old : Store) (effs : List Eff) (t : T) (r : R)
    (h : finalStore old effs t = some r) : Legit old effs t r := by
  have := foldl_legit old effs t r [] old (by intro x r' hx; exact Or.inl hx) h
  simpa using this

/-! ### JSON -/
theorem json_fold_cases (d : JDisk) (prims : List JPrim) (fin : Store)
    (hp : ∀ p ∈ prims, p = .trunc ∨ p = .chunk ∨ p = .last fin) :
    prims.foldl jApply d = d ∨ prims.foldl jApply d = .torn ∨ prims.foldl jApply d = .complete fin := by
  induction prims generalizing d with
  | nil => left; rfl
  | cons p ps ih =>
    simp only [List.foldl_cons]
    have hps : ∀ q ∈ ps, q = .trunc ∨ q = .chunk ∨ q = .last fin := fun q hq => hp q (List.mem_cons_of_mem _ hq)
    rcases ih (jApply d p) hps with h | h | h
    · rw [h]
      rcases hp p (List.mem_cons_self ..) with hp' | hp' | hp' <;> subst hp' <;> simp [jApply]
    · right; left; exact h
    · right; right; exact h

/-! ### dbm.dumb -/
structure DInv (old : Store) (effs : List Eff) (d : DDisk) : Prop where
  memLegit : ∀ t r, d.mem t = some r → Legit old effs t r
  diskLegit : ∀ t, SlotLegit old effs t (d.disk t)

theorem dInit_inv (old : Store) (effs : List Eff) : DInv old effs (dInit old) :=
  ⟨fun _ _ h => Or.inl h, fun t => slotLegit_slotOf_old old effs t⟩

theorem commitDisk_legit (old : Store) (effs : List Eff) (mem : Store)
    (h : ∀ t r, mem t = some r → Legit old effs t r) (t : T) : SlotLegit old effs t (commitDisk mem t) := by
  unfold commitDisk
  cases hm : mem t with
  | none => simp [slotOf, SlotLegit]
  | some r => simpa [slotOf, SlotLegit] using h t r hm

/-- a primitive is admissible when the record it writes was saved by the run -/
def PrimOk (effs : List Eff) : DPrim → Prop
  | .set t r => Eff.save t r ∈ effs
  | _ => True

theorem dApply_inv (old : Store) (effs : List Eff) (seen : SetSeen) (d : DDisk) (p : DPrim)
    (hp : PrimOk effs p) (h : DInv old effs d) : DInv old effs (dApply seen d p) := by
  obtain ⟨h1, h2⟩ := h
  cases p with
  | del t =>
    have hm : ∀ x r, (fun x => if x = t then none else d.mem x) x = some r → Legit old effs x r := by
      intro x r hx
      by_cases hxt : x = t
      · simp [hxt] at hx
      · simp [hxt] at hx; exact h1 x r hx
    exact ⟨hm, fun x => commitDisk_legit old effs _ hm x⟩
  | set t r =>
    refine ⟨?_, ?_⟩
    · intro x r' hx
      simp only [dApply] at hx
      by_cases hxt : x = t
      · simp [hxt] at hx; subst hx; subst hxt; exact Or.inr hp
      · simp [hxt] at hx; exact h1 x r' hx
    · intro x
      simp only [dApply]
      by_cases hxt : x = t
      · subst hxt
        cases seen <;> simp [SlotLegit]
        · exact h2 x
        · exact Or.inr hp
      · simp [hxt]; exact h2 x
  | close => exact ⟨h1, fun x => commitDisk_legit old effs _ h1 x⟩

theorem dCrashIn_inv (old : Store) (effs : List Eff) (seen : SetSeen) (torn : Bool) (keep : T → Bool)
    (d : DDisk) (p : DPrim) (hp : PrimOk effs p) (h : DInv old effs d) :
    DInv old effs (dCrashIn seen torn keep d p) := by
  cases p with
  | set t r => exact dApply_inv old effs seen d (.set t r) hp h
  | del t =>
    obtain ⟨h1, h2⟩ := h
    have hm : ∀ x r, (fun x => if x = t then none else d.mem x) x = some r → Legit old effs x r := by
      intro x r hx
      by_cases hxt : x = t
      · simp [hxt] at hx
      · simp [hxt] at hx; exact h1 x r hx
    refine ⟨hm, ?_⟩
    intro x
    simp only [dCrashIn]
    cases keep x
    · simp [SlotLegit]
    · simpa using commitDisk_legit old effs _ hm x
  | close =>
    obtain ⟨h1, h2⟩ := h
    refine ⟨h1, ?_⟩
    intro x
    simp only [dCrashIn]
    cases keep x
    · simp [SlotLegit]
    · simpa using commitDisk_legit old effs _ h1 x

theorem dbmRun_inv (old : Store) (effs : List Eff) (seens : Nat → SetSeen) (prims : List DPrim)
    (hp : ∀ p ∈ prims, PrimOk effs p) (i : Nat) (d : DDisk) (h : DInv old effs d) :
    DInv old effs (dbmRun seens i d prims) := by
  induction prims generalizing i d with
  | nil => exact h
  | cons p ps ih =>
    simp only [dbmRun]
    exact ih (fun q hq => hp q (List.mem_cons_of_mem _ hq)) _ _
      (dApply_inv old effs _ d p (hp p (List.mem_cons_self ..)) h)

theorem dbmProtocol_ok (effs : List Eff) (dirty : List (T × R))
    (hd : ∀ p ∈ dirty, Eff.save p.1 p.2 ∈ effs) : ∀ p ∈ dbmProtocol effs dirty, PrimOk effs p := by
  intro p hp
  simp only [dbmProtocol, List.mem_append, List.mem_map, List.mem_singleton] at hp
  rcases hp with (⟨t, _, rfl⟩ | ⟨q, hq, rfl⟩) | rfl
  · trivial
  · exact hd q hq
  · trivial

def dirtyStep (acc : List (T × R)) : Eff → List (T × R)
  | .save t r => (acc.filter (·.1 ≠ t)) ++ [(t, r)]
  | .remove t => acc.filter (·.1 ≠ t)

theorem dirtyOf_eq (effs : List Eff) : dirtyOf effs = effs.foldl dirtyStep [] := by
  unfold dirtyOf
  congr 1

theorem dirtyFold_saved (effs : List Eff) :
    ∀ (pre : List Eff) (acc : List (T × R)), (∀ p ∈ acc, Eff.save p.1 p.2 ∈ pre ++ effs) →
      ∀ p ∈ effs.foldl dirtyStep acc, Eff.save p.1 p.2 ∈ pre ++ effs := by
  induction effs with
  | nil => intro pre acc h p hp; exact h p (by simpa using hp)
  | cons e es ih =>
    intro pre acc h p hp
    simp only [List.foldl_cons] at hp
    have := ih (pre ++ [e]) _ (by
      intro q hq
      cases e with
      | save t r =>
        simp only [dirtyStep, List.mem_append, List.mem_filter, List.mem_singleton] at hq
        rcases hq with ⟨hq, _⟩ | rfl
        · have := h q hq; simpa [List.append_assoc] using this
        · simp
      | remove t =>
        simp only [dirtyStep, List.mem_filter] at hq
        have := h q hq.1; simpa [List.append_assoc] using this) p hp
    simpa [List.append_assoc] using this

/-- every dirty record was saved by the run -/
theorem dirtyOf_saved (effs : List Eff) : ∀ p ∈ dirtyOf effs, Eff.save p.1 p.2 ∈ effs := by
  rw [dirtyOf_eq]
  intro p hp
  have := dirtyFold_saved effs [] [] (by simp) p hp
  simpa using this

end DoitModel.Crash
