import DoitModel.Proofs.C09Disp
/-! # C09 — a task in flight is in `dispatched`; a node about to be fed back is not in flight -/
namespace DoitModel.Run

variable {inp : RunInput}

structure InvF (s : Sys) : Prop where
  di : ∀ n, InFlight s n → n ∈ s.dispatched
  xx : ∀ p, sentBack s = some p → ¬ InFlight s p
  sx : ∀ n, s.rpc = .sExec n → n ∈ s.dispatched

/-- a task that `select_task` never chose is not in flight -/
theorem notInFlight_of_cGo0 {s : Sys} {n : Name} (h3 : Inv3 inp s) (hz : cGo s n = 0) : ¬ InFlight s n := by
  intro hf
  have hj := h3.j n
  have hp := h3.p0 n
  rcases hf with a | a | a | a
  · have : s.jobQ.count (.task n) ≥ 1 := List.count_pos_iff.mpr a
    omega
  · omega
  · obtain ⟨w, hw⟩ := a
    have := (h3.w1 w n hw).1
    omega
  · have := (h3.q1 n a).1
    omega

/-- the task whose result was just taken from the result queue is nowhere else -/
theorem notInFlight_popped {s : Sys} {n : Name} {rest : List Name} (h3 : Inv3 inp s) (hq : s.resQ = n :: rest)
    (hr : ∀ m r, s.rpc ≠ .gRet (.task m) r) :
    Job.task n ∉ s.jobQ ∧ (∀ w, s.workers w ≠ .running n) ∧ n ∉ rest := by
  have hn : n ∈ s.resQ := by rw [hq]; simp
  have hf := (h3.q1 n hn).1
  have hj := h3.j n
  have hp := h3.p0 n
  refine ⟨?_, ?_, ?_⟩
  · intro a
    have : s.jobQ.count (.task n) ≥ 1 := List.count_pos_iff.mpr a
    omega
  · intro w hw
    have := (h3.w1 w n hw).2.1
    omega
  · have := h3.q2
    rw [hq] at this
    exact (List.nodup_cons.mp this).1

theorem init_invF (inp : RunInput) : InvF (init inp) := by
  have hr : (init inp).rpc = .sTop none ∨ (init inp).rpc = .gEntry none (.startLoop inp.numProc) := by
    simp only [init]; split
    · exact Or.inl rfl
    · exact Or.inr rfl
  have hh : ∀ n, holding (init inp) n = 0 := by
    intro n; unfold holding; rcases hr with a | a <;> rw [a]
  refine ⟨?_, ?_, ?_⟩
  · intro n h
    rcases h with a | a | a | a
    · simp [init] at a
    · rw [hh n] at a; cases a
    · obtain ⟨w, hw⟩ := a; simp [init] at hw
    · simp [init] at a
  · intro p h; unfold sentBack at h; rcases hr with a | a <;> (rw [a] at h; cases h)
  · intro n h; rcases hr with a | a <;> (rw [a] at h; cases h)

theorem InvF.mono {s s' : Sys} (h : InvF s) (hd : ∀ n, n ∈ s.dispatched → n ∈ s'.dispatched)
    (hf : ∀ n, InFlight s' n → InFlight s n) (hsb : ∀ p, sentBack s' = some p → sentBack s = some p)
    (hx : ∀ n, s'.rpc = .sExec n → s.rpc = .sExec n) : InvF s' :=
  ⟨fun n a => hd n (h.di n (hf n a)), fun p a b => h.xx p (hsb p a) (hf p b), fun n a => hd n (h.sx n (hx n a))⟩

/-- `InFlight` is reflected by a step that keeps the queues and ends at a position that holds no job -/
theorem inFlight_back {s s' : Sys} (e1 : s'.jobQ = s.jobQ) (e2 : s'.workers = s.workers) (e3 : s'.resQ = s.resQ)
    (h0 : ∀ m r, s'.rpc ≠ .gRet (.task m) r) (n : Name) (h : InFlight s' n) : InFlight s n :=
  inFlight_keep e1.symm e2.symm e3.symm h0 n h

theorem sendHead_keep (s : Sys) (p : Name) (nd : Node) (n : Name) (hn : n ∈ s.dispatched) (hne : n ≠ p) :
    n ∈ (sendHead s p nd).dispatched := by
  rw [sendHead_dispatched]; exact List.mem_filter.mpr ⟨hn, by simpa using hne⟩

/-- `send` discards at most the processed node -/
theorem send_keep {s s' : Sys} {processed : Option Name} {perm : List Name}
    (hs : send inp s processed perm = some s') (n : Name) (hn : n ∈ s.dispatched) (hne : processed ≠ some n) :
    n ∈ s'.dispatched := by
  unfold send at hs
  cases processed with
  | none => cases hs; exact hn
  | some p =>
    have hne' : n ≠ p := fun e => hne (by rw [e])
    simp only [] at hs
    cases hnp : s.nodes p with
    | none => simp only [hnp] at hs; cases hs; exact hn
    | some nd =>
      simp only [hnp] at hs
      split at hs
      · cases hs; exact hn
      · split at hs
        · cases hs; exact sendHead_keep s p nd n hn hne'
        · split at hs
          · cases hu : updateWaiting inp nd.status p (sendHead s p nd) perm with
            | none => simp only [hu] at hs; cases hs; exact sendHead_keep s p nd n hn hne'
            | some s2 =>
              simp only [hu] at hs; cases hs
              show n ∈ s2.dispatched
              rw [updateWaiting_dispatched inp _ p perm _ s2 hu]; exact sendHead_keep s p nd n hn hne'
          · cases hs

theorem invF_send {s s0 : Sys} {node : Option Name} {perm : List Name} (rpc' : RPC) (h : InvF s)
    (hsb : sentBack s = node) (hr0 : ∀ m r, s.rpc ≠ .gRet (.task m) r)
    (hr1 : ∀ m r, rpc' ≠ .gRet (.task m) r) (hr2 : ∀ m, rpc' ≠ .sExec m)
    (hr3 : sentBack { s0 with rpc := rpc' } = none)
    (hs : send inp s node perm = some s0) : InvF { s0 with rpc := rpc' } := by
  obtain ⟨⟨_, o2, o3, o4, o5, _⟩, _⟩ := send_outer hs
  have back : ∀ n, InFlight { s0 with rpc := rpc' } n → InFlight s n := by
    intro n a
    exact inFlight_back (s := s) (s' := { s0 with rpc := rpc' }) o3 o5 o4 hr1 n a
  refine ⟨?_, ?_, ?_⟩
  · intro n a
    have a' := back n a
    refine send_keep hs n (h.di n a') ?_
    intro e
    exact h.xx n (by rw [hsb]; exact e) a'
  · intro p a; rw [hr3] at a; cases a
  · intro n a; exact absurd a (hr2 n)

theorem notInFlight_sExec {s : Sys} {n : Name} (h3 : Inv3 inp s) (hr : s.rpc = .sExec n) : ¬ InFlight s n := by
  intro hf
  have hx := h3.x3 n hr
  have hj := h3.j n
  have hp := h3.p0 n
  rcases hf with a | a | a | a
  · have : s.jobQ.count (.task n) ≥ 1 := List.count_pos_iff.mpr a
    omega
  · unfold holding at a; rw [hr] at a; cases a
  · obtain ⟨w, hw⟩ := a; exact h3.xw n w hr hw
  · have := (h3.q1 n a).1
    omega

theorem serialStep_invF {s s' : Sys} {perm : List Name} (h : InvF s) (hC : InvC s) (h3 : Inv3 inp s)
    (hs : serialStep inp s perm = some s') : InvF s' := by
  unfold serialStep at hs
  cases hr : s.rpc with
  | sTop node =>
    simp only [hr] at hs
    have hr0 : ∀ m r, s.rpc ≠ .gRet (.task m) r := by intro m r e; rw [hr] at e; cases e
    split at hs
    · cases hs
      exact h.mono (fun n a => a) (inFlight_back rfl rfl rfl (fun m r e => by cases e))
        (fun p a => by cases a) (fun n a => by cases a)
    · cases hsd : send inp s node perm with
      | none => simp only [hsd] at hs; cases hs
      | some s0 =>
        simp only [hsd] at hs; cases hs
        exact invF_send .sWait h (by unfold sentBack; rw [hr]) hr0 (fun m r e => by cases e) (fun m e => by cases e)
          rfl hsd
  | sWait =>
    simp only [hr] at hs
    have haw : awaiting s := Or.inl hr
    have hr0 : ∀ m r, s.rpc ≠ .gRet (.task m) r := by intro m r e; rw [hr] at e; cases e
    cases hsu : s.susp with
    | none =>
      simp only [hsu] at hs
      obtain ⟨_, o2, o3, o4, o5, _⟩ := dtick_outer hs
      refine h.mono ?_ (inFlight_back o3 o5 o4 (by rw [o2]; exact hr0)) (fun p a => by
        unfold sentBack at *; rw [o2] at a; exact a) (fun n a => by rw [o2] at a; exact a)
      intro n a
      rcases dtick_disp hsu hs with ⟨d1, _⟩ | ⟨m, d1, _⟩
      · rw [d1]; exact a
      · rw [d1]; exact (mem_addDispatched s m n).mpr (Or.inl a)
    | some o =>
      simp only [hsu] at hs
      have raised : ∀ hl : Halt, InvF (raise s hl) := fun hl =>
        h.mono (fun n a => a) (inFlight_back rfl rfl rfl (fun m r e => by cases e))
          (fun p a => by cases a) (fun n a => by cases a)
      cases o with
      | init => cases hs
      | node n =>
        simp only [] at hs
        cases hn : s.nodes n with
        | none => simp only [hn] at hs; cases hs; exact raised _
        | some nd =>
          simp only [hn] at hs
          have hz : ¬ InFlight s n := notInFlight_of_cGo0 h3 (h3.z haw n hsu)
          have hnd : n ∈ s.dispatched := hC.ds n hsu
          have key : ∀ (d : Sel), InvF { applySel inp s n nd d with rpc := .sTop (some n) } := by
            intro d
            obtain ⟨_, _, _, _, _, f6, f7, f8⟩ := applySel_frame inp s n nd d
            have back : ∀ m, InFlight { applySel inp s n nd d with rpc := .sTop (some n) } m → InFlight s m :=
              inFlight_back (s := s) f6 f8 f7 (fun m r e => by cases e)
            refine ⟨?_, ?_, fun m e => by cases e⟩
            · intro m a
              show m ∈ (applySel inp s n nd d).dispatched
              rw [applySel_dispatched]; exact h.di m (back m a)
            · intro p a b
              cases a
              exact hz (back n b)
          cases hd : selDecision inp n nd with
          | go =>
            simp only [hd] at hs; cases hs
            obtain ⟨_, _, _, _, _, f6, f7, f8⟩ := applySel_frame inp s n nd .go
            have back : ∀ m, InFlight { startTask inp (applySel inp s n nd .go) n 0 with rpc := .sExec n } m →
                InFlight s m :=
              inFlight_back (s := s) f6 f8 f7 (fun m r e => by cases e)
            refine ⟨?_, (fun p a => by cases a), ?_⟩
            · intro m a
              show m ∈ (applySel inp s n nd .go).dispatched
              rw [applySel_dispatched]; exact h.di m (back m a)
            · intro m e; cases e
              show n ∈ (applySel inp s n nd .go).dispatched
              rw [applySel_dispatched]; exact hnd
          | assertFail => simp only [hd] at hs; cases hs; exact raised _
          | skipIgn => simp only [hd] at hs; cases hs; exact key _
          | unmet => simp only [hd] at hs; cases hs; exact key _
          | depErr => simp only [hd] at hs; cases hs; exact key _
          | utd => simp only [hd] at hs; cases hs; exact key _
          | runFirst => simp only [hd] at hs; cases hs; exact key _
          | argsErr => simp only [hd] at hs; cases hs; exact key _
      | stopIter =>
        cases hs
        exact h.mono (fun n a => a) (inFlight_back rfl rfl rfl (fun m r e => by cases e))
          (fun p a => by cases a) (fun n a => by cases a)
      | holdOn => cases hs; exact raised _
      | cyclic n => cases hs; exact raised _
      | crash => cases hs; exact raised _
  | sExec n =>
    simp only [hr] at hs
    cases hn : s.nodes n with
    | none =>
      simp only [hn] at hs; cases hs
      exact h.mono (fun n a => a) (inFlight_back rfl rfl rfl (fun m r e => by cases e))
        (fun p a => by cases a) (fun n a => by cases a)
    | some nd =>
      simp only [hn] at hs; cases hs
      obtain ⟨_, _, _, _, _, f6, f7, f8⟩ :=
        processResult_frame inp { s with events := Ev.fin n 0 :: s.events, rpc := .sExec n } n nd
      have back : ∀ m, InFlight { processResult inp { s with events := Ev.fin n 0 :: s.events, rpc := .sExec n } n nd
          with rpc := .sTop (some n) } m → InFlight s m :=
        inFlight_back (s := s) f6 f8 f7 (fun m r e => by cases e)
      refine ⟨?_, ?_, fun m e => by cases e⟩
      · intro m a
        show m ∈ (processResult inp _ n nd).dispatched
        rw [processResult_dispatched]; exact h.di m (back m a)
      · intro p a b
        cases a
        exact notInFlight_sExec h3 hr (back n b)
  | fin =>
    simp only [hr] at hs; cases hs
    exact h.mono (fun n a => a) (inFlight_back rfl rfl rfl (fun m r e => by cases e))
      (fun p a => by cases a) (fun n a => by cases a)
  | gEntry a b => simp only [hr] at hs; cases hs
  | gLoop a b => simp only [hr] at hs; cases hs
  | gWait a => simp only [hr] at hs; cases hs
  | gRet a b => simp only [hr] at hs; cases hs
  | pTop => simp only [hr] at hs; cases hs
  | pJoin => simp only [hr] at hs; cases hs
  | halted => simp only [hr] at hs; cases hs

theorem holding_one {s : Sys} {m : Name} (h : holding s m = 1) : ∃ r, s.rpc = .gRet (.task m) r := by
  unfold holding at h
  split at h
  · rename_i k r hr
    split at h
    · rename_i e; subst e; exact ⟨r, hr⟩
    · cases h
  · cases h

theorem gReturn_back {s : Sys} {job : Job} {ret : Ret} (hr : s.rpc = .gRet job ret) :
    (gReturn s job ret).dispatched = s.dispatched ∧ sentBack (gReturn s job ret) = none ∧
    (∀ n, (gReturn s job ret).rpc ≠ .sExec n) ∧ (∀ m, InFlight (gReturn s job ret) m → InFlight s m) := by
  have hjob : ∀ m, job = .task m → InFlight s m := by
    intro m e; subst e
    exact Or.inr (Or.inl (by unfold holding; rw [hr]; simp))
  have key : ∀ (s' : Sys), (∀ m, Job.task m ∈ s'.jobQ → Job.task m ∈ s.jobQ ∨ job = .task m) →
      (∀ w m, s'.workers w = .running m → s.workers w = .running m) → s'.resQ = s.resQ →
      (∀ m r, s'.rpc ≠ .gRet (.task m) r) → ∀ m, InFlight s' m → InFlight s m := by
    intro s' hj hw hq h0 m a
    rcases a with y | y | y | y
    · rcases hj m y with z | z
      · exact Or.inl z
      · exact hjob m z
    · obtain ⟨r, e⟩ := holding_one y; exact absurd e (h0 m r)
    · obtain ⟨w, hw'⟩ := y; exact Or.inr (Or.inr (Or.inl ⟨w, hw w m hw'⟩))
    · exact Or.inr (Or.inr (Or.inr (by rw [← hq]; exact y)))
  have happ : ∀ m, Job.task m ∈ s.jobQ ++ [job] → Job.task m ∈ s.jobQ ∨ job = .task m := by
    intro m a
    rcases List.mem_append.mp a with z | z
    · exact Or.inl z
    · simp at z; exact Or.inr z.symm
  have hwk : ∀ w m, (setWorker s s.nStarted .idle).workers w = .running m → s.workers w = .running m := by
    intro w m a
    simp only [setWorker] at a
    split at a
    · cases a
    · exact a
  have fin : ∀ (s' : Sys), s'.dispatched = s.dispatched → sentBack s' = none → (∀ n, s'.rpc ≠ .sExec n) →
      (∀ m, InFlight s' m → InFlight s m) →
      s'.dispatched = s.dispatched ∧ sentBack s' = none ∧ (∀ n, s'.rpc ≠ .sExec n) ∧
        (∀ m, InFlight s' m → InFlight s m) := fun _ a b c d => ⟨a, b, c, d⟩
  cases ret with
  | startLoop k =>
    simp only [gReturn]
    split
    · refine ⟨rfl, rfl, ?_, ?_⟩
      · intro n e; cases e
      · exact key _ (fun m a => Or.inl a) (fun w m a => a) rfl (fun m r e => by cases e)
    · split
      · refine ⟨rfl, rfl, ?_, ?_⟩
        · intro n e; cases e
        · exact key _ happ hwk rfl (fun m r e => by cases e)
      · refine ⟨rfl, rfl, ?_, ?_⟩
        · intro n e; cases e
        · exact key _ happ hwk rfl (fun m r e => by cases e)
  | feedLoop k =>
    simp only [gReturn]
    split
    · split
      · refine ⟨rfl, rfl, ?_, ?_⟩
        · intro n e; cases e
        · exact key _ happ (fun w m a => a) rfl (fun m r e => by cases e)
      · refine ⟨rfl, rfl, ?_, ?_⟩
        · intro n e; cases e
        · exact key _ happ (fun w m a => a) rfl (fun m r e => by cases e)
    · refine ⟨rfl, rfl, ?_, ?_⟩
      · intro n e; cases e
      · exact key _ happ (fun w m a => a) rfl (fun m r e => by cases e)

theorem mainStep_invF {s s' : Sys} {perm : List Name} (h : InvF s) (hC : InvC s) (h3 : Inv3 inp s)
    (hs : mainStep inp s perm = some s') : InvF s' := by
  unfold mainStep at hs
  cases hr : s.rpc with
  | gEntry completed ret =>
    simp only [hr] at hs
    split at hs
    · cases hs
      exact h.mono (fun n a => a) (inFlight_back rfl rfl rfl (fun m r e => by cases e))
        (fun p a => by cases a) (fun n a => by cases a)
    · cases hs
      exact h.mono (fun n a => a) (inFlight_back rfl rfl rfl (fun m r e => by cases e))
        (fun p a => by unfold sentBack at *; rw [hr]; exact a) (fun n a => by cases a)
  | gLoop node ret =>
    simp only [hr] at hs
    cases hsd : send inp s node perm with
    | none => simp only [hsd] at hs; cases hs
    | some s0 =>
      simp only [hsd] at hs; cases hs
      exact invF_send (.gWait ret) h (by unfold sentBack; rw [hr]) (by intro m r e; rw [hr] at e; cases e)
        (fun m r e => by cases e) (fun m e => by cases e) rfl hsd
  | gWait ret =>
    simp only [hr] at hs
    have haw : awaiting s := Or.inr ⟨ret, hr⟩
    have hr0 : ∀ m r, s.rpc ≠ .gRet (.task m) r := by intro m r e; rw [hr] at e; cases e
    cases hsu : s.susp with
    | none =>
      simp only [hsu] at hs
      obtain ⟨_, o2, o3, o4, o5, _⟩ := dtick_outer hs
      refine h.mono ?_ (inFlight_back o3 o5 o4 (by rw [o2]; exact hr0)) (fun p a => by
        unfold sentBack at *; rw [o2] at a; exact a) (fun n a => by rw [o2] at a; exact a)
      intro n a
      rcases dtick_disp hsu hs with ⟨d1, _⟩ | ⟨m, d1, _⟩
      · rw [d1]; exact a
      · rw [d1]; exact (mem_addDispatched s m n).mpr (Or.inl a)
    | some o =>
      simp only [hsu] at hs
      have raised : ∀ hl : Halt, InvF (raise s hl) := fun hl =>
        h.mono (fun n a => a) (inFlight_back rfl rfl rfl (fun m r e => by cases e))
          (fun p a => by cases a) (fun n a => by cases a)
      cases o with
      | init => cases hs
      | node n =>
        simp only [] at hs
        cases hn : s.nodes n with
        | none => simp only [hn] at hs; cases hs; exact raised _
        | some nd =>
          simp only [hn] at hs
          have hz : ¬ InFlight s n := notInFlight_of_cGo0 h3 (h3.z haw n hsu)
          have hnd : n ∈ s.dispatched := hC.ds n hsu
          have key : ∀ (d : Sel), InvF { applySel inp s n nd d with rpc := .gLoop (some n) ret } := by
            intro d
            obtain ⟨_, _, _, _, _, f6, f7, f8⟩ := applySel_frame inp s n nd d
            have back : ∀ m, InFlight { applySel inp s n nd d with rpc := .gLoop (some n) ret } m → InFlight s m :=
              inFlight_back (s := s) f6 f8 f7 (fun m r e => by cases e)
            refine ⟨?_, ?_, fun m e => by cases e⟩
            · intro m a
              show m ∈ (applySel inp s n nd d).dispatched
              rw [applySel_dispatched]; exact h.di m (back m a)
            · intro p a b
              cases a
              exact hz (back n b)
          cases hd : selDecision inp n nd with
          | go =>
            simp only [hd] at hs; cases hs
            obtain ⟨_, _, _, _, _, f6, f7, f8⟩ := applySel_frame inp s n nd .go
            refine ⟨?_, (fun p a => by cases a), fun m e => by cases e⟩
            intro m a
            show m ∈ (applySel inp s n nd .go).dispatched
            rw [applySel_dispatched]
            rcases a with y | y | y | y
            · exact h.di m (Or.inl (by rw [← f6]; exact y))
            · obtain ⟨r, e⟩ := holding_one y; cases e; exact hnd
            · obtain ⟨w, hw⟩ := y
              exact h.di m (Or.inr (Or.inr (Or.inl ⟨w, by rw [← f8]; exact hw⟩)))
            · exact h.di m (Or.inr (Or.inr (Or.inr (by rw [← f7]; exact y))))
          | assertFail => simp only [hd] at hs; cases hs; exact raised _
          | skipIgn => simp only [hd] at hs; cases hs; exact key _
          | unmet => simp only [hd] at hs; cases hs; exact key _
          | depErr => simp only [hd] at hs; cases hs; exact key _
          | utd => simp only [hd] at hs; cases hs; exact key _
          | runFirst => simp only [hd] at hs; cases hs; exact key _
          | argsErr => simp only [hd] at hs; cases hs; exact key _
      | holdOn =>
        cases hs
        exact h.mono (fun n a => a) (inFlight_back rfl rfl rfl (fun m r e => by cases e))
          (fun p a => by cases a) (fun n a => by cases a)
      | stopIter =>
        cases hs
        exact h.mono (fun n a => a) (inFlight_back rfl rfl rfl (fun m r e => by cases e))
          (fun p a => by cases a) (fun n a => by cases a)
      | cyclic n => cases hs; exact raised _
      | crash => cases hs; exact raised _
  | gRet job ret =>
    simp only [hr] at hs; cases hs
    obtain ⟨g1, g2, g3, g4⟩ := gReturn_back hr
    exact h.mono (fun n a => by rw [g1]; exact a) g4 (fun p a => by rw [g2] at a; cases a)
      (fun n a => absurd a (g3 n))
  | pTop =>
    simp only [hr] at hs
    have hr0 : ∀ m r, s.rpc ≠ .gRet (.task m) r := by intro m r e; rw [hr] at e; cases e
    split at hs
    · cases hs
      exact h.mono (fun n a => a) (inFlight_back rfl rfl rfl (fun m r e => by cases e))
        (fun p a => by cases a) (fun n a => by cases a)
    · cases hq : s.resQ with
      | nil => simp only [hq] at hs; cases hs
      | cons n rest =>
        simp only [hq] at hs
        cases hn : s.nodes n with
        | none =>
          simp only [hn] at hs; cases hs
          exact h.mono (fun n a => a) (inFlight_back rfl rfl rfl (fun m r e => by cases e))
            (fun p a => by cases a) (fun n a => by cases a)
        | some nd =>
          simp only [hn] at hs; cases hs
          obtain ⟨p1, p2, p3⟩ := notInFlight_popped h3 hq hr0
          obtain ⟨_, _, _, _, _, f6, f7, f8⟩ := processResult_frame inp { s with resQ := rest, rpc := .pTop } n nd
          have back : ∀ m, InFlight { processResult inp { s with resQ := rest, rpc := .pTop } n nd with
              rpc := .gEntry (some n) (.feedLoop (s.freeProc + 1)), freeProc := 0 } m →
              Job.task m ∈ s.jobQ ∨ (∃ w, s.workers w = .running m) ∨ m ∈ rest := by
            intro m a
            rcases a with y | y | y | y
            · exact Or.inl (by rw [← f6]; exact y)
            · obtain ⟨r, e⟩ := holding_one y; cases e
            · obtain ⟨w, hw⟩ := y; exact Or.inr (Or.inl ⟨w, by rw [← f8]; exact hw⟩)
            · exact Or.inr (Or.inr (by
                have : m ∈ (processResult inp { s with resQ := rest, rpc := .pTop } n nd).resQ := y
                rw [f7] at this; exact this))
          refine ⟨?_, ?_, fun m e => by cases e⟩
          · intro m a
            show m ∈ (processResult inp _ n nd).dispatched
            rw [processResult_dispatched]
            apply h.di m
            rcases back m a with y | y | y
            · exact Or.inl y
            · exact Or.inr (Or.inr (Or.inl y))
            · exact Or.inr (Or.inr (Or.inr (by rw [hq]; simp [y])))
          · intro p a b
            cases a
            rcases back n b with y | y | y
            · exact p1 y
            · obtain ⟨w, hw⟩ := y; exact p2 w hw
            · exact p3 y
  | pJoin =>
    simp only [hr] at hs
    split at hs
    · cases hs
      exact h.mono (fun n a => a) (inFlight_back rfl rfl rfl (fun m r e => by cases e))
        (fun p a => by cases a) (fun n a => by cases a)
    · cases hs
  | fin =>
    simp only [hr] at hs; cases hs
    exact h.mono (fun n a => a) (inFlight_back rfl rfl rfl (fun m r e => by cases e))
      (fun p a => by cases a) (fun n a => by cases a)
  | sTop a => simp only [hr] at hs; cases hs
  | sWait => simp only [hr] at hs; cases hs
  | sExec a => simp only [hr] at hs; cases hs
  | halted => simp only [hr] at hs; cases hs

theorem takeStep_invF {s s' : Sys} {w : Nat} (h : InvF s) (hs : takeStep inp s w = some s') : InvF s' := by
  unfold takeStep at hs
  split at hs
  · rename_i hidle
    cases hq : s.jobQ with
    | nil => simp only [hq] at hs; cases hs
    | cons j js =>
      simp only [hq] at hs
      have wk : ∀ (st : WState) w' m, (if w' = w then st else s.workers w') = .running m → st ≠ .running m →
          s.workers w' = .running m := by
        intro st w' m a b
        split at a
        · exact absurd a b
        · exact a
      have hjs : ∀ m, Job.task m ∈ js → Job.task m ∈ s.jobQ := by intro m a; rw [hq]; simp [a]
      cases j with
      | hold =>
        simp only [] at hs; cases hs
        refine h.mono (fun n a => a) ?_ (fun p a => a) (fun n a => a)
        intro m a
        rcases a with y | y | y | y
        · exact Or.inl (hjs m y)
        · exact Or.inr (Or.inl y)
        · exact Or.inr (Or.inr (Or.inl y))
        · exact Or.inr (Or.inr (Or.inr y))
      | stop =>
        simp only [] at hs; cases hs
        refine h.mono (fun n a => a) ?_ (fun p a => a) (fun n a => a)
        intro m a
        rcases a with y | y | y | y
        · exact Or.inl (hjs m y)
        · exact Or.inr (Or.inl y)
        · obtain ⟨w', hw'⟩ := y
          exact Or.inr (Or.inr (Or.inl ⟨w', wk .exited w' m (by simpa [setWorker] using hw') (by simp)⟩))
        · exact Or.inr (Or.inr (Or.inr y))
      | task k =>
        simp only [] at hs; cases hs
        refine h.mono (fun n a => a) ?_ (fun p a => a) (fun n a => a)
        intro m a
        rcases a with y | y | y | y
        · exact Or.inl (hjs m y)
        · exact Or.inr (Or.inl y)
        · obtain ⟨w', hw'⟩ := y
          by_cases e : m = k
          · subst e; exact Or.inl (by rw [hq]; simp)
          · exact Or.inr (Or.inr (Or.inl ⟨w', wk (.running k) w' m (by simpa [setWorker, startTask] using hw')
              (by intro x; cases x; exact e rfl)⟩))
        · exact Or.inr (Or.inr (Or.inr y))
  · cases hs

theorem doneStep_invF {s s' : Sys} {w : Nat} (h : InvF s) (hs : doneStep s w = some s') : InvF s' := by
  unfold doneStep at hs
  cases hw : s.workers w with
  | running k =>
    simp only [hw] at hs; cases hs
    refine h.mono (fun n a => a) ?_ (fun p a => a) (fun n a => a)
    intro m a
    rcases a with y | y | y | y
    · exact Or.inl y
    · exact Or.inr (Or.inl y)
    · obtain ⟨w', hw'⟩ := y
      simp only [setWorker] at hw'
      split at hw'
      · cases hw'
      · exact Or.inr (Or.inr (Or.inl ⟨w', hw'⟩))
    · have : m ∈ s.resQ ++ [k] := y
      rcases List.mem_append.mp this with z | z
      · exact Or.inr (Or.inr (Or.inr z))
      · simp at z; subst z; exact Or.inr (Or.inr (Or.inl ⟨w, hw⟩))
  | notStarted => simp only [hw] at hs; cases hs
  | idle => simp only [hw] at hs; cases hs
  | exited => simp only [hw] at hs; cases hs

theorem reach_invF {s : Sys} (h : Reach inp s) : InvF s := by
  induction h with
  | init => exact init_invF inp
  | @next s0 s1 c hp hs ih =>
    cases c with
    | main perm => exact serialStep_invF ih (reach_invC hp) (reach_inv3 hp) hs
    | take w => cases hs
    | done w => cases hs

theorem preach_invF {s : Sys} (h : PReach inp s) : InvF s := by
  induction h with
  | init => exact init_invF inp
  | @next s0 s1 c hp hs ih =>
    cases c with
    | main perm => exact mainStep_invF ih (preach_invC hp) (preach_inv hp).2 hs
    | take w => exact takeStep_invF ih hs
    | done w => exact doneStep_invF ih hs

end DoitModel.Run
