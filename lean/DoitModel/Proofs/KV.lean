import DoitModel.Model.KV
/-! Helper lemmas for C07: each backend step refines the specification step under the backend's
    cache-consistency invariant. -/
namespace DoitModel.KV

/-- generic lift: a step-wise simulation (invariant `Wf`, abstraction `abs`) gives equal outputs and
    a final state whose abstraction is the specification's final state, for every op list -/
theorem runWith_refines {S : Type} (step : S → Op → S × Out) (Wf : S → Prop) (abs : S → Map)
    (hstep : ∀ s op, Wf s → Wf (step s op).1 ∧ abs (step s op).1 = (specStep (abs s) op).1 ∧
                      (step s op).2 = (specStep (abs s) op).2)
    (ops : List Op) (s : S) (h : Wf s) :
    (runWith step s ops).2 = (runWith specStep (abs s) ops).2 ∧
    abs (runWith step s ops).1 = (runWith specStep (abs s) ops).1 ∧ Wf (runWith step s ops).1 := by
  unfold runWith
  suffices ∀ (acc : List Out) (m : Map), abs s = m →
      ((ops.foldl (fun (st : S × List Out) op => let r := step st.1 op; (r.1, st.2 ++ [r.2])) (s, acc)).2 =
       (ops.foldl (fun (st : Map × List Out) op => let r := specStep st.1 op; (r.1, st.2 ++ [r.2])) (m, acc)).2) ∧
      (abs (ops.foldl (fun (st : S × List Out) op => let r := step st.1 op; (r.1, st.2 ++ [r.2])) (s, acc)).1 =
       (ops.foldl (fun (st : Map × List Out) op => let r := specStep st.1 op; (r.1, st.2 ++ [r.2])) (m, acc)).1) ∧
      Wf (ops.foldl (fun (st : S × List Out) op => let r := step st.1 op; (r.1, st.2 ++ [r.2])) (s, acc)).1
    from this [] (abs s) rfl
  induction ops generalizing s with
  | nil => intro acc m hm; exact ⟨rfl, hm, h⟩
  | cons op ops ih =>
    intro acc m hm
    obtain ⟨w, a, o⟩ := hstep s op h
    simp only [List.foldl_cons]
    rw [o, ← hm]
    exact ih _ w _ _ a

/-! ### JsonDB -/
theorem json_step_refines (s : JsonSt) (op : Op) (_ : True) :
    True ∧ jsonAbs (jsonStep s op).1 = (specStep (jsonAbs s) op).1 ∧
    (jsonStep s op).2 = (specStep (jsonAbs s) op).2 := by
  cases op <;> simp [jsonStep, specStep, jsonAbs]

/-! ### DbmDB -/
structure DbmWf (s : Dbm) : Prop where
  dirtyCached : ∀ t, s.dirty t = true → (s.cache t).isSome
  cleanAgree : ∀ t r, s.cache t = some r → s.dirty t = false → s.dbm t = some r

theorem dbmLoad_wf (s : Dbm) (t : T) (h : DbmWf s) : DbmWf (dbmLoad s t) := by
  obtain ⟨h1, h2⟩ := h
  unfold dbmLoad
  cases hc : s.cache t with
  | some r => exact ⟨h1, h2⟩
  | none =>
    cases hd : s.dbm t with
    | none => exact ⟨h1, h2⟩
    | some r =>
      refine ⟨?_, ?_⟩
      · intro x; simp only [Map.upd]; grind
      · intro x r'; simp only [Map.upd]; grind

theorem dbmLoad_abs (s : Dbm) (t : T) : dbmAbs (dbmLoad s t) = dbmAbs s := by
  unfold dbmLoad
  cases hc : s.cache t with
  | some r => rfl
  | none =>
    cases hd : s.dbm t with
    | none => rfl
    | some r => funext x; simp only [dbmAbs, Map.upd]; grind

theorem dbmLoad_cache (s : Dbm) (t : T) : (dbmLoad s t).cache t = dbmAbs s t := by
  unfold dbmLoad dbmAbs
  cases hc : s.cache t with
  | some r => simp [hc]
  | none =>
    cases hd : s.dbm t with
    | none => simp [hc]
    | some r => simp [Map.upd]

theorem dbmLoad_dbm (s : Dbm) (t : T) : (dbmLoad s t).dbm = s.dbm := by
  unfold dbmLoad; split <;> try rfl
  split <;> rfl

theorem dbmLoad_dirty (s : Dbm) (t : T) : (dbmLoad s t).dirty = s.dirty := by
  unfold dbmLoad; split <;> try rfl
  split <;> rfl

theorem dbm_step_refines (s : Dbm) (op : Op) (h : DbmWf s) :
    DbmWf (dbmStep s op).1 ∧ dbmAbs (dbmStep s op).1 = (specStep (dbmAbs s) op).1 ∧
    (dbmStep s op).2 = (specStep (dbmAbs s) op).2 := by
  cases op with
  | set t k v =>
    have hw := dbmLoad_wf s t h
    obtain ⟨h1, h2⟩ := hw
    have ha := dbmLoad_abs s t
    have hc := dbmLoad_cache s t
    refine ⟨⟨?_, ?_⟩, ?_, rfl⟩
    · intro x; simp only [dbmStep, Map.upd]; grind
    · intro x r; simp only [dbmStep, Map.upd]; grind
    · funext x
      simp only [dbmStep, specStep]
      by_cases hx : x = t
      · subst hx
        simp only [dbmAbs, Map.upd, if_true]
        rw [hc]; rfl
      · have := congrFun ha x
        simp only [dbmAbs] at this
        simp only [dbmAbs, Map.upd, hx, if_false]
        exact this
  | get t k =>
    refine ⟨dbmLoad_wf s t h, ?_, ?_⟩
    · simp only [dbmStep, specStep]; exact dbmLoad_abs s t
    · simp only [dbmStep, specStep, dbmLoad_cache]
  | has t =>
    obtain ⟨h1, h2⟩ := h
    refine ⟨⟨h1, h2⟩, rfl, ?_⟩
    simp only [dbmStep, specStep, dbmAbs]
    cases hc : s.cache t with
    | some r =>
      cases hdt : s.dirty t with
      | true => simp
      | false => simp [h2 t r hc hdt]
    | none =>
      have : s.dirty t = false := by
        cases hdt : s.dirty t with
        | false => rfl
        | true => have := h1 t hdt; simp [hc] at this
      simp [this]
  | remove t =>
    obtain ⟨h1, h2⟩ := h
    refine ⟨⟨?_, ?_⟩, ?_, rfl⟩
    · intro x; simp only [dbmStep, Map.upd]; grind
    · intro x r; simp only [dbmStep, Map.upd]; grind
    · funext x; simp only [dbmStep, specStep, dbmAbs, Map.upd]; grind
  | removeAll =>
    refine ⟨⟨?_, ?_⟩, ?_, rfl⟩
    · intro x hx; simp [dbmStep] at hx
    · intro x r hx; simp [dbmStep, Map.empty] at hx
    · funext x; simp [dbmStep, specStep, dbmAbs, Map.empty]
  | reopen =>
    obtain ⟨h1, h2⟩ := h
    refine ⟨⟨?_, ?_⟩, ?_, rfl⟩
    · intro x hx; simp [dbmStep] at hx
    · intro x r hx; simp [dbmStep, Map.empty] at hx
    · funext x; simp only [dbmStep, specStep, dbmAbs, Map.empty]; grind

theorem dbmOpen_wf (m : Map) : DbmWf (dbmOpen m) :=
  ⟨by intro t h; simp [dbmOpen] at h, by intro t r h; simp [dbmOpen, Map.empty] at h⟩

theorem dbmOpen_abs (m : Map) : dbmAbs (dbmOpen m) = m := by
  funext t; simp [dbmAbs, dbmOpen, Map.empty]

/-! ### SqliteDB -/
structure SqlWf (s : Sql) : Prop where
  dirtyCached : ∀ t, s.dirty t = true → (s.cache t).isSome
  cleanAgree : ∀ t r, s.cache t = some r → s.dirty t = false → r = (s.txn t).getD []

theorem sql_step_refines (s : Sql) (op : Op) (h : SqlWf s) :
    SqlWf (sqlStep s op).1 ∧ sqlAbs (sqlStep s op).1 = (specStep (sqlAbs s) op).1 ∧
    (sqlStep s op).2 = (specStep (sqlAbs s) op).2 := by
  obtain ⟨h1, h2⟩ := h
  cases op with
  | set t k v =>
    refine ⟨⟨?_, ?_⟩, ?_, rfl⟩
    · intro x; simp only [sqlStep, Map.upd]; grind
    · intro x r; simp only [sqlStep, Map.upd]; grind
    · funext x
      simp only [sqlStep, specStep, sqlAbs, Map.upd, sqlData]
      by_cases hx : x = t
      · subst hx
        simp only [if_true]
        cases hc : s.cache x with
        | none =>
          have : s.dirty x = false := by
            cases hdt : s.dirty x with
            | false => rfl
            | true => have := h1 x hdt; simp [hc] at this
          simp [this]
        | some r =>
          cases hdt : s.dirty x with
          | true => simp [hc]
          | false => simp [h2 x r hc hdt]
      · simp [hx]
  | get t k =>
    simp only [sqlStep, specStep]
    cases hc : s.cache t with
    | some r =>
      refine ⟨⟨h1, h2⟩, rfl, ?_⟩
      simp only [sqlAbs]
      cases hdt : s.dirty t with
      | true => simp [hc]
      | false =>
        have := h2 t r hc hdt
        cases htx : s.txn t with
        | none => simp [htx] at this; simp [this, Rcd.get]
        | some r' => simp [htx] at this; simp [this]
    | none =>
      have hd : s.dirty t = false := by
        cases hdt : s.dirty t with
        | false => rfl
        | true => have := h1 t hdt; simp [hc] at this
      refine ⟨⟨?_, ?_⟩, ?_, ?_⟩
      · intro x; simp only [Map.upd]; grind
      · intro x r'; simp only [Map.upd, sqlData]; grind
      · funext x; simp only [sqlAbs, Map.upd]; grind
      · simp only [sqlAbs, hd, sqlData]
        cases htx : s.txn t with
        | none => simp [Rcd.get]
        | some r' => simp
  | has t =>
    refine ⟨⟨h1, h2⟩, rfl, ?_⟩
    simp only [sqlStep, specStep, sqlAbs]
    cases hdt : s.dirty t with
    | true =>
      have := h1 t hdt
      simp [this]
    | false => simp
  | remove t =>
    refine ⟨⟨?_, ?_⟩, ?_, rfl⟩
    · intro x; simp only [sqlStep, Map.upd]; grind
    · intro x r; simp only [sqlStep, Map.upd]; grind
    · funext x; simp only [sqlStep, specStep, sqlAbs, Map.upd]; grind
  | removeAll =>
    refine ⟨⟨?_, ?_⟩, ?_, rfl⟩
    · intro x hx; simp [sqlStep] at hx
    · intro x r hx; simp [sqlStep, Map.empty] at hx
    · funext x; simp [sqlStep, specStep, sqlAbs, Map.empty]
  | reopen =>
    refine ⟨⟨?_, ?_⟩, ?_, rfl⟩
    · intro x hx; simp [sqlStep] at hx
    · intro x r hx; simp [sqlStep, Map.empty] at hx
    · funext x; simp [sqlStep, specStep, sqlAbs]

theorem sqlOpen_wf (m : Map) : SqlWf (sqlOpen m) :=
  ⟨by intro t h; simp [sqlOpen] at h, by intro t r h; simp [sqlOpen, Map.empty] at h⟩

theorem sqlOpen_abs (m : Map) : sqlAbs (sqlOpen m) = m := by
  funext t; simp [sqlAbs, sqlOpen]

/-- in the specification a task that is absent stays absent along ops that never `set` it -/
theorem spec_absent_preserved (mid : List Op) (t : T) (hmid : ∀ op ∈ mid, ∀ k v, op ≠ Op.set t k v) :
    ∀ (m : Map) (acc : List Out), m t = none →
      ((mid.foldl (fun (st : Map × List Out) op => ((specStep st.1 op).1, st.2 ++ [(specStep st.1 op).2])) (m, acc)).1) t = none := by
  induction mid with
  | nil => intro m acc h; simpa using h
  | cons op mid ih =>
    intro m acc h
    simp only [List.foldl_cons]
    apply ih (fun o ho => hmid o (List.mem_cons_of_mem _ ho))
    have hop := hmid op (List.mem_cons_self ..)
    cases op with
    | set t' k v =>
      have : t ≠ t' := by intro e; subst e; exact hop k v rfl
      simp [specStep, Map.upd, this, h]
    | get _ _ => simpa [specStep] using h
    | has _ => simpa [specStep] using h
    | remove t' => simp only [specStep, Map.upd]; split <;> simp_all
    | removeAll => simp [specStep, Map.empty]
    | reopen => simpa [specStep] using h

end DoitModel.KV
