import DoitModel.Model.Intro
import DoitModel.Proofs.StatusLog
/-! # C20 helper lemmas: the frame relation of the introspection commands, `get_log` agreement, reasons -/
namespace DoitModel.Intro
open DoitModel.Status

/-- `s'` differs from `s` at most by the removal of records whose checker differs from the configured one (and by the
    absorbing crash flag) -/
structure Frame (s s' : St) : Prop where
  fs : s'.fs = s.fs
  defs : s'.defs = s.defs
  checker : s'.checker = s.checker
  clock : s'.clock = s.clock
  rcd : ∀ k, s'.rcd k = s.rcd k ∨ (checkerChanged s.checker (s.rcd k) = true ∧ s'.rcd k = Rcd.empty)
  shadow : ∀ k, s'.shadow k = s.shadow k ∨ (checkerChanged s.checker (s.rcd k) = true ∧ s'.shadow k = none)

theorem cc_empty (c : Checker) : checkerChanged c Rcd.empty = false := by simp [checkerChanged, Rcd.empty]

theorem Frame.refl (s : St) : Frame s s := ⟨rfl, rfl, rfl, rfl, fun _ => Or.inl rfl, fun _ => Or.inl rfl⟩

theorem Frame.trans {a b c : St} (h1 : Frame a b) (h2 : Frame b c) : Frame a c := by
  refine ⟨h2.fs.trans h1.fs, h2.defs.trans h1.defs, h2.checker.trans h1.checker, h2.clock.trans h1.clock, ?_, ?_⟩
  · intro k
    rcases h1.rcd k with e1 | ⟨cc1, e1⟩
    · rcases h2.rcd k with e2 | ⟨cc2, e2⟩
      · exact Or.inl (e2.trans e1)
      · rw [h1.checker, e1] at cc2; exact Or.inr ⟨cc2, e2⟩
    · rcases h2.rcd k with e2 | ⟨_, e2⟩
      · exact Or.inr ⟨cc1, e2.trans e1⟩
      · exact Or.inr ⟨cc1, e2⟩
  · intro k
    rcases h1.shadow k with e1 | ⟨cc1, e1⟩
    · rcases h2.shadow k with e2 | ⟨cc2, e2⟩
      · exact Or.inl (e2.trans e1)
      · rcases h1.rcd k with r1 | ⟨cc1, _⟩
        · rw [h1.checker, r1] at cc2; exact Or.inr ⟨cc2, e2⟩
        · exact Or.inr ⟨cc1, e2⟩
    · rcases h2.shadow k with e2 | ⟨_, e2⟩
      · exact Or.inr ⟨cc1, e2.trans e1⟩
      · exact Or.inr ⟨cc1, e2⟩

theorem frame_crashed (s : St) : Frame s { s with crashed := true } :=
  ⟨rfl, rfl, rfl, rfl, fun _ => Or.inl rfl, fun _ => Or.inl rfl⟩

theorem frame_erase {s : St} {t : Name} (h : checkerChanged s.checker (s.rcd t) = true) : Frame s (erase s t) := by
  refine ⟨rfl, rfl, rfl, rfl, ?_, ?_⟩
  · intro k
    by_cases hk : k = t
    · subst hk; exact Or.inr ⟨h, by simp [erase]⟩
    · exact Or.inl (by simp [erase, hk])
  · intro k
    by_cases hk : k = t
    · subst hk; exact Or.inr ⟨h, by simp [erase]⟩
    · exact Or.inl (by simp [erase, hk])

theorem removesRecord_cc {c : Checker} {d : TaskDef} {r : Rcd} {fs : FS} {resOf : Name → Option Res}
    (h : removesRecord c d r fs resOf = true) : checkerChanged c r = true := by
  simp only [removesRecord, Bool.and_eq_true] at h
  exact h.2

theorem frame_peek (s : St) (t : Name) : Frame s (step true s (.peek t)) := by
  simp only [step]
  split
  · exact Frame.refl s
  · split
    · exact frame_crashed s
    · simp only [peek]
      split
      · next h => exact frame_erase (removesRecord_cc h)
      · exact Frame.refl s

theorem frame_info (s : St) (t : Name) : Frame s (step true s (.info t)) := by
  simp only [step]
  split
  · exact Frame.refl s
  · simp only [info]
    split
    · exact Frame.refl s
    · split
      · exact frame_crashed s
      · split
        · next h => exact frame_erase h
        · exact Frame.refl s

theorem frame_infoOne (s : St) (t : Name) : Frame s (infoOne s t) := by
  simp only [infoOne]
  split
  · exact Frame.refl s
  · split
    · exact frame_crashed s
    · split
      · next h => exact frame_erase h
      · exact Frame.refl s

theorem frame_listOne (s : St) (t : Name) : Frame s (listOne s t) := by
  simp only [listOne]
  split
  · exact Frame.refl s
  · exact frame_peek s t

theorem frame_listSt (s : St) (ts : List Name) : Frame s (listSt s ts) := by
  induction ts generalizing s with
  | nil => exact Frame.refl s
  | cons t rest ih =>
    simp only [listSt, List.foldl_cons]
    exact Frame.trans (frame_listOne s t) (ih (listOne s t))

theorem frame_exec (cmd : Cmd) (hro : cmd.readOnly = true) (s : St) : Frame s (cmd.exec s) := by
  cases cmd with
  | list status ts =>
    cases status
    · exact Frame.refl s
    · exact frame_listSt s ts
  | info t hide =>
    cases hide
    · exact frame_infoOne s t
    · exact Frame.refl s
  | clean dry forget ts =>
    simp only [Cmd.readOnly] at hro
    simp only [Cmd.exec, hro, Bool.not_true, Bool.and_false, Bool.false_eq_true, if_false]
    exact Frame.refl s
  | help => exact Frame.refl s
  | dumpdb => exact Frame.refl s
  | tabcompletion => exact Frame.refl s

/-- without a record of another checker the frame is the identity on the DB -/
theorem Frame.same {s s' : St} (h : Frame s s') (hcc : ∀ k, checkerChanged s.checker (s.rcd k) = false) :
    s'.rcd = s.rcd ∧ s'.shadow = s.shadow := by
  constructor
  · funext k
    rcases h.rcd k with e | ⟨cc, _⟩
    · exact e
    · rw [hcc k] at cc; cases cc
  · funext k
    rcases h.shadow k with e | ⟨cc, _⟩
    · exact e
    · rw [hcc k] at cc; cases cc

/-- a record whose checker differs in a framed state had that checker before -/
theorem Frame.cc_back {s0 s : St} (h : Frame s0 s) {t : Name} (hc : checkerChanged s.checker (s.rcd t) = true) :
    checkerChanged s0.checker (s0.rcd t) = true := by
  rcases h.rcd t with e | ⟨cc, e⟩
  · rw [h.checker, e] at hc; exact hc
  · exact cc

theorem removesAt_cc {g : Bool} {s : St} {t : Name} (h : removesAt g s t = true) :
    checkerChanged s.checker (s.rcd t) = true := by
  cases g
  · simp only [removesAt, Bool.false_eq_true, if_false, Bool.and_eq_true] at h
    exact removesRecord_cc h.2
  · simp only [removesAt, if_true, Bool.and_eq_true] at h
    exact h.2

theorem listRemoves_cc (s0 s : St) (hf : Frame s0 s) (ts : List Name) :
    ∀ t, t ∈ listRemoves s ts → checkerChanged s0.checker (s0.rcd t) = true := by
  induction ts generalizing s with
  | nil => intro t ht; simp [listRemoves] at ht
  | cons a rest ih =>
    intro t ht
    simp only [listRemoves, List.mem_append] at ht
    rcases ht with h | h
    · split at h
      · next hc =>
        simp only [List.mem_singleton] at h
        subst h
        simp only [Bool.and_eq_true] at hc
        exact hf.cc_back (removesAt_cc hc.2)
      · simp at h
    · exact ih (listOne s a) (Frame.trans hf (frame_listOne s a)) t h

theorem removes_cc (cmd : Cmd) (hro : cmd.readOnly = true) (s : St) :
    ∀ t, t ∈ cmd.removes s → checkerChanged s.checker (s.rcd t) = true := by
  intro t ht
  cases cmd with
  | list status ts =>
    cases status
    · simp [Cmd.removes] at ht
    · exact listRemoves_cc s s (Frame.refl s) ts t ht
  | info a hide =>
    cases hide
    · simp only [Cmd.removes] at ht
      split at ht
      · next hc =>
        simp only [List.mem_singleton] at ht
        subst ht
        simp only [Bool.and_eq_true] at hc
        exact removesAt_cc hc.2
      · simp at ht
    · simp [Cmd.removes] at ht
  | clean dry forget ts =>
    simp only [Cmd.readOnly] at hro
    simp [Cmd.removes, hro] at ht
  | help => simp [Cmd.removes] at ht
  | dumpdb => simp [Cmd.removes] at ht
  | tabcompletion => simp [Cmd.removes] at ht

/-! ## `get_log=True` against `get_log=False` -/

/-- exactly the situations in which `get_status(get_log=True).status` differs from `get_status(get_log=False).status`
    (no saved state of the wrong shape): a file dependency is missing and either (a) no early exit is taken, the checker
    is unchanged and another dependency is listed as changed -- the later `changed_file_dep` reason overwrites `error`
    with `run`; or (b) the `get_log=False` call leaves early with `run` (false uptodate item, no dependencies, missing
    target, changed checker) while the `get_log=True` call goes on, meets the missing file and, no dependency being
    listed as changed, ends with `error`. -/
def logDisagree (c : Checker) (d : TaskDef) (r : Rcd) (fs : FS) (resOf : Name → Option Res) : Bool :=
  d.deps.any (depMissing fs) &&
    ((!earlyRun d r.getValues resOf fs && !checkerChanged c r && d.deps.any (depListed c r fs))
     || ((earlyRun d r.getValues resOf fs || checkerChanged c r) && !d.deps.any (depListed c (logRcd c r) fs)))

theorem depIs_crash_empty (c : Checker) (fs : FS) (deps : List Path) :
    deps.any (depIs .crash c Rcd.empty fs) = false := by
  rw [List.any_eq_false]
  intro p _
  simp only [depIs]
  cases fs p <;> simp [depVerdict, Rcd.empty]

theorem notInPrev_eq (r : Rcd) (p : Path) : notInPrev r p = notSaved r p := rfl

theorem depRaises_eq (c : Checker) (r : Rcd) (fs : FS) (p : Path) : depRaises c r fs p = depIs .crash c r fs p := by
  simp only [depRaises, depIs, depVerdict, notInPrev_eq]
  cases fs p with
  | none => rfl
  | some cur =>
    cases r.fstate p with
    | none => simp
    | some st => cases notSaved r p <;> simp

theorem depListed_eq (c : Checker) (r : Rcd) (fs : FS) (p : Path) : depListed c r fs p = depIs .modified c r fs p := by
  simp only [depListed, depIs, depVerdict, notInPrev_eq]
  cases fs p with
  | none => rfl
  | some cur =>
    cases r.fstate p with
    | none => simp
    | some st => cases notSaved r p <;> simp

theorem depRaises_le (c : Checker) (r : Rcd) (fs : FS) (p : Path) (h : depRaises c r fs p = true) :
    depIs .crash c r fs p = true := by
  rw [← depRaises_eq]; exact h

theorem any_depRaises_false {c : Checker} {r : Rcd} {fs : FS} {deps : List Path}
    (h : deps.any (depIs .crash c r fs) = false) : deps.any (depRaises c r fs) = false := by
  rw [List.any_eq_false] at h ⊢
  intro p hp hr
  exact h p hp (depRaises_le c r fs p hr)

theorem depRaises_empty (c : Checker) (fs : FS) (deps : List Path) :
    deps.any (depRaises c Rcd.empty fs) = false := any_depRaises_false (depIs_crash_empty c fs deps)

theorem listed_of_modified {c : Checker} {r : Rcd} {fs : FS} {p : Path} (h : depIs .modified c r fs p = true) :
    depListed c r fs p = true := by
  rw [depListed_eq]; exact h

theorem listed_cases {c : Checker} {r : Rcd} {fs : FS} {p : Path} (h : depListed c r fs p = true) :
    depIs .modified c r fs p = true ∨ notInPrev r p = true := by
  left; rw [← depListed_eq]; exact h

theorem notInPrev_depsChanged {r : Rcd} {deps : List Path} {p : Path} (hp : p ∈ deps) (h : notInPrev r p = true) :
    depsChanged true r deps = true := by
  simp only [notInPrev] at h
  simp only [depsChanged]
  cases hd : r.deps with
  | none => simp [hd] at h
  | some prev =>
    simp only [hd, Bool.not_eq_true', decide_eq_false_iff_not] at h
    simp only [if_true, sameSet, Bool.not_eq_true', Bool.and_eq_false_iff]
    right
    rw [List.all_eq_false]
    exact ⟨p, hp, by simpa using h⟩

theorem any_crash_cases {c : Checker} {r : Rcd} {fs : FS} {deps : List Path}
    (h : deps.any (depIs .crash c r fs) = true) :
    deps.any (depRaises c r fs) = true ∨ depsChanged true r deps = true := by
  rw [List.any_eq_true] at h
  obtain ⟨p, hp, h⟩ := h
  cases hn : notInPrev r p with
  | true => right; exact notInPrev_depsChanged hp hn
  | false =>
    left
    rw [List.any_eq_true]
    refine ⟨p, hp, ?_⟩
    rw [depRaises_eq]; exact h

theorem any_listed_of_modified {c : Checker} {r : Rcd} {fs : FS} {deps : List Path}
    (h : deps.any (depIs .modified c r fs) = true) : deps.any (depListed c r fs) = true := by
  rw [List.any_eq_true] at h ⊢
  obtain ⟨p, hp, h⟩ := h
  exact ⟨p, hp, listed_of_modified h⟩

theorem any_listed_cases {c : Checker} {r : Rcd} {fs : FS} {deps : List Path}
    (h : deps.any (depListed c r fs) = true) :
    deps.any (depIs .modified c r fs) = true ∨ depsChanged true r deps = true := by
  rw [List.any_eq_true] at h
  obtain ⟨p, hp, h⟩ := h
  rcases listed_cases h with h | h
  · left; rw [List.any_eq_true]; exact ⟨p, hp, h⟩
  · right; exact notInPrev_depsChanged hp h

/-- the tree before the `fix:` commit e6acbba: the two statuses differed exactly in `logDisagree` -/
theorem pinned_getlog_agrees_iff (c : Checker) (d : TaskDef) (r : Rcd) (fs : FS) (resOf : Name → Option Res)
    (hnc : d.deps.any (depIs .crash c r fs) = false) :
    logStatusPinned c d r fs resOf = statusOf true c d r fs resOf ↔ logDisagree c d r fs resOf = false := by
  unfold logStatusPinned statusOf fileVerdict logDisagree logRcd
  cases hcc : checkerChanged c r with
  | true =>
    simp only [if_true, Bool.or_true, Bool.true_or, depRaises_empty, hnc]
    cases earlyRun d r.getValues resOf fs <;>
    cases d.deps.any (depMissing fs) <;>
    cases d.deps.any (depListed c Rcd.empty fs) <;> simp
  | false =>
    have h1 := @any_listed_of_modified c r fs d.deps
    have h2 := @any_listed_cases c r fs d.deps
    simp only [Bool.false_eq_true, if_false, Bool.or_false, hnc, any_depRaises_false hnc]
    generalize d.deps.any (depIs .modified c r fs) = Mo at h1 h2 ⊢
    generalize d.deps.any (depListed c r fs) = L at h1 h2 ⊢
    generalize depsChanged true r d.deps = DC at h2 ⊢
    cases earlyRun d r.getValues resOf fs <;>
    cases d.deps.any (depMissing fs) <;>
    cases Mo <;> cases L <;> cases DC <;> simp_all

/-- **the present tree**: without a saved state of the wrong shape, `get_status(get_log=True).status` *is*
    `get_status(get_log=False).status` -/
theorem getlog_agrees (c : Checker) (d : TaskDef) (r : Rcd) (fs : FS) (resOf : Name → Option Res)
    (hnc : d.deps.any (depIs .crash c r fs) = false) :
    logStatus c d r fs resOf = statusOf true c d r fs resOf := by
  unfold logStatus statusOf fileVerdict logRcd
  cases hcc : checkerChanged c r with
  | true =>
    simp only [if_true, Bool.or_true, depRaises_empty, Bool.false_eq_true, if_false]
    cases earlyRun d r.getValues resOf fs <;> simp
  | false =>
    have h1 := @any_listed_of_modified c r fs d.deps
    have h2 := @any_listed_cases c r fs d.deps
    simp only [Bool.false_eq_true, if_false, Bool.or_false, hnc, any_depRaises_false hnc]
    generalize d.deps.any (depIs .modified c r fs) = Mo at h1 h2 ⊢
    generalize d.deps.any (depListed c r fs) = L at h1 h2 ⊢
    generalize depsChanged true r d.deps = DC at h2 ⊢
    cases earlyRun d r.getValues resOf fs <;>
    cases d.deps.any (depMissing fs) <;>
    cases Mo <;> cases L <;> cases DC <;> simp_all

/-- `doit info` and `doit run` agree on which tasks are up-to-date, in every state (whatever is saved) -/
theorem logStatus_upToDate_iff (c : Checker) (d : TaskDef) (r : Rcd) (fs : FS) (resOf : Name → Option Res) :
    logStatus c d r fs resOf = .upToDate ↔ statusOf true c d r fs resOf = .upToDate := by
  unfold logStatus statusOf fileVerdict logRcd
  cases hcc : checkerChanged c r with
  | true =>
    simp only [if_true, Bool.or_true]
    cases earlyRun d r.getValues resOf fs <;>
    cases d.deps.any (depRaises c Rcd.empty fs) <;> simp
  | false =>
    have h1 := @any_listed_of_modified c r fs d.deps
    have h2 := @any_listed_cases c r fs d.deps
    have h3 : d.deps.any (depRaises c r fs) = true → d.deps.any (depIs .crash c r fs) = true := by
      intro h
      cases hc : d.deps.any (depIs .crash c r fs) with
      | true => rfl
      | false => rw [any_depRaises_false hc] at h; cases h
    have h4 := @any_crash_cases c r fs d.deps
    simp only [Bool.false_eq_true, if_false, Bool.or_false]
    generalize d.deps.any (depIs .modified c r fs) = Mo at h1 h2 ⊢
    generalize d.deps.any (depListed c r fs) = L at h1 h2 ⊢
    generalize depsChanged true r d.deps = DC at h2 h4 ⊢
    generalize d.deps.any (depIs .crash c r fs) = Cr at h3 h4 ⊢
    generalize d.deps.any (depRaises c r fs) = Ra at h3 h4 ⊢
    cases earlyRun d r.getValues resOf fs <;>
    cases d.deps.any (depMissing fs) <;>
    cases Cr <;> cases Ra <;> cases Mo <;> cases L <;> cases DC <;> simp_all

/-! ## reasons -/

theorem filter_isEmpty {α} (l : List α) (f : α → Bool) : (l.filter f).isEmpty = !l.any f := by
  induction l with
  | nil => rfl
  | cons a rest ih =>
    simp only [List.filter_cons, List.any_cons]
    cases f a <;> simp [ih]

theorem depsChanged_lists (r : Rcd) (deps : List Path) (h : depsChanged true r deps = true) :
    (((prevDeps r).filter (· ∉ deps)).isEmpty && (deps.filter (· ∉ prevDeps r)).isEmpty) = false := by
  simp only [depsChanged] at h
  cases hd : r.deps with
  | none => simp [hd] at h
  | some prev =>
    simp only [hd, if_true] at h
    simp only [prevDeps, hd, Option.getD_some, filter_isEmpty]
    simp only [sameSet] at h
    cases h1 : prev.all (· ∈ deps) with
    | false =>
      have : prev.any (fun x => decide (x ∉ deps)) = true := by
        rw [List.all_eq_false] at h1
        obtain ⟨x, hx, hx'⟩ := h1
        rw [List.any_eq_true]
        exact ⟨x, hx, by simpa using hx'⟩
      rw [this]; rfl
    | true =>
      simp only [h1, Bool.true_and, Bool.not_eq_eq_eq_not, Bool.not_true] at h
      have : deps.any (fun x => decide (x ∉ prev)) = true := by
        rw [List.all_eq_false] at h
        obtain ⟨x, hx, hx'⟩ := h
        rw [List.any_eq_true]
        exact ⟨x, hx, by simpa using hx'⟩
      rw [this]; simp only [Bool.not_true, Bool.and_false]

/-- `info` prints no reason exactly when it reports `up-to-date` -/
theorem reasons_isEmpty_iff (c : Checker) (d : TaskDef) (r : Rcd) (fs : FS) (resOf : Name → Option Res)
    (hnc : d.deps.any (depRaises c (logRcd c r) fs) = false) :
    (reasonsOf c d r fs resOf).isEmpty = true ↔ logStatus c d r fs resOf = .upToDate := by
  have hck : (ckReason c r).isNone = !checkerChanged c r := by
    simp only [checkerChanged, ckReason]
    cases r.checker with
    | none => rfl
    | some c' => by_cases h : c' = c <;> simp [h]
  have hutd : (d.uptodate.filter fun u => evalUtd r.getValues resOf u == some false).isEmpty
      = !utdFalse r.getValues resOf d.uptodate := by
    rw [filter_isEmpty]; rfl
  unfold logStatus
  simp only [Reasons.isEmpty, reasonsOf, hck, hutd, filter_isEmpty, hnc, Bool.false_eq_true, if_false]
  cases hdc : depsChanged true (logRcd c r) d.deps with
  | true =>
    have := depsChanged_lists (logRcd c r) d.deps hdc
    simp only [Bool.or_true, if_true]
    constructor
    · intro h
      simp only [Bool.and_eq_true] at h
      have h7 := h.1.2
      have h8 := h.2
      rw [h7, h8] at this
      cases this
    · intro h
      split at h
      · cases h
      · split at h
        · cases h
        · cases h
  | false =>
    simp only [Bool.or_false, List.isEmpty_nil, Bool.and_true, earlyRun]
    cases d.deps.any (depListed c (logRcd c r) fs) <;>
    cases d.deps.any (depMissing fs) <;>
    cases utdFalse r.getValues resOf d.uptodate <;>
    cases d.deps.isEmpty <;> cases utdEvaluated r.getValues resOf d.uptodate <;>
    cases d.targets.any (depMissing fs) <;> cases checkerChanged c r <;> simp

/-! ## `list -s` line by line -/

theorem listOne_id {s : St} {t : Name} (hc : s.crashed = false)
    (hcc : checkerChanged s.checker (s.rcd t) = false) (hst : s.status true t ≠ .crash) : listOne s t = s := by
  simp only [listOne, step, hc, Bool.false_eq_true, if_false]
  split
  · rfl
  · have : (s.status true t == Status.crash) = false := by simpa using hst
    simp only [this, Bool.false_eq_true, if_false, peek, removesRecord, hcc, Bool.and_false]

theorem listRun_eq_map (s : St) (ts : List Name) (hc : s.crashed = false)
    (hcc : ∀ t, t ∈ ts → checkerChanged s.checker (s.rcd t) = false)
    (hst : ∀ t, t ∈ ts → s.status true t ≠ .crash) :
    listRun s ts = ts.map (decision s) ∧ listSt s ts = s := by
  induction ts with
  | nil => exact ⟨rfl, rfl⟩
  | cons a rest ih =>
    have h1 : listOne s a = s := listOne_id hc (hcc a (by simp)) (hst a (by simp))
    have ih' := ih (fun t ht => hcc t (by simp [ht])) (fun t ht => hst t (by simp [ht]))
    constructor
    · simp only [listRun, h1, hc, Bool.false_eq_true, if_false, List.map_cons, ih'.1]
      rfl
    · simp only [listSt, List.foldl_cons, h1]
      exact ih'.2

theorem decision_effect (s : St) (t : Name) (ok : Bool) (ws : List (Path × Nat × Nat)) (res : Option Res) :
    (decision s t = .ignore → runTask true s t ok false ws res = s) ∧
    (decision s t = .upToDate → runTask true s t ok false ws res = s) ∧
    (decision s t = .error → runTask true s t ok false ws res = erase s t) ∧
    (decision s t = .run → runTask true s t ok false ws res = finish (applyWrites (peek s t) ws) t ok res) ∧
    (decision s t = .crash → runTask true s t ok false ws res = { s with crashed := true }) := by
  simp only [decision, runTask]
  cases (s.rcd t).ign <;> cases s.status true t <;> simp [ofStatus]

end DoitModel.Intro
