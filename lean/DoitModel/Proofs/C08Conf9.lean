import DoitModel.Proofs.C08Conf6
/-! # C08 (I10), closure, part 1: every node a run creates — hence every task it reports — is in the denotational
    closure `DenCl` of the selection (graphs without calc_dep) -/
namespace DoitModel.Run

/-- tasks a complete run processes: the selection, closed under task_dep and under the setup-tasks of members whose
    first `select_task` pass says `run` -/
inductive DenCl (inp : RunInput) : Name → Prop
  | ofSel {t} : t ∈ inp.sel → DenCl inp t
  | ofTask {t d} : DenCl inp t → d ∈ inp.taskDep t → DenCl inp d
  | ofSetup {t d} : DenCl inp t → R1 inp t → d ∈ inp.setup t → DenCl inp d

/-- what the `for` loop a generator is in will still visit -/
def pcC (inp : RunInput) (n : Name) : PC → Prop
  | .calcIter todo => todo = []
  | .taskIter todo => ∀ d ∈ todo, d ∈ inp.taskDep n
  | .setupIter todo => (∀ d ∈ todo, d ∈ inp.setup n) ∧ R1 inp n
  | _ => True

structure InvC (inp : RunInput) (s : Sys) : Prop where
  nodes : ∀ n nd, s.nodes n = some nd → DenCl inp n ∧ pcC inp n nd.pc
  toRun : ∀ t ∈ s.toRun, DenCl inp t

/-- no node is created, no generator moves, `tasks_to_run` is untouched (and, if `p`, no status changes) -/
def BackG (p : Prop) (s s' : Sys) : Prop :=
  (∀ k x', s'.nodes k = some x' → ∃ x, s.nodes k = some x ∧ x'.pc = x.pc ∧ (p → x'.status = x.status)) ∧
  s'.toRun = s.toRun

abbrev Back := BackG True
abbrev BackW := BackG False

theorem BackG.refl (p : Prop) (s : Sys) : BackG p s s := ⟨fun _ x' h => ⟨x', h, rfl, fun _ => rfl⟩, rfl⟩
theorem BackG.trans {p : Prop} {a b c : Sys} (h1 : BackG p a b) (h2 : BackG p b c) : BackG p a c := by
  refine ⟨?_, h2.2.trans h1.2⟩
  intro k x' hk
  obtain ⟨x, hx, e, f⟩ := h2.1 k x' hk
  obtain ⟨y, hy, e', f'⟩ := h1.1 k x hx
  exact ⟨y, hy, e.trans e', fun hp => (f hp).trans (f' hp)⟩
theorem BackG.wrap {p : Prop} {s x s' : Sys} (b : BackG p s x) (e1 : s'.nodes = x.nodes) (e2 : s'.toRun = x.toRun) :
    BackG p s s' :=
  ⟨fun k x' hk => b.1 k x' (by rw [← e1]; exact hk), e2.trans b.2⟩
theorem BackG.of_eq {p : Prop} {s s' : Sys} (e1 : s'.nodes = s.nodes) (e2 : s'.toRun = s.toRun) : BackG p s s' :=
  (BackG.refl p s).wrap e1 e2
theorem BackG.weak {p : Prop} {s s' : Sys} (b : BackG p s s') : BackW s s' :=
  ⟨fun k x' hk => by obtain ⟨x, a, c, _⟩ := b.1 k x' hk; exact ⟨x, a, c, fun f => f.elim⟩, b.2⟩

theorem back_setNode {p : Prop} {s : Sys} {n : Name} {nd x : Node} (hn : s.nodes n = some nd) (hpc : x.pc = nd.pc)
    (hst : p → x.status = nd.status) : BackG p s (setNode s n x) := by
  refine ⟨?_, rfl⟩
  intro k x' hk
  simp only [setNode_nodes] at hk
  split at hk
  · rename_i e; subst e; cases hk; exact ⟨nd, hn, hpc, hst⟩
  · exact ⟨x', hk, rfl, fun _ => rfl⟩

theorem InvC.back {inp : RunInput} {p : Prop} {s s' : Sys} (h : InvC inp s) (b : BackG p s s') : InvC inp s' := by
  constructor
  · intro n nd hn
    obtain ⟨x, hx, e, _⟩ := b.1 n nd hn
    rw [e]; exact h.nodes n x hx
  · intro t ht; rw [b.2] at ht; exact h.toRun t ht

theorem invC_setNode {inp : RunInput} {s : Sys} {n : Name} {nd : Node} (x : Node) (h : InvC inp s)
    (hn : s.nodes n = some nd) (hx : pcC inp n x.pc) : InvC inp (setNode s n x) := by
  constructor
  · intro k y hk
    simp only [setNode_nodes] at hk
    split at hk
    · rename_i e; subst e; cases hk; exact ⟨(h.nodes k nd hn).1, hx⟩
    · exact h.nodes k y hk
  · exact h.toRun

theorem invC_create {inp : RunInput} {s : Sys} {d : Name} (anc : List Name) (h : InvC inp s) (hd : DenCl inp d) :
    InvC inp (setNode s d (mkNode inp d anc)) := by
  constructor
  · intro k y hk
    simp only [setNode_nodes] at hk
    split at hk
    · rename_i e; subst e; cases hk; exact ⟨hd, trivial⟩
    · exact h.nodes k y hk
  · exact h.toRun

theorem back_registerWaiting (p : Prop) (s : Sys) (n : Name) (wf : List Name) : BackG p s (registerWaiting s n wf) := by
  refine ⟨?_, rfl⟩
  intro k y hy
  rw [registerWaiting_nodes] at hy
  cases hk : s.nodes k with
  | none => rw [hk] at hy; cases hy
  | some x =>
    rw [hk] at hy
    by_cases hkw : k ∈ wf
    · simp only [hkw, if_true, Option.some.injEq] at hy; subst hy; exact ⟨x, rfl, (addWaiting_fields x n).1, fun _ => (addWaiting_fields x n).2.1⟩
    · simp only [hkw, if_false, Option.some.injEq] at hy; subst hy; exact ⟨x, rfl, rfl, fun _ => rfl⟩

theorem genStep_invC {inp : RunInput} {s : Sys} {n : Name} {nd : Node} (d : Name) (pc' : PC) (h : InvC inp s)
    (hn : s.nodes n = some nd) (hd : DenCl inp d) (hx : pcC inp n pc') : InvC inp (genStep inp s n nd d pc') := by
  unfold genStep
  cases hdn : s.nodes d with
  | none =>
    simp only []
    have hne : d ≠ n := by intro e; subst e; rw [hn] at hdn; cases hdn
    have h1 := invC_create (nd.anc ++ [d]) h hd
    have hn1 : (setNode s d (mkNode inp d (nd.anc ++ [d]))).nodes n = some nd := by
      simp [setNode_nodes, Ne.symm hne, hn]
    exact (invC_setNode { nd with pc := pc' } h1 hn1 hx).back (BackG.of_eq (p := False) rfl rfl)
  | some x =>
    simp only []
    split
    · exact h.back (BackG.of_eq (p := False) rfl rfl)
    · exact invC_setNode _ h hn hx

theorem addWaitRun_invC {inp : RunInput} {s : Sys} {n : Name} {nd : Node} (ds : List Name) (isCalc : Bool)
    (pc' : PC) (h : InvC inp s) (hn : s.nodes n = some nd) (hx : pcC inp n pc') :
    InvC inp (addWaitRun inp s n nd ds isCalc pc') := by
  have f := waitNode_facts inp s nd ds isCalc pc'
  unfold addWaitRun
  exact (invC_setNode (waitNode inp s nd ds isCalc pc') h hn (by rw [f.pc]; exact hx)).back
    (back_registerWaiting False _ _ _)

theorem nodeStep_invC {inp : RunInput} {s s' : Sys} {n : Name} {nd : Node} {perm : List Name} (hN : InvN inp s)
    (hE : InvE inp s) (h : InvC inp s) (hn : s.nodes n = some nd) (hs : nodeStep inp s n nd perm = some s') :
    InvC inp s' := by
  have hS := hN n nd hn
  obtain ⟨hcl, hpcC⟩ := h.nodes n nd hn
  unfold nodeStep at hs
  cases hpc : nd.pc with
  | loopTop =>
    simp only [hpc] at hs
    split at hs
    · rename_i hp; cases hs
      have hperm : perm = [] := by rw [hS.noC.1] at hp; exact hp.eq_nil
      exact invC_setNode _ h hn hperm
    · cases hs
  | calcIter todo =>
    simp only [hpc] at hs
    rw [hpc] at hpcC
    cases todo with
    | cons d ds => cases hpcC
    | nil => cases hs; exact addWaitRun_invC _ _ _ h hn hS.snap
  | taskIter todo =>
    simp only [hpc] at hs
    rw [hpc] at hpcC
    cases todo with
    | cons d ds =>
      cases hs
      exact genStep_invC d _ h hn (DenCl.ofTask hcl (hpcC d (by simp))) (fun x hx => hpcC x (by simp [hx]))
    | nil => cases hs; exact addWaitRun_invC _ _ _ h hn trivial
  | afterDeps =>
    simp only [hpc] at hs
    split at hs
    · cases hs; exact invC_setNode _ h hn trivial
    · split at hs
      · cases hs; exact (invC_setNode { nd with pc := .loopTop } h hn trivial).back (BackG.of_eq (p := False) rfl rfl)
      · cases hs; exact invC_setNode _ h hn trivial
  | self1 =>
    simp only [hpc] at hs; cases hs
    exact (invC_setNode { nd with pc := .afterSelf1 } h hn trivial).back (BackG.of_eq (p := False) rfl rfl)
  | afterSelf1 =>
    simp only [hpc] at hs
    split at hs
    · cases hs; exact invC_setNode _ h hn trivial
    · split at hs
      · cases hs
        exact (invC_setNode { nd with pc := .setupDecide, waitSelect := true } h hn trivial).back (BackG.of_eq (p := False) rfl rfl)
      · cases hs; exact invC_setNode _ h hn trivial
  | setupDecide =>
    simp only [hpc] at hs
    split at hs
    · rename_i hrun; cases hs
      exact invC_setNode _ h hn ⟨fun d hd => hd, hE.run1 n (by simp [stOf, hn, hrun])⟩
    · cases hs; exact invC_setNode _ h hn trivial
  | setupIter todo =>
    simp only [hpc] at hs
    rw [hpc] at hpcC
    cases todo with
    | cons d ds =>
      cases hs
      exact genStep_invC d _ h hn (DenCl.ofSetup hcl hpcC.2 (hpcC.1 d (by simp)))
        ⟨fun x hx => hpcC.1 x (by simp [hx]), hpcC.2⟩
    | nil => cases hs; exact addWaitRun_invC _ _ _ h hn trivial
  | afterSetup =>
    simp only [hpc] at hs
    split at hs
    · cases hs; exact (invC_setNode { nd with pc := .self2 } h hn trivial).back (BackG.of_eq (p := False) rfl rfl)
    · cases hs; exact invC_setNode _ h hn trivial
  | self2 =>
    simp only [hpc] at hs; cases hs
    exact (invC_setNode { nd with pc := .afterSelf2 } h hn trivial).back (BackG.of_eq (p := False) rfl rfl)
  | afterSelf2 => simp only [hpc] at hs; cases hs; exact invC_setNode _ h hn trivial
  | done => simp only [hpc] at hs; cases hs; exact h.back (BackG.of_eq (p := False) rfl rfl)

theorem dtick_invC {inp : RunInput} {s s' : Sys} {perm : List Name} (hN : InvN inp s) (hE : InvE inp s)
    (h : InvC inp s) (hs : dtick inp s perm = some s') : InvC inp s' := by
  unfold dtick at hs
  cases hc : s.cur with
  | some n =>
    simp only [hc] at hs
    cases hn : s.nodes n with
    | none => simp only [hn] at hs; cases hs; exact h.back (BackG.of_eq (p := False) rfl rfl)
    | some nd => simp only [hn] at hs; exact nodeStep_invC hN hE h hn hs
  | none =>
    simp only [hc] at hs
    cases hr : s.ready with
    | cons r rs => simp only [hr] at hs; cases hs; exact h.back (BackG.of_eq (p := False) rfl rfl)
    | nil =>
      simp only [hr] at hs
      cases ht : s.toRun with
      | cons t ts =>
        simp only [ht] at hs
        have hsub : ∀ x ∈ ts, DenCl inp x := fun x hx => h.toRun x (by rw [ht]; simp [hx])
        cases hnt : s.nodes t with
        | none =>
          simp only [hnt] at hs; cases hs
          have h1 := invC_create [t] h (h.toRun t (by rw [ht]; simp))
          exact ⟨h1.nodes, hsub⟩
        | some x => simp only [hnt] at hs; cases hs; exact ⟨h.nodes, hsub⟩
      | nil =>
        simp only [ht] at hs
        split at hs
        · split at hs <;> (cases hs; exact h.back (BackG.of_eq (p := False) rfl ht.symm))
        · cases hs; exact h.back (BackG.of_eq (p := False) rfl ht.symm)

/-! ### everything but `dtick` is a `Back` step -/

theorem wakeOne_back {q : Prop} {inp : RunInput} [NoFailDeliver inp] {s : Sys} {pst : RS} {p w : Name} {nd : Node}
    (hw : s.nodes w = some nd) : BackG q s (wakeOne inp s pst p w nd) := by
  have base := back_setNode (p := q) (x := wokenNode inp pst p nd) hw (wokenNode_upd inp pst p nd).pc
    (fun _ => (wokenNode_upd inp pst p nd).status)
  rw [wakeOne_eq (inp := inp)]; split
  · exact base.wrap rfl rfl
  · exact base

theorem updateWaiting_back (q : Prop) (inp : RunInput) [NoFailDeliver inp] (pst : RS) (p : Name) :
    ∀ (perm : List Name) (s s' : Sys), updateWaiting inp pst p s perm = some s' → BackG q s s' := by
  intro perm
  induction perm with
  | nil => intro s s' hs; simp only [updateWaiting] at hs; cases hs; exact BackG.refl _ _
  | cons w ws ih =>
    intro s s' hs
    simp only [updateWaiting] at hs
    cases hw : s.nodes w with
    | none => simp only [hw] at hs; exact ih s s' hs
    | some nd =>
      simp only [hw] at hs
      split at hs
      · cases hs
      · exact (wakeOne_back (inp := inp) hw).trans (ih _ s' hs)

theorem sendHead_back {q : Prop} {s : Sys} {p : Name} {nd : Node} (hn : s.nodes p = some nd) :
    BackG q s (sendHead s p nd) := by
  unfold sendHead; split
  · exact (back_setNode (x := { nd with waitSelect := false }) hn rfl (fun _ => rfl)).wrap rfl rfl
  · exact BackG.of_eq rfl rfl

theorem send_back {q : Prop} {inp : RunInput} [NoFailDeliver inp] {s s' : Sys} {processed : Option Name} {perm : List Name}
    (hs : send inp s processed perm = some s') : BackG q s s' := by
  unfold send at hs
  cases processed with
  | none => cases hs; exact BackG.of_eq rfl rfl
  | some p =>
    simp only [] at hs
    cases hn : s.nodes p with
    | none => simp only [hn] at hs; cases hs; exact BackG.of_eq rfl rfl
    | some nd =>
      simp only [hn] at hs
      split at hs
      · cases hs; exact BackG.of_eq rfl rfl
      · split at hs
        · cases hs; exact (sendHead_back hn).wrap rfl rfl
        · split at hs
          · cases hu : updateWaiting inp nd.status p (sendHead s p nd) perm with
            | none => simp only [hu] at hs; cases hs; exact (sendHead_back hn).wrap rfl rfl
            | some s2 =>
              simp only [hu] at hs; cases hs
              exact ((sendHead_back hn).trans (updateWaiting_back q inp _ p perm _ s2 hu)).wrap rfl rfl
          · cases hs

theorem applySel_toRun (inp : RunInput) (s : Sys) (n : Name) (nd : Node) (d : Sel) :
    (applySel inp s n nd d).toRun = s.toRun := by cases d <;> rfl

theorem applySel_back {inp : RunInput} {s : Sys} {n : Name} {nd : Node} (d : Sel) (hn : s.nodes n = some nd) :
    BackW s (applySel inp s n nd d) := by
  by_cases hd : d = .assertFail
  · subst hd; exact BackG.refl _ _
  · exact (back_setNode (x := { nd with status := selStatus d }) hn rfl (fun f => f.elim)).wrap (applySel_nodes inp s n nd d hd)
      (applySel_toRun inp s n nd d)

theorem processResult_toRun (inp : RunInput) (s : Sys) (n : Name) (nd : Node) :
    (processResult inp s n nd).toRun = s.toRun := by unfold processResult; cases inp.outcome n <;> rfl

theorem processResult_back {inp : RunInput} {s : Sys} {n : Name} {nd : Node} (hn : s.nodes n = some nd) :
    BackW s (processResult inp s n nd) :=
  (back_setNode (x := { nd with status := resStatus (inp.outcome n) }) hn rfl (fun f => f.elim)).wrap (processResult_nodes inp s n nd)
    (processResult_toRun inp s n nd)

theorem gReturn_toRun (s : Sys) (job : Job) (ret : Ret) : (gReturn s job ret).toRun = s.toRun := by
  cases ret with
  | startLoop k =>
    simp only [gReturn]
    split
    · rfl
    · split <;> rfl
  | feedLoop k =>
    simp only [gReturn]
    split
    · split <;> rfl
    · rfl

/-- a step of the serial runner is a dispatcher tick or leaves generators and `tasks_to_run` alone -/
theorem serialStep_back {inp : RunInput} [NoFailDeliver inp] {s s' : Sys} {perm : List Name} (hs : serialStep inp s perm = some s') :
    dtick inp s perm = some s' ∨ BackW s s' := by
  unfold serialStep at hs
  cases hr : s.rpc with
  | sTop node =>
    simp only [hr] at hs
    split at hs
    · cases hs; exact Or.inr (BackG.of_eq (p := False) rfl rfl)
    · cases hsd : send inp s node perm with
      | none => simp only [hsd] at hs; cases hs
      | some s0 => simp only [hsd] at hs; cases hs; exact Or.inr ((send_back hsd).wrap rfl rfl)
  | sWait =>
    simp only [hr] at hs
    cases hsu : s.susp with
    | none => simp only [hsu] at hs; exact Or.inl hs
    | some o =>
      simp only [hsu] at hs
      right
      cases o with
      | init => cases hs
      | node n =>
        simp only [] at hs
        cases hn : s.nodes n with
        | none => simp only [hn] at hs; cases hs; exact BackG.of_eq rfl rfl
        | some nd =>
          simp only [hn] at hs
          have key := applySel_back (inp := inp) (selDecision inp n nd) hn
          cases hd : selDecision inp n nd with
          | go => simp only [hd] at hs; cases hs; rw [hd] at key; exact key.wrap rfl rfl
          | assertFail => simp only [hd] at hs; cases hs; exact BackG.of_eq rfl rfl
          | skipIgn => simp only [hd] at hs; cases hs; rw [hd] at key; exact key.wrap rfl rfl
          | unmet => simp only [hd] at hs; cases hs; rw [hd] at key; exact key.wrap rfl rfl
          | depErr => simp only [hd] at hs; cases hs; rw [hd] at key; exact key.wrap rfl rfl
          | utd => simp only [hd] at hs; cases hs; rw [hd] at key; exact key.wrap rfl rfl
          | runFirst => simp only [hd] at hs; cases hs; rw [hd] at key; exact key.wrap rfl rfl
          | argsErr => simp only [hd] at hs; cases hs; rw [hd] at key; exact key.wrap rfl rfl
      | stopIter => cases hs; exact BackG.of_eq rfl rfl
      | holdOn => cases hs; exact BackG.of_eq rfl rfl
      | cyclic n => cases hs; exact BackG.of_eq rfl rfl
      | crash => cases hs; exact BackG.of_eq rfl rfl
  | sExec n =>
    simp only [hr] at hs
    right
    cases hn : s.nodes n with
    | none => simp only [hn] at hs; cases hs; exact BackG.of_eq rfl rfl
    | some nd =>
      simp only [hn] at hs; cases hs
      exact (processResult_back (inp := inp) (s := { s with rpc := .sExec n, events := Ev.fin n 0 :: s.events })
        hn).wrap rfl rfl
  | fin => simp only [hr] at hs; cases hs; exact Or.inr (BackG.of_eq (p := False) rfl rfl)
  | gEntry a b => simp only [hr] at hs; cases hs
  | gLoop a b => simp only [hr] at hs; cases hs
  | gWait a => simp only [hr] at hs; cases hs
  | gRet a b => simp only [hr] at hs; cases hs
  | pTop => simp only [hr] at hs; cases hs
  | pJoin => simp only [hr] at hs; cases hs
  | halted => simp only [hr] at hs; cases hs

theorem mainStep_back {inp : RunInput} [NoFailDeliver inp] {s s' : Sys} {perm : List Name} (hs : mainStep inp s perm = some s') :
    dtick inp s perm = some s' ∨ BackW s s' := by
  unfold mainStep at hs
  cases hr : s.rpc with
  | gEntry completed ret =>
    simp only [hr] at hs
    split at hs <;> (cases hs; exact Or.inr (BackG.of_eq (p := False) rfl rfl))
  | gLoop node ret =>
    simp only [hr] at hs
    cases hsd : send inp s node perm with
    | none => simp only [hsd] at hs; cases hs
    | some s0 => simp only [hsd] at hs; cases hs; exact Or.inr ((send_back hsd).wrap rfl rfl)
  | gWait ret =>
    simp only [hr] at hs
    cases hsu : s.susp with
    | none => simp only [hsu] at hs; exact Or.inl hs
    | some o =>
      simp only [hsu] at hs
      right
      cases o with
      | init => cases hs
      | node n =>
        simp only [] at hs
        cases hn : s.nodes n with
        | none => simp only [hn] at hs; cases hs; exact BackG.of_eq rfl rfl
        | some nd =>
          simp only [hn] at hs
          have key := applySel_back (inp := inp) (selDecision inp n nd) hn
          cases hd : selDecision inp n nd with
          | go => simp only [hd] at hs; cases hs; rw [hd] at key; exact key.wrap rfl rfl
          | assertFail => simp only [hd] at hs; cases hs; exact BackG.of_eq rfl rfl
          | skipIgn => simp only [hd] at hs; cases hs; rw [hd] at key; exact key.wrap rfl rfl
          | unmet => simp only [hd] at hs; cases hs; rw [hd] at key; exact key.wrap rfl rfl
          | depErr => simp only [hd] at hs; cases hs; rw [hd] at key; exact key.wrap rfl rfl
          | utd => simp only [hd] at hs; cases hs; rw [hd] at key; exact key.wrap rfl rfl
          | runFirst => simp only [hd] at hs; cases hs; rw [hd] at key; exact key.wrap rfl rfl
          | argsErr => simp only [hd] at hs; cases hs; rw [hd] at key; exact key.wrap rfl rfl
      | holdOn => cases hs; exact BackG.of_eq rfl rfl
      | stopIter => cases hs; exact BackG.of_eq rfl rfl
      | cyclic n => cases hs; exact BackG.of_eq rfl rfl
      | crash => cases hs; exact BackG.of_eq rfl rfl
  | gRet job ret =>
    simp only [hr] at hs; cases hs
    exact Or.inr (BackG.of_eq (gReturn_frame s job ret).1 (gReturn_toRun s job ret))
  | pTop =>
    simp only [hr] at hs
    right
    split at hs
    · cases hs; exact BackG.of_eq rfl rfl
    · cases hq : s.resQ with
      | nil => simp only [hq] at hs; cases hs
      | cons n rest =>
        simp only [hq] at hs
        cases hn : s.nodes n with
        | none => simp only [hn] at hs; cases hs; exact BackG.of_eq rfl rfl
        | some nd =>
          simp only [hn] at hs; cases hs
          exact (processResult_back (inp := inp) (s := { s with rpc := .pTop, resQ := rest }) hn).wrap rfl rfl
  | pJoin =>
    simp only [hr] at hs
    split at hs
    · cases hs; exact Or.inr (BackG.of_eq (p := False) rfl rfl)
    · cases hs
  | fin => simp only [hr] at hs; cases hs; exact Or.inr (BackG.of_eq (p := False) rfl rfl)
  | sTop a => simp only [hr] at hs; cases hs
  | sWait => simp only [hr] at hs; cases hs
  | sExec a => simp only [hr] at hs; cases hs
  | halted => simp only [hr] at hs; cases hs

theorem takeStep_back {inp : RunInput} {s s' : Sys} {w : Nat} (hs : takeStep inp s w = some s') : Back s s' := by
  unfold takeStep at hs
  split at hs
  · cases hq : s.jobQ with
    | nil => simp only [hq] at hs; cases hs
    | cons j js =>
      simp only [hq] at hs
      cases j <;> (cases hs; exact BackG.of_eq rfl rfl)
  · cases hs

theorem doneStep_back {s s' : Sys} {w : Nat} (hs : doneStep s w = some s') : Back s s' := by
  unfold doneStep at hs
  cases hw : s.workers w with
  | running n => simp only [hw] at hs; cases hs; exact BackG.of_eq rfl rfl
  | notStarted => simp only [hw] at hs; cases hs
  | idle => simp only [hw] at hs; cases hs
  | exited => simp only [hw] at hs; cases hs

theorem init_invC (inp : RunInput) : InvC inp (init inp) :=
  ⟨fun n nd hn => by simp [init] at hn, fun t ht => DenCl.ofSel ht⟩

theorem reach_invC {inp : RunInput} [NoFailDeliver inp] {s : Sys} (hnc : NoCalc inp) (h : Reach inp s) : InvC inp s := by
  induction h with
  | init => exact init_invC inp
  | @next s0 s1 c hr hs ih =>
    have hD := reach_invDen hnc hr
    cases c with
    | main perm =>
      rcases serialStep_back hs with a | a
      · exact dtick_invC hD.nodeS hD.den ih a
      · exact ih.back a
    | take w => cases hs
    | done w => cases hs

theorem preach_invC {inp : RunInput} [NoFailDeliver inp] {s : Sys} (hnc : NoCalc inp) (h : PReach inp s) : InvC inp s := by
  induction h with
  | init => exact init_invC inp
  | @next s0 s1 c hr hs ih =>
    have hD := preach_invDen hnc hr
    cases c with
    | main perm =>
      rcases mainStep_back hs with a | a
      · exact dtick_invC hD.nodeS hD.den ih a
      · exact ih.back a
    | take w => exact ih.back (takeStep_back hs)
    | done w => exact ih.back (doneStep_back hs)

/-- a terminal report of `t` -/
def Reported (s : Sys) (t : Name) : Prop := ∃ d, ∃ e ∈ s.events, Ev.den? t e = some d

theorem den?_terminal {t : Name} {e : Ev} {d : Den} (h : Ev.den? t e = some d) : Ev.isTerminalOf t e = true := by
  cases e <;> simp only [Ev.den?] at h <;> first
    | cases h
    | (split at h
       · rename_i e'; simp [Ev.isTerminalOf, e']
       · cases h)

theorem terminal_den? {t : Name} {e : Ev} (h : Ev.isTerminalOf t e = true) : ∃ d, Ev.den? t e = some d := by
  cases e <;> simp [Ev.isTerminalOf] at h <;> subst h <;> simp [Ev.den?]

theorem reported_iff_cTerm (s : Sys) (t : Name) : Reported s t ↔ cTerm s t ≥ 1 := by
  unfold Reported cTerm
  rw [ge_iff_le, ← Nat.lt_iff_add_one_le, List.countP_pos_iff]
  constructor
  · rintro ⟨d, e, he, hd⟩; exact ⟨e, he, den?_terminal hd⟩
  · rintro ⟨e, he, ht⟩; obtain ⟨d, hd⟩ := terminal_den? ht; exact ⟨d, e, he, hd⟩

/-- nothing outside the denotational closure is ever created, selected, executed or reported -/
theorem reported_in_closure {inp : RunInput} [NoFailDeliver inp] {s : Sys} (hnc : NoCalc inp) (hr : Reach inp s ∨ PReach inp s) (t : Name)
    (h : Reported s t) : DenCl inp t := by
  have hC : InvC inp s := by rcases hr with a | a; exact reach_invC hnc a; exact preach_invC hnc a
  have h3 : Inv3 inp s := by rcases hr with a | a; exact reach_inv3 a; exact (preach_inv a).2
  have hpos := (reported_iff_cTerm s t).mp h
  cases hn : s.nodes t with
  | some nd => exact (hC.nodes t nd hn).1
  | none =>
    have := h3.t t (by simp [stOf, hn, RS.finished])
    omega

theorem created_in_closure {inp : RunInput} [NoFailDeliver inp] {s : Sys} (hnc : NoCalc inp) (hr : Reach inp s ∨ PReach inp s) (t : Name)
    (nd : Node) (h : s.nodes t = some nd) : DenCl inp t := by
  have hC : InvC inp s := by rcases hr with a | a; exact reach_invC hnc a; exact preach_invC hnc a
  exact (hC.nodes t nd h).1

end DoitModel.Run
