import DoitModel.Proofs.RunPar
import DoitModel.Model.RunTeardown
/-! # C11 helpers: how every step of the base model moves the fields the teardown bookkeeping looks at
    (`events` as far as action starts are concerned, `tdown`, `rpc`, `halt`, `workers`, `nStarted`) -/
namespace DoitModel.Run

/-- no action start among these events -/
def NoStart (l : List Ev) : Prop := ∀ e ∈ l, ∀ n w, e ≠ Ev.start n w

theorem noStart_nil : NoStart [] := fun _ h => by cases h

theorem noStart_tdName (inp : RunInput) {l : List Ev} (h : NoStart l) : l.filterMap (tdName inp) = [] := by
  induction l with
  | nil => rfl
  | cons e t ih =>
    have ht : NoStart t := fun x hx => h x (List.mem_cons_of_mem _ hx)
    cases e <;> simp_all [tdName]
    exact absurd rfl (h _ (List.mem_cons_self ..) _ _)

theorem noStart_tdNameOf (inp : RunInput) (w : Nat) {l : List Ev} (h : NoStart l) :
    l.filterMap (tdNameOf inp w) = [] := by
  induction l with
  | nil => rfl
  | cons e t ih =>
    have ht : NoStart t := fun x hx => h x (List.mem_cons_of_mem _ hx)
    cases e <;> simp_all [tdNameOf]
    exact absurd rfl (h _ (List.mem_cons_self ..) _ _)

theorem startOrder_append (inp : RunInput) (new old : List Ev) :
    startOrder inp (new ++ old) = startOrder inp old ++ (new.filterMap (tdName inp)).reverse := by
  simp [startOrder, List.filterMap_append]

theorem startOrderOf_append (inp : RunInput) (w : Nat) (new old : List Ev) :
    startOrderOf inp w (new ++ old) = startOrderOf inp w old ++ (new.filterMap (tdNameOf inp w)).reverse := by
  simp [startOrderOf, List.filterMap_append]

theorem startOrder_noStart (inp : RunInput) {new old : List Ev} (h : NoStart new) :
    startOrder inp (new ++ old) = startOrder inp old := by
  rw [startOrder_append, noStart_tdName inp h]; simp

theorem startOrderOf_noStart (inp : RunInput) (w : Nat) {new old : List Ev} (h : NoStart new) :
    startOrderOf inp w (new ++ old) = startOrderOf inp w old := by
  rw [startOrderOf_append, noStart_tdNameOf inp w h]; simp

/-! ### the helper functions of the runner -/

theorem statusEv_noStart (nd : Node) (n : Name) : NoStart (statusEv nd n) := by
  intro e he; unfold statusEv at he; split at he <;> simp at he; subst he; intro _ _ h; cases h

theorem selEvents_noStart (inp : RunInput) (n : Name) (nd : Node) (d : Sel) : NoStart (selEvents inp n nd d) := by
  intro e he a b
  cases d <;> simp only [selEvents, List.mem_cons] at he
  all_goals first
    | (rcases he with he | he
       · subst he; intro h; cases h
       · exact statusEv_noStart nd n e he a b)
    | exact statusEv_noStart nd n e he a b
    | cases he

theorem resEvents_noStart (n : Name) (o : Outcome) : NoStart (resEvents n o) := by
  intro e he a b; cases o <;> simp [resEvents] at he <;> (subst he; intro h; cases h)

theorem applySel_outer (inp : RunInput) (s : Sys) (n : Name) (nd : Node) (d : Sel) :
    (applySel inp s n nd d).tdown = s.tdown ∧ (applySel inp s n nd d).halt = s.halt ∧
    (applySel inp s n nd d).nStarted = s.nStarted ∧ (applySel inp s n nd d).workers = s.workers ∧
    (applySel inp s n nd d).rpc = s.rpc ∧ (applySel inp s n nd d).jobQ = s.jobQ := by
  cases d <;> simp [applySel, failNode, setNode]

theorem processResult_outer (inp : RunInput) (s : Sys) (n : Name) (nd : Node) :
    (processResult inp s n nd).tdown = s.tdown ∧ (processResult inp s n nd).halt = s.halt ∧
    (processResult inp s n nd).nStarted = s.nStarted ∧ (processResult inp s n nd).workers = s.workers ∧
    (processResult inp s n nd).rpc = s.rpc ∧ (processResult inp s n nd).jobQ = s.jobQ := by
  unfold processResult; cases inp.outcome n <;> simp [failNode, setNode]

/-- a step that starts nothing and leaves the teardown list alone -/
structure Plain (s s' : Sys) : Prop where
  ev : ∃ new, s'.events = new ++ s.events ∧ NoStart new
  td : s'.tdown = s.tdown
  tdn : ∀ d, Ev.teardown d ∈ s'.events → Ev.teardown d ∈ s.events ∨ d ∈ s.tdown

theorem Plain.of_same {s s' : Sys} (e : s'.events = s.events) (t : s'.tdown = s.tdown) : Plain s s' :=
  ⟨⟨[], by simp [e], noStart_nil⟩, t, fun d h => Or.inl (e ▸ h)⟩

/-- no teardown report among these events -/
def NoTd (l : List Ev) : Prop := ∀ d, Ev.teardown d ∉ l

theorem tdn_of_noTd {s s' : Sys} {new : List Ev} (e : s'.events = new ++ s.events) (h : NoTd new) :
    ∀ d, Ev.teardown d ∈ s'.events → Ev.teardown d ∈ s.events ∨ d ∈ s.tdown := by
  intro d hd; rw [e] at hd
  rcases List.mem_append.mp hd with a | a
  · exact absurd a (h d)
  · exact Or.inl a

theorem statusEv_noTd (nd : Node) (n : Name) : NoTd (statusEv nd n) := by
  intro d he; unfold statusEv at he; split at he <;> simp at he

theorem selEvents_noTd (inp : RunInput) (n : Name) (nd : Node) (d : Sel) : NoTd (selEvents inp n nd d) := by
  intro x he
  cases d <;> simp only [selEvents, List.mem_cons] at he
  all_goals first
    | (rcases he with he | he
       · cases he
       · exact statusEv_noTd nd n x he)
    | exact statusEv_noTd nd n x he
    | cases he

theorem resEvents_noTd (n : Name) (o : Outcome) : NoTd (resEvents n o) := by
  intro d he; cases o <;> simp [resEvents] at he

theorem Plain.of_outer {s s' : Sys} (o : SameOuter s s') : Plain s s' :=
  Plain.of_same o.1 o.2.2.2.2.2.2.2.1

end DoitModel.Run
