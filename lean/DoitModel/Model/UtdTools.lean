/-! # The `uptodate` helpers of `doit/tools.py` and `doit/task.py::result_dep`

Executable model of `run_once`, `config_changed`, `timeout`, `check_timestamp_unchanged` (doit/tools.py) and
`result_dep` (doit/task.py), each as a function of (what the last successful execution saved, the present world)
giving an answer and a *saver* (the callable the helper appends to `task.value_savers`; `Task.save_extra_values`
runs it after a success and `Dependency.save_success` stores the resulting dict as the task's `_values_:`).

Independent of `Model/Status.lean` (whose `Utd` items stay as they are).  Core Lean only.

Conventions
* keys and names are `List Char` (their structure matters: `<file>.st_mtime`, `_result:<name>`, `<group>:` prefix);
* the clock (`time.time()`) and file timestamps are integers in *ticks*; `tps` ticks make one second (the harness
  uses 4, i.e. quarter seconds, which are exact as floats);
* `config_changed(dict)`: the dict is represented by its canonical JSON text (`json.dumps(sort_keys=True)`), the
  md5 hex digest is a function parameter `md5` (theorems that need it assume injectivity; the driver instantiates it
  with a tagging function and the harness applies the real `hashlib.md5` to the tagged text). -/
namespace DoitModel.UtdTools

abbrev Str := List Char

/-- a value in `task.values` as these helpers write / read it (after the JSON round trip of the DB) -/
inductive Val where
  | null
  | tt
  | str (s : Str)
  | num (n : Int)
  /-- `{sub-task: result-or-None}` (result of a group) or a task's dict result with string values -/
  | dict (kv : List (Str × Option Str))
  deriving DecidableEq, Repr

/-- `dict.get` on an association list written by `dict.update` (first binding wins; `setKey` keeps one per key) -/
def lookup {α : Type} (kv : List (Str × α)) (k : Str) : Option α :=
  match kv with
  | [] => none
  | (k', v) :: r => if k' = k then some v else lookup r k

abbrev Saved := List (Str × Val)

/-- Python `==` of two dicts: same keys, same values (order of insertion is irrelevant) -/
def dictEq (a b : List (Str × Option Str)) : Bool :=
  (a.all fun kv => lookup b kv.1 == lookup a kv.1) && (b.all fun kv => lookup a kv.1 == lookup b kv.1)

/-- Python `==` on saved values (`result_dep._as_saved(last) == result_dep._as_saved(now)`) -/
def valEq : Val → Val → Bool
  | .dict a, .dict b => dictEq a b
  | a, b => a == b

/-- Python truthiness -/
def Val.truthy : Val → Bool
  | .null => false
  | .tt => true
  | .str s => s != []
  | .num n => n != 0
  | .dict kv => kv != []

/-! ## the world the helpers look at -/

structure Stat where
  atime : Int
  mtime : Int
  ctime : Int
  deriving DecidableEq, Repr

/-- the object given to `config_changed(...)` as it is *now* (a dict may be mutated between check and save) -/
inductive Cfg where
  | str (s : Str)
  /-- a dict, by its canonical JSON text -/
  | dict (canon : Str)
  /-- neither str nor dict: `_calc_digest` raises -/
  | bad
  deriving DecidableEq, Repr

structure World where
  /-- `time.time()` in ticks -/
  clock : Int
  cfg : Cfg
  /-- `os.stat(file)`; `none` = the stat raises OSError -/
  files : Str → Option Stat
  /-- `Dependency._get(task, 'result:')`; `.null` when nothing is recorded -/
  resultOf : Str → Val
  /-- `tasks_dict[name]`: `none` = no sub-tasks (`has_subtask` false), `some task_dep` for a group -/
  group : Str → Option (List Str)

inductive Err where
  /-- `os.stat` failed (missing file) -/
  | osError
  /-- `config_changed` over something that is neither str nor dict -/
  | badConfig
  deriving DecidableEq, Repr

inductive Ans where
  | yes
  | no
  /-- the callable returned `None`: `get_status` ignores the item -/
  | ignored
  | raised (e : Err)
  deriving DecidableEq, Repr

/-- what an item's `__call__` does: the answer and the saver it registered -/
structure Out where
  ans : Ans
  saver : World → Except Err Saved

def ansOfBool (b : Bool) : Ans := if b then .yes else .no

/-! ## `run_once` -/

def kRunOnce : Str := "run-once".toList

/-- `values.get('run-once', False)`: the saved value itself is the answer -/
def ansOfSavedVal : Option Val → Ans
  | none => .no
  | some .null => .ignored
  | some v => ansOfBool v.truthy

def runOnce (saved : Saved) : Out :=
  ⟨ansOfSavedVal (lookup saved kRunOnce), fun _ => .ok [(kRunOnce, .tt)]⟩

/-! ## `config_changed` -/

def kConfig : Str := "_config_changed".toList

/-- `config_changed._calc_digest` -/
def digest (md5 : Str → Str) : Cfg → Except Err Str
  | .str s => .ok s
  | .dict c => .ok (md5 c)
  | .bad => .error .badConfig

/-- `__call__`: compute the digest of the config as it is now, remember it in the object; the saver registered by
    `configure_task` (`lambda: {'_config_changed': self.config_digest}`) writes the digest computed at the *check*,
    whatever the config is when the saver runs. -/
def configChanged (md5 : Str → Str) (saved : Saved) (w : World) : Out :=
  match digest md5 w.cfg with
  | .error e => ⟨.raised e, fun _ => .ok [(kConfig, .null)]⟩
  | .ok d =>
    ⟨(match lookup saved kConfig with
      | none => .no
      | some .null => .no
      | some v => ansOfBool (v == .str d)),
     fun _ => .ok [(kConfig, .str d)]⟩

/-! ## `timeout` -/

def kSuccessTime : Str := "success-time".toList

/-- the argument of `tools.timeout(...)` -/
inductive Limit where
  | int (n : Int)
  /-- `datetime.timedelta` normalised: days (may be negative), 0 ≤ seconds < 86400, microseconds (dropped) -/
  | delta (days : Int) (seconds : Nat) (micros : Nat)
  deriving DecidableEq, Repr

/-- `timeout.__init__`: `limit_sec` -/
def limitSec : Limit → Int
  | .int n => n
  | .delta d s _ => d * 24 * 3600 + s

/-- `(time.time() - last_success) < self.limit_sec`, in ticks -/
def timeout (tps : Nat) (lim : Limit) (saved : Saved) (w : World) : Out :=
  ⟨(match lookup saved kSuccessTime with
    | some (.num last) => ansOfBool (decide (w.clock - last < limitSec lim * tps))
    | _ => .no),
   fun w' => .ok [(kSuccessTime, .num w'.clock)]⟩

/-! ## `check_timestamp_unchanged` -/

inductive Attr where
  | atime | ctime | mtime
  deriving DecidableEq, Repr

/-- the `time=` argument: `atime`/`access`, `ctime`/`status`, `mtime`/`modify` -/
def attrName : Attr → Str
  | .atime => "st_atime".toList
  | .ctime => "st_ctime".toList
  | .mtime => "st_mtime".toList

def Stat.get (s : Stat) : Attr → Int
  | .atime => s.atime
  | .ctime => s.ctime
  | .mtime => s.mtime

/-- `cmp_op(prev_time, current_time)`: the `operator` functions and a constant user function -/
inductive Cmp where
  | eq | ne | lt | le | gt | ge | const (b : Bool)
  deriving DecidableEq, Repr

def Cmp.app : Cmp → Int → Int → Bool
  | .eq, a, b => a == b
  | .ne, a, b => a != b
  | .lt, a, b => decide (a < b)
  | .le, a, b => decide (a ≤ b)
  | .gt, a, b => decide (a > b)
  | .ge, a, b => decide (a ≥ b)
  | .const c, _, _ => c

/-- `'.'.join([file_name, timeattr])` -/
def stampKey (file : Str) (a : Attr) : Str := file ++ '.' :: attrName a

/-- `_get_time` -/
def getTime (w : World) (file : Str) (a : Attr) : Except Err Int :=
  match w.files file with
  | none => .error .osError
  | some s => .ok (s.get a)

def stampSaver (file : Str) (a : Attr) (w : World) : Except Err Saved :=
  match getTime w file a with
  | .error e => .error e
  | .ok t => .ok [(stampKey file a, .num t)]

/-- `check_timestamp_unchanged.__call__`: the file is only stat-ed when a previous time is saved -/
def stamp (file : Str) (a : Attr) (cmp : Cmp) (saved : Saved) (w : World) : Out :=
  ⟨(match lookup saved (stampKey file a) with
    | some (.num prev) =>
      (match getTime w file a with
       | .error e => .raised e
       | .ok cur => ansOfBool (cmp.app prev cur))
    | _ => .no),
   stampSaver file a⟩

/-! ## `result_dep` -/

def kResult (dep : Str) : Str := "_result:".toList ++ dep

/-- `_result_group`: `{sub: get_val(sub, 'result:') for sub in dep_task.task_dep if sub.startswith(name + ':')}` -/
def groupResult (w : World) (dep : Str) (taskDep : List Str) : Val :=
  .dict ((taskDep.filter fun s => (dep ++ [':']).isPrefixOf s).map fun s =>
    (s, match w.resultOf s with | .str r => some r | _ => none))

/-- `_get_dep_result` -/
def depResult (w : World) (dep : Str) : Val :=
  match w.group dep with
  | none => w.resultOf dep
  | some td => groupResult w dep td

def resultDep (dep : Str) (saved : Saved) (w : World) : Out :=
  ⟨(match lookup saved (kResult dep) with
    | none => .no
    | some .null => .no
    | some v => ansOfBool (valEq v (depResult w dep))),
   fun w' => .ok [(kResult dep, depResult w' dep)]⟩

/-! ## one task with one helper item, driven the way `Dependency.get_status` / the runner drive it -/

inductive Item where
  | once
  | config
  | tmo (lim : Limit)
  | stampOf (file : Str) (a : Attr) (cmp : Cmp)
  | resDep (dep : Str)
  deriving DecidableEq, Repr

def Item.call (md5 : Str → Str) (tps : Nat) : Item → Saved → World → Out
  | .once, sv, _ => runOnce sv
  | .config, sv, w => configChanged md5 sv w
  | .tmo l, sv, w => timeout tps l sv w
  | .stampOf f a c, sv, w => stamp f a c sv w
  | .resDep d, sv, w => resultDep d sv w

/-- the DB key an item reads and writes -/
def Item.key : Item → Str
  | .once => kRunOnce
  | .config => kConfig
  | .tmo _ => kSuccessTime
  | .stampOf f a _ => stampKey f a
  | .resDep d => kResult d

/-- `cmp_op(t, t)` holds for every `t` -/
def Cmp.isRefl : Cmp → Bool
  | .eq | .le | .ge | .const true => true
  | _ => false

/-- the (decidable) side condition under which a helper can be up-to-date at all right after a success: the timeout
    limit is positive, `cmp_op` is reflexive, the other task has a result, the config has a digest -/
def Item.canRepeat (tps : Nat) (w : World) : Item → Bool
  | .once => true
  | .config => w.cfg != .bad
  | .tmo l => decide (0 < limitSec l * tps)
  | .stampOf _ _ c => c.isRefl
  | .resDep d => depResult w d != .null

inductive Change where
  | tick (dt : Nat)
  | setCfg (c : Cfg)
  | setFile (f : Str) (s : Option Stat)
  | setResult (t : Str) (v : Val)
  | setGroup (t : Str) (g : Option (List Str))
  deriving Repr

def World.apply (w : World) : Change → World
  | .tick dt => { w with clock := w.clock + dt }
  | .setCfg c => { w with cfg := c }
  | .setFile f s => { w with files := fun g => if g = f then s else w.files g }
  | .setResult t v => { w with resultOf := fun g => if g = t then v else w.resultOf g }
  | .setGroup t g => { w with group := fun h => if h = t then g else w.group h }

def World.applyAll (w : World) (cs : List Change) : World := cs.foldl World.apply w

structure St where
  /-- the task's `_values_:` entry in the DB (`[]` when there is none) -/
  saved : Saved
  world : World

inductive Op where
  | change (c : Change)
  /-- `get_status` only (`doit list -s`, `doit info`) -/
  | query
  /-- `doit run`: `get_status`; unless up-to-date the action runs (the world changes by `during`); on success
      `save_extra_values` + `save_success`, on failure `remove_success` -/
  | run (ok : Bool) (during : List Change)
  deriving Repr

/-- an op that records no success: anything but a run whose action succeeds -/
def Op.noSuccess : Op → Bool
  | .run true _ => false
  | _ => true

inductive Obs where
  | changed
  | answered (a : Ans)
  | skipped
  | executedSaved (a : Ans) (saved : Saved)
  | executedSaveError (a : Ans) (e : Err)
  | executedFailed (a : Ans)
  | statusError (e : Err)
  deriving DecidableEq, Repr

/-- the outcome of the execution part of a run -/
def finishRun (s : St) (o : Out) (ok : Bool) (during : List Change) : St × Obs :=
  if ok then
    match o.saver (s.world.applyAll during) with
    | .ok kv => (⟨kv, s.world.applyAll during⟩, .executedSaved o.ans kv)
    | .error e => (⟨s.saved, s.world.applyAll during⟩, .executedSaveError o.ans e)
  else (⟨[], s.world.applyAll during⟩, .executedFailed o.ans)

def step (md5 : Str → Str) (tps : Nat) (it : Item) (s : St) : Op → St × Obs
  | .change c => (⟨s.saved, s.world.apply c⟩, .changed)
  | .query => (s, .answered (it.call md5 tps s.saved s.world).ans)
  | .run ok during =>
    match (it.call md5 tps s.saved s.world).ans with
    | .raised e => (s, .statusError e)
    | .yes => (s, .skipped)
    | _ => finishRun s (it.call md5 tps s.saved s.world) ok during

def runOps (md5 : Str → Str) (tps : Nat) (it : Item) (s : St) : List Op → St × List Obs
  | [] => (s, [])
  | o :: r =>
    let (s1, ob) := step md5 tps it s o
    let (s2, obs) := runOps md5 tps it s1 r
    (s2, ob :: obs)

def World.init : World := ⟨0, .str [], fun _ => none, fun _ => .null, fun _ => none⟩
def St.init : St := ⟨[], World.init⟩

end DoitModel.UtdTools
