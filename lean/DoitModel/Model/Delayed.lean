import DoitModel.Model.Run
/-! # M1+ — delayed task creation (`create_after`): `DelayedLoader`, placeholder tasks, the creator oracle,
`"reset generator"`, the delayed / regex-target branches of `TaskControl._filter_tasks`

Extension of the run model (Model/Run.lean) for property C15.  The base model has a *static* task table; here the
table (`TaskControl.tasks`, `TaskControl.targets`) is part of the state, because the loader section of
`TaskDispatcher._add_task` replaces placeholder tasks by what the task-creator yields.  To keep the extension small
the parts of M1 that do not interact with delayed creation are left out (calc_dep, setup-tasks, ignore marks,
teardown, the worker accounting of `MRunner`): the dispatcher (`_gen_node`, `_node_add_wait_run`, `_add_task`,
`_update_waiting`, `_check_deadlock`, `_dispatcher_generator`) is mirrored for `task_dep` edges, and the runner is

* exactly the serial `Runner` when `inp.serial`, and
* for the parallel runners an **over-approximation**: any number of tasks may be in flight, the main thread may
  call `generator.send(None)` at any time (`Choice.resume`), any running task may finish next (`Choice.finish`).
  Every behaviour of `MRunner`/`MThreadRunner` with any `-n` is a behaviour of this system, so a theorem over all
  reachable states covers all runners.

Names of tasks **and** of files (targets, command-line words) live in one id space `Name` (they are strings of one
namespace in doit: a command-line word is looked up as a task name, then as a target).  Object identity of `Task`
objects matters (`this_task.loader = DelayedLoaded` mutates the placeholder object, which may or may not still be
`self.tasks[name]`): every `TDef` carries an `oid`.  The creator functions are an oracle `make c toLoad` (what
`generate_tasks(to_load, ref())` returns), regular-expression matching is an oracle `matches`.

Core Lean only (linked into the driver). -/
namespace DoitModel.Delayed
open DoitModel.Run (RS Name dedup)

abbrev LId := Nat        -- a `DelayedLoader` *object* (every name in `creates=[…]` has its own copy)
abbrev CId := Nat        -- a task-creator function
abbrev GId := Nat        -- a `RegexGroup` object

/-- a `Task` object, reduced to what the dispatcher reads -/
structure TDef where
  deps : List Name := []           -- task_dep (with the loader's `executed` and implicit deps)
  loader : Option LId := none      -- `none`: no loader, or `DelayedLoaded`
  fileDep : List Name := []
  targets : List Name := []
  rx : Option GId := none          -- `loader.regex_groups.get(task.name)`
  isRx : Bool := false             -- `task.name.startswith('_regex_target')`
  act : Bool := false              -- has an action (its start is observable); not read by the transition system
  oid : Nat := 0
  setup : List Name := []          -- setup_tasks (with the sources of `getargs`); read by `Model/DelayedX.lean` only
  calcDep : List Name := []         -- calc_dep; read by `Model/DelayedX.lean` only
deriving Repr, Inhabited, DecidableEq

/-- one task dict yielded by a creator, after `generate_tasks` -/
structure NewTask where
  name : Name
  deps : List Name := []
  fileDep : List Name := []
  targets : List Name := []
  act : Bool := true
  setup : List Name := []          -- `setup` and the sources of `getargs` (wave 5)
  calcDep : List Name := []         -- `calc_dep` (wave 5)
  wild : List Nat := []             -- wildcard task_deps (pattern ids; `Task.wild_dep`); read by `Model/DelayedX.lean` only
deriving Repr, Inhabited, DecidableEq

inductive Err | cyclic | notFound (x : Name) | dupTarget | crash
deriving Repr, Inhabited, DecidableEq

/-- input of the run phase: what `TaskControl.process` leaves behind, and the environment oracle -/
structure Input where
  tasks0 : List (Name × TDef)              -- `TaskControl.tasks` (an OrderedDict), placeholders included
  targets0 : List (Name × Name)            -- `TaskControl.targets`: file ↦ task
  creatorOf : LId → CId
  execOf : LId → Option Name               -- `DelayedLoader.task_dep` (= `executed`)
  baseOf : LId → Option Name               -- `DelayedLoader.basename` as left by `_filter_tasks`
  gtarget : GId → Name                     -- `RegexGroup.target`
  gtasks0 : GId → List Name                -- `RegexGroup.tasks`
  make : CId → Name → List NewTask         -- creator oracle
  sel : List Name                          -- selected_tasks
  serial : Bool := true
  pinnedOnce : Bool := false               -- true: the pinned dispatcher (no `evaluated_creators` list)
  continue_ : Bool := false
  utd : Name → Bool := fun _ => false      -- `get_status` says up-to-date
  fails : Name → Bool := fun _ => false    -- the task's action fails
  noAct : Name → Bool := fun _ => false    -- no action: start is not observable
  delivers : Name → List Name := fun _ => []  -- `task.values['task_dep']` of a successfully executed (calc) task
  wmatch : Nat → Name → Bool := fun _ _ => false  -- `fnmatch.fnmatch(name, pattern)` (oracle)

inductive PC
  | start                            -- top of `_add_task`: the `regex_group.found` test
  | loopTop                          -- top of `while True`: snapshot
  | taskIter (todo : List Name)      -- `for task_dep in task_dep_list: yield self._gen_node(node, task_dep)`
  | afterDeps                        -- `continue` / `yield 'wait'` / `break`
  | loaderPc                         -- `if this_task.loader:` … `yield "reset generator"`
  | self1                            -- `yield this_task`
  | done
deriving Repr, Inhabited, DecidableEq

structure Node where
  task : TDef                        -- node.task (the object the node holds)
  pc : PC := .start
  pend : List Name                   -- node.task_dep
  snap : List Name := []             -- task_dep_list
  waitRun : List Name := []
  waitingMe : List Name := []
  status : RS := .none
  bad : Bool := false                -- bad_deps ≠ []
  anc : List Name
deriving Repr, Inhabited

inductive Ev
  | creator (c : CId)                -- the task-creator function was called
  | start (n : Name)                 -- `select_task` returned True: the task is handed to execution
  | success (n : Name) | failure (n : Name) | unmet (n : Name) | skipUtd (n : Name)
deriving Repr, Inhabited, DecidableEq

/-- the event is a terminal report of task `d` ("`d` has been processed") -/
def Ev.reports (d : Name) : Ev → Bool
  | .success n => n = d | .failure n => n = d | .unmet n => n = d | .skipUtd n => n = d
  | _ => false

inductive Susp
  | running                          -- the dispatcher generator is executing
  | yielded (n : Name)               -- it yielded node `n`; `select_task` not called yet
  | idle                             -- suspended at a yield whose value was consumed
  | holdOn                           -- suspended at `yield "hold on"`
  | stopIter                         -- returned
  | err (e : Err)                    -- raised
deriving Repr, Inhabited, DecidableEq

structure Sys where
  tasks : Name → Option TDef
  targets : Name → Option Name
  created : LId → Bool               -- DelayedLoader.created
  evaluated : List CId               -- TaskDispatcher.evaluated_creators
  gfound : GId → Bool                -- RegexGroup.found
  gtasks : GId → List Name           -- RegexGroup.tasks
  nextOid : Nat
  inherited : Name → Bool            -- TaskDispatcher.inherited_status: created task name ↦ its placeholder had bad_deps
  nodes : Name → Option Node
  ready : List Name
  waiting : List Name
  toRun : List Name
  dispatched : List Name
  cur : Option Name
  susp : Susp
  running : List Name                -- selected for execution, result not processed yet
  stop : Bool
  final : Nat
  events : List Ev                   -- newest first

def lookup0 (l : List (Name × α)) (k : Name) : Option α :=
  match l with
  | [] => none
  | (a, b) :: r => if a = k then some b else lookup0 r k

def init (inp : Input) : Sys :=
  { tasks := lookup0 inp.tasks0, targets := lookup0 inp.targets0, created := fun _ => false, evaluated := [],
    gfound := fun _ => false, gtasks := inp.gtasks0, nextOid := 1000, inherited := fun _ => false,
    nodes := fun _ => none, ready := [], waiting := [], toRun := inp.sel, dispatched := [], cur := none,
    susp := .running, running := [], stop := false, final := 0, events := [] }

def setNode (s : Sys) (n : Name) (nd : Node) : Sys :=
  { s with nodes := fun k => if k = n then some nd else s.nodes k }

def stOf (s : Sys) (d : Name) : RS :=
  match s.nodes d with
  | some x => x.status
  | none => .none

/-- `ExecNode(task, parent)` -/
def mkNode (td : TDef) (anc : List Name) : Node := { task := td, pend := td.deps, anc := anc }

/-- `_gen_node`, first time: `ExecNode(self.tasks[name], parent)` + `node.bad_deps.extend(inherited[0])` when the name
    was registered by a creator whose placeholder node had bad_deps (repair of finding C05 delayed-group-subtasks-run) -/
def mkNodeI (s : Sys) (d : Name) (td : TDef) (anc : List Name) : Node := { mkNode td anc with bad := s.inherited d }

/-! ### `_gen_node`, `_node_add_wait_run`, `_update_waiting` (task_dep edges only) -/

def genStep (s : Sys) (n : Name) (nd : Node) (d : Name) (pc' : PC) : Sys :=
  match s.nodes d with
  | some _ => if d ∈ nd.anc then { s with susp := .err .cyclic } else setNode s n { nd with pc := pc' }
  | none =>
    match s.tasks d with
    | none => { s with susp := .err .crash }             -- `self.tasks[task_name]`: KeyError
    | some td =>
      { setNode (setNode s d (mkNodeI s d td (nd.anc ++ [d]))) n { nd with pc := pc' } with ready := s.ready ++ [d] }

def unfinished (s : Sys) (d : Name) : Bool := !(stOf s d).finished

def isBad (s : Sys) (d : Name) : Bool := stOf s d = .fail || stOf s d = .ign

def Node.addWaiting (x : Node) (n : Name) : Node :=
  if n ∈ x.waitingMe then x else { x with waitingMe := x.waitingMe ++ [n] }

def registerWaiting (s : Sys) (n : Name) (waitFor : List Name) : Sys :=
  { s with nodes := fun k =>
      match s.nodes k with
      | some x => if k ∈ waitFor then some (x.addWaiting n) else some x
      | none => none }

def addWaitRun (s : Sys) (n : Name) (nd : Node) (ds : List Name) (pc' : PC) : Sys :=
  registerWaiting
    (setNode s n { nd with waitRun := ds.filter (unfinished s) ++ nd.waitRun,
                           bad := nd.bad || ds.any (isBad s), pc := pc' })
    n (ds.filter (unfinished s))

def wokenNode (pst : RS) (p : Name) (w : Node) : Node :=
  { w with waitRun := w.waitRun.filter (· ≠ p), bad := w.bad || (pst == .fail || pst == .ign) }

def wakeOne (s : Sys) (pst : RS) (p w : Name) (nd : Node) : Sys :=
  if (nd.waitRun.filter (· ≠ p)).isEmpty ∧ w ∈ s.waiting then
    { setNode s w (wokenNode pst p nd) with ready := s.ready ++ [w], waiting := s.waiting.filter (· ≠ w) }
  else setNode s w (wokenNode pst p nd)

/-- the `for waiting_node in node.waiting_me` loop in the order `perm`; `none` = the `assert` failed -/
def updateWaiting (pst : RS) (p : Name) : Sys → List Name → Option Sys
  | s, [] => some s
  | s, w :: ws =>
    match s.nodes w with
    | none => updateWaiting pst p s ws
    | some nd => if p ∉ nd.waitRun then none else updateWaiting pst p (wakeOne s pst p w nd) ws

/-- `generator.send(processed)`: `_update_waiting(processed)`, then the generator body continues.
    `none` = `perm` is not an iteration order of `processed.waiting_me`. -/
def feed (s : Sys) (p : Name) (perm : List Name) : Option Sys :=
  match s.nodes p with
  | none => some { s with susp := .err .crash }
  | some nd =>
    if nd.status.finished then
      (if perm.Perm nd.waitingMe then
        match updateWaiting nd.status p { s with dispatched := s.dispatched.filter (· ≠ p) } perm with
        | some s' => some { s' with susp := .running }
        | none => some { s with susp := .err .crash }
       else none)
    else some { s with dispatched := s.dispatched.filter (· ≠ p), susp := .running }

/-! ### the loader section of `_add_task` -/

/-- `add_implicit_task_dep(targets, task, file_deps)`: the new `task.task_dep` -/
def implicitDeps (targets : Name → Option Name) : List Name → List Name → List Name
  | deps, [] => deps
  | deps, f :: fs =>
    match targets f with
    | some o => if o ∈ deps then implicitDeps targets deps fs else implicitDeps targets (deps ++ [o]) fs
    | none => implicitDeps targets deps fs

/-- first half of `set_implicit_deps`: register the targets; `none` = "Two different tasks can't have a common target" -/
def regTargets (targets : Name → Option Name) : List (Name × Name) → Option (Name → Option Name)
  | [] => some targets
  | (f, o) :: r =>
    match targets f with
    | some _ => none
    | none => regTargets (fun k => if k = f then some o else targets k) r

def targetPairs (new : List NewTask) : List (Name × Name) :=
  new.flatMap fun nt => nt.targets.map fun f => (f, nt.name)

def newDef (targets : Name → Option Name) (oid : Nat) (nt : NewTask) : TDef :=
  { deps := implicitDeps targets nt.deps nt.fileDep, loader := none, fileDep := nt.fileDep, targets := nt.targets,
    act := nt.act, oid := oid, setup := nt.setup, calcDep := nt.calcDep }

/-- `for nt in new_tasks: self.tasks[nt.name] = nt` -/
def insertNew (targets : Name → Option Name) : Nat → (Name → Option TDef) → List NewTask → (Name → Option TDef)
  | _, tasks, [] => tasks
  | oid, tasks, nt :: r =>
    insertNew targets (oid + 1) (fun k => if k = nt.name then some (newDef targets oid nt) else tasks k) r

/-- `to_load = this_task.loader.basename or this_task.name` -/
def toLoad (inp : Input) (l : LId) (n : Name) : Name := (inp.baseOf l).getD n

/-- `if (this_loader and not this_loader.created and ref not in self.evaluated_creators):`
    (`ref = this_task.loader.creator`; the pinned code had only the first two conjuncts) -/
def mustCreate (inp : Input) (s : Sys) (l : LId) (tT : TDef) : Bool :=
  (match tT.loader with
   | some l' => !s.created l'
   | none => false) && (inp.pinnedOnce || !s.evaluated.contains (inp.creatorOf l))

/-- the creator is called (that is the observable event) and its tasks are registered; when `set_implicit_deps`
    raises ("Two different tasks can't have a common target") nothing is registered -/
def evalCreator (inp : Input) (s : Sys) (l : LId) (tname : Name) (bad : Bool) : Sys :=
  match regTargets s.targets (targetPairs (inp.make (inp.creatorOf l) tname)) with
  | none => { s with susp := .err .dupTarget, evaluated := s.evaluated ++ [inp.creatorOf l],
                     events := Ev.creator (inp.creatorOf l) :: s.events }
  | some tg =>
    { s with targets := tg, evaluated := s.evaluated ++ [inp.creatorOf l],
             tasks := insertNew tg s.nextOid s.tasks (inp.make (inp.creatorOf l) tname),
             nextOid := s.nextOid + (inp.make (inp.creatorOf l) tname).length,
             inherited := fun k => (bad && (inp.make (inp.creatorOf l) tname).any (fun nt => nt.name == k)) || s.inherited k,
             events := Ev.creator (inp.creatorOf l) :: s.events }

/-- the placeholder object after `add_implicit_task_dep(…, this_task, this_task.file_dep)`, `file_dep = {}` for a
    regex placeholder, `this_task.loader = DelayedLoaded` -/
def mutated (s : Sys) (tk : TDef) : TDef :=
  { tk with deps := implicitDeps s.targets tk.deps tk.fileDep,
            fileDep := if tk.rx.isSome then [] else tk.fileDep,
            loader := none }

/-- write the mutated placeholder object back (it is `tasks[n]` too if that is still the same object);
    `loader.created = True`; `"reset generator"` → `node.reset_task(self.tasks[name], self._add_task(node))` -/
def finishLoader (s : Sys) (n : Name) (nd : Node) (l : LId) (tk' : TDef) : Sys :=
  match s.tasks n with
  | none => { s with created := fun k => if k = l then true else s.created k, susp := .err .crash }
  | some cur =>
    if cur.oid = tk'.oid then
      { s with created := fun k => if k = l then true else s.created k,
               tasks := fun k => if k = n then some tk' else s.tasks k,
               nodes := fun k => if k = n then some { nd with task := tk', pend := tk'.deps, pc := .start }
                                 else s.nodes k }
    else
      { s with created := fun k => if k = l then true else s.created k,
               nodes := fun k => if k = n then some { nd with task := cur, pend := cur.deps, pc := .start }
                                 else s.nodes k }

/-- the `if regex_group:` block -/
def regexBlock (inp : Input) (s : Sys) (l : LId) (g : GId) : Sys :=
  match s.targets (inp.gtarget g) with
  | some _ => { s with gfound := fun k => if k = g then true else s.gfound k }
  | none =>
    match inp.baseOf l with
    | none => { s with susp := .err .crash }
    | some b =>
      if b ∈ s.gtasks g then
        (if (s.gtasks g).filter (· ≠ b) = [] then
          { s with gtasks := fun k => if k = g then [] else s.gtasks k, susp := .err (.notFound (inp.gtarget g)) }
         else { s with gtasks := fun k => if k = g then (s.gtasks g).filter (· ≠ b) else s.gtasks k })
      else { s with susp := .err .crash }                -- `set.remove`: KeyError

/-- after the creator section: implicit dep of the placeholder itself, the regex block, the reset -/
def afterCreate (inp : Input) (s : Sys) (n : Name) (nd : Node) (l : LId) : Sys :=
  match nd.task.rx with
  | none => finishLoader s n nd l (mutated s nd.task)
  | some g =>
    match (regexBlock inp s l g).susp with
    | .err _ => regexBlock inp s l g
    | _ => finishLoader (regexBlock inp s l g) n nd l (mutated s nd.task)

def loaderStep (inp : Input) (s : Sys) (n : Name) (nd : Node) (l : LId) : Sys :=
  match s.tasks (toLoad inp l n) with
  | none => { s with susp := .err .crash }               -- `self.tasks[to_load]`: KeyError
  | some tT =>
    if mustCreate inp s l tT then
      match (evalCreator inp s l (toLoad inp l n) nd.bad).susp with
      | .err _ => evalCreator inp s l (toLoad inp l n) nd.bad
      | _ => afterCreate inp (evalCreator inp s l (toLoad inp l n) nd.bad) n nd l
    else afterCreate inp s n nd l

/-! ### the generators -/

def addDispatched (s : Sys) (n : Name) : List Name :=
  if n ∈ s.dispatched then s.dispatched else s.dispatched ++ [n]

def rxFound (s : Sys) (tk : TDef) : Bool :=
  match tk.loader, tk.rx with
  | some _, some g => s.gfound g
  | _, _ => false

def nodeStep (inp : Input) (s : Sys) (n : Name) (nd : Node) : Sys :=
  match nd.pc with
  | .start => if rxFound s nd.task then setNode s n { nd with pc := .done } else setNode s n { nd with pc := .loopTop }
  | .loopTop => setNode s n { nd with snap := nd.pend, pend := [], pc := .taskIter nd.pend }
  | .taskIter (d :: ds) => genStep s n nd d (.taskIter ds)
  | .taskIter [] => addWaitRun s n nd nd.snap .afterDeps
  | .afterDeps =>
    if nd.pend ≠ [] then setNode s n { nd with pc := .loopTop }
    else if nd.waitRun ≠ [] then
      { setNode s n { nd with pc := .loopTop } with waiting := s.waiting ++ [n], cur := none }
    else setNode s n { nd with pc := .loaderPc }
  | .loaderPc =>
    match nd.task.loader with
    | none => setNode s n { nd with pc := .self1 }
    | some l => loaderStep inp s n nd l
  | .self1 => { setNode s n { nd with pc := .done } with dispatched := addDispatched s n, susp := .yielded n }
  | .done => { s with cur := none }

/-- one step of the running dispatcher generator -/
def dtick (inp : Input) (s : Sys) : Sys :=
  match s.cur with
  | some n =>
    match s.nodes n with
    | none => { s with susp := .err .crash }
    | some nd => nodeStep inp s n nd
  | none =>
    match s.ready with
    | r :: rs => { s with cur := some r, ready := rs }
    | [] =>
      match s.toRun with
      | t :: ts =>
        match s.nodes t with
        | some _ => { s with toRun := ts }
        | none =>
          match s.tasks t with
          | none => { s with susp := .err .crash }
          | some td => { setNode s t (mkNodeI s t td [t]) with cur := some t, toRun := ts }
      | [] =>
        if s.waiting ≠ [] then
          (if s.dispatched = [] then { s with susp := .err .cyclic } else { s with susp := .holdOn })
        else { s with susp := .stopIter }

/-! ### the runner -/

def failSys (inp : Input) (s : Sys) (n : Name) (nd : Node) (e : Ev) (fin : Nat) : Sys :=
  { setNode s n { nd with status := .fail } with
    events := e :: s.events, final := fin, stop := if inp.continue_ then s.stop else true }

/-- hand a terminally decided node back to the dispatcher (`continue` in `run_tasks` / `get_next_job`);
    the serial runner tests `_stop_running` first -/
def handBack (inp : Input) (s : Sys) (n : Name) (perm : List Name) : Option Sys :=
  if inp.serial ∧ s.stop then some { s with susp := .idle } else feed s n perm

/-- `select_task(node)` -/
def selectStep (inp : Input) (s : Sys) (n : Name) (perm : List Name) : Option Sys :=
  match s.nodes n with
  | none => some { s with susp := .err .crash }
  | some nd =>
    if nd.status ≠ .none then some { s with susp := .err .crash }
    else if nd.bad then handBack inp (failSys inp s n nd (.unmet n) 2) n perm
    else if inp.utd n then
      handBack inp { setNode s n { nd with status := .utd } with events := Ev.skipUtd n :: s.events } n perm
    else some { setNode s n { nd with status := .run } with
                events := Ev.start n :: s.events, running := s.running ++ [n], susp := .idle }

/-- `process_task_result(node)` and the hand-back -/
def finishStep (inp : Input) (s : Sys) (n : Name) (perm : List Name) : Option Sys :=
  if n ∈ s.running ∧ (s.susp = .idle ∨ s.susp = .holdOn ∨ s.susp = .stopIter) then
    match s.nodes n with
    | none => none
    | some nd =>
      if nd.status ≠ .run then none
      else if inp.fails n then
        (if inp.continue_ ∧ s.susp ≠ .stopIter then
          feed { failSys inp s n nd (.failure n) (if s.final = 2 then 2 else 1) with running := s.running.filter (· ≠ n) } n perm
         else some { failSys inp s n nd (.failure n) (if s.final = 2 then 2 else 1) with running := s.running.filter (· ≠ n) })
      else
        (if s.stop ∨ s.susp = .stopIter then
          some { setNode s n { nd with status := .ok } with
                 events := Ev.success n :: s.events, running := s.running.filter (· ≠ n) }
         else
          feed { setNode s n { nd with status := .ok } with
                 events := Ev.success n :: s.events, running := s.running.filter (· ≠ n) } n perm)
  else none

inductive Choice
  | tick (perm : List Name)          -- one step of the main thread inside `generator.send` / `select_task`
  | resume                           -- `generator.send(None)` (parallel runners only)
  | finish (n : Name) (perm : List Name)
deriving Repr

def step (inp : Input) (s : Sys) : Choice → Option Sys
  | .tick perm =>
    (match s.susp with
     | .running => some (dtick inp s)
     | .yielded n => selectStep inp s n perm
     | _ => none)
  | .resume =>
    if ¬ inp.serial ∧ ¬ s.stop ∧ (s.susp = .idle ∨ s.susp = .holdOn) then some { s with susp := .running } else none
  | .finish n perm => finishStep inp s n perm

inductive Reach (inp : Input) : Sys → Prop
  | init : Reach inp (init inp)
  | next {s s' c} : Reach inp s → step inp s c = some s' → Reach inp s'

def runWith (inp : Input) (s : Sys) : List Choice → Option Sys
  | [] => some s
  | c :: cs => match step inp s c with | some s' => runWith inp s' cs | none => none

/-- exit code of `DoitMain.run` -/
def exitCode (s : Sys) : Nat :=
  match s.susp with
  | .err .dupTarget => 2       -- InvalidTask is caught by `run_all`: `runtime_error`, result ERROR
  | .err _ => 3                -- everything else reaches `DoitMain.run`
  | _ => s.final

/-! ### the statements of C15 as decidable predicates over an event list (newest first).
    The same functions are the invariants proved in `Props/C15.lean` and the monitors evaluated by the driver on the
    implementation's trace. -/

/-- no creator is evaluated twice -/
def onceOK : List Ev → Bool
  | [] => true
  | .creator c :: pre => !(pre.contains (.creator c)) && onceOK pre
  | _ :: pre => onceOK pre

/-- every creator evaluation is preceded by a terminal report of each of the creator's triggers -/
def afterOK (trig : CId → List Name) : List Ev → Bool
  | [] => true
  | .creator c :: pre => (trig c).all (fun d => pre.any (Ev.reports d)) && afterOK trig pre
  | _ :: pre => afterOK trig pre

/-- the triggers of creator `c`: `executed` of every loader object of `c` that some task of the table carries -/
def trigOf (inp : Input) (c : CId) : List Name :=
  inp.tasks0.filterMap fun p =>
    match p.2.loader with
    | some l => if inp.creatorOf l = c then inp.execOf l else none
    | none => none

/-- ordering and once-only over a dependency table `deps` (the dynamic one): a `start t` is preceded by a good
    report of every dependency; no second `start`, no second terminal report; a task is reported as executed only
    after it started (`noAct`: the start of a task without actions is not observable) -/
def obeyOK (deps : Name → List Name) (noAct : Name → Bool) : List Ev → Bool
  | [] => true
  | .start t :: pre =>
    (deps t).all (fun d => pre.any (fun e => e = .success d || e = .skipUtd d))
      && !(pre.contains (.start t)) && !(pre.any (Ev.reports t)) && obeyOK deps noAct pre
  | .success t :: pre => !(pre.any (Ev.reports t)) && (noAct t || pre.contains (.start t)) && obeyOK deps noAct pre
  | .failure t :: pre => !(pre.any (Ev.reports t)) && (noAct t || pre.contains (.start t)) && obeyOK deps noAct pre
  | .unmet t :: pre => !(pre.any (Ev.reports t)) && !(pre.contains (.start t)) && obeyOK deps noAct pre
  | .skipUtd t :: pre => !(pre.any (Ev.reports t)) && !(pre.contains (.start t)) && obeyOK deps noAct pre
  | .creator _ :: pre => obeyOK deps noAct pre

/-- a dependency-respecting `start` never concerns an up-to-date task, and only up-to-date tasks are skipped -/
def utdOK (utd : Name → Bool) : List Ev → Bool
  | [] => true
  | .start t :: pre => !utd t && utdOK utd pre
  | .skipUtd t :: pre => utd t && utdOK utd pre
  | _ :: pre => utdOK utd pre

/-! ### decidable forms of the hypotheses of the C15 theorems (evaluated by the driver on every case) -/

/-- `OnceWF.resolves` -/
def resolvesB (inp : Input) : Bool :=
  inp.tasks0.all fun p =>
    match p.2.loader with
    | none => true
    | some l =>
      match lookup0 inp.tasks0 (toLoad inp l p.1) with
      | none => true
      | some td => td.loader == none || td.loader == some l

/-- `OnceWF.covers` -/
def coversB (inp : Input) : Bool :=
  inp.tasks0.all fun p => inp.tasks0.all fun q =>
    match p.2.loader, q.2.loader with
    | some l, some lq =>
      inp.creatorOf l != inp.creatorOf lq || l == lq ||
        (inp.make (inp.creatorOf l) (toLoad inp l p.1)).any (fun nt => nt.name == toLoad inp lq q.1)
    | _, _ => true

/-- `TrigWF` -/
def trigB (inp : Input) : Bool :=
  inp.tasks0.all fun p =>
    match p.2.loader with
    | none => true
    | some l => (trigOf inp (inp.creatorOf l)).all (fun d => p.2.deps.contains d)

/-- `RxWF`: a task of the initial table that belongs to a regex group (`loader.regex_groups.get(name)`) carries a
    loader and has the group's command-line word among its file_deps (`_filter_tasks` builds it that way) -/
def rxB (inp : Input) : Bool :=
  inp.tasks0.all fun p =>
    match p.2.rx with
    | none => true
    | some g => p.2.loader.isSome && p.2.fileDep.contains (inp.gtarget g)

/-- names a creator yields when it is evaluated through loader object `l` carried by task `p` -/
def yields (inp : Input) (p : Name) (l : LId) : List Name :=
  (inp.make (inp.creatorOf l) (toLoad inp l p)).map (·.name)

/-- the (task, loader object) pairs of the initial table -/
def holders (inp : Input) : List (Name × LId) :=
  inp.tasks0.filterMap fun p => p.2.loader.map fun l => (p.1, l)

/-- `RedefWF`: no creator re-defines a task that may already have been handed to execution — a yielded name is new
    or a placeholder of the same creator, the yields of different creators are disjoint, and `to_load` names a
    placeholder of the same creator (the dispatcher without the pinned `once` defect) -/
def noRedefB (inp : Input) : Bool :=
  !inp.pinnedOnce &&
  (holders inp).all fun q =>
    ((yields inp q.1 q.2).all fun m =>
       match lookup0 inp.tasks0 m with
       | none => true
       | some td =>
         match td.loader with
         | none => false
         | some l0 => inp.creatorOf l0 == inp.creatorOf q.2) &&
    ((holders inp).all fun q' =>
       inp.creatorOf q.2 == inp.creatorOf q'.2 || (yields inp q.1 q.2).all fun m => !(yields inp q'.1 q'.2).contains m) &&
    (match lookup0 inp.tasks0 (toLoad inp q.2 q.1) with
     | none => false
     | some tb =>
       match tb.loader with
       | none => false
       | some l' => inp.creatorOf l' == inp.creatorOf q.2)

/-! ### a default schedule (examples, `simulate`): the main thread runs whenever it can, otherwise the oldest running
    task finishes; sets are iterated in their stored order -/

def storedWaiting (s : Sys) (n : Name) : List Name :=
  match s.nodes n with
  | some nd => nd.waitingMe
  | none => []

def defaultChoice (s : Sys) : Choice :=
  match s.susp with
  | .running => .tick []
  | .yielded n => .tick (storedWaiting s n)
  | _ =>
    match s.running with
    | m :: _ => .finish m (storedWaiting s m)
    | [] => .resume

def autoRun (inp : Input) : Nat → Sys → Sys
  | 0, s => s
  | k + 1, s =>
    match step inp s (defaultChoice s) with
    | some s' => autoRun inp k s'
    | none => s

end DoitModel.Delayed
