/-! # M3 — the three DB backends of `doit/dependency.py` (`JsonDB`, `DbmDB`, `SqliteDB`)

Task ids, keys and values are abstract (`Nat`; the harness interns the real strings / JSON values).
A record is the per-task dict; the persistent store and every cache are maps `task → Option record`.

`reopen` = `dump()` (as `Dependency.close` does) followed by constructing a new backend object on the
same file.  The specification (`specStep`) is one in-memory map on which `reopen` is the identity.

Mirrors the code *as repaired* by the `fix:` commits for F-C07a/b (`set` loads the stored record of a task
not read yet; `SqliteDB.in_` consults `_dirty`); the pinned behaviour is kept as `dbmStepPinned` /
`sqlStepPinned` for the counterexample theorems.
-/
namespace DoitModel.KV

abbrev T := Nat   -- task id
abbrev Ky := Nat  -- key inside a task record
abbrev V := Nat   -- (interned) JSON value

/-- one task's record: python dict, newest binding first -/
abbrev Rcd := List (Ky × V)
def Rcd.get (r : Rcd) (k : Ky) : Option V := (r.find? (·.1 = k)).map (·.2)
def Rcd.set (r : Rcd) (k : Ky) (v : V) : Rcd := (k, v) :: r.filter (·.1 ≠ k)

abbrev Map := T → Option Rcd
def Map.upd (m : Map) (t : T) (r : Option Rcd) : Map := fun x => if x = t then r else m x
def Map.empty : Map := fun _ => none

inductive Op
  | set (t : T) (k : Ky) (v : V) | get (t : T) (k : Ky) | has (t : T)
  | remove (t : T) | removeAll | reopen
deriving DecidableEq, Repr

inductive Out | unit | val (v : Option V) | bool (b : Bool)
deriving DecidableEq, Repr

/-- the specification: a map `task → {key → value}`; close-and-reopen changes nothing -/
def specStep (m : Map) : Op → Map × Out
  | .set t k v => (m.upd t (some (((m t).getD []).set k v)), .unit)
  | .get t k => (m, .val ((m t).bind (·.get k)))
  | .has t => (m, .bool (m t).isSome)
  | .remove t => (m.upd t none, .unit)
  | .removeAll => (Map.empty, .unit)
  | .reopen => (m, .unit)

/-! ## JsonDB: whole file loaded at open, written at dump -/
structure JsonSt where
  file : Map     -- content of the json file
  db : Map       -- self._db

def jsonStep (s : JsonSt) : Op → JsonSt × Out
  | .set t k v => ({ s with db := s.db.upd t (some (((s.db t).getD []).set k v)) }, .unit)
  | .get t k => (s, .val ((s.db t).bind (·.get k)))
  | .has t => (s, .bool (s.db t).isSome)
  | .remove t => ({ s with db := s.db.upd t none }, .unit)
  | .removeAll => ({ s with db := Map.empty }, .unit)
  | .reopen => ({ file := s.db, db := s.db }, .unit)   -- dump writes _db; __init__ loads the file

def jsonAbs (s : JsonSt) : Map := s.db
def jsonOpen (file : Map) : JsonSt := { file := file, db := file }

/-! ## DbmDB: `_dbm` (persistent; write-through for remove / remove_all), `_db` cache, `dirty` set -/
structure Dbm where
  dbm : Map
  cache : Map
  dirty : T → Bool

/-- `DbmDB.get` on the cache/dbm: the record it returns values from, and the new cache -/
def dbmLoad (s : Dbm) (t : T) : Dbm :=
  match s.cache t with
  | some _ => s
  | none =>
    match s.dbm t with
    | none => s
    | some r => { s with cache := s.cache.upd t (some r) }

def dbmStep (s : Dbm) : Op → Dbm × Out
  | .set t k v =>
    -- `if task_id not in self._db: self.get(...); if task_id not in self._db: self._db[task_id] = {}`
    let s1 := dbmLoad s t
    ({ s1 with cache := s1.cache.upd t (some (((s1.cache t).getD []).set k v)),
               dirty := fun x => if x = t then true else s1.dirty x }, .unit)
  | .get t k =>
    let s1 := dbmLoad s t
    (s1, .val ((s1.cache t).bind (·.get k)))
  | .has t => (s, .bool ((s.dbm t).isSome || s.dirty t))
  | .remove t =>
    ({ dbm := s.dbm.upd t none, cache := s.cache.upd t none,
       dirty := fun x => if x = t then false else s.dirty x }, .unit)
  | .removeAll => ({ dbm := Map.empty, cache := Map.empty, dirty := fun _ => false }, .unit)
  | .reopen =>
    ({ dbm := fun t => if s.dirty t then s.cache t else s.dbm t,
       cache := Map.empty, dirty := fun _ => false }, .unit)

/-- the pinned (pre-fix) `set`: a task absent from the cache starts from an empty dict -/
def dbmStepPinned (s : Dbm) : Op → Dbm × Out
  | .set t k v =>
    ({ s with cache := s.cache.upd t (some (((s.cache t).getD []).set k v)),
              dirty := fun x => if x = t then true else s.dirty x }, .unit)
  | op => dbmStep s op

def dbmAbs (s : Dbm) : Map := fun t => match s.cache t with | some r => some r | none => s.dbm t
def dbmOpen (file : Map) : Dbm := { dbm := file, cache := Map.empty, dirty := fun _ => false }

/-! ## SqliteDB: connection view `txn` (committed at dump), `_cache`, `_dirty` -/
structure Sql where
  committed : Map    -- what a new connection would see
  txn : Map          -- what this connection sees (uncommitted deletes included)
  cache : Map
  dirty : T → Bool

/-- `_get_task_data`: the stored dict or `{}` -/
def sqlData (s : Sql) (t : T) : Rcd := (s.txn t).getD []

def sqlStep (s : Sql) : Op → Sql × Out
  | .set t k v =>
    let base : Rcd := match s.cache t with | some r => r | none => sqlData s t
    ({ s with cache := s.cache.upd t (some (base.set k v)),
              dirty := fun x => if x = t then true else s.dirty x }, .unit)
  | .get t k =>
    match s.cache t with
    | some r => (s, .val (r.get k))
    | none => ({ s with cache := s.cache.upd t (some (sqlData s t)) }, .val ((sqlData s t).get k))
  | .has t => (s, .bool (s.dirty t || (s.txn t).isSome))
  | .remove t =>
    ({ s with cache := s.cache.upd t none, dirty := fun x => if x = t then false else s.dirty x,
              txn := s.txn.upd t none }, .unit)
  | .removeAll => ({ s with txn := Map.empty, cache := Map.empty, dirty := fun _ => false }, .unit)
  | .reopen =>
    let stored : Map := fun t => if s.dirty t then s.cache t else s.txn t
    ({ committed := stored, txn := stored, cache := Map.empty, dirty := fun _ => false }, .unit)

/-- pinned (pre-fix): `set` starts from `{}` for an uncached task; `in_` looks at the cache -/
def sqlStepPinned (s : Sql) : Op → Sql × Out
  | .set t k v =>
    ({ s with cache := s.cache.upd t (some (((s.cache t).getD []).set k v)),
              dirty := fun x => if x = t then true else s.dirty x }, .unit)
  | .has t => (s, .bool ((s.cache t).isSome || (s.txn t).isSome))
  | op => sqlStep s op

def sqlAbs (s : Sql) : Map := fun t => if s.dirty t then s.cache t else s.txn t
def sqlOpen (file : Map) : Sql := { committed := file, txn := file, cache := Map.empty, dirty := fun _ => false }

/-! ## running op lists -/
def runWith {S : Type} (step : S → Op → S × Out) (s : S) (ops : List Op) : S × List Out :=
  ops.foldl (fun (st : S × List Out) op => let r := step st.1 op; (r.1, st.2 ++ [r.2])) (s, [])

inductive Backend | json | dbm | sqlite
deriving DecidableEq, Repr

/-- outputs of a backend started on an empty file -/
def outputs (b : Backend) (ops : List Op) : List Out :=
  match b with
  | .json => (runWith jsonStep (jsonOpen Map.empty) ops).2
  | .dbm => (runWith dbmStep (dbmOpen Map.empty) ops).2
  | .sqlite => (runWith sqlStep (sqlOpen Map.empty) ops).2

def specOutputs (ops : List Op) : List Out := (runWith specStep Map.empty ops).2

end DoitModel.KV
