/-! # The TEXT reporters of `doit/reporter.py` as pure functions of the reporter-call sequence

`ConsoleReporter`, `ExecutedOnlyReporter`, `ZeroReporter`, `ErrorOnlyReporter`: from the sequence of reporter calls
(`get_status` / `execute_task` / `add_failure` / `add_success` / `skip_uptodate` / `skip_ignore` / `cleanup_error` /
`runtime_error` / `teardown_task` / `complete_run`) to the list of chunks written to `outstream` (and to `sys.stderr`).
Task names, titles, failure class names and messages are opaque strings.  What the reporter reads from a task object
is a `TaskI` record; `executed`, `verbosity` and the captured `out` / `err` are the values `complete_run` sees.

The output is a list of structured `Line`s (one per `write` group); `Line.text` is the exact text of each, and the
correspondence compares the concatenation with what the real classes wrote, character by character.  Core Lean only. -/
namespace DoitModel.ReportText

/-- the four text reporter classes -/
inductive Cls | console | executedOnly | zero | errorOnly
deriving DecidableEq, Repr, Inhabited

/-- what the reporters read from a `Task` -/
structure TaskI where
  name : String := ""
  title : String := ""        -- `'%s' % task.title()` (custom title callable or the name)
  hasActions : Bool := true   -- `bool(task.actions)`
  executed : Bool := true     -- `task.executed` (read by `complete_run`)
  verb : Nat := 0             -- `task.verbosity` (read by `complete_run`)
  out : String := ""          -- `"".join(a.out for a in task.actions if a.out)`
  err : String := ""          -- `"".join(a.err for a in task.actions if a.err)`
deriving Repr, Inhabited

/-- `task.name[0] == '_'`: only a leading underscore of the FULL name hides (`g:_x` is not hidden) -/
def TaskI.hidden (t : TaskI) : Bool := t.name.toList.head? == some '_'

/-- `task.actions and (task.name[0] != '_')` (`ConsoleReporter.execute_task`) -/
def TaskI.visibleExec (t : TaskI) : Bool := t.hasActions && !t.hidden

/-- a `BaseFail` object: `get_name()`, `get_msg()`, `report` -/
structure Fail where
  cls : String := ""
  msg : String := ""
  report : Bool := true
deriving DecidableEq, Repr, Inhabited

/-- one call of the reporter interface (tasks are indices into the task table) -/
inductive RCall
  | getStatus (t : Nat) | execute (t : Nat) | addFailure (t : Nat) (f : Fail) | addSuccess (t : Nat)
  | skipUtd (t : Nat) | skipIgn (t : Nat) | cleanupError (m : String) | runtimeError (m : String)
  | teardown (t : Nat) | complete
deriving DecidableEq, Repr, Inhabited

/-- one group of `write`s -/
inductive Line
  | exec (t : Nat)                  -- ".  <title>\n"
  | utd (t : Nat)                   -- "-- <title>\n"
  | ign (t : Nat)                   -- "!! <title>\n"
  | failHdr (t : Nat) (f : Fail)    -- add_failure: "<FailClass> - taskid:<name>\n"
  | failMsg (f : Fail)              -- "<get_msg()>\n"
  | sep                             -- 40 × '#' "\n"
  | failAgain (t : Nat) (f : Fail)  -- complete_run: the header again
  | errSec (t : Nat)                -- "<name> <stderr>:\n<err>\n"
  | outSec (t : Nat)                -- "<name> <stdout>:\n<out>\n"
  | aborted                         -- "Execution aborted.\n"
  | rtErrs (ms : List String)       -- "\n".join(runtime_errors) "\n"
  | eoHdr (t : Nat) (f : Fail)      -- ErrorOnlyReporter: "taskid:<name> - <FailClass>\n"
deriving DecidableEq, Repr, Inhabited

/-- reporter object: text written so far (oldest first), `self.failures`, `self.runtime_errors`, and what went to
    `sys.stderr` -/
structure St where
  out : List Line := []
  failures : List (Nat × Fail) := []
  rtErrs : List String := []
  err : List String := []
deriving Repr, Inhabited

/-- `ConsoleReporter` or its subclass that keeps `execute_task` / `add_failure` / `complete_run` -/
def isCon (c : Cls) : Bool := c == .console || c == .executedOnly

/-- `show_err = task.verbosity < 1 or self.failure_verbosity > 0` -/
def showErr (fv : Nat) (t : TaskI) : Bool := decide (t.verb < 1) || decide (fv > 0)
/-- `show_out = task.verbosity < 2 or self.failure_verbosity == 2` -/
def showOut (fv : Nat) (t : TaskI) : Bool := decide (t.verb < 2) || fv == 2

/-- whether `complete_run` writes a block for this entry of `self.failures` -/
def shown (fv : Nat) (tk : Nat → TaskI) (p : Nat × Fail) : Bool :=
  (tk p.1).executed && (showErr fv (tk p.1) || showOut fv (tk p.1))

def errPart (fv : Nat) (p : Nat × Fail) : List Line :=
  if fv = 0 then [.failAgain p.1 p.2, .errSec p.1] else [.failAgain p.1 p.2, .failMsg p.2, .errSec p.1]

/-- `complete_run`, one entry of `self.failures` -/
def block (fv : Nat) (tk : Nat → TaskI) (p : Nat × Fail) : List Line :=
  if (tk p.1).executed = false then []
  else if showErr fv (tk p.1) = true then
    (if showOut fv (tk p.1) = true then .sep :: errPart fv p ++ [.outSec p.1] else .sep :: errPart fv p)
  else (if showOut fv (tk p.1) = true then [.sep, .outSec p.1] else [])

/-- the runtime-error trailer of `complete_run` -/
def trailer (rt : List String) : List Line :=
  if rt = [] then [] else [.sep, .aborted, .rtErrs rt]

/-- everything `ConsoleReporter.complete_run` writes -/
def summary (fv : Nat) (tk : Nat → TaskI) (s : St) : List Line :=
  s.failures.flatMap (block fv tk) ++ trailer s.rtErrs

def St.put (s : St) (ls : List Line) : St := { s with out := s.out ++ ls }

/-- one reporter call -/
def step (c : Cls) (fv : Nat) (tk : Nat → TaskI) (s : St) : RCall → St
  | .execute t => if (isCon c && (tk t).visibleExec) = true then s.put [.exec t] else s
  | .skipUtd t => if (c == .console && !(tk t).hidden) = true then s.put [.utd t] else s
  | .skipIgn t => if c = .console then s.put [.ign t] else s
  | .addFailure t f =>
    if f.report = false then s
    else if isCon c = true then { s with out := s.out ++ [.failHdr t f, .failMsg f], failures := s.failures ++ [(t, f)] }
    else if c = .errorOnly then s.put [.eoHdr t f, .failMsg f]
    else s
  | .cleanupError m => { s with err := s.err ++ [m] }
  | .runtimeError m => if isCon c = true then { s with rtErrs := s.rtErrs ++ [m] } else { s with err := s.err ++ [m] }
  | .complete => if isCon c = true then s.put (summary fv tk s) else s
  | .getStatus _ | .addSuccess _ | .teardown _ => s

def run (c : Cls) (fv : Nat) (tk : Nat → TaskI) (cs : List RCall) : St := cs.foldl (step c fv tk) {}

/-! ### exact text -/

def hashes : String := String.ofList (List.replicate 40 '#')

def Line.text (tk : Nat → TaskI) : Line → String
  | .exec t => ".  " ++ (tk t).title ++ "\n"
  | .utd t => "-- " ++ (tk t).title ++ "\n"
  | .ign t => "!! " ++ (tk t).title ++ "\n"
  | .failHdr t f | .failAgain t f => f.cls ++ " - taskid:" ++ (tk t).name ++ "\n"
  | .failMsg f => f.msg ++ "\n"
  | .sep => hashes ++ "\n"
  | .errSec t => (tk t).name ++ " <stderr>:\n" ++ (tk t).err ++ "\n"
  | .outSec t => (tk t).name ++ " <stdout>:\n" ++ (tk t).out ++ "\n"
  | .aborted => "Execution aborted.\n"
  | .rtErrs ms => "\n".intercalate ms ++ "\n"
  | .eoHdr t f => "taskid:" ++ (tk t).name ++ " - " ++ f.cls ++ "\n"

def outText (tk : Nat → TaskI) (s : St) : String := String.join (s.out.map (Line.text tk))
def errText (s : St) : String := String.join s.err

/-! ### what the theorems talk about -/

inductive PKind | executed | upToDate | ignored
deriving DecidableEq, Repr, Inhabited

/-- the progress lines (prefix table `.  ` / `-- ` / `!! `) -/
def Line.progress : Line → Option (Nat × PKind)
  | .exec t => some (t, .executed)
  | .utd t => some (t, .upToDate)
  | .ign t => some (t, .ignored)
  | _ => none

def decodeProgress (ls : List Line) : List (Nat × PKind) := ls.filterMap Line.progress

/-- what happened, as far as `ConsoleReporter` shows it: execution of a task with actions whose name does not start
    with `_`, an up-to-date skip of a task whose name does not start with `_`, every ignore skip (sic: `skip_ignore`
    does not look at the name) -/
def RCall.happened (tk : Nat → TaskI) : RCall → Option (Nat × PKind)
  | .execute t => if (tk t).visibleExec = true then some (t, .executed) else none
  | .skipUtd t => if (tk t).hidden = false then some (t, .upToDate) else none
  | .skipIgn t => some (t, .ignored)
  | _ => none

def Line.isSkip : Line → Bool
  | .utd _ | .ign _ => true
  | _ => false

/-- the failures handed to the reporter with `report=True`, in order of occurrence -/
def RCall.reported : RCall → Option (Nat × Fail)
  | .addFailure t f => if f.report = true then some (t, f) else none
  | _ => none

/-- the header lines written when the failure is reported -/
def Line.hdr : Line → Option (Nat × Fail)
  | .failHdr t f => some (t, f)
  | _ => none

def Line.eo : Line → Option (Nat × Fail)
  | .eoHdr t f => some (t, f)
  | _ => none

/-- tasks named by the blocks of a `complete_run` summary: a separator line followed by a failure header or (when only
    the captured stdout is shown) by the `<stdout>` section -/
def decodeBlocks : List Line → List Nat
  | [] => []
  | .sep :: .failAgain t _ :: rest => t :: decodeBlocks rest
  | .sep :: .outSec t :: rest => t :: decodeBlocks rest
  | _ :: rest => decodeBlocks rest

/-- messages that go to `sys.stderr` with the Zero / ErrorOnly reporters -/
def RCall.stderrMsg (c : Cls) : RCall → Option String
  | .cleanupError m => some m
  | .runtimeError m => if isCon c = true then none else some m
  | _ => none

end DoitModel.ReportText
