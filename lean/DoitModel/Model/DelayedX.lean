import DoitModel.Model.Delayed
/-! # M1+X — delayed task creation with `setup` / `calc_dep` / `getargs` edges on the tasks involved (wave 5)

The transition system of `Model/Delayed.lean` (same `Input`, `TDef`, `NewTask`, `Ev`, `Susp`, `Choice`, same loader
section, same runner) with the three parts of `TaskDispatcher._add_task` that file leaves out:

* **calc_dep** — `node.calc_dep` / `node.wait_run_calc`: the loop snapshot takes both lists, the calc_dep nodes are
  generated first, `_node_add_wait_run(…, calc=True)` and the calc branch of `_update_waiting` call
  `_process_calc_dep_results`: the `task_dep` values the (successfully executed) calc task delivers
  (`Input.delivers`) are appended to `task.task_dep` of the waiting `Task` OBJECT (no de-duplication:
  `_expand_task_dep` appends) and to `node.task_dep`; a finished calc_dep makes the waiting node ready at once
  (`is_ready = True`) although other dependencies may still be awaited;
* **setup** — `yield this_task` twice: the first `select_task` of a task with `setup_tasks` that is going to run
  returns False with `run_status = 'run'` (no start), the node is handed back, the generator makes the nodes of the
  setup-tasks, waits for them (`wait_run`), and yields the task again; the second `select_task` re-checks `bad_deps`;
  the `wait_select` branch (`run_status is None` after the first yield) is mirrored as well;
* **wildcard task_dep of a created task** (repair 71e546b) — expanded against `list(self.tasks)` right after the batch is
  registered (`Sys.order`, `wildDeps`; `fnmatch` is the oracle `Input.wmatch`);
* **getargs** — `Task._init_getargs` + `result_dep(setup_dep=True)`: the source is appended to `setup_tasks` (the
  harness builds `TDef.setup` that way); its effect on up-to-date-ness is part of the oracle `inp.utd`.

A created task carries these edges because `newDef` copies `NewTask.setup` / `NewTask.calcDep`, and
`ExecNode.reset_task` re-initialises `node.task_dep` **and** `node.calc_dep` from the created object.

Core Lean only (linked into the driver). -/
namespace DoitModel.DelayedX
open DoitModel.Run (RS Name dedup)
open DoitModel.Delayed (LId CId GId TDef NewTask Err Input Ev Susp Choice lookup0 implicitDeps regTargets targetPairs
  newDef insertNew toLoad mutated)

inductive PC
  | start                            -- top of `_add_task`: the `regex_group.found` test
  | loopTop                          -- top of `while True`: snapshots
  | calcIter (todo : List Name)      -- `for calc_dep in calc_dep_list: yield self._gen_node(node, calc_dep)`
  | taskIter (todo : List Name)      -- `for task_dep in task_dep_list: yield self._gen_node(node, task_dep)`
  | afterDeps                        -- `continue` / `yield 'wait'` / `break`
  | loaderPc                         -- `if this_task.loader:` … `yield "reset generator"`
  | self1                            -- `yield this_task`
  | setup1                           -- `if this_task.setup_tasks:` … `if node.run_status is None`
  | setup2                           -- `if node.run_status == 'run':`
  | setupIter (todo : List Name)     -- `for setup_task in this_task.setup_tasks: yield self._gen_node(…)`
  | self2                            -- `yield this_task` (re-send)
  | done
deriving Repr, Inhabited, DecidableEq

structure Node where
  task : TDef
  pc : PC := .start
  pend : List Name                   -- node.task_dep
  calcPend : List Name               -- node.calc_dep
  snap : List Name := []             -- task_dep_list
  calcSnap : List Name := []         -- calc_dep_list
  waitRun : List Name := []
  waitCalc : List Name := []         -- node.wait_run_calc
  waitSelect : Bool := false
  waitingMe : List Name := []
  status : RS := .none
  bad : Bool := false
  anc : List Name
deriving Repr, Inhabited

structure Sys where
  tasks : Name → Option TDef
  targets : Name → Option Name
  created : LId → Bool
  evaluated : List CId
  gfound : GId → Bool
  gtasks : GId → List Name
  nextOid : Nat
  inherited : Name → Bool            -- TaskDispatcher.inherited_status: created task name ↦ its placeholder had bad_deps
  order : List Name                  -- `list(self.tasks)`: the keys of the task table in insertion order
  nodes : Name → Option Node
  ready : List Name
  waiting : List Name
  toRun : List Name
  dispatched : List Name
  cur : Option Name
  susp : Susp
  running : List Name
  stop : Bool
  final : Nat
  events : List Ev                   -- newest first

def init (inp : Input) : Sys :=
  { tasks := lookup0 inp.tasks0, targets := lookup0 inp.targets0, created := fun _ => false, evaluated := [],
    gfound := fun _ => false, gtasks := inp.gtasks0, nextOid := 1000, inherited := fun _ => false, order := inp.tasks0.map Prod.fst,
    nodes := fun _ => none, ready := [], waiting := [], toRun := inp.sel, dispatched := [], cur := none,
    susp := .running, running := [], stop := false, final := 0, events := [] }

def setNode (s : Sys) (n : Name) (nd : Node) : Sys :=
  { s with nodes := fun k => if k = n then some nd else s.nodes k }

def stOf (s : Sys) (d : Name) : RS :=
  match s.nodes d with
  | some x => x.status
  | none => .none

/-- `ExecNode(task, parent)` / `reset_task`: `task_dep = task.task_dep[:]`, `calc_dep = task.calc_dep.copy()` -/
def mkNode (td : TDef) (anc : List Name) : Node := { task := td, pend := td.deps, calcPend := td.calcDep, anc := anc }

/-- `_gen_node`, first time: `ExecNode(self.tasks[name], parent)` + `node.bad_deps.extend(inherited[0])` when the name
    was registered by a creator whose placeholder node had bad_deps (repair of finding C05 delayed-group-subtasks-run) -/
def mkNodeI (s : Sys) (d : Name) (td : TDef) (anc : List Name) : Node := { mkNode td anc with bad := s.inherited d }

/-! ### `_gen_node`, `_node_add_wait_run`, `_process_calc_dep_results`, `_update_waiting` -/

def genStep (s : Sys) (n : Name) (nd : Node) (d : Name) (pc' : PC) : Sys :=
  match s.nodes d with
  | some _ => if d ∈ nd.anc then { s with susp := .err .cyclic } else setNode s n { nd with pc := pc' }
  | none =>
    match s.tasks d with
    | none => { s with susp := .err .crash }
    | some td =>
      { setNode (setNode s d (mkNodeI s d td (nd.anc ++ [d]))) n { nd with pc := pc' } with ready := s.ready ++ [d] }

def unfinished (s : Sys) (d : Name) : Bool := !(stOf s d).finished

def isBad (s : Sys) (d : Name) : Bool := stOf s d = .fail || stOf s d = .ign

def Node.addWaiting (x : Node) (n : Name) : Node :=
  if n ∈ x.waitingMe then x else { x with waitingMe := x.waitingMe ++ [n] }

def registerWaiting (s : Sys) (n : Name) (waitFor : List Name) : Sys :=
  { s with nodes := fun k =>
      match s.nodes k with
      | some x => if k ∈ waitFor then some (x.addWaiting n) else some x
      | none => none }

def addWaitRun (s : Sys) (n : Name) (nd : Node) (ds : List Name) (pc' : PC) : Sys :=
  registerWaiting
    (setNode s n { nd with waitRun := ds.filter (unfinished s) ++ nd.waitRun,
                           bad := nd.bad || ds.any (isBad s), pc := pc' })
    n (ds.filter (unfinished s))

/-- what `node.task.values` of calc task `c` delivers as `task_dep`: the values of a task that was executed
    successfully in this run (a failed task has none; an up-to-date one has those saved by an earlier run: none on a
    fresh DB, which is what the harness uses) -/
def delivered (inp : Input) (s : Sys) (c : Name) : List Name :=
  if stOf s c = .ok then inp.delivers c else []

/-- `_process_calc_dep_results(dep_node, waiting_node)` on the waiting node's record: the `Task` object and
    `node.task_dep` are extended -/
def calcNode (ds : List Name) (w : Node) : Node :=
  { w with task := { w.task with deps := w.task.deps ++ ds }, pend := w.pend ++ ds }

/-- the `Task` object is shared with `TaskControl.tasks[name]` when that entry is still the same object
    (a `Sys → Sys` function on purpose: a function returning the table would be re-evaluated on every lookup) -/
def withCalcTable (s : Sys) (w : Name) (oid : Nat) (ds : List Name) : Sys :=
  if ds = [] then s else
  match s.tasks w with
  | some cur =>
    if cur.oid = oid then { s with tasks := fun k => if k = w then some { cur with deps := cur.deps ++ ds } else s.tasks k }
    else s
  | none => s

/-- `_node_add_wait_run(node, calc_dep_list, calc=True)` -/
def addWaitCalc (inp : Input) (s : Sys) (n : Name) (nd : Node) (cs : List Name) (pc' : PC) : Sys :=
  let got := (cs.filter (fun c => !unfinished s c)).flatMap (delivered inp s)
  registerWaiting
    (withCalcTable (setNode s n (calcNode got { nd with waitCalc := cs.filter (unfinished s) ++ nd.waitCalc,
                                                        bad := nd.bad || cs.any (isBad s), pc := pc' }))
      n nd.task.oid got)
    n (cs.filter (unfinished s))

/-- one iteration of `for waiting_node in node.waiting_me`; `none` = `assert task_name in wait_run_calc` failed -/
def wakeOne (inp : Input) (s : Sys) (pst : RS) (p w : Name) (nd : Node) : Option Sys :=
  let inRun := p ∈ nd.waitRun
  let wr := nd.waitRun.filter (· ≠ p)
  let bad' := nd.bad || (pst == .fail || pst == .ign)
  if ¬ inRun ∨ p ∈ nd.waitCalc then
    if p ∈ nd.waitCalc then
      let nd' := calcNode (delivered inp s p) { nd with waitRun := wr, waitCalc := nd.waitCalc.filter (· ≠ p), bad := bad' }
      let s1 := withCalcTable (setNode s w nd') w nd.task.oid (delivered inp s p)
      some (if w ∈ s.waiting then { s1 with ready := s.ready ++ [w], waiting := s.waiting.filter (· ≠ w) } else s1)
    else none
  else
    let s1 := setNode s w { nd with waitRun := wr, bad := bad' }
    some (if wr.isEmpty ∧ nd.waitCalc.isEmpty ∧ w ∈ s.waiting then
            { s1 with ready := s.ready ++ [w], waiting := s.waiting.filter (· ≠ w) } else s1)

def updateWaiting (inp : Input) (pst : RS) (p : Name) : Sys → List Name → Option Sys
  | s, [] => some s
  | s, w :: ws =>
    match s.nodes w with
    | none => updateWaiting inp pst p s ws
    | some nd =>
      match wakeOne inp s pst p w nd with
      | some s' => updateWaiting inp pst p s' ws
      | none => none

/-- `if node.wait_select: self.ready.append(node); self.waiting.remove(node); node.wait_select = False` -/
def clearSelect (s : Sys) (p : Name) (nd : Node) : Sys :=
  if nd.waitSelect then
    { setNode s p { nd with waitSelect := false } with ready := s.ready ++ [p], waiting := s.waiting.filter (· ≠ p) }
  else s

/-- `generator.send(processed)`: `_update_waiting(processed)`, then the generator body continues -/
def feed (inp : Input) (s : Sys) (p : Name) (perm : List Name) : Option Sys :=
  match s.nodes p with
  | none => some { s with susp := .err .crash }
  | some nd =>
    let s0 := clearSelect { s with dispatched := s.dispatched.filter (· ≠ p) } p nd
    if nd.status.finished then
      (if perm.Perm nd.waitingMe then
        match updateWaiting inp nd.status p s0 perm with
        | some s' => some { s' with susp := .running }
        | none => some { s with susp := .err .crash }
       else none)
    else some { s0 with susp := .running }

/-! ### the loader section of `_add_task` (as in `Model/Delayed.lean`) -/

def mustCreate (inp : Input) (s : Sys) (l : LId) (tT : TDef) : Bool :=
  (match tT.loader with
   | some l' => !s.created l'
   | none => false) && (inp.pinnedOnce || !s.evaluated.contains (inp.creatorOf l))

/-- keys of the table after `for nt in new_tasks: self.tasks[nt.name] = nt` (a re-assigned key keeps its place) -/
def orderAfter : List Name → List NewTask → List Name
  | order, [] => order
  | order, nt :: r => orderAfter (if nt.name ∈ order then order else order ++ [nt.name]) r

/-- the wildcard block (repair 71e546b): `nt.task_dep.extend(name for name in list(self.tasks) if fnmatch(name, pattern))`
    for every pattern of `nt.wild_dep`, over the table with the whole batch registered; no de-duplication -/
def wildDeps (inp : Input) (order : List Name) (nt : NewTask) : List Name :=
  nt.wild.flatMap fun p => order.filter (inp.wmatch p)

def insertNewW (inp : Input) (order : List Name) (targets : Name → Option Name) :
    Nat → (Name → Option TDef) → List NewTask → (Name → Option TDef)
  | _, tasks, [] => tasks
  | oid, tasks, nt :: r =>
    insertNewW inp order targets (oid + 1)
      (fun k => if k = nt.name then
                  some { newDef targets oid nt with deps := (newDef targets oid nt).deps ++ wildDeps inp order nt }
                else tasks k) r

def evalCreator (inp : Input) (s : Sys) (l : LId) (tname : Name) (bad : Bool) : Sys :=
  match regTargets s.targets (targetPairs (inp.make (inp.creatorOf l) tname)) with
  | none => { s with susp := .err .dupTarget, evaluated := s.evaluated ++ [inp.creatorOf l],
                     events := Ev.creator (inp.creatorOf l) :: s.events }
  | some tg =>
    { s with targets := tg, evaluated := s.evaluated ++ [inp.creatorOf l],
             tasks := insertNewW inp (orderAfter s.order (inp.make (inp.creatorOf l) tname)) tg s.nextOid s.tasks
                        (inp.make (inp.creatorOf l) tname),
             order := orderAfter s.order (inp.make (inp.creatorOf l) tname),
             nextOid := s.nextOid + (inp.make (inp.creatorOf l) tname).length,
             inherited := fun k => (bad && (inp.make (inp.creatorOf l) tname).any (fun nt => nt.name == k)) || s.inherited k,
             events := Ev.creator (inp.creatorOf l) :: s.events }

/-- `node.reset_task(self.tasks[name], self._add_task(node))`: `task_dep` and `calc_dep` are re-initialised -/
def resetNode (nd : Node) (td : TDef) : Node :=
  { nd with task := td, pend := td.deps, calcPend := td.calcDep, pc := .start }

def finishLoader (s : Sys) (n : Name) (nd : Node) (l : LId) (tk' : TDef) : Sys :=
  match s.tasks n with
  | none => { s with created := fun k => if k = l then true else s.created k, susp := .err .crash }
  | some cur =>
    if cur.oid = tk'.oid then
      { s with created := fun k => if k = l then true else s.created k,
               tasks := fun k => if k = n then some tk' else s.tasks k,
               nodes := fun k => if k = n then some (resetNode nd tk') else s.nodes k }
    else
      { s with created := fun k => if k = l then true else s.created k,
               nodes := fun k => if k = n then some (resetNode nd cur) else s.nodes k }

def regexBlock (inp : Input) (s : Sys) (l : LId) (g : GId) : Sys :=
  match s.targets (inp.gtarget g) with
  | some _ => { s with gfound := fun k => if k = g then true else s.gfound k }
  | none =>
    match inp.baseOf l with
    | none => { s with susp := .err .crash }
    | some b =>
      if b ∈ s.gtasks g then
        (if (s.gtasks g).filter (· ≠ b) = [] then
          { s with gtasks := fun k => if k = g then [] else s.gtasks k, susp := .err (.notFound (inp.gtarget g)) }
         else { s with gtasks := fun k => if k = g then (s.gtasks g).filter (· ≠ b) else s.gtasks k })
      else { s with susp := .err .crash }

/-- `mutated` of `Model/Delayed.lean` over this system's target map -/
def mutatedX (s : Sys) (tk : TDef) : TDef :=
  { tk with deps := implicitDeps s.targets tk.deps tk.fileDep,
            fileDep := if tk.rx.isSome then [] else tk.fileDep,
            loader := none }

def afterCreate (inp : Input) (s : Sys) (n : Name) (nd : Node) (l : LId) : Sys :=
  match nd.task.rx with
  | none => finishLoader s n nd l (mutatedX s nd.task)
  | some g =>
    match (regexBlock inp s l g).susp with
    | .err _ => regexBlock inp s l g
    | _ => finishLoader (regexBlock inp s l g) n nd l (mutatedX s nd.task)

def loaderStep (inp : Input) (s : Sys) (n : Name) (nd : Node) (l : LId) : Sys :=
  match s.tasks (toLoad inp l n) with
  | none => { s with susp := .err .crash }
  | some tT =>
    if mustCreate inp s l tT then
      match (evalCreator inp s l (toLoad inp l n) nd.bad).susp with
      | .err _ => evalCreator inp s l (toLoad inp l n) nd.bad
      | _ => afterCreate inp (evalCreator inp s l (toLoad inp l n) nd.bad) n nd l
    else afterCreate inp s n nd l

/-! ### the generators -/

def addDispatched (s : Sys) (n : Name) : List Name :=
  if n ∈ s.dispatched then s.dispatched else s.dispatched ++ [n]

def rxFound (s : Sys) (tk : TDef) : Bool :=
  match tk.loader, tk.rx with
  | some _, some g => s.gfound g
  | _, _ => false

def nodeStep (inp : Input) (s : Sys) (n : Name) (nd : Node) : Sys :=
  match nd.pc with
  | .start => if rxFound s nd.task then setNode s n { nd with pc := .done } else setNode s n { nd with pc := .loopTop }
  | .loopTop =>
    setNode s n { nd with calcSnap := nd.calcPend, calcPend := [], snap := nd.pend, pend := [], pc := .calcIter nd.calcPend }
  | .calcIter (c :: cs) => genStep s n nd c (.calcIter cs)
  | .calcIter [] => addWaitCalc inp s n nd nd.calcSnap (.taskIter nd.snap)
  | .taskIter (d :: ds) => genStep s n nd d (.taskIter ds)
  | .taskIter [] => addWaitRun s n nd nd.snap .afterDeps
  | .afterDeps =>
    if nd.calcPend ≠ [] ∨ nd.pend ≠ [] then setNode s n { nd with pc := .loopTop }
    else if nd.waitRun ≠ [] ∨ nd.waitCalc ≠ [] then
      { setNode s n { nd with pc := .loopTop } with waiting := s.waiting ++ [n], cur := none }
    else setNode s n { nd with pc := .loaderPc }
  | .loaderPc =>
    match nd.task.loader with
    | none => setNode s n { nd with pc := .self1 }
    | some l => loaderStep inp s n nd l
  | .self1 =>
    { setNode s n { nd with pc := if nd.task.setup = [] then .done else .setup1 } with
      dispatched := addDispatched s n, susp := .yielded n }
  | .setup1 =>
    if nd.status = .none then
      { setNode s n { nd with waitSelect := true, pc := .setup2 } with waiting := s.waiting ++ [n], cur := none }
    else setNode s n { nd with pc := .setup2 }
  | .setup2 =>
    if nd.status = .run then setNode s n { nd with pc := .setupIter nd.task.setup }
    else setNode s n { nd with pc := .done }
  | .setupIter (d :: ds) => genStep s n nd d (.setupIter ds)
  | .setupIter [] =>
    let s1 := addWaitRun s n nd nd.task.setup .self2
    if (nd.task.setup.filter (unfinished s) ++ nd.waitRun) ≠ [] then { s1 with waiting := s.waiting ++ [n], cur := none }
    else s1
  | .self2 => { setNode s n { nd with pc := .done } with dispatched := addDispatched s n, susp := .yielded n }
  | .done => { s with cur := none }

def dtick (inp : Input) (s : Sys) : Sys :=
  match s.cur with
  | some n =>
    match s.nodes n with
    | none => { s with susp := .err .crash }
    | some nd => nodeStep inp s n nd
  | none =>
    match s.ready with
    | r :: rs => { s with cur := some r, ready := rs }
    | [] =>
      match s.toRun with
      | t :: ts =>
        match s.nodes t with
        | some _ => { s with toRun := ts }
        | none =>
          match s.tasks t with
          | none => { s with susp := .err .crash }
          | some td => { setNode s t (mkNodeI s t td [t]) with cur := some t, toRun := ts }
      | [] =>
        if s.waiting ≠ [] then
          (if s.dispatched = [] then { s with susp := .err .cyclic } else { s with susp := .holdOn })
        else { s with susp := .stopIter }

/-! ### the runner -/

def failSys (inp : Input) (s : Sys) (n : Name) (nd : Node) (e : Ev) (fin : Nat) : Sys :=
  { setNode s n { nd with status := .fail } with
    events := e :: s.events, final := fin, stop := if inp.continue_ then s.stop else true }

def handBack (inp : Input) (s : Sys) (n : Name) (perm : List Name) : Option Sys :=
  if inp.serial ∧ s.stop then some { s with susp := .idle } else feed inp s n perm

def startSys (s : Sys) (n : Name) (nd : Node) : Sys :=
  { setNode s n { nd with status := .run } with
    events := Ev.start n :: s.events, running := s.running ++ [n], susp := .idle }

/-- `select_task(node)`: first call (`run_status is None`) and, for a task with setup-tasks, the second one -/
def selectStep (inp : Input) (s : Sys) (n : Name) (perm : List Name) : Option Sys :=
  match s.nodes n with
  | none => some { s with susp := .err .crash }
  | some nd =>
    if nd.status = .none then
      if nd.bad then handBack inp (failSys inp s n nd (.unmet n) 2) n perm
      else if inp.utd n then
        handBack inp { setNode s n { nd with status := .utd } with events := Ev.skipUtd n :: s.events } n perm
      else if nd.task.setup ≠ [] then
        -- "dont execute now, execute setup first...": `return False` with `run_status = 'run'`
        handBack inp (setNode s n { nd with status := .run }) n perm
      else some (startSys s n nd)
    else if nd.status = .run ∧ nd.task.setup ≠ [] ∧ n ∉ s.running then
      -- "a setup-task might have been ignored or failed"
      if nd.bad then handBack inp (failSys inp s n nd (.unmet n) 2) n perm
      else some (startSys s n nd)
    else some { s with susp := .err .crash }

def finishStep (inp : Input) (s : Sys) (n : Name) (perm : List Name) : Option Sys :=
  if n ∈ s.running ∧ (s.susp = .idle ∨ s.susp = .holdOn ∨ s.susp = .stopIter) then
    match s.nodes n with
    | none => none
    | some nd =>
      if nd.status ≠ .run then none
      else if inp.fails n then
        (if inp.continue_ ∧ s.susp ≠ .stopIter then
          feed inp { failSys inp s n nd (.failure n) (if s.final = 2 then 2 else 1) with running := s.running.filter (· ≠ n) } n perm
         else some { failSys inp s n nd (.failure n) (if s.final = 2 then 2 else 1) with running := s.running.filter (· ≠ n) })
      else
        (if s.stop ∨ s.susp = .stopIter then
          some { setNode s n { nd with status := .ok } with
                 events := Ev.success n :: s.events, running := s.running.filter (· ≠ n) }
         else
          feed inp { setNode s n { nd with status := .ok } with
                     events := Ev.success n :: s.events, running := s.running.filter (· ≠ n) } n perm)
  else none

def step (inp : Input) (s : Sys) : Choice → Option Sys
  | .tick perm =>
    (match s.susp with
     | .running => some (dtick inp s)
     | .yielded n => selectStep inp s n perm
     | _ => none)
  | .resume =>
    if ¬ inp.serial ∧ ¬ s.stop ∧ (s.susp = .idle ∨ s.susp = .holdOn) then some { s with susp := .running } else none
  | .finish n perm => finishStep inp s n perm

inductive Reach (inp : Input) : Sys → Prop
  | init : Reach inp (init inp)
  | next {s s' c} : Reach inp s → step inp s c = some s' → Reach inp s'

def exitCode (s : Sys) : Nat :=
  match s.susp with
  | .err .dupTarget => 2
  | .err _ => 3
  | _ => s.final

/-! ### the dependency tables of a state and the statement about setup-tasks -/

/-- task_dep of the `Task` object the node of `t` holds (created: what the creator yielded + implicit deps + what its
    calc_deps delivered so far) -/
def nodeDeps (s : Sys) (t : Name) : List Name :=
  match s.nodes t with
  | some nd => nd.task.deps
  | none => []

def nodeCalc (s : Sys) (t : Name) : List Name :=
  match s.nodes t with
  | some nd => nd.task.calcDep
  | none => []

def nodeSetup (s : Sys) (t : Name) : List Name :=
  match s.nodes t with
  | some nd => nd.task.setup
  | none => []

/-- every edge a `start` has to respect: task_dep, calc_dep and setup-tasks (a task that starts IS going to run) -/
def allDeps (s : Sys) (t : Name) : List Name := nodeDeps s t ++ nodeCalc s t ++ nodeSetup s t

/-- a `start t` is preceded by a terminal report of every calc_dep of `t` (a calc_dep need not succeed:
    `parent_status` marks the waiting node `bad` and the task is reported `unmet` instead of started, which the good-report
    clause below covers) and by a good report of every task_dep and every setup-task -/
def startAfterOK (good : Name → List Name) (rep : Name → List Name) : List Ev → Bool
  | [] => true
  | .start t :: pre =>
    (good t).all (fun d => pre.any (fun e => e = .success d || e = .skipUtd d)) &&
      (rep t).all (fun d => pre.any (Ev.reports d)) && startAfterOK good rep pre
  | _ :: pre => startAfterOK good rep pre

/-! ### default schedule -/

def storedWaiting (s : Sys) (n : Name) : List Name :=
  match s.nodes n with
  | some nd => nd.waitingMe
  | none => []

def defaultChoice (s : Sys) : Choice :=
  match s.susp with
  | .running => .tick []
  | .yielded n => .tick (storedWaiting s n)
  | _ =>
    match s.running with
    | m :: _ => .finish m (storedWaiting s m)
    | [] => .resume

def autoRun (inp : Input) : Nat → Sys → Sys
  | 0, s => s
  | k + 1, s =>
    match step inp s (defaultChoice s) with
    | some s' => autoRun inp k s'
    | none => s

end DoitModel.DelayedX
