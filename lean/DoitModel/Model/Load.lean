/-! # M6 — loading: task-creators → validated task set

Mirrors `doit/loader.py` (`load_tasks`, `_get_task_creators`, `generate_tasks`, `_generate_task_from_return`,
`_generate_task_from_yield`, `flat_generator`), `doit/task.py` (`dict_to_task`, `Task.__init__`, `Task.check_attr`,
`Task.valid_attr`, `_init_deps`, `_expand_*`, `_init_getargs`) and `doit/control.py` (`TaskControl.__init__`,
`_check_dep_names`, `set_implicit_deps`, `_get_wild_tasks`) **as they are now** (including the `fix:` commits c7a3018 dangling `calc_dep`,
5a43f74 type-exact `check_attr`, 379257a tuple `uptodate`, 5cc6c19 `basename` check, eeaaa80 command-named `basename`, dd215ad group attributes merge / duplicate yields).

Abstraction.  A task-dict value is its top-level Python type plus the facts the code depends on: `isinstance`,
`==`-membership in the accepted-values tuple (`1 == True`, `1.0 == 1`, `0 == False`), truthiness, hashability.
Items of list/tuple values are strings (task names, file names, patterns); a `getargs` dict entry is either a
well-formed `(task, key)` pair (`some task`) or malformed (`none`).  A name is the list of its character codes.
Python's `format(v)` of a non-string sub-task `name` / `basename` is an input (`nameFmt` / `baseFmt`).
Exceptions other than `InvalidTask` / `InvalidDodoFile` are the explicit constructor `Err.crash`.
Core Lean only (linked into the driver). -/
namespace DoitModel.Load

abbrev Name := List Nat

def chEq : Nat := 61      -- '='
def chStar : Nat := 42    -- '*'
def chColon : Nat := 58   -- ':'

inductive RawVal where
  | none | bool (b : Bool) | int (n : Int) | float (halves : Int) | str (s : Name)
  | list (items : List Name) | tuple (items : List Name)
  | dict (entries : List (Name × Option Name)) | callable | object
deriving DecidableEq, Repr

inductive Attr where
  | basename | name | actions | file_dep | task_dep | uptodate | calc_dep | targets | setup | clean | teardown
  | doc | params | pos_arg | verbosity | io | getargs | title | watch | meta_
  | unknown      -- any key that is not in `Task.valid_attr`
deriving DecidableEq, Repr

/-- the classes that occur in `Task.valid_attr` type tuples -/
inductive PyType where | str | list | tuple | dict | callable
deriving DecidableEq, Repr

/-- the literals that occur in `Task.valid_attr` value tuples -/
inductive Lit where | none | true | int (n : Nat)
deriving DecidableEq, Repr

def RawVal.isInstance : RawVal → PyType → Bool
  | .str _, .str => true
  | .list _, .list => true
  | .tuple _, .tuple => true
  | .dict _, .dict => true
  | .callable, .callable => true
  | _, _ => false

/-- `type(value) is type(literal) and value == literal` (`Task.check_attr` after the fix 5a43f74) -/
def RawVal.eqLit : RawVal → Lit → Bool
  | .none, .none => true
  | .bool b, .true => b
  | .int m, .int n => m == (n : Int)
  | _, _ => false

/-- pinned `check_attr` (before 5a43f74): Python `value == literal`, i.e. `1 == True`, `1.0 == 1`, `False == 0` -/
def RawVal.eqLitPinned : RawVal → Lit → Bool
  | .none, .none => true
  | .bool b, .true => b
  | .int n, .true => n == 1
  | .float h, .true => h == 2
  | .bool b, .int n => if b then n == 1 else n == 0
  | .int m, .int n => m == (n : Int)
  | .float h, .int n => h == 2 * (n : Int)
  | _, _ => false

def RawVal.truthy : RawVal → Bool
  | .none => false
  | .bool b => b
  | .int n => n != 0
  | .float h => h != 0
  | .str s => !s.isEmpty
  | .list l => !l.isEmpty
  | .tuple l => !l.isEmpty
  | .dict e => !e.isEmpty
  | .callable => true
  | .object => true

def RawVal.hashable : RawVal → Bool
  | .list _ => false
  | .dict _ => false
  | _ => true

abbrev Spec := List PyType × List Lit

/-- `Task.valid_attr` — re-checked against the imported doit on every run (generated obligation) -/
def modelValidAttr : List (Attr × Spec) :=
  [ (.basename, ([.str], [])),
    (.name, ([.str], [])),
    (.actions, ([.list, .tuple], [.none])),
    (.file_dep, ([.list, .tuple], [])),
    (.task_dep, ([.list, .tuple], [])),
    (.uptodate, ([.list, .tuple], [])),
    (.calc_dep, ([.list, .tuple], [])),
    (.targets, ([.list, .tuple], [])),
    (.setup, ([.list, .tuple], [])),
    (.clean, ([.list, .tuple], [.true])),
    (.teardown, ([.list, .tuple], [])),
    (.doc, ([.str], [.none])),
    (.params, ([.list, .tuple], [])),
    (.pos_arg, ([.str], [.none])),
    (.verbosity, ([], [.none, .int 0, .int 1, .int 2])),
    (.io, ([.dict], [.none])),
    (.getargs, ([.dict], [])),
    (.title, ([.callable], [.none])),
    (.watch, ([.list, .tuple], [])),
    (.meta_, ([.dict], [.none])) ]

def specOf : List (Attr × Spec) → Attr → Option Spec
  | [], _ => none
  | (a, s) :: rest, k => if a = k then some s else specOf rest k

def validAttr (a : Attr) : Option Spec := specOf modelValidAttr a

/-- the attributes `Task.__init__` passes through `check_attr` (all but `basename`, which the loader pops) -/
def modelChecked : List Attr := (modelValidAttr.map (·.1)).filter (· != .basename)

/-- `Task.check_attr` -/
def checkAttr (v : RawVal) (s : Spec) : Bool := s.1.any v.isInstance || s.2.any v.eqLit

def checkAttrPinned (v : RawVal) (s : Spec) : Bool := s.1.any v.isInstance || s.2.any v.eqLitPinned

/-- a task dictionary: python dict (keys distinct; first binding wins in `get`) -/
abbrev TDict := List (Attr × RawVal)

def get : TDict → Attr → Option RawVal
  | [], _ => none
  | (a, v) :: rest, k => if a = k then some v else get rest k

def del (d : TDict) (k : Attr) : TDict := d.filter (fun p => p.1 != k)
def put (d : TDict) (k : Attr) (v : RawVal) : TDict := del d k ++ [(k, v)]

structure Task where
  name : Name
  taskDep : List Name
  wildDep : List Name
  setupTasks : List Name
  calcDep : List Name
  targets : List Name
  fileDep : List Name
  subtaskOf : Option Name
  hasSubtask : Bool
deriving DecidableEq, Repr

inductive Exn where | typeError | attributeError
deriving DecidableEq, Repr

inductive Err where | invalidTask | invalidDodo | crash (e : Exn)
deriving DecidableEq, Repr

abbrev R (α : Type) := Except Err α

deriving instance DecidableEq for Except

def seqItems : Option RawVal → List Name
  | some (.list l) => l
  | some (.tuple l) => l
  | _ => []

def dedup : List Name → List Name
  | [] => []
  | x :: xs => x :: (dedup xs).filter (· != x)

/-- the value `Task.__init__` checks for an attribute: `getargs = getargs or {}` happens before the checks -/
def effective (a : Attr) (v : RawVal) : RawVal :=
  if a = .getargs && !v.truthy then .dict [] else v

/-- all `check_attr` calls of `Task.__init__` (absent attributes have valid defaults) -/
def checkAll (d : TDict) : Bool :=
  d.all fun p => match validAttr p.1 with
    | some s => checkAttr (effective p.1 p.2) s
    | none => false

def getargsEntries : Option RawVal → List (Name × Option Name)
  | some (.dict es) => es
  | _ => []

/-- `for a in clean` when `clean is not True` -/
def cleanStep : Option RawVal → R Unit
  | none => .ok ()
  | some (.bool true) => .ok ()
  | some (.list _) => .ok ()
  | some (.tuple _) => .ok ()
  | some (.str _) => .ok ()
  | some (.dict _) => .ok ()
  | some _ => .error (.crash .typeError)      -- iterating a non-iterable (`clean: 1`, `clean: 1.0`)

/-- `uptodate = list(uptodate) if uptodate else []; uptodate.extend(self._init_getargs())` (after the fix 379257a
    a tuple `uptodate` is copied into a list): InvalidTask on a malformed `getargs` entry, else the tasks it names -/
def getargsStep (d : TDict) : R (List Name) :=
  if (getargsEntries (get d .getargs)).isEmpty then .ok []
  else if (getargsEntries (get d .getargs)).any (fun e => e.2.isNone) then .error .invalidTask
  else .ok ((getargsEntries (get d .getargs)).filterMap (·.2))

/-- pinned (before 379257a): `uptodate.extend` is looked up first — AttributeError on a non-empty tuple -/
def getargsStepPinned (d : TDict) : R (List Name) :=
  if (getargsEntries (get d .getargs)).isEmpty then .ok []
  else match get d .uptodate with
    | some (.tuple (_ :: _)) => .error (.crash .attributeError)
    | _ => getargsStep d

def strName : Option RawVal → R Name
  | some (.str s) => .ok s
  | _ => .error .invalidTask

/-- the Task object built once every check has passed (`ga`: the tasks named by `getargs`) -/
def mkTask (d : TDict) (nm : Name) (ga : List Name) : Task :=
  { name := nm,
    taskDep := (seqItems (get d .task_dep)).filter (fun x => !x.contains chStar),
    wildDep := (seqItems (get d .task_dep)).filter (fun x => x.contains chStar),
    setupTasks := seqItems (get d .setup) ++ dedup (ga.filter (fun t => !(seqItems (get d .setup)).contains t)),
    calcDep := dedup (seqItems (get d .calc_dep)),
    targets := seqItems (get d .targets),
    fileDep := dedup (seqItems (get d .file_dep)),
    subtaskOf := none, hasSubtask := false }

/-- `Task.__init__` on the keyword arguments `d` (contains `name`) -/
def initTask (d : TDict) : R Task :=
  if !checkAll d then .error .invalidTask else
  match strName (get d .name) with
  | .error e => .error e
  | .ok nm =>
    if nm.contains chEq then .error .invalidTask else
    match getargsStep d with
    | .error e => .error e
    | .ok ga =>
      match cleanStep (get d .clean) with
      | .error e => .error e
      | .ok _ => .ok (mkTask d nm ga)

/-- `dict_to_task` -/
def dictToTask (d : TDict) : R Task :=
  if (get d .actions).isNone then .error .invalidTask
  else if d.any (fun p => (validAttr p.1).isNone) then .error .invalidTask
  else initTask d

/-- `_generate_task_from_return` -/
def fromReturn (fn : Name) (d : TDict) : R Task :=
  if (get d .name).isSome then .error .invalidTask
  else dictToTask (put (del d .basename) .name ((get d .basename).getD (.str fn)))

/-- a group task made by the loader: `Task(basename, None, has_subtask=True)` -/
def groupTask (b : Name) (deps : List Name) : R Task :=
  if b.contains chEq then .error .invalidTask
  else .ok { name := b, taskDep := deps, wildDep := [], setupTasks := [], calcDep := [], targets := [],
             fileDep := [], subtaskOf := none, hasSubtask := true }

/-- ordered dict of tasks -/
abbrev Tasks := List (Name × Task)

def lookup : Tasks → Name → Option Task
  | [], _ => none
  | (k, t) :: rest, n => if k = n then some t else lookup rest n

/-- `tasks[k] = t` (an existing key keeps its position) -/
def insert : Tasks → Name → Task → Tasks
  | [], k, t => [(k, t)]
  | (k', t') :: rest, k, t => if k' = k then (k, t) :: rest else (k', t') :: insert rest k t

def hasKey (ts : Tasks) (n : Name) : Bool := (lookup ts n).isSome

/-- what a generator yields -/
inductive Yielded where
  | dict (d : TDict) (nameFmt baseFmt : Name)
  | task (t : Task)
  | other
deriving Repr

/-- the string an f-string makes of a value: itself for a `str`, else the given `format()` result -/
def fmtOf (v : RawVal) (fmt : Name) : Name :=
  match v with
  | .str s => s
  | _ => fmt

/-- `f"{basename}:{task_dict['name']}"` -/
def fullName (base nv : RawVal) (nf bf : Name) : Name := fmtOf base bf ++ [chColon] ++ fmtOf nv nf

/-- `task_dict.pop('basename', None)` -/
def bnOf (d : TDict) : RawVal := (get d .basename).getD .none

/-- `basename or func_name` -/
def baseOf (fn : Name) (d : TDict) : RawVal := if (bnOf d).truthy then bnOf d else .str fn

/-- get/create the group task and append the sub-task's name to its `task_dep` -/
def attachSub (tasks : Tasks) (b full : Name) (sub : Task) : R Tasks :=
  match lookup tasks b with
  | some g =>
    if !g.hasSubtask then .error .invalidTask
    else .ok (insert (insert tasks b { g with taskDep := g.taskDep ++ [full] }) full { sub with subtaskOf := some b })
  | none =>
    match groupTask b [full] with
    | .error e => .error e
    | .ok g => .ok (insert (insert tasks b g) full { sub with subtaskOf := some b })

def afterSub (tasks : Tasks) (base : RawVal) (full : Name) (sub : Task) : R Tasks :=
  match base with
  | .str b => attachSub tasks b full sub
  | other => if !other.hashable then .error (.crash .typeError)    -- `tasks.get(basename)`
             else .error .invalidTask                              -- `Task(basename, …)`: name is not a str

/-- sub-task branch of `_generate_task_from_yield`, after `basename = basename or func_name` -/
def yieldSub (tasks : Tasks) (d0 : TDict) (base nv : RawVal) (nf bf : Name) : R Tasks :=
  if hasKey tasks (fullName base nv nf bf) then .error .invalidTask else
  match dictToTask (put d0 .name (.str (fullName base nv nf bf))) with
  | .error e => .error e
  | .ok sub => afterSub tasks base (fullName base nv nf bf) sub

/-- `name is None`: attributes of the group task, before the fix dd215ad (pinned): whatever was stored under the
    name is replaced -/
def yieldGroupAttrsPinned (tasks : Tasks) (d0 : TDict) (base : RawVal) : R Tasks :=
  match dictToTask (put (put d0 .name base) .actions .none) with
  | .error e => .error e
  | .ok g => .ok (insert tasks g.name { g with hasSubtask := true })

/-- `name is None`: attributes of the group task (dd215ad): an existing group task hands over its `task_dep` (the
    dict's own `task_dep` first, then the sub-tasks yielded so far); an existing task that is not a group is a
    duplicated definition -/
def yieldGroupAttrs (tasks : Tasks) (d0 : TDict) (base : RawVal) : R Tasks :=
  match dictToTask (put (put d0 .name base) .actions .none) with
  | .error e => .error e
  | .ok g =>
    match lookup tasks g.name with
    | none => .ok (insert tasks g.name { g with hasSubtask := true })
    | some ex =>
      if !ex.hasSubtask then .error .invalidTask
      else .ok (insert tasks g.name { g with hasSubtask := true, taskDep := g.taskDep ++ ex.taskDep })

/-- not a sub-task -/
def yieldPlain (tasks : Tasks) (d0 : TDict) (bn : RawVal) : R Tasks :=
  if !bn.truthy then .error .invalidTask
  else if !bn.hashable then .error (.crash .typeError)          -- `basename in tasks`
  else match bn with
    | .str b =>
      if hasKey tasks b then .error .invalidTask
      else (match dictToTask (put d0 .name (.str b)) with
            | .error e => .error e
            | .ok t => .ok (insert tasks b t))
    | other => (match dictToTask (put d0 .name other) with
            | .error e => .error e
            | .ok t => .ok (insert tasks t.name t))

/-- `if 'basename' in task_dict: Task.check_attr(func_name, 'basename', …)` (fix 5cc6c19) -/
def basenameOk (d : TDict) : Bool :=
  match get d .basename with
  | none => true
  | some v => match validAttr .basename with
    | some s => checkAttr v s
    | none => false

/-- `_generate_task_from_yield` for a dict, before the `basename` check was added (pinned) -/
def yieldDictPinned (tasks : Tasks) (fn : Name) (d : TDict) (nf bf : Name) : R Tasks :=
  match get (del d .basename) .name with
  | some nv =>
    if nv = .none then yieldGroupAttrs tasks (del d .basename) (baseOf fn d)
    else yieldSub tasks (del d .basename) (baseOf fn d) nv nf bf
  | none => yieldPlain tasks (del d .basename) (bnOf d)

/-- `_generate_task_from_yield` for a dict -/
def yieldDict (tasks : Tasks) (fn : Name) (d : TDict) (nf bf : Name) : R Tasks :=
  if !basenameOk d then .error .invalidTask else yieldDictPinned tasks fn d nf bf

/-- one yielded item (`generate_tasks` loop body); a Task object whose name is already defined is a duplicated
    definition (dd215ad) -/
def yieldOne (fn : Name) (tasks : Tasks) : Yielded → R Tasks
  | .other => .error .invalidTask
  | .task t => if hasKey tasks t.name then .error .invalidTask else .ok (insert tasks t.name t)
  | .dict d nf bf => yieldDict tasks fn d nf bf

/-- pinned (before dd215ad): a yielded Task object replaced whatever was stored under its name -/
def yieldOnePinned (fn : Name) (tasks : Tasks) : Yielded → R Tasks
  | .task t => .ok (insert tasks t.name t)
  | y => yieldOne fn tasks y

def yieldAll (fn : Name) : Tasks → List Yielded → R Tasks
  | tasks, [] => .ok tasks
  | tasks, y :: ys => match yieldOne fn tasks y with
    | .error e => .error e
    | .ok tasks' => yieldAll fn tasks' ys

/-- a generator's items; `flat_generator` walks nested generators depth-first -/
inductive Gen where
  | leaf (y : Yielded)
  | nested (items : List Gen)

mutual
def Gen.flatten : Gen → List Yielded
  | .leaf y => [y]
  | .nested items => Gen.flattenList items
def Gen.flattenList : List Gen → List Yielded
  | [] => []
  | g :: gs => g.flatten ++ Gen.flattenList gs
end

inductive Result where
  | dict (d : TDict)
  | gen (items : List Gen)
  | task (t : Task)
  | none
  | other

/-- `generate_tasks` -/
def generate (fn : Name) : Result → R (List Task)
  | .task t => .ok [t]
  | .dict d => match fromReturn fn d with
    | .error e => .error e
    | .ok t => .ok [t]
  | .gen items => match yieldAll fn [] (Gen.flattenList items) with
    | .error e => .error e
    | .ok [] => (match groupTask fn [] with
      | .error e => .error e
      | .ok g => .ok [g])
    | .ok tasks => .ok (tasks.map (·.2))
  | .none => .ok []
  | .other => .error .invalidTask

structure Creator where
  name : Name        -- the task name derived from the creator (`task_` prefix removed / `basename` attribute)
  line : Nat         -- line number of its definition
  result : Result    -- what calling it returns

def insertByLine (c : Creator) : List Creator → List Creator
  | [] => [c]
  | x :: xs => if c.line < x.line then c :: x :: xs else x :: insertByLine c xs

/-- `funcs.sort(key=line)` — stable -/
def sortByLine (cs : List Creator) : List Creator := cs.foldl (fun acc c => insertByLine c acc) []

/-- `_process_gen` (fix eeaaa80): a generated task that is not a sub-task must not be named like a command -/
def cmdClash (cmds : List Name) (ts : List Task) : Bool :=
  ts.any (fun t => t.subtaskOf.isNone && cmds.contains t.name)

def generateAll (cmds : List Name) : List Creator → R (List Task)
  | [] => .ok []
  | c :: cs => match generate c.name c.result with
    | .error e => .error e
    | .ok ts =>
      if cmdClash cmds ts then .error .invalidDodo
      else match generateAll cmds cs with
        | .error e => .error e
        | .ok rest => .ok (ts ++ rest)

/-- `loader.load_tasks` (no delayed creators, no `@task_params`) -/
def loadTasks (cmds : List Name) (cs : List Creator) : R (List Task) :=
  if cs.any (fun c => cmds.contains c.name) then .error .invalidDodo
  else generateAll cmds (sortByLine cs)

/-! ## `TaskControl.__init__` -/

def nodupB : List Name → Bool
  | [] => true
  | x :: xs => !xs.contains x && nodupB xs

/-- `fnmatch.fnmatch` restricted to `*` and literal characters -/
def glob : List Nat → List Nat → Bool
  | [], [] => true
  | [], _ :: _ => false
  | p :: ps, [] => p == chStar && glob ps []
  | p :: ps, c :: t =>
    if p == chStar then glob ps (c :: t) || glob (p :: ps) t
    else p == c && glob ps t
termination_by p t => p.length + t.length

def expandWild (names : List Name) (t : Task) : Task :=
  { t with taskDep := t.taskDep ++ t.wildDep.flatMap (fun p => names.filter (fun n => glob p n)) }

def depsExist (names : List Name) (t : Task) : Bool :=
  t.taskDep.all names.contains && t.setupTasks.all names.contains && t.calcDep.all names.contains

/-- `targets[target] = task.name` -/
def owner : List Task → Name → Option Name
  | [], _ => none
  | t :: ts, f => if t.targets.contains f then some t.name else owner ts f

/-- `add_implicit_task_dep` over the file_dep in the given order -/
def implicitDeps (ts : List Task) (deps : List Name) : List Name → List Name
  | [] => []
  | f :: fs => match owner ts f with
    | some o => if deps.contains o then implicitDeps ts deps fs else o :: implicitDeps ts (deps ++ [o]) fs
    | none => implicitDeps ts deps fs

def addImplicit (ts : List Task) (t : Task) : Task :=
  { t with taskDep := t.taskDep ++ implicitDeps ts t.taskDep t.fileDep }

def control (ts : List Task) : R (List Task) :=
  let names := ts.map (·.name)
  if !nodupB names then .error .invalidDodo else
  let ts1 := ts.map (expandWild names)
  if !ts1.all (depsExist names) then .error .invalidTask
  else if !nodupB (ts1.flatMap (·.targets)) then .error .invalidTask
  else .ok (ts1.map (addImplicit ts1))

/-! ## decidable hypotheses of the C18 theorems (evaluated by the driver on every generated case) -/

def yieldedDicts : List Yielded → List TDict
  | [] => []
  | .dict d _ _ :: ys => d :: yieldedDicts ys
  | _ :: ys => yieldedDicts ys

/-- the keys that `_generate_task_from_yield` inserts for a yielded item when the step succeeds -/
def yieldKeys (fn : Name) : Yielded → List Name
  | .other => []
  | .task t => [t.name]
  | .dict d nf bf =>
    match get (del d .basename) .name with
    | some nv =>
      if nv = .none then [fmtOf (baseOf fn d) bf]
      else [fmtOf (baseOf fn d) bf, fullName (baseOf fn d) nv nf bf]
    | none => [fmtOf (bnOf d) bf]

/-- Task objects handed over by creators are plain, i.e. not marked as sub-task or group by hand (the loader
    passes Task objects through unprocessed) -/
def plainTask (t : Task) : Bool := t.subtaskOf.isNone && !t.hasSubtask

def yieldedTasks : List Yielded → List Task
  | [] => []
  | .task t :: ys => t :: yieldedTasks ys
  | _ :: ys => yieldedTasks ys

def resultPlain : Result → Bool
  | .gen items => (yieldedTasks (Gen.flattenList items)).all plainTask
  | .task t => plainTask t
  | _ => true

def PlainObjs (cs : List Creator) : Bool := cs.all (fun c => resultPlain c.result)

inductive Outcome where
  | tasks (ts : List Task)
  | invalidTask
  | invalidDodo
  | crash (e : Exn)
deriving DecidableEq, Repr

def toOutcome : R (List Task) → Outcome
  | .ok ts => .tasks ts
  | .error .invalidTask => .invalidTask
  | .error .invalidDodo => .invalidDodo
  | .error (.crash e) => .crash e

/-- loading = `load_tasks` followed by `TaskControl(task_list)` -/
def load (cmds : List Name) (cs : List Creator) : Outcome :=
  match loadTasks cmds cs with
  | .error e => toOutcome (.error e)
  | .ok ts => toOutcome (control ts)

end DoitModel.Load
