import DoitModel.Model.Basic
/-! # M1 — the run model: `TaskDispatcher` (control.py) and `Runner` / `MRunner` / `MThreadRunner` (runner.py)

A small-step transition system.  One transition is one resumption of a node generator (`_add_task`), one
runner decision (`select_task`, `process_task_result`, one iteration of a main loop) or, for the parallel
runners, one worker running from one queue operation to the next.  Everything Python leaves unordered is a
`Choice`: the iteration order of `node.calc_dep` and of `node.waiting_me` (both `set`s) is the `perm`
argument of `Choice.main`; which idle worker takes the next job / which running worker finishes next are
`Choice.take w` / `Choice.done w`.

State that exists in the code is mirrored field by field (`Node` = `ExecNode`, the dispatcher queues, the
runner attributes, the two queues of `MRunner`).  `events` is the observable trace (newest first) plus one
internal event `go n` ("`select_task(n)` returned `True`"), which is dropped before traces are compared.

Core Lean only (linked into the driver).  Shared by C01, C02, C05, C08, C09, C11, C15, C19. -/
namespace DoitModel.Run

abbrev Name := Nat

/-- `ExecNode.run_status` -/
inductive RS | none | run | utd | ign | ok | fail
deriving DecidableEq, Repr, Inhabited

/-- `run_status not in (None, 'run')` (the test of `_node_add_wait_run`) -/
def RS.finished : RS → Bool
  | .none => false | .run => false | _ => true
/-- executed successfully or found up-to-date: what C01 calls "finished being processed" -/
def RS.good : RS → Bool
  | .utd => true | .ok => true | _ => false

/-- position inside the generator `TaskDispatcher._add_task(node)` -/
inductive PC
  | loopTop                          -- top of `while True`: take the two snapshots
  | calcIter (todo : List Name)      -- `for calc_dep in calc_dep_list: yield self._gen_node(node, calc_dep)`
  | taskIter (todo : List Name)      -- `for task_dep in task_dep_list: yield self._gen_node(node, task_dep)`
  | afterDeps                        -- `continue` / `yield 'wait'` / `break`
  | self1                            -- `yield this_task`
  | afterSelf1                       -- `if this_task.setup_tasks:` … `if node.run_status is None: … yield "wait"`
  | setupDecide                      -- `if node.run_status == 'run':`
  | setupIter (todo : List Name)     -- `for setup_task in this_task.setup_tasks: yield self._gen_node(…)`
  | afterSetup                       -- `if node.wait_run: yield 'wait'`
  | self2                            -- `yield this_task` (second time)
  | afterSelf2                       -- suspended at / resumed after the second yield
  | done                             -- generator exhausted (`node.step()` returns `None`)
deriving DecidableEq, Repr, Inhabited

/-- what a calc_dep task delivers (`task.values` as read by `_process_calc_dep_results`) -/
structure CalcRes where
  tasks : List Name := []            -- values['task_dep']
  files : List Name := []            -- owners of the values['file_dep'] entries that are targets (implicit task_dep)
  calcs : List Name := []            -- values['calc_dep']
deriving Repr, Inhabited

/-- `ExecNode` (+ the two attributes of its `Task` that grow at run time) -/
structure Node where
  pc : PC := .loopTop
  pendTask : List Name               -- node.task_dep : not yet processed by `_add_task`
  pendCalc : List Name               -- node.calc_dep
  snapTask : List Name := []         -- task_dep_list
  snapCalc : List Name := []         -- calc_dep_list
  waitRun : List Name := []
  waitRunCalc : List Name := []
  waitingMe : List Name := []
  waitSelect : Bool := false
  status : RS := .none
  bad : List Name := []              -- bad_deps
  ign : List Name := []              -- ignored_deps
  anc : List Name                    -- ancestors
  dynTask : List Name                -- task.task_dep (extended by calc results)
  dynCalc : List Name                -- task.calc_dep (extended by calc results)
deriving Repr, Inhabited

inductive St3 | run | utd | error
deriving DecidableEq, Repr, Inhabited
inductive Outcome | ok | failed | error | saveErr
deriving DecidableEq, Repr, Inhabited
inductive RunnerKind | serial | thread | process
deriving DecidableEq, Repr, Inhabited

/-- task table after expansion (M8), selection, flags, and the environment oracle -/
structure RunInput where
  taskDep : Name → List Name
  calcDep : Name → List Name
  setup : Name → List Name
  sel : List Name
  continue_ : Bool := false
  always : Bool := false
  runner : RunnerKind := .serial
  numProc : Nat := 0
  ignored : Name → Bool := fun _ => false         -- `dep_manager.status_is_ignore`
  statusOf : Name → St3 := fun _ => .run           -- `dep_manager.get_status(...).status`
  outcome : Name → Outcome := fun _ => .ok         -- what the actions (and `save_success`) do
  argsOk : Name → Bool := fun _ => true            -- `_get_task_args` does not raise
  calcRes : Name → CalcRes := fun _ => {}          -- delivered when the calc task is executed / up-to-date
  hasTeardown : Name → Bool := fun _ => false
  noAct : Name → Bool := fun _ => false            -- task without actions (a group task): no start/end is observable
  calcResFail : Name → CalcRes := fun _ => {}      -- `task.values` of a calc task whose execution FAILED: what its
                                                   -- actions returned before the failing one (all of it if only
                                                   -- `save_success` raised); still delivered to the waiting tasks

inductive FailKind | unmet | depErr | failed | error
deriving DecidableEq, Repr, Inhabited

/-- observable events (reporter callbacks, action start/end with the worker index) and the internal `go` -/
inductive Ev
  | getStatus (n : Name) | skipIgn (n : Name) | skipUtd (n : Name) | execute (n : Name)
  | success (n : Name) | failure (n : Name) (k : FailKind) | teardown (n : Name) | complete
  | start (n w : Nat) | fin (n w : Nat)
  | go (n : Name) (deps : List Name)   -- internal: `select_task(n)` returned True; `deps` = every dependency known then
deriving DecidableEq, Repr, Inhabited

/-- what the dispatcher generator last did when it is not running -/
inductive DOut
  | init                     -- not started yet
  | node (n : Name)          -- yielded an ExecNode to the runner
  | holdOn                   -- yielded "hold on"
  | stopIter                 -- returned
  | cyclic (n : Name)        -- raised InvalidDodoFile("Cyclic/recursive dependencies…")
  | crash                    -- raised something else (AssertionError / KeyError)
deriving DecidableEq, Repr, Inhabited

inductive Job | hold | stop | task (n : Name)
deriving DecidableEq, Repr, Inhabited

inductive WState | notStarted | idle | running (n : Name) | exited
deriving DecidableEq, Repr, Inhabited

/-- where `get_next_job` returns to -/
inductive Ret
  | startLoop (k : Nat)      -- `_run_start_processes`: k iterations left including the current one
  | feedLoop (k : Nat)       -- `for _ in range(free_proc)`: k iterations left including the current one
deriving DecidableEq, Repr, Inhabited

/-- program counter of the runner (main thread) -/
inductive RPC
  | sTop (node : Option Name)                    -- Runner.run_tasks loop head: `if stop: break`; `send(node)`
  | sWait                                        -- generator running; on a yielded node: `select_task`
  | sExec (n : Name)                             -- `execute_task` in progress
  | gEntry (completed : Option Name) (ret : Ret) -- MRunner.get_next_job entry: `if self._stop_running: return None`
  | gLoop (node : Option Name) (ret : Ret)       -- `node = self.task_dispatcher.generator.send(node)`
  | gWait (ret : Ret)                            -- generator running; on a yielded node: `select_task`
  | gRet (job : Job) (ret : Ret)                 -- `get_next_job` returned `job`
  | pTop                                         -- `while proc_count: result = result_q.get()`
  | pJoin                                        -- `for proc in proc_list: proc.join()`
  | fin                                          -- `Runner.finish()`
  | halted
deriving DecidableEq, Repr, Inhabited

inductive Halt | none | cyclic | crash
deriving DecidableEq, Repr, Inhabited

structure Sys where
  -- TaskDispatcher
  nodes : Name → Option Node
  ready : List Name
  waiting : List Name
  toRun : List Name                  -- tasks_to_run (head = next to pop)
  dispatched : List Name
  cur : Option Name                  -- `node` of `_dispatcher_generator`
  susp : Option DOut                 -- `some o`: generator suspended/ended after `o`; `none`: running
  -- Runner
  rpc : RPC
  stop : Bool                        -- _stop_running
  final : Nat                        -- final_result: 0 SUCCESS, 1 FAILURE, 2 ERROR
  tdown : List Name                  -- teardown_list
  halt : Halt                        -- exception that ended `run_tasks`
  events : List Ev                   -- newest first
  -- MRunner
  freeProc : Nat
  procCount : Int
  nStarted : Nat                     -- len(proc_list)
  jobQ : List Job
  resQ : List Name                   -- results put by workers (task names)
  workers : Nat → WState

def setNode (s : Sys) (n : Name) (nd : Node) : Sys :=
  { s with nodes := fun k => if k = n then some nd else s.nodes k }

def stOf (s : Sys) (d : Name) : RS :=
  match s.nodes d with
  | some x => x.status
  | none => .none

/-- a `set` built from a list: one copy of each element -/
def dedup : List Name → List Name
  | [] => []
  | a :: l => if a ∈ dedup l then dedup l else a :: dedup l

/-- `ExecNode(task, parent)` -/
def mkNode (inp : RunInput) (t : Name) (anc : List Name) : Node :=
  { pendTask := inp.taskDep t, pendCalc := dedup (inp.calcDep t), anc := anc,
    dynTask := inp.taskDep t, dynCalc := dedup (inp.calcDep t) }

/-! ### `_process_calc_dep_results` -/

/-- implicit task_deps for delivered file_deps: `add_implicit_task_dep` appends an owner only if it is not yet in
    `task.task_dep` -/
def implicitNew : List Name → List Name → List Name
  | _, [] => []
  | acc, f :: fs => if f ∈ acc then implicitNew acc fs else f :: implicitNew (acc ++ [f]) fs

def newTaskDeps (nd : Node) (r : CalcRes) : List Name :=
  r.tasks ++ implicitNew (nd.dynTask ++ r.tasks) r.files

def newCalcDeps (nd : Node) (r : CalcRes) : List Name :=
  (dedup r.calcs).filter (fun c => c ∉ nd.dynCalc)

def Node.addDeps (nd : Node) (r : CalcRes) : Node :=
  { nd with
    dynTask := nd.dynTask ++ newTaskDeps nd r,
    pendTask := nd.pendTask ++ newTaskDeps nd r,
    dynCalc := nd.dynCalc ++ newCalcDeps nd r,
    pendCalc := nd.pendCalc ++ (newCalcDeps nd r).filter (fun c => c ∉ nd.pendCalc) }

/-- `_process_calc_dep_results(node = p, waiting_node = nd)` for a `p` that was executed successfully or is
    up-to-date (for a failed `p` see `deliverF`; otherwise `p.task.values` is empty) -/
def deliver (inp : RunInput) (pst : RS) (p : Name) (nd : Node) : Node :=
  if pst.good then nd.addDeps (inp.calcRes p) else nd

/-- an action of `p` was started in this run (`Task.execute` ran, so `p.task.values` may be non-empty although the
    task failed) -/
def started (s : Sys) (p : Name) : Bool :=
  s.events.any fun e => match e with | .start n _ => n == p | _ => false

/-- `_process_calc_dep_results(node = p, waiting_node = nd)` for a FAILED `p`: `_update_waiting` /
    `_node_add_wait_run` do not look at `run_status` before reading `p.task.values`.  The values are `{}` when the
    failure was found by `select_task` (unmet dependency, `get_status` / `getargs` error: `ex = false`); after an
    execution (`ex = true`) they hold what the actions returned before the failure.  (The waiting task also gets `p`
    into `bad_deps`, so it is reported unmet; what was delivered is still created and processed.) -/
def deliverF (inp : RunInput) (ex : Bool) (pst : RS) (p : Name) (nd : Node) : Node :=
  if pst = .fail ∧ ex = true then nd.addDeps (inp.calcResFail p) else nd

/-! ### `_node_add_wait_run` -/

def unfinished (s : Sys) (d : Name) : Bool := !(stOf s d).finished

/-- `node.parent_status(dep_node)` -/
def parentStatus (pst : RS) (p : Name) (nd : Node) : Node :=
  { nd with
    bad := if pst = .fail then nd.bad ++ [p] else nd.bad,
    ign := if pst = .ign then nd.ign ++ [p] else nd.ign }

/-- the `else` branch of the first loop of `_node_add_wait_run`, for the deps already processed, in list order -/
def absorbDone (inp : RunInput) (s : Sys) (isCalc : Bool) : List Name → Node → Node
  | [], nd => nd
  | d :: ds, nd =>
    if unfinished s d then absorbDone inp s isCalc ds nd
    else absorbDone inp s isCalc ds
      (if isCalc then deliverF inp (started s d) (stOf s d) d (deliver inp (stOf s d) d (parentStatus (stOf s d) d nd))
       else parentStatus (stOf s d) d nd)

def Node.addWaiting (x : Node) (n : Name) : Node :=
  if n ∈ x.waitingMe then x else { x with waitingMe := x.waitingMe ++ [n] }

def addWaits (nd : Node) (isCalc : Bool) (waitFor : List Name) : Node :=
  if isCalc then { nd with waitRunCalc := waitFor ++ nd.waitRunCalc }
  else { nd with waitRun := waitFor ++ nd.waitRun }

/-- register `n` in `waiting_me` of every dep it now waits for -/
def registerWaiting (s : Sys) (n : Name) (waitFor : List Name) : Sys :=
  { s with nodes := fun k =>
      match s.nodes k with
      | some x => if k ∈ waitFor then some (x.addWaiting n) else some x
      | none => none }

/-- `_node_add_wait_run(node = n, task_list = ds, calc)`, followed by moving the generator to `pc'` -/
def addWaitRun (inp : RunInput) (s : Sys) (n : Name) (nd : Node) (ds : List Name) (isCalc : Bool) (pc' : PC) : Sys :=
  registerWaiting
    (setNode s n { addWaits (absorbDone inp s isCalc ds nd) isCalc (ds.filter (unfinished s)) with pc := pc' })
    n (ds.filter (unfinished s))

/-! ### `_gen_node` -/

/-- `yield self._gen_node(node = n, d)` inside one of the three `for` loops; `pc'` is the loop's next position.
    A new node is appended to `ready` by `_dispatcher_generator`; an existing one is filtered out by `no_none`
    unless it is an ancestor (cyclic). -/
def genStep (inp : RunInput) (s : Sys) (n : Name) (nd : Node) (d : Name) (pc' : PC) : Sys :=
  match s.nodes d with
  | none => { setNode (setNode s d (mkNode inp d (nd.anc ++ [d]))) n { nd with pc := pc' } with ready := s.ready ++ [d] }
  | some _ => if d ∈ nd.anc then { s with susp := some (.cyclic d) } else setNode s n { nd with pc := pc' }

/-! ### `_update_waiting` -/

def wakeCrash (p : Name) (w : Node) : Bool := p ∉ w.waitRun && p ∉ w.waitRunCalc

/-- the waiting node after `parent_status`, the removals and (for a calc_dep) the delivery -/
def wokenNode (inp : RunInput) (pst : RS) (p : Name) (w : Node) : Node :=
  if p ∈ w.waitRunCalc then
    deliver inp pst p { parentStatus pst p w with
      waitRun := w.waitRun.filter (· ≠ p), waitRunCalc := w.waitRunCalc.filter (· ≠ p) }
  else { parentStatus pst p w with waitRun := w.waitRun.filter (· ≠ p) }

/-- `is_ready` -/
def wokenReady (p : Name) (w : Node) : Bool :=
  if p ∈ w.waitRunCalc then true
  else (w.waitRun.filter (· ≠ p)).isEmpty && w.waitRunCalc.isEmpty

/-- `wokenNode` plus what a failed-after-execution calc_dep delivers (`deliverF`) -/
def wokenF (inp : RunInput) (s : Sys) (pst : RS) (p : Name) (w : Node) : Node :=
  if p ∈ w.waitRunCalc then deliverF inp (started s p) pst p (wokenNode inp pst p w) else wokenNode inp pst p w

def wakeOne (inp : RunInput) (s : Sys) (pst : RS) (p : Name) (w : Name) (nd : Node) : Sys :=
  if wokenReady p nd ∧ w ∈ s.waiting then
    { setNode s w (wokenF inp s pst p nd) with ready := s.ready ++ [w], waiting := s.waiting.filter (· ≠ w) }
  else setNode s w (wokenF inp s pst p nd)

/-- the `for waiting_node in node.waiting_me` loop in the order `perm`; `none` = the `assert` failed -/
def updateWaiting (inp : RunInput) (pst : RS) (p : Name) : Sys → List Name → Option Sys
  | s, [] => some s
  | s, w :: ws =>
    match s.nodes w with
    | none => updateWaiting inp pst p s ws
    | some nd => if wakeCrash p nd then none else updateWaiting inp pst p (wakeOne inp s pst p w nd) ws

/-- head of `_update_waiting`: `dispatched.discard`, the `wait_select` hand-back -/
def sendHead (s : Sys) (p : Name) (nd : Node) : Sys :=
  if nd.waitSelect then
    { setNode s p { nd with waitSelect := false } with
      dispatched := s.dispatched.filter (· ≠ p), ready := s.ready ++ [p], waiting := s.waiting.filter (· ≠ p) }
  else { s with dispatched := s.dispatched.filter (· ≠ p) }

/-- `generator.send(processed)` up to the point where the generator body continues: `_update_waiting(processed)`.
    `none` = `perm` is not an iteration order of `processed.waiting_me` (choice not enabled). -/
def send (inp : RunInput) (s : Sys) (processed : Option Name) (perm : List Name) : Option Sys :=
  match processed with
  | none => some { s with susp := none }
  | some p =>
    match s.nodes p with
    | none => some { s with susp := some .crash }
    | some nd =>
      if nd.waitSelect = true ∧ p ∉ s.waiting then some { s with susp := some .crash }   -- `waiting.remove`: KeyError
      else if nd.status = .run then some { sendHead s p nd with susp := none }
      else if perm.Perm nd.waitingMe then
        match updateWaiting inp nd.status p (sendHead s p nd) perm with
        | some s' => some { s' with susp := none }
        | none => some { sendHead s p nd with susp := some .crash }
      else none

/-! ### the generators: `_dispatcher_generator`, `_get_next_node`, `_add_task` -/

def addDispatched (s : Sys) (n : Name) : List Name :=
  if n ∈ s.dispatched then s.dispatched else s.dispatched ++ [n]

/-- one step of `node.step()` for the current node `n` -/
def nodeStep (inp : RunInput) (s : Sys) (n : Name) (nd : Node) (perm : List Name) : Option Sys :=
  match nd.pc with
  | .loopTop =>
    if perm.Perm nd.pendCalc then
      some (setNode s n { nd with snapCalc := perm, pendCalc := [], snapTask := nd.pendTask, pendTask := [],
                                  pc := .calcIter perm })
    else none
  | .calcIter (d :: ds) => some (genStep inp s n nd d (.calcIter ds))
  | .calcIter [] => some (addWaitRun inp s n nd nd.snapCalc true (.taskIter nd.snapTask))
  | .taskIter (d :: ds) => some (genStep inp s n nd d (.taskIter ds))
  | .taskIter [] => some (addWaitRun inp s n nd nd.snapTask false .afterDeps)
  | .afterDeps =>
    if nd.pendCalc ≠ [] ∨ nd.pendTask ≠ [] then some (setNode s n { nd with pc := .loopTop })
    else if nd.waitRun ≠ [] ∨ nd.waitRunCalc ≠ [] then
      some { setNode s n { nd with pc := .loopTop } with waiting := s.waiting ++ [n], cur := none }
    else some (setNode s n { nd with pc := .self1 })
  | .self1 =>
    some { setNode s n { nd with pc := .afterSelf1 } with dispatched := addDispatched s n, susp := some (.node n) }
  | .afterSelf1 =>
    if inp.setup n = [] then some (setNode s n { nd with pc := .done })
    else if nd.status = .none then
      some { setNode s n { nd with pc := .setupDecide, waitSelect := true } with waiting := s.waiting ++ [n], cur := none }
    else some (setNode s n { nd with pc := .setupDecide })
  | .setupDecide =>
    if nd.status = .run then some (setNode s n { nd with pc := .setupIter (inp.setup n) })
    else some (setNode s n { nd with pc := .done })
  | .setupIter (d :: ds) => some (genStep inp s n nd d (.setupIter ds))
  | .setupIter [] => some (addWaitRun inp s n nd (inp.setup n) false .afterSetup)
  | .afterSetup =>
    if nd.waitRun ≠ [] then
      some { setNode s n { nd with pc := .self2 } with waiting := s.waiting ++ [n], cur := none }
    else some (setNode s n { nd with pc := .self2 })
  | .self2 =>
    some { setNode s n { nd with pc := .afterSelf2 } with dispatched := addDispatched s n, susp := some (.node n) }
  | .afterSelf2 => some (setNode s n { nd with pc := .done })
  | .done => some { s with cur := none }

/-- one step of the running dispatcher generator (`susp = none`) -/
def dtick (inp : RunInput) (s : Sys) (perm : List Name) : Option Sys :=
  match s.cur with
  | some n =>
    match s.nodes n with
    | none => some { s with susp := some .crash }
    | some nd => nodeStep inp s n nd perm
  | none =>
    match s.ready with
    | r :: rs => some { s with cur := some r, ready := rs }
    | [] =>
      match s.toRun with
      | t :: ts =>
        match s.nodes t with
        | none => some { setNode s t (mkNode inp t [t]) with cur := some t, toRun := ts }
        | some _ => some { s with toRun := ts }
      | [] =>
        if s.waiting ≠ [] then
          (if s.dispatched = [] then
            some { s with susp := some (.cyclic (s.waiting.headD 0)) }     -- `_check_deadlock`
           else some { s with susp := some .holdOn })
        else some { s with susp := some .stopIter }

/-! ### `Runner.select_task`, `execute_task`, `process_task_result`, `_handle_task_error` -/

inductive Sel
  | skipIgn | unmet | depErr | utd | runFirst | argsErr | go | assertFail
deriving DecidableEq, Repr

/-- effective status: `'run' if always_execute else res.status` -/
def effStatus (inp : RunInput) (n : Name) : St3 := if inp.always then .run else inp.statusOf n

def selDecision (inp : RunInput) (n : Name) (nd : Node) : Sel :=
  if nd.status = .none then
    if nd.ign ≠ [] ∨ inp.ignored n then .skipIgn
    else if nd.bad ≠ [] then .unmet
    else if inp.statusOf n = .error then .depErr
    else if effStatus inp n = .utd then .utd
    else if inp.setup n ≠ [] then .runFirst
    else if inp.argsOk n then .go else .argsErr
  else if nd.status ≠ .run ∨ inp.setup n = [] then .assertFail
  else if nd.ign ≠ [] then .skipIgn
  else if nd.bad ≠ [] then .unmet
  else if inp.argsOk n then .go else .argsErr

/-- `final_result` after `_handle_task_error` with a failure of kind `k` -/
def finalAfter (final : Nat) (k : FailKind) : Nat :=
  if k = .failed ∧ final ≠ 2 then 1 else 2

/-- `_handle_task_error(node, fail)` (+ the `get_status` report when this is the first pass) -/
def failNode (inp : RunInput) (s : Sys) (n : Name) (nd : Node) (k : FailKind) (pre : List Ev) : Sys :=
  { setNode s n { nd with status := .fail } with
    events := Ev.failure n k :: (pre ++ s.events),
    final := finalAfter s.final k,
    stop := if inp.continue_ then s.stop else true }

def statusEv (nd : Node) (n : Name) : List Ev := if nd.status = .none then [Ev.getStatus n] else []

/-- every dependency of node `n` known so far: task_dep and calc_dep as extended by calc results, and setup-tasks -/
def allDeps (inp : RunInput) (n : Name) (nd : Node) : List Name := nd.dynTask ++ nd.dynCalc ++ inp.setup n

/-- the effect of `select_task(node)` for each decision (the decision `assertFail` raises) -/
def applySel (inp : RunInput) (s : Sys) (n : Name) (nd : Node) : Sel → Sys
  | .skipIgn => { setNode s n { nd with status := .ign } with events := Ev.skipIgn n :: (statusEv nd n ++ s.events) }
  | .unmet => failNode inp s n nd .unmet (statusEv nd n)
  | .depErr => failNode inp s n nd .depErr (statusEv nd n)
  | .utd => { setNode s n { nd with status := .utd } with events := Ev.skipUtd n :: (statusEv nd n ++ s.events) }
  | .runFirst => { setNode s n { nd with status := .run } with events := statusEv nd n ++ s.events }
  | .argsErr => failNode inp s n nd .depErr (statusEv nd n)
  | .go => { setNode s n { nd with status := .run } with events := Ev.go n (allDeps inp n nd) :: (statusEv nd n ++ s.events) }
  | .assertFail => s

/-- `process_task_result(node, base_fail)` -/
def processResult (inp : RunInput) (s : Sys) (n : Name) (nd : Node) : Sys :=
  match inp.outcome n with
  | .ok => { setNode s n { nd with status := .ok } with events := Ev.success n :: s.events }
  | .failed => failNode inp s n nd .failed []
  | .error => failNode inp s n nd .error []
  | .saveErr => failNode inp s n nd .depErr []

/-- `Runner.execute_task(task)` as executed by worker `w` (0 = the serial runner): teardown registration,
    `reporter.execute_task`, the action's start event.  The process runner's `execute_task`/`teardown` reports
    travel through the result queue and are not part of the compared trace. -/
def startTask (inp : RunInput) (s : Sys) (n w : Nat) : Sys :=
  { s with
    tdown := if inp.hasTeardown n ∧ inp.runner ≠ .process then s.tdown ++ [n] else s.tdown,
    events := if inp.runner = .process then Ev.start n w :: s.events
              else Ev.start n w :: Ev.execute n :: s.events }

/-- `Runner.finish()`: teardowns in reverse order, `complete_run` -/
def finishRun (s : Sys) : Sys :=
  { s with events := Ev.complete :: ((s.tdown.map Ev.teardown) ++ s.events), rpc := .halted }

/-- the generator raised: the exception leaves `run_tasks`; `run_all` still calls `finish()` -/
def raise (s : Sys) (h : Halt) : Sys := { s with rpc := .fin, halt := h }

/-! ### the serial `Runner` -/

def serialStep (inp : RunInput) (s : Sys) (perm : List Name) : Option Sys :=
  match s.rpc with
  | .sTop node =>
    if s.stop then some { s with rpc := .fin }
    else match send inp s node perm with
      | some s' => some { s' with rpc := .sWait }
      | none => none
  | .sWait =>
    match s.susp with
    | none => dtick inp s perm
    | some (.node n) =>
      match s.nodes n with
      | none => some (raise s .crash)
      | some nd =>
        match selDecision inp n nd with
        | .go => some { startTask inp (applySel inp s n nd .go) n 0 with rpc := .sExec n }
        | .assertFail => some (raise s .crash)
        | d => some { applySel inp s n nd d with rpc := .sTop (some n) }
    | some .stopIter => some { s with rpc := .fin }
    | some (.cyclic _) => some (raise s .cyclic)
    | some .holdOn => some (raise s .crash)          -- `select_task("hold on")`: AttributeError
    | some .crash => some (raise s .crash)
    | some .init => none
  | .sExec n =>
    match s.nodes n with
    | none => some (raise s .crash)
    | some nd =>
      some { processResult inp { s with events := Ev.fin n 0 :: s.events } n nd with rpc := .sTop (some n) }
  | .fin => some (finishRun s)
  | _ => none

/-! ### `MRunner` / `MThreadRunner`: the main thread -/

def setWorker (s : Sys) (w : Nat) (st : WState) : Sys :=
  { s with workers := fun k => if k = w then st else s.workers k }

/-- all started workers have exited (`proc.join()` returns for each) -/
def allExited (s : Sys) : Nat → Bool
  | 0 => true
  | k + 1 => s.workers k = .exited && allExited s k

/-- `get_next_job` returned `job` to its caller -/
def gReturn (s : Sys) (job : Job) : Ret → Sys
  | .startLoop k =>
    if job = .stop then { s with rpc := .pTop, procCount := s.nStarted }
    else if k ≤ 1 then
      { setWorker s s.nStarted .idle with
        jobQ := s.jobQ ++ [job], nStarted := s.nStarted + 1, procCount := (s.nStarted + 1 : Nat), rpc := .pTop }
    else
      { setWorker s s.nStarted .idle with
        jobQ := s.jobQ ++ [job], nStarted := s.nStarted + 1, rpc := .gEntry none (.startLoop (k - 1)) }
  | .feedLoop k =>
    if k ≤ 1 then
      (if s.nStarted > s.freeProc then
        { s with jobQ := s.jobQ ++ [job], procCount := if job = .stop then s.procCount - 1 else s.procCount,
                 rpc := .pTop }
       else raise { s with jobQ := s.jobQ ++ [job],
                           procCount := if job = .stop then s.procCount - 1 else s.procCount } .crash)
    else
      { s with jobQ := s.jobQ ++ [job], procCount := if job = .stop then s.procCount - 1 else s.procCount,
               rpc := .gEntry none (.feedLoop (k - 1)) }

def mainStep (inp : RunInput) (s : Sys) (perm : List Name) : Option Sys :=
  match s.rpc with
  | .gEntry completed ret =>
    if s.stop then some { s with rpc := .gRet .stop ret } else some { s with rpc := .gLoop completed ret }
  | .gLoop node ret =>
    match send inp s node perm with
    | some s' => some { s' with rpc := .gWait ret }
    | none => none
  | .gWait ret =>
    match s.susp with
    | none => dtick inp s perm
    | some (.node n) =>
      match s.nodes n with
      | none => some (raise s .crash)
      | some nd =>
        match selDecision inp n nd with
        | .go => some { applySel inp s n nd .go with rpc := .gRet (.task n) ret }
        | .assertFail => some (raise s .crash)
        | d => some { applySel inp s n nd d with rpc := .gLoop (some n) ret }
    | some .holdOn => some { s with freeProc := s.freeProc + 1, rpc := .gRet .hold ret }
    | some .stopIter => some { s with rpc := .gRet .stop ret }
    | some (.cyclic _) => some (raise s .cyclic)
    | some .crash => some (raise s .crash)
    | some .init => none
  | .gRet job ret => some (gReturn s job ret)
  | .pTop =>
    if s.procCount = 0 then some { s with rpc := .pJoin }
    else match s.resQ with
      | [] => none                                   -- blocked in `result_q.get()`
      | n :: rest =>
        match s.nodes n with
        | none => some (raise s .crash)
        | some nd =>
          some { processResult inp { s with resQ := rest } n nd with
                 rpc := .gEntry (some n) (.feedLoop (s.freeProc + 1)), freeProc := 0 }
  | .pJoin => if allExited s s.nStarted then some { s with rpc := .fin } else none
  | .fin => some (finishRun s)
  | _ => none

/-! ### workers (`execute_task_subprocess`) -/

/-- worker `w` returns from `job_q.get()` and runs to its next queue operation -/
def takeStep (inp : RunInput) (s : Sys) (w : Nat) : Option Sys :=
  if s.workers w = .idle then
    match s.jobQ with
    | [] => none
    | .hold :: js => some { s with jobQ := js }
    | .stop :: js => some { setWorker s w .exited with jobQ := js }
    | .task n :: js => some { setWorker (startTask inp s n w) w (.running n) with jobQ := js }
  else none

/-- worker `w` finishes its task: end event, `result_q.put(result)` -/
def doneStep (s : Sys) (w : Nat) : Option Sys :=
  match s.workers w with
  | .running n => some { setWorker s w .idle with events := Ev.fin n w :: s.events, resQ := s.resQ ++ [n] }
  | _ => none

/-! ### the transition systems -/

inductive Choice
  | main (perm : List Name)      -- one step of the main thread; `perm` is used only where a set is iterated
  | take (w : Nat)
  | done (w : Nat)
deriving Repr

def init (inp : RunInput) : Sys :=
  { nodes := fun _ => none, ready := [], waiting := [], toRun := inp.sel, dispatched := [], cur := none,
    susp := some .init,
    rpc := if inp.runner = .serial then .sTop none else .gEntry none (.startLoop inp.numProc),
    stop := false, final := 0, tdown := [], halt := .none, events := [],
    freeProc := 0, procCount := 0, nStarted := 0, jobQ := [], resQ := [], workers := fun _ => .notStarted }

/-- serial runner -/
def step (inp : RunInput) (s : Sys) : Choice → Option Sys
  | .main perm => serialStep inp s perm
  | _ => none

/-- parallel runners.  `numProc = 0` with a parallel runner kind does not occur (cmd_run picks `Runner`). -/
def pstep (inp : RunInput) (s : Sys) : Choice → Option Sys
  | .main perm => mainStep inp s perm
  | .take w => takeStep inp s w
  | .done w => doneStep s w

def stepOf (inp : RunInput) : Sys → Choice → Option Sys :=
  if inp.runner = .serial then step inp else pstep inp

/-- reachable states of the serial system -/
inductive Reach (inp : RunInput) : Sys → Prop
  | init : Reach inp (init inp)
  | next {s s' c} : Reach inp s → step inp s c = some s' → Reach inp s'

/-- reachable states of the parallel system -/
inductive PReach (inp : RunInput) : Sys → Prop
  | init : PReach inp (init inp)
  | next {s s' c} : PReach inp s → pstep inp s c = some s' → PReach inp s'

/-- run a list of choices; `none` if one of them is not enabled -/
def runWith (inp : RunInput) (s : Sys) : List Choice → Option Sys
  | [] => some s
  | c :: cs => match stepOf inp s c with | some s' => runWith inp s' cs | none => none

/-- exit code of `DoitMain.run` -/
def exitCode (s : Sys) : Nat :=
  match s.halt with
  | .none => s.final
  | _ => 3

/-- events that are not observable: the internal `go`, and the start/end marks of a task that has no action -/
def hidden (inp : RunInput) : Ev → Bool
  | .go _ _ => true
  | .start n _ => inp.noAct n
  | .fin n _ => inp.noAct n
  | _ => false

/-- the observable trace, oldest first -/
def trace (inp : RunInput) (s : Sys) : List Ev := (s.events.filter (fun e => !hidden inp e)).reverse

/-! ### a default schedule (for examples and `simulate`): main thread first, then the lowest worker; sets are
    iterated in their stored order -/

/-- the stored order of the set the main thread's next step iterates -/
def defaultPerm (s : Sys) : List Name :=
  match s.rpc with
  | .sTop (some p) | .gLoop (some p) _ =>
    (match s.nodes p with
     | some nd => if nd.status = .run then [] else nd.waitingMe
     | none => [])
  | .sWait | .gWait _ =>
    (match s.susp, s.cur with
     | none, some n =>
       (match s.nodes n with
        | some nd => if nd.pc = .loopTop then nd.pendCalc else []
        | none => [])
     | _, _ => [])
  | _ => []

/-- the first enabled move `mk w` over the started workers (`rev`: highest index first) -/
def firstMove (inp : RunInput) (s : Sys) (rev : Bool) (mk : Nat → Choice) : Nat → Option (Choice × Sys)
  | 0 => none
  | k + 1 =>
    match pstep inp s (mk (if rev then k else s.nStarted - 1 - k)) with
    | some s' => some (mk (if rev then k else s.nStarted - 1 - k), s')
    | none => firstMove inp s rev mk k

/-- job pick-ups before completions, so that several workers get busy -/
def firstWorkerMove (inp : RunInput) (s : Sys) (rev : Bool) : Option (Choice × Sys) :=
  (firstMove inp s rev Choice.take s.nStarted).orElse fun _ => firstMove inp s rev Choice.done s.nStarted

/-- run until nothing is enabled (or the fuel ends); `workersFirst`: prefer worker moves over the main thread;
    `rev`: highest worker index first.  Returns the final state and the choices taken. -/
def autoRun (inp : RunInput) (workersFirst rev : Bool) : Nat → Sys → Sys × List Choice
  | 0, s => (s, [])
  | fuel + 1, s =>
    let mainMove := (stepOf inp s (.main (defaultPerm s))).map fun s' => (Choice.main (defaultPerm s), s')
    let workerMove := if inp.runner = .serial then none else firstWorkerMove inp s rev
    match (if workersFirst then workerMove.orElse fun _ => mainMove else mainMove.orElse fun _ => workerMove) with
    | some (c, s') => let (r, cs) := autoRun inp workersFirst rev fuel s'; (r, c :: cs)
    | none => (s, [])

end DoitModel.Run
