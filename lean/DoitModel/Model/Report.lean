import DoitModel.Model.RunMon
/-! # Reports and exit code (C19): `reporter.py`, the `final_result` logic of `runner.py`, `MReporter`

On top of the run model M1 (`Model/Run.lean`, not modified).  Three layers, all executable (linked into the driver):

1. `finalEv` / `exitSpec` — `Runner._handle_task_error`'s `final_result` as a fold over the failure reports, and its
   specification as a function of the *multiset* of failure kinds; `exitOf` adds `DoitMain.run`'s code 3.
2. `repOrd` — the discipline of the reporter callback stream (one final report per task, after `get_status`, preceded
   by `execute_task` iff the actions were started).  It is a decidable predicate over a trace: `Props/C19.lean` proves
   it for every reachable state of the model, the driver evaluates it on every implementation trace.
3. the built-in reporters as state machines over the callback stream: `ConsoleReporter` / `ExecutedOnlyReporter` /
   `ZeroReporter` / `ErrorOnlyReporter` (output as a token list) and `JsonReporter` (its bookkeeping dict
   `t_results`, `TaskResult.start` / `set_result` / `to_dict`, `complete_run`; `none` = the Python code raises).
4. `MReporter`: forwarding of a worker's reports through the result queue (`Fwd`), FIFO per producer.

Core Lean only. -/
namespace DoitModel.Report
open DoitModel.Run

/-! ### 1. final_result and exit code -/

/-- `Runner.final_result` after the reports `evs` (newest first, as in `Sys.events`): the fold `_handle_task_error`
    performs, one failure report at a time -/
def finalEv : List Ev → Nat
  | [] => 0
  | .failure _ k :: post => finalAfter (finalEv post) k
  | _ :: post => finalEv post

/-- the failure kinds reported in a trace (either orientation) -/
def failKinds : List Ev → List FailKind
  | [] => []
  | .failure _ k :: post => k :: failKinds post
  | _ :: post => failKinds post

/-- the documented exit code as a function of the failure kinds that occurred: 0 nothing failed, 1 only
    `TaskFailed`, 2 some error (`TaskError`, `UnmetDependency`, `DependencyError`) -/
def exitSpec (ks : List FailKind) : Nat :=
  if ks = [] then 0 else if ks.all (fun k => k == .failed) then 1 else 2

/-- return value of `DoitMain.run`: an exception leaving `run_all` (cyclic dependency `InvalidDodoFile`, internal
    error) gives 3, otherwise `final_result` -/
def exitOf (h : Halt) (ks : List FailKind) : Nat :=
  match h with
  | .none => exitSpec ks
  | _ => 3

/-! ### 2. discipline of the callback stream -/

def Ev.isExecOf (d : Name) : Ev → Bool
  | .execute n => n = d
  | _ => false

def Ev.isGetStatusOf (d : Name) : Ev → Bool
  | .getStatus n => n = d
  | _ => false

/-- reports, start and end marks of task `d` (everything observable except `teardown`) -/
def Ev.touches (d : Name) : Ev → Bool
  | .getStatus n | .skipIgn n | .skipUtd n | .execute n | .success n | .failure n _ | .start n _ | .fin n _ => n = d
  | _ => false

/-- a final report of task `n` is admissible after the older events `post`: `get_status n` was reported, no final
    report of `n` yet -/
def firstFinal (n : Name) (post : List Ev) : Bool :=
  post.any (Ev.isGetStatusOf n) && !post.any (Ev.isTerminalOf n)

/-- what must hold of the events `post` older than `e`.  `ex`: `execute_task` reports are part of the trace (they
    are not in the base model's trace of the process runner, where they travel through the result queue: section 4);
    `fwd`: they are forwarded through a queue, hence not ordered with the action's start mark.  `noAct n`: task `n` has
    no action, its start / end marks are not observable. -/
def repOK (ex fwd : Bool) (noAct : Name → Bool) (e : Ev) (post : List Ev) : Bool :=
  match e with
  | .getStatus n => !post.any (Ev.touches n)
  | .execute n => firstFinal n post && !post.any (Ev.isExecOf n)
  | .start n _ => !ex || fwd || post.any (Ev.isExecOf n)
  | .fin n _ => post.any (Ev.isStartOf n)
  | .success n => firstFinal n post && (noAct n || post.any (Ev.isFinOf n)) && (!ex || post.any (Ev.isExecOf n))
  | .failure n k =>
    firstFinal n post &&
      (match k with
       | .failed => (noAct n || post.any (Ev.isFinOf n)) && (!ex || post.any (Ev.isExecOf n))
       | .error => (noAct n || post.any (Ev.isFinOf n)) && (!ex || post.any (Ev.isExecOf n))
       | .unmet => !post.any (Ev.isStartOf n) && !post.any (Ev.isExecOf n)
       | .depErr => true)
  | .skipUtd n => firstFinal n post && !post.any (Ev.isStartOf n) && !post.any (Ev.isExecOf n)
  | .skipIgn n => firstFinal n post && !post.any (Ev.isStartOf n) && !post.any (Ev.isExecOf n)
  | _ => true

/-- every event of a trace (newest first) is admissible after the older ones -/
def repOrd (ex fwd : Bool) (noAct : Name → Bool) : List Ev → Bool
  | [] => true
  | e :: post => repOK ex fwd noAct e post && repOrd ex fwd noAct post

/-- `execute_task t` is reported iff the actions of `t` were started (for a task that has actions), on a trace of a
    run that ended (`complete`) -/
def execIffStart (noAct : Name → Bool) (nTasks : Nat) (tr : List Ev) : Bool :=
  (List.range nTasks).all fun t =>
    noAct t || (tr.countP (Ev.isExecOf t) == tr.countP (Ev.isStartOf t))

/-! #### the report matches what happened (ground truth: the oracle of the case and the action marks) -/

/-- every task `t` depends on after the events `pre`, including what calc tasks delivered although their execution
    failed (`Run.deliverF` / `RunMon.resAt`): task_dep, setup, calc_dep (transitively through deliveries) and the
    task_deps / target owners of file_deps delivered -/
def depsAtF (inp : RunInput) (nTasks : Nat) (pre : List Ev) (t : Name) : List Name :=
  inp.taskDep t ++ inp.setup t ++ calcsAtF inp pre nTasks (inp.calcDep t) ++
    ((calcsAtF inp pre nTasks (inp.calcDep t)).flatMap fun c => (resAt inp pre c).tasks ++ (resAt inp pre c).files)

def failedBefore (post : List Ev) (d : Name) : Bool :=
  post.any fun e => match e with | .failure n _ => n = d | _ => false
def ignoredBefore (post : List Ev) (d : Name) : Bool :=
  post.any fun e => match e with | .skipIgn n => n = d | _ => false

/-- the final report `e` of a task is the true one, given the case (`inp`: what `get_status` answers, which tasks
    are ignored, what the actions do) and what was reported before -/
def truthOK (inp : RunInput) (nTasks : Nat) (e : Ev) (post : List Ev) : Bool :=
  match e with
  | .success n => inp.noAct n || inp.outcome n == .ok
  | .failure n .failed => inp.outcome n == .failed
  | .failure n .error => inp.outcome n == .error
  | .failure n .depErr =>
    if post.any (Ev.isStartOf n) then inp.outcome n == .saveErr
    else inp.statusOf n == .error || !inp.argsOk n
  | .failure n .unmet => (depsAtF inp nTasks post.reverse n).any (failedBefore post)
  | .skipUtd n => effStatus inp n == .utd && !inp.ignored n
  | .skipIgn n => inp.ignored n || (depsAtF inp nTasks post.reverse n).any (ignoredBefore post)
  | _ => true

def truthOrd (inp : RunInput) (nTasks : Nat) : List Ev → Bool
  | [] => true
  | e :: post => truthOK inp nTasks e post && truthOrd inp nTasks post

/-- the part of "the final report is the true one" that does not involve the dependencies: the report agrees with
    the oracle of the case (what `get_status` answers, the ignore mark, what the action does, getargs) -/
def truthLite (inp : RunInput) (e : Ev) (post : List Ev) : Bool :=
  match e with
  | .success n => inp.outcome n == .ok
  | .failure n .failed => inp.outcome n == .failed
  | .failure n .error => inp.outcome n == .error
  | .failure n .depErr =>
    if post.any (Ev.isStartOf n) then inp.outcome n == .saveErr
    else inp.statusOf n == .error || !inp.argsOk n
  | .skipUtd n => effStatus inp n == .utd && !inp.ignored n
  | _ => true

def truthLiteOrd (inp : RunInput) : List Ev → Bool
  | [] => true
  | e :: post => truthLite inp e post && truthLiteOrd inp post

/-- a task whose actions ran to their end in a completed, not aborted part of the run is reported: every `end t` is
    followed by a final report of `t` (only checked on traces that end with `complete` and exit code ≤ 2) -/
def finReported (nTasks : Nat) (tr : List Ev) : Bool :=
  (List.range nTasks).all fun t => !tr.any (Ev.isFinOf t) || tr.any (Ev.isTerminalOf t)

/-! ### 3. the built-in reporters -/

inductive Kind | console | executedOnly | zero | errorOnly | json
deriving DecidableEq, Repr, Inhabited

/-- what a console-family reporter writes, line by line (message bodies / tracebacks are not modelled) -/
inductive Tok
  | exec (n : Name)                       -- ".  <title>"
  | utd (n : Name)                        -- "-- <title>"
  | ign (n : Name)                        -- "!! <title>"
  | fail (n : Name) (k : FailKind)        -- "<FailClass> - taskid:<name>"  /  error-only: "taskid:<name> - <FailClass>"
  | sep                                   -- "########################################"   (complete_run)
  | failAgain (n : Name) (k : FailKind)   -- the failure header repeated by complete_run
  | errSec (n : Name)                     -- "<name> <stderr>:"
  | outSec (n : Name)                     -- "<name> <stdout>:"
  | aborted                               -- "Execution aborted." (complete_run, after a runtime_error)
deriving DecidableEq, Repr, Inhabited

/-- `ConsoleReporter` state: text written so far (oldest first) and `self.failures` -/
structure Con where
  out : List Tok := []
  failures : List (Name × FailKind) := []
deriving Repr, Inhabited

/-- one callback of `ConsoleReporter` / `ExecutedOnlyReporter` / `ZeroReporter` / `ErrorOnlyReporter` -/
def conStep (k : Kind) (noAct : Name → Bool) (c : Con) : Ev → Con
  | .execute n =>
    if (k = .console ∨ k = .executedOnly) ∧ noAct n = false then { c with out := c.out ++ [.exec n] } else c
  | .skipUtd n => if k = .console then { c with out := c.out ++ [.utd n] } else c
  | .skipIgn n => if k = .console then { c with out := c.out ++ [.ign n] } else c
  | .failure n fk =>
    if k = .console ∨ k = .executedOnly then { out := c.out ++ [.fail n fk], failures := c.failures ++ [(n, fk)] }
    else if k = .errorOnly then { c with out := c.out ++ [.fail n fk] }
    else c
  | _ => c

/-- `Stream.effective_verbosity`: `-v N` on the command line forces the global value, else the task's own
    `verbosity` wins over the global one (DOIT_CONFIG / default) -/
def effVerb (force : Bool) (glob : Nat) (taskV : Option Nat) : Nat :=
  if force then glob else match taskV with
    | some v => v
    | none => glob

/-- what `complete_run` depends on besides the callbacks: `--failure-verbosity`, the effective verbosity of each task
    (`task.verbosity` after `overwrite_verbosity`), whether `runtime_error` was called -/
structure RepOpts where
  failVerb : Nat := 0
  verb : Name → Nat := fun _ => 0
  runtimeErr : Bool := false

/-- `ConsoleReporter.complete_run`, one failed and executed task: `show_err = verbosity < 1 or failure_verbosity > 0`
    (the failure header again and the captured stderr), `show_out = verbosity < 2 or failure_verbosity == 2` (the
    captured stdout), a separator line if either -/
def failSection (o : RepOpts) (p : Name × FailKind) : List Tok :=
  (if o.verb p.1 < 1 ∨ o.failVerb > 0 ∨ o.verb p.1 < 2 ∨ o.failVerb = 2 then [.sep] else []) ++
  (if o.verb p.1 < 1 ∨ o.failVerb > 0 then [.failAgain p.1 p.2, .errSec p.1] else []) ++
  (if o.verb p.1 < 2 ∨ o.failVerb = 2 then [.outSec p.1] else [])

/-- `ConsoleReporter.complete_run`: the captured output of every failed task that was executed, then the runtime
    errors ("Execution aborted.") -/
def conComplete (k : Kind) (o : RepOpts) (executed : Name → Bool) (c : Con) : List Tok :=
  if k = .console ∨ k = .executedOnly then
    c.out ++ (c.failures.flatMap fun p => if executed p.1 then failSection o p else []) ++
      (if o.runtimeErr then [.sep, .aborted] else [])
  else c.out

/-- output of a console-family reporter for the callback stream `tr` (oldest first) -/
def render (k : Kind) (o : RepOpts) (noAct : Name → Bool) (tr : List Ev) : List Tok :=
  if tr.contains .complete then
    conComplete k o (fun n => tr.any (Ev.isStartOf n)) (tr.foldl (conStep k noAct) {})
  else (tr.foldl (conStep k noAct) {}).out

/-- with the harness' defaults (verbosity 0, failure_verbosity 0) every executed failed task gets the full section -/
example (p : Name × FailKind) : failSection {} p = [.sep, .failAgain p.1 p.2, .errSec p.1, .outSec p.1] := by
  simp [failSection]

/-- a task at verbosity 2 whose output was already shown gets no section at failure_verbosity 0, both at 2 -/
example : failSection { verb := fun _ => 2 } (0, .failed) = [] ∧
    failSection { verb := fun _ => 2, failVerb := 2 } (0, .failed) = [.sep, .failAgain 0 .failed, .errSec 0, .outSec 0] ∧
    failSection { verb := fun _ => 1 } (0, .failed) = [.sep, .outSec 0] := by
  simp [failSection]

/-! #### `JsonReporter` -/

inductive JRes | fail | success | utd | ign
deriving DecidableEq, Repr, Inhabited

/-- `TaskResult` -/
structure JEnt where
  name : Name
  result : Option JRes := none
  started : Bool := false        -- `_started_on is not None`
  finished : Bool := false       -- `_finished_on is not None`
deriving DecidableEq, Repr, Inhabited

/-- `self.t_results[n].<method>()`: `none` = KeyError -/
def jUpd (f : JEnt → JEnt) (n : Name) : List JEnt → Option (List JEnt)
  | [] => none
  | e :: l => if e.name = n then some (f e :: l) else (jUpd f n l).map (e :: ·)

/-- `self.t_results[n] = TaskResult(task)`: a dict keeps the position of an existing key -/
def jNew (n : Name) : List JEnt → List JEnt
  | [] => [{ name := n }]
  | e :: l => if e.name = n then { name := n } :: l else e :: jNew n l

def jSetResult (r : JRes) (e : JEnt) : JEnt := { e with result := some r, finished := true }

/-- one callback of `JsonReporter` on its dict `t_results` (insertion-ordered) -/
def jStep (st : Option (List JEnt)) (e : Ev) : Option (List JEnt) :=
  match st with
  | none => none
  | some l =>
    match e with
    | .getStatus n => some (jNew n l)
    | .execute n => jUpd (fun x => { x with started := true }) n l
    | .success n => jUpd (jSetResult .success) n l
    | .failure n _ => jUpd (jSetResult .fail) n l
    | .skipUtd n => jUpd (jSetResult .utd) n l
    | .skipIgn n => jUpd (jSetResult .ign) n l
    | _ => some l

/-- one element of the `tasks` list of the document: name, result, whether timing (`started`/`elapsed`) is given -/
structure JOut where
  name : Name
  result : Option JRes
  timed : Bool
deriving DecidableEq, Repr, Inhabited

/-- `TaskResult.to_dict`: `elapsed = _finished_on - _started_on` raises TypeError for a started, unfinished task -/
def jToDict (e : JEnt) : Option JOut :=
  if e.started ∧ e.finished = false then none else some { name := e.name, result := e.result, timed := e.started }

/-- `JsonReporter.complete_run`: the `tasks` list; `none` = an exception instead of a document -/
def jComplete : List JEnt → Option (List JOut)
  | [] => some []
  | e :: l =>
    match jToDict e, jComplete l with
    | some o, some os => some (o :: os)
    | _, _ => none

/-- the `tasks` list `JsonReporter` dumps for the callback stream `tr` (oldest first) -/
def jsonOf (tr : List Ev) : Option (List JOut) :=
  match tr.foldl jStep (some []) with
  | some l => jComplete l
  | none => none

/-- the result string of a final report -/
def resOf : Ev → Option JRes
  | .success _ => some .success
  | .failure _ _ => some .fail
  | .skipUtd _ => some .utd
  | .skipIgn _ => some .ign
  | _ => none

/-- the statement about a JSON document `doc` for the trace `tr`: no duplicate names, every task with a final report
    is listed with exactly that result (and timing iff it was executed), every listed task was at least looked at -/
def jsonOK (nTasks : Nat) (tr : List Ev) (doc : List JOut) : Bool :=
  (List.range nTasks).all fun t =>
    (doc.filter fun o => o.name == t).length ≤ 1 &&
    (match tr.find? (Ev.isTerminalOf t) with
     | some e => doc.any fun o => o.name == t && o.result == resOf e && o.timed == tr.any (Ev.isExecOf t)
     | none => doc.all fun o => o.name != t || (o.result == none && tr.any (Ev.isGetStatusOf t)))

/-! ### 4. `MReporter`: reports of a worker process travel through the result queue -/

/-- a message on `result_q` -/
inductive Msg
  | rep (n : Name)        -- {'name': n, 'reporter': 'execute_task'}
  | res (n : Name)        -- the result dict of task n
deriving DecidableEq, Repr, Inhabited

/-- what one worker puts on the queue for the tasks it executes, in order (`execute_task_subprocess`: the forwarded
    `reporter.execute_task(task)` inside `Runner.execute_task`, then `result_q.put(result)`) -/
def workerMsgs : List Name → List Msg
  | [] => []
  | n :: ns => .rep n :: .res n :: workerMsgs ns

/-- `q` is an interleaving of the producers' message sequences `qs w` that keeps each of them in order: what a FIFO
    queue with several producers delivers -/
inductive Merge : (Nat → List Msg) → List Msg → Prop
  | nil {qs} : (∀ w, qs w = []) → Merge qs []
  | cons {qs m q} (w : Nat) (rest : List Msg) :
      qs w = m :: rest → Merge (fun k => if k = w then rest else qs k) q → Merge qs (m :: q)

/-! #### the process runner with the forwarded reports: `MRunner` + `MReporter` as one transition system

`FSys` = the run model's state + the result queue *as it really is*: the workers' forwarded `execute_task` reports
and their results, in FIFO order (`Sys.resQ` is its projection to the results).  A worker that picks up a task puts
`rep n` (the `MReporter` call inside `Runner.execute_task`) before it starts the action; when the action ends it puts
`res n`.  The main process (`MRunner.run_tasks`) can only take the HEAD of the queue: a forwarded report is handed to
the real reporter (`deliver`: `getattr(self.reporter, result['reporter'])(task); continue`), a result goes to
`process_task_result` (`main` at `pTop`).  After the workers are joined the remaining reports are delivered before
`finish()`. -/

structure FSys where
  base : Sys
  fq : List Msg

inductive FChoice
  | main (perm : List Name)
  | take (w : Nat)
  | done (w : Nat)
  | deliver
deriving Repr

/-- the main process is at `result_q.get()` inside `while proc_count` -/
def atGet (s : Sys) : Prop := s.rpc = .pTop ∧ s.procCount ≠ 0
instance (s : Sys) : Decidable (atGet s) := by unfold atGet; exact inferInstance

/-- the main process is draining the queue after the join (normal end of `run_tasks`) -/
def atDrain (s : Sys) : Prop := s.rpc = .fin ∧ s.halt = .none
instance (s : Sys) : Decidable (atDrain s) := by unfold atDrain; exact inferInstance

def fstep (inp : RunInput) (f : FSys) : FChoice → Option FSys
  | .take w =>
    match takeStep inp f.base w with
    | none => none
    | some s' =>
      match f.base.jobQ with
      | .task n :: _ => some ⟨s', f.fq ++ [.rep n]⟩
      | _ => some ⟨s', f.fq⟩
  | .done w =>
    match f.base.workers w with
    | .running n => (doneStep f.base w).map fun s' => ⟨s', f.fq ++ [.res n]⟩
    | _ => none
  | .deliver =>
    if atGet f.base ∨ atDrain f.base then
      match f.fq with
      | .rep n :: q => some ⟨{ f.base with events := Ev.execute n :: f.base.events }, q⟩
      | _ => none
    else none
  | .main perm =>
    if atGet f.base then
      match f.fq with
      | .res _ :: q => (mainStep inp f.base perm).map fun s' => ⟨s', q⟩
      | _ => none
    else if atDrain f.base then
      match f.fq with
      | [] => (mainStep inp f.base perm).map fun s' => ⟨s', []⟩
      | _ => none
    else (mainStep inp f.base perm).map fun s' => ⟨s', f.fq⟩

def finit (inp : RunInput) : FSys := ⟨init inp, []⟩

/-- reachable states of the process runner with forwarded reports -/
inductive FReach (inp : RunInput) : FSys → Prop
  | init : FReach inp (finit inp)
  | next {f f' c} : FReach inp f → fstep inp f c = some f' → FReach inp f'

/-- the first enabled choice of a list -/
def ftry (inp : RunInput) (f : FSys) : List FChoice → Option FSys
  | [] => none
  | c :: cs => match fstep inp f c with
    | some f' => some f'
    | none => ftry inp f cs

/-- a default schedule for examples: main process first, then deliveries, then pick-ups, then completions
    (highest worker first, so that results overtake each other) -/
def fauto (inp : RunInput) : Nat → FSys → FSys
  | 0, f => f
  | k + 1, f =>
    match ftry inp f [.main (defaultPerm f.base), .deliver, .take 0, .take 1, .take 2, .done 2, .done 1, .done 0] with
    | some f' => fauto inp k f'
    | none => f

def Msg.resName : Msg → Option Name
  | .res n => some n
  | .rep _ => none

end DoitModel.Report
