import DoitModel.Model.Basic
/-! # M8 — task selection (`doit/control.py`, `doit/cmd_run.py`, `doit/cmd_base.py`, a little of `doit/task.py`)

Executable model of what `doit run [--single] ARGS` selects and which tasks the run then considers.

* `glob`            — `fnmatch.fnmatch` on POSIX: `*`, `?`, bracket classes as `fnmatch.translate` of CPython 3.12 reads them, literals;
* `prepare`         — `TaskControl.__init__`: `wild_dep` expansion (`_get_wild_tasks`) and the implicit task_dep a
                      `file_dep` on another task's target creates (`set_implicit_deps` / `add_implicit_task_dep`);
* `scan`/`dropOpts` — how much of the remaining argv the parser of a task with `params` consumes
                      (`Task.init_options` → `TaskParse.parse` → `getopt.getopt`, short clusters and exact long names);
* `pf`              — `TaskControl._process_filter` (patterns, `add_filtered_task`, `init_options`, `pos_arg`), with
                      the *once only* initialisation of `Task.options` made explicit (`ini`): naming a task whose
                      options are already initialised makes `init_options` return `None`; the loop then goes on with
                      the unchanged rest (fix dcfe778; `pinned := true` keeps the old behaviour, where the `None`
                      ended the loop, for the counterexample theorems);
* `resolve`         — `TaskControl._filter_tasks`: by name, by target, sub-task of a delayed task (regex targets are
                      outside the model: the generator never sets `target_regex` / `--auto-delayed-regex`);
* `process`, `selArgs` — `TaskControl.process`, `DoitCmdBase.execute` (`args or default_tasks`);
* `applySingle`     — the `--single` loop of `Run._execute` (one `process` call; fix 07d690a);
* `closureOf`       — the tasks the dispatcher can reach from the selection over the static graph.

Strings are `List Char`.  Core Lean only (linked into `doitdrv`). -/
namespace DoitModel.Sel

abbrev Tok := List Char

/-! ## fnmatch: `*`, `?`, bracket classes, literals (CPython 3.12 `fnmatch.translate`, POSIX: `normcase` is the identity) -/

/-- `f` holds of some suffix of the string -/
def anySuffix (f : Tok → Bool) : Tok → Bool
  | [] => f []
  | c :: s => f (c :: s) || anySuffix f s

/-- the class ends at the next `]` (`pre`: what was skipped before the search) -/
def closeAt (pre q : Tok) : Option (Tok × Tok) :=
  if q.contains ']' then some (pre ++ q.takeWhile (· != ']'), (q.dropWhile (· != ']')).tail) else none

/-- a `]` right at the start (after the optional `!`) does not close the class -/
def afterBang (pre q : Tok) : Option (Tok × Tok) :=
  match q with
  | ']' :: q' => closeAt (pre ++ [']']) q'
  | _ => closeAt pre q

/-- the text after a `[`: where `translate` finds the end of the class.  An optional `!` and then an optional `]` are
    skipped, the class ends at the next `]`; `(body, rest)`: the characters between the brackets and what follows the
    closing one.  `none`: there is no closing `]` — the `[` is a literal and the scan goes on right after it. -/
def splitClass (p : Tok) : Option (Tok × Tok) :=
  match p with
  | '!' :: q => afterBang ['!'] q
  | _ => afterBang [] p

/-- `translate` cuts the class body at the hyphens that make ranges: the search starts after the first character
    (after the second when the body starts with `!`) and, after a hyphen, skips the range end and one more character
    (`k = k+3`).  `skip`: characters still taken without looking; `cur`: the chunk being collected. -/
def chunksGo : Nat → Tok → Tok → List Tok
  | _, cur, [] => [cur]
  | skip + 1, cur, c :: rest => chunksGo skip (cur ++ [c]) rest
  | 0, cur, c :: rest => if c = '-' then cur :: chunksGo 2 [] rest else chunksGo 0 (cur ++ [c]) rest

/-- `if chunk: chunks.append(chunk) else: chunks[-1] += '-'`: a hyphen right before the closing bracket is a literal -/
def fixLast : List Tok → List Tok
  | [] => []
  | [a] => [a]
  | a :: b :: rest => if b = [] ∧ rest = [] then [a ++ ['-']] else a :: fixLast (b :: rest)

/-- "Remove empty ranges": from the right, a range whose start is greater than its end disappears with both ends -/
def mergeR : List Tok → List Tok
  | [] => []
  | a :: rest =>
    match mergeR rest with
    | [] => [a]
    | b :: more =>
      match a.getLast?, b.head? with
      | some x, some y => if x > y then (a.dropLast ++ b.tail) :: more else a :: b :: more
      | _, _ => a :: b :: more

/-- the ranges between consecutive chunks -/
def inRanges (d : Char) : List Tok → Bool
  | a :: b :: more =>
    (match a.getLast?, b.head? with
      | some x, some y => decide (x ≤ d) && decide (d ≤ y)
      | _, _ => false) || inRanges d (b :: more)
  | _ => false

/-- the regular-expression class `[c0-c1-…]` (hyphens and backslashes inside a chunk escaped): every character of a
    chunk, and everything between the last character of a chunk and the first of the next -/
def inChunks (chs : List Tok) (d : Char) : Bool := chs.any (·.contains d) || inRanges d chs

/-- does the character match the class with this body?  Without a hyphen: the characters of the body, negated by a
    leading `!`.  With one: the chunks after removal of the empty ranges; nothing left = never (`[b-a]`); `!` left =
    any character (`[!b-a]`, and also `[b-a!]`: the test is made on the text that is left); a leading `!` left =
    negation — when the `!` stood alone in its chunk the hyphen after it becomes a literal (`[b-a!-z]` is `[^-z]`). -/
def inClass (body : Tok) (d : Char) : Bool :=
  if body.contains '-' then
    match mergeR (fixLast (chunksGo (if body.head? = some '!' then 2 else 1) [] body)) with
    | [] => false
    | ('!' :: c0) :: more =>
      if c0 = [] then (if more = [] then true else !(d == '-' || inChunks more d))
      else !(inChunks (c0 :: more) d)
    | chs => inChunks chs d
  else
    match body with
    | '!' :: m => !m.contains d
    | m => m.contains d

/-- `glob` with fuel (one unit per pattern character is enough: `glob`) -/
def globF : Nat → Tok → Tok → Bool
  | 0, _, _ => false
  | _ + 1, [], s => s.isEmpty
  | n + 1, c :: p, s =>
    if c = '*' then anySuffix (globF n p) s
    else if c = '[' then
      match splitClass p, s with
      | _, [] => false
      | some (body, rest), d :: s' => inClass body d && globF n rest s'
      | none, d :: s' => d == '[' && globF n p s'
    else match s with
      | [] => false
      | d :: s' => (c == '?' || c == d) && globF n p s'

/-- `glob pattern name`: `fnmatch.fnmatchcase(name, pattern)` -/
def glob (p s : Tok) : Bool := globF (p.length + 1) p s

def hasStar (a : Tok) : Bool := a.contains '*'

/-! ## task options (M4, reduced to "how many tokens are consumed") -/

structure Param where
  short : Option Char
  long : Tok            -- `[]` when the option has no long name
  takesVal : Bool       -- `type` is not `bool`
deriving DecidableEq, Repr

inductive Scan where
  | notOpt | dashdash | complete | needsVal | bad
deriving DecidableEq, Repr

def findShort (ps : List Param) (c : Char) : Option Param := ps.find? (fun p => p.short == some c)
def findLong (ps : List Param) (n : Tok) : Option Param := ps.find? (fun p => !n.isEmpty && p.long == n)

/-- `getopt.do_shorts` on the characters after the dash -/
def scanShort (ps : List Param) : Tok → Scan
  | [] => .complete
  | c :: cs =>
    match findShort ps c with
    | none => .bad
    | some p => if p.takesVal then (if cs.isEmpty then .needsVal else .complete) else scanShort ps cs

/-- `getopt.do_longs` on the characters after `--` (exact long names only) -/
def scanLong (ps : List Param) (body : Tok) : Scan :=
  match findLong ps (body.takeWhile (· != '=')) with
  | none => .bad
  | some p =>
    if p.takesVal then (if body.contains '=' then .complete else .needsVal)
    else (if body.contains '=' then .bad else .complete)

def scan (ps : List Param) : Tok → Scan
  | ['-', '-'] => .dashdash
  | '-' :: '-' :: body => scanLong ps body
  | '-' :: c :: cs => scanShort ps (c :: cs)
  | _ => .notOpt

/-- what `getopt` leaves of the argv that follows a task name; `none` = `CmdParseError` -/
def dropOpts (ps : List Param) : List Tok → Option (List Tok)
  | [] => some []
  | a :: rest =>
    match scan ps a with
    | .notOpt => some (a :: rest)
    | .dashdash => some rest
    | .complete => dropOpts ps rest
    | .needsVal =>
      match rest with
      | [] => none
      | _ :: rest' => dropOpts ps rest'
    | .bad => none

/-! ## tasks as `TaskControl` receives them -/

structure Task where
  name : Tok
  taskDep : List Tok := []      -- as written: may contain `*` patterns (Task.wild_dep)
  setup : List Tok := []
  calcDep : List Tok := []
  fileDep : List Tok := []
  targets : List Tok := []
  hasSubtask : Bool := false
  params : List Param := []
  posArg : Bool := false
  delayed : Bool := false       -- has a `loader` (`@create_after`)
  utd : Bool := false           -- declared up-to-date (`uptodate: [True]`, nothing else): never selected to run
deriving DecidableEq, Repr

def names (ts : List Task) : List Tok := ts.map (·.name)
def find (ts : List Task) (a : Tok) : Option Task := ts.find? (fun t => t.name == a)
/-- `TaskControl.targets[f]` -/
def producer (ts : List Task) (f : Tok) : Option Tok := (ts.find? (fun t => t.targets.contains f)).map (·.name)
/-- `_get_wild_tasks` -/
def wild (ts : List Task) (pat : Tok) : List Tok := (names ts).filter (glob pat)

def expandWild (ts : List Task) (t : Task) : List Tok :=
  t.taskDep.filter (fun d => !hasStar d) ++ (t.taskDep.filter hasStar).flatMap (wild ts)

def addImplicit (ts : List Task) (cur : List Tok) : List Tok → List Tok
  | [] => cur
  | f :: fs =>
    match producer ts f with
    | some p => if cur.contains p then addImplicit ts cur fs else addImplicit ts (cur ++ [p]) fs
    | none => addImplicit ts cur fs

def finalDeps (ts : List Task) (t : Task) : List Tok := addImplicit ts (expandWild ts t) t.fileDep

/-- the task set after `TaskControl.__init__` -/
def prepare (ts : List Task) : List Task := ts.map (fun t => { t with taskDep := finalDeps ts t })

/-! ## `_process_filter` -/

inductive Err where
  | notFound (a : Tok)
  | optErr
  | fuel
deriving DecidableEq, Repr

instance : DecidableEq (Except Err (List Tok)) := fun a b =>
  match a, b with
  | .ok x, .ok y => if h : x = y then isTrue (by rw [h]) else isFalse (by intro e; cases e; exact h rfl)
  | .error x, .error y => if h : x = y then isTrue (by rw [h]) else isFalse (by intro e; cases e; exact h rfl)
  | .ok _, .error _ => isFalse (by intro e; cases e)
  | .error _, .ok _ => isFalse (by intro e; cases e)

def mapOk (f : List Tok → List Tok) : Except Err (List Tok) → Except Err (List Tok)
  | .ok l => .ok (f l)
  | .error e => .error e

/-- `pinned = false`: the code as it is (dcfe778): a task named again after its options were initialised is selected
    again and parses nothing, the loop goes on with the next token;
    `pinned = true`: the code before dcfe778: such a task ended the loop and the rest of the command line was dropped. -/
def pf (ts : List Task) (pinned : Bool) : Nat → List Tok → List Tok → Except Err (List Tok)
  | 0, _, _ => .error .fuel
  | _ + 1, _, [] => .ok []
  | n + 1, ini, a :: rest =>
    if hasStar a then mapOk (wild ts a ++ ·) (pf ts pinned n (ini ++ wild ts a) rest)
    else match find ts a with
      | none => mapOk (a :: ·) (pf ts pinned n ini rest)
      | some t =>
        if ini.contains a then (if pinned then .ok [a] else mapOk (a :: ·) (pf ts pinned n ini rest))
        else match dropOpts t.params rest with
          | none => .error .optErr
          | some rest' => if t.posArg then .ok [a] else mapOk (a :: ·) (pf ts pinned n (a :: ini) rest')

/-- does the loop meet a task whose options are already initialised? (same recursion as `pf`) -/
def reinitB (ts : List Task) : Nat → List Tok → List Tok → Bool
  | 0, _, _ => false
  | _ + 1, _, [] => false
  | n + 1, ini, a :: rest =>
    if hasStar a then reinitB ts n (ini ++ wild ts a) rest
    else match find ts a with
      | none => reinitB ts n ini rest
      | some t =>
        if ini.contains a then true
        else match dropOpts t.params rest with
          | none => false
          | some rest' => if t.posArg then false else reinitB ts n (a :: ini) rest'

/-- `pos_arg_val` assignments made by the loop, in order -/
def pfPos (ts : List Task) : Nat → List Tok → List Tok → List (Tok × List Tok)
  | 0, _, _ => []
  | _ + 1, _, [] => []
  | n + 1, ini, a :: rest =>
    if hasStar a then
      ((wild ts a).filter (fun w => !ini.contains w && ((find ts w).map (·.posArg)).getD false)).map (·, [])
        ++ pfPos ts n (ini ++ wild ts a) rest
    else match find ts a with
      | none => pfPos ts n ini rest
      | some t =>
        if ini.contains a then pfPos ts n ini rest
        else match dropOpts t.params rest with
          | none => []
          | some rest' => if t.posArg then [(a, rest')] else pfPos ts n (a :: ini) rest'

/-! ## `_filter_tasks` -/

def baseName (a : Tok) : Tok := a.takeWhile (· != ':')

def resolve (ts : List Task) (a : Tok) : Option Tok :=
  match find ts a with
  | some _ => some a
  | none =>
    match producer ts a with
    | some p => some p
    | none =>
      match find ts (baseName a) with
      | some b => if b.delayed then some a else none
      | none => none

def resolveAll (ts : List Task) : List Tok → Except Err (List Tok)
  | [] => .ok []
  | a :: fl =>
    match resolve ts a with
    | none => .error (.notFound a)
    | some n => mapOk (n :: ·) (resolveAll ts fl)

def bindOk (r : Except Err (List Tok)) (f : List Tok → Except Err (List Tok)) : Except Err (List Tok) :=
  match r with
  | .ok l => f l
  | .error e => .error e

def filterGen (ts : List Task) (pinned : Bool) (ini args : List Tok) : Except Err (List Tok) :=
  bindOk (pf ts pinned (args.length + 1) ini args) (resolveAll ts)

/-- `TaskControl._filter_tasks` on a fresh `TaskControl` -/
def filterTasks (ts : List Task) (args : List Tok) : Except Err (List Tok) := filterGen ts false [] args
/-- the same before dcfe778 (F-C12b) -/
def pinnedFilterTasks (ts : List Task) (args : List Tok) : Except Err (List Tok) := filterGen ts true [] args
def NoReinit (ts : List Task) (args : List Tok) : Prop := reinitB ts (args.length + 1) [] args = false
instance (ts : List Task) (args : List Tok) : Decidable (NoReinit ts args) := by unfold NoReinit; infer_instance

/-- `DoitCmdBase.execute`: `self.sel_tasks = args or params.get('default_tasks')` -/
def selArgs (args : List Tok) (dflt : Option (List Tok)) : Option (List Tok) :=
  if args.isEmpty then dflt else some args

/-- `TaskControl.process` -/
def processGen (ts : List Task) (pinned : Bool) : Option (List Tok) → Except Err (List Tok)
  | none => .ok (names ts)
  | some a => filterGen ts pinned [] a

def process (ts : List Task) (sel : Option (List Tok)) : Except Err (List Tok) := processGen ts false sel

/-- pinned `Run._execute` under `--single`: `control.process` was called a second time on the same `TaskControl`;
    by then every task the first pass put into the filter list has its options initialised -/
def pinnedSingleSelect (ts : List Task) (sel : Option (List Tok)) : Except Err (List Tok) :=
  match sel with
  | none => .ok (names ts)
  | some a =>
    match pf ts true (a.length + 1) [] a with
    | .error e => .error e
    | .ok fl =>
      match resolveAll ts fl with
      | .error e => .error e
      | .ok _ => filterGen ts true (fl.filter (fun n => (find ts n).isSome)) a

/-! ## `--single` -/

def clearDeps (ts : List Task) (victims : List Tok) : List Task :=
  ts.map (fun t => if victims.contains t.name then { t with taskDep := [] } else t)

def singleStep (ts : List Task) (n : Tok) : List Task :=
  match find ts n with
  | none => ts
  | some t => if t.hasSubtask then clearDeps ts t.taskDep else clearDeps ts [n]

def applySingle (ts : List Task) (sel : List Tok) : List Task := sel.foldl singleStep ts

/-! ## what the dispatcher can reach -/

/-- edges of the static graph: task_dep (after `prepare`), calc_dep, and setup-tasks of a task that runs -/
def succs (ts : List Task) (n : Tok) : List Tok :=
  match find ts n with
  | none => []
  | some t => t.taskDep ++ t.calcDep ++ (if t.utd then [] else t.setup)

/-- append the elements of the second list that are not there yet -/
def addNew (S : List Tok) : List Tok → List Tok
  | [] => S
  | m :: ms => if S.contains m then addNew S ms else addNew (S ++ [m]) ms

def expand (ts : List Task) (S : List Tok) : List Tok := addNew S (S.flatMap (succs ts))

def reachIter (ts : List Task) : Nat → List Tok → List Tok
  | 0, S => S
  | n + 1, S => reachIter ts n (expand ts S)

def closureOf (ts : List Task) (sel : List Tok) : List Tok := reachIter ts ts.length (addNew [] sel)

def closedB (ts : List Task) (S : List Tok) : Bool := S.all (fun n => (succs ts n).all (fun m => S.contains m))

/-! ## the whole of `doit run [--single] ARGS` up to the dispatcher, and the property monitor -/

structure Plan where
  sel : List Tok
  tasks : List Task          -- after `prepare` and, with `--single`, `applySingle`
  closure : List Tok

def planGen (ts : List Task) (pinned : Bool) (args : List Tok) (dflt : Option (List Tok)) (single : Bool) :
    Except Err Plan :=
  match processGen (prepare ts) pinned (selArgs args dflt) with
  | .error e => .error e
  | .ok sel =>
    let ts' := if single then applySingle (prepare ts) sel else prepare ts
    .ok { sel := sel, tasks := ts', closure := closureOf ts' sel }

/-! ## the command line before selection: `DoitMain.process_args` (M8/M4 boundary)

Every word of the command line that does not start with `-` and contains `=` is a *command-line variable*
(`doit.get_var`): it is taken out before the sub-command sees its arguments — wherever it stands, also where the user
meant it as the detached value of a task option (`t --val a=b x` reaches the selection as `t --val x`), and a target whose
name contains `=` cannot be named.  `default_tasks` come from the configuration and are not filtered. -/

def isVarWord (a : Tok) : Bool :=
  match a with
  | [] => false
  | c :: _ => c != '-' && a.contains '='

def stripVars (args : List Tok) : List Tok := args.filter (fun a => !isVarWord a)

/-- `DoitMain.process_args` (since 0ab6253 it tests `arg[:1]`): total; an empty word is not a variable, it stays on the
    command line and is then looked up like any other word (as a name: not found; after an option that takes a value
    or after a `pos_arg` task: a value) -/
def cliArgs (args : List Tok) : List Tok := stripVars args

/-- before 0ab6253 (F-C12-empty-word-crash) `process_args` evaluated `arg[0]`: an empty word anywhere on the command line
    raised IndexError outside the `try` of `DoitMain.run` (`none`) -/
def pinnedCliArgs (args : List Tok) : Option (List Tok) :=
  if args.contains [] then none else some (stripVars args)

/-- `doit run [--single] ARGS` from the command line -/
def planCli (ts : List Task) (args : List Tok) (dflt : Option (List Tok)) (single : Bool) : Except Err Plan :=
  planGen ts false (stripVars args) dflt single

/-- index of the first occurrence -/
def idxOf (l : List Tok) (a : Tok) : Nat := l.findIdx (· == a)

/-- order clause: a selected task `b` given after `a` may start before `a` only if it is in the closure of `a`
    or of a task selected before `a` -/
def orderPairsBad (ts : List Task) (sel started : List Tok) : List (Tok × Tok) :=
  let s := addNew [] sel
  (List.range s.length).flatMap fun i =>
    (List.range s.length).filterMap fun j =>
      let a := s.getD i []
      let b := s.getD j []
      if i < j && started.contains a && started.contains b && idxOf started b < idxOf started a
          && !(closureOf ts (s.take (i + 1))).contains b
      then some (a, b) else none

/-- abstraction of the serial dispatcher (`TaskDispatcher._dispatcher_generator` takes the next selected task only when
    nothing is ready or waiting): the selected tasks are worked off one after the other — for every `j`, whatever is
    started of the closure of the first `j+1` selected tasks is started before anything outside that closure -/
def chunkAt (C started : List Tok) : Bool :=
  started.all fun x => started.all fun y =>
    !(C.contains x && !C.contains y) || decide (idxOf started x < idxOf started y)

def chunkedB (ts : List Task) (sel started : List Tok) : Bool :=
  (List.range (addNew [] sel).length).all fun j => chunkAt (closureOf ts ((addNew [] sel).take (j + 1))) started

structure Obs where
  exit : Nat
  processed : List Tok       -- tasks the reporter heard of
  started : List Tok         -- tasks in the order they were started (serial runner)
  ran : List Tok             -- tasks whose action ran
  actionsOnly : Bool := false  -- the run used a reporter of doit's own (json, zero, ...): only the recording actions
                               -- were observed, `processed` and `started` list the tasks whose action ran

/-- does running the task show in its recording action? (group tasks have no action; a task declared up-to-date is skipped) -/
def hasAction (ts : List Task) (n : Tok) : Bool :=
  match find ts n with
  | some t => !t.hasSubtask && !t.utd
  | none => true

def sameSet (a b : List Tok) : Bool := a.all (fun x => b.contains x) && b.all (fun x => a.contains x)

/-- the statement of C12 on one observed run; the list of clauses that fail (empty = holds) -/
def monitor (ts : List Task) (args : List Tok) (dflt : Option (List Tok)) (single : Bool) (o : Obs) : List String :=
  match planGen ts false args dflt single with
  | .error _ =>
    (if o.exit == 3 then [] else ["unknown-not-rejected"]) ++
    (if o.ran.isEmpty && o.processed.isEmpty then [] else ["executed-before-rejecting"])
  | .ok p =>
    (if o.exit == 0 then [] else ["exit-code"]) ++
    (if o.processed.all (fun x => p.closure.contains x) then [] else ["processed-outside-closure"]) ++
    (if (if o.actionsOnly then p.closure.filter (hasAction p.tasks) else p.closure).all
          (fun x => o.processed.contains x) then [] else ["closure-not-processed"]) ++
    (if (orderPairsBad p.tasks p.sel o.started).isEmpty then [] else ["order"])

end DoitModel.Sel
