import DoitModel.Model.Basic
import DoitModel.Model.Sel
/-! # M7 — `doit clean` (`doit/cmd_clean.py`, `Task.clean` / `clean_targets` of `doit/task.py`)
      and the selection part of M8 that `Clean._execute` uses.

Task names are positions in the task list (`Name = Nat`, definition order); a task's *label* (the
string the user types) is only used to resolve positional arguments and `*` patterns.  The table is the
task dict *after* `TaskControl.__init__` (wild-card and implicit task_deps already in `taskDep`).

* `setdef` / `addRev` / `pop1` / the head of the list mirror `OrderedDict.setdefault`, `.setdefault(k, []).append`,
  `.pop(k)` and `.popitem(0)` (`last=0`: FIFO).
* `buildDeps` is `CleanDepTree.build_nodes_with_deps` (recursive, `_processed` set), `buildNoDeps` is
  `build_nodes`; `getLeafs` / `flatLoop` are `_get_leafs` / `flat`.  The recursive ones are fuelled; running out
  of fuel is an explicit flag `oof`, and `Proofs/CleanFlat.lean`, `Proofs/CleanBuild.lean` show it is never set
  with the fuel the model uses (`*_fuel_suffices`).
* `cleanTasks` is `Clean.clean_tasks` (de-duplication, `Task.clean`, `dep_manager.remove`), over a small
  world: existing files, existing directories, tasks that have saved state in the DB.
-/
namespace DoitModel.Clean

abbrev Name := Nat
abbrev Path := List Char
abbrev Nodes := List (Name × List Name)

/-! ## ordered-dict primitives -/
def keys (ns : Nodes) : List Name := ns.map Prod.fst
/-- the list stored under `x` (`[]` when absent) -/
def chOf (ns : Nodes) (x : Name) : List Name := (alookup x ns).getD []

/-- `nodes.setdefault(k, [])` -/
def setdef (k : Name) : Nodes → Nodes
  | [] => [(k, [])]
  | (a, v) :: rest => if a = k then (a, v) :: rest else (a, v) :: setdef k rest

/-- `nodes.setdefault(k, []).append(x)` -/
def addRev (k x : Name) : Nodes → Nodes
  | [] => [(k, [x])]
  | (a, v) :: rest => if a = k then (a, v ++ [x]) :: rest else (a, v) :: addRev k x rest

/-- `nodes.pop(k)` -/
def pop1 (k : Name) : Nodes → Nodes
  | [] => []
  | (a, v) :: rest => if a = k then rest else (a, v) :: pop1 k rest

/-! ## build_nodes_with_deps -/
structure BState where
  nodes : Nodes
  processed : List Name
  oof : Bool
deriving Repr

/-- body of the `for dep_name in reversed(...)` loop: `rev_dep = setdefault(dep); rev_dep.append(task); recurse` -/
def buildStep (rec : Name → BState → BState) (name : Name) (s : BState) (d : Name) : BState :=
  rec d { s with nodes := addRev d name s.nodes }

/-- `CleanDepTree.build_nodes_with_deps(tasks, name)`; `deps n` is `setup_tasks + task_dep` of task `n` -/
def buildDeps (deps : Name → List Name) : Nat → Name → BState → BState
  | 0, _, s => { s with oof := true }
  | f + 1, name, s =>
    if name ∈ s.processed then s
    else (deps name).reverse.foldl (buildStep (buildDeps deps f) name)
           { s with nodes := setdef name s.nodes, processed := name :: s.processed }

/-- the `for name in clean_list: tree.build_nodes_with_deps(tasks, name)` loop -/
def buildAll (deps : Name → List Name) (fuel : Nat) (cleanList : List Name) : BState :=
  cleanList.foldl (fun s n => buildDeps deps fuel n s) { nodes := [], processed := [], oof := false }

/-! ## build_nodes (sub-tasks only) -/
/-- body of `build_nodes`' outer loop for one name; `subs n` = `[d for d in reversed(task_dep) if subtask_of(d) == n]` -/
def buildNoDepsStep (subs : Name → List Name) (ns : Nodes) (name : Name) : Nodes :=
  (subs name).foldl (fun ns d => addRev d name ns) (setdef name ns)

def buildNoDeps (subs : Name → List Name) (cleanList : List Name) : Nodes :=
  cleanList.foldl (buildNoDepsStep subs) []

/-! ## flat / _get_leafs -/
structure FState where
  nodes : Nodes
  out : List Name
  oof : Bool
deriving Repr

/-- body of `for child_name in children`: `if child in nodes: grand = nodes.pop(child); yield from leafs(child, grand)` -/
def visit (rec : Name → List Name → FState → FState) (s : FState) (c : Name) : FState :=
  match alookup c s.nodes with
  | none => s
  | some grand => rec c grand { s with nodes := pop1 c s.nodes }

def emit (name : Name) (s : FState) : FState := { s with out := s.out ++ [name] }

/-- `CleanDepTree._get_leafs(name, children)`: everything it yields is appended to `out` -/
def getLeafs : Nat → Name → List Name → FState → FState
  | 0, _, _, s => { s with oof := true }
  | f + 1, name, children, s => emit name (children.foldl (visit (getLeafs f)) s)

/-- `CleanDepTree.flat`: `while nodes: head, children = popitem(0); extend(_get_leafs(head, children))` -/
def flatLoop (lf : Nat) : Nat → FState → FState
  | 0, s => match s.nodes with
    | [] => s
    | _ :: _ => { s with oof := true }
  | f + 1, s => match s.nodes with
    | [] => s
    | (h, ch) :: rest => flatLoop lf f (getLeafs lf h ch { s with nodes := rest })

def flat (ns : Nodes) : FState :=
  flatLoop (ns.length + 1) ns.length { nodes := ns, out := [], oof := false }

/-! ## the task table and the command line -/
/-- what a generated clean action really does to the target tree when it is executed -/
inductive Eff
  | rm (p : Path)      -- `rm -f p` / `os.remove(p)` if it is a file
  | mk (p : Path)      -- `touch p` / `open(p, 'a')` for a top-level name
deriving DecidableEq, Repr

inductive ActKind
  | aware     -- python callable with a `dryrun` parameter: called on every clean, told whether it is a dry run
  | plain     -- python callable without it
  | cmd       -- shell command
deriving DecidableEq, Repr

structure Act where
  kind : ActKind
  eff : Option Eff
deriving DecidableEq, Repr

/-- `(not dryrun) or execute_on_dryrun` of `Task.clean`, decided **per action**: on a dry run only a python
    callable that declares a `dryrun` parameter is executed -/
def actRuns (dry : Bool) (a : Act) : Bool := !dry || a.kind == .aware

inductive CleanKind
  | nothing                          -- `clean` not given: no clean behaviour
  | targets                          -- `clean: True`
  | actions (as : List Act)          -- `clean: [a0, a1, ...]`
deriving DecidableEq, Repr

structure Task where
  label : List Char
  taskDep : List Name
  setup : List Name
  subtaskOf : Option Name
  targets : List Path
  kind : CleanKind
deriving Repr

abbrev Table := List Task

def Table.get (tbl : Table) (n : Name) : Option Task := tbl[n]?
def taskDepOf (tbl : Table) (n : Name) : List Name := match tbl[n]? with | some t => t.taskDep | none => []
def setupOf (tbl : Table) (n : Name) : List Name := match tbl[n]? with | some t => t.setup | none => []
/-- `task.setup_tasks + task.task_dep` -/
def depsOf (tbl : Table) (n : Name) : List Name := setupOf tbl n ++ taskDepOf tbl n
def isSubOf (tbl : Table) (d n : Name) : Bool := match tbl[d]? with | some t => t.subtaskOf == some n | none => false
/-- the sub-tasks `build_nodes` adds for `n`, in the order it meets them (`reversed(task.task_dep)`) -/
def subsRevOf (tbl : Table) (n : Name) : List Name := (taskDepOf tbl n).reverse.filter (fun d => isSubOf tbl d n)

structure Req where
  pos : List (List Char)                 -- positional arguments
  defaults : Option (List (List Char))   -- DOIT_CONFIG['default_tasks'] (none: not configured)
  cleandep : Bool
  cleanall : Bool
  dryrun : Bool
  forget : Bool
deriving Repr

/-- `fnmatch.fnmatch` (`cmd_clean.py`: `fnmatch.fnmatch(t.name, name)`): the matcher of M8 — `*`, `?`, bracket classes as
    CPython 3.12's `fnmatch.translate` reads them, literals; specified by `C12.glob_spec_full` -/
def glob (p s : List Char) : Bool := DoitModel.Sel.glob p s

def resolve (tbl : Table) (arg : List Char) : Option Name :=
  let i := tbl.findIdx (fun t => t.label == arg)
  if i < tbl.length then some i else none

def allNames (tbl : Table) : List Name := List.range tbl.length

/-- `Clean._expand` for one argument: a pattern (contains `*`) gives the matching tasks in definition order,
    anything else is looked up (`none`: no such task) -/
def expandArg (tbl : Table) (arg : List Char) : List (Option Name) :=
  if '*' ∈ arg then ((allNames tbl).filter (fun n => match tbl[n]? with | some t => glob arg t.label | none => false)).map some
  else [resolve tbl arg]

def expand (tbl : Table) (args : List (List Char)) : List (Option Name) := args.flatMap (expandArg tbl)

inductive Err
  | notATask     -- `check_tasks_exist`: InvalidCommand "'x' is not a task."
  | keyError     -- a `default_tasks` entry that names no task: `tasks[name]` raises KeyError
deriving DecidableEq, Repr

/-- `check_tasks_exist(tasks, pos_args, skip_wildcard=True)` -/
def posOk (tbl : Table) (pos : List (List Char)) : Bool :=
  pos.all (fun a => '*' ∈ a || (resolve tbl a).isSome)

/-- does this invocation include dependencies? (`cleandep` after `_execute` adjusted it) -/
def withDeps (r : Req) : Bool := r.cleanall || r.cleandep || r.pos.isEmpty

/-- `clean_list` of `_execute` (before dependency / sub-task expansion) -/
def cleanList (tbl : Table) (r : Req) : Except Err (List Name) :=
  if !posOk tbl r.pos then .error .notATask
  else if r.cleanall then .ok (allNames tbl)
  else if !r.pos.isEmpty then
    match (expand tbl r.pos).mapM id with
    | some l => .ok l
    | none => .error .notATask
  else match r.defaults with
    | some d => match (expand tbl d).mapM id with
      | some l => .ok l.reverse
      | none => .error .keyError
    | none => .ok (allNames tbl).reverse

/-- the `CleanDepTree.nodes` built by `_execute` -/
def buildTree (tbl : Table) (r : Req) (cl : List Name) : BState :=
  if withDeps r then buildAll (depsOf tbl) (tbl.length + 1) cl
  else { nodes := buildNoDeps (subsRevOf tbl) cl, processed := [], oof := false }

/-- `clean_tasks`' `cleaned` set: first occurrences only -/
def dedup : List Name → List Name → List Name
  | _, [] => []
  | seen, x :: xs => if x ∈ seen then dedup seen xs else x :: dedup (x :: seen) xs

structure Plan where
  order : List Name     -- the tasks whose `clean` runs, in order
  oof : Bool
deriving Repr

/-- everything of `_execute` up to the list handed to `Task.clean` -/
def plan (tbl : Table) (r : Req) : Except Err Plan :=
  match cleanList tbl r with
  | .error e => .error e
  | .ok cl =>
    let b := buildTree tbl r cl
    let f := flat b.nodes
    .ok { order := dedup [] f.out, oof := b.oof || f.oof }

/-- the fuel of `build_nodes_with_deps` (number of tasks + 1) is an artefact of the model; its sufficiency is
    evaluated by the driver on every case (`oof`); `flat`'s fuel is proved sufficient below (`flat_terminates`) -/
def BuildFuelOk (tbl : Table) (r : Req) (base : List Name) : Prop := (buildTree tbl r base).oof = false

instance (tbl : Table) (r : Req) (base : List Name) : Decidable (BuildFuelOk tbl r base) := by
  unfold BuildFuelOk; infer_instance

/-! ## effects: `Task.clean`, `clean_targets`, `--forget` -/
structure World where
  files : List Path      -- existing regular files
  dirs : List Path       -- existing directories
  db : List Name         -- tasks with saved state
  links : List (Path × Path) := []   -- symbolic links: (path of the link, resolved path it points to)
deriving Repr

inductive Ev
  | executing (t : Name) (k : Nat)       -- "<t> - executing '<action k>'" written to the outstream
  | ran (t : Name) (k : Nat) (dry : Bool)  -- python action k was called (`dry`: the `dryrun` value it was given,
                                         --   `false` for a callable without that parameter)
  | cmd (t : Name) (k : Nat)             -- shell action k was executed
  | rmFile (t : Name) (p : Path)
  | rmDir (t : Name) (p : Path)
  | notEmpty (t : Name) (p : Path)
  | crash (t : Name) (p : Path)     -- only in `rmLinkPinned` (the code before fix a5ed062): `os.rmdir` on a symbolic link
                                    --   to an empty directory, NotADirectoryError, the command died here
deriving DecidableEq, Repr

/-- code-point lexicographic `≤` on strings (python `str` ordering) -/
def pathLe : Path → Path → Bool
  | [], _ => true
  | _ :: _, [] => false
  | a :: p, b :: q => a.toNat < b.toNat || (a.toNat == b.toNat && pathLe p q)

def insertDesc (x : Path) : List Path → List Path
  | [] => [x]
  | y :: ys => if pathLe y x then x :: y :: ys else y :: insertDesc x ys

/-- `sorted(targets, reverse=True)` -/
def sortDesc (ts : List Path) : List Path := ts.foldr insertDesc []

/-- `p` lies strictly below directory `d` -/
def below (d p : Path) : Bool := (d ++ ['/']).isPrefixOf p
/-- `os.listdir(d)` is non-empty -/
def hasEntry (w : World) (d : Path) : Bool := (w.files ++ w.dirs ++ w.links.map Prod.fst).any (below d)

/-- where the symbolic link `p` points to (`none`: `p` is not a link) -/
def linkDest (w : World) (p : Path) : Option Path := alookup p w.links

/-- a target that is a symbolic link to `d`: `os.path.isfile` / `isdir` / `listdir` follow the link; what is removed
    is always the link itself, never its destination: `os.remove(link)` for a link to a file and (since fix a5ed062)
    also for a link to an empty directory, where the code announces "removing dir" -/
def rmLink (dry : Bool) (t : Name) (st : World × List Ev) (p d : Path) : World × List Ev :=
  if d ∈ st.1.files then
    ((if dry then st.1 else { st.1 with links := st.1.links.filter (fun l => l.1 ≠ p) }), st.2 ++ [Ev.rmFile t p])
  else if d ∈ st.1.dirs then
    if hasEntry st.1 d then (st.1, st.2 ++ [Ev.notEmpty t p])
    else ((if dry then st.1 else { st.1 with links := st.1.links.filter (fun l => l.1 ≠ p) }), st.2 ++ [Ev.rmDir t p])
  else st

/-- the behaviour before fix a5ed062 (kept for the counterexample theorem): `os.rmdir` was called on the link to an
    empty directory, NotADirectoryError, the command died after the announcement (event `crash`) -/
def rmLinkPinned (dry : Bool) (t : Name) (st : World × List Ev) (p d : Path) : World × List Ev :=
  if d ∈ st.1.files then
    ((if dry then st.1 else { st.1 with links := st.1.links.filter (fun l => l.1 ≠ p) }), st.2 ++ [Ev.rmFile t p])
  else if d ∈ st.1.dirs then
    if hasEntry st.1 d then (st.1, st.2 ++ [Ev.notEmpty t p])
    else (st.1, st.2 ++ (if dry then [Ev.rmDir t p] else [Ev.rmDir t p, Ev.crash t p]))
  else st

def rmTarget (dry : Bool) (t : Name) (st : World × List Ev) (p : Path) : World × List Ev :=
  if p ∈ st.1.files then
    ((if dry then st.1 else { st.1 with files := st.1.files.filter (· ≠ p) }), st.2 ++ [Ev.rmFile t p])
  else if (linkDest st.1 p).isSome then rmLink dry t st p ((linkDest st.1 p).getD [])
  else if p ∈ st.1.dirs then
    if hasEntry st.1 p then (st.1, st.2 ++ [Ev.notEmpty t p])
    else ((if dry then st.1 else { st.1 with dirs := st.1.dirs.filter (· ≠ p) }), st.2 ++ [Ev.rmDir t p])
  else st

/-- `clean_targets(task, dryrun)` -/
def cleanTargets (dry : Bool) (t : Name) (targets : List Path) (st : World × List Ev) : World × List Ev :=
  (sortDesc targets).foldl (rmTarget dry t) st

/-- the effect of an executed action on the tree (DB untouched) -/
def applyEff : Option Eff → World → World
  | none, w => w
  | some (.rm p), w => { w with files := w.files.filter (· ≠ p) }
  | some (.mk p), w => if p ∈ w.files || p ∈ w.dirs then w else { w with files := w.files ++ [p] }

/-- one iteration of the `for action in self.clean_actions` loop.  A dryrun-aware callable that is told
    `dryrun=True` leaves the tree alone (that is what the parameter is for) -/
def runAct (dry : Bool) (t : Name) (k : Nat) (a : Act) (st : World × List Ev) : World × List Ev :=
  if actRuns dry a then
    ((if dry then st.1 else applyEff a.eff st.1),
     st.2 ++ [Ev.executing t k, if a.kind = .cmd then Ev.cmd t k else Ev.ran t k (dry && a.kind == .aware)])
  else (st.1, st.2 ++ [Ev.executing t k])

def runActs (dry : Bool) (t : Name) : Nat → List Act → World × List Ev → World × List Ev
  | _, [], st => st
  | k, a :: as, st => runActs dry t (k + 1) as (runAct dry t k a st)

/-- `Task.clean(outstream, dryrun)` -/
def taskClean (tbl : Table) (dry : Bool) (t : Name) (st : World × List Ev) : World × List Ev :=
  match tbl[t]? with
  | none => st
  | some tk =>
    match tk.kind with
    | .nothing => st
    | .targets => cleanTargets dry t tk.targets st
    | .actions as => runActs dry t 0 as st

def forgetTask (t : Name) (w : World) : World := { w with db := w.db.filter (· ≠ t) }

/-- one iteration of `clean_tasks` (the list is already de-duplicated) -/
def cleanOne (tbl : Table) (dry forget : Bool) (st : World × List Ev) (t : Name) : World × List Ev :=
  let st' := taskClean tbl dry t st
  if forget && !dry then (forgetTask t st'.1, st'.2) else st'

def cleanTasks (tbl : Table) (dry forget : Bool) (order : List Name) (w : World) : World × List Ev :=
  order.foldl (cleanOne tbl dry forget) (w, [])

structure Result where
  order : List Name
  world : World
  events : List Ev
  oof : Bool
deriving Repr

def isCrash : Ev → Bool
  | .crash _ _ => true
  | _ => false
/-- a `crash` event was emitted: never, for the current model (`Props/C14.lean` `clean_runs_to_its_end`) -/
def Result.crashed (r : Result) : Bool := r.events.any isCrash

/-- the whole command -/
def run (tbl : Table) (r : Req) (w : World) : Except Err Result :=
  match plan tbl r with
  | .error e => .error e
  | .ok p =>
    let fin := cleanTasks tbl r.dryrun r.forget p.order w
    .ok { order := p.order, world := fin.1, events := fin.2, oof := p.oof }

/-! ## the declarative side: what the property says should be cleaned, and the monitor -/

/-- reflexive-transitive closure of "depends on" -/
inductive Reach (deps : Name → List Name) : Name → Name → Prop
  | refl (a : Name) : Reach deps a a
  | step {a b c : Name} : Reach deps a b → c ∈ deps b → Reach deps a c

/-- the declarative clean set: the base list; with dependencies its closure under task_dep + setup,
    otherwise the base list plus the direct sub-tasks of its members -/
def InCleanSet (tbl : Table) (r : Req) (base : List Name) (x : Name) : Prop :=
  if withDeps r then ∃ n, n ∈ base ∧ Reach (depsOf tbl) n x
  else x ∈ base ∨ ∃ n, n ∈ base ∧ x ∈ taskDepOf tbl n ∧ isSubOf tbl x n = true

/-- longest dependency chain below `x`, cut at `fuel` -/
def depth (deps : Name → List Name) : Nat → Name → Nat
  | 0, _ => 0
  | f + 1, x => 1 + ((deps x).map (depth deps f)).foldl max 0

/-- decidable acyclicity of task_dep + setup: the cut-off depth strictly decreases along every edge -/
def acyclicB (tbl : Table) : Bool :=
  (allNames tbl).all fun a => (depsOf tbl a).all fun b =>
    decide (depth (depsOf tbl) (tbl.length + 1) b < depth (depsOf tbl) (tbl.length + 1) a)

/-- every name mentioned in the table is a task (`TaskControl._check_dep_names`) -/
def wfB (tbl : Table) : Bool :=
  (allNames tbl).all fun a => (depsOf tbl a).all fun b => decide (b < tbl.length)

/-- `n` rounds of "add the dependencies of everything found so far" -/
def closeN (deps : Name → List Name) : Nat → List Name → List Name
  | 0, s => s
  | n + 1, s => closeN deps n (s ++ s.flatMap deps)

def subset (a b : List Name) : Bool := a.all (· ∈ b)

/-- "a before b" for two emitted tasks -/
def beforeB (o : List Name) (a b : Name) : Bool := decide (o.idxOf a < o.idxOf b)

/-- dependents first: whenever `a` depends on `b` and both were emitted, `a` comes first -/
def depFirstB (deps : Name → List Name) (o : List Name) : Bool :=
  o.all fun a => (deps a).all fun b => !(b ∈ o) || beforeB o a b

/-- does the task show any clean behaviour in world `w`? (an action is announced even on a dry run;
    `clean: True` prints only for targets that exist) -/
def visible (tbl : Table) (w : World) (t : Name) : Bool :=
  match tbl[t]? with
  | none => false
  | some tk => match tk.kind with
    | .nothing => false
    | .actions as => !as.isEmpty
    | .targets => tk.targets.any fun p => p ∈ w.files || p ∈ w.dirs ||
        (match linkDest w p with | some d => d ∈ w.files || d ∈ w.dirs | none => false)

/-- the declarative clean set, computed without the traversal: `tbl.length` rounds of adding dependencies, or the
    base list plus direct sub-tasks -/
def declSet (tbl : Table) (r : Req) (base : List Name) : List Name :=
  if withDeps r then closeN (depsOf tbl) tbl.length base
  else base ++ base.flatMap (fun n => (taskDepOf tbl n).filter (fun d => isSubOf tbl d n))

/-- run-time check that `declSet` reached the fixpoint (closed under dependencies); with it `declSet` is exactly
    `InCleanSet` (`mem_declSet_iff`), without any bound on path lengths having to be proved -/
def declClosed (tbl : Table) (r : Req) (base : List Name) : Bool :=
  !withDeps r || (declSet tbl r base).all fun a => (depsOf tbl a).all fun b => b ∈ declSet tbl r base

/-- the order part of the property statement, evaluated on an observed sequence `o` of tasks whose clean
    behaviour was seen: no task twice; exactly the visible members of the clean set (`base` closed under
    dependencies, or plus sub-tasks); dependents first when dependencies are included and the graph is acyclic -/
def monitorOrder (tbl : Table) (r : Req) (base : List Name) (w : World) (o : List Name) : Bool :=
  declClosed tbl r base
  && decide o.Nodup
  && subset o ((declSet tbl r base).filter (visible tbl w))
  && subset ((declSet tbl r base).filter (visible tbl w)) o
  && (!(withDeps r && acyclicB tbl) || depFirstB (depsOf tbl) o)

/-- paths the clean *actions* of the given tasks may touch (user code: outside the property's frame) -/
def effPaths (tbl : Table) (cleaned : List Name) : List Path :=
  cleaned.flatMap fun t => match tbl[t]? with
    | some tk => match tk.kind with
      | .actions as => as.filterMap fun a => match a.eff with
        | some (.rm p) => some p
        | some (.mk p) => some p
        | none => none
      | _ => []
    | none => []

/-- no clean action of the table touches the tree -/
def effFree (tbl : Table) : Bool :=
  tbl.all fun tk => match tk.kind with
    | .actions as => as.all fun a => a.eff.isNone
    | _ => true

/-- targets of `clean: True` tasks among `cleaned` -/
def cleanedTargets (tbl : Table) (cleaned : List Name) : List Path :=
  cleaned.flatMap fun t => match tbl[t]? with
    | some tk => if tk.kind = .targets then tk.targets else []
    | none => []

/-- the effect part of the statement, on an observed final world `w'` (`cleaned` = the declarative clean set):
    dry-run: nothing changes; otherwise every existing target file of a cleaned `clean: True` task is gone and
    nothing else is (paths that the cleaned tasks' own clean actions touch are exempt: user code); only target directories disappear, and a target directory all of whose content are
    targets of the same task does disappear; `--forget` erases exactly the cleaned tasks -/
def monitorEffects (tbl : Table) (r : Req) (cleaned : List Name) (w w' : World) : Bool :=
  if r.dryrun then
    subset' w.files w'.files && subset' w'.files w.files && subset' w.dirs w'.dirs && subset' w'.dirs w.dirs
      && subset w.db w'.db && subset w'.db w.db
      && w.links.all (· ∈ w'.links) && w'.links.all (· ∈ w.links)
  else
    let tg := cleanedTargets tbl cleaned
    let ep := effPaths tbl cleaned
    w'.files.all (fun p => p ∈ w.files || p ∈ ep)
    && w.files.all (fun p => p ∈ ep || (p ∈ w'.files) == !(p ∈ tg))
    && subset' w'.dirs w.dirs
    && w.dirs.all (fun d => d ∈ w'.dirs || d ∈ tg)
    && cleaned.all (fun t => match tbl[t]? with
        | some tk => tk.kind != .targets ||
            tk.targets.all (fun d => !(d ∈ w.dirs) || !((w.files ++ w.dirs).all (fun p => !below d p || p ∈ tk.targets))
              || w.links.any (fun l => below d l.1) || !(d ∈ w'.dirs))
        | none => true)
    && subset w'.db w.db
    && w.db.all (fun t => (t ∈ w'.db) == !(r.forget && t ∈ cleaned))
    -- symbolic links: none appears; one disappears only if it is itself a target; a target link to an existing
    -- file that the command leaves alone is removed (the link, never its destination: see the files clause)
    && w'.links.all (· ∈ w.links)
    && w.links.all (fun l => l ∈ w'.links || l.1 ∈ tg)
    && w.links.all (fun l => !(l.1 ∈ tg && l.2 ∈ w.files && !(l.2 ∈ tg) && !(l.2 ∈ ep)) || !(l ∈ w'.links))
    -- ... and so is a target link to a directory that is empty from the start (nothing creates entries below it)
    && w.links.all (fun l => !(l.1 ∈ tg && l.2 ∈ w.dirs && !hasEntry w l.2) || !(l ∈ w'.links))
where
  subset' (a b : List Path) : Bool := a.all (· ∈ b)

end DoitModel.Clean
