import DoitModel.Model.Delayed
/-! # M1+ — the delayed branches of `TaskControl._filter_tasks`

What `TaskControl.process(task_selection)` does to the task table when a command-line word is not the name of a
task or of a known target: a sub-task of a delayed creator gets a placeholder task sharing the creator's loader
object (`loader.basename` is set; such a placeholder is not a candidate of the regex loop — `skipSub`); otherwise every task that carries a loader whose `target_regex` matches the word
(or every one, with `--auto-delayed-regex`) gets a `_regex_target_<word>:<task>` placeholder, all of them in one
`RegexGroup`.  Regular-expression matching is the oracle `matches`; the name of a new placeholder is the oracle
`rxName` (string formatting).  Words are pre-split by the harness (`base` = the part before the first `:`);
patterns with `*` and task options are C12's subject and do not occur here. -/
namespace DoitModel.Delayed
open DoitModel.Run (Name dedup)

structure Word where
  w : Name
  base : Name
deriving Repr, Inhabited, DecidableEq

/-- the state of `TaskControl` + the loader objects before `process` -/
structure Pre where
  tasks : List (Name × TDef)
  targets : List (Name × Name)
  creatorOf : LId → CId
  execOf : LId → Option Name
  hasRegex : LId → Bool                      -- `loader.target_regex` is set
  rxMatch : LId → Name → Bool              -- `re.match(loader.target_regex, word)`
  auto : Bool := false                       -- `--auto-delayed-regex`
  skipSub : Bool := true                     -- false: the pinned `_filter_tasks` (a sub-task placeholder is matched too)
  rxName : Name → Name → Name                -- id of the string `_regex_target_<word>:<task>`

structure FState where
  tasks : List (Name × TDef)
  baseOf : LId → Option Name
  groups : List (Name × List Name)           -- RegexGroup objects in creation order: (target, tasks)
  selected : List Name
  nextOid : Nat

/-- `self.tasks[name] = task` on an OrderedDict -/
def setTask (name : Name) (td : TDef) : List (Name × TDef) → List (Name × TDef)
  | [] => [(name, td)]
  | (a, b) :: r => if a = name then (a, td) :: r else (a, b) :: setTask name td r

def execDeps (pre : Pre) (l : LId) : List Name :=
  match pre.execOf l with
  | some d => [d]
  | none => []

/-- `task.loader.basename not in (None, task.name)`: the placeholder of a sub-task selected by name (it shares the
    loader object of its creator's task, which is matched on its own) -/
def isSubPlaceholder (baseOf : LId → Option Name) (t : Name) (l : LId) : Bool :=
  match baseOf l with
  | none => false
  | some b => b != t

/-- the tasks whose loader matches the word (`delayed_matched`), in table order, with their loader -/
def matched (pre : Pre) (baseOf : LId → Option Name) (w : Name) : List (Name × TDef) → List (Name × LId)
  | [] => []
  | (t, td) :: r =>
    match td.loader with
    | none => matched pre baseOf w r
    | some l =>
      if td.isRx then matched pre baseOf w r
      else if pre.skipSub && isSubPlaceholder baseOf t l then matched pre baseOf w r
      else if pre.hasRegex l then (if pre.rxMatch l w then (t, l) :: matched pre baseOf w r else matched pre baseOf w r)
      else if pre.auto then (t, l) :: matched pre baseOf w r
      else matched pre baseOf w r

/-- `for task in delayed_matched:` create the `_regex_target…` placeholder -/
def addRx (pre : Pre) (w : Name) (g : GId) : List (Name × LId) → FState → FState
  | [], st => st
  | (t, l) :: r, st =>
    addRx pre w g r
      { st with
        baseOf := fun k => if k = l then some t else st.baseOf k,
        tasks := setTask (pre.rxName w t)
          { deps := execDeps pre l, loader := some l, fileDep := [w], rx := some g, isRx := true, oid := st.nextOid }
          st.tasks,
        selected := st.selected ++ [pre.rxName w t],
        nextOid := st.nextOid + 1 }

/-- one word of the selection; `none` = `InvalidCommand(not_found=word)` -/
def filterWord (pre : Pre) (st : FState) (wd : Word) : Option FState :=
  match lookup0 st.tasks wd.w with
  | some _ => some { st with selected := st.selected ++ [wd.w] }
  | none =>
    match lookup0 pre.targets wd.w with
    | some t => some { st with selected := st.selected ++ [t] }
    | none =>
      match lookup0 st.tasks wd.base with
      | some btd =>
        (match btd.loader with
         | none => none
         | some l =>
           some { st with
                  baseOf := fun k => if k = l then some wd.base else st.baseOf k,
                  tasks := setTask wd.w { deps := execDeps pre l, loader := some l, oid := st.nextOid } st.tasks,
                  selected := st.selected ++ [wd.w],
                  nextOid := st.nextOid + 1 })
      | none =>
        if matched pre st.baseOf wd.w st.tasks = [] then none
        else some (addRx pre wd.w st.groups.length (matched pre st.baseOf wd.w st.tasks)
                    { st with groups := st.groups ++ [(wd.w, dedup ((matched pre st.baseOf wd.w st.tasks).map Prod.fst))] })

def filterWords (pre : Pre) : FState → List Word → Sum Name FState
  | st, [] => .inr st
  | st, wd :: r =>
    match filterWord pre st wd with
    | none => .inl wd.w
    | some st' => filterWords pre st' r

def fstate0 (pre : Pre) : FState :=
  { tasks := pre.tasks, baseOf := fun _ => none, groups := [], selected := [], nextOid := 500 }

/-- `TaskControl.process(sel)`: `none` selection = every task in definition order -/
def process (pre : Pre) (sel : Option (List Word)) : Sum Name FState :=
  match sel with
  | none => .inr { fstate0 pre with selected := pre.tasks.map Prod.fst }
  | some ws => filterWords pre (fstate0 pre) ws

/-- the input of the run phase -/
def toInput (pre : Pre) (st : FState) (make : CId → Name → List NewTask) (serial cont : Bool)
    (utd fails noAct : Name → Bool) : Input :=
  { tasks0 := st.tasks, targets0 := pre.targets, creatorOf := pre.creatorOf, execOf := pre.execOf,
    baseOf := st.baseOf,
    gtarget := fun g => (st.groups.getD g (0, [])).1,
    gtasks0 := fun g => (st.groups.getD g (0, [])).2,
    make := make, sel := st.selected, serial := serial, continue_ := cont, utd := utd, fails := fails, noAct := noAct }

end DoitModel.Delayed
