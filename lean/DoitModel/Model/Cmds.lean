import DoitModel.Model.Status
/-! # M2 + M8 — the commands that edit the dependency DB: `forget`, `ignore`, `reset-dep`, and a run that honours
the ignore mark

Mirrors `doit/cmd_forget.py` (`Forget._execute`, as repaired: no argument and no `default_tasks` ⇒ all tasks),
`doit/cmd_ignore.py`, `doit/cmd_resetdep.py`, the helpers of `doit/cmd_base.py` (`check_tasks_exist`,
`tasks_and_deps_iter(yield_duplicates=True)`, `subtasks_iter`, `sel_tasks = args or default_tasks`) and the part of
`doit/runner.py` `Runner.select_task` that decides between `skip_ignore`, `UnmetDependency`, skipping and executing
(including the repaired second pass of a task with setup-tasks).

The DB, the file system and the per-task decisions are those of M2 (`Model/Status.lean`): a command is a sequence
of M2 operations on the tasks of its *target list*; what this file adds is the task graph and the target lists.

`fixed = false` gives the pinned behaviour of the three defects F-C13a (`for name in None`: `TypeError`),
F-C05/F-C13b (second `select_task` pass does not look at ignored / failed setup-tasks) and F-C13c (`reset-dep` after a
checker change drops the ignore mark); only the counterexample theorems use it.  Core Lean only. -/
namespace DoitModel.Cmds
open DoitModel.Status

/-- the task set as the commands see it (`task_list` in definition order + the declared edges).  For a group task
    `taskDep` contains its sub-tasks (as `generate_tasks` builds it) and `subOf` of each of them names the group. -/
structure Graph where
  names : List Name
  taskDep : Name → List Name
  setup : Name → List Name
  subOf : Name → Option Name
  /-- `calc_dep`: tasks whose result provides dependencies.  A run processes them before the task (like a
      `task_dep`); `tasks_and_deps_iter` does *not* follow them ("FIXME this does not take calc_dep into account"). -/
  calcDep : Name → List Name := fun _ => []

/-- `task.task_dep + task.setup_tasks` -/
def Graph.succs (g : Graph) (t : Name) : List Name := g.taskDep t ++ g.setup t

/-- every declared edge ends in a task of the task set (enforced by the loader, C18) -/
def Graph.WF (g : Graph) : Bool :=
  g.names.all fun t => (g.succs t ++ g.calcDep t).all fun d => decide (d ∈ g.names)

/-- `subtasks_iter(tasks, task)` -/
def subtasks (g : Graph) (t : Name) : List Name := (g.taskDep t).filter fun d => g.subOf d == some t

/-- `for name in l: [name] + subtasks` -/
def withSubs (g : Graph) (l : List Name) : List Name := l.flatMap fun t => t :: subtasks g t

/-- `check_tasks_exist`: the first name that is not a task -/
def firstUnknown (g : Graph) (l : List Name) : Option Name := l.find? fun n => !decide (n ∈ g.names)

/-- the inner loop of `tasks_and_deps_iter`: a dependency that is neither processed nor queued is queued, any other
    one is yielded again (`yield_duplicates`).  Returns (queue, yielded). -/
def pushDeps (processed : List Name) : List Name → List Name → List Name × List Name
  | q, [] => (q, [])
  | q, d :: ds =>
    if d ∈ processed ∨ d ∈ q then ((pushDeps processed q ds).1, d :: (pushDeps processed q ds).2)
    else pushDeps processed (q ++ [d]) ds

/-- `list(tasks_and_deps_iter(tasks, sel, True))`: `none` = the fuel ran out before the queue did -/
def tdIter (g : Graph) : Nat → List Name → List Name → Option (List Name)
  | _, _, [] => some []
  | 0, _, _ :: _ => none
  | fuel + 1, processed, t :: q =>
    match tdIter g fuel (t :: processed) (pushDeps (t :: processed) q (g.succs t)).1 with
    | none => none
    | some rest => some (t :: (pushDeps (t :: processed) q (g.succs t)).2 ++ rest)

/-- enough for any queue discipline that never re-queues a processed name -/
def tdFuel (g : Graph) (sel : List Name) : Nat := sel.length + g.names.length + 1

structure ForgetArgs where
  names : List Name
  followSub : Bool
  all : Bool
  disableDefault : Bool
deriving DecidableEq, Repr

/-- what a command resolved its arguments to -/
inductive Target
  /-- acts on these tasks, in this order (one line of output each; duplicates possible) -/
  | tasks (l : List Name)
  /-- `forget --all`: `remove_all()` -/
  | everything
  /-- only a message is printed -/
  | nothing
  /-- `InvalidCommand("'x' is not a task.")`, exit code 3, nothing done -/
  | notATask (n : Name)
  /-- uncaught Python exception (pinned `forget` iterating over `None`) -/
  | crash
  /-- the model's fuel ran out (never happens: `tdFuel`; kept explicit instead of a made-up result) -/
  | fuel
deriving DecidableEq, Repr

/-- `self.sel_tasks = args or params.get('default_tasks')` -/
def selTasks (args : List Name) (dflt : Option (List Name)) : Option (List Name) :=
  if args.isEmpty then dflt else some args

/-- `forget_list`: with no selection at all, every task (repaired) / `None` (pinned: iterating it raises) -/
def forgetBase (fixed : Bool) (g : Graph) : Option (List Name) → Option (List Name)
  | some l => some l
  | none => if fixed then some g.names else none

def forgetExpand (g : Graph) (followSub : Bool) (base : List Name) : Target :=
  if followSub then
    match tdIter g (tdFuel g base) [] base with
    | none => .fuel
    | some l => .tasks l
  else .tasks (withSubs g base)

/-- `Forget._execute`: which records are removed -/
def forgetTarget (fixed : Bool) (g : Graph) (a : ForgetArgs) (dflt : Option (List Name)) : Target :=
  if a.all then .everything
  else if a.names.isEmpty && a.disableDefault then .nothing
  else
    match firstUnknown g ((selTasks a.names dflt).getD []) with
    | some n => .notATask n
    | none =>
      match forgetBase fixed g (selTasks a.names dflt) with
      | none => .crash
      | some base => forgetExpand g a.followSub base

/-- `Ignore._execute` -/
def ignoreTarget (g : Graph) (names : List Name) : Target :=
  if names.isEmpty then .nothing
  else
    match firstUnknown g names with
    | some n => .notATask n
    | none => .tasks (withSubs g names)

/-- `ResetDep._execute` -/
def resetTarget (g : Graph) (names : List Name) : Target :=
  if names.isEmpty then .tasks g.names
  else
    match firstUnknown g names with
    | some n => .notATask n
    | none => .tasks (withSubs g names)

/-- `remove_all()` -/
def eraseAll (s : St) : St := { s with rcd := fun _ => Rcd.empty, shadow := fun _ => none }

def eraseList (s : St) (l : List Name) : St := l.foldl erase s

/-- `Dependency.ignore(task)` -/
def setIgn (s : St) (t : Name) : St :=
  { s with rcd := fun k => if k = t then { s.rcd t with ign := true } else s.rcd k }

def ignList (s : St) (l : List Name) : St := l.foldl setIgn s

/-- `ResetDep._execute` for one task, as repaired (017f29e): the ignore mark is read before `get_status` (which drops
    the whole record when the checker changed) and re-applied after `save_success`.  In the branches that record
    nothing the mark is still there, so re-applying it is no change.  (`Status.resetDep` is the pinned behaviour.) -/
def resetOne (s : St) (t : Name) : St :=
  if (s.rcd t).ign then setIgn (resetDep true s t) t else resetDep true s t

def resetList (s : St) (l : List Name) : St := l.foldl resetOne s

/-- pinned: the mark is not re-applied -/
def pinnedResetList (s : St) (l : List Name) : St := l.foldl (resetDep true) s

def forgetCmd (fixed : Bool) (g : Graph) (a : ForgetArgs) (dflt : Option (List Name)) (s : St) : St :=
  match forgetTarget fixed g a dflt with
  | .tasks l => eraseList s l
  | .everything => eraseAll s
  | _ => s

def ignoreCmd (g : Graph) (names : List Name) (s : St) : St :=
  match ignoreTarget g names with
  | .tasks l => ignList s l
  | _ => s

def resetCmd (g : Graph) (names : List Name) (s : St) : St :=
  match resetTarget g names with
  | .tasks l => resetList s l
  | _ => s

def pinnedResetCmd (g : Graph) (names : List Name) (s : St) : St :=
  match resetTarget g names with
  | .tasks l => pinnedResetList s l
  | _ => s

/-! ## a run that honours ignore marks -/

structure Plan where
  ok : Bool
  writes : List (Path × Nat × Nat)
  res : Option Res

/-- final report of one task in one run -/
inductive Outcome
  | ignored
  | upToDate
  | ok
  | failed
  | saveMissing
  | unmet
  | error
  | crash
deriving DecidableEq, Repr

/-- `run_status == 'failure'` -/
def Outcome.isFailure : Outcome → Bool
  | .failed => true
  | .saveMissing => true
  | .unmet => true
  | .error => true
  | _ => false

/-- the task's actions were started -/
def Outcome.executed : Outcome → Bool
  | .ok => true
  | .failed => true
  | .saveMissing => true
  | _ => false

def Outcome.isIgnored : Outcome → Bool
  | .ignored => true
  | _ => false

/-- tasks that produce a file dependency of `t` (`TaskControl.set_implicit_deps`) -/
def implicitDeps (g : Graph) (defs : Name → TaskDef) (t : Name) : List Name :=
  g.names.filter fun u => (defs u).targets.any fun p => decide (p ∈ (defs t).deps)

/-- the tasks a run finishes before it hands `t` over: `task.task_dep` (declared + implicit) and `calc_dep` -/
def hardDeps (g : Graph) (defs : Name → TaskDef) (t : Name) : List Name :=
  g.taskDep t ++ g.calcDep t ++ implicitDeps g defs t

structure RunSt where
  s : St
  out : List (Name × Outcome)
  /-- a task was processed before a dependency it needed had a final report (the dispatcher never does that: C01) -/
  bad : Bool

def outOf (rs : RunSt) (t : Name) : Option Outcome := alookup t rs.out

def anyOut (rs : RunSt) (ds : List Name) (f : Outcome → Bool) : Bool :=
  ds.any fun d => match outOf rs d with
    | some o => f o
    | none => false

def missingOut (rs : RunSt) (ds : List Name) : Bool := ds.any fun d => (outOf rs d).isNone

def record (rs : RunSt) (t : Name) (o : Outcome) (s' : St) (bad : Bool) : RunSt :=
  ⟨s', (t, o) :: rs.out, rs.bad || bad⟩

def execOutcome (s : St) (t : Name) (ok : Bool) : Outcome :=
  if !ok then .failed
  else
    match saveSuccess s.checker (s.defs t).deps (s.rcd t) s.fs Values.empty none with
    | .ok _ => .ok
    | .missing => .saveMissing
    | .crash => .crash

/-- the task's status said `run`: its setup-tasks have been processed; second `select_task` pass, then execution.
    `s1` = the state after the first pass (`get_status` may have dropped the record). -/
def afterSetup (fixed : Bool) (g : Graph) (rs : RunSt) (s1 : St) (t : Name) (pl : Plan) : RunSt :=
  if fixed && anyOut rs (g.setup t) Outcome.isIgnored then record rs t .ignored s1 (missingOut rs (g.setup t))
  else if fixed && anyOut rs (g.setup t) Outcome.isFailure then record rs t .unmet (erase s1 t) (missingOut rs (g.setup t))
  else record rs t (execOutcome (applyWrites s1 pl.writes) t pl.ok)
         (finish (applyWrites s1 pl.writes) t pl.ok pl.res) (missingOut rs (g.setup t))

/-- `Runner.select_task` (+ `execute_task`, `process_task_result`) for the task the dispatcher hands over -/
def runOne (fixed always : Bool) (g : Graph) (plan : Name → Plan) (rs : RunSt) (t : Name) : RunSt :=
  if anyOut rs (hardDeps g rs.s.defs t) Outcome.isIgnored || (rs.s.rcd t).ign then
    record rs t .ignored rs.s (missingOut rs (hardDeps g rs.s.defs t))
  else if anyOut rs (hardDeps g rs.s.defs t) Outcome.isFailure then
    record rs t .unmet (erase rs.s t) (missingOut rs (hardDeps g rs.s.defs t))
  else
    match rs.s.status true t with
    | .crash => record rs t .crash { rs.s with crashed := true } (missingOut rs (hardDeps g rs.s.defs t))
    | .error => record rs t .error (erase rs.s t) (missingOut rs (hardDeps g rs.s.defs t))
    | .upToDate =>
      if always then afterSetup fixed g { rs with bad := rs.bad || missingOut rs (hardDeps g rs.s.defs t) } rs.s t (plan t)
      else record rs t .upToDate rs.s (missingOut rs (hardDeps g rs.s.defs t))
    | .run => afterSetup fixed g { rs with bad := rs.bad || missingOut rs (hardDeps g rs.s.defs t) } (peek rs.s t) t (plan t)

/-- one `doit run`: the tasks in the order the dispatcher delivered their final `select_task` -/
def runAll (fixed always : Bool) (g : Graph) (plan : Name → Plan) (s : St) (order : List Name) : RunSt :=
  order.foldl (runOne fixed always g plan) ⟨s, [], false⟩

/-! ## histories -/

inductive COp
  | edit (p : Path) (size cid : Nat)
  | touch (p : Path)
  | delete (p : Path)
  | checker (c : Checker)
  | forget (a : ForgetArgs) (dflt : Option (List Name))
  | ignore (names : List Name)
  | reset (names : List Name)
  | run (order : List Name) (always : Bool) (plan : Name → Plan)
  /-- a run stopped (failure without `--continue`) after the *first* `select_task` pass of these tasks -- each has
      setup-tasks and status `run`, so it was put aside -- and before their final report: `get_status` was called
      (it drops a record written under another checker); an ignored task never gets that far -/
  | firstPass (ts : List Name)

/-- first `select_task` pass without a final report -/
def firstPassOne (s : St) (t : Name) : St := if (s.rcd t).ign then s else peek s t

def stepC (fixed : Bool) (g : Graph) (s : St) : COp → St
  | .edit p sz c => step true s (.edit p sz c)
  | .touch p => step true s (.touch p)
  | .delete p => step true s (.delete p)
  | .checker c => { s with checker := c }
  | .forget a dflt => forgetCmd fixed g a dflt s
  | .ignore names => ignoreCmd g names s
  | .reset names => if fixed then resetCmd g names s else pinnedResetCmd g names s
  | .run order always plan => (runAll fixed always g plan s order).s
  | .firstPass ts => ts.foldl firstPassOne s

def initC (defs : Name → TaskDef) (c : Checker) : St :=
  ⟨defs, fun _ => Rcd.empty, fun _ => none, fun _ => none, c, 0, false⟩

def runC (fixed : Bool) (g : Graph) (s : St) (h : List COp) : St := h.foldl (stepC fixed g) s

/-! ## the declarative side (used by the theorems and, through the driver, by the monitor) -/

/-- reachable from `sel` along declared `task_dep` / `setup` edges -/
inductive Reach (g : Graph) (sel : List Name) : Name → Prop
  | base {x} : x ∈ sel → Reach g sel x
  | step {x y} : Reach g sel y → x ∈ g.succs y → Reach g sel x

/-- executable closure by saturation, independent of `tdIter` (monitor side) -/
def addNew (S : List Name) : List Name → List Name
  | [] => S
  | x :: xs => if x ∈ S then addNew S xs else addNew (S ++ [x]) xs

def expand (g : Graph) (S : List Name) : List Name := addNew S (S.flatMap g.succs)

def saturate (g : Graph) : Nat → List Name → List Name
  | 0, S => S
  | n + 1, S => saturate g n (expand g S)

/-- the saturation reached a fixpoint: the set is closed under successors -/
def closedB (g : Graph) (S : List Name) : Bool := S.all fun y => (g.succs y).all fun x => decide (x ∈ S)

/-- the `task_dep` / `setup` closure of `base`, by saturation -/
def closureOf (g : Graph) (base : List Name) : List Name := saturate g (g.names.length + base.length) (addNew [] base)

/-- the set `forget` is documented to clear; `none` = everything -/
def forgetSpec (g : Graph) (a : ForgetArgs) (dflt : Option (List Name)) : Option (List Name) :=
  if a.all then none
  else if a.names.isEmpty && a.disableDefault then some []
  else if a.followSub then some (closureOf g ((selTasks a.names dflt).getD g.names))
  else some (withSubs g ((selTasks a.names dflt).getD g.names))

/-- the closure used by `forgetSpec` is a fixpoint (evaluated by the driver on every case) -/
def forgetSpecClosed (g : Graph) (a : ForgetArgs) (dflt : Option (List Name)) : Bool :=
  !a.followSub || closedB g (closureOf g ((selTasks a.names dflt).getD g.names))

/-- a task whose up-to-date decision consults saved state: it has a file dependency -/
def consultsState (d : TaskDef) : Bool := !d.deps.isEmpty

/-- `t` is ignored in this run by an ignore mark reached over `task_dep` edges (declared or implicit) -/
inductive IgnReach (g : Graph) (defs : Name → TaskDef) (ign : Name → Bool) : Name → Prop
  | mark {t} : ign t = true → IgnReach g defs ign t
  | dep {t d} : d ∈ hardDeps g defs t → IgnReach g defs ign d → IgnReach g defs ign t

/-- executable `IgnReach` from a list of marks, by saturation (monitor side) -/
def ignGrow (g : Graph) (defs : Name → TaskDef) (S : List Name) : List Name :=
  S ++ g.names.filter fun t => !S.contains t && (hardDeps g defs t).any S.contains

def ignIter (g : Graph) (defs : Name → TaskDef) : Nat → List Name → List Name
  | 0, S => S
  | n + 1, S => ignIter g defs n (ignGrow g defs S)

def ignClosure (g : Graph) (defs : Name → TaskDef) (marks : List Name) : List Name :=
  ignIter g defs g.names.length marks

/-- no task of the task set outside `S` has a hard dependency in `S` -/
def ignClosedB (g : Graph) (defs : Name → TaskDef) (S : List Name) : Bool :=
  g.names.all fun t => S.contains t || !(hardDeps g defs t).any S.contains

/-! ### reset-dep: the record predicate of the property, evaluated on records (the model's or the implementation's) -/

/-- the saved state of `p` judges the present file unmodified -/
def depRecorded (c : Checker) (r : Rcd) (fs : FS) (p : Path) : Bool :=
  match r.fstate p, fs p with
  | some st, some cur => checkModified c st cur == .same
  | _, _ => false

/-- "its recorded dependency state is that of the present files and its saved values and result are kept" -/
def resetRecOk (c : Checker) (d : TaskDef) (pre post : Rcd) (fs : FS) : Bool :=
  post.getValues == pre.getValues && post.result == pre.result && d.deps.all (depRecorded c post fs)

/-- everything `get_status` reads from the record after its early exits says "unchanged" -/
def lateOk (c : Checker) (d : TaskDef) (r : Rcd) (fs : FS) : Bool :=
  !checkerChanged c r && fileVerdict c r fs d.deps == .upToDate && !depsChanged true r d.deps

def resetStatusOk (c : Checker) (d : TaskDef) (post : Rcd) (fs : FS) (_resOf : Name → Option Res) : Bool :=
  lateOk c d post fs

end DoitModel.Cmds
