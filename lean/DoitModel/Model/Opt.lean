import DoitModel.Model.Basic
/-! # M4 — option parsing (`doit/cmdparse.py`; use sites `cmd_base.py`, `task.py`, `loader.py`)

Mirrors the code *as repaired* by `fix: parsing a list option does not modify the option's default value`;
the pinned `params[name].append(val)` is kept behind `pinned := true` for the counterexample theorems.

* `getopt`      — Python's `getopt.getopt(args, shortopts, longopts)` written as a left-to-right state machine over
                  the argv tokens (`GState`): POSIX stop at the first positional, `--`, short clusters, attached /
                  detached values, `--long=v` / `--long v`, unique-prefix long matching with exact match winning.
* `str2type`    — `CmdOption.str2type` for bool / int / str / list, then `validate_choice`.
* `parse`       — `CmdParse.parse` as a state transformer `PState → … → PState × Except Err (Params × positional)`
                  where `PState` is the list of option objects (so a mutation of `opt.default` is visible).
* `overwriteDefaults`, `updateDefaults`, `Params.nd` (`DefaultUpdate._non_default_keys`).
* `pipeline`    — `Command.cmdparser` (config → `overwrite_defaults`) ; `parse` ; `DoitCmdBase.execute`
                  (`params.update_defaults(DOIT_CONFIG)`); `Task.init_options` is the same without DOIT_CONFIG.
* `specValue` / `specPairs` — the *specification*: what the property says the value of an option is, computed from the
                  structured input (list of assignments, the four sources), without any parsing.

Strings are `List Char`.  Core Lean only (linked into `doitdrv`). -/
namespace DoitModel.Opt

abbrev Str := List Char

inductive Ty | bool | int | str | list
deriving DecidableEq, Repr

/-- python values an option can hold (`none` = `None`, only as a declared default / config value) -/
inductive Val
  | none | b (x : Bool) | i (x : Int) | s (x : Str) | l (x : List Str)
deriving DecidableEq, Repr

/-- a `CmdOption` object.  `short = none` / `long = []` / `inverse = []` / `envVar = none` are the falsy values -/
structure Opt where
  name : Str
  ty : Ty
  default : Val
  short : Option Char
  long : Str
  inverse : Str
  choices : List Val
  envVar : Option Str
deriving DecidableEq, Repr

/-- the parser object: `CmdParse._options` (in order) -/
abbrev PState := List Opt

inductive Err
  | unknownShort | unknownLong | ambiguous | needsArg | noArg   -- getopt.GetoptError
  | badInt | badBool | badChoice                                -- CmdOption.str2type / validate_choice
  | crash                                                       -- a python exception that is not CmdParseError
deriving DecidableEq, Repr

/-! ## getopt -/

inductive Key | short (c : Char) | long (n : Str)
deriving DecidableEq, Repr

abbrev Pairs := List (Key × Str)

/-- `get_short()`: option letter ↦ takes a value -/
def shortTable (spec : List Opt) : List (Char × Bool) :=
  spec.filterMap fun o => o.short.map fun c => (c, o.ty != .bool)

def longEntries (o : Opt) : List (Str × Bool) :=
  if o.long = [] then [] else
    (o.long, o.ty != .bool) :: (if o.inverse = [] then [] else [(o.inverse, false)])

/-- `get_long()`: long name ↦ takes a value (`name=`) -/
def longTable (spec : List Opt) : List (Str × Bool) := spec.flatMap longEntries

/-- `short_has_arg` -/
def lookupShort (tbl : List (Char × Bool)) (c : Char) : Option Bool :=
  (tbl.find? (·.1 = c)).map (·.2)

def possibilities (tbl : List (Str × Bool)) (opt : Str) : List (Str × Bool) :=
  tbl.filter fun e => opt.isPrefixOf e.1

/-- `long_has_args`: exact match wins (flag form first), otherwise the prefix must be unique -/
def longHasArgs (tbl : List (Str × Bool)) (opt : Str) : Except Err (Bool × Str) :=
  match possibilities tbl opt with
  | [] => .error .unknownLong
  | x :: rest =>
    if (opt, false) ∈ x :: rest then .ok (false, opt)
    else if (opt, true) ∈ x :: rest then .ok (true, opt)
    else if rest = [] then .ok (x.2, x.1)
    else .error .ambiguous

/-- `opt.index('=')`: name and (optional) attached value of the body of a `--…` token -/
def splitEq : Str → Str × Option Str
  | [] => ([], none)
  | c :: rest => if c = '=' then ([], some rest) else ((splitEq rest).1.cons c, (splitEq rest).2)

inductive GState
  | scan (acc : Pairs)                 -- still reading options
  | want (acc : Pairs) (k : Key)       -- `k` takes a value and none was attached: the next token is it
  | pos (acc : Pairs) (ps : List Str)  -- after the first positional / after `--`
  | fail (e : Err)
deriving DecidableEq, Repr

/-- `do_shorts` on one cluster -/
def doShorts (tbl : List (Char × Bool)) : Str → Pairs → GState
  | [], acc => .scan acc
  | c :: rest, acc =>
    match lookupShort tbl c with
    | none => .fail .unknownShort
    | some true => if rest = [] then .want acc (.short c) else .scan (acc ++ [(.short c, rest)])
    | some false => doShorts tbl rest (acc ++ [(.short c, [])])

def longResult (acc : Pairs) (optarg : Option Str) : Except Err (Bool × Str) → GState
  | .error e => .fail e
  | .ok (true, full) =>
    match optarg with
    | some v => .scan (acc ++ [(.long full, v)])
    | none => .want acc (.long full)
  | .ok (false, full) =>
    match optarg with
    | some _ => .fail .noArg
    | none => .scan (acc ++ [(.long full, [])])

/-- `do_longs` on the body of one `--…` token -/
def doLong (tbl : List (Str × Bool)) (body : Str) (acc : Pairs) : GState :=
  longResult acc (splitEq body).2 (longHasArgs tbl (splitEq body).1)

/-- one token while options are still being read -/
def scanTok (sT : List (Char × Bool)) (lT : List (Str × Bool)) (acc : Pairs) : Str → GState
  | ['-', '-'] => .pos acc []
  | '-' :: '-' :: body => doLong lT body acc
  | '-' :: c :: rest => doShorts sT (c :: rest) acc
  | tok => .pos acc [tok]

def gstep (sT : List (Char × Bool)) (lT : List (Str × Bool)) : GState → Str → GState
  | .scan acc, tok => scanTok sT lT acc tok
  | .want acc k, tok => .scan (acc ++ [(k, tok)])
  | .pos acc ps, tok => .pos acc (ps ++ [tok])
  | .fail e, _ => .fail e

def gfinish : GState → Except Err (Pairs × List Str)
  | .scan acc => .ok (acc, [])
  | .want _ _ => .error .needsArg
  | .pos acc ps => .ok (acc, ps)
  | .fail e => .error e

def getoptT (sT : List (Char × Bool)) (lT : List (Str × Bool)) (argv : List Str) : Except Err (Pairs × List Str) :=
  gfinish (argv.foldl (gstep sT lT) (.scan []))

def getopt (spec : List Opt) (argv : List Str) : Except Err (Pairs × List Str) :=
  getoptT (shortTable spec) (longTable spec) argv

/-! ## str2type -/

def isSpace (c : Char) : Bool := c = ' ' || c = '\t' || c = '\n' || c = '\r' || c = '\x0b' || c = '\x0c'

def strip (s : Str) : Str := ((s.dropWhile isSpace).reverse.dropWhile isSpace).reverse

def digitVal (c : Char) : Option Nat := if c.isDigit then some (c.toNat - '0'.toNat) else none

/-- digits with single underscores between them (`int()` literal grammar), most significant first -/
def digitsVal : Str → Nat → Bool → Option Nat      -- rest, accumulator, "previous char was a digit"
  | [], acc, prevDigit => if prevDigit then some acc else none
  | c :: rest, acc, prevDigit =>
    if c = '_' then (if prevDigit && !rest.isEmpty then digitsVal rest acc false else none)
    else match digitVal c with
      | none => none
      | some d => digitsVal rest (acc * 10 + d) true

def unsignedVal (s : Str) : Option Nat := if s = [] then none else digitsVal s 0 false

/-- python `int(str)` on ASCII input: surrounding whitespace, optional sign, decimal digits, `_` separators -/
def parseInt (s : Str) : Option Int :=
  match strip s with
  | '-' :: r => (unsignedVal r).map fun n => - (Int.ofNat n)
  | '+' :: r => (unsignedVal r).map Int.ofNat
  | r => (unsignedVal r).map Int.ofNat

def lowerAscii (s : Str) : Str := s.map Char.toLower

/-- `CmdOption._boolean_states` -/
def booleanStates : List (Str × Bool) :=
  [(['1'], true), (['y', 'e', 's'], true), (['t', 'r', 'u', 'e'], true), (['o', 'n'], true),
   (['0'], false), (['n', 'o'], false), (['f', 'a', 'l', 's', 'e'], false), (['o', 'f', 'f'], false)]

def str2bool (s : Str) : Option Bool := alookup (lowerAscii s) booleanStates

def splitOn (sep : Char) : Str → Str → List Str      -- rest, current piece (reversed)
  | [], cur => [cur.reverse]
  | c :: rest, cur => if c = sep then cur.reverse :: splitOn sep rest [] else splitOn sep rest (c :: cur)

/-- `[p.strip() for p in s.split(',')]` without the empty pieces -/
def splitList (s : Str) : List Str := ((splitOn ',' s []).map strip).filter (· ≠ [])

/-- `validate_choice` (only when `choices` is non-empty); a list value is unhashable: `TypeError` -/
def checkChoice (o : Opt) (v : Val) : Except Err Val :=
  if o.choices = [] then .ok v
  else match v with
    | .l _ => .error .crash
    | _ => if v ∈ o.choices then .ok v else .error .badChoice

def convert (ty : Ty) (s : Str) : Except Err Val :=
  match ty with
  | .bool => match str2bool s with | some b => .ok (.b b) | none => .error .badBool
  | .int => match parseInt s with | some n => .ok (.i n) | none => .error .badInt
  | .str => .ok (.s s)
  | .list => .ok (.l (splitList s))

/-- `CmdOption.str2type` on a string -/
def str2type (o : Opt) (s : Str) : Except Err Val :=
  match convert o.ty s with
  | .error e => .error e
  | .ok v => checkChoice o v

/-- a configuration value: INI gives strings, TOML / API / DOIT_CONFIG give python values -/
inductive CfgVal | raw (s : Str) | typed (v : Val)
deriving DecidableEq, Repr

/-- `str2type` on a config value: "no conversion if value is not a string", choices still checked -/
def str2typeCfg (o : Opt) : CfgVal → Except Err Val
  | .raw s => str2type o s
  | .typed v => checkChoice o v

/-! ## DefaultUpdate -/

structure Params where
  vals : Str → Option Val
  nd : Str → Bool            -- `_non_default_keys`

def Params.empty : Params := ⟨fun _ => none, fun _ => false⟩
/-- `set_default` -/
def Params.setDefault (p : Params) (k : Str) (v : Val) : Params :=
  { p with vals := fun x => if x = k then some v else p.vals x }
/-- `__setitem__` -/
def Params.set (p : Params) (k : Str) (v : Val) : Params :=
  { vals := fun x => if x = k then some v else p.vals x, nd := fun x => if x = k then true else p.nd x }

/-- `update_defaults` -/
def updateDefaults : List (Str × Val) → Params → Params
  | [], p => p
  | (k, v) :: rest, p => updateDefaults rest (if p.nd k then p else p.setDefault k v)

/-! ## CmdParse -/

def matchKey (o : Opt) : Key → Option Bool        -- some inverse?
  | .short c => if o.short = some c then some false else none
  | .long n => if o.long = n then some false else if o.inverse = n then some true else none

/-- `get_option` -/
def getOption : List Opt → Key → Option (Opt × Bool)
  | [], _ => none
  | o :: rest, k => match matchKey o k with
    | some inv => some (o, inv)
    | none => getOption rest k

def setDefaultOf (st : PState) (name : Str) (v : Val) : PState :=
  st.map fun o => if o.name = name then { o with default := v } else o

def findOpt (st : PState) (name : Str) : Option Opt := st.find? (·.name = name)

/-- `overwrite_defaults` (config items in dict order) -/
def overwriteDefaults : List (Str × CfgVal) → PState → Except Err PState
  | [], st => .ok st
  | (k, c) :: rest, st =>
    match findOpt st k with
    | none => overwriteDefaults rest st
    | some o => match str2typeCfg o c with
      | .error e => .error e
      | .ok v => overwriteDefaults rest (setDefaultOf st k v)

def initParams : List Opt → Params → Params
  | [], p => p
  | o :: rest, p => initParams rest (p.setDefault o.name o.default)

/-- values from the shell environment -/
def applyEnv (env : Str → Option Str) : List Opt → Params → Except Err Params
  | [], p => .ok p
  | o :: rest, p =>
    match o.envVar.bind env with
    | none => applyEnv env rest p
    | some s => match str2type o s with
      | .error e => .error e
      | .ok v => applyEnv env rest (p.set o.name v)

/-- a list-typed option met on the command line.
    fixed : `params[name] = params[name] + [val]`  (new list, key marked as set).
    pinned: `params[name].append(val)`  — mutates the list object, which is `opt.default` itself unless the
            environment replaced it; `__setitem__` is not called, so the key stays "default". -/
def listStep (pinned : Bool) (st : PState) (p : Params) (o : Opt) (v : Str) : PState × Except Err Params :=
  match p.vals o.name with
  | some (.l xs) =>
    if pinned then
      (if p.nd o.name then st else setDefaultOf st o.name (.l (xs ++ [v])),
       .ok (p.setDefault o.name (.l (xs ++ [v]))))
    else (st, .ok (p.set o.name (.l (xs ++ [v]))))
  | _ => (st, .error .crash)

def scalarStep (st : PState) (p : Params) (o : Opt) (v : Str) : PState × Except Err Params :=
  match str2type o v with
  | .error e => (st, .error e)
  | .ok x => (st, .ok (p.set o.name x))

def applyOpt (pinned : Bool) (st : PState) (p : Params) (o : Opt) (inv : Bool) (v : Str) :
    PState × Except Err Params :=
  match o.ty with
  | .bool => (st, .ok (p.set o.name (.b (!inv))))
  | .list => listStep pinned st p o v
  | _ => scalarStep st p o v

def applyPair (pinned : Bool) (st : PState) (p : Params) (kv : Key × Str) : PState × Except Err Params :=
  match getOption st kv.1 with
  | none => (st, .error .crash)
  | some (o, inv) => applyOpt pinned st p o inv kv.2

def applyPairs (pinned : Bool) : Pairs → PState → Params → PState × Except Err Params
  | [], st, p => (st, .ok p)
  | kv :: rest, st, p =>
    match applyPair pinned st p kv with
    | (st', .error e) => (st', .error e)
    | (st', .ok p') => applyPairs pinned rest st' p'

def withPos (pos : List Str) : PState × Except Err Params → PState × Except Err (Params × List Str)
  | (st, .error e) => (st, .error e)
  | (st, .ok p) => (st, .ok (p, pos))

/-- `CmdParse.parse_only(in_args, params)` -/
def parseOnly (pinned : Bool) (st : PState) (p : Params) (argv : List Str) :
    PState × Except Err (Params × List Str) :=
  match getopt st argv with
  | .error e => (st, .error e)
  | .ok (pairs, pos) => withPos pos (applyPairs pinned pairs st p)

/-- `CmdParse.parse(in_args)` with the process environment `env` -/
def parse (pinned : Bool) (st : PState) (env : Str → Option Str) (argv : List Str) :
    PState × Except Err (Params × List Str) :=
  match applyEnv env st (initParams st Params.empty) with
  | .error e => (st, .error e)
  | .ok p => parseOnly pinned st p argv

/-- `config_vals`: GLOBAL section updated with the command's section (dict.update) -/
def mergeCfg (g c : List (Str × CfgVal)) : List (Str × CfgVal) :=
  g.map (fun kv => (kv.1, (alookup kv.1 c).getD kv.2)) ++ c.filter (fun kv => (alookup kv.1 g).isNone)

/-- one config section as `DoitMain.__init__` assembles it: the `extra_config` dict of the API caller, updated with the
    section of every config file in order (`pyproject.toml`, then `doit.cfg`): `dict.update` per KEY, so a later layer
    replaces the keys it sets and keeps the others -/
def mergeLayers : List (List (Str × CfgVal)) → List (Str × CfgVal)
  | [] => []
  | l :: rest => rest.foldl mergeCfg l

def withDodo (dodo : List (Str × Val)) : Except Err (Params × List Str) → Except Err (Params × List Str)
  | .error e => .error e
  | .ok (p, pos) => .ok (updateDefaults dodo p, pos)

/-- the whole resolution: config (INI/TOML/API sections, per-task section) → `overwrite_defaults`; `parse`
    (declared/configured default, then environment, then command line); `update_defaults(DOIT_CONFIG)` -/
def pipeline (spec : List Opt) (ini : List (Str × CfgVal)) (dodo : List (Str × Val))
    (env : Str → Option Str) (argv : List Str) : Except Err (Params × List Str) :=
  match overwriteDefaults ini spec with
  | .error e => .error e
  | .ok st => withDodo dodo (parse false st env argv).2

/-! ## options whose `choices` are known late (`backend`: the choices depend on the `[BACKEND]` plugins) -/

def blankChoices (late : List Str) (spec : List Opt) : List Opt :=
  spec.map fun o => if o.name ∈ late then { o with choices := [] } else o

def restoreChoices (late : List Str) (spec st : List Opt) : List Opt :=
  st.map fun o => if o.name ∈ late then { o with choices := ((findOpt spec o.name).map (·.choices)).getD [] } else o

/-- `opt.validate_choice(value)` for the late options, in table order; `pinned`: no validation, an unknown name ends
    as `TypeError: 'NoneType' object is not callable` when the backend class is looked up -/
def checkLate (pinned : Bool) (late : List Str) (value : Opt → Option Val) : List Opt → Except Err Unit
  | [] => .ok ()
  | o :: rest =>
    if o.name ∈ late then
      match value o with
      | none => checkLate pinned late value rest
      | some v => match checkChoice o v with
        | .error e => .error (if pinned then .crash else e)
        | .ok _ => checkLate pinned late value rest
    else checkLate pinned late value rest

/-- `DoitCmdBase`: `get_backends()` touches `cmdparser` (→ `overwrite_defaults`, the choices of `backend` still
    empty), attaches the choices and validates the configured default (since the fix of F-C16e); after `parse` and
    `update_defaults(DOIT_CONFIG)` `execute` validates the resolved value.  `pinned := true`: neither validation
    (the pre-fix behaviour), an unknown resolved name crashes. -/
def pipelineLate (pinned : Bool) (spec : List Opt) (late : List Str) (ini : List (Str × CfgVal))
    (dodo : List (Str × Val)) (env : Str → Option Str) (argv : List Str) : Except Err (Params × List Str) :=
  match overwriteDefaults ini (blankChoices late spec) with
  | .error e => .error e
  | .ok st0 =>
    match (if pinned then .ok () else checkLate false late (fun o => some o.default) (restoreChoices late spec st0)) with
    | .error e => .error e
    | .ok _ =>
      match withDodo dodo (parse false (restoreChoices late spec st0) env argv).2 with
      | .error e => .error e
      | .ok (p, pos) =>
        match checkLate pinned late (fun o => p.vals o.name) (restoreChoices late spec st0) with
        | .error e => .error e
        | .ok _ => .ok (p, pos)

/-! ## loader options written before the sub-command name (`doit -f x.py -k list …`) -/

/-- one (option, text) pair of `loader_opt_parser.parse_only(all_args)`: the dict starts empty, holds only the
    options that were written; a list option would be `params[name] + [val]` on a missing key (KeyError) -/
def preStep (lspec : List Opt) (acc : List (Str × Val)) (kv : Key × Str) : Except Err (List (Str × Val)) :=
  match getOption lspec kv.1 with
  | none => .error .crash
  | some (o, inv) =>
    match o.ty with
    | .bool => .ok (aset o.name (.b (!inv)) acc)
    | .list => .error .crash
    | _ => match str2type o kv.2 with
      | .error e => .error e
      | .ok v => .ok (aset o.name v acc)

def preVals (lspec : List Opt) : Pairs → List (Str × Val) → Except Err (List (Str × Val))
  | [], acc => .ok acc
  | kv :: rest, acc => match preStep lspec acc kv with
    | .error e => .error e
    | .ok acc' => preVals lspec rest acc'

/-- `opt_vals`: the loader options given before the command name (`pre` = the tokens in front of it).
    `none` when they do not parse (doit then treats the whole command line differently; not generated). -/
def optVals (lspec : List Opt) (pre : List Str) : Option (List (Str × Val)) :=
  match getopt lspec pre with
  | .ok (ps, []) => (preVals lspec ps []).toOption
  | _ => none

/-- `params.update(self.opt_vals)` in `Command.parse_execute`: plain `dict.update` — the value is replaced whatever
    its source was, `_non_default_keys` is not touched -/
def applyOptVals : List (Str × Val) → Params → Params
  | [], p => p
  | (k, v) :: rest, p => applyOptVals rest (p.setDefault k v)

/-- the resolution with loader options in front of the command name.  Returns the parameters as the loader's
    `setup()` receives them (before DOIT_CONFIG is known), the parameters after `update_defaults(DOIT_CONFIG)`, and
    the positionals. -/
def pipelinePre (spec : List Opt) (ov : List (Str × Val)) (ini : List (Str × CfgVal)) (dodo : List (Str × Val))
    (env : Str → Option Str) (argv : List Str) : Except Err (Params × Params × List Str) :=
  match pipeline spec ini [] env argv with
  | .error e => .error e
  | .ok (p, pos) => .ok (applyOptVals ov p, updateDefaults dodo (applyOptVals ov p), pos)

/-! ## command-line variables (`DoitMain.process_args`) -/

/-- `(arg[0] != '-') and ('=' in arg)`: a word that `process_args` takes for a command-line variable `name=value` -/
def isVarWord : Str → Bool
  | [] => false
  | c :: rest => c != '-' && (c :: rest).contains '='

/-- `DoitMain.process_args` on the words after the loader options (command name included): every `name=value` word is
    removed and remembered for `doit.get_var` — wherever it stands, also right after an option that takes a value
    (`--val a=b` loses its value) and after `--`.  An empty word stays an ordinary word (`arg[:1]`, since
    `fix: an empty word on the command line is reported as an error instead of a traceback`); `pinned := true` keeps
    the earlier `arg[0]` on `''`: IndexError. -/
def stripVarsP (pinned : Bool) : List Str → Except Err (List Str)
  | [] => .ok []
  | a :: rest =>
    match stripVarsP pinned rest with
    | .error e => .error e
    | .ok out =>
      if a = [] then (if pinned then .error .crash else .ok (a :: out))
      else if isVarWord a then .ok out else .ok (a :: out)

abbrev stripVars := stripVarsP false

/-- the guard under which the words reach the parsers unchanged: no `name=value` word -/
def NoVarWords (argv : List Str) : Bool := argv.all fun a => !isVarWord a

/-- what `DoitMain.run` makes of the resolution: the command's return, `ERROR: …` with exit code 3, or an uncaught
    exception (traceback, exit status 1) -/
inductive Outcome
  | done (p : Params) (pos : List Str)
  | exit3 (e : Err)
  | traceback (e : Err)

def Outcome.kind : Outcome → Nat        -- 0 done, 3 exit code 3, 1 traceback
  | .done _ _ => 0
  | .exit3 _ => 3
  | .traceback _ => 1

def afterParse : Except Err (Params × List Str) → Outcome
  | .error e => .exit3 e
  | .ok (p, pos) => .done p pos

/-- `DoitMain.run` for a command built on `DoitCmdBase`: the config sections are converted when the command object
    is created.  Since `fix: invalid option value in a config file is reported as an error (exit code 3)` that happens
    inside the `try` that reports `CmdParseError`; `pinned := true` keeps the earlier behaviour (outside the `try`). -/
def runMain (pinned : Bool) (spec : List Opt) (ini : List (Str × CfgVal)) (dodo : List (Str × Val))
    (env : Str → Option Str) (argv : List Str) : Outcome :=
  match overwriteDefaults ini spec with
  | .error e => if pinned then .traceback e else .exit3 e
  | .ok st => afterParse (withDodo dodo (parse false st env argv).2)

/-! ## well-formed option tables -/

def shortNames (spec : List Opt) : List Char := spec.filterMap (·.short)
def longNames (spec : List Opt) : List Str := (longTable spec).map (·.1)

def optOk (o : Opt) : Bool :=
  o.name ≠ [] && o.short ≠ some '-' && o.short ≠ some ':' &&
  !o.long.contains '=' && !o.inverse.contains '=' &&
  (o.inverse = [] || (o.long ≠ [] && o.ty = .bool)) &&
  (o.ty ≠ .list || o.choices = [])

/-- no duplicate name / short / long-or-inverse; shapes sane; `inverse` only on boolean options that have a long
    name; list options have no `choices` -/
def WF (spec : List Opt) : Bool :=
  (spec.map (·.name)).Nodup && (shortNames spec).Nodup && (longNames spec).Nodup && spec.all optOk

/-- no long name is a proper prefix of another (then every abbreviation that getopt accepts is unambiguous in the
    naive sense too; not needed for exactness, exact match wins) -/
def PrefixFree (spec : List Opt) : Bool :=
  (longNames spec).all fun a => (longNames spec).all fun b => a = b || !a.isPrefixOf b

/-! ## rendering assignments (the round-trip generator) -/

inductive Asg
  | flags (cs : List Char)                          -- `-abc`      cluster of short flags
  | sAtt (cs : List Char) (c : Char) (v : Str)      -- `-abcXv`    flags, then option `X` with attached value
  | sDet (cs : List Char) (c : Char) (v : Str)      -- `-abcX v`
  | lFlag (n : Str)                                 -- `--flag` / `--inverse`
  | lEq (n : Str) (v : Str)                         -- `--long=v`
  | lDet (n : Str) (v : Str)                        -- `--long v`
deriving DecidableEq, Repr

def flagPairs (cs : List Char) : Pairs := cs.map fun c => (Key.short c, [])

def Asg.render : Asg → List Str
  | .flags cs => ['-' :: cs]
  | .sAtt cs c v => ['-' :: (cs ++ c :: v)]
  | .sDet cs c v => ['-' :: (cs ++ [c]), v]
  | .lFlag n => ['-' :: '-' :: n]
  | .lEq n v => ['-' :: '-' :: (n ++ '=' :: v)]
  | .lDet n v => ['-' :: '-' :: n, v]

def Asg.pairs : Asg → Pairs
  | .flags cs => flagPairs cs
  | .sAtt cs c v => flagPairs cs ++ [(.short c, v)]
  | .sDet cs c v => flagPairs cs ++ [(.short c, v)]
  | .lFlag n => [(.long n, [])]
  | .lEq n v => [(.long n, v)]
  | .lDet n v => [(.long n, v)]

def flagsOk (sT : List (Char × Bool)) (cs : List Char) : Bool :=
  cs.all fun c => c ≠ '-' && lookupShort sT c = some false

def longOk (lT : List (Str × Bool)) (n : Str) (hasArg : Bool) : Bool :=
  n ≠ [] && !n.contains '=' && (n, hasArg) ∈ lT && (hasArg = false || (n, false) ∉ lT)

/-- the assignment names options of the table, in a form getopt accepts -/
def Asg.ok (sT : List (Char × Bool)) (lT : List (Str × Bool)) : Asg → Bool
  | .flags cs => cs ≠ [] && flagsOk sT cs
  | .sAtt cs c v => flagsOk sT cs && c ≠ '-' && lookupShort sT c = some true && v ≠ []
  | .sDet cs c _ => flagsOk sT cs && c ≠ '-' && lookupShort sT c = some true
  | .lFlag n => longOk lT n false
  | .lEq n _ => longOk lT n true
  | .lDet n _ => longOk lT n true

def renderAll (xs : List Asg) : List Str := xs.flatMap Asg.render
def pairsAll (xs : List Asg) : Pairs := xs.flatMap Asg.pairs

/-- positional arguments that getopt leaves alone without a `--` separator: the first one does not look like an
    option -/
def PosOk : List Str → Bool
  | [] => true
  | ('-' :: _ :: _) :: _ => false
  | _ => true

/-! ## the specification: the value of an option, from the structured input -/

/-- occurrences of option `o` on the command line, in order: (inverse form?, value text) -/
def occurrences (spec : List Opt) (o : Opt) (ps : Pairs) : List (Bool × Str) :=
  ps.filterMap fun kv => match getOption spec kv.1 with
    | some (o', inv) => if o'.name = o.name then some (inv, kv.2) else none
    | none => none

/-- the value the option has before the command line is looked at: environment, else configured default
    (INI/TOML/API/per-task section), else declared default -/
def baseValue (o : Opt) (envv : Option Str) (iniv : Option CfgVal) : Except Err Val :=
  match envv with
  | some s => str2type o s
  | none => match iniv with
    | some c => str2typeCfg o c
    | none => .ok o.default

def listAfter (base : Val) (vs : List Str) : Except Err Val :=
  match base with
  | .l xs => .ok (.l (xs ++ vs))
  | _ => .error .crash

/-- **what the property says**: command line > environment > DOIT_CONFIG > config sections > declared default;
    on the command line the last occurrence wins, a flag gives `True`, an inverse flag `False`, a list option
    accumulates in order after its base value -/
def specValue (o : Opt) (occ : List (Bool × Str)) (envv : Option Str) (dodov : Option Val)
    (iniv : Option CfgVal) : Except Err Val :=
  match occ.getLast? with
  | none =>
    match envv with
    | some s => str2type o s
    | none => match dodov with
      | some v => .ok v
      | none => baseValue o none iniv
  | some (inv, v) =>
    match o.ty with
    | .bool => .ok (.b (!inv))
    | .list => match baseValue o envv iniv with
      | .error e => .error e
      | .ok base => listAfter base (occ.map (·.2))
    | _ => str2type o v

def envOf (env : Str → Option Str) (o : Opt) : Option Str := o.envVar.bind env

/-- every text that has to be converted converts: config values of known options, environment values, every
    scalar occurrence on the command line (the *kind* of error is not part of the property) -/
def allConvert (spec : List Opt) (ini : List (Str × CfgVal)) (env : Str → Option Str) (ps : Pairs) : Bool :=
  (ini.all fun kc => match findOpt spec kc.1 with
     | some o => (str2typeCfg o kc.2).toBool
     | none => true) &&
  (spec.all fun o => match envOf env o with
     | some s => (str2type o s).toBool
     | none => true) &&
  (ps.all fun kv => match getOption spec kv.1 with
     | some (o, _) => o.ty = .bool || o.ty = .list || (str2type o kv.2).toBool
     | none => false)

/-- expected value of option `o` for the structured input -/
def specOf (spec : List Opt) (ini : List (Str × CfgVal)) (dodo : List (Str × Val)) (env : Str → Option Str)
    (ps : Pairs) (o : Opt) : Except Err Val :=
  specValue o (occurrences spec o ps) (envOf env o) (alookup o.name dodo) (alookup o.name ini)

end DoitModel.Opt
