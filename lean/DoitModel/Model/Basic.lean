/-! Definitions shared by the models.  Core Lean only (no Mathlib): everything under `Model/`
    is also linked into the driver executable. -/
namespace DoitModel

/-- `(if c then f else g) a = if c then f a else g a` — lets `simp only` push an argument through
    the function-update shape used by the transition systems (`fun k => if k = n then … else s k`). -/
theorem ite_app {α β : Type _} (c : Prop) [Decidable c] (f g : α → β) (a : α) :
    (if c then f else g) a = if c then f a else g a := by
  split <;> rfl

/-- association-list lookup (first match) -/
def alookup {α β : Type _} [DecidableEq α] (k : α) : List (α × β) → Option β
  | [] => none
  | (a, b) :: rest => if a = k then some b else alookup k rest

/-- association-list update (replace the first match, else append) -/
def aset {α β : Type _} [DecidableEq α] (k : α) (v : β) : List (α × β) → List (α × β)
  | [] => [(k, v)]
  | (a, b) :: rest => if a = k then (a, v) :: rest else (a, b) :: aset k v rest

/-- remove every binding of `k` -/
def aerase {α β : Type _} [DecidableEq α] (k : α) : List (α × β) → List (α × β)
  | [] => []
  | (a, b) :: rest => if a = k then aerase k rest else (a, b) :: aerase k rest

end DoitModel
