import DoitModel.Model.Run
import DoitModel.Model.RunMon
/-! # M1 extension for C11: teardown bookkeeping of every executing entity, failing teardowns; the C11 monitors

The base model (`Model/Run.lean`) keeps the shared `teardown_list` of the serial / thread runner (`Sys.tdown`) and emits
the `reporter.teardown_task` events of `Runner.finish()`.  It does not model

* the process runner, where every worker process has its **own** copy of the runner object: `execute_task` appends to the
  worker's `teardown_list` and `execute_task_subprocess` calls `self.teardown()` when the worker receives `None`;
* the teardown *executions* themselves (`task.execute_teardown`) and their failures (`reporter.cleanup_error`; the loop
  of `Runner.teardown` goes on).

`TSys` adds exactly this to a base state: `wtd w` = `teardown_list` of worker process `w`, `log` = teardown executions
(newest first) tagged with the entity that ran them (`none` = the main thread in `finish()`, `some w` = worker `w`).
`tstep` runs one base step and the bookkeeping that `runner.py` does at that point.  Two switches (`Variant`) select code
older than /repo HEAD (`{}` = HEAD): `pinnedThread = true` is the code before the commit "fix: thread runner executes each
teardown only once" (a worker *thread* that receives `None` also runs the shared list); `pinnedProcess = true` is the
code before "fix: teardown failure on a sub-process is reported instead of crashing the run" (found by this check,
findings/resolved/C11-process-teardown-failure.md): there a failing teardown inside a worker *process* ended that
worker's teardown loop — `self.reporter` is the `MReporter`, whose generic forwarding method is written for task
arguments (`task.name`), so `reporter.cleanup_error(SetupError(..))` raised `AttributeError`; the worker reported
`{'exit': ...}` and the main process died with `AttributeError` / `AssertionError` (exit code 3).  At HEAD `MReporter`
has its own `cleanup_error` that sends the failure to the main process, and the loop goes on.

Core Lean only (linked into the driver). -/
namespace DoitModel.Run

/-- one teardown execution (`reporter.teardown_task(t)` + `t.execute_teardown()`) by an entity, and the
    `reporter.cleanup_error` report of a failing one -/
inductive TdEv
  | run (n : Name) (by_ : Option Nat)
  | err (n : Name) (by_ : Option Nat)
deriving DecidableEq, Repr, Inhabited

def TdEv.entity : TdEv → Option Nat
  | .run _ w => w
  | .err _ w => w

/-- forget who executed it -/
def TdEv.anon : TdEv → TdEv
  | .run n _ => .run n none
  | .err n _ => .err n none

/-- `Runner.teardown()` executed by entity `w` on the `teardown_list` `l` (start order), chronological:
    `for task in reversed(l): teardown_task; execute_teardown; if result: cleanup_error` — a failure does not end
    the loop -/
def teardownRun (tdFail : Name → Bool) (w : Option Nat) (l : List Name) : List TdEv :=
  l.reverse.flatMap fun t => if tdFail t then [TdEv.run t w, TdEv.err t w] else [TdEv.run t w]

/-- `Runner.teardown()` inside a worker process before the repair (`pinnedProcess`), on the list already reversed: the first failing
    teardown raises out of the loop (`MReporter.cleanup_error` → `AttributeError`), nothing is reported for it and the
    teardowns of the tasks started earlier are not executed -/
def teardownAbort (tdFail : Name → Bool) (w : Option Nat) : List Name → List TdEv
  | [] => []
  | t :: ts => if tdFail t then [TdEv.run t w] else TdEv.run t w :: teardownAbort tdFail w ts

structure Variant where
  pinnedThread : Bool := false   -- before "fix: thread runner executes each teardown only once"
  pinnedProcess : Bool := false  -- before "fix: teardown failure on a sub-process is reported instead of crashing the run"
deriving DecidableEq, Repr

/-- `self.teardown()` of worker process `w` -/
def workerTeardown (v : Variant) (tdFail : Name → Bool) (w : Nat) (l : List Name) : List TdEv :=
  if v.pinnedProcess then teardownAbort tdFail (some w) l.reverse else teardownRun tdFail (some w) l

structure TSys where
  base : Sys
  wtd : Nat → List Name          -- `teardown_list` of worker process `w` (process runner only)
  log : List TdEv                -- newest first
  crashed : Bool                 -- (pinned) a worker process died in its teardown loop: the main process raises (exit 3)

def tinit (inp : RunInput) : TSys := { base := init inp, wtd := fun _ => [], log := [], crashed := false }

def texit (ts : TSys) : Nat := if ts.crashed then 3 else exitCode ts.base

/-- the job worker `w` takes with `Choice.take w` -/
def takenJob (s : Sys) (w : Nat) : Option Job :=
  if s.workers w = .idle then s.jobQ.head? else none

/-- what `runner.py` does to the teardown lists during the base step `c` taken from `ts.base` -/
def tdAfter (inp : RunInput) (tdFail : Name → Bool) (v : Variant) (ts : TSys) (c : Choice) (b' : Sys) : TSys :=
  match c with
  | .take w =>
    match takenJob ts.base w with
    | some (.task n) =>
      -- `execute_task` in the worker: `if task.teardown: self.teardown_list.append(task)` (the worker's own list)
      { ts with
        base := b'
        wtd := fun k => if k = w ∧ inp.runner = .process ∧ inp.hasTeardown n = true then ts.wtd k ++ [n] else ts.wtd k }
    | some .stop =>
      -- `if job is None: if self.Child == Process: self.teardown(); return`
      if inp.runner = .process then
        { ts with
          base := b'
          log := (workerTeardown v tdFail w (ts.wtd w)).reverse ++ ts.log
          crashed := ts.crashed || (v.pinnedProcess && (ts.wtd w).any tdFail) }
      else if v.pinnedThread then
        { ts with base := b', log := (teardownRun tdFail (some w) ts.base.tdown).reverse ++ ts.log }
      else { ts with base := b' }
    | _ => { ts with base := b' }
  | .main _ =>
    -- `Runner.finish()`: `self.teardown()` on the main object's list
    if ts.base.rpc = .fin then
      { ts with base := b', log := (teardownRun tdFail none ts.base.tdown).reverse ++ ts.log }
    else { ts with base := b' }
  | .done _ => { ts with base := b' }

def tstep (inp : RunInput) (tdFail : Name → Bool) (v : Variant) (ts : TSys) (c : Choice) : Option TSys :=
  match stepOf inp ts.base c with
  | none => none
  | some b' => some (tdAfter inp tdFail v ts c b')

/-- reachable states of the extended system (serial or parallel according to `inp.runner`) -/
inductive TReach (inp : RunInput) (tdFail : Name → Bool) (v : Variant) : TSys → Prop
  | init : TReach inp tdFail v (tinit inp)
  | next {ts ts' c} : TReach inp tdFail v ts → tstep inp tdFail v ts c = some ts' → TReach inp tdFail v ts'

def tRunWith (inp : RunInput) (tdFail : Name → Bool) (v : Variant) (ts : TSys) : List Choice → Option TSys
  | [] => some ts
  | c :: cs => match tstep inp tdFail v ts c with
    | some ts' => tRunWith inp tdFail v ts' cs
    | none => none

/-! ### what the property speaks about: start order restricted to tasks with teardown -/

/-- name of the task if `e` is the start of a task that has teardown actions -/
def tdName (inp : RunInput) : Ev → Option Name
  | .start n _ => if inp.hasTeardown n then some n else none
  | _ => none

/-- the same restricted to starts on worker `w` -/
def tdNameOf (inp : RunInput) (w : Nat) : Ev → Option Name
  | .start n k => if k = w ∧ inp.hasTeardown n = true then some n else none
  | _ => none

/-- tasks with teardown in the order their actions started; `evs` newest first (as `Sys.events`) -/
def startOrder (inp : RunInput) (evs : List Ev) : List Name := (evs.filterMap (tdName inp)).reverse
def startOrderOf (inp : RunInput) (w : Nat) (evs : List Ev) : List Name := (evs.filterMap (tdNameOf inp w)).reverse

def logOf (e : Option Nat) (log : List TdEv) : List TdEv := log.filter fun x => x.entity == e

/-! ### monitors (evaluated by the driver on the implementation's observations; chronological lists) -/

/-- teardown part of C11 on an observed run: `tr` = the observed start events (chronological), `tdlog` = the observed
    teardown executions and cleanup errors (chronological).  Shared list (serial, thread): whoever executed them, the
    teardown executions are exactly `Runner.teardown` over the tasks with teardown in start order — i.e. reverse start
    order, each once, a failing one followed by its error report and then by the remaining ones.  Process runner:
    the same per worker process, and the main process executes none. -/
def monTdExact (inp : RunInput) (tdFail : Name → Bool) (nWorkers : Nat) (tr : List Ev) (tdlog : List TdEv) : Bool :=
  if inp.runner = .process then
    logOf none tdlog == [] &&
    tdlog.all (fun x => match x.entity with | some w => w < nWorkers | none => true) &&
    (List.range nWorkers).all fun w =>
      logOf (some w) tdlog == teardownRun tdFail (some w) (startOrderOf inp w tr.reverse)
  else
    tdlog.map TdEv.anon == teardownRun tdFail none (startOrder inp tr.reverse)

/-- an item of the merged observation: an action start / end, or a teardown execution -/
inductive MEv
  | ev (e : Ev)
  | td (t : TdEv)
deriving DecidableEq, Repr, Inhabited

def MEv.isTd : MEv → Bool
  | .td _ => true | _ => false
def MEv.isTdOf (w : Nat) : MEv → Bool
  | .td t => t.entity == some w | _ => false
def MEv.isWork : MEv → Bool
  | .ev (.start _ _) => true | .ev (.fin _ _) => true | _ => false
def MEv.isWorkOf (w : Nat) : MEv → Bool
  | .ev (.start _ k) => k == w | .ev (.fin _ k) => k == w | _ => false

/-- "after all tasks have finished": in the merged chronological observation no action starts or ends after the first
    teardown execution (shared list); process runner: worker `w` starts / ends nothing after its own first teardown -/
def monTdAfter (inp : RunInput) (nWorkers : Nat) (mixed : List MEv) : Bool :=
  if inp.runner = .process then
    (List.range nWorkers).all fun w => !((mixed.dropWhile fun x => !x.isTdOf w).any (MEv.isWorkOf w))
  else !((mixed.dropWhile fun x => !x.isTd).any MEv.isWork)

/-! #### laziness of setup-tasks -/

def firstMentionIdx (tr : List Ev) (d : Name) : Option Nat := tr.findIdx? (Ev.mentions d)

/-- task `p` was chosen for execution by the first pass of `select_task` within the events `pre` and is still
    waiting for its setup-tasks: its status was computed (`get_status`), no terminal report yet, it is not ignored,
    its status is `run`, and every dependency of its first stage is reported finished in `pre` -/
def runPending (inp : RunInput) (nTasks : Nat) (pre : List Ev) (p : Name) : Bool :=
  pre.contains (Ev.getStatus p) && !(pre.any (Ev.isTerminalOf p)) && ranFirst inp nTasks pre p

/-- `d` may be touched: it is selected, or a (static or delivered — `RunMon.resAt`: by an executed / up-to-date calc
    task, or by one whose execution failed after it returned values) task_dep / calc_dep of a justified task, or a
    setup-task of a justified task that was `runPending` when `d` was first touched (a setup-task that is never
    reported itself — the run stopped while its own dependencies were processed — must find its parent still
    `runPending` at the end).  One closure round. -/
def lazyOnce (inp : RunInput) (nTasks : Nat) (tr : List Ev) (cl : List Name) : List Name :=
  cl.foldl (fun acc t =>
    addNew acc (inp.taskDep t ++ calcsAtF inp tr nTasks (inp.calcDep t) ++
      ((calcsAtF inp tr nTasks (inp.calcDep t)).flatMap fun c =>
        (resAt inp tr c).tasks ++ (resAt inp tr c).files) ++
      ((inp.setup t).filter fun d =>
        match firstMentionIdx tr d with
        | some i => runPending inp nTasks (tr.take i) t
        | none => runPending inp nTasks tr t))) cl

def lazyIter (inp : RunInput) (nTasks : Nat) (tr : List Ev) : Nat → List Name → List Name
  | 0, cl => cl
  | fuel + 1, cl => lazyIter inp nTasks tr fuel (lazyOnce inp nTasks tr cl)

/-- C11 laziness on an observed trace: every task that is touched at all (status computed, skipped, executed, torn
    down) is justified as above — so a setup-task is touched only on behalf of a task that really is going to run -/
def monLazy (inp : RunInput) (nTasks : Nat) (tr : List Ev) : Bool :=
  (List.range nTasks).all fun d =>
    !(tr.any (Ev.mentions d)) || (lazyIter inp nTasks tr (nTasks + 1) (addNew [] inp.sel)).contains d

/-! hypothesis of `C11_lazy_monitor` (evaluated by the driver on every case) -/

def boundedB (inp : RunInput) (n : Nat) : Bool :=
  inp.sel.all (· < n) && (List.range n).all fun t =>
    (inp.taskDep t).all (· < n) && (inp.calcDep t).all (· < n) && (inp.setup t).all (· < n) &&
    (inp.calcRes t).tasks.all (· < n) && (inp.calcRes t).files.all (· < n) && (inp.calcRes t).calcs.all (· < n) &&
    (inp.calcResFail t).tasks.all (· < n) && (inp.calcResFail t).files.all (· < n) &&
    (inp.calcResFail t).calcs.all (· < n) &&
    (!inp.noAct t || ((inp.calcResFail t).tasks.isEmpty && (inp.calcResFail t).files.isEmpty &&
      (inp.calcResFail t).calcs.isEmpty))

/-- every task name that occurs in the run input is below `n` (what the harness passes as `nTasks`: the number of
    tasks), and a task without actions (whose start is not observable) delivers nothing "after a failed execution";
    decidable -/
def Bounded (inp : RunInput) (n : Nat) : Prop := boundedB inp n = true

instance (inp : RunInput) (n : Nat) : Decidable (Bounded inp n) := by unfold Bounded; infer_instance

/-- and it completes before the task that requires it starts -/
def setupBeforeFrom (inp : RunInput) : List Ev → List Ev → Bool
  | _, [] => true
  | pre, e :: rest =>
    (match e with
     | .start t _ => (inp.setup t).all (finishedIn pre)
     | _ => true) && setupBeforeFrom inp (pre ++ [e]) rest

def monSetupBefore (inp : RunInput) (tr : List Ev) : Bool := setupBeforeFrom inp [] tr

end DoitModel.Run
