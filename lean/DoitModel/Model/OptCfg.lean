import DoitModel.Model.Opt
/-! # M4 (wave 5) — the configuration side of option handling

`doit/doit_cmd.py` (`DoitMain.__init__`: `extra_config`, then every config file, `dict.update` per section;
`DoitConfig.loads` / `load_config_toml` hoisting `plugins.X` to section `X`), `doit/plugin.py`
(`PluginDict.add_plugins`, `get_plugin`, `to_dict`), `doit/cmd_base.py` (`Command.__init__`: GLOBAL then the command's
section; `get_loader`; `DoitCmdBase.get_backends` / `execute`), `doit/cmd_run.py` (`Run.get_reporters`, `_execute`).

* `winner`       — which layer decides the value of one option key, for every combination of present / absent layers
* `layerValue`   — the value that layer gives, converted the way that layer converts
* `dictUpdate`, `pluginSection`, `addPlugins`, `nameTable` — the name tables of the PLUGIN categories
* `pick`         — what choosing a reporter / backend / loader by name does, by where the name was written
* `cfgText`, `cmdText` — one text written in a config file / on the command line, for one option

Core Lean only (linked into `doitdrv`). -/
namespace DoitModel.Opt

/-! ## (a) which layer wins, per key -/

/-- the places a value for one option key can come from; listed strongest first, as the code resolves them -/
inductive Layer
  | cmdline                         -- written on the command line (after the command name)
  | environ                         -- `env_var` of the option is set
  | dodoCfg                         -- `DOIT_CONFIG` of the dodo file (`update_defaults`)
  | secCfg | secToml | secApi       -- the command's section / `[task:NAME]`: doit.cfg, pyproject.toml, extra_config
  | globCfg | globToml | globApi    -- `[GLOBAL]`: doit.cfg, pyproject.toml (`tool.doit.<key>`), extra_config
  | declared                        -- `default` of the option table
deriving DecidableEq, Repr

/-- what is written for ONE key: `occ` the occurrences on the command line (inverse form?, text) -/
structure KeyIn where
  occ : List (Bool × Str)
  env : Option Str
  dodo : Option Val
  secCfg : Option CfgVal
  secToml : Option CfgVal
  secApi : Option CfgVal
  globCfg : Option CfgVal
  globToml : Option CfgVal
  globApi : Option CfgVal

/-- the layer that decides below the command line and the environment and DOIT_CONFIG: section before GLOBAL, within
    one section the file read last (`doit.cfg`) before `pyproject.toml` before the API dict -/
def cfgWinner (k : KeyIn) : Layer :=
  if k.secCfg.isSome then .secCfg else if k.secToml.isSome then .secToml else if k.secApi.isSome then .secApi
  else if k.globCfg.isSome then .globCfg else if k.globToml.isSome then .globToml
  else if k.globApi.isSome then .globApi else .declared

/-- **the precedence order as one total function** -/
def winner (k : KeyIn) : Layer :=
  if k.occ ≠ [] then .cmdline else if k.env.isSome then .environ else if k.dodo.isSome then .dodoCfg
  else cfgWinner k

def cfgLayerValue (o : Opt) : Option CfgVal → Except Err Val
  | some c => str2typeCfg o c
  | none => .error .crash

/-- what the command line makes of the occurrences: a flag ignores every other layer, a scalar converts the LAST
    text, a list option appends every text (unconverted) to `base` -/
def cmdLineValue (o : Opt) (occ : List (Bool × Str)) (base : Except Err Val) : Except Err Val :=
  match occ.getLast? with
  | none => .error .crash
  | some (inv, v) =>
    match o.ty with
    | .bool => .ok (.b (!inv))
    | .list => match base with
      | .error e => .error e
      | .ok b => listAfter b (occ.map (·.2))
    | _ => str2type o v

/-- the value the deciding layer gives.  `DOIT_CONFIG` values are taken as they are (no conversion, no choices
    check); a list option on the command line starts from the environment / config / declared value — NOT from
    DOIT_CONFIG, which is skipped for a key the command line set -/
def layerValue (o : Opt) (k : KeyIn) : Layer → Except Err Val
  | .cmdline => cmdLineValue o k.occ
      (match k.env with
       | some s => str2type o s
       | none => match cfgWinner k with
         | .secCfg => cfgLayerValue o k.secCfg | .secToml => cfgLayerValue o k.secToml
         | .secApi => cfgLayerValue o k.secApi | .globCfg => cfgLayerValue o k.globCfg
         | .globToml => cfgLayerValue o k.globToml | .globApi => cfgLayerValue o k.globApi
         | _ => .ok o.default)
  | .environ => match k.env with | some s => str2type o s | none => .error .crash
  | .dodoCfg => match k.dodo with | some v => .ok v | none => .error .crash
  | .secCfg => cfgLayerValue o k.secCfg
  | .secToml => cfgLayerValue o k.secToml
  | .secApi => cfgLayerValue o k.secApi
  | .globCfg => cfgLayerValue o k.globCfg
  | .globToml => cfgLayerValue o k.globToml
  | .globApi => cfgLayerValue o k.globApi
  | .declared => .ok o.default

/-- the six config layers of one key, looked up in the sections as `DoitMain.__init__` + `Command.__init__` merge them -/
def keyIn (name : Str) (occ : List (Bool × Str)) (env : Option Str) (dodo : List (Str × Val))
    (gApi gToml gCfg sApi sToml sCfg : List (Str × CfgVal)) : KeyIn :=
  { occ := occ, env := env, dodo := alookup name dodo,
    secCfg := alookup name sCfg, secToml := alookup name sToml, secApi := alookup name sApi,
    globCfg := alookup name gCfg, globToml := alookup name gToml, globApi := alookup name gApi }

/-- `config_vals` of the command from the three sources of each of the two sections -/
def sixLayers (gApi gToml gCfg sApi sToml sCfg : List (Str × CfgVal)) : List (Str × CfgVal) :=
  mergeCfg (mergeLayers [gApi, gToml, gCfg]) (mergeLayers [sApi, sToml, sCfg])

/-! ## (b) plugin tables -/

/-- `dict.update` on association lists (keys of `d` keep their position, new keys are appended) -/
def dictUpdate {β : Type} (d u : List (Str × β)) : List (Str × β) :=
  d.map (fun kv => (kv.1, (alookup kv.1 u).getD kv.2)) ++ u.filter (fun kv => (alookup kv.1 d).isNone)

/-- one PLUGIN section (`COMMAND` / `REPORTER` / `LOADER` / `BACKEND`) as `DoitMain.__init__` assembles it:
    `extra_config[CAT]`, updated with `tool.doit.plugins.cat` of pyproject.toml, updated with `[CAT]` of doit.cfg
    (layers in that order): name ↦ location `module:attr` -/
def pluginSection (layers : List (List (Str × Str))) : List (Str × Str) := layers.foldl dictUpdate []

/-- `PluginDict.add_plugins`: the section, then the setuptools entry points (higher priority) -/
def addPlugins (sect entryPoints : List (Str × Str)) : List (Str × Str) := dictUpdate sect entryPoints

/-- a class a name stands for -/
inductive Cls
  | core (n : Str)          -- the class doit ships under that name
  | plugin (loc : Str)      -- `PluginEntry(location).get()`
deriving DecidableEq, Repr

/-- `get_reporters` / `get_backends` / `get_cmds`: the core map updated with the plugins — a plugin named like a
    core class REPLACES it -/
def nameTable (core : List Str) (plugins : List (Str × Str)) : List (Str × Cls) :=
  dictUpdate (core.map fun n => (n, Cls.core n)) (plugins.map fun kv => (kv.1, Cls.plugin kv.2))

inductive Category | reporter | backend | loader
deriving DecidableEq, Repr

/-- where the NAME was written -/
inductive Where | cmdline | config | dodo
deriving DecidableEq, Repr

/-- what choosing by name ends in -/
inductive Pick
  | cls (c : Cls)      -- the class is used
  | errorMsg           -- `ERROR: …` on stderr, exit code 3 (CmdParseError: not a valid choice)
  | traceback3         -- python exception caught by `DoitMain.run`: traceback on stderr, exit code 3
  | escapes            -- python exception leaves `DoitMain.run` (raised before its `try`)
deriving DecidableEq, Repr

/-- an unknown name, by category and place — every one is reported as `ERROR: …` with exit code 3
    (since `fix: an unknown reporter or loader name given in a config file or DOIT_CONFIG is reported as an error`):
    * backend  — `validate_choice` for every place (command line: parser; config: `get_backends`; DOIT_CONFIG: `execute`)
    * reporter — command line: parser (choices = the table); config: `get_reporters` validates the configured default
                 once the choices are known; DOIT_CONFIG: `_execute` validates the resolved name
    * loader   — `get_loader` raises InvalidCommand for a name that is not in `[LOADER]`, `run` reports it -/
def unknownName : Category → Where → Pick
  | _, _ => .errorMsg

/-- the behaviour before that fix: a reporter name from a config section / DOIT_CONFIG was never validated
    (`self.reporters[name]`: KeyError inside `run`'s `try`), `get_loader` ran before the `try` and indexed the
    PluginDict (KeyError leaves `run`) -/
def unknownNamePinned : Category → Where → Pick
  | .backend, _ => .errorMsg
  | .reporter, .cmdline => .errorMsg
  | .reporter, _ => .traceback3
  | .loader, _ => .escapes

def pick (cat : Category) (w : Where) (table : List (Str × Cls)) (name : Str) : Pick :=
  match alookup name table with
  | some c => .cls c
  | none => unknownName cat w

/-- `-r NAME` / `--backend NAME` are accepted exactly for the names of the table -/
def acceptsName (core : List Str) (plugins : List (Str × Str)) (name : Str) : Bool :=
  (alookup name (nameTable core plugins)).isSome

/-! ### loading a plugin (`PluginEntry.load`): eager for reporters and backends, lazy for loaders -/

inductive LoadErr | format | noModule | noAttr
deriving DecidableEq, Repr

/-- `module_name, obj_name = location.split(':')`: exactly one colon -/
def splitLoc (loc : Str) : Option (Str × Str) :=
  match splitOn ':' loc [] with
  | [m, a] => some (m, a)
  | _ => none

/-- `mods`: the importable modules with their attributes.  Wrong shape: ValueError; module missing / attribute
    missing: `Exception('Plugin …')` — all three are plain python exceptions for the caller -/
def loadPlugin (mods : List (Str × List Str)) (loc : Str) : Except LoadErr Unit :=
  match splitLoc loc with
  | none => .error .format
  | some (m, a) =>
    match alookup m mods with
    | none => .error .noModule
    | some attrs => if a ∈ attrs then .ok () else .error .noAttr

def allLoad (mods : List (Str × List Str)) (sect : List (Str × Str)) : Bool :=
  sect.all fun kv => (loadPlugin mods kv.2).toBool

/-- choosing by name with loading.  Reporters / backends: `plugins.to_dict()` imports EVERY entry of the section when
    the command object is created (inside `run`'s `try`), before any name is looked at — one entry that does not load
    ends every `doit run` in a traceback, exit code 3.  Loaders: `get_plugin(name)` imports only the named entry,
    before the `try`. -/
def pickLoaded (cat : Category) (w : Where) (core : List Str) (sect : List (Str × Str))
    (mods : List (Str × List Str)) (name : Str) : Pick :=
  match cat with
  | .loader =>
    match alookup name sect with
    | some loc => if (loadPlugin mods loc).toBool then .cls (.plugin loc) else .escapes
    | none => pick .loader w (nameTable core sect) name
  | c => if allLoad mods sect then pick c w (nameTable core sect) name else .traceback3

/-! ### the sub-command (`DoitMain.get_cmds` / `run`) -/

def runName : Str := ['r', 'u', 'n']

/-- `DoitMain.run`: the first word (loader options and `name=value` words already taken out) names the sub-command
    when it is a key of the command table; otherwise the command is `run` and every word stays an argument -/
def subCommand (table : List (Str × Cls)) : List Str → Str × List Str
  | [] => (runName, [])
  | a :: rest => if (alookup a table).isSome then (a, rest) else (runName, a :: rest)

/-- the class of the command that is executed: core commands updated with the `COMMAND` plugins; only the entry of
    the command that is used is imported (`sub_cmds.get_plugin(cmd_name)`, inside the `try`) -/
def commandPick (core : List Str) (sect : List (Str × Str)) (mods : List (Str × List Str)) (args : List Str) : Pick :=
  match alookup (subCommand (nameTable core sect) args).1 (nameTable core sect) with
  | some (.plugin loc) => if (loadPlugin mods loc).toBool then .cls (.plugin loc) else .traceback3
  | some c => .cls c
  | none => .traceback3        -- `run` is not in the table: KeyError (never with doit's core commands)

/-! ## (c) the same text in a config file and on the command line -/

/-- a text written as the value of option `o` in a config section (INI: always text) with nothing else given -/
def cfgText (o : Opt) (s : Str) : Except Err Val := str2typeCfg o (.raw s)

/-- the same text as the (single) value of `o` on the command line, nothing else given.  bool: the option is a flag,
    there is no text to write (`--flag=s` is a getopt error) -/
def cmdText (o : Opt) (s : Str) : Except Err Val :=
  match o.ty with
  | .bool => .error .noArg
  | .list => listAfter o.default [s]
  | _ => str2type o s

end DoitModel.Opt
