import DoitModel.Model.Run
/-! # M1 extension for C08: the denotational outcome of a run, and the data path between worker and main process

Part 1 (`Den`, `combine`, `denF`, `denClosure`, `denExit`; 1b: `denTab`, `closureTab` with calc_dep edges): what a
*complete* run (no early stop) does to every task,
as a function of the input only — no dispatcher, no queues, no schedule.  `Props/C08.lean` proves that every
transition system of `Model/Run.lean` (serial, thread, process; every choice sequence) refines it.

Part 2 (`TaskRec`, `pickleSafe`, `updateFromPickle`, `workerResult`, `processResultData`): `Task.pickle_safe_dict`,
`Task.update_from_pickle`, the result dict built by `MRunner.execute_task_subprocess` and its merge by
`MRunner._process_result`, as record restriction / override on an attribute map.

Core Lean only (linked into the driver). -/
namespace DoitModel.Run

/-! ## Part 1: denotation -/

/-- final outcome of a task in a complete run (`bot`: not determined with the given fuel) -/
inductive Den | ign | utd | ok | fail (k : FailKind) | bot
deriving DecidableEq, Repr, Inhabited

/-- the `run_status` a `Den` stands for -/
def Den.rs : Den → RS
  | .ign => .ign | .utd => .utd | .ok => .ok | .fail _ => .fail | .bot => .none

def Den.isIgn : Den → Bool
  | .ign => true | _ => false
def Den.isFail : Den → Bool
  | .fail _ => true | _ => false
def Den.isBot : Den → Bool
  | .bot => true | _ => false

/-- answer of the first `select_task(node)` pass (`node.run_status is None`) -/
inductive Stage1 | ign | unmet | depErr | utd | run
deriving DecidableEq, Repr, Inhabited

/-- first pass of `Runner.select_task`, given the outcomes `dd` of the task_deps: ignore mark / an ignored dependency,
    then a failed dependency, then `get_status` (`error`, `up-to-date` unless `--always-execute`) -/
def stage1 (inp : RunInput) (dd : Name → Den) (n : Name) : Stage1 :=
  if (inp.taskDep n).any (fun d => (dd d).isIgn) = true ∨ inp.ignored n = true then .ign
  else if (inp.taskDep n).any (fun d => (dd d).isFail) = true then .unmet
  else if inp.statusOf n = .error then .depErr
  else if effStatus inp n = .utd then .utd
  else .run

/-- `process_task_result` / `_handle_task_error` for what the actions (and `save_success`) did -/
def resDen : Outcome → Den
  | .ok => .ok | .failed => .fail .failed | .error => .fail .error | .saveErr => .fail .depErr

/-- after the first pass said `run`: the second pass (setup-tasks: ignored, then failed), `_get_task_args`, the actions -/
def stage2 (inp : RunInput) (dd : Name → Den) (n : Name) : Den :=
  if (inp.setup n).any (fun d => (dd d).isIgn) = true then .ign
  else if (inp.setup n).any (fun d => (dd d).isFail) = true then .fail .unmet
  else if inp.argsOk n = true then resDen (inp.outcome n) else .fail .depErr

/-- outcome of `n` given the outcomes of its task_deps and (read only when the first pass says `run`) setup-tasks -/
def combine (inp : RunInput) (dd : Name → Den) (n : Name) : Den :=
  match stage1 inp dd n with
  | .ign => .ign
  | .unmet => .fail .unmet
  | .depErr => .fail .depErr
  | .utd => .utd
  | .run => stage2 inp dd n

/-- executable denotation by fuel (`bot` when the fuel does not reach the leaves; `Props/C08.lean`: with an acyclic
    rank, `rank n + 1` suffices, and any non-`bot` answer is THE outcome) -/
def denF (inp : RunInput) : Nat → Name → Den
  | 0, _ => .bot
  | f + 1, n =>
    if (inp.taskDep n).any (fun d => (denF inp f d).isBot) = true then .bot
    else if stage1 inp (denF inp f) n = .run ∧ (inp.setup n).any (fun d => (denF inp f d).isBot) = true then .bot
    else combine inp (denF inp f) n

/-- tasks a complete run processes: one round of closing `cl` under task_dep and under the setup-tasks of members
    whose first pass says `run` -/
def denCloseOnce (inp : RunInput) (fuel : Nat) (cl : List Name) : List Name :=
  cl.foldl (fun acc t =>
    let acc1 := (inp.taskDep t).foldl (fun a d => if d ∈ a then a else a ++ [d]) acc
    if stage1 inp (denF inp fuel) t = .run then
      (inp.setup t).foldl (fun a d => if d ∈ a then a else a ++ [d]) acc1
    else acc1) cl

def denCloseIter (inp : RunInput) (fuel : Nat) : Nat → List Name → List Name
  | 0, cl => cl
  | k + 1, cl => denCloseIter inp fuel k (denCloseOnce inp fuel cl)

/-- closure of the selection (`nTasks` bounds both the rank and the number of rounds) -/
def denClosure (inp : RunInput) (nTasks : Nat) : List Name :=
  denCloseIter inp (nTasks + 1) (nTasks + 1) (dedup inp.sel)

/-- `final_result` of a complete run: ERROR is sticky, FAILURE only overrides SUCCESS — a function of the *set* of
    failure kinds -/
def exitOfDens (ds : List Den) : Nat :=
  if ds.any (fun d => match d with | .fail k => k != .failed | _ => false) then 2
  else if ds.any (fun d => d == .fail .failed) then 1
  else 0

def denExit (inp : RunInput) (nTasks : Nat) : Nat :=
  exitOfDens ((denClosure inp nTasks).map (denF inp (nTasks + 1)))

/-- terminal report of a task in a trace, as a `Den` -/
def Ev.den? (t : Name) : Ev → Option Den
  | .success n => if n = t then some .ok else none
  | .skipUtd n => if n = t then some .utd else none
  | .skipIgn n => if n = t then some .ign else none
  | .failure n k => if n = t then some (.fail k) else none
  | _ => none

/-- the (first) terminal report of `t` in a chronological trace -/
def reportOf (tr : List Ev) (t : Name) : Option Den := tr.findSome? (Ev.den? t)

/-- `final_result` folded over the failure reports of a trace in their order -/
def exitOfTrace (tr : List Ev) : Nat :=
  tr.foldl (fun f e => match e with | .failure _ k => finalAfter f k | _ => f) 0

/-- (P) for one run against the denotation: every terminal report equals `denF`; on a complete run (`complete`
    says so: normal end, not stopped) exactly the members of the closure are reported and the exit code is `denExit` -/
def monC08Den (inp : RunInput) (nTasks : Nat) (tr : List Ev) (exit : Nat) (complete : Bool) : Bool :=
  ((List.range nTasks).all fun t =>
    match reportOf tr t with
    | some d => denF inp (nTasks + 1) t == d
    | none => true) &&
  (!complete ||
    (((List.range nTasks).all fun t => (reportOf tr t).isSome == decide (t ∈ denClosure inp nTasks)) &&
     exit == denExit inp nTasks))

/-- (P) for a pair of runs of the same input (serial vs parallel): same report per task, same exit code -/
def monC08Pair (nTasks : Nat) (tr1 tr2 : List Ev) (exit1 exit2 : Nat) : Bool :=
  ((List.range nTasks).all fun t => reportOf tr1 t == reportOf tr2 t) && exit1 == exit2

/-! ## Part 1b: denotation with dynamic `calc_dep` edges (executable)

The dependency list of a task under given outcomes (`depsF`: task_deps, the calc_dep set closed under what executed /
up-to-date members deliver, and the task_deps / file_dep owners they deliver), the outcomes as a table computed bottom-up
(`denTab`), the closure of the selection (`closureTab`) and the decidable side condition `determinedOf` (everything
needed was closed within the given number of rounds and nothing needed is undetermined).  `Proofs/C08DynExec.lean`: a
determined answer is THE relational denotation `Dyn.DenOf` / `Dyn.DenCl` of `Proofs/C08Dyn*.lean`. -/

/-- first pass of `Runner.select_task` over the dependency list `L` (`stage1` is the case `L = taskDep n`) -/
def stage1L (inp : RunInput) (dd : Name → Den) (L : List Name) (n : Name) : Stage1 :=
  if L.any (fun d => (dd d).isIgn) = true ∨ inp.ignored n = true then .ign
  else if L.any (fun d => (dd d).isFail) = true then .unmet
  else if inp.statusOf n = .error then .depErr
  else if effStatus inp n = .utd then .utd
  else .run

def combineL (inp : RunInput) (dd : Name → Den) (L : List Name) (n : Name) : Den :=
  match stage1L inp dd L n with
  | .ign => .ign
  | .unmet => .fail .unmet
  | .depErr => .fail .depErr
  | .utd => .utd
  | .run => stage2 inp dd n


def appNew (ds acc : List Name) : List Name := ds.foldl (fun a d => if d ∈ a then a else a ++ [d]) acc

/-- one closure round: every member `c` of `cs` contributes `f c` -/
def roundWith (f : Name → List Name) (cs : List Name) : List Name := cs.foldl (fun acc c => appNew (f c) acc) cs

def iterN (step : List Name → List Name) : Nat → List Name → List Name
  | 0, cs => cs
  | k + 1, cs => iterN step k (step cs)

/-- `cs` is closed under `f` -/
def closedWith (f : Name → List Name) (cs : List Name) : Bool := cs.all fun c => (f c).all fun x => decide (x ∈ cs)

/-- the outcome `d` of task `c` is a failure found DURING its execution (`Task.execute` ran): the actions failed, or
    `save_success` did.  A failure of kind `depErr` also arises in `select_task` (`get_status` error, `getargs`
    error), before any action runs; the oracle tells the two apart. -/
def startedFail (inp : RunInput) (c : Name) : Den → Bool
  | .fail .failed => true
  | .fail .error => true
  | .fail .depErr => decide (inp.statusOf c ≠ .error) && inp.argsOk c
  | _ => false

/-- what the calc task `c` delivers to the tasks that have it as calc_dep when its outcome is `d`: `calcRes c` when it
    was executed successfully or is up-to-date, `calcResFail c` (what its actions returned before the failing one) when
    it failed during its execution, nothing otherwise -/
def delivOf (inp : RunInput) (c : Name) (d : Den) : CalcRes :=
  if d.rs.good then inp.calcRes c else if startedFail inp c d then inp.calcResFail c else {}

/-- what calc_dep `c` contributes to the calc_dep set of the task that has it, under the outcomes `dd` -/
def calcOut (inp : RunInput) (dd : Name → Den) (c : Name) : List Name :=
  (delivOf inp c (dd c)).calcs

/-- the calc_deps of `n` under the outcomes `dd`, `k` rounds -/
def calcsF (inp : RunInput) (dd : Name → Den) (k : Nat) (n : Name) : List Name :=
  iterN (roundWith (calcOut inp dd)) k (dedup (inp.calcDep n))

/-- what calc_dep `c` delivers as task_deps -/
def taskOut (inp : RunInput) (dd : Name → Den) (c : Name) : List Name :=
  (delivOf inp c (dd c)).tasks ++ (delivOf inp c (dd c)).files

/-- the dependency list of `n` under the outcomes `dd` (`none`: `k` rounds did not close the calc_dep set) -/
def depsF (inp : RunInput) (dd : Name → Den) (k : Nat) (n : Name) : Option (List Name) :=
  if closedWith (calcOut inp dd) (calcsF inp dd k n) = true then
    some (inp.taskDep n ++ calcsF inp dd k n ++ (calcsF inp dd k n).flatMap (taskOut inp dd))
  else none

/-- one bottom-up step of the denotation: the outcome of `n` from the outcomes `dd` of everything else -/
def stepC (inp : RunInput) (k : Nat) (dd : Name → Den) (n : Name) : Den :=
  match depsF inp dd k n with
  | none => .bot
  | some L =>
    if L.any (fun d => (dd d).isBot) = true then .bot
    else if stage1L inp dd L n = .run ∧ (inp.setup n).any (fun d => (dd d).isBot) = true then .bot
    else combineL inp dd L n

/-- a table of outcomes as a function (`bot` outside the table) -/
def ddTab (tab : List Den) : Name → Den := fun x => tab.getD x .bot

def tabStep (inp : RunInput) (N k : Nat) (prev : List Den) : List Den :=
  (List.range N).map (stepC inp k (ddTab prev))

/-- executable denotation with dynamic edges: the table of the outcomes of the tasks `< N` after `f` bottom-up
    rounds (`k`: closure rounds of the calc_dep sets) -/
def denTab (inp : RunInput) (N k : Nat) : Nat → List Den
  | 0 => []
  | f + 1 => tabStep inp N k (denTab inp N k f)

/-- what a member `t` of the closure contributes to it -/
def contribC (inp : RunInput) (dd : Name → Den) (k : Nat) (t : Name) : List Name :=
  match depsF inp dd k t with
  | none => []
  | some L =>
    if L.any (fun d => (dd d).isBot) = true then L
    else if stage1L inp dd L t = .run then L ++ inp.setup t else L

def closureTab (inp : RunInput) (tab : List Den) (k : Nat) : List Name :=
  iterN (roundWith (contribC inp (ddTab tab) k)) k (dedup inp.sel)

/-- every member of the computed closure `cl` is determined, has a closed dependency list without undetermined
    entries, and `cl` is closed: the decidable hypothesis under which the table / `cl` ARE the denotation -/
def determinedOf (inp : RunInput) (tab : List Den) (k : Nat) (cl : List Name) : Bool :=
  closedWith (contribC inp (ddTab tab) k) cl &&
  cl.all fun t =>
    !(ddTab tab t).isBot &&
    match depsF inp (ddTab tab) k t with
    | none => false
    | some L => !(L.any fun d => (ddTab tab d).isBot)

/-- (P) for one run against a table of outcomes and a closure -/
def monDenOf (tab : List Den) (cl : List Name) (nTasks : Nat) (tr : List Ev) (exit : Nat) (complete : Bool) : Bool :=
  ((List.range nTasks).all fun t =>
    match reportOf tr t with
    | some d => ddTab tab t == d
    | none => true) &&
  (!complete ||
    (((List.range nTasks).all fun t => (reportOf tr t).isSome == decide (t ∈ cl)) &&
     exit == exitOfDens (cl.map (ddTab tab))))

/-- THE table for tasks `< nTasks` -/
def denTabC (inp : RunInput) (nTasks : Nat) : List Den := denTab inp nTasks (nTasks + 1) (nTasks + 1)
def denFC (inp : RunInput) (nTasks : Nat) (t : Name) : Den := ddTab (denTabC inp nTasks) t
def denClosureC (inp : RunInput) (nTasks : Nat) : List Name := closureTab inp (denTabC inp nTasks) (nTasks + 1)
def determinedC (inp : RunInput) (nTasks : Nat) : Bool :=
  determinedOf inp (denTabC inp nTasks) (nTasks + 1) (closureTab inp (denTabC inp nTasks) (nTasks + 1))
def denExitC (inp : RunInput) (nTasks : Nat) : Nat :=
  exitOfDens ((denClosureC inp nTasks).map (ddTab (denTabC inp nTasks)))

/-- (P) for one run against the denotation with dynamic edges -/
def monC08DenC (inp : RunInput) (nTasks : Nat) (tr : List Ev) (exit : Nat) (complete : Bool) : Bool :=
  monDenOf (denTabC inp nTasks) (closureTab inp (denTabC inp nTasks) (nTasks + 1)) nTasks tr exit complete

/-! ## Part 2: the data path worker → main (process runner)

A task object is an attribute map.  Attribute *names* are an enumeration of what the property is about plus two
catch-alls; attribute *values* are opaque ids (`Nat`): the model is about which side's value survives, not about
what pickle does to a value (trusted: `pickle` round-trips picklable data). -/

inductive Attr
  | name | values | result | executed | options | taskDep | otherData (k : Nat)          -- shipped
  | actions | actionInstances | cleanActions | teardown | customTitle | valueSavers | uptodate   -- never shipped
deriving DecidableEq, Repr, Inhabited

/-- the seven keys `pickle_safe_dict` deletes -/
def Attr.notShipped : Attr → Bool
  | .actions | .actionInstances | .cleanActions | .teardown | .customTitle | .valueSavers | .uptodate => true
  | _ => false

/-- `task.__dict__` (every attribute always present, as in `Task.__init__`) -/
abbrev TaskRec := Attr → Nat

/-- a pickled dict: partial attribute map -/
abbrev Pickled := Attr → Option Nat

/-- `Task.pickle_safe_dict` -/
def pickleSafe (t : TaskRec) : Pickled := fun a => if a.notShipped then none else some (t a)

/-- `Task.update_from_pickle`: `self.__dict__.update(pickle_obj)` -/
def updateFromPickle (t : TaskRec) (p : Pickled) : TaskRec := fun a => (p a).getD (t a)

/-- per-action captured output -/
structure ActOut where
  out : Nat
  err : Nat
deriving DecidableEq, Repr, Inhabited

/-- the dict put on `result_q` by `execute_task_subprocess` -/
structure WResult where
  name : Nat
  failure : Option Nat          -- `result['failure']` (absent when the task succeeded)
  task : Pickled                -- `result['task']`
  outs : List Nat               -- `result['out']`
  errs : List Nat               -- `result['err']`

/-- the worker's side after `execute_task(task)`: its copy of the task, the outputs of its action instances and the
    failure object, if any -/
structure WorkerSide where
  task : TaskRec
  acts : List ActOut
  failure : Option Nat

/-- `result = {'name', 'failure'?, 'task': pickle_safe_dict(), 'out': [...], 'err': [...]}` -/
def workerResult (w : WorkerSide) : WResult :=
  { name := w.task .name, failure := w.failure, task := pickleSafe w.task,
    outs := w.acts.map (·.out), errs := w.acts.map (·.err) }

/-- `for action, output in zip(task.actions, result['out']): action.out = output` (and the same for `err`):
    actions beyond the shorter list keep what they had -/
def zipOut : List ActOut → List Nat → List ActOut
  | a :: as, o :: os => { a with out := o } :: zipOut as os
  | as, _ => as
def zipErr : List ActOut → List Nat → List ActOut
  | a :: as, o :: os => { a with err := o } :: zipErr as os
  | as, _ => as

/-- the main side: its task object, its action instances, and what `process_task_result` is called with -/
structure MainSide where
  task : TaskRec
  acts : List ActOut
  baseFail : Option Nat

/-- `MRunner._process_result(node, task, result)` up to the call of `process_task_result(node, base_fail)` -/
def processResultData (m : MainSide) (r : WResult) : MainSide :=
  { task := updateFromPickle m.task r.task
    acts := zipErr (zipOut m.acts r.outs) r.errs
    baseFail := r.failure }

/-- `JobTaskPickle(task)` received by a worker *process*: `self.tasks[job.name]` updated from the safe dict -/
def workerReceivesPickle (workerCopy mainTask : TaskRec) : TaskRec := updateFromPickle workerCopy (pickleSafe mainTask)

end DoitModel.Run
