import DoitModel.Model.RunMon
/-! # M1 extension for C05 — failure containment: dependency relation, DB effect of a run, monitors

Imports the base run model (`Model/Run.lean`, `Model/RunMon.lean`) and changes nothing in it.

* `DepOn inp t d` — "`t` depends on `d`" by any edge kind the run model knows: task_dep (which, after the M8 expansion,
  includes target→file_dep and result_dep), calc_dep, whatever a calc_dep of `t` delivers (task_dep / file_dep owners /
  further calc_deps, transitively through delivered calc_deps), and setup (which, after the expansion, includes
  getargs).  Reading fixed in DESIGN §5 ("closure"): the setup-tasks of a task that is up-to-date are never looked at,
  so a setup edge of `t` counts unless `t` is up-to-date (`effStatus inp t = utd`).  `DepPlus` is the transitive closure.
* `recAfter` — the DB effect of a run on one task's record as far as M1 sees it: `process_task_result` calls
  `save_success` right before `add_success`, `_handle_task_error` calls `remove_success` right before `add_failure`
  (every failure kind: failed, error, unmet dependency, dependency error incl. the FileNotFoundError of `save_success`).
* `monC05…` — the decidable statements evaluated by the driver on the implementation's trace. -/
namespace DoitModel.Run

/-- calc_deps of `t`, including those delivered by its calc_deps -/
inductive CalcOf (inp : RunInput) (t : Name) : Name → Prop
  | base {c : Name} : c ∈ inp.calcDep t → CalcOf inp t c
  | step {c c' : Name} : CalcOf inp t c → c' ∈ (inp.calcRes c).calcs → CalcOf inp t c'

/-- direct dependency of `t` other than a setup-task -/
inductive DepNS (inp : RunInput) (t : Name) : Name → Prop
  | task {d : Name} : d ∈ inp.taskDep t → DepNS inp t d
  | ofCalc {c : Name} : CalcOf inp t c → DepNS inp t c
  | resTask {c d : Name} : CalcOf inp t c → d ∈ (inp.calcRes c).tasks → DepNS inp t d
  | resFile {c d : Name} : CalcOf inp t c → d ∈ (inp.calcRes c).files → DepNS inp t d

/-- direct dependency of `t` of any kind -/
inductive DepOn (inp : RunInput) (t : Name) : Name → Prop
  | ns {d : Name} : DepNS inp t d → DepOn inp t d
  | setup {d : Name} : d ∈ inp.setup t → effStatus inp t ≠ .utd → DepOn inp t d

/-- `t` depends on `d` through one or more edges -/
inductive DepPlus (inp : RunInput) : Name → Name → Prop
  | one {t d : Name} : DepOn inp t d → DepPlus inp t d
  | more {t m d : Name} : DepOn inp t m → DepPlus inp m d → DepPlus inp t d

/-- direct dependency as a run determines it: a setup edge of `t` counts unless the run reported `t` up-to-date
    (`evs`: the events of the run, any order).  Contains `DepOn` for every reachable state (`depOn_depOnE`). -/
inductive DepOnE (inp : RunInput) (evs : List Ev) (t : Name) : Name → Prop
  | ns {d : Name} : DepNS inp t d → DepOnE inp evs t d
  | setup {d : Name} : d ∈ inp.setup t → Ev.skipUtd t ∉ evs → DepOnE inp evs t d

inductive DepPlusE (inp : RunInput) (evs : List Ev) : Name → Name → Prop
  | one {t d : Name} : DepOnE inp evs t d → DepPlusE inp evs t d
  | more {t m d : Name} : DepOnE inp evs t m → DepPlusE inp evs m d → DepPlusE inp evs t d

/-! ### DB effect -/

/-- does task `n` have a success record after the events `evs` (NEWEST FIRST, as in `Sys.events`), given whether it
    had one before the run -/
def recAfter (r0 : Name → Bool) (n : Name) : List Ev → Bool
  | [] => r0 n
  | .success m :: rest => if m = n then true else recAfter r0 n rest
  | .failure m _ :: rest => if m = n then false else recAfter r0 n rest
  | _ :: rest => recAfter r0 n rest

/-! ### monitors (trace oldest first) -/

def Ev.isFailure : Ev → Bool
  | .failure _ _ => true
  | _ => false

def Ev.isFailureOf (d : Name) : Ev → Bool
  | .failure n _ => n = d
  | _ => false

def Ev.isStart : Ev → Bool
  | .start _ _ => true
  | _ => false

def skippedUtd (tr : List Ev) (t : Name) : Bool := tr.any fun e => e == Ev.skipUtd t

/-- direct dependencies of `t` as far as the whole observed trace `tr` determines them: `depsAt` without the setup
    edges of a task that was reported up-to-date -/
def edgesOf (inp : RunInput) (nTasks : Nat) (tr : List Ev) (t : Name) : List Name :=
  inp.taskDep t ++ (if skippedUtd tr t then [] else inp.setup t) ++ calcsAt inp tr nTasks (inp.calcDep t) ++
    (((calcsAt inp tr nTasks (inp.calcDep t)).filter (finishedIn tr)).flatMap fun c =>
      (inp.calcRes c).tasks ++ (inp.calcRes c).files)

/-- everything reachable from `front` through `edgesOf` in at most `fuel` rounds (accumulated in `acc`) -/
def reachIter (inp : RunInput) (nTasks : Nat) (tr : List Ev) : Nat → List Name → List Name
  | 0, acc => acc
  | fuel + 1, acc => reachIter inp nTasks tr fuel (addNew acc (acc.flatMap (edgesOf inp nTasks tr)))

/-- the tasks `t` depends on, transitively (not `t` itself unless it lies on a cycle) -/
def depClosure (inp : RunInput) (nTasks : Nat) (tr : List Ev) (t : Name) : List Name :=
  reachIter inp nTasks tr nTasks (addNew [] (edgesOf inp nTasks tr t))

/-- (a) after the failure report of `d`, no task that depends on `d` (transitively, any edge kind) starts -/
def noDepRunsFrom (inp : RunInput) (nTasks : Nat) (tr : List Ev) : List Name → List Ev → Bool
  | _, [] => true
  | failed, e :: rest =>
    (match e with
     | .start t _ => failed.all fun d => d ∉ depClosure inp nTasks tr t
     | _ => true) &&
    noDepRunsFrom inp nTasks tr (match e with | .failure d _ => d :: failed | _ => failed) rest

def monC05NoDependentRuns (inp : RunInput) (nTasks : Nat) (tr : List Ev) : Bool :=
  noDepRunsFrom inp nTasks tr [] tr

/-- (d) serial runner without --continue: no action starts after the first failure report -/
def noStartAfterFail : Bool → List Ev → Bool
  | _, [] => true
  | seen, e :: rest => !(seen && e.isStart) && noStartAfterFail (seen || e.isFailure) rest

def monC05SerialStops (inp : RunInput) (tr : List Ev) : Bool :=
  inp.runner != .serial || inp.continue_ || noStartAfterFail false tr

/-- failed tasks in `tr` -/
def failedIn (tr : List Ev) (d : Name) : Bool := tr.any (Ev.isFailureOf d)

/-- (c) with --continue, when the run was not aborted (exit ≤ 2, `complete` reported): every member of the closure of
    the selection has exactly one terminal report, and a task reported `unmet` really depends (directly) on a task with
    a failure report -/
def monC05ContinueComplete (inp : RunInput) (nTasks : Nat) (tr : List Ev) (exit : Nat) : Bool :=
  !inp.continue_ || !(exit ≤ 2 && tr.getLast? == some Ev.complete) ||
  (((closureOf inp nTasks tr).all fun t => (tr.filter (Ev.isTerminalOf t)).length == 1) &&
   ((List.range nTasks).all fun t =>
      !(tr.any fun e => e == Ev.failure t .unmet) || (edgesOf inp nTasks tr t).any (failedIn tr)))

/-- (b), M1 part: after the run no failed task has a success record -/
def monC05NotRecorded (nTasks : Nat) (tr : List Ev) (recorded : Name → Bool) : Bool :=
  (List.range nTasks).all fun t => !failedIn tr t || !recorded t

/-! ### the pinned tree (before `fix: do not execute a task whose setup-task failed or is ignored`) -/

/-- `Runner.select_task` as it was on the pinned tree: the second pass (a task with setup-tasks, after they were
    processed) only asserted `run_status == 'run'` and went on to `_get_task_args` — `bad_deps` / `ignored_deps` were
    not looked at again -/
def selDecisionPinned (inp : RunInput) (n : Name) (nd : Node) : Sel :=
  if nd.status = .none then selDecision inp n nd
  else if nd.status ≠ .run ∨ inp.setup n = [] then .assertFail
  else if inp.argsOk n then .go else .argsErr

end DoitModel.Run
