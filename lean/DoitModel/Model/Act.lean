import DoitModel.Model.Basic
/-! # M5 — actions (`doit/action.py`, `Task.execute` in `doit/task.py`)

Four small models, each mirroring one piece of code *as it is* (including the `fix:` commit for F-C17b):

* `classifyPy` / `pyExec`   — `PythonAction.execute`: what the returned value / raised exception becomes,
                               and what is left in `action.result` / `action.values`;
* `classifyCmd` / `cmdExec` — `CmdAction.execute`: return-code mapping, `result = out + err`, `save_out`;
* `taskRun`                 — `Task.execute`: the loop over the actions;
* the stream machine        — the process-wide `sys.stdout` (or `sys.stderr`) cell and the
                               `save; set; write…; restore; read` steps of a python-action with capture on.
                               Interleavings are lists of steps tagged with the action that performs them.
* `getOutErr`, `pyRoute`, `cmdRoute` — which text is shown live for which verbosity / `io.capture` setting.

Strings are `List Char`; dictionary keys are `Nat` (interned by the harness); written chunks are tokens
`(author action, serial number)`.
-/
namespace DoitModel.Act

/-! ## outcomes, values, results -/

/-- what `execute()` gives back: `None` (ok), a `TaskFailed`, a `TaskError`, or an exception that leaves
    `execute()` (`raised`: `BaseException`s such as `KeyboardInterrupt`, and `InvalidTask` from
    `_prepare_kwargs`) -/
inductive Outcome | ok | failed | error | raised
deriving DecidableEq, Repr

inductive Val | none | nat (n : Nat) | text (s : List Char)
deriving DecidableEq, Repr

/-- a python dict with interned keys, newest binding first; only `Vals.get` observes it -/
abbrev Vals := List (Nat × Val)
def Vals.get (vs : Vals) (k : Nat) : Option Val := alookup k vs
/-- `vs.update(new)`: bindings of `new` win -/
def Vals.update (vs new : Vals) : Vals := new ++ vs

/-- `action.result` / `task.result` -/
inductive Res | none | str (s : List Char) | dict (d : Vals)
deriving DecidableEq, Repr

/-- result of executing one action: outcome, and the attributes `Task.execute` reads afterwards -/
structure ARes where
  outcome : Outcome
  result : Res
  values : Vals
deriving DecidableEq, Repr

/-! ## python-actions -/

/-- what the callable does, by the categories `PythonAction.execute` distinguishes
    (`is True/False/None`, `isinstance str / dict / (TaskFailed, TaskError)`, anything else) -/
inductive PyRet
  | rTrue | rFalse | rNone
  | rStr (s : List Char)           -- `str` or a subclass
  | rDict (d : Vals)               -- `dict` or a subclass
  | rTaskFailed                    -- an instance of `TaskFailed` (or a subclass)
  | rTaskError                     -- an instance of `TaskError` (or a subclass: UnmetDependency, SetupError, …)
  | rOther                         -- anything else: 0, 1, 2.5, [], (), bytes, object(), a plain BaseFail, …
  | raisesExc                      -- raises an `Exception`
  | raisesBase                     -- raises a `BaseException` that is not an `Exception` (KeyboardInterrupt, SystemExit)
deriving DecidableEq, Repr

def classifyPy : PyRet → Outcome
  | .rTrue | .rNone | .rStr _ | .rDict _ => .ok
  | .rFalse | .rTaskFailed => .failed
  | .rTaskError | .rOther | .raisesExc => .error
  | .raisesBase => .raised            -- not caught by `except Exception`; `finally` still restores the streams

/-- `PythonAction.execute`: `kwargsRaise` = `_prepare_kwargs` raises `InvalidTask` (propagates; nothing else happens) -/
def pyExec (kwargsRaise : Bool) (r : PyRet) : ARes :=
  if kwargsRaise then ⟨.raised, .none, []⟩ else
  match r with
  | .rStr s => ⟨.ok, .str s, []⟩
  | .rDict d => ⟨.ok, .dict d, d⟩
  | r => ⟨classifyPy r, .none, []⟩

/-! ### the stream object the callable sees

With capture on, `sys.stdout`/`sys.stderr` are the tee `Writer`, whose whole interface is `write`, `flush`,
`isatty` and `fileno` (the last two answered by the live stream when one was handed over).  Anything else a
text stream offers (`writelines`, `.buffer`, `.encoding`, `.errors`, `reconfigure`, …) is an `AttributeError`
inside the callable, i.e. the callable raises an `Exception` -- at every verbosity.  With capture off the callable
sees the caller's stream (or the live stream), a full text stream. -/

inductive StreamOp | write | print | flush | isatty | fileno | writelines | bufferWrite | attr
deriving DecidableEq, Repr

inductive OpEffect | text | silent | raises
deriving DecidableEq, Repr

/-- `liveFd`: the stream that answers `fileno()` has a file descriptor (capture on: a live stream was handed over
    and has one; capture off: the stream itself has one) -/
def opEffect (capture liveFd : Bool) : StreamOp → OpEffect
  | .write | .print => .text
  | .flush | .isatty => .silent
  | .fileno => if liveFd then .silent else .raises          -- io.UnsupportedOperation
  | .writelines | .bufferWrite => if capture then .raises else .text
  | .attr => if capture then .raises else .silent

/-- the stream operations of a callable's body, executed until the first one that raises: for every completed
    operation whether it produced text, and whether the body raised -/
def bodyRun (capture liveFd : Bool) : List StreamOp → List Bool × Bool
  | [] => ([], false)
  | op :: rest =>
    match opEffect capture liveFd op with
    | .raises => ([], true)
    | .text => (true :: (bodyRun capture liveFd rest).1, (bodyRun capture liveFd rest).2)
    | .silent => (false :: (bodyRun capture liveFd rest).1, (bodyRun capture liveFd rest).2)

/-- what the callable amounts to for `PythonAction.execute`: a raising stream operation makes it "raises Exception" -/
def pyBody (capture liveFd : Bool) (ops : List StreamOp) (ret : PyRet) : PyRet :=
  if (bodyRun capture liveFd ops).2 then .raisesExc else ret

/-! ## cmd-actions -/

/-- `process.returncode`: the exit status, or `-N` when killed by signal `N` -/
def classifyCmd (rc : Int) : Outcome :=
  if rc > 125 then .error else if rc ≠ 0 then .failed else .ok

/-- `task.io.capture`: truthy / `False` / anything else falsy (`None`) -/
inductive Cap | yes | no | devnull
deriving DecidableEq, Repr

/-- `CmdAction.execute`.  `expandRaises`: `expand_action()` raised an `Exception` (no process is started);
    `out`/`err`: the decoded bytes the process wrote (meaningful when captured) -/
def cmdExec (expandRaises : Bool) (cap : Cap) (saveOut : Option Nat) (rc : Int) (out err : List Char) : ARes :=
  if expandRaises then ⟨.error, .none, []⟩ else
  let outV : Val := if cap = .yes then .text out else .none
  let res : Res := if cap = .yes then .str (out ++ err) else .none
  let oc := classifyCmd rc
  match oc, saveOut with
  | .ok, some k => ⟨oc, res, [(k, outV)]⟩
  | _, _ => ⟨oc, res, []⟩

/-! ### `doit.tools` action classes (`LongRunning`, `Interactive`, `PythonInteractiveAction`)

None of them captures (`out`/`err` stay `None`; a cmd gets the live streams or inherits the descriptors, the python
callable writes to whatever `sys.stdout` is).  `expand_action()` / `_prepare_kwargs()` are called outside any
`try`, so their exceptions leave `execute()`.  `interrupt`: a `KeyboardInterrupt` arrives while waiting for the
process. -/

/-- `LongRunning` (alias `InteractiveAction`): the return code is not used, `KeyboardInterrupt` is swallowed -/
def longRunningExec (expandRaises : Bool) (_interrupt : Bool) (_rc : Int) : ARes :=
  if expandRaises then ⟨.raised, .none, []⟩ else ⟨.ok, .none, []⟩

/-- `Interactive`: any non-zero return code (also > 125, also a signal) is a `TaskFailed`; never a `TaskError` -/
def interactiveExec (expandRaises interrupt : Bool) (rc : Int) : ARes :=
  if expandRaises || interrupt then ⟨.raised, .none, []⟩
  else if rc ≠ 0 then ⟨.failed, .none, []⟩ else ⟨.ok, .none, []⟩

/-- `PythonInteractiveAction`: successful unless an `Exception` is raised -- a returned `False`, `TaskFailed`,
    `TaskError` or anything else is *not* looked at; str / dict are stored as for a python-action -/
def pyInteractiveExec (kwargsRaise : Bool) (r : PyRet) : ARes :=
  if kwargsRaise then ⟨.raised, .none, []⟩ else
  match r with
  | .rStr s => ⟨.ok, .str s, []⟩
  | .rDict d => ⟨.ok, .dict d, d⟩
  | .raisesExc => ⟨.error, .none, []⟩
  | .raisesBase => ⟨.raised, .none, []⟩
  | _ => ⟨.ok, .none, []⟩

/-! ### decoding of the captured bytes (`CmdAction._print_process_output`)

The repaired code (F-C17c, c208dcd) feeds every read into one incremental decoder, so the captured text is the
decoding of the *whole* byte stream whatever the `buffering` value: `cmdDecode`.  The pinned code decoded every
`buffering`-byte read on its own: `cmdDecodePinned`.  Real UTF-8 decoding is trusted (Python's codec); `decLite`
is a two-byte-sequence fragment of it (ASCII, `C2..DF` + continuation byte, else U+FFFD), enough to exhibit the
difference. -/

def decLite : List Nat → List Nat
  | [] => []
  | [b] => if b < 128 then [b] else [65533]
  | b :: c :: rest =>
    if b < 128 then b :: decLite (c :: rest)
    else if 194 ≤ b ∧ b ≤ 223 ∧ 128 ≤ c ∧ c ≤ 191 then ((b - 192) * 64 + (c - 128)) :: decLite rest
    else 65533 :: decLite (c :: rest)

/-- the reads of `input_.read(n)` until EOF (`fuel` bounds the recursion; `bytes.length` suffices) -/
def chunksOf (n : Nat) : Nat → List Nat → List (List Nat)
  | 0, _ => []
  | _ + 1, [] => []
  | fuel + 1, xs => xs.take n :: chunksOf n fuel (xs.drop n)

/-- fixed order: one incremental decoder over all reads = decoding the whole stream -/
def cmdDecode (_buffering : Nat) (bytes : List Nat) : List Nat := decLite bytes

/-- pinned (F-C17c): every read decoded on its own -/
def cmdDecodePinned (buffering : Nat) (bytes : List Nat) : List Nat :=
  ((chunksOf buffering bytes.length bytes).map decLite).flatten

/-! ## `Task.execute` -/

structure TRes where
  outcome : Outcome      -- ok = returned None; failed/error = returned that BaseFail; raised = exception propagated
  result : Res           -- task.result afterwards
  values : Vals          -- task.values afterwards
  ran : Nat              -- number of actions whose `execute` was called
deriving DecidableEq, Repr

/-- the loop of `Task.execute` over the (pre-determined) behaviours of its actions -/
def taskRun (result : Res) (values : Vals) (ran : Nat) : List ARes → TRes
  | [] => ⟨.ok, result, values, ran⟩
  | a :: rest =>
    if a.outcome = .ok then taskRun a.result (values.update a.values) (ran + 1) rest
    else ⟨a.outcome, result, values, ran + 1⟩

/-- a fresh task: `result = None`, `values = {}` -/
def taskExecute (as : List ARes) : TRes := taskRun .none [] 0 as

/-- `Task.execute_teardown`: the same loop over the teardown actions; `result` / `values` are not touched -/
def teardownRun (ran : Nat) : List ARes → Outcome × Nat
  | [] => (.ok, ran)
  | a :: rest => if a.outcome = .ok then teardownRun (ran + 1) rest else (a.outcome, ran + 1)

/-! ## what is shown live -/

/-- `Stream._get_out_err(verbosity)`: is a live stream handed to the actions for (stdout, stderr)?
    (`None`, or anything that is neither 0 nor 1, behaves as 2) -/
def getOutErr : Option Nat → Bool × Bool
  | some 0 => (false, false)
  | some 1 => (false, true)
  | _ => (true, true)

/-- where text written on one channel ends up -/
structure Route where
  captured : Bool      -- in `action.out` / `action.err`
  shown : Bool         -- written to the live stream object (`out`/`err` argument) or the untouched `sys.stdout`
  inherited : Bool     -- goes to the file descriptor inherited by the child process (cmd, capture False, no live stream)
deriving DecidableEq, Repr

/-- python-action: with capture the Writer copies to the live stream if one was given; without capture the
    text goes to the live stream or stays on the untouched `sys.stdout` -- shown in both cases -/
def pyRoute (capture live : Bool) : Route :=
  if capture then ⟨true, live, false⟩ else ⟨false, true, false⟩

def cmdRoute (cap : Cap) (live : Bool) : Route :=
  match cap with
  | .yes => ⟨true, live, false⟩
  | .no => ⟨false, live, !live⟩
  | .devnull => ⟨false, false, false⟩

/-! ## the stream machine: one process-wide cell (`sys.stdout` or `sys.stderr`)

A python-action `a` with capture on performs, in its own thread, the steps
`save a; set a; write a n …; restore a; read a`
(`old = sys.stdout; sys.stdout = Writer(buffer_a, …); callable(); finally: sys.stdout = old; a.out = buffer_a.getvalue()`).
Every `write` goes to whatever object the cell holds *at that step*.  The copy a `Writer` forwards to the
live stream is not part of this machine (it never changes the cell nor the own tokens of a buffer);
live display is `pyRoute`. -/

abbrev Act := Nat
abbrev Tok := Act × Nat

inductive Stream | orig | writer (a : Act)
deriving DecidableEq, Repr

inductive Ev
  | save (a : Act) | set (a : Act) | write (a : Act) (n : Nat) | restore (a : Act) | read (a : Act)
deriving DecidableEq, Repr

structure St where
  cell : Stream                      -- the object `sys.stdout` is bound to
  saved : Act → Option Stream        -- `old_stdout` of each execution
  buf : Act → List Tok               -- content of each execution's StringIO
  out : Act → Option (List Tok)      -- `action.out` (None until read)
  origLog : List Tok                 -- what was written while the cell held the original stream
  unbound : Bool                     -- a `restore` without `save` happened (UnboundLocalError in Python)

def upd {β : Type} (f : Act → β) (a : Act) (v : β) : Act → β := fun x => if x = a then v else f x

def St.init : St := ⟨.orig, fun _ => none, fun _ => [], fun _ => none, [], false⟩

def emit (s : St) (t : Tok) : St :=
  match s.cell with
  | .orig => { s with origLog := s.origLog ++ [t] }
  | .writer b => { s with buf := upd s.buf b (s.buf b ++ [t]) }

def restoreTo (s : St) : Option Stream → St
  | some x => { s with cell := x }
  | none => { s with unbound := true }

def step (s : St) : Ev → St
  | .save a => { s with saved := upd s.saved a (some s.cell) }
  | .set a => { s with cell := .writer a }
  | .write a n => emit s (a, n)
  | .restore a => restoreTo s (s.saved a)
  | .read a => { s with out := upd s.out a (some (s.buf a)) }

def run (s : St) (evs : List Ev) : St := evs.foldl step s

/-- the writes action `a` performs in an interleaving, in order -/
def writesOf (a : Act) : List Ev → List Tok
  | [] => []
  | .write b n :: rest => if b = a then (a, n) :: writesOf a rest else writesOf a rest
  | _ :: rest => writesOf a rest

/-- the actions that start (`save`) in an interleaving -/
def started : List Ev → List Act
  | [] => []
  | .save a :: rest => a :: started rest
  | _ :: rest => started rest

/-- the steps of one execution of python-action `a` whose callable performs `body`
    (its own writes and complete nested executions).  The fixed order: `_prepare_kwargs` runs first and, when it
    raises, no step happens at all.  `try/finally`: the same steps whatever the callable returns or raises. -/
def execSteps (kwargsRaise : Bool) (a : Act) (body : List Ev) : List Ev :=
  if kwargsRaise then [] else [.save a, .set a] ++ body ++ [.restore a, .read a]

/-- the pinned order (F-C17b): streams swapped, *then* `_prepare_kwargs` outside the `try` -/
def execStepsPinned (kwargsRaise : Bool) (a : Act) (body : List Ev) : List Ev :=
  if kwargsRaise then [.save a, .set a] else [.save a, .set a] ++ body ++ [.restore a, .read a]

/-- **well-nested** interleavings (a stack discipline): `WN o evs` — `evs` is a sequence of items running in the
    context of `o` (`none`: top level of a thread/process; `some a`: inside the callable of `a`): own writes of
    the context action and complete executions, each of which is again well nested. -/
inductive WN : Option Act → List Ev → Prop
  | nil (o) : WN o []
  | write (a n rest) : WN (some a) rest → WN (some a) (.write a n :: rest)
  | exec (o b body rest) : WN (some b) body → WN o rest →
      WN o ([.save b, .set b] ++ body ++ [.restore b, .read b] ++ rest)

/-- nested scenarios as data (what the harness generates and the driver flattens): a forest of items, each a
    write of the context action or a complete nested execution followed by more items -/
inductive Forest
  | nil
  | write (n : Nat) (rest : Forest)
  | exec (b : Act) (body : Forest) (rest : Forest)
  | kw (b : Act) (rest : Forest)      -- an execution of `b` whose `_prepare_kwargs` raises `InvalidTask`
deriving Repr

/-- the step list of a forest running in the context of `o`; a write at top level (no python-action running)
    is not a step of any action and is dropped -/
def flatten : Option Act → Forest → List Ev
  | _, .nil => []
  | some a, .write n rest => .write a n :: flatten (some a) rest
  | none, .write _ rest => flatten none rest
  | o, .exec b body rest => [.save b, .set b] ++ flatten (some b) body ++ [.restore b, .read b] ++ flatten o rest
  | o, .kw b rest => execSteps true b [] ++ flatten o rest

/-- the same with the pinned order of `PythonAction.execute` (F-C17b) -/
def flattenPinned : Option Act → Forest → List Ev
  | _, .nil => []
  | some a, .write n rest => .write a n :: flattenPinned (some a) rest
  | none, .write _ rest => flattenPinned none rest
  | o, .exec b body rest =>
    [.save b, .set b] ++ flattenPinned (some b) body ++ [.restore b, .read b] ++ flattenPinned o rest
  | o, .kw b rest => execStepsPinned true b [] ++ flattenPinned o rest

/-- per-thread program order: the steps of every action occur as `save, set, write*, restore, read`
    (phase 0 not started … 5 finished).  Any interleaving of such threads is accepted. -/
def progOrder (ph : Act → Nat) : List Ev → Bool
  | [] => true
  | .save a :: rest => ph a == 0 && progOrder (upd ph a 1) rest
  | .set a :: rest => ph a == 1 && progOrder (upd ph a 2) rest
  | .write a _ :: rest => ph a == 2 && progOrder ph rest
  | .restore a :: rest => ph a == 2 && progOrder (upd ph a 3) rest
  | .read a :: rest => ph a == 3 && progOrder (upd ph a 4) rest


/-! ## the stream machine with the live copy (`Writer` forwarding)

The same cell, but a `Writer` is the pair *(own buffer, live stream handed over by `Task.execute`)*, as in the
code: `Writer.write` writes to the buffer and then to the live stream — which, in a nested execution, is the
writer of the enclosing action.  `getlive a on` is `Stream._get_out_err`: with `on` (verbosity shows this channel)
the execution gets whatever the cell holds at that moment as its live stream, else `None` (`null`). -/
namespace Fwd

inductive Stream | orig | null | writer (a : Act) (live : Stream)
deriving DecidableEq, Repr

inductive Ev
  | getlive (a : Act) (on : Bool)
  | save (a : Act) | set (a : Act) | write (a : Act) (n : Nat) | restore (a : Act) | read (a : Act)
deriving DecidableEq, Repr

structure St where
  cell : Stream
  live : Act → Stream                -- `out` argument of the execution (`null` = None)
  saved : Act → Option Stream
  buf : Act → List Tok
  out : Act → Option (List Tok)
  origLog : List Tok                 -- what reached the original stream (shown live, or leaked)
  unbound : Bool

def St.init : St := ⟨.orig, fun _ => .null, fun _ => none, fun _ => [], fun _ => none, [], false⟩

/-- `stream.write(t)` -/
def emit (t : Tok) : Stream → St → St
  | .orig, s => { s with origLog := s.origLog ++ [t] }
  | .null, s => s
  | .writer a l, s => emit t l { s with buf := upd s.buf a (s.buf a ++ [t]) }

def restoreTo (s : St) : Option Stream → St
  | some x => { s with cell := x }
  | none => { s with unbound := true }

def step (s : St) : Ev → St
  | .getlive a on => { s with live := upd s.live a (if on then s.cell else .null) }
  | .save a => { s with saved := upd s.saved a (some s.cell) }
  | .set a => { s with cell := .writer a (s.live a) }
  | .write a n => emit (a, n) s.cell s
  | .restore a => restoreTo s (s.saved a)
  | .read a => { s with out := upd s.out a (some (s.buf a)) }

def run (s : St) (evs : List Ev) : St := evs.foldl step s

/-- the buffers a write to the stream reaches -/
def bufsOf : Stream → List Act
  | .orig => [] | .null => [] | .writer a l => a :: bufsOf l

def reachesOrig : Stream → Bool
  | .orig => true | .null => false | .writer _ l => reachesOrig l

def writesOf (a : Act) : List Ev → List Tok
  | [] => []
  | .write b n :: rest => if b = a then (a, n) :: writesOf a rest else writesOf a rest
  | _ :: rest => writesOf a rest

def started : List Ev → List Act
  | [] => []
  | .save a :: rest => a :: started rest
  | _ :: rest => started rest

/-- no execution in the list is handed a live stream (verbosity hides this channel everywhere) -/
def allOff : List Ev → Bool
  | [] => true
  | .getlive _ on :: rest => !on && allOff rest
  | _ :: rest => allOff rest

/-- the tokens of a buffer written by `c` itself -/
def own (c : Act) (l : List Tok) : List Tok := l.filter (fun t => t.1 = c)

inductive WN : Option Act → List Ev → Prop
  | nil (o) : WN o []
  | write (a n rest) : WN (some a) rest → WN (some a) (.write a n :: rest)
  | exec (o b on body rest) : WN (some b) body → WN o rest →
      WN o ([.getlive b on, .save b, .set b] ++ body ++ [.restore b, .read b] ++ rest)

/-- scenario forests with a verbosity flag per execution -/
inductive Forest
  | nil
  | write (n : Nat) (rest : Forest)
  | exec (b : Act) (on : Bool) (body : Forest) (rest : Forest)
  | kw (b : Act) (rest : Forest)      -- `_prepare_kwargs` of `b` raises: no step (`execSteps true b [] = []`)
deriving Repr

def flatten : Option Act → Forest → List Ev
  | _, .nil => []
  | some a, .write n rest => .write a n :: flatten (some a) rest
  | none, .write _ rest => flatten none rest
  | o, .exec b on body rest =>
    [.getlive b on, .save b, .set b] ++ flatten (some b) body ++ [.restore b, .read b] ++ flatten o rest
  | o, .kw _ rest => flatten o rest

end Fwd

/-! ## the stream machine with `io.capture` as a mode of every execution (`Mode`)

`PythonAction.execute` has two swap disciplines, chosen by `capture_io = self.task.io.capture`:

* capture on  — `old = sys.stdout; sys.stdout = Writer(StringIO(), out)` … `finally: sys.stdout = old; self.out = getvalue()`
  (the steps `save; set; …; restore; read` of `Fwd`);
* capture off — `if out: old = sys.stdout; sys.stdout = out` … `finally: if out: sys.stdout = old`
  (`swapNC; …; restoreNC`): nothing is swapped at all when verbosity hands no live stream over, no buffer exists
  and `self.out` stays `None`.

Same cell, same `Fwd.Stream` objects, same state; executions of both modes nest in one another freely. -/
namespace Mode

inductive Ev
  | getlive (a : Act) (on : Bool)
  | save (a : Act) | set (a : Act) | restore (a : Act) | read (a : Act)     -- capture on
  | swapNC (a : Act) | restoreNC (a : Act)                                -- capture off
  | write (a : Act) (n : Nat)
deriving DecidableEq, Repr

/-- `if out:` — a live stream was handed over -/
def given : Fwd.Stream → Bool
  | .null => false
  | _ => true

def step (s : Fwd.St) : Ev → Fwd.St
  | .getlive a on => { s with live := upd s.live a (if on then s.cell else .null) }
  | .save a => { s with saved := upd s.saved a (some s.cell) }
  | .set a => { s with cell := .writer a (s.live a) }
  | .write a n => Fwd.emit (a, n) s.cell s
  | .restore a => Fwd.restoreTo s (s.saved a)
  | .read a => { s with out := upd s.out a (some (s.buf a)) }
  | .swapNC a => if given (s.live a) then { s with saved := upd s.saved a (some s.cell), cell := s.live a } else s
  | .restoreNC a => if given (s.live a) then Fwd.restoreTo s (s.saved a) else s

def run (s : Fwd.St) (evs : List Ev) : Fwd.St := evs.foldl step s

def writesOf (a : Act) : List Ev → List Tok
  | [] => []
  | .write b n :: rest => if b = a then (a, n) :: writesOf a rest else writesOf a rest
  | _ :: rest => writesOf a rest

/-- the executions (of either mode) that start in a list: each starts with its `getlive` -/
def started : List Ev → List Act
  | [] => []
  | .getlive a _ :: rest => a :: started rest
  | _ :: rest => started rest

/-- the capturing executions in a list (`action.out` changes only at a `read` step: an execution with capture off
    never sets it) -/
def reads : List Ev → List Act
  | [] => []
  | .read a :: rest => a :: reads rest
  | _ :: rest => reads rest

/-- scenario forests: every execution has its verbosity flag `on` and its capture mode `cap` -/
inductive Forest
  | nil
  | write (n : Nat) (rest : Forest)
  | exec (b : Act) (on : Bool) (cap : Bool) (body : Forest) (rest : Forest)
  | kw (b : Act) (rest : Forest)      -- `_prepare_kwargs` of `b` raises: no step in either mode
deriving Repr

/-- the steps before / after the callable of an execution -/
def pre (b : Act) (on cap : Bool) : List Ev :=
  if cap then [.getlive b on, .save b, .set b] else [.getlive b on, .swapNC b]
def post (b : Act) (cap : Bool) : List Ev :=
  if cap then [.restore b, .read b] else [.restoreNC b]

def flatten : Option Act → Forest → List Ev
  | _, .nil => []
  | some a, .write n rest => .write a n :: flatten (some a) rest
  | none, .write _ rest => flatten none rest
  | o, .exec b on cap body rest => pre b on cap ++ flatten (some b) body ++ post b cap ++ flatten o rest
  | o, .kw _ rest => flatten o rest

/-- a list of steps of capture-off executions only (any order: threads may interleave them at will) -/
def ncOnly : List Ev → Bool
  | [] => true
  | .getlive _ _ :: rest | .swapNC _ :: rest | .restoreNC _ :: rest | .write _ _ :: rest => ncOnly rest
  | _ => false

/-- every write of a list, in order -/
def allWrites : List Ev → List Tok
  | [] => []
  | .write a n :: rest => (a, n) :: allWrites rest
  | _ :: rest => allWrites rest

/-- one execution of `a` with capture off whose callable runs the scenario `body`; `try/finally`: the same steps
    whatever the callable returns or raises (Exception or BaseException) -/
def execNC (a : Act) (on : Bool) (body : Forest) : List Ev :=
  pre a on false ++ flatten (some a) body ++ post a false

/-- the `Fwd` machine is the all-capture fragment -/
def ofFwd : Fwd.Ev → Ev
  | .getlive a on => .getlive a on | .save a => .save a | .set a => .set a
  | .write a n => .write a n | .restore a => .restore a | .read a => .read a

def ofFwdForest : Fwd.Forest → Forest
  | .nil => .nil
  | .write n rest => .write n (ofFwdForest rest)
  | .exec b on body rest => .exec b on true (ofFwdForest body) (ofFwdForest rest)
  | .kw b rest => .kw b (ofFwdForest rest)

end Mode

/-- a stream operation every stream the callable may see supports in the same way (the `Writer` interface
    without `fileno`) -/
def StreamOp.common : StreamOp → Bool
  | .write | .print | .flush | .isatty => true
  | _ => false

end DoitModel.Act
