import DoitModel.Model.Run
/-! # Monitors of the run-family properties (decidable predicates over an observed trace)

`tr` is a trace oldest first (what `Run.trace` returns for the model, what the harness records for the
implementation).  The driver evaluates these on the **implementation's** trace; `Props/C01.lean`,
`Props/C02.lean` relate them to the model. -/
namespace DoitModel.Run

/-- the report that makes a dependency "finished being processed": executed successfully or up-to-date -/
def Ev.isFinishOf (d : Name) : Ev → Bool
  | .success n => n = d
  | .skipUtd n => n = d
  | _ => false

/-- terminal report of a task -/
def Ev.isTerminalOf (d : Name) : Ev → Bool
  | .success n => n = d
  | .skipUtd n => n = d
  | .skipIgn n => n = d
  | .failure n _ => n = d
  | _ => false

def Ev.isStartOf (d : Name) : Ev → Bool
  | .start n _ => n = d
  | _ => false

def Ev.isFinOf (d : Name) : Ev → Bool
  | .fin n _ => n = d
  | _ => false

/-- any event that names task `d` (reports, start, end) -/
def Ev.mentions (d : Name) : Ev → Bool
  | .getStatus n | .skipIgn n | .skipUtd n | .execute n | .success n | .failure n _ | .teardown n
  | .start n _ | .fin n _ | .go n _ => n = d
  | .complete => false

def finishedIn (tr : List Ev) (d : Name) : Bool := tr.any (Ev.isFinishOf d)

/-! ### dependencies of a task as known at a point of the trace -/

def addNew (acc : List Name) (xs : List Name) : List Name :=
  xs.foldl (fun a x => if x ∈ a then a else a ++ [x]) acc

/-- calc_deps of `t` including those delivered by calc tasks finished (executed/up-to-date) in `pre` -/
def calcsAt (inp : RunInput) (pre : List Ev) : Nat → List Name → List Name
  | 0, cs => cs
  | fuel + 1, cs =>
    calcsAt inp pre fuel
      (addNew cs ((cs.filter (finishedIn pre)).flatMap fun c => (inp.calcRes c).calcs))

/-- every task `t` depends on after the events `pre`: task_dep, setup, calc_dep and what finished calc_deps delivered -/
def depsAt (inp : RunInput) (nTasks : Nat) (pre : List Ev) (t : Name) : List Name :=
  inp.taskDep t ++ inp.setup t ++ calcsAt inp pre nTasks (inp.calcDep t) ++
    (((calcsAt inp pre nTasks (inp.calcDep t)).filter (finishedIn pre)).flatMap fun c =>
      (inp.calcRes c).tasks ++ (inp.calcRes c).files)

/-! ### C01 -/

/-- positions `i` with `tr[i] = start t _`: all deps known at `i` have a finish report before `i` -/
def orderFrom (inp : RunInput) (nTasks : Nat) : List Ev → List Ev → Bool
  | _, [] => true
  | pre, e :: rest =>
    (match e with
     | .start t _ => (depsAt inp nTasks pre t).all (finishedIn pre)
     | _ => true) && orderFrom inp nTasks (pre ++ [e]) rest

def monC01Order (inp : RunInput) (nTasks : Nat) (tr : List Ev) : Bool := orderFrom inp nTasks [] tr

/-- tasks whose actions are running after `pre` -/
def runningAfter (pre : List Ev) (nTasks : Nat) : List Name :=
  (List.range nTasks).filter fun t => (pre.filter (Ev.isStartOf t)).length > (pre.filter (Ev.isFinOf t)).length

/-- when `t` starts no task it depends on is running, and no running task depends on `t` -/
def overlapFrom (inp : RunInput) (nTasks : Nat) : List Ev → List Ev → Bool
  | _, [] => true
  | pre, e :: rest =>
    (match e with
     | .start t _ =>
       (runningAfter pre nTasks).all fun r =>
         r ∉ depsAt inp nTasks (pre ++ rest) t && t ∉ depsAt inp nTasks (pre ++ rest) r
     | _ => true) && overlapFrom inp nTasks (pre ++ [e]) rest

def monC01NoOverlap (inp : RunInput) (nTasks : Nat) (tr : List Ev) : Bool := overlapFrom inp nTasks [] tr

/-! ### C02 -/

def monC02AtMostOnce (nTasks : Nat) (tr : List Ev) : Bool :=
  (List.range nTasks).all fun t =>
    (tr.filter (Ev.isStartOf t)).length ≤ 1 && (tr.filter (Ev.isTerminalOf t)).length ≤ 1

/-- `select_task`'s first pass set `run_status = 'run'` for `t` (so its setup-tasks are needed): not ignored, status
    `run`, and every dep of the first stage finished (nothing failed or ignored among them) -/
def ranFirst (inp : RunInput) (nTasks : Nat) (tr : List Ev) (t : Name) : Bool :=
  !inp.ignored t && inp.statusOf t != .error && effStatus inp t == .run &&
  (inp.taskDep t ++ calcsAt inp tr nTasks (inp.calcDep t) ++
    (((calcsAt inp tr nTasks (inp.calcDep t)).filter (finishedIn tr)).flatMap fun c =>
      (inp.calcRes c).tasks ++ (inp.calcRes c).files)).all (finishedIn tr)

/-- one round of closing a set of tasks under the dependency kinds (the reading of "closure" fixed in DESIGN §5) -/
def closeOnce (inp : RunInput) (nTasks : Nat) (tr : List Ev) (cl : List Name) : List Name :=
  cl.foldl (fun acc t =>
    addNew acc (inp.taskDep t ++ calcsAt inp tr nTasks (inp.calcDep t) ++
      (((calcsAt inp tr nTasks (inp.calcDep t)).filter (finishedIn tr)).flatMap fun c =>
        (inp.calcRes c).tasks ++ (inp.calcRes c).files) ++
      (if ranFirst inp nTasks tr t then inp.setup t else []))) cl

def closureIter (inp : RunInput) (nTasks : Nat) (tr : List Ev) : Nat → List Name → List Name
  | 0, cl => cl
  | fuel + 1, cl => closureIter inp nTasks tr fuel (closeOnce inp nTasks tr cl)

/-- the closure of the selection as far as this run determined it -/
def closureOf (inp : RunInput) (nTasks : Nat) (tr : List Ev) : List Name :=
  closureIter inp nTasks tr (nTasks + 1) (addNew [] inp.sel)

/-! #### the closure including what FAILED calc tasks delivered

`_process_calc_dep_results` reads `task.values` of a calc task whatever its `run_status`: a calc task whose execution
failed still delivers what its actions returned before the failing one (`Run.deliverF`, oracle `calcResFail`).  The
waiting task is reported unmet, but what was delivered is created and processed — it belongs to the closure this run
determined.  `closureOf` (executed / up-to-date deliveries only) is kept for the developments that are stated for inputs
without such values; on those the two coincide. -/

def Ev.isFailRepOf (d : Name) : Ev → Bool
  | .failure n _ => n = d
  | _ => false

/-- `c` was executed in `tr` (an action start is recorded) and reported failed -/
def failedRunIn (tr : List Ev) (c : Name) : Bool := tr.any (Ev.isStartOf c) && tr.any (Ev.isFailRepOf c)

/-- what calc task `c` delivered in the run `tr` -/
def resAt (inp : RunInput) (tr : List Ev) (c : Name) : CalcRes :=
  if finishedIn tr c then inp.calcRes c else if failedRunIn tr c then inp.calcResFail c else {}

def calcsAtF (inp : RunInput) (tr : List Ev) : Nat → List Name → List Name
  | 0, cs => cs
  | fuel + 1, cs => calcsAtF inp tr fuel (addNew cs (cs.flatMap fun c => (resAt inp tr c).calcs))

/-- `calcsAtF`, stopping as soon as a round adds nothing (equal to it: `Proofs/RunMonFast.lean`) -/
def calcsAtQ (inp : RunInput) (tr : List Ev) : Nat → List Name → List Name
  | 0, cs => cs
  | fuel + 1, cs =>
    if (addNew cs (cs.flatMap fun c => (resAt inp tr c).calcs)).length = cs.length then cs
    else calcsAtQ inp tr fuel (addNew cs (cs.flatMap fun c => (resAt inp tr c).calcs))

/-- the dependency edges of `t` that put tasks into the closure of this run -/
def closureSucc (inp : RunInput) (nTasks : Nat) (tr : List Ev) (t : Name) : List Name :=
  inp.taskDep t ++ calcsAtQ inp tr nTasks (inp.calcDep t) ++
    ((calcsAtQ inp tr nTasks (inp.calcDep t)).flatMap fun c => (resAt inp tr c).tasks ++ (resAt inp tr c).files) ++
    (if ranFirst inp nTasks tr t then inp.setup t else [])

/-- work-list closure: every member is expanded once (so that runs with hundreds of tasks can be judged) -/
def closureGo (succ : Name → List Name) : Nat → List Name → List Name → List Name
  | 0, _, acc => acc
  | _ + 1, [], acc => acc
  | fuel + 1, t :: todo, acc =>
    closureGo succ fuel (todo ++ ((addNew [] (succ t)).filter fun d => d ∉ acc))
      (acc ++ ((addNew [] (succ t)).filter fun d => d ∉ acc))

/-- the closure of the selection as far as this run determined it, deliveries of failed calc tasks included (a set:
    the order of the list means nothing) -/
def closureOfF (inp : RunInput) (nTasks : Nat) (tr : List Ev) : List Name :=
  closureGo (closureSucc inp nTasks tr) (nTasks + inp.sel.length + 1) (addNew [] inp.sel) (addNew [] inp.sel)

/-- C02 "nothing outside the closure is touched", given the closure -/
def insideClosureOn (clo : List Name) (nTasks : Nat) (tr : List Ev) : Bool :=
  (List.range nTasks).all fun t => tr.any (Ev.mentions t) → t ∈ clo

def monC02InsideClosure (inp : RunInput) (nTasks : Nat) (tr : List Ev) : Bool :=
  insideClosureOn (closureOfF inp nTasks tr) nTasks tr

/-- the run was not cut short: finished normally, and no failure stopped it -/
def runComplete (inp : RunInput) (tr : List Ev) (exit : Nat) : Bool :=
  exit ≤ 2 && tr.getLast? == some Ev.complete &&
  (inp.continue_ || !(tr.any fun e => match e with | .failure _ _ => true | _ => false))

/-- C02 "every member of the closure is processed exactly once in a complete run", given the closure -/
def allProcessedOn (clo : List Name) (inp : RunInput) (tr : List Ev) (exit : Nat) : Bool :=
  !runComplete inp tr exit || clo.all fun t => (tr.filter (Ev.isTerminalOf t)).length == 1

def monC02AllProcessed (inp : RunInput) (nTasks : Nat) (tr : List Ev) (exit : Nat) : Bool :=
  allProcessedOn (closureOfF inp nTasks tr) inp tr exit

end DoitModel.Run
