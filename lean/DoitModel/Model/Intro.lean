import DoitModel.Model.Status
/-! # M2/M8 — the introspection commands as programs over the dependency DB

Mirrors `doit/cmd_list.py` (`List._execute`, `_print_task`: `status_is_ignore`, else `get_status(task, tasks).status`,
`STATUS_MAP`), `doit/cmd_info.py` (`Info._execute`: `get_status(task, tasks, get_log=True)`, `get_reasons`),
`doit/cmd_clean.py` (`Clean.clean_tasks`: `forget_tasks = cleanforget and not dryrun`), and `cmd_help.py`,
`cmd_dumpdb.py`, `cmd_completion.py` (which never create a `Dependency` object), on top of the status model
`Model/Status.lean` (`statusOf` = `get_status(get_log=False)`; `get_status(get_log=True)` is `logStatus` below: the
final loop of the present tree, which also lists a dependency that the last recorded execution did not have).

A command is a function on the state of the status model plus the list of DB *write* operations it performs (the
only one any of these commands can perform is the `remove(task)` of `get_status` on a checker change).  None of
these commands calls `Dependency.close()` except `clean`, so what they remove reaches the disk only with a backend
whose `remove` is write-through (dbm); `Cmd.exec` is the effect on the DB *as the command's own process sees it*.
Core Lean only. -/
namespace DoitModel.Intro
open DoitModel.Status

/-- what `list --status` / `info` show and what `Runner.select_task` decides; `crash` = the unhandled `TypeError` -/
inductive Shown
  | ignore
  | upToDate
  | run
  | error
  | crash
deriving DecidableEq, Repr

def ofStatus : Status → Shown
  | .upToDate => .upToDate
  | .run => .run
  | .error => .error
  | .crash => .crash

/-- `List.STATUS_MAP` -/
def letter : Shown → Char
  | .ignore => 'I'
  | .upToDate => 'U'
  | .run => 'R'
  | .error => 'E'
  | .crash => '!'

/-- the decision of `Runner.select_task` (first pass, without `--always-execute`) for a task none of whose
    dependencies is ignored or failed: `status_is_ignore`, then `get_status(task, tasks_dict)` -/
def decision (s : St) (t : Name) : Shown :=
  if (s.rcd t).ign then .ignore else ofStatus (s.status true t)

/-- `List._print_task` with `status=True` -/
def listShown (s : St) (t : Name) : Shown :=
  if (s.rcd t).ign then .ignore else ofStatus (s.status true t)

/-- the effect of printing one line of `list -s`: an ignored task is not looked at, otherwise `get_status` runs -/
def listOne (s : St) (t : Name) : St :=
  if (s.rcd t).ign then s else step true s (.peek t)

/-- `list -s` over the print list (in print order): the states in which each line is produced are threaded -/
def listSt (s : St) (ts : List Name) : St := ts.foldl listOne s

def listRun : St → List Name → List Shown
  | _, [] => []
  | s, t :: rest => (if s.crashed then .crash else listShown s t) :: listRun (listOne s t) rest

/-! ## `get_status(get_log=True)` on the present tree

The final loop of `get_status` (after the `fix:` commit "a file_dep added back to a task is reported as changed"):
`if state is None or (previous_set is not None and dep not in previous_set) or check_modified(dep, file_stat, state)`.
The `or` short-circuits: `check_modified` (which may raise on a state of the wrong shape) is not called for a
dependency that is not in the saved `deps:` list.  `Status.statusLog` is the same computation with the loop of the
tree before that commit. -/

/-- `previous_set is not None and dep not in previous_set` -/
def notInPrev (r : Rcd) (p : Path) : Bool :=
  match r.deps with
  | none => false
  | some prev => !decide (p ∈ prev)

/-- the dependency exists and is appended to `changed` -/
def depListed (c : Checker) (r : Rcd) (fs : FS) (p : Path) : Bool :=
  match fs p with
  | none => false
  | some cur =>
    match r.fstate p with
    | none => true
    | some st => notInPrev r p || checkModified c st cur == .modified

/-- `check_modified` is reached for the dependency and raises -/
def depRaises (c : Checker) (r : Rcd) (fs : FS) (p : Path) : Bool :=
  match fs p with
  | none => false
  | some cur =>
    match r.fstate p with
    | none => false
    | some st => !notInPrev r p && checkModified c st cur == .crash

/-- `Dependency.get_status(task, tasks, get_log=True).status` on the present tree (after the `fix:` commit "status shown
    by `doit info` is the decision `doit run` takes"): every check runs and every reason is collected, but the status
    is the one of the **first** `add_reason` / `set_reason` call -- the point where the `get_log=False` call returns
    (`added_file_dep` / `removed_file_dep` are logged without deciding).  The file loop runs in any case, so a saved
    state of the wrong shape raises even where `get_log=False` would have left early. -/
def logStatus (c : Checker) (d : TaskDef) (r : Rcd) (fs : FS) (resOf : Name → Option Res) : Status :=
  if d.deps.any (depRaises c (logRcd c r) fs) then .crash
  else if earlyRun d r.getValues resOf fs || checkerChanged c r then .run
  else if d.deps.any (depMissing fs) then .error
  else if d.deps.any (depListed c (logRcd c r) fs) || depsChanged true (logRcd c r) d.deps then .run
  else .upToDate

def logStatusAt (s : St) (t : Name) : Status :=
  logStatus s.checker (s.defs t) (s.rcd t) s.fs s.resOf

/-- the same before that commit (F-C20): every `add_reason` / `set_reason` overwrote the status, so the **last** reason
    found decided: a missing dependency set `error`, but a `changed_file_dep` reason (set after the loop) set `run`
    again, and the early exits of `get_log=False` did not protect `run` from a later `error` -/
def logStatusPinned (c : Checker) (d : TaskDef) (r : Rcd) (fs : FS) (resOf : Name → Option Res) : Status :=
  if d.deps.any (depRaises c (logRcd c r) fs) then .crash
  else if d.deps.any (depListed c (logRcd c r) fs) then .run
  else if d.deps.any (depMissing fs) then .error
  else if earlyRun d r.getValues resOf fs || checkerChanged c r || depsChanged true (logRcd c r) d.deps then .run
  else .upToDate

def logStatusPinnedAt (s : St) (t : Name) : Status :=
  logStatusPinned s.checker (s.defs t) (s.rcd t) s.fs s.resOf

/-- `Info._execute` (tree as repaired): `status_is_ignore` first -- then nothing else is looked at --, else
    `get_status(task, tasks, get_log=True).status` -/
def infoShown (s : St) (t : Name) : Shown :=
  if (s.rcd t).ign then .ignore else ofStatus (logStatusAt s t)

/-- the pinned `Info._execute`: never consulted `ignore:` -/
def infoShownPinned (s : St) (t : Name) : Shown := ofStatus (logStatusPinnedAt s t)

/-- effect of `info t` (status shown): an ignored task is not looked at, otherwise `get_status(get_log=True)` runs -/
def infoOne (s : St) (t : Name) : St :=
  if s.crashed || (s.rcd t).ign then s
  else if logStatusAt s t == .crash then { s with crashed := true }
  else if checkerChanged s.checker (s.rcd t) then erase s t else s

/-- does `get_status` call `self.remove(task)` -/
def removesAt (getLog : Bool) (s : St) (t : Name) : Bool :=
  if getLog then logStatusAt s t != .crash && checkerChanged s.checker (s.rcd t)
  else s.status true t != .crash && removesRecord s.checker (s.defs t) (s.rcd t) s.fs s.resOf

/-- DB write operations of `list -s`: the tasks whose record is removed, in order -/
def listRemoves : St → List Name → List Name
  | _, [] => []
  | s, t :: rest =>
    (if !s.crashed && !(s.rcd t).ign && removesAt false s t then [t] else []) ++ listRemoves (listOne s t) rest

/-! ## the reasons `info` prints (`DependencyStatus.reasons` with `get_log=True`, rendered by `Info.get_reasons`) -/

structure Reasons where
  noDeps : Bool
  utdFalse : List Utd
  checkerChanged : Option (Checker × Checker)
  missingTarget : List Path
  changed : List Path
  missingDep : List Path
  removed : List Path
  added : List Path
deriving DecidableEq, Repr

def Reasons.none : Reasons := ⟨false, [], Option.none, [], [], [], [], []⟩

def prevDeps (r : Rcd) : List Path := r.deps.getD []

/-- the `checker_changed` reason: `(previous, current)` -/
def ckReason (c : Checker) (r : Rcd) : Option (Checker × Checker) :=
  match r.checker with
  | Option.none => Option.none
  | some c' => if c' ≠ c then some (c', c) else Option.none

/-- the reasons collected by `get_status(get_log=True)`; the per-file loop and the `deps:` test read the record
    *after* the removal on a checker change (`logRcd`) -/
def reasonsOf (c : Checker) (d : TaskDef) (r : Rcd) (fs : FS) (resOf : Name → Option Res) : Reasons :=
  { noDeps := d.deps.isEmpty && !utdEvaluated r.getValues resOf d.uptodate
    utdFalse := d.uptodate.filter fun u => evalUtd r.getValues resOf u == some false
    checkerChanged := ckReason c r
    missingTarget := d.targets.filter (depMissing fs)
    changed := d.deps.filter (depListed c (logRcd c r) fs)
    missingDep := d.deps.filter (depMissing fs)
    removed := if depsChanged true (logRcd c r) d.deps then (prevDeps (logRcd c r)).filter (· ∉ d.deps) else []
    added := if depsChanged true (logRcd c r) d.deps then d.deps.filter (· ∉ prevDeps (logRcd c r)) else [] }

def Reasons.isEmpty (x : Reasons) : Bool :=
  !x.noDeps && x.utdFalse.isEmpty && x.checkerChanged.isNone && x.missingTarget.isEmpty && x.changed.isEmpty
    && x.missingDep.isEmpty && x.removed.isEmpty && x.added.isEmpty

def infoReasons (s : St) (t : Name) : Reasons :=
  reasonsOf s.checker (s.defs t) (s.rcd t) s.fs s.resOf

/-- what `info t` prints: nothing for an ignored task -/
def infoPrinted (s : St) (t : Name) : Reasons :=
  if (s.rcd t).ign then Reasons.none else infoReasons s t

/-! ## the commands -/

inductive Cmd
  /-- `list [-s] [--all] [--deps] [-q] [-p] [--sort …] [--template …] [TASK…]`; `ts` = the print list in print order -/
  | list (status : Bool) (ts : List Name)
  /-- `info [--no-status] TASK` -/
  | info (t : Name) (hideStatus : Bool)
  /-- `clean [-n] [-c] [-a] [--forget] [TASK…]`; `ts` = the tasks cleaned, in clean order -/
  | clean (dry forget : Bool) (ts : List Name)
  | help
  | dumpdb
  | tabcompletion

/-- read-only commands: everything but a `clean` without `--dry-run` -/
def Cmd.readOnly : Cmd → Bool
  | .clean dry _ _ => dry
  | _ => true

/-- state of the DB (as the command's process sees it) after the command -/
def Cmd.exec : Cmd → St → St
  | .list true ts, s => listSt s ts
  | .list false _, s => s
  | .info t false, s => infoOne s t
  | .info _ true, s => s
  | .clean dry forget ts, s => if forget && !dry then ts.foldl erase s else s
  | .help, s => s
  | .dumpdb, s => s
  | .tabcompletion, s => s

/-- the DB write operations the command performs: `remove(task)` is the only kind -/
def Cmd.removes : Cmd → St → List Name
  | .list true ts, s => listRemoves s ts
  | .list false _, _ => []
  | .info t false, s => if !s.crashed && !(s.rcd t).ign && removesAt true s t then [t] else []
  | .info _ true, _ => []
  | .clean dry forget ts, _ => if forget && !dry then ts else []
  | .help, _ => []
  | .dumpdb, _ => []
  | .tabcompletion, _ => []

/-- does the command read or write any record through its `dep_manager` (every `DoitCmdBase` command *creates* a
    `Dependency` object -- which may create an empty DB file --, only these use it) -/
def Cmd.opensDb : Cmd → Bool
  | .list status _ => status
  | .info _ hide => !hide
  | .clean _ _ _ => true
  | _ => false

/-! ## the monitor: the property statement on what an implementation was seen to do

`dbBefore t` / `dbAfter t` are opaque fingerprints of the logical record of task `t` (`none` = no record at all),
`ckChanged t` says that the record before the command names another checker than the configured one. -/

/-- frame clause: every record is untouched, or wholly removed when (and only when) its checker differs -/
def frameHolds (ntasks : Nat) (dbBefore dbAfter : Name → Option Nat) (ckChanged : Name → Bool) : Bool :=
  (List.range ntasks).all fun t =>
    dbAfter t == dbBefore t || (ckChanged t && (dbAfter t).isNone)

/-- agreement clause: the shown status equals the decision `run` took for the task at that moment -/
def agreeHolds (shown ran : Shown) : Bool := shown == ran

end DoitModel.Intro
