/-! # M9 — persistence protocols of the three backends and what a kill leaves behind

A run of doit produces a list of *DB effects* in order (`save t r` when task `t` succeeded, `remove t` when it
failed).  Each backend turns them into a sequence of *disk primitives*; a kill (`SIGKILL`) can strike before any
primitive or inside one.  What a later invocation can read back is `Recovered`.

What is modelled from doit (`doit/dependency.py`, `doit/runner.py`):
* `JsonDB`: every effect stays in memory; `dump()` = `open(name,'w')` (truncate) + buffered writes of the whole text.
* `DbmDB`: `remove` is write-through (`del self._dbm[t]`, which commits the index at once); `set` is deferred:
  `dump()` writes every dirty record (`self._dbm[t] = …`, in the iteration order of a `set`) and then `close()`s.
* `SqliteDB`: `remove` executes `delete` inside the connection's open transaction; `set` is deferred; `dump()` executes
  `insert or replace` for every dirty record, then `commit()`.
* `Runner.finish` → `Dependency.close` → `dump()` runs once, at the end (also after an interruption: `try/finally`).

What is *assumed* about the layers below (validated by the kill-point enumeration, never proved):
* (A1) a proper prefix of the JSON text of an object is rejected by `json` (`DatabaseException`, exit 3);
* (A2) SQLite's commit is atomic: a connection killed before `commit()` returns leaves the last committed content;
* (A3) `dbm.dumb`: a record written by `__setitem__` but not yet committed reads back as the old record, the new
  record, or garbage that `json` rejects (stale `(pos,siz)` pointer); a kill inside `_commit` (unlink `.bak`,
  rename `.dir`→`.bak`, rewrite `.dir`) leaves an index with a subset of the entries or one that cannot be parsed.
The outcomes the assumptions leave open are explicit *choices* (`SetSeen`, `keep`), so the model is a function;
theorems quantify over all choices.
-/
namespace DoitModel.Crash

abbrev T := Nat    -- task id
abbrev R := Nat    -- a whole task record (abstract content id)
abbrev Store := T → Option R

inductive Eff | save (t : T) (r : R) | remove (t : T)
deriving DecidableEq, Repr

def applyEff (s : Store) : Eff → Store
  | .save t r => fun x => if x = t then some r else s x
  | .remove t => fun x => if x = t then none else s x

/-- the logical DB content after the first `j` effects -/
def logical (old : Store) (effs : List Eff) (j : Nat) : Store := (effs.take j).foldl applyEff old
def finalStore (old : Store) (effs : List Eff) : Store := effs.foldl applyEff old

/-- what a later invocation reads for one task -/
inductive Slot | absent | rcd (r : R) | corrupt
deriving DecidableEq, Repr

def slotOf : Option R → Slot
  | none => .absent
  | some r => .rcd r

inductive Recovered | unreadable | store (f : T → Slot)

/-- what is read for task `t` (`none`: the DB as a whole is unreadable) -/
def Recovered.slot? : Recovered → T → Option Slot
  | .unreadable, _ => none
  | .store f, t => some (f t)

/-- a readable record is *legitimate* when it is the record present before the run or one saved by a successful
    execution during the run: the DB never shows a record nobody wrote -/
def Legit (old : Store) (effs : List Eff) (t : T) (r : R) : Prop := old t = some r ∨ Eff.save t r ∈ effs

def SlotLegit (old : Store) (effs : List Eff) (t : T) : Slot → Prop
  | .absent => True
  | .corrupt => True
  | .rcd r => Legit old effs t r

/-! ## JsonDB -/
inductive JDisk | missing | complete (s : Store) | torn

inductive JPrim | trunc | chunk | last (s : Store)

def jApply (_ : JDisk) : JPrim → JDisk
  | .trunc => .torn
  | .chunk => .torn
  | .last s => .complete s

/-- `dump()` with `m` non-final buffered writes -/
def jsonProtocol (old : Store) (effs : List Eff) (m : Nat) : List JPrim :=
  .trunc :: (List.replicate m .chunk ++ [.last (finalStore old effs)])

def jDiskOf (old : Store) (existed : Bool) : JDisk := if existed then .complete old else .missing

/-- A1: a partial file is rejected; no file means an empty DB -/
def jRecover : JDisk → Recovered
  | .missing => .store (fun _ => .absent)
  | .complete s => .store (fun t => slotOf (s t))
  | .torn => .unreadable

/-- kill after `k` completed primitives (a kill inside a write primitive leaves it undone: writes of one buffer are
    atomic with respect to the death of the process) -/
def jsonCrash (old : Store) (existed : Bool) (effs : List Eff) (m k : Nat) : Recovered :=
  jRecover (((jsonProtocol old effs m).take k).foldl jApply (jDiskOf old existed))

/-! ## SqliteDB -/
inductive QPrim | delete (t : T) | upsert (t : T) (r : R) | commit
deriving DecidableEq, Repr

structure QDisk where
  committed : Store
  txn : Store

def qApply (d : QDisk) : QPrim → QDisk
  | .delete t => { d with txn := fun x => if x = t then none else d.txn x }
  | .upsert t r => { d with txn := fun x => if x = t then some r else d.txn x }
  | .commit => { committed := d.txn, txn := d.txn }

/-- the dirty records at dump time: the last `save` of a task that no later `remove` cancelled, in the order `order`
    visits them (`order` stands for the iteration order of the `_dirty` set) -/
def dirtyOf (effs : List Eff) : List (T × R) :=
  effs.foldl (fun acc e => match e with
    | .save t r => (acc.filter (·.1 ≠ t)) ++ [(t, r)]
    | .remove t => acc.filter (·.1 ≠ t)) []

def removesOf (effs : List Eff) : List T :=
  effs.filterMap (fun e => match e with | .remove t => some t | .save _ _ => none)

/-- removes hit the connection immediately (in effect order); saves are written at dump, then `commit` -/
def sqliteProtocol (effs : List Eff) (dirty : List (T × R)) : List QPrim :=
  (removesOf effs).map .delete ++ dirty.map (fun p => .upsert p.1 p.2) ++ [.commit]

/-- A2: only committed content survives -/
def qRecover (d : QDisk) : Recovered := .store (fun t => slotOf (d.committed t))

def sqliteCrash (old : Store) (effs : List Eff) (dirty : List (T × R)) (k : Nat) : Recovered :=
  qRecover (((sqliteProtocol effs dirty).take k).foldl qApply { committed := old, txn := old })

/-! ## DbmDB on dbm.dumb -/
inductive DPrim | del (t : T) | set (t : T) (r : R) | close
deriving DecidableEq, Repr

/-- how an uncommitted `__setitem__` reads back (A3) -/
inductive SetSeen | old | new | garbage
deriving DecidableEq, Repr

structure DDisk where
  mem : Store          -- dumb's in-memory index → value: what a completed commit persists
  disk : T → Slot      -- what a fresh open would read now
  broken : Bool        -- the index file cannot be parsed

def commitDisk (mem : Store) : T → Slot := fun t => slotOf (mem t)

/-- a *completed* primitive; `seen` resolves A3 for `set` -/
def dApply (seen : SetSeen) (d : DDisk) : DPrim → DDisk
  | .del t =>
    let mem' : Store := fun x => if x = t then none else d.mem x
    { mem := mem', disk := commitDisk mem', broken := false }
  | .set t r =>
    { d with mem := fun x => if x = t then some r else d.mem x,
             disk := fun x => if x = t then (match seen with
                                             | .old => d.disk x
                                             | .new => .rcd r
                                             | .garbage => .corrupt) else d.disk x }
  | .close => { d with disk := commitDisk d.mem, broken := false }

/-- a kill *inside* a primitive: `set` behaves like a completed one with some `seen` (or is not visible at all:
    `seen = old`); `del`/`close` are killed inside `_commit`: the index is unparsable (`torn`) or holds the subset
    `keep` of the entries -/
def dCrashIn (seen : SetSeen) (torn : Bool) (keep : T → Bool) (d : DDisk) : DPrim → DDisk
  | .set t r => dApply seen d (.set t r)
  | .del t =>
    let mem' : Store := fun x => if x = t then none else d.mem x
    { mem := mem', disk := fun x => if keep x then commitDisk mem' x else .absent, broken := torn }
  | .close => { d with disk := fun x => if keep x then commitDisk d.mem x else .absent, broken := torn }

/-- write-through removes in effect order, then at dump every dirty record, then close -/
def dbmProtocol (effs : List Eff) (dirty : List (T × R)) : List DPrim :=
  (removesOf effs).map .del ++ dirty.map (fun p => .set p.1 p.2) ++ [.close]

def dRecover (d : DDisk) : Recovered := if d.broken then .unreadable else .store d.disk

def dInit (old : Store) : DDisk := { mem := old, disk := fun t => slotOf (old t), broken := false }

/-- run `k` primitives to completion (each with its own A3 outcome `seens i`), then optionally die inside the next -/
def dbmRun (seens : Nat → SetSeen) : Nat → DDisk → List DPrim → DDisk
  | _, d, [] => d
  | i, d, p :: ps => dbmRun seens (i + 1) (dApply (seens i) d p) ps

def dbmCrash (old : Store) (effs : List Eff) (dirty : List (T × R)) (seens : Nat → SetSeen) (k : Nat)
    (inside : Option (SetSeen × Bool × (T → Bool))) : Recovered :=
  let prims := dbmProtocol effs dirty
  let d := dbmRun seens 0 (dInit old) (prims.take k)
  match inside, prims[k]? with
  | some (seen, torn, keep), some p => dRecover (dCrashIn seen torn keep d p)
  | _, _ => dRecover d

/-! ## interruption: `Runner.run_all` is `try: run_tasks … finally: finish()` and `finish` flushes once -/

/-- outcome of the tasks of a serial run, in execution order -/
inductive Outcome | ok (r : R) | fail | interrupt
deriving DecidableEq, Repr

/-- effects of a run that stops at the first `interrupt` (the exception leaves `run_tasks`); a failing task
    removes its record; without `--continue` the run also stops after the first failure -/
def runEffects (continue_ : Bool) : List (T × Outcome) → List Eff
  | [] => []
  | (t, .ok r) :: rest => .save t r :: runEffects continue_ rest
  | (t, .fail) :: rest => .remove t :: (if continue_ then runEffects continue_ rest else [])
  | (_, .interrupt) :: _ => []

/-- tasks reported successful before the run ended -/
def reportedOk (continue_ : Bool) : List (T × Outcome) → List (T × R)
  | [] => []
  | (t, .ok r) :: rest => (t, r) :: reportedOk continue_ rest
  | (_, .fail) :: rest => if continue_ then reportedOk continue_ rest else []
  | (_, .interrupt) :: _ => []

/-- the DB a later invocation sees after the (always executed) flush -/
def afterRun (old : Store) (continue_ : Bool) (plan : List (T × Outcome)) : Store :=
  finalStore old (runEffects continue_ plan)

/-! ### `Runner.finish`: flush first, then the teardown actions (each may be interrupted too) -/

inductive FinStep | flush | teardown (t : T)
deriving DecidableEq, Repr

/-- `finish()` = `dep_manager.close()` then `teardown()` over the registered tasks in reverse order of execution -/
def finishSteps (tdList : List T) : List FinStep := .flush :: tdList.reverse.map .teardown

/-- the persisted store after `finish()` was left by a `BaseException` raised inside its `k`-th step
    (`k ≥ steps.length`: not interrupted): only a completed `flush` persists the in-memory effects -/
def persistedAfterFinish (old mem : Store) (tdList : List T) (k : Nat) : Store :=
  if FinStep.flush ∈ (finishSteps tdList).take k then mem else old

end DoitModel.Crash
